// C09 — decoders fail cleanly on arbitrary untrusted input: no panic,
// termination, memory bounded by a constant plus a multiple of the input size.
package c09

import (
	"io"
	"math"
	"bytes"
	"encoding/base64"
	"encoding/binary"
	"fmt"
	"os"
	"runtime"
	"strings"
	"testing"
	"time"
	"unicode/utf8"

	"github.com/ipfs/go-cid"
	"github.com/ipld/go-ipld-prime"
	"github.com/ipld/go-ipld-prime/node/basicnode"
	"github.com/ipld/go-ipld-prime/codec/dagcbor"
	"github.com/ipld/go-ipld-prime/codec/dagjson"
	"pgregory.net/rapid"

	"github.com/ucan-wg/go-ucan/did"
	"github.com/ucan-wg/go-ucan/pkg/command"
	"github.com/ucan-wg/go-ucan/pkg/container"
	"github.com/ucan-wg/go-ucan/pkg/meta"
	"github.com/ucan-wg/go-ucan/pkg/policy"
	"github.com/ucan-wg/go-ucan/pkg/policy/selector"
	"github.com/ucan-wg/go-ucan/token"
	"github.com/ucan-wg/go-ucan/token/delegation"
	"github.com/ucan-wg/go-ucan/token/invocation"

	"verif/harness/api"
	"verif/harness/cbor"
	"verif/harness/chain"
	"verif/harness/ctr"
	"verif/harness/env"
	"verif/harness/h"
	_ "verif/harness/warm"
	"verif/harness/keys"
	"verif/harness/pol"
	"verif/harness/sel"
	"verif/harness/tok"
	"verif/harness/val"
)

var P = h.New("C09", "exploration",
	"entry points: token.{FromSealed,FromSealedReader,FromDagCbor,FromDagJson}, typed delegation/invocation equivalents and FromIPLD, token.Inspect/FindTag, container.{FromCbor,FromCborBase64,FromCar,FromCarBase64}, policy.{FromIPLD,FromDagJson}, Policy.{Match,PartialMatch}, selector.Parse, Selector.Select, did.Parse + DID.PubKey + did.ToPubKey, command.Parse, ExecutionAllowed on decoded tokens. Inputs: (signed) correctly signed envelopes around hostile payloads (wrong kinds, integers beyond 2^53 / int64, NaN/Inf, deep nesting, huge strings), also wrapped in containers; (issuer) iss = valid multicodec + invalid key material of every length 0..70 for every codec; (mutated) valid artefacts with 1..4 byte-level mutations incl. hostile length heads; (node) hostile IPLD nodes for the node-level entry points with generated policies / selectors; (constants) CBOR heads declaring 2^16..2^63 entries, CAR sections declaring 0 / 2^25+-1 / 2^63 bytes, over-long uvarints, bad base64; (scaling) deep and wide families at n, 2n, 4n, 8n. Oracle: no panic; the call returns (a test time-out with the case on disk is reported as a hang); TotalAlloc delta <= 48 MiB + 1 KiB x len(input). Non-trivial = the input reaches past the first decoding step of its entry point (is decodable CBOR/JSON, carries a valid signature, or parses as selector / DID). Distinct by (entry point, family, structural hash).")

func TestMain(m *testing.M) { os.Exit(P.Main(m)) }
func TestReplay(t *testing.T) { P.Replay(t) }

const (
	memConst  = 48 << 20
	memFactor = 1 << 10
)

// Case is one call of one entry point.
type Case struct {
	Target string     `json:"target"`
	Fam    string     `json:"fam"`
	Bytes  []byte     `json:"bytes,omitempty"`
	Str    string     `json:"str,omitempty"`
	Node   *val.V     `json:"node,omitempty"`
	Pol    pol.Policy `json:"pol,omitempty"`
	Sel    sel.Sel    `json:"sel,omitempty"`
	// Fill > 0: the input is Bytes followed by Fill bytes of value FillByte (inputs of tens of MiB are described, not
	// stored: the case on disk stays small)
	Fill     int  `json:"fill,omitempty"`
	FillByte byte `json:"fill_byte,omitempty"`
}

type target struct {
	kind string // bytes | string | node | polnode | selnode
	call func(cs Case)
	// reach reports whether the input got past the first decoding step
	reach func(cs Case) bool
}

func isCBOR(b []byte) bool { _, err := ipld.Decode(b, dagcbor.Decode); return err == nil }
func isJSON(b []byte) bool { _, err := ipld.Decode(b, dagjson.Decode); return err == nil }
func unb64(b []byte) []byte {
	out, err := ctr.Unbase64(b)
	if err != nil {
		return nil
	}
	return out
}
func isCAR(b []byte) bool { _, bounds, _ := ctr.CarSections(b); return len(bounds) > 0 }

var targets = map[string]target{
	"token.FromSealed":       {"bytes", func(cs Case) { token.FromSealed(cs.Bytes) }, func(cs Case) bool { return isCBOR(cs.Bytes) }},
	"token.FromSealedReader": {"bytes", func(cs Case) { token.FromSealedReader(bytes.NewReader(cs.Bytes)) }, func(cs Case) bool { return isCBOR(cs.Bytes) }},
	"token.FromDagCbor":      {"bytes", func(cs Case) { token.FromDagCbor(cs.Bytes) }, func(cs Case) bool { return isCBOR(cs.Bytes) }},
	"token.FromDagJson":      {"bytes", func(cs Case) { token.FromDagJson(cs.Bytes) }, func(cs Case) bool { return isJSON(cs.Bytes) }},
	"delegation.FromSealed":  {"bytes", func(cs Case) { delegation.FromSealed(cs.Bytes) }, func(cs Case) bool { return isCBOR(cs.Bytes) }},
	"delegation.FromDagJson": {"bytes", func(cs Case) { delegation.FromDagJson(cs.Bytes) }, func(cs Case) bool { return isJSON(cs.Bytes) }},
	"invocation.FromSealed":  {"bytes", func(cs Case) { invocation.FromSealed(cs.Bytes) }, func(cs Case) bool { return isCBOR(cs.Bytes) }},
	"invocation.FromSealedReader": {"bytes", func(cs Case) { invocation.FromSealedReader(bytes.NewReader(cs.Bytes)) }, func(cs Case) bool { return isCBOR(cs.Bytes) }},
	"invocation.FromDagJson": {"bytes", func(cs Case) { invocation.FromDagJson(cs.Bytes) }, func(cs Case) bool { return isJSON(cs.Bytes) }},
	"container.FromCbor":     {"bytes", func(cs Case) { container.FromCbor(cs.Bytes) }, func(cs Case) bool { return isCBOR(cs.Bytes) }},
	"container.FromCborBase64": {"bytes", func(cs Case) { container.FromCborBase64(cs.Bytes) }, func(cs Case) bool { return isCBOR(unb64(cs.Bytes)) }},
	"container.FromCar":      {"bytes", func(cs Case) { container.FromCar(cs.Bytes) }, func(cs Case) bool { return isCAR(cs.Bytes) }},
	"container.FromCarBase64": {"bytes", func(cs Case) { container.FromCarBase64(cs.Bytes) }, func(cs Case) bool { return isCAR(unb64(cs.Bytes)) }},
	"container.FromCarReader": {"bytes", func(cs Case) { container.FromCarReader(bytes.NewReader(cs.Bytes)) }, func(cs Case) bool { return isCAR(cs.Bytes) }},
	"container.FromCarBase64Reader":  {"bytes", func(cs Case) { container.FromCarBase64Reader(bytes.NewReader(cs.Bytes)) }, func(cs Case) bool { return isCAR(unb64(cs.Bytes)) }},
	"container.FromCborReader":       {"bytes", func(cs Case) { container.FromCborReader(bytes.NewReader(cs.Bytes)) }, func(cs Case) bool { return isCBOR(cs.Bytes) }},
	"container.FromCborBase64Reader": {"bytes", func(cs Case) { container.FromCborBase64Reader(bytes.NewReader(cs.Bytes)) }, func(cs Case) bool { return isCBOR(unb64(cs.Bytes)) }},
	"policy.FromDagJson":     {"string", func(cs Case) { policy.FromDagJson(cs.Str) }, func(cs Case) bool { return isJSON([]byte(cs.Str)) }},
	"selector.Parse":         {"string", func(cs Case) { selector.Parse(cs.Str) }, func(cs Case) bool { _, err := selector.Parse(cs.Str); return err == nil }},
	"command.Parse":          {"string", func(cs Case) { command.Parse(cs.Str); command.IsValid(cs.Str) }, func(cs Case) bool { return strings.HasPrefix(cs.Str, "/") }},
	"did.Parse+PubKey": {"string", func(cs Case) {
		if d, err := did.Parse(cs.Str); err == nil {
			d.PubKey()
			_ = d.String()
			d.Defined()
		}
		did.ToPubKey(cs.Str)
	}, func(cs Case) bool { _, err := did.Parse(cs.Str); return err == nil }},
	"token.Inspect+FindTag": {"node", func(cs Case) { n := cs.Node.Node(); token.Inspect(n); token.FindTag(n) }, func(cs Case) bool { return cs.Node.K == "list" }},
	"delegation.FromIPLD":   {"node", func(cs Case) { delegation.FromIPLD(cs.Node.Node()) }, func(cs Case) bool { return cs.Node.K == "list" }},
	"invocation.FromIPLD":   {"node", func(cs Case) { invocation.FromIPLD(cs.Node.Node()) }, func(cs Case) bool { return cs.Node.K == "list" }},
	"policy.FromIPLD":       {"node", func(cs Case) { policy.FromIPLD(cs.Node.Node()) }, func(cs Case) bool { return cs.Node.K == "list" }},
	// a policy that a decoder lets through is then USED: matched against a few argument values (the decode-then-match
	// sequence every validator runs)
	"policy.FromIPLD+Match": {"node", func(cs Case) {
		p, err := policy.FromIPLD(cs.Node.Node())
		if err != nil {
			return
		}
		for _, d := range matchPanel {
			p.Match(d)
			p.PartialMatch(d)
		}
		_ = p.String()
		_, _ = p.ToIPLD()
	}, func(cs Case) bool { return cs.Node.K == "list" }},
	"Policy.Match+PartialMatch": {"polnode", func(cs Case) {
		p, err := cs.Pol.Build(true)
		if err != nil {
			return
		}
		n := cs.Node.Node()
		p.Match(n)
		p.PartialMatch(n)
		_ = p.String()
	}, func(cs Case) bool { _, err := cs.Pol.Build(true); return err == nil && len(cs.Pol) > 0 }},
	"meta.GetEncrypted": {"bytes", func(cs Case) {
		// a decoded token's metadata is attacker-controlled: reading a value "encrypted" by someone else
		m := meta.NewMeta()
		if err := m.Add("k", cs.Bytes); err != nil {
			return
		}
		key := bytes.Repeat([]byte{7}, 32)
		m.GetEncryptedString("k", key)
		m.GetEncryptedBytes("k", key)
		m.ReadOnly().GetEncryptedBytes("k", key[:16])
		_ = m.String()
	}, func(cs Case) bool { return len(cs.Bytes) >= 40 }},
	"Selector.Select": {"selnode", func(cs Case) {
		s, err := selector.Parse(cs.Sel.Text())
		if err != nil {
			return
		}
		s.Select(cs.Node.Node())
	}, func(cs Case) bool { return len(cs.Sel) > 0 }},
}

func inputLen(cs Case) int {
	n := len(cs.Bytes) + len(cs.Str)
	if cs.Node != nil {
		n += len(cs.Node.String())
	}
	return n
}

// innerCBOR lists the byte strings that the given entry point hands to the
// DAG-CBOR decoder: the input itself (token decoders), its base64 decoding
// (base64 containers), the CAR header and sections, and the byte-string items
// nested in a container (its entries). JSON and text entry points never reach
// the DAG-CBOR decoder.
func innerCBOR(cs Case) [][]byte {
	var out [][]byte
	add := func(b []byte) {
		if len(b) > 0 {
			out = append(out, b)
		}
	}
	raw := cs.Bytes
	t := cs.Target
	if strings.Contains(strings.ToLower(t), "json") || targets[t].kind != "bytes" {
		return nil
	}
	if strings.HasSuffix(t, "Base64") {
		clean := strings.NewReplacer("\n", "", "\r", "").Replace(string(raw))
		if d, err := base64.StdEncoding.DecodeString(clean); err == nil {
			raw = d
		} else {
			// a base64 stream decoder hands over the clean prefix before failing
			raw = nil
			for cut := len(clean) - len(clean)%4; cut > 0; cut -= 4 {
				if d, err := base64.StdEncoding.DecodeString(clean[:cut]); err == nil {
					raw = d
					break
				}
			}
		}
	}
	if strings.Contains(t, "Car") {
		// CAR framing: uvarint length + payload, repeatedly
		off := 0
		for i := 0; off < len(raw) && i < 256; i++ {
			l, n := binary.Uvarint(raw[off:])
			if n <= 0 || l == 0 || l > uint64(len(raw)-off-n) {
				break
			}
			sec := raw[off+n : off+n+int(l)]
			if i == 0 {
				add(sec) // header
			} else if cl, _, err := cid.CidFromBytes(sec); err == nil {
				add(sec[cl:])
			}
			off += n + int(l)
		}
		return out
	}
	add(raw)
	if strings.Contains(t, "container.") {
		if it, _, err := cbor.Parse(raw); err == nil {
			it.Walk(func(x *cbor.Item) {
				if x.Major == 2 && len(x.Data) > 0 {
					add(x.Data)
				}
			})
		}
	}
	return out
}

func declaredTooLong(cs Case) bool {
	for _, b := range innerCBOR(cs) {
		if cbor.DeclaredTooLong(b) {
			return true
		}
	}
	return false
}

var excludedDeclared int

const hangAfter = 150 * time.Second

func run(c *h.Ctx, cs Case) {
	if cs.Fill > 0 {
		cs.Bytes = append(append(make([]byte, 0, len(cs.Bytes)+cs.Fill), cs.Bytes...), bytes.Repeat([]byte{cs.FillByte}, cs.Fill)...)
	}
	tg, ok := targets[cs.Target]
	if !ok {
		c.Inconclusive("unknown target %q", cs.Target)
	}
	known := false
	if tg.kind == "bytes" || tg.kind == "string" {
		if declaredTooLong(cs) {
			known = true
			// known finding C09/mem/dagcbor-declared-length: excluded from the main
			// campaign by construction (each hit costs 0.1-1 GB); a bounded number is
			// still executed so that panics / hangs behind it are not masked
			excludedDeclared++
			c.P.Class("excluded:declared-length")
			if excludedDeclared > 25 && c.Mode == "rapid" {
				return
			}
		}
	}
	var ms0, ms1 runtime.MemStats
	runtime.ReadMemStats(&ms0)
	t0 := time.Now()
	// "always terminates": the call runs beside a watchdog. Inputs here are at most a few hundred KB and come back in
	// milliseconds (the slowest scaling families in seconds); a call that is still out after hangAfter is reported as
	// not terminating, with the case on disk - the process ends there, a spinning call cannot be stopped.
	var pn bool
	var pv any
	var stack string
	done := make(chan struct{})
	go func() {
		defer close(done)
		pn, pv, stack = h.Try(func() { tg.call(cs) })
	}()
	wd := time.NewTimer(hangAfter)
	select {
	case <-done:
		wd.Stop()
	case <-wd.C:
		c.FailExit("C09/hang/"+cs.Target+"/"+cs.Fam, "%s has not returned after %s on a %s input (%d bytes): %s", cs.Target, hangAfter, cs.Fam, inputLen(cs), sampleOf(cs))
	}
	dur := time.Since(t0)
	runtime.ReadMemStats(&ms1)
	alloc := ms1.TotalAlloc - ms0.TotalAlloc
	c.P.Class("target:" + cs.Target)
	c.P.Class("fam:" + cs.Fam)
	if pn {
		c.P.PanicSeen()
		where := panicSite(stack)
		c.Fail("C09/panic/"+cs.Target+"/"+where, "%s panicked on a %s input (%d bytes): %v\n%s", cs.Target, cs.Fam, inputLen(cs), pv, trimStack(stack))
		return
	}
	bound := uint64(memConst + memFactor*inputLen(cs))
	if alloc > bound && !known && (tg.kind == "bytes" || tg.kind == "string") {
		// the structural predicate can lose track on a mutated input that is malformed before the hostile head;
		// the structure-blind form of the same predicate decides then (same root cause, same signature)
		for _, b := range innerCBOR(cs) {
			if cbor.DeclaredTooLongAnywhere(b) {
				known = true
				c.P.Class("declared-length-by-blind-predicate")
			}
		}
	}
	if alloc > bound {
		if known {
			c.Fail("C09/mem/dagcbor-declared-length", "%s allocated %d MiB for a %d-byte input whose CBOR declares more entries than it has bytes", cs.Target, alloc>>20, inputLen(cs))
		} else {
			c.Fail("C09/mem/"+cs.Target+"/"+cs.Fam, "%s allocated %d bytes (%d MiB) for a %d-byte input; bound is 48 MiB + 1 KiB per input byte = %d", cs.Target, alloc, alloc>>20, inputLen(cs), bound)
		}
		return
	}
	if dur > 30*time.Second {
		c.Fail("C09/slow/"+cs.Target+"/"+cs.Fam, "%s took %s on a %d-byte input", cs.Target, dur, inputLen(cs))
		return
	}
	if tg.reach(cs) {
		c.P.NonTrivial([]any{cs.Target, cs.Fam, structHash(cs)}, map[string]any{"target": cs.Target, "family": cs.Fam, "input_len": inputLen(cs), "alloc_bytes": alloc, "sample": sampleOf(cs)})
		c.P.Class("reached:" + cs.Target)
	}
}

func sampleOf(cs Case) string {
	switch {
	case cs.Str != "":
		return fmt.Sprintf("%.120q", cs.Str)
	case cs.Node != nil:
		return fmt.Sprintf("%.200s", cs.Node.String())
	}
	return fmt.Sprintf("%.120x", cs.Bytes)
}

func structHash(cs Case) string {
	if cs.Node != nil {
		return cs.Node.Shape() + fmt.Sprint(len(cs.Pol), cs.Sel.KindSeq())
	}
	if cs.Str != "" {
		return cs.Str
	}
	return string(cs.Bytes)
}

func panicSite(stack string) string {
	for _, ln := range strings.Split(stack, "\n") {
		if strings.Contains(ln, "go-ucan/") && !strings.Contains(ln, "verif/harness") && strings.Contains(ln, "(") && !strings.HasPrefix(ln, "\t") {
			f := ln[strings.LastIndex(ln, "/")+1:]
			if i := strings.Index(f, "("); i > 0 {
				f = f[:i]
			}
			return f
		}
	}
	return "unknown"
}

func trimStack(stack string) string {
	lines := strings.Split(stack, "\n")
	var out []string
	for _, ln := range lines {
		if strings.Contains(ln, "go-ucan") || strings.Contains(ln, "go-ipld-prime") || strings.Contains(ln, "panic") {
			out = append(out, ln)
		}
		if len(out) > 14 {
			break
		}
	}
	return strings.Join(out, "\n")
}

// ---------- generators ----------

var byteTargets, stringTargets, nodeTargets, opaqueTargets []string

var jsonTargets = []string{"token.FromDagJson", "delegation.FromDagJson", "invocation.FromDagJson"}

func init() {
	for _, n := range []string{"token.FromSealed", "token.FromSealedReader", "token.FromDagCbor", "delegation.FromSealed", "invocation.FromSealed", "invocation.FromSealedReader"} {
		byteTargets = append(byteTargets, n)
	}
	byteTargets = append(byteTargets, "meta.GetEncrypted")
	// every other public decode entry point (harness/api): the less travelled ones too
	for _, format := range []string{"cbor", "json"} {
		for _, d := range api.Decoders(format) {
			d := d
			if _, have := targets[d.Name]; have {
				continue
			}
			reach := isCBOR
			if format == "json" {
				reach = isJSON
			}
			targets[d.Name] = target{"bytes", func(cs Case) { d.Bytes(cs.Bytes) }, func(cs Case) bool { return reach(cs.Bytes) }}
			if format == "json" {
				jsonTargets = append(jsonTargets, d.Name)
			} else {
				byteTargets = append(byteTargets, d.Name)
			}
			if d.Stream {
				// the same entry point fed from a source that is nothing but an io.Reader (a socket, a pipe): no Len,
				// no Seek, no WriteTo for the decoder to size or shortcut the input with
				on := d.Name + "/opaque-source"
				targets[on] = target{"bytes", func(cs Case) { d.F(struct{ io.Reader }{bytes.NewReader(cs.Bytes)}) }, func(cs Case) bool { return reach(cs.Bytes) }}
				opaqueTargets = append(opaqueTargets, on)
			}
		}
	}
	stringTargets = []string{"policy.FromDagJson", "selector.Parse", "command.Parse", "did.Parse+PubKey"}
	nodeTargets = []string{"token.Inspect+FindTag", "delegation.FromIPLD", "invocation.FromIPLD", "policy.FromIPLD", "policy.FromIPLD+Match"}
}

var hostileCfg = val.Cfg{Depth: 3, MaxLen: 4, Hostile: true, NonFinite: true, Keys: []string{"a", "b", "", "x", "é", "/", "iss", "h"}}

func hostileLeaf(t *rapid.T, label string) val.V {
	switch rapid.IntRange(0, 9).Draw(t, label+"_hl") {
	case 0:
		return val.Uint(rapid.Uint64Range(1<<63, ^uint64(0)).Draw(t, label+"_u"))
	case 1:
		return val.Int(rapid.SampledFrom(val.IntHostile).Draw(t, label+"_i"))
	case 2:
		return val.Str(strings.Repeat(rapid.SampledFrom([]string{"a", "é", "*", "\\", ".", "["}).Draw(t, label+"_ch"), rapid.IntRange(0, 3000).Draw(t, label+"_rep")))
	case 3:
		return val.V{K: "strb", X: rapid.SliceOfN(rapid.Byte(), 0, 12).Draw(t, label+"_sb")} // invalid UTF-8
	case 4:
		return val.Bytes(make([]byte, rapid.IntRange(0, 5000).Draw(t, label+"_bl")))
	default:
		return val.Gen(t, hostileCfg)
	}
}

// deepValue nests lists / maps depth times.
func deepValue(depth int, asMap bool) val.V {
	v := val.Int(1)
	for i := 0; i < depth; i++ {
		if asMap {
			v = val.Map(val.E("a", v))
		} else {
			v = val.List(v)
		}
	}
	return v
}

func hostilePayload(t *rapid.T, typ string, jsonSafe bool) val.V {
	iss := keys.Principal(0).DID.String()
	p := map[string]val.V{
		"iss": val.Str(iss), "aud": val.Str(keys.Principal(1).DID.String()), "sub": val.Str(iss), "cmd": val.Str("/foo"),
		"nonce": val.Bytes(bytes.Repeat([]byte{1}, 12)), "exp": val.Null(),
	}
	if typ == "dlg" {
		p["pol"] = val.List()
	} else {
		p["args"] = val.Map()
		p["prf"] = val.List()
	}
	fields := []string{"iss", "aud", "sub", "cmd", "pol", "args", "prf", "nonce", "meta", "nbf", "exp", "iat", "cause", "zzz"}
	n := rapid.IntRange(1, 3).Draw(t, "nhost")
	for i := 0; i < n; i++ {
		f := rapid.SampledFrom(fields).Draw(t, "hfield")
		switch rapid.IntRange(0, 5).Draw(t, "hmode") {
		case 0:
			delete(p, f)
		case 1:
			p[f] = deepValue(rapid.SampledFrom([]int{10, 100, 1000, 4000}).Draw(t, "depth"), rapid.Bool().Draw(t, "dmap"))
		case 2:
			// hostile policy
			data := pol.GenData(t, "pd")
			pp := pol.Gen(t, data, pol.GenCfg{Depth: 3, MaxStmt: 3}, "hp")
			node := val.FromNode(pp.IPLD())
			if len(node.L) > 0 && len(node.L[0].L) == 3 {
				node.L[0].L[2] = hostileLeaf(t, "plit")
			}
			p[f] = node
		case 3:
			p[f] = val.Map(val.E("k", hostileLeaf(t, "mv")), val.E("l", val.List(hostileLeaf(t, "lv"))))
		default:
			p[f] = hostileLeaf(t, "fv")
		}
		if jsonSafe {
			// DAG-JSON cannot carry these at all: keep what the JSON decoders can reach
			v := p[f]
			bad := false
			v.Walk(func(x val.V) {
				if x.K == "strb" || x.K == "uint" || (x.K == "float" && (x.F == "NaN" || x.F == "+Inf" || x.F == "-Inf")) {
					bad = true
				}
			})
			if bad {
				p[f] = val.List(val.Int(1<<62), val.Str("x"), val.Map(val.E("/", val.Str("not a link"))))
			}
		}
	}
	out := val.V{K: "map"}
	for _, f := range fields {
		if v, ok := p[f]; ok {
			out.M = append(out.M, val.KV{K: f, V: v})
		}
	}
	return out
}

func signed(typ string, payload val.V) ([]byte, bool) {
	if payload.HasDupKeys() {
		return nil, false
	}
	tag := env.DlgTag
	if typ == "inv" {
		tag = env.InvTag
	}
	var b []byte
	var err error
	if pn, _, _ := h.Try(func() { b, err = env.SignPayload(keys.Principal(0).Priv, tag, payload.Node()) }); pn || err != nil {
		return nil, false
	}
	return b, true
}

func wrap(t *rapid.T, sealed []byte) (string, []byte) {
	switch rapid.IntRange(0, 5).Draw(t, "wrap") {
	case 0: // CBOR container
		it := &cbor.Item{Major: 5, Items: []*cbor.Item{cbor.Text("ctn-v1"), cbor.Array(cbor.BytesItem(sealed))}}
		return "container.FromCbor", it.Bytes()
	case 1:
		it := &cbor.Item{Major: 5, Items: []*cbor.Item{cbor.Text("ctn-v1"), cbor.Array(cbor.BytesItem(sealed))}}
		return "container.FromCborBase64", []byte(base64.StdEncoding.EncodeToString(it.Bytes()))
	case 2, 3:
		w := container.NewWriter()
		w.AddSealed(ctr.RefCID(sealed), sealed)
		b, _ := w.ToCar()
		if rapid.Bool().Draw(t, "carreader") {
			return "container.FromCarReader", b
		}
		return "container.FromCar", b
	case 4:
		w := container.NewWriter()
		w.AddSealed(ctr.RefCID(sealed), sealed)
		b, _ := w.ToCarBase64()
		return "container.FromCarBase64", b
	}
	return rapid.SampledFrom(byteTargets).Draw(t, "bt"), sealed
}

var signedProp = h.Define(P, "signed", func(t *rapid.T) Case {
	typ := rapid.SampledFrom([]string{"dlg", "inv"}).Draw(t, "typ")
	asJSON := rapid.IntRange(0, 5).Draw(t, "asjson") == 0
	payload := hostilePayload(t, typ, asJSON)
	b, ok := signed(typ, payload)
	if !ok {
		return Case{Target: "token.FromSealed", Fam: "signed", Bytes: []byte{0x82, 0x40, 0xa0}}
	}
	if asJSON {
		if n, err := ipld.Decode(b, dagcbor.Decode); err == nil {
			var js []byte
			if pn, _, _ := h.Try(func() { js, err = ipld.Encode(n, dagjson.Encode) }); !pn && err == nil {
				return Case{Target: rapid.SampledFrom([]string{"token.FromDagJson", "delegation.FromDagJson", "invocation.FromDagJson"}).Draw(t, "jt"), Fam: "signed-json", Bytes: js}
			}
		}
	}
	tgt, wb := wrap(t, b)
	return Case{Target: tgt, Fam: "signed", Bytes: wb}
}, run)

func TestSigned(t *testing.T) { signedProp.Check(t) }

var hostileBytes = [][]byte{{0x9b, 0xff, 0xff, 0xff, 0xff, 0xff, 0xff, 0xff, 0xff}, {0xbb, 0x7f, 0xff, 0xff, 0xff, 0xff, 0xff, 0xff, 0xff}, {0x9a, 0x00, 0x98, 0x96, 0x80}, {0xba, 0x00, 0x98, 0x96, 0x80},
	{0x5b, 0x7f, 0xff, 0xff, 0xff, 0xff, 0xff, 0xff, 0xff}, {0x7a, 0xff, 0xff, 0xff, 0xff}, {0x1b, 0xff, 0xff, 0xff, 0xff, 0xff, 0xff, 0xff, 0xff}, {0x3b, 0xff, 0xff, 0xff, 0xff, 0xff, 0xff, 0xff, 0xff},
	{0xd8, 0x2a}, {0xf9, 0x7e, 0x00}, {0xfb, 0x7f, 0xf0, 0, 0, 0, 0, 0, 0}, {0x9f}, {0xbf}, {0x5f}, {0xff}, {0x81}, {0xc2, 0x49, 1, 0, 0, 0, 0, 0, 0, 0, 0}}

func mutateBytes(t *rapid.T, b []byte) []byte {
	out := append([]byte{}, b...)
	n := rapid.IntRange(1, 4).Draw(t, "nmut")
	for i := 0; i < n && len(out) > 0; i++ {
		pos := rapid.IntRange(0, len(out)-1).Draw(t, "pos")
		switch rapid.IntRange(0, 5).Draw(t, "mk") {
		case 0:
			out[pos] ^= 1 << rapid.IntRange(0, 7).Draw(t, "bit")
		case 1:
			out = append(out[:pos], out[pos+1:]...)
		case 2:
			ins := rapid.SampledFrom(hostileBytes).Draw(t, "ins")
			out = append(out[:pos:pos], append(append([]byte{}, ins...), out[pos:]...)...)
		case 3:
			out[pos] = rapid.SampledFrom([]byte{0x00, 0xff, 0x7f, 0x80, 0x9b, 0xbb, 0x5b, 0x7b, 0x1b, 0x3b, 0xf6, 0xf7, 0xd8}).Draw(t, "set")
		case 4:
			out = out[:pos]
		default:
			// overwrite a run with a hostile head
			ins := rapid.SampledFrom(hostileBytes).Draw(t, "ow")
			for j := 0; j < len(ins) && pos+j < len(out); j++ {
				out[pos+j] = ins[j]
			}
		}
	}
	return out
}

func validArtefacts() map[string][]byte {
	out := map[string][]byte{}
	k := func(i int) tok.KeyRef { return tok.KeyRef{Alg: keys.Ed25519, Idx: i} }
	five := val.Int(5)
	d := tok.Tok{Dlg: &tok.Dlg{Iss: k(0), Aud: k(1), Sub: "iss", Cmd: "/foo", Nonce: bytes.Repeat([]byte{1}, 12),
		Pol:  pol.Policy{{Op: "==", Sel: sel.Sel{{Kind: "field", Name: "a"}}, Lit: &five}, {Op: "like", Sel: sel.Sel{{Kind: "field", Name: "s"}}, Pat: "x*"}},
		Meta: []tok.KVal{{K: "m", V: val.Str("v")}}, Exp: &tok.TimeSpec{Abs: true, V: 4102444800}}}
	iv := tok.Tok{Inv: &tok.Inv{Iss: k(1), Sub: k(0), Cmd: "/foo", Nonce: bytes.Repeat([]byte{2}, 12), Args: []tok.KVal{{K: "a", V: five}, {K: "l", V: val.List(val.Int(1), val.Str("x"))}}, Prf: [][]byte{{1}}, NoIat: true}}
	w := container.NewWriter()
	for name, tk := range map[string]tok.Tok{"dlg": d, "inv": iv} {
		t, priv, err := tok.Build(tk)
		if err != nil {
			panic(err)
		}
		b, id, _ := t.ToSealed(priv)
		out["sealed-"+name] = b
		js, _ := t.ToDagJson(priv)
		out["json-"+name] = js
		w.AddSealed(id, b)
	}
	out["car"], _ = w.ToCar()
	out["carb64"], _ = w.ToCarBase64()
	out["cbor"], _ = w.ToCbor()
	out["cborb64"], _ = w.ToCborBase64()
	return out
}

var artefacts = validArtefacts()

func targetsFor(art string) []string {
	switch {
	case strings.HasPrefix(art, "sealed"):
		return byteTargets
	case strings.HasPrefix(art, "json"):
		return jsonTargets
	case art == "car":
		return []string{"container.FromCar", "container.FromCarReader"}
	case art == "carb64":
		return []string{"container.FromCarBase64", "container.FromCarBase64Reader"}
	case art == "cbor":
		return []string{"container.FromCbor", "container.FromCborReader"}
	}
	return []string{"container.FromCborBase64", "container.FromCborBase64Reader"}
}

var artNames = []string{"sealed-dlg", "sealed-inv", "json-dlg", "json-inv", "car", "carb64", "cbor", "cborb64"}

var mutatedProp = h.Define(P, "mutated", func(t *rapid.T) Case {
	art := rapid.SampledFrom(artNames).Draw(t, "art")
	b := mutateBytes(t, artefacts[art])
	if rapid.IntRange(0, 19).Draw(t, "random") == 0 {
		b = rapid.SliceOfN(rapid.Byte(), 0, 64).Draw(t, "rand")
	}
	return Case{Target: rapid.SampledFrom(targetsFor(art)).Draw(t, "tgt"), Fam: "mutated-" + art, Bytes: b}
}, run)

func TestMutated(t *testing.T) { mutatedProp.Check(t) }

var nodeProp = h.Define(P, "node", func(t *rapid.T) Case {
	switch rapid.IntRange(0, 5).Draw(t, "nmode") {
	case 5:
		// == against a list / map literal of ordinary values, on data of the SAME shape in which one leaf is
		// hostile (the comparison has to walk into the value to meet it)
		shape := val.Gen(t, val.Cfg{Depth: 3, MaxLen: 4, SafeInts: true, NoFloat: rapid.Bool().Draw(t, "eq_nofloat"), Keys: []string{"a", "b", "c"}})
		if shape.K != "list" && shape.K != "map" {
			shape = val.List(val.Int(0), shape, val.Int(100))
		}
		var graft func(v val.V, budget *int) val.V
		graft = func(v val.V, budget *int) val.V {
			switch v.K {
			case "list":
				out := val.V{K: "list"}
				for _, e := range v.L {
					out.L = append(out.L, graft(e, budget))
				}
				return out
			case "map":
				out := val.V{K: "map"}
				for _, e := range v.M {
					out.M = append(out.M, val.KV{K: e.K, V: graft(e.V, budget)})
				}
				return out
			}
			*budget--
			if *budget == 0 {
				return hostileLeaf(t, "eqleaf")
			}
			return v
		}
		nleaves := rapid.IntRange(1, 6).Draw(t, "eq_which")
		data := graft(shape, &nleaves)
		lit := shape
		st := pol.Stmt{Op: rapid.SampledFrom([]string{"==", "==", "<", ">="}).Draw(t, "eq_op"), Sel: sel.Sel{{Kind: "field", Name: "v"}}, Lit: &lit}
		if rapid.IntRange(0, 3).Draw(t, "eq_not") == 0 {
			st = pol.Stmt{Op: "not", Sub: []pol.Stmt{st}}
		}
		root := val.Map(val.E("v", data), val.E("l", val.List(data, shape)))
		p := pol.Policy{st}
		if rapid.Bool().Draw(t, "eq_any") {
			p = append(p, pol.Stmt{Op: "any", Sel: sel.Sel{{Kind: "field", Name: "l"}}, Sub: []pol.Stmt{{Op: "==", Sel: sel.Sel{{Kind: "id"}}, Lit: &lit}}})
		}
		return Case{Target: "Policy.Match+PartialMatch", Fam: "node-eq-shape", Node: &root, Pol: p}
	case 4: // like: pattern and subject built from the same few pieces (overlaps, short subjects, '*' and '\\' on both sides)
		piece := rapid.SampledFrom([]string{"a", "b", "ab", "ba", "aba", "/", "/x", "*", "\\", "é", "", "aa"})
		var pat, sub string
		for i, n := 0, rapid.IntRange(1, 6).Draw(t, "lp_n"); i < n; i++ {
			x := piece.Draw(t, "lp")
			pat += x
			if rapid.IntRange(0, 2).Draw(t, "lp_star") == 0 {
				pat += "*"
			}
			if rapid.IntRange(0, 2).Draw(t, "ls_keep") > 0 && x != "*" {
				sub += x
			}
		}
		if rapid.IntRange(0, 3).Draw(t, "ls_cut") == 0 && len(sub) > 0 {
			sub = sub[:rapid.IntRange(0, len(sub)-1).Draw(t, "ls_cutat")]
			if !utf8.ValidString(sub) {
				sub = "a"
			}
		}
		data := val.Str(sub)
		sl := sel.Sel{{Kind: "id"}}
		if rapid.Bool().Draw(t, "lp_field") {
			data = val.Map(val.E("a", val.Str(sub)))
			sl = sel.Sel{{Kind: "field", Name: "a"}}
		}
		st := pol.Stmt{Op: "like", Sel: sl, Pat: pat}
		if rapid.IntRange(0, 3).Draw(t, "lp_not") == 0 {
			st = pol.Stmt{Op: "not", Sub: []pol.Stmt{st}}
		}
		return Case{Target: "Policy.Match+PartialMatch", Fam: "node-like", Node: &data, Pol: pol.Policy{st}}
	case 0: // policy matching against hostile data
		data := pol.GenData(t, "data")
		// graft hostile leaves into the data, then generate the policy on the
		// grafted data so that its selectors (slices, indexes) reach them
		hd := val.V{K: "map", M: append([]val.KV{}, data.M...)}
		for i := range hd.M {
			if rapid.IntRange(0, 2).Draw(t, "graft") == 0 {
				hd.M[i].V = hostileLeaf(t, "g")
			}
		}
		if rapid.IntRange(0, 4).Draw(t, "rootkind") == 0 {
			hd = hostileLeaf(t, "root")
		}
		base := data
		if rapid.Bool().Draw(t, "polongraft") && !hd.HasDupKeys() {
			base = hd
		}
		p := pol.Gen(t, base, pol.GenCfg{Depth: 3, MaxStmt: 3, SelCfg: sel.GenCfg{MaxSegs: 4}}, "p")
		return Case{Target: "Policy.Match+PartialMatch", Fam: "node-policy", Node: &hd, Pol: p}
	case 1:
		data := val.Gen(t, hostileCfg)
		switch rapid.IntRange(0, 3).Draw(t, "selgraft") {
		case 0:
			data = hostileLeaf(t, "sroot")
		case 1:
			data = val.Map(val.E("a", hostileLeaf(t, "sa")), val.E("b", val.List(hostileLeaf(t, "sb"), data)))
		}
		s := sel.GenFor(t, data, sel.GenCfg{MaxSegs: 6})
		for i := range s {
			if s[i].Kind == "index" && rapid.IntRange(0, 5).Draw(t, "bigidx") == 0 {
				s[i].Idx = rapid.SampledFrom([]int64{(1 << 53) - 1, -((1 << 53) - 1), 1 << 31, -(1 << 31)}).Draw(t, "idxv")
			}
			if s[i].Kind == "slice" && rapid.IntRange(0, 5).Draw(t, "bigsl") == 0 {
				v := rapid.SampledFrom([]int64{(1 << 53) - 1, -((1 << 53) - 1), 1 << 40}).Draw(t, "slv")
				s[i].From = &v
			}
		}
		return Case{Target: "Selector.Select", Fam: "node-selector", Node: &data, Sel: s}
	default:
		var n val.V
		if rapid.Bool().Draw(t, "envshape") {
			typ := rapid.SampledFrom([]string{"dlg", "inv"}).Draw(t, "typ")
			tag := env.DlgTag
			if typ == "inv" {
				tag = env.InvTag
			}
			payload := hostilePayload(t, typ, false)
			if payload.HasDupKeys() {
				payload = val.Map()
			}
			n = val.List(val.Bytes(make([]byte, 64)), val.Map(val.E("h", val.Bytes(env.HeaderFor(keys.Principal(0).Priv.Type()))), val.E(tag, payload)))
			if rapid.IntRange(0, 3).Draw(t, "breakenv") == 0 {
				n = val.List(hostileLeaf(t, "e0"), hostileLeaf(t, "e1"))
			}
		} else {
			n = val.Gen(t, hostileCfg)
		}
		return Case{Target: rapid.SampledFrom(nodeTargets).Draw(t, "ntgt"), Fam: "node-hostile", Node: &n}
	}
}, run)

func TestNodes(t *testing.T) { nodeProp.Check(t) }

// TestLikePairs: every (pattern, subject) pair over {a, b, *, \} up to length 4 (quick) / 5 (thorough) through
// Policy.Match and PartialMatch - must return, whatever the answer (the answer is C13's).
func TestLikePairs(t *testing.T) {
	maxLen := h.N(4, 5)
	alpha := []byte{'a', 'b', '*', '\\'}
	var all []string
	var rec func(prefix []byte)
	rec = func(prefix []byte) {
		all = append(all, string(prefix))
		if len(prefix) == maxLen {
			return
		}
		for _, ch := range alpha {
			rec(append(append([]byte{}, prefix...), ch))
		}
	}
	rec(nil)
	var cur Case
	n := 0
	nodeProp.Enumerate(t, &cur, func() {
		for _, pat := range all {
			st := pol.Stmt{Op: "like", Sel: sel.Sel{{Kind: "id"}}, Pat: pat}
			cur = Case{Target: "Policy.Match+PartialMatch", Fam: "like-pairs", Pol: pol.Policy{st}}
			p, err := cur.Pol.Build(false)
			if err != nil {
				continue
			}
			for _, sub := range all {
				v := val.Str(sub)
				cur.Node = &v
				nd := basicnode.NewString(sub)
				p.Match(nd)
				p.PartialMatch(nd)
				n++
			}
		}
	})
	P.EvalN(n)
	P.AddDistinct(n)
	P.ClassN("target:Policy.Match+PartialMatch", n)
	P.ClassN("fam:like-pairs", n)
	P.Sample(map[string]any{"enumeration": "all like pattern/subject pairs over {a,b,*,\\}", "max_len": maxLen, "pairs": n})
}

var matchPanel = []ipld.Node{val.Map().Node(), val.Map(val.E("a", val.Int(1)), val.E("l", val.List(val.Int(1), val.Str("x"), val.Map(val.E("a", val.Int(2)))))).Node(), val.List(val.Int(1)).Node(), val.Str("x").Node(), val.Null().Node()}

var selAtoms = []string{".", "a", "foo", `["`, `"]`, `"`, `\"`, `\\`, `\`, "[", "]", "?", ":", "0", "1", "-1", "-", "é", " ", "[]", `["a"]`, `["a\"b"]`, `["\""]`, "[0]", "[1:]", "[:-1]", "..", `\"]`, `["\`, "'", "\x00", "\n", "9223372036854775808", "[-", "]?", "?.", `"."`, `"["`}

var stringProp = h.Define(P, "strings", func(t *rapid.T) Case {
	tgt := rapid.SampledFrom(stringTargets).Draw(t, "stgt")
	var s string
	switch tgt {
	case "selector.Parse":
		s = rapid.StringOfN(rapid.RuneFrom([]rune(`.[]"?\:a0-é 9`)), 0, 40, -1).Draw(t, "sel")
		if rapid.IntRange(0, 2).Draw(t, "selatoms") > 0 {
			// built from the pieces selectors are made of (and their halves), so that quoted names with escapes,
			// nested and unbalanced brackets, signs and ranges come up at every length
			n := rapid.IntRange(0, 14).Draw(t, "natoms")
			var b strings.Builder
			if rapid.IntRange(0, 9).Draw(t, "dot") > 0 {
				b.WriteString(".")
			}
			for i := 0; i < n; i++ {
				b.WriteString(rapid.SampledFrom(selAtoms).Draw(t, "atom"))
			}
			s = b.String()
		}
		if rapid.IntRange(0, 9).Draw(t, "bignum") == 0 {
			s = ".[" + strings.Repeat("9", rapid.IntRange(1, 40).Draw(t, "digits")) + rapid.SampledFrom([]string{"]", ":]", ":", ""}).Draw(t, "tail")
		}
	case "command.Parse":
		s = rapid.StringN(0, 30, -1).Draw(t, "cmd")
	case "did.Parse+PubKey":
		code := rapid.SampledFrom([]uint64{0xed, 0xe7, 0x1200, 0x1201, 0x1202, 0x1205, 0xec}).Draw(t, "code")
		n := rapid.IntRange(0, 70).Draw(t, "klen")
		kb := make([]byte, n)
		switch rapid.IntRange(0, 3).Draw(t, "kfill") {
		case 0:
		case 1:
			for i := range kb {
				kb[i] = 0xff
			}
		case 2:
			copy(kb, rapid.SliceOfN(rapid.Byte(), n, n).Draw(t, "kb"))
		default:
			if n > 0 {
				kb[0] = rapid.SampledFrom([]byte{2, 3, 4, 6, 7, 0x30}).Draw(t, "k0")
			}
		}
		s = didString(code, kb)
		if rapid.IntRange(0, 9).Draw(t, "rawdid") == 0 {
			s = "did:key:" + rapid.StringN(0, 40, -1).Draw(t, "rd")
		}
	default:
		if rapid.Bool().Draw(t, "validjson") {
			data := pol.GenData(t, "d")
			p := pol.Gen(t, data, pol.GenCfg{Depth: 3, MaxStmt: 3}, "p")
			b, _ := ipld.Encode(p.IPLD(), dagjson.Encode)
			s = string(mutateBytes(t, b))
		} else {
			s = rapid.StringOfN(rapid.RuneFrom([]rune(`[]{}",:0123456789.eE-+ntf\/"a`)), 0, 60, -1).Draw(t, "json")
		}
	}
	return Case{Target: tgt, Fam: "string", Str: s}
}, run)

func TestStrings(t *testing.T) { stringProp.Check(t) }

const b58 = "123456789ABCDEFGHJKLMNPQRSTUVWXYZabcdefghijkmnopqrstuvwxyz"

func b58enc(b []byte) string {
	// simple big-number base58 (inputs are short)
	digits := []byte{0}
	for _, c := range b {
		carry := int(c)
		for i := range digits {
			carry += int(digits[i]) << 8
			digits[i] = byte(carry % 58)
			carry /= 58
		}
		for carry > 0 {
			digits = append(digits, byte(carry%58))
			carry /= 58
		}
	}
	var out []byte
	for _, c := range b {
		if c != 0 {
			break
		}
		out = append(out, '1')
	}
	for i := len(digits) - 1; i >= 0; i-- {
		out = append(out, b58[digits[i]])
	}
	if len(b) == 0 {
		return ""
	}
	return string(out)
}

func didString(code uint64, kb []byte) string {
	return "did:key:z" + b58enc(append(binary.AppendUvarint(nil, code), kb...))
}

// TestIssuerKeyMaterial: every codec x every key length 0..70 x four fillings,
// as a DID string and as the iss of a token (reaches PubKey before verification).
func TestIssuerKeyMaterial(t *testing.T) {
	for _, code := range []uint64{0xed, 0xe7, 0x1200, 0x1201, 0x1202, 0x1205, 0xec, 0x00} {
		for n := 0; n <= 70; n++ {
			for fill := 0; fill < 4; fill++ {
				kb := make([]byte, n)
				switch fill {
				case 1:
					for i := range kb {
						kb[i] = 0xff
					}
				case 2:
					if n > 0 {
						kb[0] = 2
					}
					for i := 1; i < n; i++ {
						kb[i] = byte(i * 37)
					}
				case 3:
					if n > 0 {
						kb[0] = 4
					}
				}
				d := didString(code, kb)
				stringProp.One(t, Case{Target: "did.Parse+PubKey", Fam: "issuer-key-material", Str: d})
				if fill == 2 || n%8 == 1 {
					payload := val.Map(val.E("iss", val.Str(d)), val.E("aud", val.Str(keys.Principal(1).DID.String())), val.E("cmd", val.Str("/foo")),
						val.E("pol", val.List()), val.E("nonce", val.Bytes(bytes.Repeat([]byte{1}, 12))), val.E("exp", val.Null()))
					if b, ok := signed("dlg", payload); ok {
						signedProp.One(t, Case{Target: "token.FromSealed", Fam: "issuer-key-material", Bytes: b})
						signedProp.One(t, Case{Target: "delegation.FromSealed", Fam: "issuer-key-material", Bytes: b})
					}
				}
			}
		}
	}
}

func carWith(sections ...[]byte) []byte {
	hdr, _ := (&cbor.Item{Major: 5, Items: []*cbor.Item{cbor.Text("roots"), cbor.Array(&cbor.Item{Major: 6, Arg: 42, Items: []*cbor.Item{cbor.BytesItem([]byte{0, 1, 0x55, 0, 0})}}), cbor.Text("version"), cbor.Uint(1)}}).Bytes(), 0
	out := binary.AppendUvarint(nil, uint64(len(hdr)))
	out = append(out, hdr...)
	for _, s := range sections {
		out = append(out, s...)
	}
	return out
}

// framingLeaves: one value of every kind and of the shapes a framing field may wrongly take.
func framingLeaves() []val.V {
	lk := val.V{K: "link", X: []byte{1}}
	return []val.V{{K: "null"}, val.Bool(true), val.Bool(false), val.Int(0), val.Int(1), val.Int(2), val.Int(-1), val.Int(1 << 40), val.Uint(1 << 63), val.Uint(^uint64(0)),
		val.Float(1), val.Float(1.5), val.Float(math.NaN()), val.Float(math.Inf(1)), val.Str(""), val.Str("1"), val.Str("roots"), val.Bytes(nil), val.Bytes([]byte{1, 0x71, 0x12, 0x20}), lk,
		val.List(), val.List(val.Int(1)), val.List(lk), val.List(lk, lk, lk), val.List(lk, val.Int(1)), val.List(val.List(lk)), val.List(val.Bytes([]byte{1})), val.List(val.V{K: "null"}),
		val.Map(), val.Map(val.E("roots", val.List(lk))), val.Map(val.E("a", val.Int(1)), val.E("b", lk))}
}

// TestContainerFraming: the framing of both container formats (the CAR header, the CBOR container's outer map and its
// list) with EVERY field replaced in turn by a value of every kind, absent, or accompanied by others - all of it
// well-formed DAG-CBOR, which byte-level mutation of valid containers practically never produces (it yields CBOR
// errors). Followed by no, one valid, or one invalid section / entry.
func TestContainerFraming(t *testing.T) {
	enc := func(v val.V) []byte {
		b, err := ipld.Encode(v.Node(), dagcbor.Encode)
		if err != nil {
			t.Fatalf("harness: %v", err)
		}
		return b
	}
	// one valid sealed token and its CAR section
	w := container.NewWriter()
	sealedTok := artefacts["sealed-dlg"]
	w.AddSealed(ctr.RefCID(sealedTok), sealedTok)
	car, _ := w.ToCar()
	secs, _, err := ctr.CarSections(car)
	if err != nil || len(secs) < 1 {
		t.Fatalf("harness: cannot split a CAR: %v", err)
	}
	validSection := car[secs[0].Start:secs[0].End]
	tails := [][]byte{nil, validSection, {0x05, 1, 0x71, 0x12, 0x20}, append(append([]byte{}, validSection...), validSection...)}
	leaves := framingLeaves()
	lk := val.V{K: "link", X: []byte{1}}
	var headers []val.V
	for _, r := range leaves {
		headers = append(headers, val.Map(val.E("roots", r), val.E("version", val.Int(1))))
		headers = append(headers, val.Map(val.E("version", val.Int(1)), val.E("roots", r)))
		headers = append(headers, val.Map(val.E("roots", r)))
		headers = append(headers, val.Map(val.E("roots", val.List(lk)), val.E("version", r)))
		headers = append(headers, val.Map(val.E("roots", val.List(lk)), val.E("version", val.Int(1)), val.E("extra", r)))
		headers = append(headers, val.Map(val.E("roots", r), val.E("version", r)))
		headers = append(headers, r) // the header is not a map at all
	}
	n := 0
	carTargets := []string{"container.FromCar", "container.FromCarReader", "container.FromCarBase64", "container.FromCarBase64Reader"}
	for _, hv := range headers {
		hb := enc(hv)
		for _, tail := range tails {
			b := append(binary.AppendUvarint(nil, uint64(len(hb))), hb...)
			b = append(b, tail...)
			for _, tg := range carTargets {
				in := b
				if strings.Contains(tg, "Base64") {
					in = []byte(base64.StdEncoding.EncodeToString(b))
				}
				mutatedProp.One(t, Case{Target: tg, Fam: "framing-car-header", Bytes: in})
				n++
			}
		}
	}
	// the CBOR container: {"ctn-v1": [bytes...]}
	var outers []val.V
	good := val.Bytes(sealedTok)
	for _, r := range leaves {
		outers = append(outers, val.Map(val.E("ctn-v1", r)), val.Map(val.E("ctn-v1", val.List(r))), val.Map(val.E("ctn-v1", val.List(good, r))), val.Map(val.E("ctn-v1", val.List(r, good))),
			val.Map(val.E("ctn-v1", val.List(good)), val.E("x", r)), val.Map(val.E("ctn-v2", r)), val.Map(val.E("", r)), r, val.List(val.Map(val.E("ctn-v1", r))))
	}
	cborTargets := []string{"container.FromCbor", "container.FromCborBase64", "container.FromCborReader", "container.FromCborBase64Reader"}
	for _, ov := range outers {
		b := enc(ov)
		for _, tg := range cborTargets {
			in := b
			if strings.Contains(tg, "Base64") {
				in = []byte(base64.StdEncoding.EncodeToString(b))
			}
			mutatedProp.One(t, Case{Target: tg, Fam: "framing-cbor-outer", Bytes: in})
			n++
		}
	}
	P.Sample(map[string]any{"framing_sweep": "CAR header and CBOR container framing fields x value of every kind", "cases": n, "car_targets": carTargets, "cbor_targets": cborTargets})
}

// TestHostileConstants: fixed hostile inputs through every byte-level entry point.
func TestHostileConstants(t *testing.T) {
	var consts [][]byte
	consts = append(consts, hostileBytes...)
	for _, n := range []uint64{1 << 16, 1 << 24, 1 << 25, 1 << 31, 1 << 32, 1 << 62, 1 << 63, ^uint64(0)} {
		for _, major := range []byte{2, 3, 4, 5} {
			head := []byte{major<<5 | 27, 0, 0, 0, 0, 0, 0, 0, 0}
			binary.BigEndian.PutUint64(head[1:], n)
			consts = append(consts, head, append([]byte{0x82}, head...), append([]byte{0x82, 0x40, 0xa2, 0x61, 'h'}, head...),
				append([]byte{0xa1, 0x66, 'c', 't', 'n', '-', 'v', '1'}, head...))
		}
	}
	// CAR framing
	for _, l := range []uint64{0, 1, (32 << 20) - 1, 32 << 20, (32 << 20) + 1, 64 << 20, 256 << 20, 1 << 30, 1 << 32, 1 << 40, 1 << 63, ^uint64(0)} {
		consts = append(consts, binary.AppendUvarint(nil, l), carWith(binary.AppendUvarint(nil, l)), carWith(append(binary.AppendUvarint(nil, l), 1, 0x71, 0x12, 0x20)))
	}
	// long runs at section / item boundaries (recursion per input byte would exhaust the stack)
	for _, n := range []int{1 << 10, 1 << 16, 1 << 20, 8 << 20} {
		z := make([]byte, n)
		consts = append(consts, z, carWith(z), append(carWith(), z...))
		consts = append(consts, bytes.Repeat([]byte{0xf6}, n), bytes.Repeat([]byte{0x40}, n), bytes.Repeat([]byte{0xd8, 0x2a}, n/2))
	}
	consts = append(consts, bytes.Repeat([]byte{0xff}, 11), carWith(bytes.Repeat([]byte{0x80}, 12)), []byte("===="), []byte("A==="), []byte("AAA"), []byte("AAAA\n\n\n"), []byte("!!!!"))
	// deep nesting: arrays and maps
	for _, d := range []int{1000, 10000, 100000} {
		consts = append(consts, append(bytes.Repeat([]byte{0x81}, d), 0x00), append(bytes.Repeat([]byte{0xa1, 0x61, 'a'}, d), 0x00))
	}
	all := append(append([]string{}, byteTargets...), "token.FromDagJson", "container.FromCbor", "container.FromCborBase64", "container.FromCar", "container.FromCarBase64", "container.FromCarReader")
	for _, b := range consts {
		for _, tg := range all {
			in := b
			if strings.HasSuffix(tg, "Base64") && !bytes.ContainsAny(b, "=!\n") {
				in = []byte(base64.StdEncoding.EncodeToString(b))
			}
			mutatedProp.One(t, Case{Target: tg, Fam: "constants", Bytes: in})
		}
	}
	// hostile envelope headers around a schema-valid payload with a parseable issuer (no valid signature is
	// needed to reach the header checks): over-long varints, runs of continuation bytes at every segment
	// position, empty / huge / non-minimal forms - for every issuer key type, through every byte-level decoder
	{
		var hdrs [][]byte
		for k := 1; k <= 12; k++ {
			run := bytes.Repeat([]byte{0xff}, k)
			hdrs = append(hdrs, append(append([]byte{0x34, 0xed, 0x01}, run...), 0x01), append(append([]byte{0x34}, run...), 0x01), run,
				append(append([]byte{0x34, 0xed, 0x01, 0x71}, run...)), append(bytes.Repeat([]byte{0x80}, k), 0x00), append(append([]byte{0x34, 0xe7, 0x01, 0x12}, run...), 0x71))
		}
		hdrs = append(hdrs, []byte{}, []byte{0x34}, []byte{0x34, 0xed}, bytes.Repeat([]byte{0x34}, 300), make([]byte, 4096))
		for _, alg := range []keys.Alg{keys.Ed25519, keys.Secp256k1, keys.P256, keys.RSA} {
			k := keys.Get(alg, 0)
			for _, typ := range []string{"dlg", "inv"} {
				tk := tok.Tok{Dlg: &tok.Dlg{Iss: tok.KeyRef{Alg: alg}, Aud: tok.KeyRef{Alg: keys.Ed25519, Idx: 1}, Sub: "iss", Cmd: "/foo", Nonce: bytes.Repeat([]byte{1}, 12)}}
				if typ == "inv" {
					tk = tok.Tok{Inv: &tok.Inv{Iss: tok.KeyRef{Alg: alg}, Sub: tok.KeyRef{Alg: keys.Ed25519, Idx: 1}, Cmd: "/foo", Nonce: bytes.Repeat([]byte{1}, 12), NoIat: true}}
				}
				built, _, err := tok.Build(tk)
				if err != nil {
					t.Fatalf("INCONCLUSIVE %v", err)
				}
				sealed, _, err := built.ToSealed(k.Priv)
				if err != nil {
					t.Fatalf("INCONCLUSIVE %v", err)
				}
				e, err := env.Parse(sealed)
				if err != nil {
					t.Fatalf("INCONCLUSIVE %v", err)
				}
				for _, hd := range hdrs {
					for _, sig := range [][]byte{e.Sig, make([]byte, 64)} {
						b, err := env.Assemble(sig, env.SigPayloadNode(hd, e.Tag, e.Payload))
						if err != nil {
							continue
						}
						for _, tg := range byteTargets {
							if tg == "meta.GetEncrypted" {
								continue
							}
							mutatedProp.One(t, Case{Target: tg, Fam: "hostile-header", Bytes: b})
						}
					}
				}
			}
		}
	}
	for n := 0; n <= 90; n++ {
		mutatedProp.One(t, Case{Target: "meta.GetEncrypted", Fam: "constants", Bytes: make([]byte, n)})
		mutatedProp.One(t, Case{Target: "meta.GetEncrypted", Fam: "constants", Bytes: bytes.Repeat([]byte{0xff}, n)})
	}
	for _, s := range []string{strings.Repeat("[", 100000), strings.Repeat(`{"a":`, 50000), `{"/":{"bytes":"` + strings.Repeat("A", 100000) + `"}}`, strings.Repeat("9", 5000), `[["==",".a",` + strings.Repeat("9", 400) + `]]`, `[["==",".a",1e400]]`} {
		stringProp.One(t, Case{Target: "policy.FromDagJson", Fam: "constants", Str: s})
		mutatedProp.One(t, Case{Target: "token.FromDagJson", Fam: "constants", Bytes: []byte(s)})
	}
	for _, s := range []string{strings.Repeat(".a", 50000), "." + strings.Repeat("[0]", 50000), `.["` + strings.Repeat("x", 100000) + `"]`, strings.Repeat(".", 1000), ".[" + strings.Repeat("9", 100) + "]", ".[1:" + strings.Repeat("9", 100) + "]", `."`, `.\"`, ".a[", ".[-9223372036854775808]", ".[9223372036854775807:]"} {
		stringProp.One(t, Case{Target: "selector.Parse", Fam: "constants", Str: s})
	}
}

// notChain builds n nested ["not", ...] around a leaf, as CBOR bytes of a policy.
func nestedPolicy(kind string, n int) []byte {
	var b bytes.Buffer
	b.WriteByte(0x81) // policy = list of one statement
	for i := 0; i < n; i++ {
		switch kind {
		case "not":
			b.Write([]byte{0x82, 0x63, 'n', 'o', 't'})
		case "and":
			b.Write([]byte{0x82, 0x63, 'a', 'n', 'd', 0x81})
		case "all":
			b.Write([]byte{0x83, 0x63, 'a', 'l', 'l', 0x61, '.'})
		}
	}
	b.Write([]byte{0x83, 0x62, '=', '=', 0x62, '.', 'a', 0x01})
	return b.Bytes()
}

// TestScaling: families whose size doubles; allocation must stay within the
// affine bound at every size (a super-linear blow-up shows at the larger sizes).
func TestScaling(t *testing.T) {
	sizes := []int{1000, 2000, 4000, 8000, 16000}
	if h.Thorough() {
		sizes = append(sizes, 32000)
	}
	for _, n := range sizes {
		for _, kind := range []string{"not", "and", "all"} {
			pb := nestedPolicy(kind, n)
			node, err := ipld.Decode(pb, dagcbor.Decode)
			if err != nil {
				t.Fatalf("INCONCLUSIVE nested policy bytes do not decode: %v", err)
			}
			v := val.FromNode(node)
			_ = v
			// through a signed delegation (pol field) and directly
			payload := val.Map(val.E("iss", val.Str(keys.Principal(0).DID.String())), val.E("aud", val.Str(keys.Principal(1).DID.String())), val.E("cmd", val.Str("/foo")),
				val.E("pol", val.V{K: "raw"}), val.E("nonce", val.Bytes(bytes.Repeat([]byte{1}, 12))), val.E("exp", val.Null()))
			_ = payload
			sealed := signedRawPol(pb)
			signedProp.One(t, Case{Target: "token.FromSealed", Fam: "scaling-" + kind, Bytes: sealed})
			signedProp.One(t, Case{Target: "delegation.FromSealed", Fam: "scaling-" + kind, Bytes: sealed})
			js, err := ipld.Encode(node, dagjson.Encode)
			if err == nil {
				stringProp.One(t, Case{Target: "policy.FromDagJson", Fam: "scaling-" + kind, Str: string(js)})
			}
		}
		// a value nested n deep in EACH slot of an otherwise well-formed statement (operator, selector, pattern /
		// literal / sub-statement), as nested lists and as nested maps: rejected or accepted, the cost stays linear
		// (an error path that renders the offending value pays for its depth a second time)
		if n <= 8000 || h.Thorough() {
			deepList := append(bytes.Repeat([]byte{0x81}, n), 0x00)
			deepMap := append(bytes.Repeat([]byte{0xa1, 0x61, 'k'}, n), 0x00)
			txt := func(s string) *cbor.Item { return cbor.Text(s) }
			for di, deep := range [][]byte{deepList, deepMap} {
				dv := &cbor.Item{Raw: deep}
				stmts := map[string][]*cbor.Item{
					"op-slot":       {dv, txt(".a"), cbor.Uint(1)},
					"op-slot-2":     {dv, txt(".a")},
					"selector-slot": {txt("=="), dv, cbor.Uint(1)},
					"like-selector": {txt("like"), dv, txt("a*")},
					"like-pattern":  {txt("like"), txt(".a"), dv},
					"all-selector":  {txt("all"), dv, {Major: 4, Items: []*cbor.Item{txt("=="), txt("."), cbor.Uint(1)}}},
					"all-sub":       {txt("all"), txt(".a"), dv},
					"not-sub":       {txt("not"), dv},
					"and-sub":       {txt("and"), dv},
					"literal":       {txt("=="), txt(".a"), dv},
				}
				for name, items := range stmts {
					st := &cbor.Item{Major: 4, Items: items}
					pb := (&cbor.Item{Major: 4, Items: []*cbor.Item{st}}).Bytes()
					fam := fmt.Sprintf("scaling-deep-in-%s-%d", name, di)
					sealed := signedRawPol(pb)
					signedProp.One(t, Case{Target: "token.FromSealed", Fam: fam, Bytes: sealed})
					signedProp.One(t, Case{Target: "delegation.FromSealed", Fam: fam, Bytes: sealed})
				}
			}
		}
		// wide: n statements, n args, n-element lists
		wide := val.V{K: "list"}
		for i := 0; i < n; i++ {
			wide.L = append(wide.L, val.List(val.Str("=="), val.Str(".a"), val.Int(int64(i))))
		}
		nodeProp.One(t, Case{Target: "policy.FromIPLD", Fam: "scaling-wide", Node: &wide})
		data := val.Map(val.E("a", val.Int(1)))
		one := val.Int(1)
		var wp pol.Policy
		for i := 0; i < n/10; i++ {
			wp = append(wp, pol.Stmt{Op: "==", Sel: sel.Sel{{Kind: "field", Name: "a"}}, Lit: &one})
		}
		nodeProp.One(t, Case{Target: "Policy.Match+PartialMatch", Fam: "scaling-wide", Node: &data, Pol: wp})
		stringProp.One(t, Case{Target: "selector.Parse", Fam: "scaling-selector", Str: strings.Repeat(".a", n)})
		stringProp.One(t, Case{Target: "selector.Parse", Fam: "scaling-selector", Str: "." + strings.Repeat(`["k"]`, n)})
	}
}

// signedRawPol signs a delegation payload whose pol field is the given raw CBOR.
func signedRawPol(polCBOR []byte) []byte {
	k := keys.Principal(0)
	pl := &cbor.Item{Major: 5, Items: []*cbor.Item{
		cbor.Text("iss"), cbor.Text(k.DID.String()), cbor.Text("aud"), cbor.Text(keys.Principal(1).DID.String()),
		cbor.Text("cmd"), cbor.Text("/foo"), cbor.Text("pol"), {Raw: polCBOR}, cbor.Text("nonce"), cbor.BytesItem(bytes.Repeat([]byte{1}, 12)),
		cbor.Text("exp"), {Major: 7, Info: 22, Arg: 22}}}
	// canonical key order (length, then bytes): aud cmd exp iss pol nonce
	order := []string{"aud", "cmd", "exp", "iss", "pol", "nonce"}
	byKey := map[string][2]*cbor.Item{}
	for i := 0; i < len(pl.Items); i += 2 {
		byKey[string(pl.Items[i].Data)] = [2]*cbor.Item{pl.Items[i], pl.Items[i+1]}
	}
	pl.Items = nil
	for _, kx := range order {
		pl.Items = append(pl.Items, byKey[kx][0], byKey[kx][1])
	}
	sp := &cbor.Item{Major: 5, Items: []*cbor.Item{cbor.Text("h"), cbor.BytesItem(env.HeaderFor(k.Priv.Type())), cbor.Text(env.DlgTag), pl}}
	spBytes := sp.Bytes()
	sig, _ := k.Priv.Sign(spBytes)
	return (&cbor.Item{Major: 4, Items: []*cbor.Item{cbor.BytesItem(sig), {Raw: spBytes}}}).Bytes()
}

// TestExecution: ExecutionAllowed on decoded tokens whose (well-signed)
// delegations carry generated policies and whose invocation carries hostile-ish arguments.
type ExecCase struct {
	Chain chain.Case `json:"chain"`
}

var execProp = h.Define(P, "execution", func(t *rapid.T) ExecCase {
	cs := chain.DrawConforming(t, chain.GenOpt{MaxLen: 4, Commands: true, Args: true, Irrelevant: true})
	// arbitrary policies (not necessarily satisfiable) over hostile-ish argument data
	data := pol.GenData(t, "args")
	cs.Inv.Args = data.M
	for i := range cs.Links {
		cs.Links[i].Pol = pol.Gen(t, data, pol.GenCfg{Depth: 3, MaxStmt: 3}, fmt.Sprintf("lp%d", i))
		cs.Links[i].PolIPLD = true
		cs.Links[i].Decoded = true
	}
	cs.Inv.Decoded = true
	return ExecCase{Chain: cs}
}, func(c *h.Ctx, ec ExecCase) {
	var b *chain.Built
	var err error
	if pn, pv, st := h.Try(func() { b, err = chain.Build(ec.Chain) }); pn {
		c.Fail("C09/panic/build/"+panicSite(st), "constructing / sealing / unsealing the chain panicked: %v\n%s", pv, trimStack(st))
		return
	}
	if err != nil {
		c.P.Class("exec/build-error")
		return
	}
	d := chain.Decide(b, nil)
	if d.Panicked {
		c.P.PanicSeen()
		c.Fail("C09/panic/ExecutionAllowed", "ExecutionAllowed panicked: %s", d.Panic)
		return
	}
	c.P.Class("target:ExecutionAllowed")
	c.P.NonTrivial([]any{"exec", len(ec.Chain.Links), val.V{K: "map", M: ec.Chain.Inv.Args}.Shape()}, map[string]any{"target": "ExecutionAllowed", "links": len(ec.Chain.Links), "allowed": d.Allowed})
})

func TestExecution(t *testing.T) { execProp.Check(t) }

// TestKnownDeclaredLength re-confirms the listed memory finding.
func TestKnownDeclaredLength(t *testing.T) {
	const sig = "C09/mem/dagcbor-declared-length"
	in := []byte{0x9a, 0x00, 0x98, 0x96, 0x80} // list head declaring 10 000 000 entries, then nothing
	var ms0, ms1 runtime.MemStats
	runtime.ReadMemStats(&ms0)
	token.FromSealed(in)
	runtime.ReadMemStats(&ms1)
	alloc := ms1.TotalAlloc - ms0.TotalAlloc
	P.Eval()
	reproduced := alloc > memConst+memFactor*uint64(len(in))
	if reproduced && !P.IsKnown(sig) {
		ctx := &h.Ctx{P: P, T: t}
		ctx.Fail(sig, "token.FromSealed allocated %d MiB for the 5-byte input %x", alloc>>20, in)
	}
	P.SetExtra("declared_length_alloc_mib", alloc>>20)
	P.KnownFinding(sig, reproduced)
}

// ---------- native coverage-guided fuzzing (thorough tier) ----------

var fuzzByteTargets = []string{"token.FromSealed", "token.FromSealedReader", "token.FromDagCbor", "token.FromDagJson", "delegation.FromSealed", "invocation.FromSealed",
	"container.FromCbor", "container.FromCborBase64", "container.FromCar", "container.FromCarBase64", "container.FromCarReader"}

var fuzzBytesDef = h.Define(P, "fuzzbytes", func(t *rapid.T) Case { return Case{} }, run)
var fuzzStringsDef = h.Define(P, "fuzzstrings", func(t *rapid.T) Case { return Case{} }, run)

// FuzzBytes drives every byte-level entry point with the crash / allocation
// oracle inside the target. The first byte selects the entry point. Seeds:
// the valid artefacts and the hostile constants.
func FuzzBytes(f *testing.F) {
	for i := range fuzzByteTargets {
		for _, name := range artNames {
			f.Add(append([]byte{byte(i)}, artefacts[name]...))
		}
		for _, hb := range hostileBytes {
			f.Add(append([]byte{byte(i)}, hb...))
		}
	}
	def := fuzzBytesDef
	f.Fuzz(func(t *testing.T, in []byte) {
		if len(in) == 0 {
			return
		}
		cs := Case{Target: fuzzByteTargets[int(in[0])%len(fuzzByteTargets)], Fam: "native-fuzz", Bytes: in[1:]}
		def.One(t, cs)
	})
}

// FuzzStrings does the same for the text entry points.
func FuzzStrings(f *testing.F) {
	for i := range stringTargets {
		for _, s := range []string{".", ".a[0]?", `.["x"][1:2]`, "/foo/bar", "did:key:z6MkvXVukSeKyCBswifXNEkAvfTpRHAk1tDKna4tZYgrBDWZ", `[["==",".a",1],["like",".s","x*"],["all",".l",[">",".",0]]]`, `[["not",["and",[["or",[]]]]]]`} {
			f.Add(byte(i), s)
		}
	}
	def := fuzzStringsDef
	f.Fuzz(func(t *testing.T, sel byte, s string) {
		def.One(t, Case{Target: stringTargets[int(sel)%len(stringTargets)], Fam: "native-fuzz", Str: s})
	})
}

// ---------- well-signed tokens in other serializations ----------

// Reencoded: an honest token (floats, nested values, links included) whose sealed bytes are re-encoded in a
// data-preserving but non-canonical way (shorter floats, non-minimal heads, indefinite lengths, permuted keys,
// ...). The signature still verifies over the decoded content, so every check behind verification runs on
// bytes the library's own encoder never produces. The input slice has NO spare capacity (as handed over by a
// container reader or a copy).
var reencProp = h.Define(P, "reencoded", func(t *rapid.T) Case {
	d := tok.Gen(t, tok.GenCfg{Algs: []keys.Alg{keys.Ed25519, keys.Ed25519, keys.P256, keys.RSA}, NoTopNull: true, OnlyFuture: true,
		Values: val.Cfg{Depth: 2, MaxLen: 3, SafeInts: true}})
	// make sure a float is there to be shortened
	if d.Inv != nil {
		d.Inv.Meta = append(d.Inv.Meta, tok.KVal{K: "zzf", V: val.Float(1.5)})
	} else if d.Dlg != nil {
		d.Dlg.Meta = append(d.Dlg.Meta, tok.KVal{K: "zzf", V: val.Float(-0.25)})
	}
	tk, priv, err := tok.Build(d)
	if err != nil {
		return Case{Target: "token.FromSealed", Fam: "reencoded", Bytes: []byte{0x80}}
	}
	var sealed []byte
	switch x := tk.(type) {
	case *delegation.Token:
		sealed, _, err = x.ToSealed(priv)
	case *invocation.Token:
		sealed, _, err = x.ToSealed(priv)
	}
	if err != nil {
		return Case{Target: "token.FromSealed", Fam: "reencoded", Bytes: []byte{0x80}}
	}
	root, _, err := cbor.Parse(sealed)
	if err == nil {
		n := rapid.IntRange(1, 3).Draw(t, "nre")
		for i := 0; i < n; i++ {
			kind := rapid.SampledFrom(cbor.Reencodings).Draw(t, "rekind")
			var cands []int
			for j := 0; j < root.Count(); j++ {
				if cbor.Applicable(root.Nth(j), kind) {
					cands = append(cands, j)
				}
			}
			if len(cands) > 0 {
				cbor.Apply(root.Nth(rapid.SampledFrom(cands).Draw(t, "reitem")), kind)
			}
		}
		sealed = root.Bytes()
	}
	exact := make([]byte, len(sealed))
	copy(exact, sealed)
	tg := rapid.SampledFrom(byteTargets).Draw(t, "retarget")
	if tg == "meta.GetEncrypted" {
		tg = "token.FromSealed"
	}
	return Case{Target: tg, Fam: "reencoded", Bytes: exact}
}, run)

func TestReencoded(t *testing.T) { reencProp.Check(t) }

// TestExecutionScaling: the authorization check on well-signed tokens whose policy size x argument size grows to
// millions of statement evaluations, with everything SATISFIED (so that no early exit cuts the work short) and with one
// violation at the very end: the check returns - allowed, denied, or a refusal to do that much work - it does not
// panic. Neither size alone is large; the product is.
func TestExecutionScaling(t *testing.T) {
	ctx := &h.Ctx{P: P, T: t}
	zero, one := val.Int(0), val.Int(1)
	type shape struct{ k, m int }
	shapes := []shape{{8, 8}, {64, 4096}, {1100, 4096}, {2100, 2100}, {4096, 1100}}
	if h.Thorough() {
		shapes = append(shapes, shape{6000, 6000}, shape{300, 70000})
	}
	n := 0
	for _, sh := range shapes {
		for _, last := range []val.V{zero, one} {
			l := val.V{K: "list"}
			for i := 0; i < sh.m; i++ {
				l.L = append(l.L, zero)
			}
			l.L[len(l.L)-1] = last
			var inner []pol.Stmt
			for i := 0; i < sh.k; i++ {
				inner = append(inner, pol.Stmt{Op: "==", Sel: sel.Sel{{Kind: "id"}}, Lit: &zero})
			}
			pols := []pol.Policy{
				{{Op: "all", Sel: sel.Sel{{Kind: "field", Name: "l"}}, Sub: []pol.Stmt{{Op: "and", Sub: inner}}}},
				{{Op: "not", Sub: []pol.Stmt{{Op: "any", Sel: sel.Sel{{Kind: "field", Name: "l"}}, Sub: []pol.Stmt{{Op: "or", Sub: append(append([]pol.Stmt{}, inner[:len(inner)/8+1]...), pol.Stmt{Op: "==", Sel: sel.Sel{{Kind: "id"}}, Lit: &one})}}}}}},
			}
			for pi, p := range pols {
				cs := chain.Case{Links: []chain.Link{{Iss: 1, Aud: 2, Sub: 0, Cmd: "/", Nonce: 1, Pol: p, Decoded: true}, {Iss: 0, Aud: 1, Sub: 0, Cmd: "/", Nonce: 2, Decoded: true}},
					Inv: chain.Inv{Iss: 2, Sub: 0, Aud: -1, Cmd: "/x", NonceLen: 12, Decoded: true, Args: []val.KV{{K: "l", V: l}}}}
				var b *chain.Built
				var err error
				if pn, pv, st := h.Try(func() { b, err = chain.Build(cs) }); pn {
					ctx.Fail("C09/panic/build/"+panicSite(st), "constructing / sealing / unsealing a chain with a %d-statement policy and a %d-element argument panicked: %v", sh.k, sh.m, pv)
					return
				}
				if err != nil {
					P.Class("execution-scaling:build-refused")
					continue
				}
				for _, hook := range []bool{false, true} {
					n++
					var d chain.Decision
					if hook {
						d = chain.DecideIdentityHook(b)
					} else {
						d = chain.Decide(b, nil)
					}
					if d.Panicked {
						ctx.Fail("C09/panic/ExecutionAllowed/scaling", "ExecutionAllowed (hook=%v) panicked on well-signed tokens: policy shape %d with %d statements under a quantifier over %d elements (last element %v): %s", hook, pi, sh.k, sh.m, last.I, d.Panic)
						return
					}
					P.Class(fmt.Sprintf("execution-scaling:allowed=%v", d.Allowed))
				}
			}
		}
	}
	P.EvalN(n)
	P.AddDistinct(n)
	P.SetExtra("execution_scaling_checks", n)
}

// TestHostileSignatures: a schema-valid payload of an issuer of every key type under a signature that is NOT one: byte
// strings of every length 0..300 shaped like DER (short-form, long-form 0x81 / 0x82 and indefinite lengths, integer
// lengths that run to, one short of and past the end), constant bytes, a valid signature with one length byte changed.
// All of it sits behind a parseable issuer and a matching header, where signature-format checks live. Decoders return
// an error; they do not panic.
func TestHostileSignatures(t *testing.T) {
	algs := []keys.Alg{keys.P256, keys.P384, keys.P521, keys.Secp256k1, keys.Ed25519, keys.RSA}
	n := 0
	for _, a := range algs {
		d := tok.Tok{Dlg: &tok.Dlg{Iss: tok.KeyRef{Alg: a, Idx: 0}, Aud: tok.KeyRef{Alg: keys.Ed25519, Idx: 1}, Sub: "iss", Cmd: "/foo", Nonce: bytes.Repeat([]byte{1}, 12)}}
		tk, priv, err := tok.Build(d)
		if err != nil {
			t.Fatalf("INCONCLUSIVE %v", err)
		}
		sealed, _, err := tk.ToSealed(priv)
		if err != nil {
			t.Fatalf("INCONCLUSIVE %v", err)
		}
		root, _, err := cbor.Parse(sealed)
		if err != nil || len(root.Items) != 2 {
			t.Fatalf("INCONCLUSIVE cannot parse an honest token")
		}
		good := append([]byte{}, root.Items[0].Data...)
		try := func(sig []byte) {
			root.Items[0] = cbor.BytesItem(sig)
			b := root.Bytes()
			for _, tg := range []string{"token.FromSealed", "delegation.FromSealed", "token.FromSealedReader"} {
				mutatedProp.One(t, Case{Target: tg, Fam: "hostile-signature-" + string(a), Bytes: b})
				n++
			}
		}
		step := 1
		if !h.Thorough() {
			step = 2
		}
		for ln := 0; ln <= 300; ln += step {
			fill := func(k int) []byte {
				if k < 0 {
					k = 0
				}
				return bytes.Repeat([]byte{0x01}, k)
			}
			var shapes [][]byte
			shapes = append(shapes, fill(ln), bytes.Repeat([]byte{0xff}, ln), make([]byte, ln))
			if ln >= 6 {
				shapes = append(shapes,
					append([]byte{0x30, byte(ln - 2), 0x02, byte(ln - 4)}, fill(ln-4)...),                    // short form, R runs to the end
					append([]byte{0x30, byte(ln - 2), 0x02, byte(ln - 5)}, fill(ln-4)...),                    // R leaves one byte
					append([]byte{0x30, byte(ln - 2), 0x02, byte(ln - 3)}, fill(ln-4)...),                    // R runs past the end
					append([]byte{0x30, 0x81, byte(ln - 3), 0x02, byte(ln - 5)}, fill(ln-5)...),              // long form, R runs to the end
					append([]byte{0x30, 0x81, byte(ln - 3), 0x02, byte(ln - 6)}, fill(ln-5)...),              // long form, R leaves one byte
					append([]byte{0x30, 0x81, byte(ln - 3), 0x02, byte(ln - 4)}, fill(ln-5)...),              // long form, R past the end
					append([]byte{0x30, 0x82, byte((ln - 4) >> 8), byte(ln - 4), 0x02, byte(ln - 6)}, fill(ln-6)...),
					append([]byte{0x30, 0x80, 0x02, byte(ln - 4)}, fill(ln-4)...),                            // indefinite length
					append([]byte{0x30, 0x81, byte(ln - 3), 0x02, 0x81, byte(ln - 6)}, fill(ln-6)...),        // long-form integer length
					append([]byte{0x30, byte(ln - 2), 0x02, 0x01, 0x01, 0x02, byte(ln - 7)}, fill(ln-7)...), // S runs to the end
					append([]byte{0x30, byte(ln - 2), 0x02, 0x01, 0x01, 0x02, byte(ln - 6)}, fill(ln-7)...), // S past the end
				)
			}
			for _, s := range shapes {
				try(s)
			}
		}
		// the honest signature with each of its first 8 bytes changed to a few values, truncated, extended
		for i := 0; i < 8 && i < len(good); i++ {
			for _, v := range []byte{0x00, 0x01, 0x7f, 0x80, 0x81, 0x82, 0xff, good[i] + 1, good[i] - 1} {
				s := append([]byte{}, good...)
				s[i] = v
				try(s)
			}
		}
		for _, k := range []int{1, 2, 3, len(good) / 2, len(good) - 1} {
			if k > 0 && k < len(good) {
				try(good[:k])
				try(good[k:])
			}
		}
	}
	P.Sample(map[string]any{"hostile_signature_cases": n})
}


// TestBigItems: inputs that really ARE tens of MiB long - one byte string or text string of 2^24, 2^25 and 2^25+1 bytes
// with all of its data present, alone, as first element of a list and in the place of an envelope's signature - through
// every stream decoder fed from a bare io.Reader and through the buffered ones. (The hostile constants declare such
// lengths without delivering them; a decoder that is patient only with inputs that keep their promise is met here.)
// The call returns (watchdog) and allocates no more than the constant plus a multiple of what it was given.
func TestBigItems(t *testing.T) {
	sizes := []int{1 << 24, 1 << 25, 1<<25 + 1}
	if h.Thorough() {
		sizes = append(sizes, 1<<25-1, 1<<26)
	}
	tgs := append(append([]string{}, opaqueTargets...), "token.FromSealedReader", "token.FromSealed", "token.FromDagCbor", "container.FromCborReader", "container.FromCarReader", "container.FromCbor")
	n := 0
	for _, size := range sizes {
		for _, major := range []byte{2, 3} {
			head := []byte{major<<5 | 26, byte(size >> 24), byte(size >> 16), byte(size >> 8), byte(size)}
			for _, prefix := range [][]byte{nil, {0x82}, {0x82, 0x58, 0x40}} {
				pre := append(append([]byte{}, prefix...), head...)
				if len(prefix) == 3 {
					pre = append(append(append([]byte{}, prefix...), make([]byte, 64)...), append([]byte{0xa2, 0x61, 'h'}, head...)...)
				}
				for _, tg := range tgs {
					if _, ok := targets[tg]; !ok {
						continue
					}
					fill := byte('a')
					mutatedProp.One(t, Case{Target: tg, Fam: "big-item", Bytes: pre, Fill: size, FillByte: fill})
					n++
				}
			}
		}
	}
	P.SetExtra("big_item_cases", n)
}

// TestHostileTexts: every TEXT slot of a policy and of a payload - statement operator (arity 2, 3 and 4), selector,
// like pattern, command, principal, argument and metadata key - filled with texts that are not what text usually is:
// runs of 1..100 UTF-8 continuation bytes, lone lead bytes, overlong and surrogate encodings, a valid prefix followed
// by such bytes, NULs, 4 KiB of one character. go-ipld-prime does not validate text strings, so a correctly signed token
// can carry any of these; whatever repeats untrusted text in an error message, trims it or walks it by character meets
// it here. Through policy.FromIPLD directly and, signed by the issuer, through the token decoders and containers.
func TestHostileTexts(t *testing.T) {
	var texts [][]byte
	for _, n := range []int{1, 2, 3, 4, 7, 8, 15, 16, 31, 32, 33, 34, 63, 64, 65, 100, 255, 256, 4096} {
		texts = append(texts, bytes.Repeat([]byte{0x80}, n), bytes.Repeat([]byte{0xbf}, n), bytes.Repeat([]byte{0xc3}, n), bytes.Repeat([]byte{0xf4}, n), bytes.Repeat([]byte{0xff}, n),
			bytes.Repeat([]byte{0x00}, n), append([]byte("=="), bytes.Repeat([]byte{0x80}, n)...), append(bytes.Repeat([]byte{0x80}, n), '=', '='), append([]byte(".a"), bytes.Repeat([]byte{0xa9}, n)...),
			append(bytes.Repeat([]byte("é"), n), 0xc3), bytes.Repeat([]byte{0xed, 0xa0, 0x80}, n), bytes.Repeat([]byte{0xc0, 0xaf}, n), bytes.Repeat([]byte{0xe2, 0x80}, n))
	}
	tx := func(b []byte) val.V { return val.V{K: "strb", X: b} }
	ok := val.List(val.Str("=="), val.Str(".a"), val.Int(1))
	n := 0
	for _, b := range texts {
		h1 := tx(b)
		pols := []val.V{
			val.List(val.List(h1, val.Str(".a"), val.Int(1))),
			val.List(val.List(h1, val.Str(".a"))),
			val.List(val.List(h1, val.Str(".a"), val.Int(1), val.Int(2))),
			val.List(val.List(h1, ok)),
			val.List(val.List(h1, val.List(ok, ok))),
			val.List(val.List(val.Str("=="), h1, val.Int(1))),
			val.List(val.List(val.Str("like"), val.Str(".a"), h1)),
			val.List(val.List(val.Str("like"), h1, val.Str("*"))),
			val.List(val.List(val.Str("any"), h1, ok)),
			val.List(val.List(val.Str("not"), val.List(h1, val.Str(".a"), val.Int(1)))),
			val.List(val.List(val.Str("and"), val.List(ok, val.List(val.Str("all"), val.Str(".l"), val.List(h1, h1, h1))))),
			val.List(val.List(val.Str("=="), val.Str(".a"), h1)),
			val.List(val.List(val.Str("=="), val.Str(".a"), val.Map(val.KV{K: string(b), V: h1}))),
		}
		for _, pnode := range pols {
			pnode := pnode
			nodeProp.One(t, Case{Target: "policy.FromIPLD", Fam: "hostile-text", Node: &pnode})
			n++
			if len(b) > 300 {
				continue
			}
			iss := keys.Principal(0).DID.String()
			pay := val.Map(val.E("iss", val.Str(iss)), val.E("aud", val.Str(keys.Principal(1).DID.String())), val.E("sub", val.Str(iss)), val.E("cmd", val.Str("/foo")),
				val.E("pol", pnode), val.E("nonce", val.Bytes(bytes.Repeat([]byte{1}, 12))), val.E("exp", val.Null()))
			if sealed, ok := signed("dlg", pay); ok {
				for _, tg := range []string{"token.FromSealed", "delegation.FromSealed", "token.FromDagCbor", "token.FromSealedReader"} {
					mutatedProp.One(t, Case{Target: tg, Fam: "hostile-text-signed", Bytes: sealed})
					n++
				}
			}
		}
		if len(b) > 300 {
			continue
		}
		// the other text slots of a payload
		iss := keys.Principal(0).DID.String()
		for slot := 0; slot < 6; slot++ {
			pay := map[string]val.V{"iss": val.Str(iss), "aud": val.Str(keys.Principal(1).DID.String()), "sub": val.Str(iss), "cmd": val.Str("/foo"),
				"args": val.Map(), "prf": val.List(), "nonce": val.Bytes(bytes.Repeat([]byte{1}, 12)), "exp": val.Null()}
			switch slot {
			case 0:
				pay["cmd"] = tx(append([]byte("/"), b...))
			case 1:
				pay["aud"] = tx(append([]byte("did:key:z"), b...))
			case 2:
				pay["iss"] = tx(append([]byte("did:key:"), b...))
			case 3:
				pay["args"] = val.Map(val.KV{K: string(b), V: val.Int(1)})
			case 4:
				pay["meta"] = val.Map(val.KV{K: string(b), V: h1})
			default:
				pay["args"] = val.Map(val.E("a", val.List(h1, val.Map(val.KV{K: string(b), V: h1}))))
			}
			pv := val.V{K: "map"}
			for _, k := range []string{"iss", "aud", "sub", "cmd", "args", "prf", "meta", "nonce", "exp"} {
				if v, ok := pay[k]; ok {
					pv.M = append(pv.M, val.KV{K: k, V: v})
				}
			}
			if sealed, ok := signed("inv", pv); ok {
				for _, tg := range []string{"token.FromSealed", "invocation.FromSealed", "token.FromDagCbor"} {
					mutatedProp.One(t, Case{Target: tg, Fam: "hostile-text-signed", Bytes: sealed})
					n++
				}
			}
		}
	}
	P.SetExtra("hostile_text_cases", n)
}


// TestOperatorSpellings: well-formed statements of every kind whose OPERATOR is spelled otherwise - upper case, title
// case, mixed, with blanks, with a look-alike letter, doubled - read from a document and, if the decoder lets them
// through, matched. An operator the library recognises it must also be able to evaluate; one it does not recognise is an
// error at decoding, not a crash at matching.
func TestOperatorSpellings(t *testing.T) {
	ok := val.List(val.Str("=="), val.Str(".a"), val.Int(1))
	n := 0
	for _, op := range []string{"and", "or", "not", "all", "any", "like", "==", "!=", "<", "<=", ">", ">="} {
		var spellings []string
		spellings = append(spellings, op, strings.ToUpper(op), strings.ToUpper(op[:1])+op[1:], op+" ", " "+op, op+op, op+"\x00", strings.Replace(op, "a", "\u0430", 1), strings.Replace(op, "o", "0", 1), op[:1]+strings.ToUpper(op[1:]))
		for _, sp := range spellings {
			var stmts []val.V
			switch op {
			case "and", "or":
				stmts = []val.V{val.List(val.Str(sp), val.List(ok, ok)), val.List(val.Str(sp), val.List()), val.List(val.Str("not"), val.List(val.Str(sp), val.List(ok)))}
			case "not":
				stmts = []val.V{val.List(val.Str(sp), ok)}
			case "all", "any":
				stmts = []val.V{val.List(val.Str(sp), val.Str(".l"), ok), val.List(val.Str("not"), val.List(val.Str(sp), val.Str(".l"), ok))}
			case "like":
				stmts = []val.V{val.List(val.Str(sp), val.Str(".a"), val.Str("*"))}
			default:
				stmts = []val.V{val.List(val.Str(sp), val.Str(".a"), val.Int(1)), val.List(val.Str("and"), val.List(val.List(val.Str(sp), val.Str(".a"), val.Int(1))))}
			}
			for _, st := range stmts {
				pnode := val.List(st)
				nodeProp.One(t, Case{Target: "policy.FromIPLD+Match", Fam: "operator-spelling", Node: &pnode})
				n++
			}
		}
	}
	P.SetExtra("operator_spelling_cases", n)
}

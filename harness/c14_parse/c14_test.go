// C14 — policies and selectors are parsed losslessly or rejected.
package c14

import (
	"github.com/ucan-wg/go-ucan/pkg/policy/literal"
	"runtime"
	"sync"
	"fmt"
	"math"
	"os"
	"regexp"
	"strings"
	"testing"

	"github.com/ipld/go-ipld-prime"
	"github.com/ipld/go-ipld-prime/codec/dagjson"
	"github.com/ipld/go-ipld-prime/datamodel"
	"github.com/ipld/go-ipld-prime/fluent/qp"
	"github.com/ipld/go-ipld-prime/node/basicnode"
	"pgregory.net/rapid"

	"github.com/ucan-wg/go-ucan/pkg/policy"
	"github.com/ucan-wg/go-ucan/pkg/policy/selector"

	"verif/harness/h"
	_ "verif/harness/warm"
	"verif/harness/pol"
	"verif/harness/sel"
	"verif/harness/val"
)

var P = h.New("C14", "exploration",
	"selector strings: grammar-generated valid selectors and mutants of them (delete / duplicate / insert one of . ? [ ] \" \\ : digits letters, truncate), plus exhaustive enumeration of all strings up to a length bound over the alphabet {. [ ] \" ? \\ : a 0 - é}; policies: IPLD nodes from the policy grammar and structural mutants, DAG-JSON texts, constructor-built policies. Oracle: accepted => print parses back to an accessor-wise equal selector with equal Select results on a panel, and the print equals the input up to the documented identity-'?' normalisation (nothing dropped); FromIPLD accepted => ToIPLD deep-equals the input up to selector normalisation. Non-trivial = string contains a quote, bracket or '?' (selectors) / policy has >= 1 statement (policies). Distinct by the string / node.")

func TestMain(m *testing.M) { os.Exit(P.Main(m)) }
func TestReplay(t *testing.T) { P.Replay(t) }

// ---------- selector strings ----------

type StrCase struct {
	S      string  `json:"s"`
	Intent sel.Sel `json:"intent,omitempty"` // set when S is the unmodified print of a grammar-generated selector
}

var identQ = regexp.MustCompile(`\.\?+`)

// normalise applies the one documented normalisation: an identity segment
// prints as "." (so ".?" inside a longer selector prints as "."). Quoted
// parts are left alone.
func normalise(s string) string {
	if s == ".?" {
		return s
	}
	var b strings.Builder
	inQ := false
	i := 0
	for i < len(s) {
		ch := s[i]
		if ch == '"' && (i == 0 || s[i-1] != '\\') {
			inQ = !inQ
		}
		if !inQ && ch == '.' {
			j := i + 1
			for j < len(s) && s[j] == '?' {
				j++
			}
			if j > i+1 && (j == len(s) || s[j] == '.' || s[j] == '[') {
				b.WriteByte('.')
				i = j
				continue
			}
		}
		b.WriteByte(ch)
		i++
	}
	return b.String()
}

var panel = func() []ipld.Node {
	vs := []val.V{
		val.Null(), val.Int(7), val.Str("héllo wörld"), val.Bytes([]byte{1, 2, 3, 4}), val.Bool(true),
		val.List(), val.List(val.Int(1), val.Int(2), val.Int(3)),
		val.List(val.Map(val.E("a", val.Int(1))), val.Map(val.E("a", val.Int(2)), val.E("b", val.Str("x")))),
		val.Map(), val.Map(val.E("a", val.Int(1)), val.E("b", val.List(val.Int(5), val.Int(6))), val.E("", val.Str("empty")), val.E("0", val.Str("zero"))),
		val.Map(val.E("a", val.Map(val.E("a", val.Map(val.E("a", val.Int(9)))), val.E("x", val.List(val.Str("p"), val.Str("q")))))),
		val.Map(val.E("foo", val.Str("bar")), val.E("with space", val.Int(3)), val.E("é", val.Null()), val.E("x", val.Bytes([]byte("xyz")))),
	}
	var out []ipld.Node
	for _, v := range vs {
		out = append(out, v.Node())
	}
	return out
}()

func sameSegments(a, b selector.Selector) (bool, string) {
	if len(a) != len(b) {
		return false, fmt.Sprintf("%d vs %d segments", len(a), len(b))
	}
	for i := range a {
		x, y := a[i], b[i]
		if x.Identity() != y.Identity() || x.Optional() != y.Optional() || x.Iterator() != y.Iterator() ||
			x.Field() != y.Field() || x.Index() != y.Index() || fmt.Sprint(x.Slice()) != fmt.Sprint(y.Slice()) {
			return false, fmt.Sprintf("segment %d differs: %q vs %q", i, x.String(), y.String())
		}
	}
	return true, ""
}

type selOut struct {
	st  int
	val string
}

func selectOn(s selector.Selector, n ipld.Node) selOut {
	var r ipld.Node
	var err error
	if p, _, _ := h.Try(func() { r, err = s.Select(n) }); p {
		return selOut{st: 3}
	}
	if err != nil {
		return selOut{st: 2}
	}
	if r == nil {
		return selOut{st: 1}
	}
	return selOut{st: 0, val: val.FromNode(r).String()}
}

func defectClass(s string) string {
	q := 0
	for i := 0; i < len(s); i++ {
		if s[i] == '"' && (i == 0 || s[i-1] != '\\') {
			q++
		}
	}
	switch {
	case q%2 == 1:
		return "unbalanced-quote"
	case strings.Count(s, "[") != strings.Count(s, "]"):
		return "unbalanced-bracket"
	}
	return "other"
}

func runStr(c *h.Ctx, cs StrCase) {
	var p selector.Selector
	var err error
	if pn, v, _ := h.Try(func() { p, err = selector.Parse(cs.S) }); pn {
		c.Fail("C14/selector/parse-panic", "Parse(%q) panicked: %v", cs.S, v)
		return
	}
	interesting := strings.ContainsAny(cs.S, `"[]?`)
	// reference grammar: every character of an accepted text must be accounted
	// for by exactly one segment of the documented syntax
	refSel, refOK := sel.ParseRef(cs.S)
	if (err == nil) != refOK {
		if err == nil {
			c.Fail("C14/selector/grammar/accepts-underivable", "Parse(%q) succeeded, but the text is not derivable from the selector grammar: some part of it cannot belong to any segment (prints as %q)", cs.S, p.String())
		} else {
			c.Fail("C14/selector/grammar/rejects-derivable", "Parse(%q) failed (%v), but the text is derivable from the selector grammar as %+v", cs.S, err, refSel)
		}
		return
	}
	// the same text through every CONSTRUCTOR that takes a selector: a policy can be built from it exactly when it is
	// a selector (the constructors are a second front door to the same parser; what one refuses the other refuses)
	one := literal.Int(1)
	inner := policy.Equal(".", one)
	ctors := map[string]policy.Constructor{
		"Equal": policy.Equal(cs.S, one), "GreaterThan": policy.GreaterThan(cs.S, one), "GreaterThanOrEqual": policy.GreaterThanOrEqual(cs.S, one),
		"LessThan": policy.LessThan(cs.S, one), "LessThanOrEqual": policy.LessThanOrEqual(cs.S, one), "Like": policy.Like(cs.S, "a*"),
		"All": policy.All(cs.S, inner), "Any": policy.Any(cs.S, inner),
		"Not(Equal)": policy.Not(policy.Equal(cs.S, one)), "And(Any)": policy.And(inner, policy.Any(cs.S, inner)), "Or(All)": policy.Or(policy.All(cs.S, inner)),
		"All(.,Like)": policy.All(".", policy.Like(cs.S, "x")),
	}
	for name, ct := range ctors {
		var cerr error
		var built policy.Policy
		if pn, v, _ := h.Try(func() { built, cerr = policy.Construct(ct) }); pn {
			c.Fail("C14/constructor/panic/"+name, "policy.Construct(%s(%q, ...)) panicked: %v", name, cs.S, v)
			return
		}
		if (cerr == nil) != refOK {
			c.Fail("C14/constructor/selector-acceptance/"+name, "policy.%s with selector text %q: constructed=%v, but the text is derivable from the selector grammar: %v (selector.Parse: %v)", name, cs.S, cerr == nil, refOK, err)
			return
		}
		if cerr == nil {
			// and what was built can be written and read back
			n, werr := built.ToIPLD()
			if werr != nil {
				c.Fail("C14/constructor/not-writable/"+name, "policy built by %s(%q) cannot be written: %v", name, cs.S, werr)
				return
			}
			if _, rerr := policy.FromIPLD(n); rerr != nil {
				c.Fail("C14/constructor/roundtrip/"+name, "policy built by %s(%q) is written as %s, which FromIPLD refuses: %v", name, cs.S, val.FromNode(n), rerr)
				return
			}
		}
	}
	if err == nil {
		if why := segmentsMatchRef(p, refSel); why != "" {
			c.Fail("C14/selector/grammar/segments-differ", "Parse(%q): %s (reference segments %+v)", cs.S, why, refSel)
			return
		}
	}
	if err != nil {
		c.P.Class("sel/rejected")
		if cs.Intent != nil {
			c.Fail("C14/selector/valid-rejected", "grammar-generated selector %q rejected: %v", cs.S, err)
		}
		if interesting {
			c.P.NonTrivial([]string{"sel", cs.S}, map[string]any{"selector": cs.S, "accepted": false})
		}
		return
	}
	c.P.Class("sel/accepted")
	printed := p.String()
	if want := normalise(cs.S); printed != want {
		c.Fail("C14/selector/lossy-accept/"+defectClass(cs.S), "Parse(%q) succeeded but prints as %q (expected %q): part of the input was dropped or altered", cs.S, printed, want)
		return
	}
	p2, err := selector.Parse(printed)
	if err != nil {
		c.Fail("C14/selector/print-does-not-parse", "Parse(%q) ok, but its print %q is rejected: %v", cs.S, printed, err)
		return
	}
	if ok, why := sameSegments(p, p2); !ok {
		c.Fail("C14/selector/print-changes-meaning", "Parse(%q) and Parse(print=%q) differ: %s", cs.S, printed, why)
		return
	}
	if p2.String() != printed {
		c.Fail("C14/selector/print-not-stable", "print of %q is %q, print of that is %q", cs.S, printed, p2.String())
	}
	for i, n := range panel {
		if a, b := selectOn(p, n), selectOn(p2, n); a != b {
			c.Fail("C14/selector/print-changes-meaning", "Select differs on panel[%d] between %q and its print %q: %+v vs %+v", i, cs.S, printed, a, b)
			return
		}
	}
	// a parsed selector is a value: what it means does not depend on what it has been applied to before. The
	// loop above used p and p2 side by side; here p (used) stands against a parse that has never been used, on
	// every panel value in both orders, and its segments against a fresh parse of the same text.
	for pass := 0; pass < 2; pass++ {
		for k := range panel {
			i := k
			if pass == 1 {
				i = len(panel) - 1 - k
			}
			fresh, err := selector.Parse(printed)
			if err != nil {
				break
			}
			if a, b := selectOn(p, panel[i]), selectOn(fresh, panel[i]); a != b {
				c.Fail("C14/selector/meaning-changes-with-use", "selector %q after having been applied to other values gives %+v on panel[%d]; a fresh parse of its print %q gives %+v", cs.S, a, i, printed, b)
				return
			}
		}
	}
	if fresh, err := selector.Parse(cs.S); err == nil {
		if ok, why := sameSegments(p, fresh); !ok {
			c.Fail("C14/selector/meaning-changes-with-use", "segments of Parse(%q) after use differ from a fresh parse: %s", cs.S, why)
			return
		}
	}
	if cs.Intent != nil {
		// intended segments, via the accessors; a leading bracket segment is
		// written ".[...]" and parses as identity + segment
		want := cs.Intent
		got := p
		if len(got) > 0 && got[0].Identity() && (len(want) == 0 || want[0].Kind != "id") {
			got = got[1:]
		}
		if len(got) != len(want) {
			c.Fail("C14/selector/intent", "selector %q parsed into %d segments, intended %d", cs.S, len(got), len(want))
			return
		}
		for i, w := range want {
			g := got[i]
			bad := ""
			switch w.Kind {
			case "id":
				if !g.Identity() {
					bad = "not identity"
				}
			case "field", "qfield":
				if g.Field() != w.Name || g.Identity() || g.Iterator() || len(g.Slice()) > 0 {
					bad = fmt.Sprintf("field %q", g.Field())
				}
				if fmt.Sprint(selectOn(selector.Selector{g}, val.Map(val.E(w.Name, val.Int(42))).Node())) != fmt.Sprint(selOut{0, val.Int(42).String()}) {
					bad = "does not select the named field"
				}
			case "index":
				if int64(g.Index()) != w.Idx || g.Field() != "" || g.Iterator() || len(g.Slice()) > 0 {
					bad = fmt.Sprintf("index %d", g.Index())
				}
			case "iter":
				if !g.Iterator() {
					bad = "not iterator"
				}
			case "slice":
				if len(g.Slice()) != 2 {
					bad = "not slice"
				}
			}
			if w.Kind != "id" && g.Optional() != w.Opt {
				bad = fmt.Sprintf("optional=%v", g.Optional())
			}
			if bad != "" {
				c.Fail("C14/selector/intent", "selector %q segment %d (%s): %s", cs.S, i, w.Text(), bad)
				return
			}
		}
	}
	if interesting {
		c.P.NonTrivial([]string{"sel", cs.S}, map[string]any{"selector": cs.S, "accepted": true, "print": printed})
	}
}

// segmentsMatchRef compares the parsed segments (through the accessors) with
// the reference derivation.
func segmentsMatchRef(p selector.Selector, ref sel.Sel) string {
	if len(p) != len(ref) {
		return fmt.Sprintf("%d segments parsed, the grammar derives %d", len(p), len(ref))
	}
	for i, w := range ref {
		g := p[i]
		switch w.Kind {
		case "id":
			if !g.Identity() {
				return fmt.Sprintf("segment %d should be identity", i)
			}
			continue
		case "field", "qfield":
			if g.Identity() || g.Iterator() || len(g.Slice()) > 0 || g.Field() != w.Name {
				return fmt.Sprintf("segment %d should be field %q, is %q", i, w.Name, g.String())
			}
			if w.Name != "" && fmt.Sprint(selectOn(selector.Selector{g}, val.Map(val.E(w.Name, val.Int(42))).Node())) != fmt.Sprint(selOut{0, val.Int(42).String()}) {
				return fmt.Sprintf("segment %d does not select field %q", i, w.Name)
			}
		case "index":
			if g.Identity() || g.Iterator() || len(g.Slice()) > 0 || g.Field() != "" || int64(g.Index()) != w.Idx {
				return fmt.Sprintf("segment %d should be index %d, is %q", i, w.Idx, g.String())
			}
		case "iter":
			if !g.Iterator() {
				return fmt.Sprintf("segment %d should be the iterator", i)
			}
		case "slice":
			sl := g.Slice()
			if len(sl) != 2 {
				return fmt.Sprintf("segment %d should be a slice", i)
			}
			// absent bounds are represented by the extreme values
			if (w.From != nil && sl[0] != *w.From) || (w.From == nil && sl[0] > -(1<<53)) || (w.To != nil && sl[1] != *w.To) || (w.To == nil && sl[1] < (1<<53)) {
				return fmt.Sprintf("segment %d has bounds %v, the text says %s", i, sl, w.Text())
			}
		}
		if g.Optional() != w.Opt {
			return fmt.Sprintf("segment %d optional=%v, the text says %v", i, g.Optional(), w.Opt)
		}
	}
	return ""
}

var insertable = []string{".", "?", "[", "]", `"`, `\`, ":", "0", "1", "-", "a", "é", " ", `["`, `"]`, "[]", "..", ":1", ":", "1:", "::", `\"`, `""`, "]]", "[["}

func mutate(t *rapid.T, s string) string {
	r := []rune(s)
	n := rapid.IntRange(1, 3).Draw(t, "nmut")
	for i := 0; i < n; i++ {
		pos := rapid.IntRange(0, len(r)).Draw(t, "mpos")
		switch rapid.IntRange(0, 4).Draw(t, "mkind") {
		case 0: // delete
			if pos < len(r) {
				r = append(r[:pos:pos], r[pos+1:]...)
			}
		case 1: // duplicate
			if pos < len(r) {
				r = append(r[:pos+1:pos+1], r[pos:]...)
			}
		case 2, 3: // insert
			ins := []rune(rapid.SampledFrom(insertable).Draw(t, "ins"))
			r = append(r[:pos:pos], append(ins, r[pos:]...)...)
		default: // truncate
			r = r[:pos]
		}
	}
	return string(r)
}

func drawStr(t *rapid.T) StrCase {
	s := sel.Gen(t, sel.GenCfg{MaxSegs: 5})
	text := s.Text()
	switch rapid.IntRange(0, 10).Draw(t, "smode") {
	case 10:
		// one quoted-name bracket whose content is built from quotes, escaped quotes, backslashes and junk - the region
		// where "which quote closes the name" is decided - followed by an ordinary tail
		n := rapid.IntRange(0, 6).Draw(t, "qn")
		content := ""
		for i := 0; i < n; i++ {
			content += rapid.SampledFrom([]string{"a", "admin", `"`, `\"`, `\\`, `\`, "junk", "=", " ", "]", "[", ".", "?", "'", `""`, `"\"`}).Draw(t, "qatom")
		}
		pre := rapid.SampledFrom([]string{".", ".x", ".x.", ".[0]", ".x?"}).Draw(t, "qpre")
		post := rapid.SampledFrom([]string{"", "?", ".y", "[0]", "[]", `["z"]`, "?.y"}).Draw(t, "qpost")
		return StrCase{S: pre + `["` + content + `"]` + post}
	case 0, 1, 2:
		return StrCase{S: text, Intent: s}
	case 3:
		return StrCase{S: rapid.StringOfN(rapid.RuneFrom([]rune(`.[]"?\:a0-é `)), 0, 9, -1).Draw(t, "raw")}
	default:
		return StrCase{S: mutate(t, text)}
	}
}

var strProp = h.Define(P, "selector", drawStr, runStr)

func TestSelectorStrings(t *testing.T) { strProp.Check(t) }

// TestSelectorEnumeration: every string up to maxLen over the alphabet.
func TestSelectorEnumeration(t *testing.T) {
	enumerate(t, []string{".", "[", "]", `"`, "?", `\`, ":", "a", "0", "-", "é"}, h.N(5, 7), "")
}

// TestSelectorEnumerationNumbers: the same over an alphabet rich in digits and signs (spellings of indexes
// and slice bounds: leading zeros, "-0", digits that mean something else in another base); every string
// starts with '.', the only way to be accepted.
func TestSelectorEnumerationNumbers(t *testing.T) {
	enumerate(t, []string{"[", "]", "?", ":", "-", "0", "1", "8", "a", "."}, h.N(6, 8), ".")
}

func enumerate(t *testing.T, alpha []string, maxLen int, start string) {
	k, nshards := h.Shard()
	total, accepted, nt := 0, 0, 0
	var rec func(prefix string, depth int, idx int)
	fail := false
	rec = func(prefix string, depth int, idx int) {
		if fail {
			return
		}
		if depth > 0 {
			total++
			p, err := selector.Parse(prefix)
			if rs, ok := sel.ParseRef(prefix); ok != (err == nil) || (ok && segmentsMatchRef(p, rs) != "") {
				strProp.One(t, StrCase{S: prefix})
				fail = true
				return
			}
			if err == nil {
				accepted++
				if p.String() != normalise(prefix) {
					strProp.One(t, StrCase{S: prefix})
					if t.Failed() {
						fail = true
						return
					}
				} else if p2, err2 := selector.Parse(p.String()); err2 != nil {
					strProp.One(t, StrCase{S: prefix})
					fail = true
					return
				} else if ok, _ := sameSegments(p, p2); !ok {
					strProp.One(t, StrCase{S: prefix})
					fail = true
					return
				}
			}
			if strings.ContainsAny(prefix, `"[]?`) {
				nt++
			}
		}
		if depth == maxLen {
			return
		}
		for i, a := range alpha {
			if depth == 1 && nshards > 1 && i%nshards != k%len(alpha) && (i%nshards) != k {
				continue
			}
			rec(prefix+a, depth+1, i)
		}
	}
	// every accepted selector starts with "."; enumerating the rest is pointless but cheap
	if start != "" {
		rec(start, 1, 0)
	} else {
		rec("", 0, 0)
	}
	P.EvalN(total)
	P.AddDistinct(nt)
	P.SetExtra("enumerated_strings", total)
	P.SetExtra("enumerated_accepted", accepted)
	P.SetExtra("enumerated_max_len", maxLen)
	P.Sample(map[string]any{"enumeration": "all strings over {" + strings.Join(alpha, " ") + "}", "prefix": start, "max_len": maxLen, "strings": total, "accepted": accepted})
	if nshards == 1 {
		P.SetExhaustive()
	}
}

// ---------- policies ----------

type PolCase struct {
	Pol   pol.Policy `json:"pol"`
	Mut   []int      `json:"mut,omitempty"` // structural mutation of the IPLD node
	Data  []val.V    `json:"data,omitempty"`
	Seltx []string   `json:"sel_texts,omitempty"` // raw selector texts substituted into the node
}

// mutateNode applies a structural mutation to a policy node.
func mutateNode(n ipld.Node, mut []int, texts []string) ipld.Node {
	if len(mut) == 0 {
		return n
	}
	v := val.FromNode(n)
	k := 0
	next := func(m int) int {
		if len(mut) == 0 || m <= 0 {
			return 0
		}
		x := mut[k%len(mut)] % m
		k++
		return x
	}
	var walk func(x val.V, depth int) val.V
	applied := false
	walk = func(x val.V, depth int) val.V {
		if x.K != "list" {
			return x
		}
		if !applied && next(3) == 0 {
			applied = true
			switch next(12) {
			case 7, 8: // a statement replaced by a bare GROUP of 2 or 3 statements (itself twice / thrice): a list where a tuple belongs
				if len(x.L) > 0 && x.L[0].K == "str" {
					g := val.V{K: "list", L: []val.V{x, x}}
					if next(2) == 0 {
						g.L = append(g.L, x)
					}
					return g
				}
			case 9: // a connective replaced by its bare operand list: ["and", [a, b]] -> [a, b]
				if len(x.L) == 2 && x.L[0].K == "str" && x.L[1].K == "list" {
					return x.L[1]
				}
			case 10: // one more level of list around a statement
				if len(x.L) > 0 && x.L[0].K == "str" {
					return val.V{K: "list", L: []val.V{x}}
				}
			case 11: // operator and selector swapped
				if len(x.L) >= 2 && x.L[0].K == "str" && x.L[1].K == "str" {
					x.L = append([]val.V{x.L[1], x.L[0]}, x.L[2:]...)
				}
			case 0: // drop an element
				if len(x.L) > 0 {
					i := next(len(x.L))
					x.L = append(append([]val.V{}, x.L[:i]...), x.L[i+1:]...)
				}
			case 1: // duplicate an element
				if len(x.L) > 0 {
					i := next(len(x.L))
					x.L = append(append(append([]val.V{}, x.L[:i+1]...), x.L[i]), x.L[i+1:]...)
				}
			case 2: // replace operator
				if len(x.L) > 0 && x.L[0].K == "str" {
					x.L = append([]val.V{val.Str([]string{"==", "not", "and", "like", "all", "xor", "", "!=", "any", "or", ">"}[next(11)])}, x.L[1:]...)
				}
			case 3: // retype an element
				if len(x.L) > 0 {
					i := next(len(x.L))
					x.L = append([]val.V{}, x.L...)
					x.L[i] = []val.V{val.Int(1), val.Null(), val.Str("x"), val.List(), val.Map(), val.Bool(true)}[next(6)]
				}
			case 4: // substitute a raw selector text
				if len(x.L) >= 2 && x.L[1].K == "str" && len(texts) > 0 {
					x.L = append([]val.V{}, x.L...)
					x.L[1] = val.Str(texts[next(len(texts))])
				}
			case 5: // lone backslash pattern
				if len(x.L) == 3 && x.L[0].S == "like" {
					x.L = append([]val.V{}, x.L...)
					x.L[2] = val.Str(x.L[2].S + `\`)
				}
			default: // append junk
				x.L = append(append([]val.V{}, x.L...), val.Int(0))
			}
			return x
		}
		out := val.V{K: "list"}
		for _, e := range x.L {
			out.L = append(out.L, walk(e, depth+1))
		}
		return out
	}
	return walk(v, 0).Node()
}

// normalisePolicyNode rewrites selector strings (second element of 3-tuples
// whose operator takes a selector) with the selector normalisation.
func normalisePolicyNode(n ipld.Node) ipld.Node {
	v := val.FromNode(n)
	var walk func(x val.V) val.V
	walk = func(x val.V) val.V {
		if x.K != "list" {
			return x
		}
		out := val.V{K: "list"}
		for _, e := range x.L {
			out.L = append(out.L, walk(e))
		}
		if len(out.L) == 3 && out.L[0].K == "str" && out.L[1].K == "str" {
			switch out.L[0].S {
			case "==", "<", "<=", ">", ">=", "like", "all", "any":
				out.L[1] = val.Str(normalise(out.L[1].S))
			}
		}
		return out
	}
	return walk(v).Node()
}

func runPol(c *h.Ctx, pc PolCase) {
	node := mutateNode(pc.Pol.IPLD(), pc.Mut, pc.Seltx)
	var p policy.Policy
	var err error
	if pn, v, _ := h.Try(func() { p, err = policy.FromIPLD(node) }); pn {
		c.Fail("C14/policy/fromipld-panic", "FromIPLD panicked: %v on %s", v, val.FromNode(node))
		return
	}
	mutated := len(pc.Mut) > 0
	if err != nil {
		c.P.Class("pol/rejected")
		if !mutated {
			c.Fail("C14/policy/valid-rejected", "grammar-generated policy rejected by FromIPLD: %v\n%s", err, val.FromNode(node))
		}
		return
	}
	c.P.Class("pol/accepted")
	back, err := p.ToIPLD()
	if err != nil {
		c.Fail("C14/policy/toipld-error", "ToIPLD failed on an accepted policy: %v", err)
		return
	}
	want := normalisePolicyNode(node)
	if !val.EqualNodes(back, want) || !val.SameMapOrder(back, want) {
		c.Fail("C14/policy/ipld-roundtrip", "FromIPLD -> ToIPLD is not the identity (up to selector normalisation)\n in:  %s\n out: %s", val.FromNode(want), val.FromNode(back))
		return
	}
	// DAG-JSON path (skipped for values DAG-JSON cannot carry faithfully)
	if js, jerr := ipld.Encode(node, dagjson.Encode); jerr == nil && jsonFaithful(node) {
		pj, err := policy.FromDagJson(string(js))
		if err != nil {
			c.Fail("C14/policy/dagjson-rejects", "FromIPLD accepts but FromDagJson rejects the same policy: %v\n%s", err, js)
			return
		}
		bj, err := pj.ToIPLD()
		if err != nil || !val.EqualNodes(bj, want) {
			c.Fail("C14/policy/dagjson-roundtrip", "FromDagJson -> ToIPLD differs from the input\n in:  %s\n out: %v", val.FromNode(want), bj)
			return
		}
		c.P.Class("pol/dagjson")
		// text level: the SAME document followed by something. Either the whole text is one DAG-JSON value
		// (blank tail) and is read as such, or it is rejected - never read up to the end of the first value
		// with the rest dropped
		for _, tail := range []string{" ", "\n", "]", ` [["==",".zz",1]]`, "\n" + string(js), ",[]", " garbage", "}", "\x00", "0", `"`, " null"} {
			text := string(js) + tail
			pt, err := policy.FromDagJson(text)
			if err != nil {
				continue
			}
			whole, werr := ipld.Decode([]byte(text), dagjson.Decode)
			if werr != nil {
				c.Fail("C14/policy/dagjson-trailing-content-dropped", "FromDagJson accepts a text that is not ONE DAG-JSON value (a strict decode fails: %v); the part after the first value is silently dropped\ntext: %q", werr, text)
				return
			}
			bt, err := pt.ToIPLD()
			if err != nil || !val.EqualNodes(bt, normalisePolicyNode(whole)) {
				c.Fail("C14/policy/dagjson-roundtrip", "FromDagJson(%q) -> ToIPLD differs from the document", text)
				return
			}
			c.P.Class("pol/dagjson-tail-accepted")
		}
	}
	// constructor-built policy survives an IPLD round trip with identical matching behaviour
	if !mutated {
		if pcst, err := pc.Pol.Construct(); err != nil {
			c.Fail("C14/policy/constructor-rejects", "FromIPLD accepts what the constructors reject: %v", err)
		} else {
			n2, err := pcst.ToIPLD()
			if err != nil {
				c.Fail("C14/policy/toipld-error", "ToIPLD failed on a constructed policy: %v", err)
				return
			}
			p3, err := policy.FromIPLD(n2)
			if err != nil {
				c.Fail("C14/policy/constructed-roundtrip-rejected", "FromIPLD(constructed.ToIPLD()) rejected: %v", err)
				return
			}
			for i, d := range pc.Data {
				dn := d.Node()
				var a1, a2, b1, b2 bool
				if pn, _, _ := h.Try(func() {
					a1, _ = pcst.Match(dn)
					a2, _ = pcst.PartialMatch(dn)
					b1, _ = p3.Match(dn)
					b2, _ = p3.PartialMatch(dn)
				}); pn {
					continue
				}
				if a1 != b1 || a2 != b2 {
					c.Fail("C14/policy/constructed-roundtrip-behaviour", "constructed policy and its IPLD round trip match differently on data[%d]=%s: (%v,%v) vs (%v,%v)\n%s", i, d, a1, a2, b1, b2, pcst)
					return
				}
			}
			// ... also when the constructed policy has been used before and the round-tripped copy has not
			for k := 2*len(pc.Data) - 1; k >= 0; k-- {
				i := k % len(pc.Data)
				dn := pc.Data[i].Node()
				p4, err := policy.FromIPLD(n2)
				if err != nil {
					break
				}
				var a1, a2, b1, b2 bool
				if pn, _, _ := h.Try(func() {
					a1, _ = pcst.Match(dn)
					a2, _ = pcst.PartialMatch(dn)
					b1, _ = p4.Match(dn)
					b2, _ = p4.PartialMatch(dn)
				}); pn {
					continue
				}
				if a1 != b1 || a2 != b2 {
					c.Fail("C14/policy/constructed-roundtrip-behaviour/after-use", "constructed policy (already matched against other data) and a fresh IPLD round trip of it match differently on data[%d]=%s: (%v,%v) vs (%v,%v)\n%s", i, pc.Data[i], a1, a2, b1, b2, pcst)
					return
				}
			}
			c.P.Class("pol/ctor-roundtrip")
		}
	}
	if len(pc.Pol) > 0 {
		c.P.NonTrivial([]any{"pol", val.FromNode(node).String()}, map[string]any{"policy_node": val.FromNode(node), "mutated": mutated, "accepted": true})
	}
}

// jsonFaithful: DAG-JSON cannot faithfully carry integral floats (printed
// without a decimal point; see C07) and non-finite floats.
func jsonFaithful(n ipld.Node) bool {
	ok := true
	val.FromNode(n).Walk(func(v val.V) {
		if v.K == "float" {
			f := v.Float64()
			if f == math.Trunc(f) || f != f || f > 1e300 || f < -1e300 {
				ok = false
			}
		}
		if v.K == "map" {
			for _, e := range v.M {
				if e.K == "/" {
					ok = false
				}
			}
		}
	})
	return ok
}

func drawPol(t *rapid.T) PolCase {
	var pc PolCase
	data := pol.GenData(t, "data")
	pc.Pol = pol.Gen(t, data, pol.GenCfg{Depth: 3, MaxStmt: 3}, "p")
	pc.Data = []val.V{data, pol.GenData(t, "data2"), val.Map(), val.List(val.Int(1))}
	if rapid.IntRange(0, 2).Draw(t, "mutate") == 0 {
		pc.Mut = rapid.SliceOfN(rapid.IntRange(0, 20), 2, 8).Draw(t, "mut")
		for i := 0; i < 3; i++ {
			pc.Seltx = append(pc.Seltx, mutate(t, sel.Gen(t, sel.GenCfg{MaxSegs: 3}).Text()))
		}
	}
	return pc
}

var polProp = h.Define(P, "policy", drawPol, runPol)

func TestPolicies(t *testing.T) { polProp.Check(t) }

var _ = qp.Map
var _ = datamodel.DeepEqual
var _ = basicnode.NewInt

// FuzzSelector: native coverage-guided fuzzing of selector.Parse with the
// full oracle (reference grammar, print/parse round trip, panel) in the target.
func FuzzSelector(f *testing.F) {
	for _, s := range []string{".", ".?", ".a", ".a.b?", `.["a b"]?`, ".[0]", ".[-1]?", ".[1:2]", ".[:3]?", ".[]", ".a[].b", `.["\""]`, ".a??", "..a"} {
		f.Add(s)
	}
	f.Fuzz(func(t *testing.T, s string) {
		strProp.One(t, StrCase{S: s})
	})
}

// ---------- concurrent parsing ----------

// ConcParse: several goroutines parse DIFFERENT (long) selector texts and policy documents at the same time;
// each parse must give what the same text gives when parsed alone (segments as the reference grammar derives
// them, print equal to the input up to the documented normalisation).
type ConcParse struct {
	Texts      []string `json:"texts"`
	Goroutines int      `json:"goroutines"`
	Rounds     int      `json:"rounds"`
}

func runConcParse(c *h.Ctx, cp ConcParse) {
	type want struct {
		ok   bool
		ref  sel.Sel
		text string
	}
	ws := make([]want, len(cp.Texts))
	for i, s := range cp.Texts {
		rs, ok := sel.ParseRef(s)
		ws[i] = want{ok, rs, s}
	}
	if len(ws) == 0 {
		return
	}
	var mu sync.Mutex
	bad := ""
	report := func(s string) {
		mu.Lock()
		if bad == "" {
			bad = s
		}
		mu.Unlock()
	}
	pv := h.Concurrently(cp.Goroutines, func(g int) {
		for r := 0; r < cp.Rounds; r++ {
			w := ws[(g+r)%len(ws)]
			p, err := selector.Parse(w.text)
			if (err == nil) != w.ok {
				report(fmt.Sprintf("Parse(%.60q) under concurrency: accepted=%v, the grammar says %v", w.text, err == nil, w.ok))
				return
			}
			if err != nil {
				continue
			}
			if d := segmentsMatchRef(p, w.ref); d != "" {
				report(fmt.Sprintf("Parse(%.60q) while other texts are parsed concurrently: %s", w.text, d))
				return
			}
			if p.String() != normalise(w.text) {
				report(fmt.Sprintf("Parse(%.60q).String() = %.60q under concurrency", w.text, p.String()))
				return
			}
			runtime.Gosched()
		}
	})
	if pv != nil {
		c.Fail("C14/concurrent/panic", "panic while parsing concurrently: %v", pv)
	}
	if bad != "" {
		c.Fail("C14/concurrent/parse-differs", "%s", bad)
	}
	c.P.NonTrivial([]any{"concparse", cp.Texts, cp.Goroutines}, map[string]any{"concurrent_parses": cp.Goroutines, "texts": len(cp.Texts), "rounds": cp.Rounds})
	c.P.Class(fmt.Sprintf("concurrent/goroutines=%d", cp.Goroutines))
}

var concParseProp = h.Define(P, "concparse", func(t *rapid.T) ConcParse {
	cp := ConcParse{Goroutines: rapid.IntRange(2, 8).Draw(t, "goroutines"), Rounds: rapid.IntRange(10, 50).Draw(t, "rounds")}
	n := rapid.IntRange(2, 5).Draw(t, "ntexts")
	for i := 0; i < n; i++ {
		segs := rapid.SampledFrom([]int{3, 8, 40, 150}).Draw(t, "nsegs")
		var b strings.Builder
		for j := 0; j < segs; j++ {
			switch rapid.IntRange(0, 3).Draw(t, "k") {
			case 0:
				fmt.Fprintf(&b, ".w%d_f%d", i, j)
			case 1:
				fmt.Fprintf(&b, `["w%d q%d"]`, i, j)
			case 2:
				fmt.Fprintf(&b, "[%d]", (i*7+j)%9)
			default:
				fmt.Fprintf(&b, ".g%d?", j%5)
			}
		}
		s := b.String()
		if !strings.HasPrefix(s, ".") {
			s = "." + s
		}
		cp.Texts = append(cp.Texts, s)
	}
	return cp
}, runConcParse)

func TestConcurrentParse(t *testing.T) { concParseProp.Check(t) }

// TestLongSelectorsInDocuments: policies whose selector TEXT is long - 100 to 70 000 bytes, around every power of two
// on the way (dotted fields, quoted fields, indexes; prefixes of such texts are valid selectors themselves) - read from
// an IPLD document and from DAG-JSON and written back: nothing of the text is dropped, whatever its length; a document
// the constructors would refuse for its length is refused, not shortened.
func TestLongSelectorsInDocuments(t *testing.T) {
	var lens []int
	for k := 7; k <= 16; k++ {
		lens = append(lens, 1<<k-1, 1<<k, 1<<k+1)
	}
	lens = append(lens, 100, 1000, 5000, 10000, 70000)
	n := 0
	for _, target := range lens {
		for shape := 0; shape < 3; shape++ {
			var s sel.Sel
			size := 0
			for i := 0; size < target; i++ {
				var g sel.Seg
				switch shape {
				case 0:
					g = sel.Seg{Kind: "field", Name: "a"} // ".a" = 2 bytes: every even prefix is a selector
				case 1:
					g = sel.Seg{Kind: "qfield", Name: "k k"}
				default:
					g = sel.Seg{Kind: "index", Idx: int64(i % 10)}
				}
				s = append(s, g)
				size += len(g.Text())
			}
			one := val.Int(1)
			for _, p := range []pol.Policy{{{Op: "==", Sel: s, Lit: &one}}, {{Op: "any", Sel: s, Sub: []pol.Stmt{{Op: "==", Sel: sel.Sel{{Kind: "id"}}, Lit: &one}}}}, {{Op: "not", Sub: []pol.Stmt{{Op: "like", Sel: s, Pat: "*"}}}}} {
				polProp.One(t, PolCase{Pol: p, Data: []val.V{val.Map()}})
				n++
			}
		}
	}
	P.SetExtra("long_selector_documents", n)
}

package chain

// Concurrent checks of DIFFERENT invocations over different chains (with shared principals, possibly shared
// delegations): every decision must be the one the reference rules give for that invocation, exactly as when
// it is checked alone. Run in a race-detector build by the driver.

import (
	"fmt"
	"sync"

	"pgregory.net/rapid"

	"verif/harness/h"
	"verif/harness/pol"
)

type ConcChains struct {
	Cases      []Case `json:"cases"`
	Goroutines int    `json:"goroutines"`
	Rounds     int    `json:"rounds"`
}

func RunConcChains(c *h.Ctx, cc ConcChains, owner string) {
	type live struct {
		b  *Built
		r  Rules
		cs Case
	}
	var ls []live
	for _, cs := range cc.Cases {
		b, err := Build(cs)
		if err != nil {
			continue
		}
		r := Eval(cs)
		if r.PolicyUnspec {
			continue
		}
		ls = append(ls, live{b, r, cs})
	}
	if len(ls) < 2 {
		return
	}
	var mu sync.Mutex
	bad, sig := "", ""
	pv := h.Concurrently(cc.Goroutines, func(g int) {
		for rd := 0; rd < cc.Rounds; rd++ {
			l := ls[(g+rd)%len(ls)]
			var d Decision
			if (g+rd)%3 == 0 {
				d = DecideIdentityHook(l.b)
			} else {
				d = Decide(l.b, nil)
			}
			if who, what := Owner(l.r, d.Allowed); who != "" {
				mu.Lock()
				if who == owner && bad == "" {
					sig = what
					bad = fmt.Sprintf("goroutine %d, round %d: invocation %d checked while other invocations are being checked: allowed=%v (%s), rules broken: %v\ncase: %s", g, rd, (g+rd)%len(ls), d.Allowed, d.Err, l.r.Broken(), mustJSON(l.cs))
				}
				mu.Unlock()
			}
		}
	})
	if pv != nil {
		c.P.PanicSeen()
	}
	if bad != "" {
		c.Fail(owner+"/concurrent/"+sig, "%s", bad)
	}
	c.P.NonTrivial([]any{"concchains", len(ls), cc.Goroutines, cc.Rounds, mustJSON(cc.Cases[0].Dev)}, map[string]any{"concurrent_chains": len(ls), "goroutines": cc.Goroutines, "rounds": cc.Rounds})
	c.P.Class(fmt.Sprintf("concurrent-chains/goroutines=%d", cc.Goroutines))
}

func DrawConcChains(t *rapid.T) ConcChains {
	cc := ConcChains{Goroutines: rapid.IntRange(2, 8).Draw(t, "goroutines"), Rounds: rapid.IntRange(10, 80).Draw(t, "rounds")}
	n := rapid.IntRange(2, 5).Draw(t, "nchains")
	for i := 0; i < n; i++ {
		cs := DrawConforming(t, GenOpt{MaxLen: 4, Commands: true, Policies: true, Args: true, Irrelevant: true})
		// half of them are denied by exactly one unsatisfied statement at a drawn place
		if rapid.Bool().Draw(t, "deny") && len(cs.Links) > 0 {
			li := rapid.IntRange(0, len(cs.Links)-1).Draw(t, "flink")
			if s, ok := DrawStmt(t, cs.Inv.Args, false, "false"); ok {
				p := cs.Links[li].Pol
				at := rapid.IntRange(0, len(p)).Draw(t, "fidx")
				cs.Links[li].Pol = append(append(append(pol.Policy{}, p[:at]...), s), p[at:]...)
				cs.Dev = append(cs.Dev, fmt.Sprintf("false-stmt@%d/%d", li, len(cs.Links)))
			}
		}
		cc.Cases = append(cc.Cases, cs)
	}
	return cc
}

// C01 — authority is rooted in the subject and flows link by link to the
// invoker; the invocation's audience has no influence.
package c01

import (
	"fmt"
	"os"
	"testing"

	"pgregory.net/rapid"

	"verif/harness/chain"
	"verif/harness/h"
	_ "verif/harness/warm"
)

var P = h.New("C01", "exploration",
	"case = invocation + proof list of 0..7 delegations built as a conforming chain plus 0..3 labelled principal deviations at uniformly drawn positions (10% fully unstructured); commands/policies/time are kept conforming so only a principal rule can deny. Non-trivial = at least one of R1..R6 is false (isolated principal deviation) or the case carries an audience different from its subject (metamorphic audience clause). Distinct by (chain length, deviation labels incl. positions, principal pattern up to renaming).")

func TestMain(m *testing.M) { os.Exit(P.Main(m)) }
func TestReplay(t *testing.T) { P.Replay(t) }

type Case struct {
	chain.Case
	AltAud int `json:"alt_aud"` // audience used for the metamorphic re-run (-1: none)
}

func firstBroken(r chain.Rules, from, to int) int {
	for i := from; i <= to; i++ {
		if !r.R[i] {
			return i
		}
	}
	return 0
}

func run(c *h.Ctx, cs Case) {
	b, err := chain.Build(cs.Case)
	if err != nil {
		c.P.Class("build-error")
		c.Logf("build error: %v", err)
		return
	}
	r := chain.Eval(cs.Case)
	d := chain.Decide(b, nil)
	if d.Panicked {
		c.P.PanicSeen()
	}
	c.P.Class(fmt.Sprintf("len=%d", len(cs.Links)))
	for _, dv := range cs.Dev {
		c.P.Class("dev:" + dv)
	}
	if d.Allowed {
		c.P.Class("allowed")
	} else {
		c.P.Class("denied")
	}
	principalOK := r.All(1, 6)
	if d.Allowed && !principalOK {
		k := firstBroken(r, 1, 6)
		c.Fail(fmt.Sprintf("C01/allowed-without-R%d", k),
			"ExecutionAllowed returned nil although rule R%d is violated (broken rules %v)\ncase: %+v", k, r.Broken(), cs)
	}
	dh := chain.DecideIdentityHook(b)
	if dh.Allowed && !principalOK {
		k := firstBroken(r, 1, 6)
		c.Fail(fmt.Sprintf("C01/hook/allowed-without-R%d", k),
			"ExecutionAllowedWithArgsHook returned nil although rule R%d is violated (broken %v)", k, r.Broken())
	}
	if !principalOK {
		for _, hk := range chain.OddHooks {
			if do := chain.DecideOddHook(b, hk); do.Allowed {
				k := firstBroken(r, 1, 6)
				c.Fail(fmt.Sprintf("C01/hook-%s/allowed-without-R%d", hk, k), "ExecutionAllowedWithArgsHook (hook: %s) returned nil although rule R%d is violated (broken %v)\ncase: %+v", hk, k, r.Broken(), cs)
			}
		}
	}
	if !principalOK {
		// ... and whatever a store that fails one lookup (each in turn) does to the verdict
		if how, ok := chain.FlakyAllowed(b, len(cs.Links), nil); ok {
			k := firstBroken(r, 1, 6)
			c.Fail(fmt.Sprintf("C01/flaky-loader/allowed-without-R%d", k), "ExecutionAllowed returned nil although rule R%d is violated (broken rules %v); %s\ncase: %+v", k, r.Broken(), how, cs)
		}
		c.P.Class("flaky-loader")
	}
	// history clause: the decision is about the loader handed to THIS call. After an allowed
	// check, the same token object checked against a loader that has lost one delegation
	// (or fails on it) must be denied.
	if d.Allowed && len(cs.Links) > 0 {
		degraded := cs.Case
		degraded.Links = append([]chain.Link{}, cs.Links...)
		k := cs.AltAud
		if k < 0 {
			k = 0
		}
		k %= len(degraded.Links)
		if cs.AltAud%2 == 0 {
			degraded.Links[k].Missing = true
		} else {
			degraded.Links[k].LoaderErr = true
		}
		if b2, err := chain.Build(degraded); err == nil {
			b2.Inv = b.Inv // same token object, other loader
			if d2 := chain.Decide(b2, nil); d2.Allowed {
				c.Fail("C01/history/stale-loader-state", "after one allowed check, the same invocation token is allowed against a loader that cannot load delegation %d any more\ncase: %+v", k, cs)
			}
			c.P.Class("history:degraded-loader")
		}
	}
	// audience clause: same chain, other audience => same decision
	if cs.AltAud != cs.Inv.Aud {
		alt := cs.Case
		alt.Inv.Aud = cs.AltAud
		b2, err := chain.Build(alt)
		if err == nil {
			d2 := chain.Decide(b2, nil)
			if d2.Allowed != d.Allowed {
				c.Fail("C01/audience-influences-decision",
					"decision with audience %d: allowed=%v (%s); with audience %d: allowed=%v (%s)\ncase: %+v",
					cs.Inv.Aud, d.Allowed, d.Err, cs.AltAud, d2.Allowed, d2.Err, cs)
			}
			c.P.Class("audience-pair")
		}
	}
	audienceBearing := (cs.Inv.Aud >= 0 && cs.Inv.Aud != cs.Inv.Sub) || (cs.AltAud >= 0 && cs.AltAud != cs.Inv.Sub)
	if (!principalOK && r.All(7, 9)) || audienceBearing {
		key := []any{len(cs.Links), cs.Dev, chain.PrincipalPattern(cs.Case), cs.AltAud >= 0}
		c.P.NonTrivial(key, map[string]any{"case": cs, "broken_rules": r.Broken(), "allowed": d.Allowed, "err": d.Err})
	}
	if !principalOK {
		c.P.Class(fmt.Sprintf("brokenR%d", firstBroken(r, 1, 6)))
	}
}

func draw(t *rapid.T) Case {
	var cs Case
	if rapid.IntRange(0, 9).Draw(t, "unstructured") < 2 {
		// links drawn independently, over four principals; the command is one of a few with a meaning of their own (under
		// delegations for "/"), with or without the "ucan" argument such commands carry: the principal rules are the
		// rules for every command
		n := rapid.IntRange(0, 5).Draw(t, "n")
		icmd := rapid.SampledFrom([]string{"/foo", "/foo", "/ucan/revoke", "/ucan/revoke", "/ucan/attest", "/ucan", "/"}).Draw(t, "icmd")
		lcmd := "/"
		if icmd == "/foo" {
			lcmd = "/foo"
		}
		cs.Inv = chain.Inv{Iss: rapid.IntRange(0, 3).Draw(t, "iss"), Sub: rapid.IntRange(0, 3).Draw(t, "sub"), Aud: -1, Cmd: icmd, NonceLen: 12, UcanArg: rapid.IntRange(0, 2).Draw(t, "ucanarg")}
		for i := 0; i < n; i++ {
			cs.Links = append(cs.Links, chain.Link{Iss: rapid.IntRange(0, 3).Draw(t, "li"), Aud: rapid.IntRange(0, 3).Draw(t, "la"),
				Sub: rapid.IntRange(-1, 3).Draw(t, "ls"), Cmd: lcmd, Nonce: byte(i)})
		}
		cs.Dev = []string{"unstructured"}
	} else {
		cs.Case = chain.DrawConforming(t, chain.GenOpt{MaxLen: 6, Irrelevant: true, NoAudience: true})
		nd := rapid.SampledFrom([]int{0, 1, 1, 1, 1, 2, 2, 3}).Draw(t, "ndev")
		for i := 0; i < nd; i++ {
			chain.ApplyPrincipalDeviation(t, &cs.Case, rapid.SampledFrom(chain.PrincipalDeviations).Draw(t, "devkind"))
		}
	}
	// audience: none / subject / any principal, for both the case and its twin
	pick := func(label string) int {
		switch rapid.IntRange(0, 3).Draw(t, label) {
		case 0:
			return -1
		case 1:
			return cs.Inv.Sub
		default:
			return rapid.IntRange(0, chain.NPrincipals-1).Draw(t, label+"_p")
		}
	}
	if cs.Inv.Aud < 0 { // root-in-audience sets it on purpose
		cs.Inv.Aud = pick("aud")
	}
	cs.AltAud = pick("altaud")
	return cs
}

var prop = h.Define(P, "chain", draw, run)

func TestChain(t *testing.T) { prop.Check(t) }

// History clause over a shared delegation store (chain/store.go): checks interleaved with loader
// changes, re-decoding and sibling invocations over the same delegations; every decision is compared
// with the reference rules for the store as it is at that moment.
var storeProp = h.Define(P, "store", func(t *rapid.T) chain.StoreCase { return chain.DrawStore(t, "principal") },
	func(c *h.Ctx, sc chain.StoreCase) { chain.RunStore(c, sc, "C01") })

func TestStore(t *testing.T) { storeProp.Check(t) }

// Concurrent checks (chain/conc.go): different invocations at the same time, and the same invocation at the same time
// against a full store and against a store that lacks one of its delegations, both slow: every decision is the one the
// rules give for THAT invocation and THAT store. Race-detector build.
var concChainsProp = h.Define(P, "concchains", chain.DrawConcChains, func(c *h.Ctx, cc chain.ConcChains) { chain.RunConcChains(c, cc, "C01") })

func TestConcurrentChains(t *testing.T) { concChainsProp.Check(t) }

// C12 — selectors resolve compositionally with the documented index and slice rules.
package c12

import (
	"github.com/ipld/go-ipld-prime/node/bindnode"
	"github.com/ipld/go-ipld-prime/schema"
	"github.com/ucan-wg/go-ucan/pkg/policy"
	"github.com/ucan-wg/go-ucan/pkg/policy/literal"
	"encoding/json"
	"fmt"
	"os"
	"sort"
	"testing"

	"github.com/ipld/go-ipld-prime"
	"github.com/ipld/go-ipld-prime/codec/dagcbor"
	"github.com/ipld/go-ipld-prime/codec/dagjson"
	"pgregory.net/rapid"

	"github.com/ucan-wg/go-ucan/pkg/policy/selector"

	"verif/harness/h"
	_ "verif/harness/warm"
	"verif/harness/sel"
	"verif/harness/val"
)

var P = h.New("C12", "exploration",
	"case = (selector of 0..6 segments of every kind, each optionally '?', drawn mostly guided by the data so that it resolves several levels deep; IPLD value of depth <= 4 with every kind at root and nested, multi-byte strings, bytes). Oracle (1): step-by-step reference interpreter written from the property text; oracle (2): for every split s = s1 ++ s2, Select(s, x) must equal Select(s2, Select(s1, x)). Non-trivial = >= 2 non-identity segments of which the first resolves. Distinct by (segment-kind sequence with optional marks, kind path of the data, outcome class). Plus exhaustive slice arithmetic for lengths 0..6 x bounds -8..8/absent on lists, bytes and strings.")

func TestMain(m *testing.M) { os.Exit(P.Main(m)) }
func TestReplay(t *testing.T) { P.Replay(t) }

type Case struct {
	Sel  sel.Sel `json:"sel"`
	Data val.V   `json:"data"`
	Text string  `json:"text,omitempty"` // the selector text as given (fuzz target); Sel are the segments the reference grammar derives from it
	// Repr: how the data node is represented in memory (the data-model value is the same): 0 built with the node
	// builders, 1 every empty byte string without a backing array (nil), 2 decoded from its DAG-CBOR encoding
	Repr int `json:"repr,omitempty"`
}

type outcome struct {
	st   sel.State
	node ipld.Node
	err  string
}

func implSelect(text string, data ipld.Node) (outcome, error) {
	s, err := selector.Parse(text)
	if err != nil {
		return outcome{}, err
	}
	var n ipld.Node
	var serr error
	if p, v, _ := h.Try(func() { n, serr = s.Select(data) }); p {
		return outcome{st: sel.Unspecified, err: fmt.Sprintf("panic: %v", v)}, fmt.Errorf("panic in Select: %v", v)
	}
	switch {
	case serr != nil:
		return outcome{st: sel.Error, err: serr.Error()}, nil
	case n == nil:
		return outcome{st: sel.NoValue}, nil
	}
	return outcome{st: sel.Value, node: n}, nil
}

func canon(n ipld.Node) string {
	b, _ := json.Marshal(val.FromNode(n))
	return string(b)
}

// equalUpToIterOrder compares two nodes; lists are compared as multisets when
// multiset is set (the selector went through a map iterator, whose order the
// statement does not fix).
func equalNodes(a, b ipld.Node, multiset bool) bool {
	if !multiset {
		return val.EqualNodes(a, b)
	}
	if a.Kind() != ipld.Kind_List || b.Kind() != ipld.Kind_List {
		return val.EqualNodes(a, b)
	}
	if a.Length() != b.Length() {
		return false
	}
	var x, y []string
	for i := int64(0); i < a.Length(); i++ {
		p, _ := a.LookupByIndex(i)
		q, _ := b.LookupByIndex(i)
		x = append(x, canon(p))
		y = append(y, canon(q))
	}
	sort.Strings(x)
	sort.Strings(y)
	for i := range x {
		if x[i] != y[i] {
			return false
		}
	}
	return true
}

func hasMapIter(s sel.Sel, data val.V) bool {
	cur := data
	for _, g := range s {
		if g.Kind == "iter" && cur.Kind() == "map" {
			return true
		}
		nv, st := sel.Step(g, cur)
		if st != sel.Value {
			return false
		}
		cur = nv
	}
	return false
}

func segClass(s sel.Sel, upto int) string {
	if upto >= len(s) {
		upto = len(s) - 1
	}
	g := s[upto]
	o := ""
	if g.Opt {
		o = "?"
	}
	return g.Kind + o
}

func run(c *h.Ctx, cs Case) {
	text := cs.Text
	if text == "" {
		text = cs.Sel.Text()
	}
	data := cs.Data.Node()
	switch cs.Repr {
	case 1:
		data = cs.Data.NodeNilBytes()
		c.P.Class("repr:nil-empty-bytes")
	case 3:
		// the schema-typed person (TestTypedSubjects): cs.Data is that node read through the data-model interface
		data = typedPerson()
		c.P.Class("repr:schema-typed")
	case 2:
		if b, err := ipld.Encode(data, dagcbor.Encode); err == nil {
			if d2, err := ipld.Decode(b, dagcbor.Decode); err == nil {
				data = d2
				cs.Data = val.FromNode(d2) // the decoded map lists its keys in DAG-CBOR order: that is the value the selector sees
				c.P.Class("repr:decoded-dag-cbor")
			}
		}
	}
	got, perr := implSelect(text, data)
	if perr != nil {
		if got.err != "" {
			c.Fail("C12/panic", "Select(%q) panicked: %s\ndata %+v", text, got.err, cs.Data)
			return
		}
		c.Fail("C12/wellformed-rejected", "well-formed selector %q rejected by Parse: %v", text, perr)
		return
	}
	want, wst := sel.Resolve(cs.Sel, cs.Data)
	multi := hasMapIter(cs.Sel, cs.Data)
	c.P.Class("ref=" + wst.String())
	// (1) reference interpreter
	switch wst {
	case sel.Unspecified:
		c.P.Unspecified()
	case sel.Value:
		if got.st != sel.Value {
			c.Fail("C12/ref/value-expected/"+failingSeg(cs), "Select(%q) on %s: reference resolves to %s, implementation: %s %s", text, canon(data), canon(want.Node()), got.st, got.err)
		} else if !equalNodes(got.node, want.Node(), multi) {
			c.Fail("C12/ref/wrong-value/"+lastKinds(cs.Sel), "Select(%q) on %s = %s, reference says %s", text, canon(data), canon(got.node), canon(want.Node()))
		}
	case sel.Error:
		if got.st != sel.Error {
			r := "no value"
			if got.st == sel.Value {
				r = canon(got.node)
			}
			c.Fail("C12/ref/error-expected/"+failingSeg(cs), "Select(%q) on %s: a non-optional segment fails, but the implementation returned %s", text, canon(data), r)
		}
	case sel.NoValue:
		if got.st != sel.NoValue {
			r := got.err
			if got.st == sel.Value {
				r = canon(got.node)
			}
			c.Fail("C12/ref/novalue-expected/"+failingSeg(cs), "Select(%q) on %s: an optional field/index segment fails => 'no value', implementation: %s %s", text, canon(data), got.st, r)
		}
	}
	// (1b) the same resolution as the POLICY evaluator sees it ("observed at policy match results"): a statement whose
	// selector fails on a non-optional segment has no data - it fails the full match and passes the partial match,
	// whatever the statement kind and also under not; nothing of the selector is skipped on the evaluator's own path
	// to the data (quantifiers included)
	if wst == sel.Error && got.st == sel.Error {
		one := literal.Int(1)
		inner := policy.Equal(".", one)
		stmts := map[string]policy.Constructor{
			"==": policy.Equal(text, one), "like": policy.Like(text, "*"), "<": policy.LessThan(text, one),
			"all": policy.All(text, inner), "any": policy.Any(text, inner),
			"not(==)": policy.Not(policy.Equal(text, one)), "not(all)": policy.Not(policy.All(text, inner)), "not(any)": policy.Not(policy.Any(text, inner)),
			"and(all)": policy.And(policy.All(text, inner)), "or(any)": policy.Or(policy.Any(text, inner)),
		}
		for name, ct := range stmts {
			p, err := policy.Construct(ct)
			if err != nil {
				continue
			}
			var m, pm bool
			if pn, pv, _ := h.Try(func() { m, _ = p.Match(data); pm, _ = p.PartialMatch(data) }); pn {
				c.Fail("C12/policy-view/panic", "matching %s over selector %q panicked: %v", name, text, pv)
				return
			}
			if m || !pm {
				c.Fail("C12/policy-view/failing-selector/"+name, "selector %q fails on %s (a non-optional segment: %s), so a statement over it has no data: Match must be false and PartialMatch true; %s gives Match=%v PartialMatch=%v", text, canon(data), failingSeg(cs), name, m, pm)
				return
			}
		}
		c.P.Class("policy-view:failing-selector")
	}
	// (1c) identity does nothing: the same segments with every bracket segment written in its dot-spelled form
	// (.a.["b"].[0]: the extra dots are identity segments) resolve to the same outcome - whatever that outcome is,
	// also where the text leaves it open (after an optional segment that found nothing)
	if cs.Text == "" {
		dotted := cs.Sel.TextDotted()
		if dotted != text {
			if o2, err := implSelect(dotted, data); err == nil {
				same := o2.st == got.st
				if same && got.st == sel.Value {
					same = equalNodes(o2.node, got.node, multi)
				}
				if !same {
					c.Fail("C12/identity/dotted-spelling-differs", "Select(%q) gives %s %s, the same segments spelled with identity dots, Select(%q), give %s %s (data %s)", text, got.st, got.err, dotted, o2.st, o2.err, canon(data))
					return
				}
				c.P.Class("identity:dotted-spelling-agrees")
			} else if got.err == "" {
				c.Fail("C12/identity/dotted-spelling-rejected", "selector %q parses, its dot-spelled form %q does not: %v", text, dotted, err)
				return
			}
		}
	}
	// (2) compositionality with the implementation as its own step function
	for k := 1; k < len(cs.Sel); k++ {
		s1, s2 := cs.Sel[:k], cs.Sel[k:]
		if s2[0].Kind == "id" {
			continue
		}
		o1, err := implSelect(s1.Text(), data)
		if err != nil {
			continue
		}
		switch o1.st {
		case sel.Error:
			if got.st != sel.Error {
				c.Fail("C12/compose/prefix-error-swallowed", "Select(%q) fails but Select(%q) does not (data %s)", s1.Text(), text, canon(data))
			}
		case sel.Value:
			before := canon(o1.node)
			o2, err := implSelect(s2.Text(), o1.node)
			if err != nil {
				continue
			}
			// a value returned by Select belongs to the caller: resolving further segments on it is "doing the
			// segments one after the other", and must leave that value as it was and give the same answer again
			if after := canon(o1.node); after != before {
				c.Fail("C12/compose/intermediate-changed/"+segClass(cs.Sel, k-1)+"+"+segClass(cs.Sel, k), "x1 = Select(%q, x) was %s; after Select(%q, x1) it reads %s (x=%s)", s1.Text(), before, s2.Text(), after, canon(data))
			}
			if o3, err := implSelect(s2.Text(), o1.node); err == nil && (o3.st != o2.st || (o2.st == sel.Value && canon(o3.node) != canon(o2.node))) {
				c.Fail("C12/compose/second-use-differs/"+segClass(cs.Sel, k-1)+"+"+segClass(cs.Sel, k), "Select(%q, x1) with x1 = Select(%q, x): first %s %s, again %s %s (x=%s)", s2.Text(), s1.Text(), o2.st, showOut(o2), o3.st, showOut(o3), canon(data))
			}
			m2 := multi || hasMapIter(s2, val.FromNode(o1.node))
			same := o2.st == got.st && (got.st != sel.Value || equalNodes(o2.node, got.node, m2))
			if !same {
				c.Fail("C12/compose/split-differs/"+segClass(cs.Sel, k-1)+"+"+segClass(cs.Sel, k),
					"Select(%q, x) != Select(%q, Select(%q, x)) for x=%s: whole: %s %s, composed: %s %s",
					text, s2.Text(), s1.Text(), canon(data), got.st, showOut(got), o2.st, showOut(o2))
			}
		}
	}
	// non-triviality
	nonID := 0
	for _, g := range cs.Sel {
		if g.Kind != "id" {
			nonID++
		}
	}
	if nonID >= 2 {
		if _, st := sel.Step(cs.Sel[0], cs.Data); st == sel.Value {
			c.P.NonTrivial([]any{cs.Sel.KindSeq(), cs.Data.Shape(), wst.String()},
				map[string]any{"selector": text, "data": cs.Data, "reference": wst.String(), "implementation": got.st.String()})
			c.P.Class("nontrivial")
		}
	}
	for _, g := range cs.Sel {
		c.P.Class("seg:" + g.Kind)
	}
}

func showOut(o outcome) string {
	if o.st == sel.Value {
		return canon(o.node)
	}
	return o.err
}

func failingSeg(cs Case) string {
	cur := cs.Data
	for _, g := range cs.Sel {
		nv, st := sel.Step(g, cur)
		if st != sel.Value {
			o := ""
			if g.Opt {
				o = "?"
			}
			return g.Kind + o + "-on-" + cur.Kind()
		}
		cur = nv
	}
	return lastKinds(cs.Sel)
}

func lastKinds(s sel.Sel) string {
	if len(s) == 0 {
		return "id"
	}
	if len(s) == 1 {
		return s[0].Kind
	}
	return s[len(s)-2].Kind + "+" + s[len(s)-1].Kind
}

var stringZoo = []string{
	"the quick brown fox jumps over the lazy dög",
	"0123456789012345678901234567890123456789éé",
	"ééééééééééééééééééééééééééééééééé tail",
	"abcdefghijklmnopqrstuvwxyz0123456",
	"日本語 mixed ascii 🙂 and more than thirty-two bytes of text é",
}

var keyAlphabet = []string{"a", "b", "c", "aa", "x", "foo", "é", "", "with space", "A", "key-1", "d.e", "0", "1", "-1", "<k&>", "k\u2028", " k", "k\t", "k\x00", "~", "'tis", "users'", "'q'", "tis", "users", "q"}

func draw(t *rapid.T) Case {
	data := val.Gen(t, val.Cfg{Depth: 4, MaxLen: 4, Keys: keyAlphabet})
	if rapid.IntRange(0, 4).Draw(t, "forcecoll") > 0 && data.K != "map" && data.K != "list" {
		data = val.GenMap(t, val.Cfg{Depth: 3, MaxLen: 4, Keys: keyAlphabet}, 3)
	}
	if rapid.IntRange(0, 9).Draw(t, "zoo") == 0 {
		// strings beyond small-buffer sizes, sliced once or twice
		data = val.Str(rapid.SampledFrom(stringZoo).Draw(t, "zoostr"))
		if rapid.Bool().Draw(t, "zoowrap") {
			data = val.Map(val.E("s", data))
		}
	}
	s := sel.GenFor(t, data, sel.GenCfg{MaxSegs: 6})
	return Case{Sel: s, Data: data, Repr: rapid.SampledFrom([]int{0, 0, 1, 1, 2}).Draw(t, "repr")}
}

var prop = h.Define(P, "select", draw, run)

func TestSelect(t *testing.T) { prop.Check(t) }

func ip(i int64) *int64 { return &i }

// TestSliceExhaustive: every slice [a:b] with a,b in -8..8 or absent, on
// lists, bytes and strings (multi-byte) of length 0..6, also followed by an index.
func TestSliceExhaustive(t *testing.T) {
	runes := []rune("aé日b🙂c")
	n := 0
	bounds := []*int64{nil}
	for i := int64(-8); i <= 8; i++ {
		bounds = append(bounds, ip(i))
	}
	for ln := 0; ln <= 6; ln++ {
		lst := val.V{K: "list"}
		var bs []byte
		for i := 0; i < ln; i++ {
			lst.L = append(lst.L, val.Int(int64(i)))
			bs = append(bs, byte(10+i))
		}
		datas := []val.V{lst, val.Bytes(bs), val.Str(string(runes[:ln]))}
		for _, d := range datas {
			for _, a := range bounds {
				for _, b := range bounds {
					if a == nil && b == nil {
						continue
					}
					for _, opt := range []bool{false, true} {
						s := sel.Sel{{Kind: "slice", From: a, To: b, Opt: opt}}
						prop.One(t, Case{Sel: s, Data: d})
						n++
						if d.K != "str" {
							for _, idx := range []int64{0, -1, 2} {
								prop.One(t, Case{Sel: append(append(sel.Sel{}, s...), sel.Seg{Kind: "index", Idx: idx}), Data: d})
								n++
							}
						}
					}
				}
			}
			for idx := int64(-8); idx <= 8; idx++ {
				for _, opt := range []bool{false, true} {
					if d.K != "str" {
						prop.One(t, Case{Sel: sel.Sel{{Kind: "index", Idx: idx, Opt: opt}}, Data: d})
						n++
					}
				}
			}
		}
	}
	// long strings (beyond small-buffer sizes) with ASCII / multi-byte content in every arrangement
	for _, str := range stringZoo {
		r := int64(len([]rune(str)))
		var bs []*int64
		bs = append(bs, nil)
		for i := -r - 2; i <= r+2; i++ {
			bs = append(bs, ip(i))
		}
		for _, a := range bs {
			for _, b := range bs {
				if a == nil && b == nil {
					continue
				}
				prop.One(t, Case{Sel: sel.Sel{{Kind: "slice", From: a, To: b}}, Data: val.Str(str)})
				n++
			}
		}
	}
	P.SetExtra("slice_index_cases", n)
	P.SetExhaustive()
}

// ---------- reuse and concurrency of one parsed selector ----------

type ReuseCase struct {
	Sel        sel.Sel `json:"sel"`
	Datas      []val.V `json:"datas"`
	Goroutines int     `json:"goroutines"`
}

func outKey(o outcome) string {
	if o.st == sel.Value {
		return "v:" + canon(o.node)
	}
	return o.st.String()
}

func runReuse(c *h.Ctx, rc ReuseCase) {
	text := rc.Sel.Text()
	shared, err := selector.Parse(text)
	if err != nil {
		return
	}
	nodes := make([]ipld.Node, len(rc.Datas))
	fresh := make([]string, len(rc.Datas))
	for i, d := range rc.Datas {
		nodes[i] = d.Node()
		o, err := implSelect(text, nodes[i])
		if err != nil {
			return
		}
		fresh[i] = outKey(o)
	}
	apply := func(i int) string {
		n, serr := shared.Select(nodes[i])
		switch {
		case serr != nil:
			return sel.Error.String()
		case n == nil:
			return sel.NoValue.String()
		}
		return "v:" + canon(n)
	}
	for round := 0; round < 3; round++ {
		for i := range nodes {
			if got := apply(i); got != fresh[i] {
				c.Fail("C12/reuse/sequential", "parsed selector %q reused on datum %d gives %s, a fresh parse gives %s", text, i, got, fresh[i])
			}
		}
	}
	if rc.Goroutines > 1 {
		bad := make(chan string, 8)
		if pv := h.Concurrently(rc.Goroutines, func(g int) {
			for k := 0; k < 3*len(nodes); k++ {
				i := (k + g) % len(nodes)
				if got := apply(i); got != fresh[i] {
					select {
					case bad <- fmt.Sprintf("datum %d: %s vs %s", i, got, fresh[i]):
					default:
					}
				}
			}
		}); pv != nil {
			c.Fail("C12/panic", "concurrent Select panicked: %v", pv)
		}
		close(bad)
		for b := range bad {
			c.Fail("C12/reuse/concurrent", "shared parsed selector %q under concurrency: %s", text, b)
		}
	}
	if len(rc.Sel) >= 2 {
		c.P.NonTrivial([]any{"reuse", rc.Sel.KindSeq(), len(rc.Datas), rc.Goroutines}, map[string]any{"mode": "reuse", "selector": text, "datas": len(rc.Datas), "goroutines": rc.Goroutines})
	}
}

var reuseProp = h.Define(P, "reuse", func(t *rapid.T) ReuseCase {
	d := val.Gen(t, val.Cfg{Depth: 4, MaxLen: 4, Keys: keyAlphabet})
	rc := ReuseCase{Sel: sel.GenFor(t, d, sel.GenCfg{MaxSegs: 5}), Datas: []val.V{d}, Goroutines: rapid.IntRange(1, 6).Draw(t, "goroutines")}
	n := rapid.IntRange(1, 3).Draw(t, "ndatas")
	for i := 0; i < n; i++ {
		rc.Datas = append(rc.Datas, val.Gen(t, val.Cfg{Depth: 3, MaxLen: 4, Keys: keyAlphabet}))
	}
	return rc
}, runReuse)

func TestReuse(t *testing.T) { reuseProp.Check(t) }

// FuzzSelect: coverage-guided search over (selector text, DAG-JSON data): whenever the text is one the reference
// grammar derives, the result is judged by the reference resolver and the compositionality clause.
func FuzzSelect(f *testing.F) {
	for _, s := range [][2]string{{".a", `{"a":1}`}, {".a[0]", `{"a":[1,2]}`}, {".[1:]", `"héllo"`}, {".[]", `{"a":1,"b":2}`}, {`.["0"]`, `[1,2]`}, {".[-1]?", `[]`}, {".a?.b", `{}`}, {".[010]", `[0,1,2,3,4,5,6,7,8,9,10,11]`}, {".[0:-1][0]", `[[1],[2]]`}} {
		f.Add(s[0], s[1])
	}
	f.Fuzz(func(t *testing.T, text, data string) {
		if len(text) > 64 || len(data) > 256 {
			return
		}
		segs, ok := sel.ParseRef(text)
		if !ok {
			return
		}
		n, err := ipld.Decode([]byte(data), dagjson.Decode)
		if err != nil {
			return
		}
		// identity segments after the first position do nothing; the harness printer has no spelling for them
		clean := sel.Sel{}
		for i, g := range segs {
			if g.Kind == "id" && i > 0 {
				continue
			}
			clean = append(clean, g)
		}
		prop.One(t, Case{Sel: clean, Data: val.FromNode(n), Text: text})
	})
}

// TestSegmentTriples: EVERY sequence of one, two and three segments from a pool that has each kind in its plain and
// optional form, hitting and missing (a field that is there / is not, an index inside / outside, a slice, an
// iterator), on a panel of subjects of every kind. What a segment does when the segment before it produced no value,
// failed or produced another kind is decided here position by position, against the reference resolver and the split
// clause - the generator follows the data and seldom steps off it twice in a row.
func TestSegmentTriples(t *testing.T) {
	pool := []sel.Seg{
		{Kind: "field", Name: "a"}, {Kind: "field", Name: "a", Opt: true}, {Kind: "field", Name: "zz"}, {Kind: "field", Name: "zz", Opt: true},
		{Kind: "qfield", Name: "with space", Opt: true},
		{Kind: "index", Idx: 0}, {Kind: "index", Idx: 0, Opt: true}, {Kind: "index", Idx: 9}, {Kind: "index", Idx: 9, Opt: true}, {Kind: "index", Idx: -1, Opt: true},
		{Kind: "slice", From: ip(0), To: ip(2)}, {Kind: "slice", From: ip(0), To: ip(2), Opt: true}, {Kind: "slice", From: ip(1)}, {Kind: "slice", To: ip(-1), Opt: true},
		{Kind: "iter"}, {Kind: "iter", Opt: true},
	}
	subjects := []val.V{
		val.Map(val.E("b", val.Str("hello"))),
		val.Map(val.E("a", val.Str("hello")), val.E("b", val.Int(1))),
		val.Map(val.E("a", val.List(val.Int(1), val.Int(2), val.Int(3)))),
		val.Map(val.E("a", val.Map(val.E("a", val.Bytes([]byte{1, 2, 3}))))),
		val.Map(val.E("a", val.Null())),
		val.List(val.Str("xy"), val.List(val.Int(1)), val.Map(val.E("a", val.Int(7)))),
		val.List(),
		val.Str("héllo"), val.Bytes([]byte{9, 8, 7}), val.Null(), val.Int(5),
	}
	n := 0
	for _, d := range subjects {
		for i := range pool {
			prop.One(t, Case{Sel: sel.Sel{pool[i]}, Data: d})
			n++
			for j := range pool {
				prop.One(t, Case{Sel: sel.Sel{pool[i], pool[j]}, Data: d})
				n++
				if !h.Thorough() && (i+j)%2 == 1 {
					continue // quick: half of the triples
				}
				for k := range pool {
					prop.One(t, Case{Sel: sel.Sel{pool[i], pool[j], pool[k]}, Data: d})
					n++
				}
			}
		}
	}
	P.SetExtra("segment_triple_cases", n)
}

// ---------- schema-typed subjects ----------

type tName struct {
	First string
	Last  string
}
type tPt struct {
	X int64
	Y int64
}
type tPerson struct {
	Name  tName
	Nick  string
	Pt    tPt
	Tags  []string
	Attrs struct {
		Keys   []string
		Values map[string]int64
	}
	Colors struct {
		Keys   []string
		Values map[string]int64
	}
}

var personType = func() schema.Type {
	ts, err := ipld.LoadSchemaBytes([]byte(`
type Name struct {
  first String
  last String
} representation stringjoin {
  join ":"
}
type Pt struct {
  x Int
  y Int
} representation tuple
type Color enum {
  | Red
  | Green
}
type Person struct {
  name Name
  nick String (rename "n")
  pt Pt
  tags [String]
  attrs {String:Int}
  colors {Color:Int}
}
`))
	if err != nil {
		panic(err)
	}
	return ts.TypeByName("Person")
}()

func typedPerson() ipld.Node {
	p := &tPerson{Name: tName{"ada", "lovelace"}, Nick: "al", Pt: tPt{3, 4}, Tags: []string{"x", "y", "z"}}
	p.Attrs.Keys = []string{"b", "aa"}
	p.Attrs.Values = map[string]int64{"b": 1, "aa": 2}
	p.Colors.Keys = []string{"Red", "Green"}
	p.Colors.Values = map[string]int64{"Red": 7, "Green": 8}
	return bindnode.Wrap(p, personType)
}

// TestTypedSubjects: the subject is a schema-typed node (a caller's domain type bound with bindnode) whose REPRESENTATION
// has another shape than the value: a struct written as a joined string, a struct written as a tuple, a renamed field.
// A selector is resolved on the value it is given - the map with the fields first / last, x / y, nick - as the reference
// resolves it on the same value read through the data-model interface; not on what the value would look like encoded.
func TestTypedSubjects(t *testing.T) {
	person := typedPerson()
	whole := val.FromNode(person)
	names := []string{"name", "first", "last", "nick", "n", "pt", "x", "y", "tags", "attrs", "b", "aa", "zz", "colors", "Red", "Blue"}
	var pool []sel.Seg
	for _, nm := range names {
		pool = append(pool, sel.Seg{Kind: "field", Name: nm}, sel.Seg{Kind: "field", Name: nm, Opt: true})
	}
	pool = append(pool, sel.Seg{Kind: "index", Idx: 0}, sel.Seg{Kind: "index", Idx: 1, Opt: true}, sel.Seg{Kind: "index", Idx: -1}, sel.Seg{Kind: "slice", From: ip(0), To: ip(1)}, sel.Seg{Kind: "slice", From: ip(1), Opt: true}, sel.Seg{Kind: "iter"}, sel.Seg{Kind: "iter", Opt: true})
	n := 0
	for i := range pool {
		prop.One(t, Case{Sel: sel.Sel{pool[i]}, Data: whole, Repr: 3})
		n++
		for j := range pool {
			prop.One(t, Case{Sel: sel.Sel{pool[i], pool[j]}, Data: whole, Repr: 3})
			n++
			if pool[i].Kind != "field" || pool[i].Opt {
				continue
			}
			for k := range pool {
				if (j+k)%3 != 0 && !h.Thorough() {
					continue
				}
				prop.One(t, Case{Sel: sel.Sel{pool[i], pool[j], pool[k]}, Data: whole, Repr: 3})
				n++
			}
		}
	}
	P.SetExtra("typed_subject_cases", n)
}

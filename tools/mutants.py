#!/usr/bin/env python3
"""Sensitivity harness (G9): apply each hand-written mutant of /verif/mutants.json
to a scratch worktree of /repo (text replacement; /repo itself is never touched), confirm that the repository builds and its own
test suite still passes, run the listed checks (quick tier) and report which
ones catch it.

usage: tools/mutants.py [--prop Cxx] [--id name] [--tier quick|thorough] [--skip-suite]
"""
import json, os, shutil, subprocess, sys, time

ROOT = os.path.dirname(os.path.dirname(os.path.abspath(__file__)))
ENV = dict(os.environ, GOFLAGS="-mod=mod", GOPROXY="off", GOSUMDB="off", GOTOOLCHAIN="local")


def sh(cmd, cwd=None, timeout=1800):
    r = subprocess.run(cmd, cwd=cwd, env=ENV, shell=isinstance(cmd, str), stdout=subprocess.PIPE,
                       stderr=subprocess.STDOUT, text=True, errors="replace", timeout=timeout)
    return r.returncode, r.stdout


def run_mutant(m, prop, tier, skip):
    """apply the mutant in a scratch worktree of /repo (never /repo itself), run suite + checks there"""
    wt, sc = "/tmp/wt/mut_" + m["id"], "/tmp/wt/mutsc_" + m["id"]
    sh("git -C /repo worktree remove --force %s" % wt)
    os.makedirs("/tmp/wt", exist_ok=True)
    rc, out = sh("git -C /repo worktree add -q %s HEAD" % wt)
    if rc:
        return (m["id"], "NO-WORKTREE", {})
    try:
        for e in m["edits"]:
            p = os.path.join(wt, e["file"])
            s = open(p).read()
            if s.count(e["old"]) != 1:
                print("%s: pattern occurs %d times in %s" % (m["id"], s.count(e["old"]), e["file"]))
                return (m["id"], "BAD-PATTERN", {})
            open(p, "w").write(s.replace(e["old"], e["new"]))
        rc, out = sh("go build ./... ", cwd=wt)
        if rc != 0:
            print(out[-1500:])
            return (m["id"], "NO-BUILD", {})
        suite = "skipped"
        if not skip:
            rc, out = sh("go test -vet=off -count=1 ./...", cwd=wt)
            suite = "pass" if rc == 0 else "FAIL"
        per = {}
        for c in ([prop] if prop else m["props"]):
            t0 = time.time()
            r = subprocess.run([os.path.join(ROOT, "check"), c, tier], cwd=ROOT, env=dict(ENV, VERIF_REPO=wt, VERIF_SCRATCH=sc),
                               stdout=subprocess.PIPE, stderr=subprocess.STDOUT, text=True, errors="replace", timeout=7200)
            rc, out = r.returncode, r.stdout
            sig = ""
            for ln in out.splitlines():
                if "VIOLATION-CANDIDATE" in ln and "sig=" in ln:
                    sig = ln.split("sig=")[1].split()[0]
                elif ln.startswith("VIOLATION property=") and not sig:
                    sig = "process-level"
            per[c] = ("CAUGHT" if rc == 1 else "missed" if rc == 0 else "inconclusive") + (" " + sig if sig else "") + " %.0fs" % (time.time() - t0)
        print(m["id"], "suite=" + suite, per, flush=True)
        return (m["id"], "suite=" + suite, per)
    finally:
        sh("git -C /repo worktree remove --force %s" % wt)
        shutil.rmtree(sc, ignore_errors=True)


def main():
    args = sys.argv[1:]
    prop = ident = None
    tier = "quick"
    skip = False
    jobs = 3
    while args:
        a = args.pop(0)
        if a == "--prop":
            prop = args.pop(0)
        elif a == "--id":
            ident = args.pop(0)
        elif a == "--tier":
            tier = args.pop(0)
        elif a == "--skip-suite":
            skip = True
        elif a == "-j":
            jobs = int(args.pop(0))
    muts = json.load(open(os.path.join(ROOT, "mutants.json")))
    muts = [m for m in muts if (not prop or prop in m["props"]) and (not ident or ident == m["id"])]
    from concurrent.futures import ThreadPoolExecutor
    with ThreadPoolExecutor(max_workers=jobs) as ex:
        results = list(ex.map(lambda m: run_mutant(m, prop, tier, skip), muts))
    # persist (merge with earlier results)
    resfile = os.path.join(ROOT, "mutants_results.json")
    try:
        allres = json.load(open(resfile))
    except Exception:
        allres = {}
    for mid, suite, per in results:
        e = allres.setdefault(mid, {"suite": suite, "checks": {}})
        e["suite"] = suite
        e["checks"].update(per)
    json.dump(allres, open(resfile, "w"), indent=1, sort_keys=True)
    print("\n== summary ==")
    for r in results:
        print(r)
    return 0


if __name__ == "__main__":
    sys.exit(main())

// C04 — expired or not-yet-active tokens never authorize; IsValidAt agrees
// with the [nbf, exp] window strictly inside / strictly outside.
package c04

import (
	"github.com/ipfs/go-cid"
	"github.com/ucan-wg/go-ucan/pkg/args"
	"errors"
	"sync"
	"github.com/ucan-wg/go-ucan/token/delegation"
	"github.com/ucan-wg/go-ucan/pkg/command"
	"github.com/ucan-wg/go-ucan/token/invocation"
	"fmt"
	"os"
	"testing"
	"time"

	"pgregory.net/rapid"

	"github.com/ucan-wg/go-ucan/token"

	"verif/harness/chain"
	"verif/harness/h"
	_ "verif/harness/warm"
)

var P = h.New("C04", "exploration",
	"(a) window: single delegations/invocations (constructed and decoded) with each bound absent or at now+o, o in +/-{1h,1d,1y,100y}, probed at each bound +/-{1ns,1s,1h}, year 1, year 9999 and the zero time; non-trivial = a probe within 1h of a present bound. (b) chain: rule-conforming chains in which 0..2 tokens (any link incl. root and leaf, or the invocation) are expired or not yet active; non-trivial = exactly the time rule R9 is broken. Distinct by (token type, bound pattern, probe) / (length, positions, kinds).")

func TestMain(m *testing.M) { os.Exit(P.Main(m)) }
func TestReplay(t *testing.T) { P.Replay(t) }

// ---------- (b) chains ----------

func runChain(c *h.Ctx, cs chain.Case) {
	b, err := chain.Build(cs)
	if err != nil {
		if errors.Is(err, chain.ErrUndecodable) {
			c.P.Class("raw-bound-refused-by-decoder")
			return
		}
		c.P.Class("build-error")
		return
	}
	r := chain.Eval(cs)
	d := chain.Decide(b, nil)
	if d.Panicked {
		c.P.PanicSeen()
	}
	c.P.Class(fmt.Sprintf("chain/len=%d", len(cs.Links)))
	for _, dv := range cs.Dev {
		c.P.Class("dev:" + dv)
	}
	if dh := chain.DecideIdentityHook(b); dh.Allowed && !r.R[9] {
		c.Fail("C04/chain/hook/allowed-with-invalid-token:"+devClass(cs), "ExecutionAllowedWithArgsHook returned nil although a token of the chain is expired / not yet active (deviations %v)\ncase: %+v", cs.Dev, cs)
	}
	if !r.R[9] {
		for _, hk := range chain.OddHooks {
			if do := chain.DecideOddHook(b, hk); do.Allowed {
				c.Fail("C04/chain/hook-"+hk+"/allowed-with-invalid-token", "ExecutionAllowedWithArgsHook (hook: %s) returned nil although a token of the chain is expired / not yet active (deviations %v)", hk, cs.Dev)
			}
		}
	}
	if !r.R[9] && !d.Allowed {
		// a store that fails ONE lookup (each lookup in turn, counted over the whole check, in each of the ways stores
		// fail) and answers all others: whatever that does to the verdict, a chain holding an expired / not yet
		// active token is not allowed
		if how, ok := chain.FlakyAllowed(b, len(cs.Links), nil); ok {
			c.Fail("C04/chain/flaky-loader/allowed-with-invalid-token", "ExecutionAllowed returned nil although a token of the chain is expired / not yet active; %s (deviations %v)\ncase: %+v", how, cs.Dev, cs)
		}
		c.P.Class("flaky-loader")
	}
	if d.Allowed && !r.R[9] {
		c.Fail("C04/chain/allowed-with-invalid-token:"+devClass(cs), "ExecutionAllowed returned nil although a token of the chain is expired / not yet active (deviations %v)\ncase: %+v", cs.Dev, cs)
	}
	if !r.R[9] && r.All(1, 8) {
		c.P.NonTrivial([]any{"chain", len(cs.Links), cs.Dev}, map[string]any{"chain_len": len(cs.Links), "time_deviations": cs.Dev, "allowed": d.Allowed})
	}
}

func devClass(cs chain.Case) string {
	if len(cs.Dev) == 0 {
		return "none"
	}
	return cs.Dev[0]
}

func drawChain(t *rapid.T) chain.Case {
	cs := chain.DrawConforming(t, chain.GenOpt{MaxLen: 6, Times: true, Irrelevant: true, Commands: true})
	n := len(cs.Links)
	nd := rapid.SampledFrom([]int{0, 1, 1, 1, 2}).Draw(t, "ndev")
	for i := 0; i < nd; i++ {
		pos := rapid.IntRange(0, n).Draw(t, "pos") // 0 = invocation
		off := rapid.SampledFrom(chain.HourOffsets).Draw(t, "off")
		where := "inner"
		switch {
		case pos == 0:
			where = "invocation"
		case pos == n:
			where = "root"
		case pos == 1:
			where = "leaf"
		}
		if pos == 0 {
			v := -off
			cs.Inv.Exp = &v
			cs.Dev = append(cs.Dev, "expired@"+where)
			continue
		}
		l := &cs.Links[pos-1]
		if rapid.IntRange(0, 3).Draw(t, "rawbound") == 2 {
			// a delegation hand-signed with a bound the constructors cannot produce: the Unix epoch, year 1 (the zero
			// value of Go's time.Time, to the second), negative seconds, the 32-bit limits, one second either side
			past := []int64{0, 1, -1, -62135596800, -62135596801, -62135596799, -62167219200, -(1 << 31), (1 << 31) - 1, 1 << 31, 1 << 32, 946684800, -((1 << 53) - 1), 1700000000}
			future := []int64{4102444800, 253402300799, 253402300800, (1 << 53) - 1, 1 << 40, 32503680000}
			if rapid.Bool().Draw(t, "rawkind") {
				v := rapid.SampledFrom(past).Draw(t, "rawexp")
				l.RawExp = &v
				cs.Dev = append(cs.Dev, fmt.Sprintf("raw-exp(%d)@%s", v, where))
			} else {
				v := rapid.SampledFrom(future).Draw(t, "rawnbf")
				l.RawNbf = &v
				cs.Dev = append(cs.Dev, fmt.Sprintf("raw-nbf(%d)@%s", v, where))
			}
			continue
		}
		if rapid.IntRange(0, 4).Draw(t, "farnbf") == 0 {
			v := rapid.SampledFrom(farFuture).Draw(t, "farv")
			l.NbfAbs, l.Nbf = &v, nil
			cs.Dev = append(cs.Dev, "inactive-far@"+where)
			continue
		}
		if rapid.Bool().Draw(t, "kind") {
			v := -off
			l.Exp, l.ExpAbs = &v, nil
			cs.Dev = append(cs.Dev, "expired@"+where)
		} else {
			v := off
			l.Nbf = &v
			cs.Dev = append(cs.Dev, "inactive@"+where)
		}
	}
	if nd > 0 && rapid.IntRange(0, 5).Draw(t, "crossfamily") == 3 {
		// the time rule binds whatever else is wrong with the chain
		chain.ApplyPrincipalDeviation(t, &cs, rapid.SampledFrom([]string{"subject-undef", "subject-other", "rewire-aud", "last-not-root", "duplicate", "swap"}).Draw(t, "crossdev"))
	}
	return cs
}

var chainProp = h.Define(P, "chain", drawChain, runChain)

func TestChain(t *testing.T) { chainProp.Check(t) }

// ---------- (a) single-token window ----------

type WinCase struct {
	Invocation bool   `json:"invocation"`
	Decoded    bool   `json:"decoded"`
	Nbf        *int64 `json:"nbf,omitempty"` // seconds from now (delegations only)
	Exp        *int64 `json:"exp,omitempty"`
	NbfAbs     *int64 `json:"nbf_abs,omitempty"` // absolute far-future bounds (delegations only)
	ExpAbs     *int64 `json:"exp_abs,omitempty"`
}

// far-future instants: 2300, 2500, 3000, 9999 and the largest timestamp the wire format admits
var farFuture = []int64{10413792000, 16725225600, 32503680000, 253402300799, (1 << 53) - 1}

var winOffsets = []int64{3600, 86400, 365 * 86400, 100 * 365 * 86400, -3600, -86400, -365 * 86400, -100 * 365 * 86400}

var otherLocations = []*time.Location{time.FixedZone("UTC-2", -2*3600), time.FixedZone("UTC+14", 14*3600), time.FixedZone("UTC-12", -12*3600), time.FixedZone("UTC+5:45", 5*3600+45*60), time.FixedZone("UTC+0:00:01", 1), time.Local}

type validAt interface {
	IsValidAt(time.Time) bool
	IsValidNow() bool
}

func runWin(c *h.Ctx, w WinCase) {
	var tk validAt
	var nbf, exp *time.Time
	if w.Invocation {
		iv := chain.Inv{Iss: 0, Sub: 1, Aud: -1, Cmd: "/foo", NonceLen: 12, Exp: w.Exp, Decoded: w.Decoded}
		tkn, err := chain.BuildInv(iv, nil)
		if err != nil {
			c.P.Class("build-error")
			return
		}
		tk, exp = tkn, tkn.Expiration()
	} else {
		l := chain.Link{Iss: 0, Aud: 1, Sub: 0, Cmd: "/foo", Nbf: w.Nbf, Exp: w.Exp, NbfAbs: w.NbfAbs, ExpAbs: w.ExpAbs, Decoded: w.Decoded}
		if w.NbfAbs != nil {
			l.Nbf = nil
		}
		if w.ExpAbs != nil {
			l.Exp = nil
		}
		tkn, _, _, err := chain.BuildLink(l)
		if err != nil {
			c.P.Class("build-error")
			return
		}
		tk, nbf, exp = tkn, tkn.NotBefore(), tkn.Expiration()
	}
	var _ token.Token = tk.(token.Token)
	if (w.Exp != nil || (w.ExpAbs != nil && !w.Invocation)) != (exp != nil) {
		c.Fail("C04/window/bound-lost", "expiration requested=%v, reported=%v", w.Exp != nil, exp)
	}
	if !w.Invocation && (w.Nbf != nil || w.NbfAbs != nil) != (nbf != nil) {
		c.Fail("C04/window/bound-lost", "notBefore requested=%v, reported=%v", w.Nbf != nil, nbf)
	}
	if nbf != nil && exp != nil && nbf.After(*exp) {
		c.P.Class("window/empty") // nbf after exp: every instant is outside
	}
	deltas := []time.Duration{time.Nanosecond, time.Second, time.Hour}
	var probes []time.Time
	for _, bnd := range []*time.Time{nbf, exp} {
		if bnd == nil {
			continue
		}
		for _, d := range deltas {
			probes = append(probes, bnd.Add(d), bnd.Add(-d))
		}
	}
	probes = append(probes, time.Date(1600, 1, 1, 0, 0, 0, 0, time.UTC), time.Date(2300, 1, 1, 0, 0, 0, 0, time.UTC), time.Date(3000, 1, 1, 0, 0, 0, 0, time.UTC),
		time.Time{}, time.Date(1, 1, 1, 0, 0, 1, 0, time.UTC), time.Date(9999, 12, 31, 23, 59, 59, 0, time.UTC),
		time.Unix(0, 0), time.Now())
	for i, p := range probes {
		inside := (nbf == nil || p.After(*nbf)) && (exp == nil || p.Before(*exp))
		outside := (nbf != nil && p.Before(*nbf)) || (exp != nil && p.After(*exp))
		got := tk.IsValidAt(p)
		kind := "delegation"
		if w.Invocation {
			kind = "invocation"
		}
		// the same INSTANT named in another location (a caller's time.Time carries a zone; time.Now() carries the
		// process's): one instant, one verdict
		for _, loc := range otherLocations {
			if q := p.In(loc); tk.IsValidAt(q) != got {
				c.Fail("C04/window/verdict-depends-on-location/"+kind, "IsValidAt(%v)=%v, IsValidAt of the same instant written as %v = %v; bounds [%v, %v]", p.UTC(), got, q, !got, nbf, exp)
			}
		}
		switch {
		case inside && !got:
			c.Fail("C04/window/inside-invalid/"+kind, "IsValidAt(%v)=false strictly inside [%v, %v]", p, nbf, exp)
		case outside && got:
			c.Fail("C04/window/outside-valid/"+kind, "IsValidAt(%v)=true strictly outside [%v, %v]", p, nbf, exp)
		case !inside && !outside:
			c.P.Unspecified()
		}
		if i < len(probes)-8 {
			c.P.NonTrivial([]any{"win", w.Invocation, w.Decoded, w.Nbf, w.Exp, w.NbfAbs, w.ExpAbs, i}, map[string]any{"token": kind, "decoded": w.Decoded, "nbf_off": w.Nbf, "exp_off": w.Exp, "probe_index": i, "inside": inside, "outside": outside, "valid": got})
		}
	}
	// IsValidNow == IsValidAt(now): every bound is >= 1h away from now
	if tk.IsValidNow() != tk.IsValidAt(time.Now()) {
		c.Fail("C04/window/now", "IsValidNow() != IsValidAt(time.Now())")
	}
	c.P.Class(fmt.Sprintf("window/inv=%v/dec=%v/nbf=%v/exp=%v/far=%v", w.Invocation, w.Decoded, nbf != nil, exp != nil, w.NbfAbs != nil || w.ExpAbs != nil))
}

func drawWin(t *rapid.T) WinCase {
	w := WinCase{Invocation: rapid.Bool().Draw(t, "inv"), Decoded: rapid.Bool().Draw(t, "dec")}
	if rapid.IntRange(0, 3).Draw(t, "hasexp") > 0 {
		v := rapid.SampledFrom(winOffsets).Draw(t, "exp")
		w.Exp = &v
	}
	if !w.Invocation && rapid.IntRange(0, 3).Draw(t, "hasnbf") > 0 {
		v := rapid.SampledFrom(winOffsets).Draw(t, "nbf")
		w.Nbf = &v
	}
	if !w.Invocation && rapid.IntRange(0, 3).Draw(t, "far") == 0 {
		v := rapid.SampledFrom(farFuture).Draw(t, "farv")
		if rapid.Bool().Draw(t, "farnbf") {
			w.NbfAbs = &v
		} else {
			w.ExpAbs = &v
		}
	}
	return w
}

var winProp = h.Define(P, "window", drawWin, runWin)

func TestWindow(t *testing.T) { winProp.Check(t) }

// TestWindowExhaustive enumerates the full bound-pattern product.
func TestWindowExhaustive(t *testing.T) {
	opts := []*int64{nil}
	for i := range winOffsets {
		opts = append(opts, &winOffsets[i])
	}
	for _, inv := range []bool{false, true} {
		for _, dec := range []bool{false, true} {
			for _, e := range opts {
				for _, n := range opts {
					if inv && n != nil {
						continue
					}
					winProp.One(t, WinCase{Invocation: inv, Decoded: dec, Nbf: n, Exp: e})
				}
			}
		}
	}
	for i := range farFuture {
		for _, dec := range []bool{false, true} {
			for _, o := range opts {
				winProp.One(t, WinCase{Decoded: dec, NbfAbs: &farFuture[i], Exp: o})
				winProp.One(t, WinCase{Decoded: dec, ExpAbs: &farFuture[i], Nbf: o})
			}
		}
	}
	P.SetExhaustive()
}

// History clause over a shared delegation store (chain/store.go): checks interleaved with loader
// changes, re-decoding and sibling invocations over the same delegations; every decision is compared
// with the reference rules for the store as it is at that moment.
var storeProp = h.Define(P, "store", func(t *rapid.T) chain.StoreCase { return chain.DrawStore(t, "time") },
	func(c *h.Ctx, sc chain.StoreCase) { chain.RunStore(c, sc, "C04") })

func TestStore(t *testing.T) { storeProp.Check(t) }

// Clock histories (chain/clock.go): bounds milliseconds to seconds from now, the same token objects checked
// before and after real time has passed; verdicts only where the clock readings leave a margin.
var clockProp = h.Define(P, "clock", chain.DrawClock, func(c *h.Ctx, cc chain.ClockCase) { chain.RunClock(c, cc, "C04") })

func TestClock(t *testing.T) { clockProp.Check(t) }


// ---------- concurrent decoding ----------

// ConcWin: sealed tokens with different bounds (some expired, some not yet active, several whose timestamps are
// congruent modulo 2^8 .. 2^16 seconds) decoded by several goroutines at once: every decoded token must carry
// ITS OWN bounds and be valid now exactly when those bounds say so - as when it is decoded alone.
type ConcWin struct {
	Offsets    [][2]int64 `json:"offsets"` // per token: (nbf, exp) in seconds relative to now; 0 = absent
	Inv        []bool     `json:"inv"`
	Goroutines int        `json:"goroutines"`
	Rounds     int        `json:"rounds"`
}

func runConcWin(c *h.Ctx, cw ConcWin) {
	type item struct {
		sealed   []byte
		inv      bool
		nbf, exp *time.Time
		valid    bool
	}
	var items []item
	now := time.Now()
	for i, o := range cw.Offsets {
		var sealed []byte
		var err error
		inv := i < len(cw.Inv) && cw.Inv[i]
		iss, aud := chain.Prin(i%4), chain.Prin((i+1)%4)
		if inv {
			opts := []invocation.Option{invocation.WithNonce([]byte(fmt.Sprintf("conc-nonce-%04d", i)))}
			if o[1] != 0 {
				opts = append(opts, invocation.WithExpirationIn(time.Duration(o[1])*time.Second))
			}
			var tk *invocation.Token
			if tk, err = invocation.New(iss.DID, aud.DID, command.MustParse("/foo"), nil, opts...); err == nil {
				sealed, _, err = tk.ToSealed(iss.Priv)
			}
		} else {
			opts := []delegation.Option{delegation.WithNonce([]byte(fmt.Sprintf("conc-nonce-%04d", i)))}
			if o[0] != 0 {
				opts = append(opts, delegation.WithNotBeforeIn(time.Duration(o[0])*time.Second))
			}
			if o[1] != 0 {
				opts = append(opts, delegation.WithExpirationIn(time.Duration(o[1])*time.Second))
			}
			var tk *delegation.Token
			if tk, err = delegation.Root(iss.DID, aud.DID, command.MustParse("/foo"), nil, opts...); err == nil {
				sealed, _, err = tk.ToSealed(iss.Priv)
			}
		}
		if err != nil {
			continue
		}
		// expected: what the same bytes give when decoded alone
		t0, _, err := token.FromSealed(sealed)
		if err != nil {
			continue
		}
		it := item{sealed: sealed, inv: inv, valid: t0.IsValidNow()}
		switch x := t0.(type) {
		case *delegation.Token:
			it.nbf, it.exp = x.NotBefore(), x.Expiration()
		case *invocation.Token:
			it.exp = x.Expiration()
		}
		// only tokens whose validity cannot change during the run
		near := func(p *time.Time) bool { return p != nil && p.Sub(now) > -60*time.Second && p.Sub(now) < 60*time.Second }
		if near(it.nbf) || near(it.exp) {
			continue
		}
		items = append(items, it)
	}
	if len(items) < 2 {
		return
	}
	same := func(a, b *time.Time) bool { return (a == nil) == (b == nil) && (a == nil || a.Unix() == b.Unix()) }
	var mu sync.Mutex
	bad := ""
	pv := h.Concurrently(cw.Goroutines, func(g int) {
		for r := 0; r < cw.Rounds; r++ {
			it := items[(g+r)%len(items)]
			tk, _, err := token.FromSealed(it.sealed)
			if err != nil {
				mu.Lock()
				bad = fmt.Sprintf("decoding under concurrency fails: %v", err)
				mu.Unlock()
				return
			}
			var nbf, exp *time.Time
			switch x := tk.(type) {
			case *delegation.Token:
				nbf, exp = x.NotBefore(), x.Expiration()
			case *invocation.Token:
				exp = x.Expiration()
			}
			if !same(nbf, it.nbf) || !same(exp, it.exp) || tk.IsValidNow() != it.valid {
				mu.Lock()
				bad = fmt.Sprintf("a token decoded while others are being decoded carries other bounds than when decoded alone: nbf %v (alone %v), exp %v (alone %v), valid now %v (alone %v)", nbf, it.nbf, exp, it.exp, tk.IsValidNow(), it.valid)
				mu.Unlock()
				return
			}
		}
	})
	if pv != nil {
		c.Fail("C04/concurrent/panic", "panic while decoding concurrently: %v", pv)
	}
	if bad != "" {
		c.Fail("C04/concurrent/window-differs", "%s", bad)
	}
	c.P.NonTrivial([]any{"concwin", cw.Offsets, cw.Goroutines}, map[string]any{"concurrent_decodes": cw.Goroutines, "tokens": len(items), "offsets": cw.Offsets})
	c.P.Class(fmt.Sprintf("concurrent-windows/goroutines=%d", cw.Goroutines))
}

var concWinProp = h.Define(P, "concwin", func(t *rapid.T) ConcWin {
	cw := ConcWin{Goroutines: rapid.IntRange(2, 8).Draw(t, "goroutines"), Rounds: rapid.IntRange(400, 3000).Draw(t, "rounds")}
	n := rapid.IntRange(3, 6).Draw(t, "ntok")
	base := int64(rapid.SampledFrom([]int{-7200, -3600, 3600, 86400}).Draw(t, "base"))
	step := int64(rapid.SampledFrom([]int{256, 256, 1024, 4096, 65536, 1}).Draw(t, "step"))
	for i := 0; i < n; i++ {
		o := [2]int64{0, 0}
		k := int64(rapid.IntRange(0, 60).Draw(t, "k"))
		switch rapid.IntRange(0, 2).Draw(t, "which") {
		case 0:
			o[1] = base + k*step
		case 1:
			o[0] = base + k*step
		default:
			o[0], o[1] = -86400+k*step, base+k*step+7200
		}
		cw.Offsets = append(cw.Offsets, o)
		cw.Inv = append(cw.Inv, rapid.IntRange(0, 3).Draw(t, "isinv") == 2)
	}
	return cw
}, runConcWin)

func TestConcurrentDecode(t *testing.T) { concWinProp.Check(t) }

// the same under the race detector (slower, so it explores fewer interleavings, but it sees unsynchronised
// accesses that happen not to corrupt anything in this run)
func TestConcurrentDecodeRace(t *testing.T) { concWinProp.Check(t) }


// TestOtherTimeZones: the chain check in a process whose local time zone is not UTC (time.Now() carries time.Local):
// twelve hours west to fourteen hours east, with chains of 1..3 delegations in which one token - each position in
// turn - expired or becomes active 30 minutes, 2, 6 and 13 hours from now, and the valid chains next to them as control
// for the harness itself. What time it is does not depend on where the process runs.
func TestOtherTimeZones(t *testing.T) {
	saved := time.Local
	defer func() { time.Local = saved }()
	n := 0
	for _, zone := range []int{-12 * 3600, -7 * 3600, -2 * 3600, 3600, 5*3600 + 45*60, 14 * 3600} {
		time.Local = time.FixedZone(fmt.Sprintf("verif%+d", zone), zone)
		for length := 1; length <= 3; length++ {
			for pos := 0; pos <= length; pos++ {
				for _, off := range []int64{1800, 2 * 3600, 6 * 3600, 13 * 3600} {
					for _, kind := range []string{"expired", "inactive", "valid-exp", "valid-nbf"} {
						if pos == 0 && (kind == "inactive" || kind == "valid-nbf") {
							continue // invocations have no not-before
						}
						var cs chain.Case
						cs.Inv = chain.Inv{Iss: 0, Sub: length % chain.NPrincipals, Aud: -1, NonceLen: 12, Cmd: "/foo"}
						for i := 0; i < length; i++ {
							iss := (i + 1) % chain.NPrincipals
							if i == length-1 {
								iss = cs.Inv.Sub
							}
							cs.Links = append(cs.Links, chain.Link{Iss: iss, Aud: i % chain.NPrincipals, Sub: cs.Inv.Sub, Cmd: "/foo", Nonce: byte(i)})
						}
						v := off
						if kind == "expired" || kind == "valid-nbf" {
							v = -off
						}
						switch {
						case pos == 0:
							cs.Inv.Exp = &v
						case kind == "expired" || kind == "valid-exp":
							cs.Links[pos-1].Exp = &v
						default:
							cs.Links[pos-1].Nbf = &v
						}
						cs.Dev = []string{fmt.Sprintf("%s@%d/%d zone%+d", kind, pos, length, zone)}
						chainProp.One(t, cs)
						n++
					}
				}
			}
		}
	}
	P.SetExtra("other_time_zone_chains", n)
}

// TestProoflessInvocation: the chain of length ZERO - an invocation whose issuer is its subject and that names no
// proof - with its own expiration 30 minutes to 13 hours in the past (and in the future, as control): whatever a
// validator makes of an empty proof list, an invocation that has expired is not allowed. Constructed and decoded.
func TestProoflessInvocation(t *testing.T) {
	ctx := &h.Ctx{P: P, T: t}
	n := 0
	for _, off := range []int64{-13 * 3600, -3600, -1800, -2, 1800, 3600} {
		for _, decoded := range []bool{false, true} {
			for _, aud := range []int{-1, 0, 3} {
				v := off
				iv := chain.Inv{Iss: 2, Sub: 2, Aud: aud, Cmd: "/foo", NonceLen: 12, Exp: &v, Decoded: decoded}
				tk, err := chain.BuildInv(iv, nil)
				if err != nil {
					P.Class("proofless:not-buildable")
					continue
				}
				n++
				var aerr, herr error
				pn, _, _ := h.Try(func() {
					aerr = tk.ExecutionAllowed(emptyLoader{})
					herr = tk.ExecutionAllowedWithArgsHook(emptyLoader{}, func(ro args.ReadOnly) (*args.Args, error) { return ro.WriteableClone(), nil })
				})
				if pn {
					continue
				}
				if off < 0 && (aerr == nil || herr == nil) {
					ctx.Fail("C04/proofless/allowed-with-expired-invocation", "an invocation without proofs (issuer = subject, audience %d, decoded %v) that expired %d s ago is allowed (plain: %v, hook: %v)", aud, decoded, -off, aerr, herr)
					return
				}
			}
		}
	}
	P.EvalN(n)
	P.AddDistinct(n)
}

type emptyLoader struct{}

func (emptyLoader) GetDelegation(c cid.Cid) (*delegation.Token, error) {
	return nil, delegation.ErrDelegationNotFound
}

#!/bin/sh
# usage: tools/seedrun.sh <patch.diff> <tier> <check> [check ...]
# Runs checks against a scratch worktree of /repo with the patch applied (never touches /repo, /verif/evidence or
# /verif/replays: see VERIF_REPO / VERIF_SCRATCH in ./check). Prints one summary line per check.
cd "$(dirname "$0")/.."
patch=$(readlink -f "$1"); tier="$2"; shift 2
id=$(echo "$patch" | md5sum | cut -c1-10)
wt=/tmp/wt/run_$id; sc=/tmp/wt/scratch_$id
git -C /repo worktree remove --force "$wt" >/dev/null 2>&1
git -C /repo worktree add -q "$wt" HEAD || exit 3
( cd "$wt" && git apply "$patch" ) || { echo "patch does not apply"; git -C /repo worktree remove --force "$wt"; exit 3; }
for c in "$@"; do
  out=$(VERIF_REPO="$wt" VERIF_SCRATCH="$sc" ./check "$c" "$tier" 2>&1); rc=$?
  sig=$(echo "$out" | grep -o "VIOLATION-CANDIDATE.*sig=[^ ]*" | sed 's/.*sig=//' | sort | uniq -c | sort -rn | head -3 | awk '{printf "%s ", $2}')
  [ -z "$sig" ] && sig=$(echo "$out" | grep "^VIOLATION" | head -1)
  echo "$c rc=$rc $sig"
done
git -C /repo worktree remove --force "$wt"
rm -rf "$sc"

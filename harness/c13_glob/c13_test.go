// C13 — like patterns match exactly the glob language.
package c13

import (
	"sort"
	"sync"
	"fmt"
	"os"
	"strings"
	"testing"

	"github.com/ipld/go-ipld-prime"
	"github.com/ipld/go-ipld-prime/node/basicnode"
	"pgregory.net/rapid"

	"github.com/ucan-wg/go-ucan/pkg/policy"

	"verif/harness/h"
	_ "verif/harness/warm"
	"verif/harness/pol"
	"verif/harness/sel"
	"verif/harness/val"
)

var P = h.New("C13", "exploration",
	"pattern/string pairs over the alphabet {a,b,*,\\,é(2 bytes)} (lengths 0..8, strings biased to contain '*' and '\\' opposite wildcards and escapes) plus random ASCII; exhaustive enumeration of all pairs up to a length bound. Oracle: tokenise (unescaped * = wildcard, \\c = literal c) + DP membership. Non-trivial = the pattern has a wildcard or an escape and the string contains '*' or '\\'. Distinct by (pattern, string).")

func TestMain(m *testing.M)   { os.Exit(P.Main(m)) }
func TestReplay(t *testing.T) { P.Replay(t) }

type Case struct {
	Pat  string `json:"pat"`
	Str  string `json:"str"`
	Non  *val.V `json:"non_string,omitempty"` // when set, the data is this non-string value
	Wrap bool   `json:"wrap,omitempty"`       // also evaluate the like under all / any / not / and / or and on a field
}

func like(c *h.Ctx, pat string, data ipld.Node) (constructed bool, matched bool) {
	p, err := policy.Construct(policy.Like(".", pat))
	if err != nil {
		return false, false
	}
	ok, _ := p.Match(data)
	// a Constructor is a value: the same one used for a second and third policy (a rule fragment shared between
	// policies, the rule and its negation side by side) gives statements over the same pattern
	shared := policy.Like(".", pat)
	for round := 1; round <= 3; round++ {
		pr, rerr := policy.Construct(shared, policy.Not(shared))
		if rerr != nil {
			c.Fail("C13/constructor-reuse", "Like(%q) constructs alone, but the same Constructor value used again (round %d) fails: %v", pat, round, rerr)
			break
		}
		m1, _ := policy.Policy{pr[0]}.Match(data)
		m2, _ := policy.Policy{pr[1]}.Match(data)
		if m1 != ok || m2 != !ok {
			c.Fail("C13/constructor-reuse", "Like(%q): a statement built from a Constructor value that had been used before (round %d) gives like=%v not(like)=%v on %s; a fresh one gives like=%v", pat, round, m1, m2, val.FromNode(data), ok)
			break
		}
	}
	// the IPLD path must agree with the constructor path
	lit := val.Str(pat)
	_ = lit
	p2, err2 := policy.FromIPLD(pol.Policy{{Op: "like", Sel: nil, Pat: pat}}.IPLD())
	if err2 != nil {
		c.Fail("C13/constructor-vs-ipld", "Like(%q) constructs but FromIPLD rejects it: %v", pat, err2)
		return true, ok
	}
	ok2, _ := p2.Match(data)
	if ok2 != ok {
		c.Fail("C13/constructor-vs-ipld", "Like(%q): constructor-built matches=%v, IPLD-built matches=%v", pat, ok, ok2)
	}
	return true, ok
}

func nontrivial(pat, s string) bool {
	return strings.ContainsAny(pat, `*\`) && strings.ContainsAny(s, `*\`)
}

func sigFor(pat, s string, got bool) string {
	cls := "other"
	switch {
	case strings.Contains(s, "*") && strings.Contains(pat, "*"):
		cls = "star-in-subject"
	case strings.Contains(s, `\`) && strings.Contains(pat, `\`):
		cls = "backslash-in-subject"
	case strings.ContainsAny(s, `*\`):
		cls = "special-in-subject"
	}
	if got {
		return "C13/glob/false-positive/" + cls
	}
	return "C13/glob/false-negative/" + cls
}

func run(c *h.Ctx, cs Case) {
	want, valid := pol.Glob(cs.Pat, cs.Str)
	var data ipld.Node = basicnode.NewString(cs.Str)
	if cs.Non != nil {
		data = cs.Non.Node()
	}
	constructed, got := like(c, cs.Pat, data)
	if constructed != valid {
		if valid {
			c.Fail("C13/pattern/valid-rejected", "Like(%q) rejected although the pattern does not end in a lone backslash", cs.Pat)
		} else {
			c.Fail("C13/pattern/lone-backslash-accepted", "Like(%q) accepted although the pattern ends in a lone backslash", cs.Pat)
		}
		return
	}
	if !valid {
		c.P.Class("invalid-pattern")
		return
	}
	if cs.Non != nil {
		if got {
			c.Fail("C13/non-string-matches", "like %q matched non-string data %+v", cs.Pat, *cs.Non)
		}
		c.P.Class("non-string")
		return
	}
	if got != want {
		c.Fail(sigFor(cs.Pat, cs.Str, got), "like %q on %q: got %v, glob language says %v", cs.Pat, cs.Str, got, want)
	}
	// the statement is about "a like statement", wherever it stands: under a quantifier over a list holding
	// the string, on a field, under not / and / or
	if cs.Wrap {
		likeS := pol.Stmt{Op: "like", Sel: sel.Sel{{Kind: "id"}}, Pat: cs.Pat}
		sv := val.Str(cs.Str)
		other := val.Str(cs.Str + "\x00never")
		for _, w := range []struct {
			name string
			st   pol.Stmt
			data val.V
			want bool
		}{
			{"any", pol.Stmt{Op: "any", Sel: sel.Sel{{Kind: "id"}}, Sub: []pol.Stmt{likeS}}, val.List(sv), want},
			{"all", pol.Stmt{Op: "all", Sel: sel.Sel{{Kind: "id"}}, Sub: []pol.Stmt{likeS}}, val.List(sv, sv), want},
			{"any-field", pol.Stmt{Op: "any", Sel: sel.Sel{{Kind: "field", Name: "l"}}, Sub: []pol.Stmt{likeS}}, val.Map(val.E("l", val.List(val.Int(1), sv))), want},
			{"field", pol.Stmt{Op: "like", Sel: sel.Sel{{Kind: "field", Name: "s"}}, Pat: cs.Pat}, val.Map(val.E("s", sv)), want},
			{"not", pol.Stmt{Op: "not", Sub: []pol.Stmt{likeS}}, sv, !want},
			{"and", pol.Stmt{Op: "and", Sub: []pol.Stmt{likeS, likeS}}, sv, want},
			{"or", pol.Stmt{Op: "or", Sub: []pol.Stmt{{Op: "==", Sel: sel.Sel{{Kind: "id"}}, Lit: &other}, likeS}}, sv, want},
			{"any-in-not", pol.Stmt{Op: "not", Sub: []pol.Stmt{{Op: "any", Sel: sel.Sel{{Kind: "id"}}, Sub: []pol.Stmt{likeS}}}}, val.List(sv), !want},
			{"not-not", pol.Stmt{Op: "not", Sub: []pol.Stmt{{Op: "not", Sub: []pol.Stmt{likeS}}}}, sv, want},
			{"not-not-not", pol.Stmt{Op: "not", Sub: []pol.Stmt{{Op: "not", Sub: []pol.Stmt{{Op: "not", Sub: []pol.Stmt{likeS}}}}}}, sv, !want},
			{"and-in-not", pol.Stmt{Op: "not", Sub: []pol.Stmt{{Op: "and", Sub: []pol.Stmt{likeS, likeS}}}}, sv, !want},
			{"or-in-not", pol.Stmt{Op: "not", Sub: []pol.Stmt{{Op: "or", Sub: []pol.Stmt{likeS}}}}, sv, !want},
			{"all-in-not", pol.Stmt{Op: "not", Sub: []pol.Stmt{{Op: "all", Sel: sel.Sel{{Kind: "id"}}, Sub: []pol.Stmt{likeS}}}}, val.List(sv, sv), !want},
			{"not-in-all", pol.Stmt{Op: "all", Sel: sel.Sel{{Kind: "id"}}, Sub: []pol.Stmt{{Op: "not", Sub: []pol.Stmt{likeS}}}}, val.List(sv), !want},
			{"not-in-or", pol.Stmt{Op: "or", Sub: []pol.Stmt{{Op: "not", Sub: []pol.Stmt{likeS}}}}, sv, !want},
		} {
			for _, viaIPLD := range []bool{false, true} {
				p, err := pol.Policy{w.st}.Build(viaIPLD)
				if err != nil {
					c.Fail("C13/pattern/valid-rejected", "like %q is accepted on its own but rejected under %s: %v", cs.Pat, w.name, err)
					continue
				}
				if m, _ := p.Match(w.data.Node()); m != w.want {
					c.Fail("C13/glob/wrapped/"+w.name, "like %q on %q standing under %s: the statement evaluates to %v, the glob language says %v (on its own the like gives %v)", cs.Pat, cs.Str, w.name, m, w.want, got)
				}
			}
		}
		// among many: an or / and of several like statements over the SAME selector (an allow-list), the statement at
		// every position, next to decoy patterns of every first character class (letter, wildcard, escape, empty)
		decoys := []string{"zz-never", "q*-never", `\z\z-never`, "", `\*never`, "*-never-*", "é-never", `\\never`}
		for _, nOps := range []int{2, 4, 5, 8} {
			for pos := 0; pos < nOps; pos += 1 + nOps/3 {
				var sub []pol.Stmt
				anyDecoy, allDecoy := false, true
				for i := 0; i < nOps; i++ {
					if i == pos {
						sub = append(sub, likeS)
						continue
					}
					dp := decoys[(i+nOps)%len(decoys)]
					dm, _ := pol.Glob(dp, cs.Str)
					anyDecoy, allDecoy = anyDecoy || dm, allDecoy && dm
					sub = append(sub, pol.Stmt{Op: "like", Sel: sel.Sel{{Kind: "id"}}, Pat: dp})
				}
				for _, conn := range []string{"or", "and"} {
					wantC := want || anyDecoy
					if conn == "and" {
						wantC = want && allDecoy
					}
					for _, viaIPLD := range []bool{false, true} {
						p, err := pol.Policy{{Op: conn, Sub: sub}}.Build(viaIPLD)
						if err != nil {
							continue
						}
						if m, _ := p.Match(sv.Node()); m != wantC {
							c.Fail("C13/glob/wrapped/"+conn+"-of-many", "like %q on %q as operand %d of an %s of %d like statements over the same selector: the %s evaluates to %v, the glob language says %v (on its own the like gives %v)", cs.Pat, cs.Str, pos, conn, nOps, conn, m, wantC, got)
						}
					}
				}
			}
		}
		c.P.Class("wrapped")
	}
	if nontrivial(cs.Pat, cs.Str) {
		c.P.NonTrivial([]string{cs.Pat, cs.Str}, map[string]any{"pattern": cs.Pat, "string": cs.Str, "match": want})
		c.P.Class("nontrivial")
	}
	if want {
		c.P.Class("match")
	} else {
		c.P.Class("nomatch")
	}
}

var atoms = []string{"a", "b", "*", `\`, "é", `\*`, `\\`, "ab"}

func drawStr(t *rapid.T, label string) string {
	n := rapid.IntRange(0, 8).Draw(t, label+"_n")
	var b strings.Builder
	for i := 0; i < n; i++ {
		b.WriteString(rapid.SampledFrom(atoms).Draw(t, label))
	}
	return b.String()
}

// instance derives a string from the pattern: wildcards replaced by drawn
// text (often containing '*' or '\'), escapes resolved. Such strings match by
// construction, which exercises the false-negative direction.
func instance(t *rapid.T, pat string) string {
	var b strings.Builder
	for i := 0; i < len(pat); i++ {
		switch {
		case pat[i] == '\\' && i+1 < len(pat):
			i++
			b.WriteByte(pat[i])
		case pat[i] == '*':
			b.WriteString(drawStr(t, "fill"))
		default:
			b.WriteByte(pat[i])
		}
	}
	return b.String()
}

// drawBytes builds a string over '*', '\\' and three arbitrary byte values (any of 0..255: strings are byte
// strings to Like and to Match; a matcher that reserves some byte value for its own bookkeeping is wrong for
// patterns or subjects that contain it).
func drawBytes(t *rapid.T, alpha []byte, label string) string {
	n := rapid.IntRange(0, 7).Draw(t, label+"_n")
	b := make([]byte, 0, n)
	for i := 0; i < n; i++ {
		b = append(b, rapid.SampledFrom(alpha).Draw(t, label))
	}
	return string(b)
}

func draw(t *rapid.T) Case {
	var cs Case
	switch rapid.IntRange(0, 14).Draw(t, "mode") {
	case 13, 14:
		// a look-alike of a member: one character of an instance replaced by what a forgiving comparison would
		// equate with it (the other letter case, a full-width or accented twin, a composed / decomposed spelling,
		// a space where there is none); always evaluated in every position of a policy
		cs.Pat = drawStr(t, "pat")
		cs.Str = lookalike(t, instance(t, cs.Pat))
		cs.Wrap = true
		return cs
	case 12:
		// sized: a pattern of n atoms for n anywhere in 0..300 (boundaries of machine words, small
		// fixed arrays and length bytes sit there), with an instance of its language or a near miss
		n := rapid.IntRange(0, 300).Draw(t, "sized_n")
		var b strings.Builder
		for i := 0; i < n; i++ {
			b.WriteString(rapid.SampledFrom(sizedAtoms).Draw(t, "sized_atom"))
		}
		cs.Pat = b.String()
		cs.Str = instance(t, cs.Pat)
		if len(cs.Str) > 0 && rapid.Bool().Draw(t, "sized_perturb") {
			i := rapid.IntRange(0, len(cs.Str)-1).Draw(t, "sized_cut")
			cs.Str = cs.Str[:i] + "z" + cs.Str[i+1:]
		}
	case 10, 11:
		alpha := []byte{'*', '\\', '*', rapid.Byte().Draw(t, "b1"), rapid.Byte().Draw(t, "b2"),
			rapid.SampledFrom([]byte{0x00, 0x01, 0x7f, 0x80, 0xfe, 0xff, 0xc3, 0xa9}).Draw(t, "b3")}
		cs.Pat = drawBytes(t, alpha, "bpat")
		if rapid.Bool().Draw(t, "binst") {
			cs.Str = instance(t, cs.Pat)
			if len(cs.Str) > 0 && rapid.IntRange(0, 2).Draw(t, "bperturb") == 0 {
				i := rapid.IntRange(0, len(cs.Str)-1).Draw(t, "bcut")
				bs := []byte(cs.Str)
				bs[i] = rapid.SampledFrom(alpha).Draw(t, "bsub")
				cs.Str = string(bs)
			}
		} else {
			cs.Str = drawBytes(t, alpha, "bstr")
		}
	case 0:
		cs.Pat = rapid.StringN(0, 10, -1).Draw(t, "rpat")
		cs.Str = rapid.StringN(0, 10, -1).Draw(t, "rstr")
	case 1, 2, 3:
		cs.Pat = drawStr(t, "pat")
		cs.Str = instance(t, cs.Pat)
	case 4:
		cs.Pat = drawStr(t, "pat")
		cs.Str = instance(t, cs.Pat)
		// perturb the instance by one edit
		if len(cs.Str) > 0 {
			i := rapid.IntRange(0, len(cs.Str)-1).Draw(t, "cut")
			cs.Str = cs.Str[:i] + cs.Str[i+1:]
		}
	case 5:
		cs.Pat = drawStr(t, "pat")
		v := val.GenScalar(t, val.Cfg{})
		if v.Kind() != "str" {
			cs.Non = &v
		}
	default:
		cs.Pat = drawStr(t, "pat")
		cs.Str = drawStr(t, "str")
	}
	cs.Wrap = rapid.IntRange(0, 3).Draw(t, "wrap") == 0
	return cs
}

var twins = map[rune][]string{'a': {"A", "\uff41", "\u0430", "á", "a\u0301"}, 'b': {"B", "\uff42", "\u0184"}, 'é': {"É", "e\u0301", "e", "è"},
	'*': {"\uff0a", "\u2217", "%2a"}, '\\': {"/", "\uff3c"}, 'z': {"Z"}}

func lookalike(t *rapid.T, s string) string {
	rs := []rune(s)
	var at []int
	for i, r := range rs {
		if _, ok := twins[r]; ok {
			at = append(at, i)
		}
	}
	if len(at) == 0 {
		return s + rapid.SampledFrom([]string{" ", "\n", "\x00", "\u200b"}).Draw(t, "tail")
	}
	i := rapid.SampledFrom(at).Draw(t, "twin_at")
	return string(rs[:i]) + rapid.SampledFrom(twins[rs[i]]).Draw(t, "twin") + string(rs[i+1:])
}

var prop = h.Define(P, "glob", draw, run)

func TestGlob(t *testing.T) { prop.Check(t) }

var sizedAtoms = []string{"a", "a", "a", "b", "b", "c", "*", `\*`, `\\`}

// TestGlobSizes: for EVERY number of pattern positions n in 0..520 (positions = literals, escapes and
// collapsed wildcard runs), a fixed family of patterns of exactly that size with a member and a non-member
// of the language each. A matcher with a size-dependent representation (a bit per position, a fixed array,
// a one-byte length) is wrong at one n only.
func TestGlobSizes(t *testing.T) {
	rep := strings.Repeat
	cnt := 0
	for n := 0; n <= 520; n++ {
		lit := rep("ab", n/2+1)[:n]
		var cases []Case
		cases = append(cases, Case{Pat: lit, Str: lit}, Case{Pat: lit, Str: lit + "a"})
		if n >= 1 {
			miss := lit[:n-1] + "z"
			cases = append(cases, Case{Pat: lit, Str: miss}, Case{Pat: lit, Str: lit[:n-1]})
			// trailing / leading wildcard as the n-th position
			cases = append(cases,
				Case{Pat: lit[:n-1] + "*", Str: lit[:n-1]}, Case{Pat: lit[:n-1] + "*", Str: lit[:n-1] + "xyz"}, Case{Pat: lit[:n-1] + "**", Str: lit[:n-1] + "q"},
				Case{Pat: "*" + lit[:n-1], Str: "xyz" + lit[:n-1]}, Case{Pat: "*" + lit[:n-1], Str: lit[:n-1] + "x"})
		}
		if n >= 2 {
			in := lit[:n-2]
			cases = append(cases,
				Case{Pat: "*" + in + "*", Str: "x" + in + "y"}, Case{Pat: "*" + in + "*", Str: in}, Case{Pat: "*" + in + "*", Str: "x" + in[:len(in)/2] + "y"},
				Case{Pat: `\*` + in + `\\`, Str: "*" + in + `\`}, Case{Pat: `\*` + in + `\\`, Str: "*" + in + "x"})
		}
		if n >= 4 {
			// the shape from hashes and identifiers: escaped prefix, literal run, wildcard run
			in := rep("b", n-3)
			cases = append(cases, Case{Pat: `\*\\` + in + "**", Str: `*\` + in}, Case{Pat: `\*\\` + in + "**", Str: `*\` + in + "tail"}, Case{Pat: `\*\\` + in + "**", Str: `*\` + in[1:]})
			// alternating literal / wildcard: n positions
			alt := rep("a*", n/2)
			if n%2 == 1 {
				alt += "a"
			}
			cases = append(cases, Case{Pat: alt, Str: rep("a", n/2+n%2)}, Case{Pat: alt, Str: rep("ab", n/2) + rep("a", n%2)}, Case{Pat: alt, Str: rep("a", n/2+n%2-1)})
		}
		for _, c := range cases {
			prop.One(t, c)
			cnt++
		}
	}
	P.Sample(map[string]any{"size_sweep": "every pattern size 0..520 positions", "cases": cnt})
}

// TestGlobByteSweep: for EVERY byte value b, a fixed family of patterns and subjects in which b occurs as a
// literal, escaped, next to a wildcard, and opposite another byte value.
func TestGlobByteSweep(t *testing.T) {
	for v := 0; v < 256; v++ {
		b := string([]byte{byte(v)})
		o := string([]byte{byte(v ^ 1)})
		if b == "*" || b == "\\" {
			continue
		}
		pats := []string{b, "a" + b + "c", "\\" + b, "*" + b, b + "*", "a*" + b + "*c", b + b, "\\" + b + "*" + b, "*\\" + b + "\\*"}
		subs := []string{"", b, o, "a" + b + "c", "a" + o + "c", "ac", "a" + b + b + "c", "axyz" + b + "zyxc", "axyz" + o + "zyxc", b + b, b + o, o + b, b + "*", "abc", "x" + b, b + "x"}
		for _, p := range pats {
			for _, s := range subs {
				prop.One(t, Case{Pat: p, Str: s})
			}
		}
	}
	P.Sample(map[string]any{"byte_sweep": "every byte value 0..255 as literal / escaped / next to a wildcard", "patterns_per_byte": 9, "subjects_per_pattern": 16})
}

// TestGlobLongRuns: a wildcard followed by a long literal run against long,
// self-overlapping strings (the expensive case of any backtracking matcher):
// the answer must still be the language's, whatever it costs.
func TestGlobLongRuns(t *testing.T) {
	ks := []int{1, 8, 17, 64, 400}
	ns := []int{10, 40, 60, 200, 1000, 4000}
	if h.Thorough() {
		ks = append(ks, 1500)
		ns = append(ns, 20000)
	}
	rep := strings.Repeat
	for _, k := range ks {
		for _, n := range ns {
			for _, c := range []Case{
				{Pat: "*" + rep("a", k) + "b", Str: rep("a", n) + "b"},
				{Pat: "*" + rep("a", k) + "b", Str: rep("a", n)},
				{Pat: "*" + rep("a", k) + "b*", Str: rep("a", n) + "bb" + rep("a", 5)},
				{Pat: rep("a", 3) + "*" + rep("ab", k/2+1) + "c", Str: rep("a", 3) + rep("ab", n/2) + "c"},
				{Pat: "*" + rep("a", k) + `\*\\`, Str: rep("a", n) + `*\`},
				{Pat: "*" + rep("a", k) + `\*`, Str: rep("a", n) + "x"},
				{Pat: rep("*a", min(k, 40)) + "b", Str: rep("a", n) + "b"},
			} {
				prop.One(t, c)
			}
		}
	}
}

// TestGlobExhaustive enumerates every (pattern, string) pair over the byte
// alphabet {a, b, *, \} up to a length bound.
func TestGlobExhaustive(t *testing.T) {
	maxLen := h.N(4, 6)
	alpha := []byte{'a', 'b', '*', '\\'}
	var all []string
	var rec func(prefix []byte)
	rec = func(prefix []byte) {
		all = append(all, string(prefix))
		if len(prefix) == maxLen {
			return
		}
		for _, ch := range alpha {
			rec(append(append([]byte{}, prefix...), ch))
		}
	}
	rec(nil)
	k, nshards := h.Shard()
	nt, evals := 0, 0
	var cur Case
	prop.Enumerate(t, &cur, func() {
		for pi, pat := range all {
			if pi%nshards != k {
				continue
			}
			cur = Case{Pat: pat}
			_, valid := pol.Glob(pat, "")
			p, err := policy.Construct(policy.Like(".", pat))
			if (err == nil) != valid {
				prop.One(t, Case{Pat: pat})
				return
			}
			if !valid {
				continue
			}
			for _, s := range all {
				cur.Str = s
				want, _ := pol.Glob(pat, s)
				got, _ := p.Match(basicnode.NewString(s))
				evals++
				if got != want {
					prop.One(t, Case{Pat: pat, Str: s})
					return
				}
				if nontrivial(pat, s) {
					nt++
				}
			}
		}
	})
	P.EvalN(evals)
	P.AddDistinct(nt)
	P.SetExtra("exhaustive_max_len", maxLen)
	P.SetExtra("exhaustive_strings", len(all))
	P.Sample(map[string]any{"exhaustive": "all pattern/string pairs over {a,b,*,\\}", "max_len": maxLen, "pairs": evals})
	P.SetExhaustive()
}

// FuzzGlob: coverage-guided search over (pattern, subject) byte strings with the reference matcher as oracle
// (thorough tier only; Go's fuzzer cannot be pinned to VERIF_SEED, a crasher is saved as a replay file by the body).
func FuzzGlob(f *testing.F) {
	for _, s := range [][2]string{{"*", ""}, {"a*b", "ab"}, {`\*`, "*"}, {`a\\*`, `a\x`}, {"*a*b*", "xaxbx"}, {"**", "*"}, {"a*a", "a"}, {"ab*ba", "aba"}, {"\xff*", "\xff"}} {
		f.Add(s[0], s[1])
	}
	f.Fuzz(func(t *testing.T, pat, s string) {
		if len(pat) > 64 || len(s) > 256 {
			return
		}
		prop.One(t, Case{Pat: pat, Str: s})
	})
}

// ---------- histories: statements kept while others are built ----------

type HistCase struct {
	Pairs []Case `json:"pairs"` // every pattern is BUILT first (in this order), then every statement is evaluated
	Order []int  `json:"order"` // evaluation order (indexes into Pairs, repetitions allowed)
	// Between: a pattern built between two evaluations (index into Pairs, the statement is thrown away)
	Between []int `json:"between,omitempty"`
}

// runHist: a like statement is a value; what it matches is fixed when it is built. Several statements are built
// (through the constructor and through FromIPLD), more are built while the first ones are still in use, and each is
// then evaluated - possibly several times - against its subject. Every evaluation must give the glob language's
// answer for ITS pattern, whatever was built or matched in between.
func runHist(c *h.Ctx, hc HistCase) {
	type built struct {
		cs   Case
		p    []policy.Policy
		want bool
	}
	var bs []built
	for _, cs := range hc.Pairs {
		want, valid := pol.Glob(cs.Pat, cs.Str)
		if !valid {
			if _, err := policy.Construct(policy.Like(".", cs.Pat)); err == nil {
				c.Fail("C13/pattern/lone-backslash-accepted", "Like(%q) accepted although the pattern ends in a lone backslash", cs.Pat)
			}
			continue
		}
		b := built{cs: cs, want: want}
		for _, viaIPLD := range []bool{false, true} {
			p, err := pol.Policy{{Op: "like", Sel: nil, Pat: cs.Pat}}.Build(viaIPLD)
			if err != nil {
				c.Fail("C13/pattern/valid-rejected", "like %q rejected (via IPLD: %v): %v", cs.Pat, viaIPLD, err)
				return
			}
			b.p = append(b.p, p)
		}
		bs = append(bs, b)
	}
	if len(bs) == 0 {
		return
	}
	escapes := 0
	for _, b := range bs {
		if strings.Contains(b.cs.Pat, `\`) {
			escapes++
		}
	}
	for k, i := range hc.Order {
		b := bs[i%len(bs)]
		if len(hc.Between) > 0 {
			o := bs[hc.Between[k%len(hc.Between)]%len(bs)]
			_, _ = pol.Policy{{Op: "like", Sel: nil, Pat: o.cs.Pat}}.Build(k%2 == 0)
		}
		for v, p := range b.p {
			got, _ := p.Match(basicnode.NewString(b.cs.Str))
			if got != b.want {
				c.Fail("C13/history/"+map[bool]string{true: "false-positive", false: "false-negative"}[got],
					"like %q on %q (statement %d of %d built in this history, variant %d, evaluation %d): got %v, the glob language says %v; on its own the same statement is right - other statements built in between: %d",
					b.cs.Pat, b.cs.Str, i%len(bs), len(bs), v, k, got, b.want, len(bs)-1)
			}
		}
	}
	c.P.Class(fmt.Sprintf("history:statements=%d,with-escape=%d", min(len(bs), 6), min(escapes, 4)))
	if len(bs) >= 2 && escapes >= 2 {
		var key []string
		for _, b := range bs {
			key = append(key, b.cs.Pat, b.cs.Str)
		}
		c.P.NonTrivial(key, map[string]any{"kind": "history", "statements": len(bs), "with_escape": escapes, "first_pattern": bs[0].cs.Pat})
	}
}

var histProp = h.Define(P, "history", func(t *rapid.T) HistCase {
	var hc HistCase
	n := rapid.IntRange(2, 6).Draw(t, "npairs")
	for i := 0; i < n; i++ {
		var cs Case
		cs.Pat = drawStr(t, "hpat")
		if rapid.IntRange(0, 3).Draw(t, "hinst") > 0 {
			cs.Str = instance(t, cs.Pat)
		} else {
			cs.Str = drawStr(t, "hstr")
		}
		hc.Pairs = append(hc.Pairs, cs)
	}
	hc.Order = rapid.SliceOfN(rapid.IntRange(0, n-1), 1, 8).Draw(t, "order")
	if rapid.Bool().Draw(t, "hbetween") {
		hc.Between = rapid.SliceOfN(rapid.IntRange(0, n-1), 1, 4).Draw(t, "between")
	}
	return hc
}, runHist)

func TestGlobHistory(t *testing.T) { histProp.Check(t) }

// ---------- concurrent evaluation ----------

// TestConcurrentGlob: many like statements (patterns with none, one and several wildcards, escapes) evaluated at
// the same time from several goroutines, each against several subjects, matching and not, every single result
// compared with the glob language. Built once, shared by all goroutines - as the policies of loaded delegations are.
// Runs under the race detector.
func TestConcurrentGlob(t *testing.T) {
	ctx := &h.Ctx{P: P, T: t}
	type item struct {
		pat, str string
		want     bool
		p        policy.Policy
	}
	var items []item
	users := []string{"alice", "bob", "carol-7", "d*ve", `e\ve`, ""}
	hosts := []string{"mail.example.com", "example.com", "mail.example.org", "x", "*.example.com"}
	pats := []string{"user-*@*.example.com", "*@*", "*-*@*.*.com", "user-*", "*@mail.example.com", `*\**@*`, `*\\*@*`, "**", "a*b*c*d", "*a*b*", "user-alice@mail.example.com", "*"}
	for i := 0; i < 400; i++ {
		pats = append(pats, fmt.Sprintf("user-%d*@*.%d.example.com", i%37, i%11), fmt.Sprintf("*%d*%d*", i%13, i%7))
	}
	for _, pt := range pats {
		for ui, u := range users {
			for hi, hst := range hosts {
				s := "user-" + u + "@" + hst
				if (ui+hi)%3 == 0 {
					s = fmt.Sprintf("user-%d-%s@m.%d.example.com", ui*7+hi, u, hi)
				}
				want, valid := pol.Glob(pt, s)
				if !valid {
					continue
				}
				p, err := policy.Construct(policy.Like(".", pt))
				if err != nil {
					t.Fatalf("INCONCLUSIVE %v", err)
				}
				items = append(items, item{pt, s, want, p})
			}
		}
	}
	var wg sync.WaitGroup
	var mu sync.Mutex
	var bad []string
	rounds := h.N(12, 60)
	for g := 0; g < 8; g++ {
		wg.Add(1)
		go func(g int) {
			defer wg.Done()
			for r := 0; r < rounds; r++ {
				for k := range items {
					it := items[(k*7+g*131+r*17)%len(items)]
					got, _ := it.p.Match(basicnode.NewString(it.str))
					if got != it.want {
						mu.Lock()
						if len(bad) < 5 {
							bad = append(bad, fmt.Sprintf("like %q on %q: got %v, the glob language says %v", it.pat, it.str, got, it.want))
						}
						mu.Unlock()
					}
				}
			}
		}(g)
	}
	wg.Wait()
	// and once more, sequentially, after the concurrent phase (a wrong entry left behind by two writers misleads later readers)
	for _, it := range items {
		if got, _ := it.p.Match(basicnode.NewString(it.str)); got != it.want && len(bad) < 5 {
			bad = append(bad, fmt.Sprintf("AFTER the concurrent phase, like %q on %q: got %v, the glob language says %v", it.pat, it.str, got, it.want))
		}
	}
	if len(bad) > 0 {
		ctx.Fail("C13/concurrent/wrong-result", "%d like statements evaluated by 8 goroutines at once: %s", len(items), strings.Join(bad, " | "))
	}
	P.EvalN(len(items) * 8 * rounds)
	P.AddDistinct(len(items))
	P.SetExtra("concurrent_like_statements", len(items))
}

// TestSiblingLikes: several like statements standing NEXT TO each other in one policy (as the joined policy of a proof
// chain has them), over fields whose names and patterns are cut from one text at different places (.a + "bcd*",
// .ab + "cd*", .abc + "d*" ...): every statement is judged on its own field with its own pattern; the policy matches
// exactly when all of them hold. Every pair and triple of cuts, every assignment of matching / non-matching subjects,
// both orders, constructor-built and IPLD-built.
func TestSiblingLikes(t *testing.T) {
	ctx := &h.Ctx{P: P, T: t}
	n := 0
	for _, text := range []string{"abcd", "file.name", "aaaa", `a\*b`} {
		type cut struct{ field, pat string }
		var cuts []cut
		for i := 1; i < len(text); i++ {
			f, p := text[:i], text[i:]+"*"
			if strings.ContainsAny(f, `\*.`) || strings.HasSuffix(text[:i], `\`) {
				continue
			}
			if _, valid := pol.Glob(p, ""); !valid {
				continue
			}
			cuts = append(cuts, cut{f, p})
		}
		cuts = append(cuts, cut{"zz", "*"}, cut{"zz", text + "*"})
		for i := range cuts {
			for j := range cuts {
				if i == j || cuts[i].field == cuts[j].field {
					continue
				}
				for mask := 0; mask < 4; mask++ {
					a, b := cuts[i], cuts[j]
					sa, sb := instanceOf(a.pat, mask&1 == 0), instanceOf(b.pat, mask&2 == 0)
					wa, _ := pol.Glob(a.pat, sa)
					wb, _ := pol.Glob(b.pat, sb)
					data := val.Map(val.E(a.field, val.Str(sa)), val.E(b.field, val.Str(sb)))
					p := pol.Policy{{Op: "like", Sel: sel.Sel{{Kind: "field", Name: a.field}}, Pat: a.pat}, {Op: "like", Sel: sel.Sel{{Kind: "field", Name: b.field}}, Pat: b.pat}}
					for _, viaIPLD := range []bool{false, true} {
						built, err := p.Build(viaIPLD)
						if err != nil {
							continue
						}
						n++
						got, _ := built.Match(data.Node())
						if got != (wa && wb) {
							ctx.Fail("C13/siblings/wrong-result", "policy [like .%s %q, like .%s %q] on {%s: %q, %s: %q}: Match = %v; the first statement is %v and the second %v on their own fields", a.field, a.pat, b.field, b.pat, a.field, sa, b.field, sb, got, wa, wb)
							return
						}
					}
				}
			}
		}
	}
	P.EvalN(n)
	P.AddDistinct(n)
	P.SetExtra("sibling_like_policies", n)
}

// instanceOf: a member of the pattern's language (wildcards filled with "zz"), or a near miss.
func instanceOf(pat string, member bool) string {
	var b strings.Builder
	for i := 0; i < len(pat); i++ {
		switch {
		case pat[i] == '\\' && i+1 < len(pat):
			i++
			b.WriteByte(pat[i])
		case pat[i] == '*':
			b.WriteString("zz")
		default:
			b.WriteByte(pat[i])
		}
	}
	if member {
		return b.String()
	}
	return "#" + b.String()
}

// TestOneStatementManySubjects: ONE like statement (built once, through the constructor and through FromIPLD) evaluated
// against MANY subjects one after the other - every string over {a, b, X} up to length 6, longest first and shortest
// first, then the shuffled rest - for every pattern over {a, b, *} up to length 5 and a few with escapes. Every answer
// is the glob language's answer for that subject: what the statement has matched before (subjects that made a matcher
// back up, subjects that matched at once) does not change what it matches next.
func TestOneStatementManySubjects(t *testing.T) {
	ctx := &h.Ctx{P: P, T: t}
	var subjects []string
	var gen func(prefix string, n int)
	gen = func(prefix string, n int) {
		subjects = append(subjects, prefix)
		if n == 0 {
			return
		}
		for _, ch := range []string{"a", "b", "X"} {
			gen(prefix+ch, n-1)
		}
	}
	gen("", 6)
	nodes := map[string]ipld.Node{}
	for _, s := range subjects {
		nodes[s] = basicnode.NewString(s)
	}
	desc := append([]string{}, subjects...)
	sort.SliceStable(desc, func(i, j int) bool { return len(desc[i]) > len(desc[j]) })
	asc := append([]string{}, subjects...)
	sort.SliceStable(asc, func(i, j int) bool { return len(asc[i]) < len(asc[j]) })
	var pats []string
	var genp func(prefix string, n int)
	genp = func(prefix string, n int) {
		if strings.Contains(prefix, "*") {
			pats = append(pats, prefix)
		}
		if n == 0 {
			return
		}
		for _, ch := range []string{"a", "b", "*"} {
			genp(prefix+ch, n-1)
		}
	}
	genp("", 5)
	pats = append(pats, `a\**\*b`, `\**a`, `a*\\`, `ab*ba*ab`, `aXb*bXa`, `X*X`, `aa*aa*aa`)
	n := 0
	for pi, pat := range pats {
		if !h.Thorough() && pi%2 == 1 && len(pat) == 5 {
			continue // quick: half of the longest patterns
		}
		for _, viaIPLD := range []bool{false, true} {
			p, err := pol.Policy{{Op: "like", Sel: sel.Sel{{Kind: "id"}}, Pat: pat}}.Build(viaIPLD)
			if err != nil {
				continue
			}
			for oi, order := range [][]string{desc, asc} {
				for _, s := range order {
					want, _ := pol.Glob(pat, s)
					got, _ := p.Match(nodes[s])
					n++
					if got != want {
						ctx.Fail("C13/glob/history/one-statement-many-subjects", "like %q (one statement object, IPLD-built: %v) on %q, after it has been evaluated on other subjects (pass %d): got %v, the glob language says %v", pat, viaIPLD, s, oi, got, want)
						return
					}
				}
			}
		}
	}
	P.EvalN(n)
	P.AddDistinct(len(pats))
	P.SetExtra("one_statement_many_subjects_evaluations", n)
}

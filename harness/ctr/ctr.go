// Package ctr has the harness's own readers for the four container formats
// (entries as they are on the wire, no token decoding), used by C17 / C18.
package ctr

import (
	"bytes"
	"crypto/sha256"
	"encoding/base64"
	"encoding/binary"
	"errors"
	"fmt"
	"strings"

	"github.com/ipfs/go-cid"
	"github.com/ipld/go-ipld-prime"
	"github.com/ipld/go-ipld-prime/codec/dagcbor"
	mh "github.com/multiformats/go-multihash"
)

var Formats = []string{"car", "carb64", "cbor", "cborb64"}

// Section is one CAR block as found on the wire.
type Section struct {
	Cid    cid.Cid
	Data   []byte
	Start  int // offset of the section's length prefix
	End    int // offset just after the section
	DigestOK bool
}

// RefCID is CIDv1(dag-cbor, sha2-256) of data.
func RefCID(data []byte) cid.Cid {
	s := sha256.Sum256(data)
	m, _ := mh.Encode(s[:], mh.SHA2_256)
	return cid.NewCidV1(0x71, m)
}

// Unbase64 decodes standard base64 the way a lenient stream decoder would
// (new lines ignored).
func Unbase64(b []byte) ([]byte, error) {
	s := strings.NewReplacer("\r", "", "\n", "").Replace(string(b))
	return base64.StdEncoding.DecodeString(s)
}

// CarSections parses a CARv1 byte string: header section (content ignored),
// then sections. Boundaries lists the offsets at which a section ends
// (including the end of the header).
func CarSections(b []byte) (secs []Section, boundaries []int, err error) {
	off := 0
	l, n := binary.Uvarint(b)
	if n <= 0 {
		return nil, nil, errors.New("car: bad header length")
	}
	if l == 0 || uint64(len(b)-n) < l {
		return nil, nil, errors.New("car: truncated header")
	}
	off = n + int(l)
	boundaries = append(boundaries, off)
	for off < len(b) {
		l, n := binary.Uvarint(b[off:])
		if n <= 0 {
			return secs, boundaries, errors.New("car: bad section length")
		}
		if l == 0 {
			return secs, boundaries, errors.New("car: zero-length section")
		}
		if uint64(len(b)-off-n) < l {
			return secs, boundaries, errors.New("car: truncated section")
		}
		raw := b[off+n : off+n+int(l)]
		cl, c, cerr := cid.CidFromBytes(raw)
		if cerr != nil {
			return secs, boundaries, fmt.Errorf("car: bad cid: %w", cerr)
		}
		data := raw[cl:]
		s := Section{Cid: c, Data: append([]byte{}, data...), Start: off, End: off + n + int(l)}
		if sum, herr := c.Prefix().Sum(data); herr == nil && sum.Equals(c) {
			s.DigestOK = true
		}
		secs = append(secs, s)
		off = s.End
		boundaries = append(boundaries, off)
	}
	return secs, boundaries, nil
}

// CborEntries parses {"ctn-v1": [bytes, ...]}.
func CborEntries(b []byte) ([][]byte, error) {
	n, err := ipld.Decode(b, dagcbor.Decode)
	if err != nil {
		return nil, err
	}
	if n.Kind() != ipld.Kind_Map || n.Length() != 1 {
		return nil, errors.New("cbor container: not a single-entry map")
	}
	it := n.MapIterator()
	k, v, err := it.Next()
	if err != nil {
		return nil, err
	}
	if ks, _ := k.AsString(); ks != "ctn-v1" {
		return nil, errors.New("cbor container: wrong version key")
	}
	if v.Kind() != ipld.Kind_List {
		return nil, errors.New("cbor container: tokens not a list")
	}
	var out [][]byte
	li := v.ListIterator()
	for !li.Done() {
		_, e, err := li.Next()
		if err != nil {
			return nil, err
		}
		bs, err := e.AsBytes()
		if err != nil {
			return nil, err
		}
		out = append(out, bs)
	}
	return out, nil
}

// Entries returns the token byte strings of a container of the given format
// as they are on the wire; for CAR also whether every section's CID matches
// its data.
func Entries(format string, b []byte) (entries [][]byte, digestsOK bool, err error) {
	raw := b
	if format == "carb64" || format == "cborb64" {
		if raw, err = Unbase64(b); err != nil {
			return nil, false, err
		}
	}
	switch format {
	case "car", "carb64":
		secs, _, err := CarSections(raw)
		if err != nil {
			return nil, false, err
		}
		digestsOK = true
		for _, s := range secs {
			entries = append(entries, s.Data)
			if !s.DigestOK {
				digestsOK = false
			}
		}
		return entries, digestsOK, nil
	default:
		e, err := CborEntries(raw)
		return e, true, err
	}
}

var _ = bytes.Equal

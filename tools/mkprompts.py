#!/usr/bin/env python3
"""Build the prompts of a seeding round from the previous round's (text template), the archived seeds and a persona rotation.
usage: tools/mkprompts.py <round> <persona-shift> <prev-round>   -> /tmp/seed/prompts<round>/Cxx.txt, creates out dirs"""
import json, os, re, sys, glob
rnd, shift, prev = int(sys.argv[1]), int(sys.argv[2]), int(sys.argv[3])
ROOT = os.path.dirname(os.path.dirname(os.path.abspath(__file__)))
roles = []
for i in range(1, 6):
    t = open("/tmp/seed/prompts%d/C%02d.txt" % (prev, i)).read()
    roles.append(re.search(r"ROLE FOR THIS ROUND\n(.*)\n", t).group(1))
EXTRA = """
WHAT YOU ARE UP AGAINST
The verification effort you are evaluating is a property-based testing and fuzzing harness with reference models. It already generates: unusual sizes (every length / depth up to several hundred and around powers of two), arbitrary byte values, hostile CBOR/JSON, all key algorithms, long chains and policies, sequences of API calls on shared objects (stores, loaders, hooks, re-used option values and argument objects), real-time histories, concurrent use under the race detector, and read/write/entropy faults at every offset. Every change in the list below was eventually caught. So: do not rely on a single odd constant. Look for (a) an interaction between two features or packages that each are exercised alone, (b) state that survives between calls in a place nobody resets (package-level, per-object, per-goroutine), (c) a dependence on the ORDER or the COMBINATION of options / API variants, (d) a difference between two API variants that are documented to be equivalent, (e) configuration: key type x format x token type combinations. The best change is one where every single feature still works alone.
"""
os.makedirs("/tmp/seed/prompts%d" % rnd, exist_ok=True)
for i in range(1, 21):
    pid = "C%02d" % i
    t = open("/tmp/seed/prompts%d/%s.txt" % (prev, pid)).read()
    t = t.replace("_r%d" % prev, "_r%d" % rnd)
    t = re.sub(r"(ROLE FOR THIS ROUND\n).*\n", lambda m: m.group(1) + roles[(i + shift) % 5] + "\n", t)
    t = t.replace(EXTRA, "")
    lines = []
    for d in sorted(glob.glob(os.path.join(ROOT, "seeded", pid + "-*"))):
        m = json.load(open(os.path.join(d, "meta.json")))
        lines.append("  - %s (needed, to manifest: %s)" % (m["name"], m.get("needs", "?")))
    t = re.sub(r"(  - C\d\d-.*\n)+", "\n".join(lines) + "\n", t, count=1)
    t = t.replace("\nDELIVERABLES", EXTRA + "\nDELIVERABLES", 1)
    open("/tmp/seed/prompts%d/%s.txt" % (rnd, pid), "w").write(t)
    os.makedirs("/tmp/seed/out_%s_r%d" % (pid, rnd), exist_ok=True)
print("ok")

// Package val describes IPLD values as plain, JSON-serialisable data (G4),
// converts them to go-ipld-prime nodes and back, and provides the
// order-insensitive deep equality used by round-trip oracles.
package val

import (
	"encoding/json"
	"bytes"
	"fmt"
	"math"
	"sort"
	"strconv"

	"github.com/ipfs/go-cid"
	"github.com/ipld/go-ipld-prime"
	"github.com/ipld/go-ipld-prime/datamodel"
	"github.com/ipld/go-ipld-prime/fluent/qp"
	cidlink "github.com/ipld/go-ipld-prime/linking/cid"
	"github.com/ipld/go-ipld-prime/node/basicnode"
	mh "github.com/multiformats/go-multihash"
	"pgregory.net/rapid"
)

// V is one IPLD value. K is one of: null bool int uint float str strb bytes link list map.
type V struct {
	K string `json:"k"`
	B bool   `json:"b,omitempty"`
	I int64  `json:"i,omitempty"`
	U uint64 `json:"u,omitempty"` // K=uint: an integer above MaxInt64 (basicnode.NewUint)
	F string `json:"f,omitempty"` // float, formatted with strconv 'g' -1 (so NaN/Inf survive JSON)
	S string `json:"s,omitempty"`
	X []byte `json:"x,omitempty"` // bytes; for link: digest seed; for strb: raw string bytes
	L []V    `json:"l,omitempty"`
	M []KV   `json:"m,omitempty"`
}

type KV struct {
	K string `json:"k"`
	V V      `json:"v"`
}

func Null() V             { return V{K: "null"} }
func Bool(b bool) V       { return V{K: "bool", B: b} }
func Int(i int64) V       { return V{K: "int", I: i} }
func Uint(u uint64) V     { return V{K: "uint", U: u} }
func Float(f float64) V   { return V{K: "float", F: strconv.FormatFloat(f, 'g', -1, 64)} }
func Str(s string) V      { return V{K: "str", S: s} }
func Bytes(b []byte) V    { return V{K: "bytes", X: b} }
func Link(seed []byte) V  { return V{K: "link", X: seed} }
func List(l ...V) V       { return V{K: "list", L: l} }
func Map(m ...KV) V       { return V{K: "map", M: m} }
func E(k string, v V) KV  { return KV{k, v} }

func (v V) Float64() float64 {
	f, _ := strconv.ParseFloat(v.F, 64)
	return f
}

// CidOf makes a CID out of a seed. One-byte seeds give CIDv1 (dag-cbor, sha2-256), the shape of a token CID;
// for longer seeds the last byte selects the shape: any valid CID may be a proof, a cause or a link inside
// arguments and metadata (raw / dag-json / dag-pb codecs, CIDv0, sha2-512, identity multihash).
func CidOf(seed []byte) cid.Cid {
	data := append([]byte("verif-link/"), seed...)
	h, _ := mh.Sum(data, mh.SHA2_256, -1)
	if len(seed) < 2 {
		return cid.NewCidV1(0x71, h)
	}
	switch seed[len(seed)-1] % 10 {
	case 4:
		return cid.NewCidV1(cid.Raw, h)
	case 5:
		return cid.NewCidV0(h)
	case 6:
		h512, _ := mh.Sum(data, mh.SHA2_512, -1)
		return cid.NewCidV1(0x71, h512)
	case 7:
		id, _ := mh.Sum(seed, mh.IDENTITY, -1)
		return cid.NewCidV1(cid.DagJSON, id)
	case 8:
		return cid.NewCidV1(cid.DagProtobuf, h)
	}
	return cid.NewCidV1(0x71, h)
}

// Cid returns the CID of a link value: parsed from S when set (values
// obtained through FromNode), derived from the seed X otherwise.
func (v V) Cid() cid.Cid {
	if v.S != "" {
		if c, err := cid.Decode(v.S); err == nil {
			return c
		}
	}
	return CidOf(v.X)
}

// Node builds the go-ipld-prime node. Map entries are inserted in the order given.
func (v V) Node() ipld.Node {
	n, err := qp.BuildMap(basicnode.Prototype.Any, 1, func(ma datamodel.MapAssembler) {
		qp.MapEntry(ma, "x", v.assemble())
	})
	if err != nil {
		panic(fmt.Sprintf("val.Node: %v (%+v)", err, v))
	}
	r, _ := n.LookupByString("x")
	return r
}

// NodeNilBytes is Node, except that every EMPTY byte string is a bytes node without a backing array (what
// basicnode.NewBytes(nil), literal.Any([]byte(nil)) or an unset []byte field of a bound Go struct give): the same
// value in the data model, another representation in memory.
func (v V) NodeNilBytes() ipld.Node {
	n, err := qp.BuildMap(basicnode.Prototype.Any, 1, func(ma datamodel.MapAssembler) {
		qp.MapEntry(ma, "x", v.assembleOpt(true))
	})
	if err != nil {
		panic(fmt.Sprintf("val.Node: %v (%+v)", err, v))
	}
	r, _ := n.LookupByString("x")
	return r
}

func (v V) assemble() qp.Assemble { return v.assembleOpt(false) }

func (v V) assembleOpt(nilEmpty bool) qp.Assemble {
	switch v.K {
	case "null":
		return qp.Null()
	case "bool":
		return qp.Bool(v.B)
	case "int":
		return qp.Int(v.I)
	case "uint":
		return qp.Node(basicnode.NewUint(v.U))
	case "float":
		return qp.Float(v.Float64())
	case "str":
		return qp.String(v.S)
	case "strb":
		return qp.String(string(v.X))
	case "bytes":
		b := v.X
		if len(b) == 0 {
			if nilEmpty {
				return qp.Node(basicnode.NewBytes(nil))
			}
			b = []byte{}
		}
		return qp.Bytes(b)
	case "link":
		return qp.Link(cidlink.Link{Cid: v.Cid()})
	case "list":
		return qp.List(int64(len(v.L)), func(la datamodel.ListAssembler) {
			for _, e := range v.L {
				qp.ListEntry(la, e.assembleOpt(nilEmpty))
			}
		})
	case "map":
		return qp.Map(int64(len(v.M)), func(ma datamodel.MapAssembler) {
			for _, e := range v.M {
				qp.MapEntry(ma, e.K, e.V.assembleOpt(nilEmpty))
			}
		})
	}
	panic("val: unknown kind " + v.K)
}

// Kind returns the IPLD kind name of v.
func (v V) Kind() string {
	switch v.K {
	case "uint":
		return "int"
	case "strb":
		return "str"
	}
	return v.K
}

func (v V) StrVal() string {
	if v.K == "strb" {
		return string(v.X)
	}
	return v.S
}

// Get returns the value of key k of a map value.
func (v V) Get(k string) (V, bool) {
	for _, e := range v.M {
		if e.K == k {
			return e.V, true
		}
	}
	return V{}, false
}

// HasDupKeys reports duplicate keys in any nested map.
func (v V) HasDupKeys() bool {
	switch v.K {
	case "list":
		for _, e := range v.L {
			if e.HasDupKeys() {
				return true
			}
		}
	case "map":
		seen := map[string]bool{}
		for _, e := range v.M {
			if seen[e.K] || e.V.HasDupKeys() {
				return true
			}
			seen[e.K] = true
		}
	}
	return false
}

// FromNode converts a node back into a V.
func FromNode(n ipld.Node) V {
	switch n.Kind() {
	case ipld.Kind_Null:
		return Null()
	case ipld.Kind_Bool:
		b, _ := n.AsBool()
		return Bool(b)
	case ipld.Kind_Int:
		if u, ok := n.(datamodel.UintNode); ok {
			x, err := u.AsUint()
			if err == nil && x > math.MaxInt64 {
				return Uint(x)
			}
		}
		i, err := n.AsInt()
		if err != nil {
			return V{K: "uint", U: math.MaxUint64}
		}
		return Int(i)
	case ipld.Kind_Float:
		f, _ := n.AsFloat()
		return Float(f)
	case ipld.Kind_String:
		s, _ := n.AsString()
		return Str(s)
	case ipld.Kind_Bytes:
		b, _ := n.AsBytes()
		return Bytes(append([]byte{}, b...))
	case ipld.Kind_Link:
		l, _ := n.AsLink()
		return V{K: "link", S: l.String()}
	case ipld.Kind_List:
		out := V{K: "list"}
		it := n.ListIterator()
		for !it.Done() {
			_, e, err := it.Next()
			if err != nil {
				break
			}
			out.L = append(out.L, FromNode(e))
		}
		return out
	case ipld.Kind_Map:
		out := V{K: "map"}
		it := n.MapIterator()
		for !it.Done() {
			k, e, err := it.Next()
			if err != nil {
				break
			}
			ks, _ := k.AsString()
			out.M = append(out.M, KV{ks, FromNode(e)})
		}
		return out
	}
	return V{K: "invalid"}
}

// EqualNodes is IPLD deep equality with maps compared as entry sets
// (go-ipld-prime's DeepEqual is order-sensitive on maps, DAG-CBOR re-sorts keys).
// Floats are compared bit-wise except that NaN equals NaN.
func EqualNodes(a, b ipld.Node) bool {
	if a == nil || b == nil {
		return a == nil && b == nil
	}
	if a.Kind() != b.Kind() {
		return false
	}
	switch a.Kind() {
	case ipld.Kind_Null:
		return true
	case ipld.Kind_Bool:
		x, _ := a.AsBool()
		y, _ := b.AsBool()
		return x == y
	case ipld.Kind_Int:
		x, e1 := a.AsInt()
		y, e2 := b.AsInt()
		if e1 != nil || e2 != nil {
			ua, ok1 := a.(datamodel.UintNode)
			ub, ok2 := b.(datamodel.UintNode)
			if !ok1 || !ok2 {
				return false
			}
			p, _ := ua.AsUint()
			q, _ := ub.AsUint()
			return p == q && (e1 != nil) == (e2 != nil)
		}
		return x == y
	case ipld.Kind_Float:
		x, _ := a.AsFloat()
		y, _ := b.AsFloat()
		if math.IsNaN(x) || math.IsNaN(y) {
			return math.IsNaN(x) && math.IsNaN(y)
		}
		return x == y
	case ipld.Kind_String:
		x, _ := a.AsString()
		y, _ := b.AsString()
		return x == y
	case ipld.Kind_Bytes:
		x, _ := a.AsBytes()
		y, _ := b.AsBytes()
		return bytes.Equal(x, y)
	case ipld.Kind_Link:
		x, _ := a.AsLink()
		y, _ := b.AsLink()
		return x.String() == y.String()
	case ipld.Kind_List:
		if a.Length() != b.Length() {
			return false
		}
		for i := int64(0); i < a.Length(); i++ {
			x, _ := a.LookupByIndex(i)
			y, _ := b.LookupByIndex(i)
			if !EqualNodes(x, y) {
				return false
			}
		}
		return true
	case ipld.Kind_Map:
		if a.Length() != b.Length() {
			return false
		}
		it := a.MapIterator()
		for !it.Done() {
			k, x, err := it.Next()
			if err != nil {
				return false
			}
			ks, _ := k.AsString()
			y, err := b.LookupByString(ks)
			if err != nil || !EqualNodes(x, y) {
				return false
			}
		}
		return true
	}
	return false
}

// SameMapOrder reports whether all maps reachable in a and b (assumed
// EqualNodes) list their keys in the same order.
func SameMapOrder(a, b ipld.Node) bool {
	if a == nil || b == nil || a.Kind() != b.Kind() {
		return true
	}
	switch a.Kind() {
	case ipld.Kind_List:
		for i := int64(0); i < a.Length() && i < b.Length(); i++ {
			x, _ := a.LookupByIndex(i)
			y, _ := b.LookupByIndex(i)
			if !SameMapOrder(x, y) {
				return false
			}
		}
	case ipld.Kind_Map:
		ia, ib := a.MapIterator(), b.MapIterator()
		for !ia.Done() && !ib.Done() {
			ka, va, e1 := ia.Next()
			kb, vb, e2 := ib.Next()
			if e1 != nil || e2 != nil {
				return true
			}
			sa, _ := ka.AsString()
			sb, _ := kb.AsString()
			if sa != sb || !SameMapOrder(va, vb) {
				return false
			}
		}
	}
	return true
}

// Walk calls f on v and every nested value.
func (v V) Walk(f func(V)) {
	f(v)
	for _, e := range v.L {
		e.Walk(f)
	}
	for _, e := range v.M {
		e.V.Walk(f)
	}
}

// Shape is a short structural description used for distinctness keys.
func (v V) Shape() string {
	switch v.K {
	case "list":
		s := "["
		for i, e := range v.L {
			if i > 0 {
				s += ","
			}
			s += e.Shape()
		}
		return s + "]"
	case "map":
		ks := make([]string, 0, len(v.M))
		for _, e := range v.M {
			ks = append(ks, e.K+":"+e.V.Shape())
		}
		sort.Strings(ks)
		s := "{"
		for i, k := range ks {
			if i > 0 {
				s += ","
			}
			s += k
		}
		return s + "}"
	}
	return v.K[:1]
}

// ---------- generators ----------

// Cfg controls Gen.
type Cfg struct {
	Depth    int      // max nesting
	MaxLen   int      // max entries per collection
	Keys     []string // map key alphabet
	Hostile  bool     // uint64 > MaxInt64, ints beyond 2^53, NaN/Inf
	NoFloat  bool
	NoLink   bool
	SafeInts bool // ints within +/-(2^53-1) only
	NonFinite bool
	Scalars  bool // scalars only
	Big      bool // occasionally a string / bytes value at a CBOR length boundary (255, 256, 4095, 4096, 65535, 65536, 70000 bytes)
}

var DefaultKeys = []string{"a", "b", "c", "aa", "x", "foo", "é", "", "with space", "A", "key-1", "d.e"}

var IntBoundaries = []int64{0, 1, -1, 2, 255, 256, -256, 1 << 31, -(1 << 31), (1 << 53) - 1, -((1 << 53) - 1)}
var IntHostile = []int64{1 << 53, -(1 << 53), (1 << 53) + 1, math.MaxInt64, math.MinInt64, math.MaxInt64 - 1}

func GenInt(t *rapid.T, cfg Cfg) V {
	switch rapid.IntRange(0, 5).Draw(t, "intmode") {
	case 0, 1:
		return Int(int64(rapid.IntRange(-5, 12).Draw(t, "smallint")))
	case 2:
		return Int(rapid.SampledFrom(IntBoundaries).Draw(t, "intb"))
	case 3:
		if cfg.Hostile && !cfg.SafeInts {
			if rapid.Bool().Draw(t, "u") {
				return Uint(rapid.Uint64Range(math.MaxInt64+1, math.MaxUint64).Draw(t, "uint"))
			}
			return Int(rapid.SampledFrom(IntHostile).Draw(t, "inth"))
		}
		fallthrough
	default:
		return Int(rapid.Int64Range(-((1 << 53) - 1), (1<<53)-1).Draw(t, "int"))
	}
}

func GenFloat(t *rapid.T, cfg Cfg) V {
	switch rapid.IntRange(0, 5).Draw(t, "fmode") {
	case 0:
		return Float(rapid.SampledFrom([]float64{0.5, 1.5, -2.25, 3.14159, 1e-7, 1e21, 5e-324, math.MaxFloat64}).Draw(t, "fconst"))
	case 1:
		return Float(float64(rapid.IntRange(-3, 9).Draw(t, "fint"))) // integral-valued
	case 2:
		if cfg.NonFinite {
			return Float(rapid.SampledFrom([]float64{math.NaN(), math.Inf(1), math.Inf(-1)}).Draw(t, "fnf"))
		}
		fallthrough
	case 3:
		return Float(float64(rapid.IntRange(-20, 20).Draw(t, "fh")) + 0.5)
	default:
		f := rapid.Float64().Draw(t, "f")
		if math.IsNaN(f) || math.IsInf(f, 0) {
			f = 0.25
		}
		return Float(f)
	}
}

// (the second line: characters that text encoders are known to treat specially - HTML-sensitive ones that
// encoding/json escapes, line separators U+2028/2029, control characters, DEL, BOM, leading / trailing blanks,
// quotes, a lone combining mark, the replacement character itself)
var strPool = []string{"", "a", "b", "abc", "foo", "foobar", "héllo", "日本語", "Alice", "bob@example.com", "x y", "0", "null", "a*b", `back\slash`, "🙂",
	"<a href=\"x\">&amp;</a>", "a\u2028b\u2029c", "tab\there", "nul\x00byte", "\x01\x1f\x7f", "\ufeffbom", " lead", "trail ", "quo\"te'", "\u0301", "\ufffd", "line\nbreak\r\n", "{\"/\":\"x\"}", "/", "~0~1",
	"the quick brown fox jumps over the lazy dög", "0123456789012345678901234567890123456789éé", "ééééééééééééééééééééééééééééééééé ascii tail after thirty-three runes"}

func GenStr(t *rapid.T) V {
	if rapid.IntRange(0, 3).Draw(t, "smode") == 0 {
		return Str(rapid.StringN(0, 12, -1).Draw(t, "s"))
	}
	return Str(rapid.SampledFrom(strPool).Draw(t, "spool"))
}

var BigSizes = []int{255, 256, 4095, 4096, 4097, 65535, 65536, 70000}

func GenScalar(t *rapid.T, cfg Cfg) V {
	if cfg.Big && rapid.IntRange(0, 24).Draw(t, "big") == 0 {
		n := rapid.SampledFrom(BigSizes).Draw(t, "bigsize")
		seed := rapid.Byte().Draw(t, "bigseed")
		if rapid.Bool().Draw(t, "bigstr") {
			b := make([]byte, n)
			for i := range b {
				b[i] = 'a' + byte((i+int(seed))%26)
			}
			return Str(string(b))
		}
		b := make([]byte, n)
		for i := range b {
			b[i] = byte(i*31) ^ seed
		}
		return Bytes(b)
	}
	hi := 7
	switch rapid.IntRange(0, hi).Draw(t, "kind") {
	case 0:
		return Null()
	case 1:
		return Bool(rapid.Bool().Draw(t, "b"))
	case 2, 3:
		return GenInt(t, cfg)
	case 4:
		if cfg.NoFloat {
			return GenInt(t, cfg)
		}
		return GenFloat(t, cfg)
	case 5:
		return GenStr(t)
	case 6:
		return Bytes(rapid.SliceOfN(rapid.Byte(), 0, 8).Draw(t, "bytes"))
	default:
		if cfg.NoLink {
			return GenStr(t)
		}
		return Link(rapid.SliceOfN(rapid.Byte(), 1, 2).Draw(t, "link"))
	}
}

// Gen draws a value of bounded depth.
func Gen(t *rapid.T, cfg Cfg) V {
	if cfg.Keys == nil {
		cfg.Keys = DefaultKeys
	}
	if cfg.MaxLen == 0 {
		cfg.MaxLen = 4
	}
	return gen(t, cfg, cfg.Depth)
}

// BigCounts are collection sizes on either side of the CBOR head boundaries (23|24, 255|256).
var BigCounts = []int{23, 24, 25, 255, 256, 257}

func gen(t *rapid.T, cfg Cfg, depth int) V {
	if cfg.Big && depth == cfg.Depth && depth > 0 && rapid.IntRange(0, 39).Draw(t, "bigcoll") == 0 {
		// a long list, a map with many entries, or a deep chain of single-element collections
		n := rapid.SampledFrom(BigCounts).Draw(t, "bigcount")
		switch rapid.IntRange(0, 2).Draw(t, "bigshape") {
		case 0:
			out := V{K: "list"}
			for i := 0; i < n; i++ {
				out.L = append(out.L, Int(int64(i%7)))
			}
			return out
		case 1:
			out := V{K: "map"}
			for i := 0; i < n; i++ {
				out.M = append(out.M, KV{K: fmt.Sprintf("k%03d", (i*37)%1000), V: Int(int64(i))})
			}
			if out.HasDupKeys() {
				return Int(0)
			}
			return out
		default:
			d := rapid.SampledFrom([]int{8, 16, 33, 64, 100}).Draw(t, "bigdepth")
			v := Str("deep")
			for i := 0; i < d; i++ {
				if i%2 == 0 {
					v = List(v)
				} else {
					v = Map(E("d", v))
				}
			}
			return v
		}
	}
	if depth <= 0 || cfg.Scalars || rapid.IntRange(0, 9).Draw(t, "leaf") < 5 {
		return GenScalar(t, cfg)
	}
	if rapid.Bool().Draw(t, "islist") {
		n := rapid.IntRange(0, cfg.MaxLen).Draw(t, "llen")
		out := V{K: "list"}
		for i := 0; i < n; i++ {
			out.L = append(out.L, gen(t, cfg, depth-1))
		}
		return out
	}
	return GenMap(t, cfg, depth)
}

// GenMap draws a map value (distinct keys, drawn insertion order).
func GenMap(t *rapid.T, cfg Cfg, depth int) V {
	if cfg.Keys == nil {
		cfg.Keys = DefaultKeys
	}
	if cfg.MaxLen == 0 {
		cfg.MaxLen = 4
	}
	n := rapid.IntRange(0, cfg.MaxLen).Draw(t, "mlen")
	out := V{K: "map"}
	seen := map[string]bool{}
	for i := 0; i < n; i++ {
		k := rapid.SampledFrom(cfg.Keys).Draw(t, "key")
		if seen[k] {
			continue
		}
		seen[k] = true
		out.M = append(out.M, KV{k, gen(t, cfg, depth-1)})
	}
	return out
}

// String renders v as compact JSON (for failure messages).
func (v V) String() string {
	type alias V
	b, err := json.Marshal(alias(v))
	if err != nil {
		return fmt.Sprintf("%#v", alias(v))
	}
	return string(b)
}

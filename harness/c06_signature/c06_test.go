// C06 — a decoded token was signed by its issuer over exactly the decoded content.
package c06

import (
	"math"
	"github.com/ucan-wg/go-ucan/did"
	"strings"
	"github.com/ipld/go-ipld-prime/datamodel"
	"github.com/ipld/go-ipld-prime/node/basicnode"
	"github.com/ipld/go-ipld-prime/fluent/qp"
	"github.com/libp2p/go-libp2p/core/crypto"
	secp "github.com/decred/dcrd/dcrec/secp256k1/v4"
	"math/big"
	"encoding/asn1"
	"crypto/elliptic"
	"crypto/ecdsa"
	varint "github.com/multiformats/go-varint"
	mbase "github.com/multiformats/go-multibase"
	"sync"
	"bytes"
	"crypto/sha256"
	"fmt"
	"os"
	"testing"

	"github.com/ipfs/go-cid"
	"github.com/ipld/go-ipld-prime"
	"github.com/ipld/go-ipld-prime/codec/dagjson"
	"github.com/libp2p/go-libp2p/core/crypto/pb"
	"pgregory.net/rapid"

	"github.com/ucan-wg/go-ucan/pkg/container"
	"github.com/ucan-wg/go-ucan/token"
	"github.com/ucan-wg/go-ucan/token/delegation"
	"github.com/ucan-wg/go-ucan/token/invocation"

	"verif/harness/api"
	"verif/harness/cbor"
	"verif/harness/env"
	"verif/harness/h"
	_ "verif/harness/warm"
	"verif/harness/keys"
	"verif/harness/tok"
	"verif/harness/val"
)

var P = h.New("C06", "exploration",
	"case = honest sealed token ({delegation, invocation} x {Ed25519, secp256k1, P-256, P-384, P-521, RSA}, DAG-CBOR and DAG-JSON) + one corruption: byte-level (bit flip, delete, insert 00/ff/copy, substitute 00/ff/complement at a drawn offset; exhaustive over all bits of fixed tokens), field-level rewrites of the payload under the OLD signature (each field replaced by another valid value, removed, unknown field added), re-signing by another key of the same / another algorithm, signature borrowed from another token of the same issuer, header swapped / garbled / consistent with the signer but not with iss, signature truncated / emptied / extended. Every decoder entry point runs on every corrupted input. Oracle: an independent verifier in the harness (own did:key decoder, own header table) must accept whatever a decoder accepts, the returned token's accessors must equal the fields parsed from the input, and for old-signature corruptions equal the original token's. Non-trivial = corrupted input differs from the original and still parses as an envelope. Distinct by (token, corruption).")

func TestMain(m *testing.M) { os.Exit(P.Main(m)) }
func TestReplay(t *testing.T) { P.Replay(t) }

type Corruption struct {
	Kind  string `json:"kind"`
	Off   int    `json:"off,omitempty"`
	Bit   int    `json:"bit,omitempty"`
	Field string `json:"field,omitempty"`
	Alt   int    `json:"alt,omitempty"`
}

// Graft puts an exotic value (integers beyond 2^53 / int64, a CBOR uint64 above MaxInt64, non-UTF-8 strings,
// big or deep values ...) into the metadata or arguments of the honest token, which is then re-signed by its
// issuer BEFORE it is corrupted: the tokens the generator can build through the constructors never carry such
// values, but an attacker's token can, and every code path of verification that depends on the payload's
// content (re-encoding, length computation, integer checks) is only reached with them.
type Graft struct {
	Field string `json:"field"` // "meta" | "args"
	Key   string `json:"key"`
	V     val.V  `json:"v"`
}

type Case struct {
	Tok   tok.Tok    `json:"tok"`
	JSON  bool       `json:"json,omitempty"`
	Graft *Graft     `json:"graft,omitempty"`
	C     Corruption `json:"corruption"`
}

var byteKinds = []string{"bitflip", "delete", "insert-00", "insert-ff", "insert-copy", "subst-00", "subst-ff", "subst-not"}
var fieldKinds = []string{"rewrite", "remove", "add-unknown"}
var sigKinds = []string{"issuer-signs-out-of-range-time", "issuer-signs-out-of-range-time", "header-nonminimal-varint", "issuer-signs-principal-in-other-key-encoding", "issuer-signs-principal-in-other-key-encoding", "issuer-signs-principal-in-other-key-encoding", "issuer-signs-noncanonical-bytes", "issuer-signs-noncanonical-bytes", "resign-by-prefix-twin", "forger-signs-multi-payload-envelope", "forger-signs-multi-payload-envelope", "forger-key-in-did-url", "forger-key-in-did-url", "issuer-under-other-multicodec", "issuer-under-other-multicodec", "issuer-signs-other-payload-encoding", "issuer-signs-other-payload-encoding", "issuer-signs-header-insert", "issuer-signs-header-insert", "issuer-signs-header-delete", "issuer-signs-header-subst", "issuer-signs-header-dup-segment", "issuer-signs-foreign-header", "issuer-signs-garbled-header", "issuer-signs-empty-header", "issuer-signs-extended-header", "resign-other-same-alg", "resign-other-alg", "resign-signer-header", "borrow-signature", "header-other-alg", "header-garbled", "header-empty", "sig-truncate", "sig-empty", "sig-extend", "sig-zero", "ecdsa-forged-for-zero-digest", "ecdsa-forged-for-zero-digest", "ecdsa-trivial-values"}

var dlgFields = []string{"iss", "aud", "sub", "cmd", "pol", "nonce", "meta", "nbf", "exp"}
var invFields = []string{"iss", "aud", "sub", "cmd", "args", "prf", "nonce", "meta", "exp", "iat", "cause"}

func pubPoint(alg keys.Alg, pub crypto.PubKey) (elliptic.Curve, *big.Int, *big.Int, bool) {
	switch alg {
	case keys.P256, keys.P384, keys.P521:
		std, err := crypto.PubKeyToStdKey(pub)
		if err != nil {
			return nil, nil, nil, false
		}
		e, ok := std.(*ecdsa.PublicKey)
		if !ok {
			return nil, nil, nil, false
		}
		return e.Curve, e.X, e.Y, true
	case keys.Secp256k1:
		raw, _ := pub.Raw()
		pk, err := secp.ParsePubKey(raw)
		if err != nil {
			return nil, nil, nil, false
		}
		return secp.S256(), pk.X(), pk.Y(), true
	}
	return nil, nil, nil, false
}

func otherKey(k tok.KeyRef, sameAlg bool, alt int) tok.KeyRef {
	if sameAlg {
		n := 6
		if k.Alg == keys.RSA {
			n = keys.RSAFast
		}
		return tok.KeyRef{Alg: k.Alg, Idx: (k.Idx + 1 + alt%(n-1)) % n}
	}
	algs := []keys.Alg{}
	for _, a := range keys.AllAlgs {
		if a != k.Alg {
			algs = append(algs, a)
		}
	}
	return tok.KeyRef{Alg: algs[alt%len(algs)], Idx: 0}
}

func rewriteField(p val.V, tag string, field string, alt int) (val.V, bool) {
	out := val.V{K: "map", M: append([]val.KV{}, p.M...)}
	set := func(v val.V) {
		for i := range out.M {
			if out.M[i].K == field {
				out.M[i].V = v
				return
			}
		}
		out.M = append(out.M, val.KV{K: field, V: v})
	}
	cur, has := p.Get(field)
	other := keys.Principal(5 + alt%3).DID.String()
	switch field {
	case "iss", "aud", "sub":
		if has && cur.K == "str" && cur.S == other {
			other = keys.Principal(4).DID.String()
		}
		set(val.Str(other))
	case "cmd":
		set(val.Str([]string{"/", "/other", "/foo/bar/baz"}[alt%3] + "x"[:alt%2]))
		if c, _ := out.Get("cmd"); has && c.S == cur.S {
			set(val.Str("/changed"))
		}
	case "pol":
		extra := val.List(val.Str("=="), val.Str(".injected"), val.Int(int64(alt)))
		if has && cur.K == "list" {
			set(val.V{K: "list", L: append(append([]val.V{}, cur.L...), extra)})
		} else {
			set(val.List(extra))
		}
	case "args", "meta":
		if has && cur.K == "map" {
			set(val.V{K: "map", M: append(append([]val.KV{}, cur.M...), val.KV{K: "injected", V: val.Int(int64(alt))})})
		} else {
			set(val.Map(val.E("injected", val.Int(int64(alt)))))
		}
	case "prf":
		l := val.V{K: "link", X: []byte{byte(200 + alt%10)}}
		if has && cur.K == "list" {
			set(val.V{K: "list", L: append(append([]val.V{}, cur.L...), l)})
		} else {
			set(val.List(l))
		}
	case "nonce":
		n := bytes.Repeat([]byte{byte(alt + 1)}, 12)
		if has && bytes.Equal(cur.X, n) {
			n[0] ^= 0xff
		}
		set(val.Bytes(n))
	case "nbf", "exp", "iat":
		v := int64(4102444800 + alt)
		if has && cur.K == "int" {
			v = cur.I + 1 + int64(alt)
		}
		set(val.Int(v))
	case "cause":
		set(val.V{K: "link", X: []byte{byte(100 + alt%10)}})
	default:
		return p, false
	}
	return out, true
}

// corrupt builds the corrupted input; oldSig tells whether it carries the
// original signature (clause c applies).
// altKeyEncodingDID: a did:key string carrying the key of k under its own multicodec in another encoding of the
// same key material.
func altKeyEncodingDID(k tok.KeyRef, alt int) (string, bool) {
	key := k.Key()
	_, raw, derr := mbase.Decode(key.DID.String()[len("did:key:"):])
	if derr != nil {
		return "", false
	}
	_, n, verr := varint.FromUvarint(raw)
	if verr != nil {
		return "", false
	}
	code, canon := raw[:n], raw[n:]
	var kb []byte
	switch k.Alg {
	case keys.RSA:
		switch alt % 3 {
		case 0:
			kb, _ = key.Pub.Raw() // PKIX SubjectPublicKeyInfo
		case 1: // RSAPublicKey with a third element
			if len(canon) < 4 || canon[0] != 0x30 || canon[1] != 0x82 {
				return "", false
			}
			l := int(canon[2])<<8 | int(canon[3]) + 3
			kb = append(append([]byte{0x30, 0x82, byte(l >> 8), byte(l)}, canon[4:]...), 0x02, 0x01, 0x00)
		default: // RSAPublicKey followed by a byte
			kb = append(append([]byte{}, canon...), 0x00)
		}
	case keys.Ed25519:
		kb = append(append([]byte{}, canon...), 0x00)
	default:
		curve, x, y, ok := pubPoint(k.Alg, key.Pub)
		if !ok {
			return "", false
		}
		kb = elliptic.Marshal(curve, x, y)
		if alt%2 == 1 {
			kb[0] = 6 + byte(y.Bit(0))
		}
	}
	if len(kb) == 0 {
		return "", false
	}
	enc, err := mbase.Encode(mbase.Base58BTC, append(append([]byte{}, code...), kb...))
	if err != nil {
		return "", false
	}
	return "did:key:" + enc, true
}

func corrupt(cs Case, sealed []byte) (out []byte, oldSig bool, ok bool) {
	c := cs.C
	switch c.Kind {
	case "bitflip", "delete", "insert-00", "insert-ff", "insert-copy", "subst-00", "subst-ff", "subst-not":
		if len(sealed) == 0 {
			return nil, false, false
		}
		off := c.Off % len(sealed)
		b := append([]byte{}, sealed...)
		switch c.Kind {
		case "bitflip":
			b[off] ^= 1 << (c.Bit % 8)
		case "delete":
			b = append(b[:off], b[off+1:]...)
		case "insert-00":
			b = append(b[:off], append([]byte{0x00}, b[off:]...)...)
		case "insert-ff":
			b = append(b[:off], append([]byte{0xff}, b[off:]...)...)
		case "insert-copy":
			b = append(b[:off], append([]byte{sealed[off]}, b[off:]...)...)
		case "subst-00":
			b[off] = 0
		case "subst-ff":
			b[off] = 0xff
		case "subst-not":
			b[off] = ^b[off]
		}
		return b, true, true
	}
	if cs.JSON {
		return nil, false, false // structured corruptions are built on the CBOR form
	}
	e, err := env.Parse(sealed)
	if err != nil {
		return nil, false, false
	}
	payload := val.FromNode(e.Payload)
	iss := cs.Tok.Issuer()
	switch c.Kind {
	case "rewrite", "remove", "add-unknown":
		var np val.V
		switch c.Kind {
		case "rewrite":
			var ok bool
			if np, ok = rewriteField(payload, e.Tag, c.Field, c.Alt); !ok {
				return nil, false, false
			}
		case "remove":
			np = val.V{K: "map"}
			found := false
			for _, kv := range payload.M {
				if kv.K == c.Field {
					found = true
					continue
				}
				np.M = append(np.M, kv)
			}
			if !found {
				return nil, false, false
			}
		default:
			np = val.V{K: "map", M: append(append([]val.KV{}, payload.M...), val.KV{K: "zzz", V: val.Int(1)})}
		}
		b, err := env.Assemble(e.Sig, env.SigPayloadNode(e.Header, e.Tag, np.Node()))
		return b, true, err == nil
	case "issuer-signs-noncanonical-bytes":
		// the issuer's own key signs a NON-canonical serialization of the header+payload map (keys permuted,
		// a head written non-minimally, an indefinite length ...): the property ties the signature to the
		// CANONICAL encoding of what was decoded, so this signature does not cover it
		root, _, perr := cbor.Parse(sealed)
		if perr != nil || len(root.Items) != 2 {
			return nil, false, false
		}
		sp := root.Items[1]
		kinds := []string{"permute-keys", "nonminimal-1", "nonminimal-2", "indefinite", "permute-keys", "nonminimal-4"}
		kind := kinds[c.Alt%len(kinds)]
		var cands []int
		for j := 0; j < sp.Count(); j++ {
			if cbor.Applicable(sp.Nth(j), kind) {
				cands = append(cands, j)
			}
		}
		if len(cands) == 0 {
			return nil, false, false
		}
		cbor.Apply(sp.Nth(cands[(c.Alt/len(kinds))%len(cands)]), kind)
		raw := sp.Bytes()
		sig, serr := iss.Key().Priv.Sign(raw)
		if serr != nil {
			return nil, false, false
		}
		root.Items[0] = cbor.BytesItem(sig)
		return root.Bytes(), false, true
	case "issuer-signs-other-payload-encoding":
		// the issuer's own key signs ANOTHER encoding of the header+payload map (DAG-JSON), and the header says so
		// (its last segment, the payload encoding, names dag-json / json / ... where this library's tokens say
		// dag-cbor) or does not (header untouched). The property ties the signature to the canonical (DAG-CBOR)
		// encoding of what was decoded; DAG-JSON text is not even injective on the data model (bytes and links
		// print like maps, 2.0 like 2), so a signature over it does not pin the payload down.
		if len(e.Header) == 0 {
			return nil, false, false
		}
		codecs := [][]byte{{0xa9, 0x02}, {0x80, 0x04}, {0x71}, {0x70}, {0x55}, {0x51}} // dag-json, json, dag-cbor (unchanged), dag-pb, raw, cbor
		hdr := append(append([]byte{}, e.Header[:len(e.Header)-1]...), codecs[c.Alt%len(codecs)]...)
		sp := env.SigPayloadNode(hdr, e.Tag, e.Payload)
		raw, jerr := ipld.Encode(sp, dagjson.Encode)
		if jerr != nil {
			return nil, false, false
		}
		sig, serr := iss.Key().Priv.Sign(raw)
		if serr != nil {
			return nil, false, false
		}
		b, err := env.Assemble(sig, sp)
		return b, false, err == nil
	case "forger-signs-multi-payload-envelope":
		// an envelope whose signed map holds the header and SEVERAL ucan/ entries: a decoy payload naming the forger as
		// issuer (under another version tag, a near-tag, or the other token type's tag) next to the payload that names
		// the victim - all of it signed by the forger with its own header. There is one payload and it names the one
		// issuer whose key verifies the signature; anything else is not an envelope.
		forger := otherKey(iss, c.Alt%2 == 0, c.Alt).Key()
		decoy := val.V{K: "map"}
		for _, kv := range payload.M {
			if kv.K == "iss" {
				kv.V = val.Str(forger.DID.String())
			}
			decoy.M = append(decoy.M, kv)
		}
		base := e.Tag
		if i := strings.Index(base, "@"); i > 0 {
			base = base[:i]
		}
		decoyTags := []string{base + "@1.0.0", base + "@0.9.0", base + "@1.0.0-rc.0", "ucan/dlg@1.0.0", "ucan/inv@1.0.0", "ucan/a", e.Tag + ".1", "a", "zzz"}
		dt := decoyTags[(c.Alt/2)%len(decoyTags)]
		if dt == e.Tag {
			dt = dt + "x"
		}
		sp, berr := qp.BuildMap(basicnode.Prototype.Any, 3, func(ma datamodel.MapAssembler) {
			qp.MapEntry(ma, "h", qp.Bytes(env.HeaderFor(forger.Priv.Type())))
			qp.MapEntry(ma, dt, qp.Node(decoy.Node()))
			qp.MapEntry(ma, e.Tag, qp.Node(e.Payload))
		})
		if berr != nil {
			return nil, false, false
		}
		b, err := env.Seal(forger.Priv, sp)
		return b, false, err == nil
	case "issuer-signs-out-of-range-time":
		// a time field (nbf, exp, iat - whichever the token type has; c.Alt picks) holding an integer no int64 can hold
		// or no IEEE double can hold exactly, signed by the issuer: refused, or reported as signed - never a token whose
		// bound is another number than the one under the signature
		fields := []string{"exp", "nbf"}
		if e.Tag == env.InvTag {
			fields = []string{"exp", "iat"}
		}
		field := fields[c.Alt%2]
		vals := []val.V{val.Uint(^uint64(0)), val.Uint(1 << 63), val.Uint(1<<63 + 1), val.Int(math.MaxInt64), val.Int(math.MinInt64), val.Int(1<<53 + 1), val.Int(-(1<<53 + 1)), val.Uint(^uint64(0) - 1)}
		np := val.V{K: "map"}
		found := false
		for _, kv := range payload.M {
			if kv.K == field {
				kv.V = vals[(c.Alt/2)%len(vals)]
				found = true
			}
			np.M = append(np.M, kv)
		}
		if !found {
			np.M = append(np.M, val.KV{K: field, V: vals[(c.Alt/2)%len(vals)]})
		}
		b, err := env.SignPayload(iss.Key().Priv, e.Tag, np.Node())
		return b, false, err == nil
	case "header-nonminimal-varint":
		// the header's varints re-spelled with one byte more than needed, under the OLD signature
		var out []byte
		seg, k := 0, c.Alt%5
		done := false
		for pos := 0; pos < len(e.Header); {
			end := pos
			for end < len(e.Header) && e.Header[end]&0x80 != 0 {
				end++
			}
			if end >= len(e.Header) {
				return nil, false, false
			}
			v := append([]byte{}, e.Header[pos:end+1]...)
			if seg == k {
				v[len(v)-1] |= 0x80
				v = append(v, 0x00)
				done = true
			}
			out = append(out, v...)
			pos = end + 1
			seg++
		}
		if !done {
			return nil, false, false
		}
		b, err := env.Assemble(e.Sig, env.SigPayloadNode(out, e.Tag, e.Payload))
		return b, true, err == nil
	case "issuer-signs-principal-in-other-key-encoding":
		// iss, aud or sub (c.Alt picks) is written as a did:key whose key bytes are ANOTHER encoding of a key - the
		// SubjectPublicKeyInfo of an RSA key instead of its RSAPublicKey, the RSAPublicKey with a trailing element,
		// the uncompressed or hybrid form of a curve point - and the issuer signs that payload with its own key. A
		// decoder may refuse the identifier; if it returns a token, the principals it reports are the strings that
		// were signed, not a normalised rendering of them.
		field := []string{"iss", "aud", "sub", "iss"}[c.Alt%4]
		who := iss
		if field != "iss" {
			who = otherKey(iss, (c.Alt/4)%2 == 0, c.Alt/4)
		}
		alt, aok := altKeyEncodingDID(who, c.Alt/8)
		if !aok {
			return nil, false, false
		}
		np := val.V{K: "map"}
		found := false
		for _, kv := range payload.M {
			if kv.K == field {
				kv.V = val.Str(alt)
				found = true
			}
			np.M = append(np.M, kv)
		}
		if !found {
			np.M = append(np.M, val.KV{K: field, V: val.Str(alt)})
		}
		b, err := env.SignPayload(iss.Key().Priv, e.Tag, np.Node())
		return b, false, err == nil
	case "forger-key-in-did-url":
		// iss names the victim's did:key FOLLOWED by DID-URL parts that carry the forger's key (fragment, query, path,
		// parameter - as DID URLs and verification-method ids are written); the forger signs with its own key and header.
		// Whatever a lenient reader makes of the extra parts, the issuer is the victim and the victim did not sign.
		forger := otherKey(iss, c.Alt%2 == 0, c.Alt).Key()
		fmb := forger.DID.String()[len("did:key:"):]
		victim := iss.Key().DID.String()
		forms := []string{victim + "#" + fmb, victim + "?key=" + fmb + "#" + fmb, victim + "/" + fmb + "#" + fmb, victim + ";" + fmb, victim + "#" + forger.DID.String(), victim + " " + forger.DID.String(), victim + "," + forger.DID.String(), victim + "\x00" + fmb}
		np := val.V{K: "map"}
		for _, kv := range payload.M {
			if kv.K == "iss" {
				kv.V = val.Str(forms[(c.Alt/2)%len(forms)])
			}
			np.M = append(np.M, kv)
		}
		b, err := env.Seal(forger.Priv, env.SigPayloadNode(env.HeaderFor(forger.Priv.Type()), e.Tag, np.Node()))
		return b, false, err == nil
	case "issuer-under-other-multicodec":
		// the signer's own key bytes, announced in the iss field under ANOTHER multicodec (a key-agreement or
		// another signature algorithm's code, supported by the library or not), signed by the signer with its
		// own header: the key "contained in the issuer DID" is then a key of that other algorithm (or none at
		// all), and this signature does not verify under it
		_, raw, derr := mbase.Decode(iss.Key().DID.String()[len("did:key:"):])
		if derr != nil {
			return nil, false, false
		}
		code, n, verr := varint.FromUvarint(raw)
		if verr != nil {
			return nil, false, false
		}
		codes := []uint64{0xec, 0xed, 0xe7, 0x1200, 0x1201, 0x1202, 0x1205, 0xeb, 0xea, 0x1300, 0x1203, 0x00, 0x55, 0x71}
		nc := codes[c.Alt%len(codes)]
		if nc == code {
			nc = codes[(c.Alt+1)%len(codes)]
		}
		enc, eerr := mbase.Encode(mbase.Base58BTC, append(varint.ToUvarint(nc), raw[n:]...))
		if eerr != nil {
			return nil, false, false
		}
		np := val.V{K: "map"}
		for _, kv := range payload.M {
			if kv.K == "iss" {
				kv.V = val.Str("did:key:" + enc)
			}
			np.M = append(np.M, kv)
		}
		b, err := env.Seal(iss.Key().Priv, env.SigPayloadNode(e.Header, e.Tag, np.Node()))
		return b, false, err == nil
	case "resign-by-prefix-twin":
		// the issuer field names RSA key 0, the signature is made by its prefix twin (keys.RSATwinIdx), after an
		// honest token of the twin has been decoded in this process
		victim, twin := keys.Get(keys.RSA, 0), keys.Get(keys.RSA, keys.RSATwinIdx)
		setIss := func(d string) val.V {
			np := val.V{K: "map"}
			for _, kv := range payload.M {
				if kv.K == "iss" {
					kv.V = val.Str(d)
				}
				np.M = append(np.M, kv)
			}
			return np
		}
		if hb, err := env.Seal(twin.Priv, env.SigPayloadNode(env.HeaderFor(twin.Priv.Type()), e.Tag, setIss(twin.DID.String()).Node())); err == nil {
			_, _, _ = token.FromSealed(hb)
		}
		b, err := env.Seal(twin.Priv, env.SigPayloadNode(env.HeaderFor(twin.Priv.Type()), e.Tag, setIss(victim.DID.String()).Node()))
		return b, false, err == nil
	case "resign-other-same-alg", "resign-other-alg":
		k := otherKey(iss, c.Kind == "resign-other-same-alg", c.Alt).Key()
		b, err := env.Seal(k.Priv, e.SigPayload) // header still announces the issuer's type
		return b, false, err == nil
	case "issuer-signs-foreign-header", "issuer-signs-garbled-header", "issuer-signs-empty-header", "issuer-signs-extended-header", "issuer-signs-header-insert", "issuer-signs-header-delete", "issuer-signs-header-subst", "issuer-signs-header-dup-segment":
		// a VALID signature by the issuer's own key over a sigPayload whose header
		// does not announce the issuer's signature scheme
		var hdr []byte
		switch c.Kind {
		case "issuer-signs-foreign-header":
			types := []pb.KeyType{pb.KeyType_Ed25519, pb.KeyType_Secp256k1, pb.KeyType_ECDSA, pb.KeyType_RSA}
			for i := 0; i < 4; i++ {
				hdr = env.HeaderFor(types[(c.Alt+i)%4])
				if !bytes.Equal(hdr, e.Header) {
					break
				}
			}
		case "issuer-signs-garbled-header":
			hdr = append([]byte{}, e.Header...)
			hdr[c.Alt%len(hdr)] ^= 1 << (c.Alt % 7)
		case "issuer-signs-extended-header":
			hdr = append(append([]byte{}, e.Header...), byte(c.Alt))
		case "issuer-signs-header-insert":
			// one or two bytes (a small varint parameter, a multi-byte varint, a known multicodec) inserted at any position
			ins := [][]byte{{0x13}, {0x12}, {0x00}, {0x71}, {0x80, 0x01}, {0xed, 0x01}, {0x12, 0x16}, {0xff, 0x7f}}[c.Alt%8]
			pos := (c.Alt / 8) % (len(e.Header) + 1)
			hdr = append(append(append([]byte{}, e.Header[:pos]...), ins...), e.Header[pos:]...)
		case "issuer-signs-header-delete":
			pos := c.Alt % len(e.Header)
			hdr = append(append([]byte{}, e.Header[:pos]...), e.Header[pos+1:]...)
		case "issuer-signs-header-subst":
			hdr = append([]byte{}, e.Header...)
			hdr[c.Alt%len(hdr)] = []byte{0x00, 0x12, 0x13, 0x34, 0x71, 0x55, 0x80, 0xed, 0xe7, 0xec, 0x85, 0x01}[(c.Alt/len(hdr))%12]
		case "issuer-signs-header-dup-segment":
			pos := c.Alt % len(e.Header)
			hdr = append(append(append([]byte{}, e.Header[:pos+1]...), e.Header[pos]), e.Header[pos+1:]...)
		default:
			hdr = []byte{}
		}
		b, err := env.Seal(iss.Key().Priv, env.SigPayloadNode(hdr, e.Tag, e.Payload))
		return b, false, err == nil
	case "resign-signer-header":
		k := otherKey(iss, false, c.Alt).Key()
		b, err := env.Seal(k.Priv, env.SigPayloadNode(env.HeaderFor(k.Priv.Type()), e.Tag, e.Payload))
		return b, false, err == nil
	case "borrow-signature":
		// signature of another token of the same issuer
		var other tok.Tok
		if cs.Tok.Dlg != nil {
			d := *cs.Tok.Dlg
			d.Cmd = "/borrowed"
			d.Nonce = bytes.Repeat([]byte{0x42}, 12)
			other.Dlg = &d
		} else {
			d := *cs.Tok.Inv
			d.Cmd = "/borrowed"
			d.Nonce = bytes.Repeat([]byte{0x42}, 12)
			other.Inv = &d
		}
		tk, priv, err := tok.Build(other)
		if err != nil {
			return nil, false, false
		}
		s2, _, err := tk.ToSealed(priv)
		if err != nil {
			return nil, false, false
		}
		e2, err := env.Parse(s2)
		if err != nil {
			return nil, false, false
		}
		b, err := env.Assemble(e2.Sig, e.SigPayload)
		return b, false, err == nil
	case "header-other-alg", "header-garbled", "header-empty":
		var hdr []byte
		switch c.Kind {
		case "header-other-alg":
			types := []pb.KeyType{pb.KeyType_Ed25519, pb.KeyType_Secp256k1, pb.KeyType_ECDSA, pb.KeyType_RSA}
			for i := 0; i < 4; i++ {
				hdr = env.HeaderFor(types[(c.Alt+i)%4])
				if !bytes.Equal(hdr, e.Header) {
					break
				}
			}
		case "header-garbled":
			hdr = append([]byte{}, e.Header...)
			hdr[c.Alt%len(hdr)] ^= 1 << (c.Alt / len(hdr) % 8) // every bit of every header byte as Alt runs
		default:
			hdr = []byte{}
		}
		b, err := env.Assemble(e.Sig, env.SigPayloadNode(hdr, e.Tag, e.Payload))
		return b, true, err == nil
	case "ecdsa-forged-for-zero-digest", "ecdsa-trivial-values":
		// signatures anyone can write down from the PUBLIC key: (r, s) = ((v*Q).x mod n, r/v mod n) verifies for the
		// digest value zero (a verifier that ends up with an empty, nil or all-zero digest accepts it for any
		// content); (0,0), (1,1), (n,n), (r, 0) are what sloppy range checks let through. Placed under a payload the
		// issuer never signed (another command).
		curve, qx, qy, isPoint := pubPoint(iss.Alg, iss.Key().Pub)
		if !isPoint {
			return nil, false, false
		}
		n := curve.Params().N
		var r, sv *big.Int
		if c.Kind == "ecdsa-forged-for-zero-digest" {
			v := big.NewInt(int64(7 + c.Alt%1000))
			x, _ := curve.ScalarMult(qx, qy, v.Bytes())
			r = new(big.Int).Mod(x, n)
			sv = new(big.Int).Mul(r, new(big.Int).ModInverse(v, n))
			sv.Mod(sv, n)
			if r.Sign() == 0 || sv.Sign() == 0 {
				return nil, false, false
			}
		} else {
			pairs := [][2]*big.Int{{big.NewInt(0), big.NewInt(0)}, {big.NewInt(1), big.NewInt(1)}, {n, n}, {big.NewInt(1), big.NewInt(0)}, {big.NewInt(0), big.NewInt(1)}, {new(big.Int).Sub(n, big.NewInt(1)), new(big.Int).Sub(n, big.NewInt(1))}, {qx, big.NewInt(1)}, {new(big.Int).Mod(qx, n), new(big.Int).Mod(qx, n)}}
			pr := pairs[c.Alt%len(pairs)]
			r, sv = pr[0], pr[1]
		}
		der, derr := asn1.Marshal(struct{ R, S *big.Int }{r, sv})
		if derr != nil {
			return nil, false, false
		}
		np := val.V{K: "map"}
		for _, kv := range payload.M {
			if kv.K == "cmd" {
				kv.V = val.Str("/forged/by/anyone")
			}
			np.M = append(np.M, kv)
		}
		b, err := env.Assemble(der, env.SigPayloadNode(e.Header, e.Tag, np.Node()))
		return b, false, err == nil
	case "sig-truncate", "sig-empty", "sig-extend", "sig-zero":
		sig := append([]byte{}, e.Sig...)
		switch c.Kind {
		case "sig-truncate":
			sig = sig[:len(sig)-1-c.Alt%len(sig)]
		case "sig-empty":
			sig = []byte{}
		case "sig-extend":
			sig = append(sig, byte(c.Alt))
		default:
			sig = make([]byte, len(sig))
		}
		b, err := env.Assemble(sig, e.SigPayload)
		return b, true, err == nil
	}
	return nil, false, false
}

type decoder struct {
	name   string
	family string // sealed | dagcbor | dagjson
	typed  string // "" | dlg | inv
	f      func(b []byte) (token.Token, error)
}

func nd(t *delegation.Token, err error) (token.Token, error) {
	if err != nil || t == nil {
		return nil, err
	}
	return t, nil
}
func ni(t *invocation.Token, err error) (token.Token, error) {
	if err != nil || t == nil {
		return nil, err
	}
	return t, nil
}

// every public decode entry point (harness/api), plus the container readers around a single entry
func fromAPI(format string) []decoder {
	var out []decoder
	for _, d := range api.Decoders(format) {
		d := d
		out = append(out, decoder{d.Name, d.Family, d.Typed, func(b []byte) (token.Token, error) { t, _, err := d.Bytes(b); return t, err }})
	}
	return out
}

func only(r container.Reader, err error) (token.Token, error) {
	if err != nil {
		return nil, err
	}
	for _, t := range r {
		return t, nil
	}
	return nil, fmt.Errorf("empty container")
}

func inContainer(b []byte) container.Writer {
	w := container.NewWriter()
	h := sha256.Sum256(b)
	mhb := append([]byte{0x12, 0x20}, h[:]...)
	w.AddSealed(cid.NewCidV1(cid.DagCBOR, mhb), b)
	return w
}

var containerDecoders = []decoder{
	{"container.FromCbor", "container", "", func(b []byte) (token.Token, error) {
		cb, err := inContainer(b).ToCbor()
		if err != nil {
			return nil, err
		}
		return only(container.FromCbor(cb))
	}},
	{"container.FromCborBase64Reader", "container", "", func(b []byte) (token.Token, error) {
		cb, err := inContainer(b).ToCborBase64()
		if err != nil {
			return nil, err
		}
		return only(container.FromCborBase64Reader(bytes.NewReader(cb)))
	}},
	{"container.FromCarReader", "container", "", func(b []byte) (token.Token, error) {
		cb, err := inContainer(b).ToCar()
		if err != nil {
			return nil, err
		}
		return only(container.FromCarReader(bytes.NewReader(cb)))
	}},
	{"container.FromCarBase64", "container", "", func(b []byte) (token.Token, error) {
		cb, err := inContainer(b).ToCarBase64()
		if err != nil {
			return nil, err
		}
		return only(container.FromCarBase64(cb))
	}},
}

var cborDecoders = append(fromAPI("cbor"), containerDecoders...)

var jsonDecoders = fromAPI("json")

func run(c *h.Ctx, cs Case) {
	tk, priv, err := tok.Build(cs.Tok)
	if err != nil {
		c.P.Class("constructor-rejected")
		return
	}
	var honest []byte
	if cs.JSON {
		honest, err = tk.ToDagJson(priv)
	} else {
		honest, _, err = tk.ToSealed(priv)
	}
	if err != nil {
		c.P.Class("seal-error")
		return
	}
	v0, err := tok.ViewOf(tk)
	if err != nil {
		return
	}
	if cs.Graft != nil && !cs.JSON {
		e0, err := env.Parse(honest)
		if err != nil {
			c.Inconclusive("harness cannot parse an honest token: %v", err)
		}
		payload := val.FromNode(e0.Payload)
		np := val.V{K: "map"}
		done := false
		for _, kv := range payload.M {
			if kv.K == cs.Graft.Field && kv.V.K == "map" {
				m := val.V{K: "map", M: append(append([]val.KV{}, kv.V.M...), val.KV{K: cs.Graft.Key, V: cs.Graft.V})}
				if !m.HasDupKeys() {
					kv.V = m
					done = true
				}
			}
			np.M = append(np.M, kv)
		}
		if !done && cs.Graft.Field == "meta" {
			np.M = append(np.M, val.KV{K: "meta", V: val.Map(val.E(cs.Graft.Key, cs.Graft.V))})
			done = true
		}
		if !done {
			c.P.Class("graft-not-applicable")
			return
		}
		var b []byte
		var serr error
		if pn, _, _ := h.Try(func() { b, serr = env.SignPayload(priv, e0.Tag, np.Node()) }); pn || serr != nil {
			c.P.Class("graft-not-encodable")
			return
		}
		honest = b
		e1, err := env.Parse(honest)
		if err != nil {
			c.P.Class("graft-not-encodable")
			return
		}
		if v0, err = e1.View(); err != nil {
			c.P.Class("graft-view-error")
			return
		}
		c.P.Class("graft:" + cs.Graft.Field + ":" + cs.Graft.V.Kind())
		if _, _, derr := token.FromSealed(honest); derr == nil {
			c.P.Class("graft-accepted-by-decoder")
		}
	}
	input, oldSig, ok := corrupt(cs, honest)
	if !ok {
		c.P.Class("corruption-not-applicable")
		return
	}
	changed := !bytes.Equal(input, honest)
	// independent parse + verification of the INPUT bytes
	var e *env.Env
	var perr error
	if cs.JSON {
		var n ipld.Node
		if n, perr = ipld.Decode(input, dagjson.Decode); perr == nil {
			e, perr = env.FromNode(n)
		}
	} else {
		e, perr = env.Parse(input)
	}
	var verr error
	var vin tok.View
	var vinErr error
	if perr == nil {
		verr = e.Verify()
		vin, vinErr = e.View()
	}
	decs := cborDecoders
	if cs.JSON {
		decs = jsonDecoders
	}
	kind := cs.Tok.Kind()
	accepted := map[string]int{}
	total := map[string]int{}
	for _, d := range decs {
		var got token.Token
		var derr error
		if pn, pv, _ := h.Try(func() { got, derr = d.f(input) }); pn {
			c.P.PanicSeen()
			c.Logf("%s panicked: %v", d.name, pv)
			continue
		}
		fam := d.family
		if d.typed == "" || d.typed == kind {
			total[fam]++
		}
		if derr != nil || got == nil {
			continue
		}
		if d.typed == "" || d.typed == kind {
			accepted[fam]++
		}
		// (a) accepted => independently verifiable
		if perr != nil {
			c.Fail("C06/accepted-unparseable/"+cs.C.Kind, "%s accepted an input the harness cannot even parse as an envelope (%v): corruption %+v", d.name, perr, cs.C)
			continue
		}
		if verr != nil {
			c.Fail("C06/accepted-unverifiable/"+cs.C.Kind, "%s returned a token, but the signature does not verify under the issuer's key and announced scheme over the decoded content: %v\ncorruption %+v alg=%s", d.name, verr, cs.C, cs.Tok.Issuer().Alg)
			continue
		}
		v1, err := tok.ViewOf(got)
		if err != nil {
			c.Fail("C06/accessors", "accessors of the returned token fail: %v", err)
			continue
		}
		// (b) returned fields == fields of the input payload
		if vinErr != nil {
			c.Fail("C06/accepted-malformed-payload/"+cs.C.Kind, "%s returned a token, but the harness cannot read the payload fields of the input: %v", d.name, vinErr)
			continue
		}
		// the principals, as TEXT: what the issuer signed is a string; the token reports that string
		for _, f := range []struct {
			name string
			got  did.DID
		}{{"iss", v1.Iss}, {"aud", v1.Aud}, {"sub", v1.Sub}} {
			if fn, lerr := e.Payload.LookupByString(f.name); lerr == nil && fn.Kind() == ipld.Kind_String && f.got.Defined() {
				if signed, _ := fn.AsString(); f.got.String() != signed {
					c.Fail("C06/returned-differs-from-input/"+f.name+"-text", "%s: the signed payload names %s = %q, the returned token reports %q\ncorruption %+v", d.name, f.name, signed, f.got.String(), cs.C)
				}
			}
		}
		if diff := tok.Diff(vin, v1); diff != "" {
			c.Fail("C06/returned-differs-from-input/"+tok.Field(diff), "%s: returned token differs from the payload that was signed: %s\ncorruption %+v", d.name, diff, cs.C)
		}
		// (c) old signature => nothing the issuer did not sign
		if oldSig {
			if diff := tok.Diff(v0, v1); diff != "" {
				c.Fail("C06/tampered-field-accepted/"+tok.Field(diff), "%s accepted a modified token under the ORIGINAL signature and reports a field the issuer did not sign: %s\ncorruption %+v alg=%s", d.name, diff, cs.C, cs.Tok.Issuer().Alg)
			}
		}
		if d.typed != "" && d.typed != v1.Type {
			c.Fail("C06/wrong-type-returned", "%s returned a %s", d.name, v1.Type)
		}
	}
	for fam, n := range accepted {
		if n != 0 && n != total[fam] {
			c.Fail("C06/decoders-disagree/"+fam, "decoders of the %s family disagree on accept/reject: %d of %d accept; corruption %+v", fam, n, total[fam], cs.C)
		}
	}
	nacc := 0
	for _, n := range accepted {
		nacc += n
	}
	if nacc > 0 {
		c.P.Class("accepted:" + cs.C.Kind)
	} else {
		c.P.Class("rejected:" + cs.C.Kind)
	}
	c.P.Class("alg:" + string(cs.Tok.Issuer().Alg))
	if changed && perr == nil {
		c.P.NonTrivial([]any{cs.Tok.Kind(), cs.Tok.OptionBitmap(), cs.Tok.Issuer().Alg, cs.JSON, cs.C},
			map[string]any{"token": cs.Tok.Kind(), "alg": cs.Tok.Issuer().Alg, "json": cs.JSON, "corruption": cs.C, "verifies_independently": verr == nil, "accepted_by": nacc})
	}
}

func drawTok(t *rapid.T) tok.Tok {
	return tok.Gen(t, tok.GenCfg{Algs: keys.AllAlgs, NoTopNull: true, OnlyFuture: true, Values: val.Cfg{Depth: 2, MaxLen: 3, SafeInts: true, NoFloat: true}})
}

func draw(t *rapid.T) Case {
	cs := Case{Tok: drawTok(t)}
	cs.JSON = rapid.IntRange(0, 4).Draw(t, "json") == 0
	fields := dlgFields
	if cs.Tok.Inv != nil {
		fields = invFields
	}
	switch m := rapid.IntRange(0, 9).Draw(t, "cmode"); {
	case m < 4 || cs.JSON:
		cs.C = Corruption{Kind: rapid.SampledFrom(byteKinds).Draw(t, "bk"), Off: rapid.IntRange(0, 4000).Draw(t, "off"), Bit: rapid.IntRange(0, 7).Draw(t, "bit")}
	case m < 7:
		cs.C = Corruption{Kind: rapid.SampledFrom(fieldKinds).Draw(t, "fk"), Field: rapid.SampledFrom(fields).Draw(t, "field"), Alt: rapid.IntRange(0, 9).Draw(t, "alt")}
	default:
		cs.C = Corruption{Kind: rapid.SampledFrom(sigKinds).Draw(t, "sk"), Alt: rapid.IntRange(0, 300).Draw(t, "alt")}
	}
	if !cs.JSON && rapid.IntRange(0, 3).Draw(t, "graft") == 0 {
		g := &Graft{Field: "meta", Key: rapid.SampledFrom([]string{"zzg", "g", "a"}).Draw(t, "gkey")}
		if cs.Tok.Inv != nil && rapid.IntRange(0, 3).Draw(t, "gargs") == 0 {
			g.Field = "args"
		}
		switch rapid.IntRange(0, 7).Draw(t, "gkind") {
		case 0, 1:
			g.V = val.Uint(rapid.Uint64Range(1<<63, ^uint64(0)).Draw(t, "gu"))
		case 2:
			g.V = val.Int(rapid.SampledFrom(val.IntHostile).Draw(t, "gi"))
		case 3:
			g.V = val.List(val.Map(val.E("n", val.Uint(rapid.Uint64Range(1<<63, ^uint64(0)).Draw(t, "gnu")))), val.Int(1))
		case 4:
			g.V = val.Bytes(make([]byte, rapid.SampledFrom([]int{0, 23, 24, 255, 256, 65535, 65536}).Draw(t, "gb")))
		case 5:
			g.V = val.V{K: "strb", X: rapid.SliceOfN(rapid.Byte(), 1, 6).Draw(t, "gsb")}
		default:
			g.V = val.Gen(t, val.Cfg{Depth: 3, MaxLen: 3, Hostile: true, Keys: []string{"a", "b", ""}})
		}
		cs.Graft = g
	}
	return cs
}

var prop = h.Define(P, "tamper", draw, run)

func TestTamper(t *testing.T) { prop.Check(t) }

func fixedTokens() []tok.Tok {
	k := func(a keys.Alg, i int) tok.KeyRef { return tok.KeyRef{Alg: a, Idx: i} }
	nonce := bytes.Repeat([]byte{9}, 12)
	one := val.Int(1)
	var out []tok.Tok
	for _, a := range []keys.Alg{keys.Ed25519, keys.P256, keys.Secp256k1, keys.RSA, keys.P384, keys.P521} {
		out = append(out,
			tok.Tok{Dlg: &tok.Dlg{Iss: k(a, 0), Aud: k(keys.Ed25519, 1), Sub: "iss", Cmd: "/foo/bar", Nonce: nonce,
				Meta: []tok.KVal{{K: "m", V: val.Str("x")}}, Exp: &tok.TimeSpec{Abs: true, V: 4102444800}, Nbf: &tok.TimeSpec{V: -3600}}},
			tok.Tok{Inv: &tok.Inv{Iss: k(a, 0), Sub: k(keys.Ed25519, 1), Aud: &tok.KeyRef{Alg: keys.Ed25519, Idx: 2}, Cmd: "/foo", Nonce: nonce,
				Args: []tok.KVal{{K: "x", V: one}, {K: "name", V: val.Str("héllo")}}, Prf: [][]byte{{1}}, Cause: []byte{2},
				Exp: &tok.TimeSpec{Abs: true, V: 4102444800}, Iat: &tok.TimeSpec{Abs: true, V: 1700000000}}})
	}
	return out
}

// TestBitFlipsExhaustive: every single-bit flip and every byte-level edit at
// every offset of the fixed tokens (CBOR; JSON for the first two).
func TestBitFlipsExhaustive(t *testing.T) {
	toks := fixedTokens()
	k, n := h.Shard()
	if !h.Thorough() {
		toks = toks[:2]
	}
	for ti, d := range toks {
		if ti%n != k {
			continue
		}
		tk, priv, err := tok.Build(d)
		if err != nil {
			t.Fatalf("INCONCLUSIVE %v", err)
		}
		for _, js := range []bool{false, true} {
			if js && ti >= 2 && !h.Thorough() {
				continue
			}
			var honest []byte
			if js {
				honest, _ = tk.ToDagJson(priv)
			} else {
				honest, _, _ = tk.ToSealed(priv)
			}
			for off := 0; off < len(honest); off++ {
				for bit := 0; bit < 8; bit++ {
					prop.One(t, Case{Tok: d, JSON: js, C: Corruption{Kind: "bitflip", Off: off, Bit: bit}})
				}
				for _, bk := range byteKinds[1:] {
					prop.One(t, Case{Tok: d, JSON: js, C: Corruption{Kind: bk, Off: off}})
				}
			}
		}
		// every structured corruption once
		fields := dlgFields
		if d.Inv != nil {
			fields = invFields
		}
		for _, f := range fields {
			for _, fk := range fieldKinds {
				prop.One(t, Case{Tok: d, C: Corruption{Kind: fk, Field: f}})
			}
		}
		for _, sk := range sigKinds {
			for alt := 0; alt < 4; alt++ {
				prop.One(t, Case{Tok: d, C: Corruption{Kind: sk, Alt: alt}})
			}
		}
	}
	if n == 1 {
		P.SetExhaustive()
	}
}

// TestHonest: the independent verifier accepts every honest token (guards the
// oracle itself: a verifier that rejects everything would make clause (a) a false alarm factory).
func TestHonest(t *testing.T) {
	for _, d := range fixedTokens() {
		tk, priv, err := tok.Build(d)
		if err != nil {
			t.Fatalf("INCONCLUSIVE %v", err)
		}
		sealed, _, err := tk.ToSealed(priv)
		if err != nil {
			t.Fatalf("INCONCLUSIVE %v", err)
		}
		e, err := env.Parse(sealed)
		if err != nil {
			t.Fatalf("INCONCLUSIVE harness cannot parse an honest token: %v", err)
		}
		if err := e.Verify(); err != nil {
			t.Fatalf("INCONCLUSIVE harness verifier rejects an honest %s token: %v", d.Issuer().Alg, err)
		}
		v, err := e.View()
		if err != nil {
			t.Fatalf("INCONCLUSIVE harness cannot read an honest payload: %v", err)
		}
		v0, _ := tok.ViewOf(tk)
		if diff := tok.Diff(v0, v); diff != "" {
			t.Fatalf("INCONCLUSIVE harness payload view differs from the accessors on an honest token: %s", diff)
		}
		P.Eval()
	}
	_ = fmt.Sprint
}

// FuzzTamper: native coverage-guided fuzzing of the decoders with the
// independent-verifier oracle in the target: any byte string a decoder accepts
// must verify independently and its accessors must equal the parsed payload.
func FuzzTamper(f *testing.F) {
	for _, d := range fixedTokens()[:4] {
		tk, priv, err := tok.Build(d)
		if err != nil {
			continue
		}
		sealed, _, _ := tk.ToSealed(priv)
		f.Add(sealed)
	}
	f.Fuzz(func(t *testing.T, in []byte) {
		P.Eval()
		e, perr := env.Parse(in)
		var verr error
		var vin tok.View
		var vinErr error
		if perr == nil {
			verr = e.Verify()
			vin, vinErr = e.View()
		}
		for _, d := range cborDecoders {
			var got token.Token
			var derr error
			if pn, _, _ := h.Try(func() { got, derr = d.f(in) }); pn || derr != nil || got == nil {
				continue
			}
			if perr != nil || verr != nil || vinErr != nil {
				t.Fatalf("VIOLATION-CANDIDATE property=C06 test=fuzz sig=C06/fuzz/accepted-unverifiable replay=%s\n%s accepted %x : parse=%v verify=%v view=%v", saveFuzz(in), d.name, in, perr, verr, vinErr)
			}
			v1, err := tok.ViewOf(got)
			if err != nil {
				continue
			}
			if diff := tok.Diff(vin, v1); diff != "" {
				t.Fatalf("VIOLATION-CANDIDATE property=C06 test=fuzz sig=C06/fuzz/returned-differs-from-input replay=%s\n%s: %s", saveFuzz(in), d.name, diff)
			}
		}
	})
}

func saveFuzz(in []byte) string {
	dir := os.Getenv("VERIF_REPLAY_DIR")
	if dir == "" {
		dir = os.TempDir()
	}
	_ = os.MkdirAll(dir, 0o755)
	p := fmt.Sprintf("%s/C06-fuzz-%x.bin", dir, in[:min(8, len(in))])
	_ = os.WriteFile(p, in, 0o644)
	return p
}

// ---------- concurrent decoding (race-detector build) ----------

type ConcCase struct {
	Tok        tok.Tok      `json:"tok"`
	Corr       []Corruption `json:"corr"`
	Goroutines int          `json:"goroutines"`
	Rounds     int          `json:"rounds"`
}

// runConc decodes the honest token and corrupted variants of it from several
// goroutines at once. Whatever a decoder accepts must, as always, verify
// independently and equal the input's payload; and the race detector must stay silent.
func runConc(c *h.Ctx, cc ConcCase) {
	tk, priv, err := tok.Build(cc.Tok)
	if err != nil {
		return
	}
	honest, _, err := tk.ToSealed(priv)
	if err != nil {
		return
	}
	inputs := [][]byte{honest}
	for _, co := range cc.Corr {
		if in, _, ok := corrupt(Case{Tok: cc.Tok, C: co}, honest); ok && !bytes.Equal(in, honest) {
			inputs = append(inputs, in)
		}
	}
	// same-length rewrite of the command under the old signature
	if i := bytes.Index(honest, []byte("/foo")); i >= 0 {
		t2 := append([]byte{}, honest...)
		copy(t2[i:], "/own")
		inputs = append(inputs, t2)
	}
	type verdict struct {
		verifies bool
		view     tok.View
		viewOK   bool
	}
	want := make([]verdict, len(inputs))
	for i, in := range inputs {
		if e, err := env.Parse(in); err == nil {
			want[i].verifies = e.Verify() == nil
			if v, err := e.View(); err == nil {
				want[i].view, want[i].viewOK = v, true
			}
		}
	}
	type failure struct{ sig, msg string }
	fails := make(chan failure, 64)
	var wg sync.WaitGroup
	start := make(chan struct{})
	for g := 0; g < cc.Goroutines; g++ {
		wg.Add(1)
		go func(g int) {
			defer wg.Done()
			<-start
			for r := 0; r < cc.Rounds; r++ {
				for i := range inputs {
					k := (i + g) % len(inputs)
					in := inputs[k]
					for _, d := range cborDecoders[:3] {
						got, derr := d.f(in)
						if derr != nil || got == nil {
							continue
						}
						if !want[k].verifies || !want[k].viewOK {
							select {
							case fails <- failure{"C06/concurrent/accepted-unverifiable", fmt.Sprintf("%s accepted input %d (of %d) under concurrent decoding although it does not verify independently", d.name, k, len(inputs))}:
							default:
							}
							continue
						}
						if v, err := tok.ViewOf(got); err == nil {
							if diff := tok.Diff(want[k].view, v); diff != "" {
								select {
								case fails <- failure{"C06/concurrent/returned-differs-from-input", fmt.Sprintf("%s: %s", d.name, diff)}:
								default:
								}
							}
						}
					}
				}
			}
		}(g)
	}
	close(start)
	wg.Wait()
	close(fails)
	for f := range fails {
		c.Fail(f.sig, "%s\ncase %+v", f.msg, cc)
	}
	c.P.Class(fmt.Sprintf("concurrent/goroutines=%d", cc.Goroutines))
	c.P.NonTrivial([]any{"conc", cc.Tok.Kind(), cc.Tok.OptionBitmap(), cc.Tok.Issuer().Alg, cc.Corr, cc.Goroutines}, map[string]any{"mode": "concurrent-decode", "goroutines": cc.Goroutines, "inputs": len(inputs), "rounds": cc.Rounds})
}

var concProp = h.Define(P, "concurrent", func(t *rapid.T) ConcCase {
	cc := ConcCase{Tok: tok.Gen(t, tok.GenCfg{Algs: []keys.Alg{keys.Ed25519, keys.Ed25519, keys.P256, keys.Secp256k1}, NoTopNull: true, OnlyFuture: true, Values: val.Cfg{Depth: 1, MaxLen: 2, SafeInts: true, NoFloat: true}}),
		Goroutines: rapid.IntRange(2, 8).Draw(t, "goroutines"), Rounds: rapid.IntRange(2, 10).Draw(t, "rounds")}
	if cc.Tok.Dlg != nil {
		cc.Tok.Dlg.Cmd = "/foo/bar"
	} else {
		cc.Tok.Inv.Cmd = "/foo/bar"
	}
	fields := dlgFields
	if cc.Tok.Inv != nil {
		fields = invFields
	}
	n := rapid.IntRange(1, 4).Draw(t, "ncorr")
	for i := 0; i < n; i++ {
		if rapid.Bool().Draw(t, "bytelevel") {
			cc.Corr = append(cc.Corr, Corruption{Kind: rapid.SampledFrom([]string{"bitflip", "subst-not"}).Draw(t, "bk"), Off: rapid.IntRange(0, 4000).Draw(t, "off"), Bit: rapid.IntRange(0, 7).Draw(t, "bit")})
		} else {
			cc.Corr = append(cc.Corr, Corruption{Kind: "rewrite", Field: rapid.SampledFrom(fields).Draw(t, "field"), Alt: rapid.IntRange(0, 9).Draw(t, "alt")})
		}
	}
	return cc
}, runConc)

func TestConcurrentTamper(t *testing.T) { concProp.Check(t) }

// TestPrefixTwinFirst: the forgery by a key whose encoding shares a long prefix with the victim's, in a process where
// the forger's key is the FIRST of the two to be seen (nothing else has run: its own test function, fewer cases than
// the process work-out waits for). Whichever of two look-alike keys a process meets first, each verifies only its own
// signatures.
func TestPrefixTwinFirst(t *testing.T) {
	for _, d := range fixedTokens()[:4] {
		for alt := 0; alt < 3; alt++ {
			prop.One(t, Case{Tok: d, C: Corruption{Kind: "resign-by-prefix-twin", Alt: alt}})
		}
	}
}

// TestEveryForgeryEveryAlgorithm: every signature-level corruption kind on a delegation and an invocation of EVERY key
// algorithm, with the first alternatives of each kind - what the random campaign reaches only when it happens to draw
// the one algorithm together with the one kind (a forgery that works against one curve only).
func TestEveryForgeryEveryAlgorithm(t *testing.T) {
	seen := map[string]bool{}
	n := 0
	for _, d := range fixedTokens() {
		for _, kind := range sigKinds {
			key := fmt.Sprint(d.Kind(), d.Issuer().Alg, kind)
			if seen[key] {
				continue
			}
			seen[key] = true
			alts := 6
			if !h.Thorough() && d.Issuer().Alg == keys.RSA {
				alts = 2
			}
			if kind == "issuer-signs-out-of-range-time" {
				alts = 16
			}
			if kind == "header-garbled" {
				alts = 64 // every bit of every byte of the header (8 bytes at most), under the old signature
			}
			for alt := 0; alt < alts; alt++ {
				prop.One(t, Case{Tok: d, C: Corruption{Kind: kind, Alt: alt}})
				n++
			}
		}
	}
	P.SetExtra("forgery_matrix_cases", n)
}

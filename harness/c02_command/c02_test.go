// C02 — commands can only be narrowed along a proof chain.
package c02

import (
	"errors"
	"fmt"
	"os"
	"strings"
	"testing"

	"pgregory.net/rapid"

	"verif/harness/chain"
	"verif/harness/h"
	_ "verif/harness/warm"
)

var P = h.New("C02", "exploration",
	"case = principal/time/policy-conforming chain of length 1..6 with an attenuating command sequence over segments {foo,foobar,fo,bar,a,ab,é}, followed by 0..2 command rewrites (parent / sibling / textual-extension / top / child / unrelated) at uniformly drawn positions (invocation, leaf .. root). Non-trivial = R7 (coverage along the chain) is false while every other rule holds. Distinct by (length, index of the first offending pair, relation kinds applied).")

func TestMain(m *testing.M) { os.Exit(P.Main(m)) }
func TestReplay(t *testing.T) { P.Replay(t) }

var relKinds = []string{"parent", "sibling", "textext", "top", "child", "unrelated", "textcut", "lookalike", "lookalike", "onechar", "onechar"}

// lookalike: one character of the command replaced by a DIFFERENT character that some notion of "the same" merges
// with it: Unicode case-fold partners that are both lower case (σ/ς, µ/μ, s/ſ, θ/ϑ, k/K-as-kelvin is upper), a
// precomposed letter and its decomposition, a Latin letter and its Cyrillic / Greek double, ASCII and full-width.
// Different commands, byte for byte and character for character.
var lookalikes = [][2]string{{"σ", "ς"}, {"ς", "σ"}, {"µ", "μ"}, {"μ", "µ"}, {"s", "ſ"}, {"ſ", "s"}, {"θ", "ϑ"}, {"ϑ", "θ"}, {"é", "e\u0301"}, {"a", "а"}, {"o", "ο"}, {"a", "ａ"}, {"b", "ƅ"}, {"f", "ｆ"}, {"r", "г"}}

func rewrite(t *rapid.T, cur string, kind string) string {
	segs := []string{}
	if cur != "/" {
		segs = strings.Split(cur, "/")[1:]
	}
	build := func(s []string) string {
		if len(s) == 0 {
			return "/"
		}
		return "/" + strings.Join(s, "/")
	}
	switch kind {
	case "onechar":
		// ONE character replaced by another of the same width, at the start, at the end or in the middle of the
		// text: same length, same segment count, a different command
		var at []int
		for i := 0; i < len(cur); i++ {
			if b := cur[i]; (b >= 'a' && b <= 'z') || (b >= '0' && b <= '9') {
				at = append(at, i)
			}
		}
		if len(at) == 0 {
			return cur
		}
		var i int
		switch rapid.IntRange(0, 4).Draw(t, "onechar_where") {
		case 0:
			i = at[0]
		case 1:
			i = at[len(at)-1]
		default:
			i = at[(len(at)/2+rapid.IntRange(-2, 2).Draw(t, "onechar_off")+len(at))%len(at)]
		}
		nb := byte('a')
		if cur[i] >= '0' && cur[i] <= '9' {
			nb = '0'
		}
		if cur[i] == nb {
			nb++
		}
		return cur[:i] + string(nb) + cur[i+1:]
	case "lookalike":
		var cands [][2]string
		for _, p := range lookalikes {
			if strings.Contains(cur, p[0]) {
				cands = append(cands, p)
			}
		}
		if len(cands) == 0 {
			return cur
		}
		p := rapid.SampledFrom(cands).Draw(t, "lookalike")
		i := strings.LastIndex(cur, p[0])
		if rapid.Bool().Draw(t, "lookfirst") {
			i = strings.Index(cur, p[0])
		}
		return cur[:i] + p[1] + cur[i+len(p[0]):]
	case "parent":
		if len(segs) == 0 {
			return "/"
		}
		return build(segs[:len(segs)-1])
	case "sibling":
		if len(segs) == 0 {
			return "/"
		}
		alt := rapid.SampledFrom(chain.CmdSegs).Draw(t, "sib")
		out := append(append([]string{}, segs[:len(segs)-1]...), alt)
		return build(out)
	case "textext": // shares a textual prefix, no segment boundary
		if len(segs) == 0 {
			return "/"
		}
		return cur + rapid.SampledFrom([]string{"bar", "o", "b", "é"}).Draw(t, "ext")
	case "textcut": // textual prefix obtained by cutting the last segment short
		if len(segs) == 0 || len([]rune(segs[len(segs)-1])) < 2 {
			return cur
		}
		last := segs[len(segs)-1]
		r := []rune(last)
		out := append(append([]string{}, segs[:len(segs)-1]...), string(r[:len(r)-1]))
		return build(out)
	case "top":
		return "/"
	case "child":
		return build(append(segs, rapid.SampledFrom(chain.CmdSegs).Draw(t, "child")))
	default:
		n := rapid.IntRange(1, 3).Draw(t, "un")
		var s []string
		for i := 0; i < n; i++ {
			s = append(s, rapid.SampledFrom(chain.CmdSegs).Draw(t, "useg"))
		}
		return build(s)
	}
}

func firstOffending(cs chain.Case) int {
	n := len(cs.Links)
	if n == 0 {
		return -1
	}
	if !chain.Covers(cs.Links[0].Cmd, cs.Inv.Cmd) {
		return 0
	}
	for i := 0; i+1 < n; i++ {
		if !chain.Covers(cs.Links[i+1].Cmd, cs.Links[i].Cmd) {
			return i + 1
		}
	}
	return -1
}

func run(c *h.Ctx, cs chain.Case) {
	b, err := chain.Build(cs)
	if err != nil {
		if errors.Is(err, chain.ErrUndecodable) {
			c.P.Class("raw-command-refused-by-decoder")
			return
		}
		c.P.Class("build-error")
		return
	}
	r := chain.Eval(cs)
	d := chain.Decide(b, nil)
	if d.Panicked {
		c.P.PanicSeen()
	}
	c.P.Class(fmt.Sprintf("len=%d", len(cs.Links)))
	for _, dv := range cs.Dev {
		c.P.Class("dev:" + dv)
	}
	if d.Allowed {
		c.P.Class("allowed")
	} else {
		c.P.Class("denied")
	}
	off := firstOffending(cs)
	if dh := chain.DecideIdentityHook(b); dh.Allowed && !r.R[7] {
		c.Fail("C02/hook/widened-command-allowed", "ExecutionAllowedWithArgsHook returned nil although the command is widened\ninvocation cmd %q, link cmds %q", cs.Inv.Cmd, cmds(cs))
	}
	if !r.R[7] {
		for _, hk := range chain.OddHooks {
			if do := chain.DecideOddHook(b, hk); do.Allowed {
				c.Fail("C02/hook-"+hk+"/widened-command-allowed", "ExecutionAllowedWithArgsHook (hook: %s) returned nil although the command is widened\ninvocation cmd %q, link cmds %q", hk, cs.Inv.Cmd, cmds(cs))
			}
		}
	}
	if !r.R[7] && !d.Allowed {
		if how, ok := chain.FlakyAllowed(b, len(cs.Links), nil); ok {
			c.Fail("C02/flaky-loader/widened-command-allowed", "ExecutionAllowed returned nil although the command is widened; %s\ninvocation cmd %q, link cmds %q\ncase: %+v", how, cs.Inv.Cmd, cmds(cs), cs)
		}
		c.P.Class("flaky-loader")
	}
	if d.Allowed && !r.R[7] {
		where := "invocation vs leaf delegation"
		if off > 0 {
			where = fmt.Sprintf("delegation %d vs delegation %d", off-1, off)
		}
		c.Fail(fmt.Sprintf("C02/widened-command-allowed/pos=%s", posClass(off, len(cs.Links))),
			"ExecutionAllowed returned nil although the command is widened at %s\ninvocation cmd %q, link cmds %q\ncase: %+v",
			where, cs.Inv.Cmd, cmds(cs), cs)
	}
	for i := 0; i+1 < len(cs.Links); i++ {
		if a, b := cs.Links[i].Cmd, cs.Links[i+1].Cmd; len(a) == len(b) && a != b {
			c.P.Class("adjacent-delegations:same-length-other-command")
			if len(a) > 16 && a[:8] == b[:8] && a[len(a)-8:] == b[len(b)-8:] {
				c.P.Class("adjacent-delegations:same-ends-other-middle")
			}
		}
	}
	if !r.R[7] && r.All(1, 6) && r.All(8, 9) {
		c.P.NonTrivial([]any{len(cs.Links), off, cs.Dev}, map[string]any{"inv_cmd": cs.Inv.Cmd, "link_cmds": cmds(cs), "first_offending_pair": off, "allowed": d.Allowed, "dev": cs.Dev})
		c.P.Class("offending@" + posClass(off, len(cs.Links)))
	}
}

func posClass(off, n int) string {
	switch {
	case off == 0:
		return "invocation"
	case off == n-1:
		return "root"
	case off == 1:
		return "leaf+1"
	default:
		return "inner"
	}
}

func cmds(cs chain.Case) []string {
	var out []string
	for _, l := range cs.Links {
		out = append(out, l.Cmd)
	}
	return out
}

func draw(t *rapid.T) chain.Case {
	cs := chain.DrawConforming(t, chain.GenOpt{MaxLen: 6, Commands: true, Irrelevant: true})
	nd := rapid.SampledFrom([]int{0, 1, 1, 1, 1, 2}).Draw(t, "ndev")
	for i := 0; i < nd; i++ {
		pos := rapid.IntRange(0, len(cs.Links)).Draw(t, "pos") // 0 = invocation, k = link k-1
		kind := rapid.SampledFrom(relKinds).Draw(t, "rel")
		if pos == 0 {
			cs.Inv.Cmd = rewrite(t, cs.Inv.Cmd, kind)
		} else {
			cs.Links[pos-1].Cmd = rewrite(t, cs.Links[pos-1].Cmd, kind)
		}
		cs.Dev = append(cs.Dev, fmt.Sprintf("%s@%d/%d", kind, pos, len(cs.Links)))
	}
	if rapid.IntRange(0, 7).Draw(t, "rawcmd") == 4 {
		// a delegation whose cmd field, as signed by its issuer, is not a command at all (the constructors never
		// produce one; a decoder should refuse it; if one does not, the delegation grants nothing)
		pos := rapid.IntRange(0, len(cs.Links)-1).Draw(t, "rawpos")
		if rapid.Bool().Draw(t, "rawroot") {
			pos = len(cs.Links) - 1
		}
		rc := rapid.SampledFrom([]string{"", "foo", "/foo/", "/Foo", "/Store", "//", "/ ", "store", "/a/", "/A/b", "/é/É", " /", "/\x00"}).Draw(t, "rawcmd_text")
		cs.Links[pos].RawCmd = &rc
		cs.Dev = append(cs.Dev, fmt.Sprintf("raw-invalid-command@%d/%d", pos+1, len(cs.Links)))
	}
	// "allowed => commands only narrow" holds whatever else is wrong with the chain: now and then a principal
	// rule is broken as well (a link without subject, a foreign subject, a rewired audience ...). Such a chain
	// must be denied anyway; if some path lets it through, it must not have skipped the command rule on the way
	if nd > 0 && rapid.IntRange(0, 5).Draw(t, "crossfamily") == 3 {
		chain.ApplyPrincipalDeviation(t, &cs, rapid.SampledFrom([]string{"subject-undef", "subject-undef", "subject-other", "rewire-aud", "rewire-iss", "last-not-root", "subject-other-run", "reverse", "reverse", "rotate"}).Draw(t, "crossdev"))
	}
	if rapid.IntRange(0, 9).Draw(t, "listorder") == 6 {
		// the proofs listed the other way round (root first), with or without a command deviation: whatever an
		// implementation makes of the order, no link widens what it received
		chain.ApplyPrincipalDeviation(t, &cs, "reverse")
	}
	return cs
}

var prop = h.Define(P, "chain", draw, run)

func TestChain(t *testing.T) { prop.Check(t) }

// History clause over a shared delegation store (chain/store.go): checks interleaved with loader
// changes, re-decoding and sibling invocations over the same delegations; every decision is compared
// with the reference rules for the store as it is at that moment.
var storeProp = h.Define(P, "store", func(t *rapid.T) chain.StoreCase { return chain.DrawStore(t, "command") },
	func(c *h.Ctx, sc chain.StoreCase) { chain.RunStore(c, sc, "C02") })

func TestStore(t *testing.T) { storeProp.Check(t) }

// TestLongCommandPairs: chains of 2..5 delegations over commands of the length real commands have (20..90 bytes), in
// which ONE delegation - each position in turn - carries a command of the SAME LENGTH as the one it received that
// differs from it in one or a few characters at the start, in the middle or at the end (another bucket, another
// tenant, another verb), everything else conforming; and the unchanged chain as control. Every pair of adjacent
// commands is judged by segment-wise coverage, whatever the two texts have in common.
func TestLongCommandPairs(t *testing.T) {
	bases := []string{"/storage/bucket-a/objects", "/crud/tenant-0017/records/update", "/0123456789abcdef0123456789abcdef/write", "/storage/eu-west-1/bucket-objects/object-versions/read", "/aaaaaaaaaaaaaaaaaaaaaaaaaaaaaaaaaaaaaaaa"}
	n := 0
	for _, base := range bases {
		var twins []string
		for _, at := range []int{1, 8, 9, len(base) / 2, len(base) - 10, len(base) - 9, len(base) - 8, len(base) - 1} {
			if at < 1 || at >= len(base) || base[at] == '/' {
				continue
			}
			nb := byte('b')
			if base[at] == nb {
				nb = 'c'
			}
			twins = append(twins, base[:at]+string(nb)+base[at+1:])
		}
		// two characters swapped in the middle (an anagram: same bytes, same length)
		if m := len(base) / 2; base[m] != '/' && base[m+1] != '/' && base[m] != base[m+1] {
			twins = append(twins, base[:m]+string(base[m+1])+string(base[m])+base[m+2:])
		}
		for length := 2; length <= 5; length++ {
			for pos := -1; pos < length; pos++ {
				for ti, tw := range twins {
					if pos == -1 && ti > 0 {
						break
					}
					for _, leafExt := range []string{"", "/get"} {
						var cs chain.Case
						cs.Inv = chain.Inv{Iss: 0, Sub: length % chain.NPrincipals, Aud: -1, NonceLen: 12, Cmd: base + leafExt}
						for i := 0; i < length; i++ {
							iss := (i + 1) % chain.NPrincipals
							if i == length-1 {
								iss = cs.Inv.Sub
							}
							l := chain.Link{Iss: iss, Aud: i % chain.NPrincipals, Sub: cs.Inv.Sub, Cmd: base, Nonce: byte(i)}
							if i == 0 {
								l.Cmd = base + leafExt
							}
							if i == pos {
								l.Cmd = tw
								cs.Dev = []string{fmt.Sprintf("same-length-twin@%d/%d", pos+1, length)}
							}
							cs.Links = append(cs.Links, l)
						}
						prop.One(t, cs)
						n++
					}
				}
			}
		}
	}
	P.SetExtra("long_command_pair_chains", n)
}

// Concurrent checks (chain/conc.go) of chains of which some widen the command at a drawn link, on delegation objects
// that are fresh when the goroutines meet them. Race-detector build.
var concChainsProp = h.Define(P, "concchains", chain.DrawConcChains, func(c *h.Ctx, cc chain.ConcChains) { chain.RunConcChains(c, cc, "C02") })

func TestConcurrentChains(t *testing.T) { concChainsProp.Check(t) }

package pol

import (
	"pgregory.net/rapid"

	"verif/harness/sel"
	"verif/harness/val"
)

// GenCfg steers policy generation.
type GenCfg struct {
	Depth   int
	MaxStmt int
	SelCfg  sel.GenCfg
}

var cmpOps = []string{"==", "==", "<", "<=", ">", ">="}

// NearLit draws a literal equal or close to v (so that comparisons are
// sometimes true, sometimes just off, sometimes of another kind).
func NearLit(t *rapid.T, v val.V, label string) val.V {
	switch rapid.IntRange(0, 7).Draw(t, label+"_near") {
	case 0, 1, 2:
		return v
	case 3, 4:
		switch v.Kind() {
		case "int":
			if v.K == "int" {
				d := int64(rapid.IntRange(-2, 2).Draw(t, label+"_d"))
				if v.I+d <= (1<<53)-1 && v.I+d >= -((1<<53)-1) {
					return val.Int(v.I + d)
				}
			}
			return v
		case "float":
			return val.Float(v.Float64() + float64(rapid.IntRange(-2, 2).Draw(t, label+"_d")))
		case "str":
			return val.Str(v.StrVal() + rapid.SampledFrom([]string{"", "x", " "}).Draw(t, label+"_sx"))
		case "list":
			if len(v.L) > 0 {
				out := val.V{K: "list", L: append([]val.V{}, v.L...)}
				i := rapid.IntRange(0, len(out.L)-1).Draw(t, label+"_li")
				out.L[i] = NearLit(t, out.L[i], label+"_e")
				return out
			}
		case "map":
			if len(v.M) > 0 {
				out := val.V{K: "map", M: append([]val.KV{}, v.M...)}
				i := rapid.IntRange(0, len(out.M)-1).Draw(t, label+"_mi")
				out.M[i] = val.KV{K: out.M[i].K, V: NearLit(t, out.M[i].V, label+"_e")}
				return out
			}
		}
		return v
	case 5:
		// same number, other kind
		switch v.Kind() {
		case "int":
			if v.K == "int" && v.I > -1000 && v.I < 1000 {
				return val.Float(float64(v.I))
			}
		case "float":
			f := v.Float64()
			if f == float64(int64(f)) && f > -1000 && f < 1000 {
				return val.Int(int64(f))
			}
		}
		return val.GenScalar(t, val.Cfg{SafeInts: true})
	default:
		return val.GenScalar(t, val.Cfg{SafeInts: true, NonFinite: rapid.IntRange(0, 9).Draw(t, label+"_nf") == 0})
	}
}

// listPaths collects field paths (through maps only) that lead to lists.
func listPaths(v val.V, prefix sel.Sel, depth int, out *[]sel.Sel) {
	if depth > 3 {
		return
	}
	switch v.Kind() {
	case "list":
		*out = append(*out, append(sel.Sel{}, prefix...))
	case "map":
		for _, e := range v.M {
			if e.K == "" || containsAny(e.K, `":`) {
				continue
			}
			listPaths(e.V, append(append(sel.Sel{}, prefix...), sel.Seg{Kind: "qfield", Name: e.K}), depth+1, out)
		}
	}
}

func containsAny(s, chars string) bool {
	for _, c := range s {
		for _, d := range chars {
			if c == d {
				return true
			}
		}
	}
	return false
}

func repeat(s string, n int) string {
	out := make([]byte, 0, len(s)*n)
	for i := 0; i < n; i++ {
		out = append(out, s...)
	}
	return string(out)
}

func genLikePattern(t *rapid.T, s string, label string) string {
	esc := func(x string) string {
		out := ""
		for i := 0; i < len(x); i++ {
			if x[i] == '*' || x[i] == '\\' {
				out += `\`
			}
			out += string(x[i])
		}
		return out
	}
	switch rapid.IntRange(0, 6).Draw(t, label+"_pm") {
	case 6:
		// free pattern over the whole pattern syntax: literals, wildcards, escaped wildcard, escaped backslash
		n := rapid.IntRange(0, 8).Draw(t, label+"_fn")
		out := ""
		for i := 0; i < n; i++ {
			out += rapid.SampledFrom([]string{"a", "b", "*", `\*`, `\\`, "é", "/", ".", `\\`}).Draw(t, label+"_fa")
		}
		return out
	case 0:
		return esc(s)
	case 1:
		k := rapid.IntRange(0, len(s)).Draw(t, label+"_cut")
		return esc(s[:k]) + "*"
	case 2:
		k := rapid.IntRange(0, len(s)).Draw(t, label+"_cut")
		return "*" + esc(s[k:])
	case 3:
		if len(s) > 30 {
			return "*" + esc(s[len(s)-18:])
		}
		return "*"
	case 4:
		return esc(s) + "x"
	default:
		return rapid.SampledFrom([]string{"a*", "*@example.com", "foo*bar", "", `\*`, "*a*", `C:\\Users\\*`, `a\\`, `\\`, `\\\*`, `\*\\*\\`, `**`, `*\\`}).Draw(t, label+"_pp")
	}
}

// GenStmt draws one statement, guided by data.
func GenStmt(t *rapid.T, data val.V, cfg GenCfg, depth int, label string) Stmt {
	k := rapid.IntRange(0, 13).Draw(t, label+"_kind")
	if depth <= 0 && k >= 8 {
		k = k % 8
	}
	sc := cfg.SelCfg
	if sc.MaxSegs == 0 {
		sc.MaxSegs = 3
	}
	switch {
	case k <= 6: // comparison
		s := sel.GenFor(t, data, sc)
		rv, st := sel.Resolve(s, data)
		var lit val.V
		if st == sel.Value {
			lit = NearLit(t, rv, label+"_lit")
		} else {
			lit = val.GenScalar(t, val.Cfg{SafeInts: true})
		}
		return Stmt{Op: rapid.SampledFrom(cmpOps).Draw(t, label+"_op"), Sel: s, Lit: &lit}
	case k == 7: // like
		s := sel.GenFor(t, data, sc)
		rv, st := sel.Resolve(s, data)
		subject := "abc"
		if st == sel.Value && rv.Kind() == "str" {
			subject = rv.StrVal()
		}
		return Stmt{Op: "like", Sel: s, Pat: genLikePattern(t, subject, label)}
	case k == 8:
		return Stmt{Op: "not", Sub: []Stmt{GenStmt(t, data, cfg, depth-1, label+"n")}}
	case k == 9 || k == 10:
		op := "and"
		if k == 10 {
			op = "or"
		}
		n := rapid.IntRange(0, 3).Draw(t, label+"_nops")
		st := Stmt{Op: op}
		for i := 0; i < n; i++ {
			st.Sub = append(st.Sub, GenStmt(t, data, cfg, depth-1, label+"c"))
		}
		return st
	default: // all / any
		op := "all"
		if k%2 == 0 {
			op = "any"
		}
		var paths []sel.Sel
		listPaths(data, nil, 0, &paths)
		var s sel.Sel
		if len(paths) > 0 && rapid.IntRange(0, 9).Draw(t, label+"_qguided") < 8 {
			s = paths[rapid.IntRange(0, len(paths)-1).Draw(t, label+"_qpath")]
			if len(s) == 0 {
				s = sel.Sel{{Kind: "id"}}
			} else if rapid.IntRange(0, 4).Draw(t, label+"_qopt") == 0 {
				s = append(sel.Sel{}, s...)
				s[len(s)-1].Opt = true
			}
		} else {
			s = sel.GenFor(t, data, sc)
		}
		elem := val.Null()
		if rv, st := sel.Resolve(s, data); st == sel.Value && rv.Kind() == "list" && len(rv.L) > 0 {
			elem = rv.L[rapid.IntRange(0, len(rv.L)-1).Draw(t, label+"_qelem")]
		}
		return Stmt{Op: op, Sel: s, Sub: []Stmt{GenStmt(t, elem, cfg, depth-1, label+"q")}}
	}
}

// Gen draws a policy of 0..MaxStmt statements.
func Gen(t *rapid.T, data val.V, cfg GenCfg, label string) Policy {
	if cfg.MaxStmt == 0 {
		cfg.MaxStmt = 3
	}
	n := rapid.IntRange(0, cfg.MaxStmt).Draw(t, label+"_n")
	var p Policy
	for i := 0; i < n; i++ {
		p = append(p, GenStmt(t, data, cfg, cfg.Depth, label))
	}
	return p
}

// GenData draws a map-rooted value with lists of scalars / maps, suited to policies.
func GenData(t *rapid.T, label string) val.V {
	keys := []string{"a", "b", "c", "n", "s", "l", "m", "foo", "with space", "é"}
	cfg := val.Cfg{Depth: 3, MaxLen: 4, Keys: keys, SafeInts: true, NoLink: rapid.IntRange(0, 3).Draw(t, label+"_nolink") > 0}
	v := val.GenMap(t, cfg, 3)
	if rapid.IntRange(0, 5).Draw(t, label+"_longstr") == 0 {
		// a long, self-overlapping string: the expensive case for a backtracking glob matcher
		n := rapid.SampledFrom([]int{40, 60, 200, 1200}).Draw(t, label+"_longn")
		ls := val.Str(repeat("a", n) + rapid.SampledFrom([]string{"b", "", "ab", "*"}).Draw(t, label+"_longtail"))
		replaced := false
		for i := range v.M {
			if v.M[i].K == "s" {
				v.M[i].V = ls
				replaced = true
			}
		}
		if !replaced {
			v.M = append(v.M, val.KV{K: "s", V: ls})
		}
	}
	if rapid.IntRange(0, 2).Draw(t, label+"_addlist") > 0 {
		// make sure a list is present for the quantifiers
		n := rapid.IntRange(0, 4).Draw(t, label+"_ln")
		l := val.V{K: "list"}
		for i := 0; i < n; i++ {
			if rapid.Bool().Draw(t, label+"_lmap") {
				l.L = append(l.L, val.Map(val.E("x", val.Int(int64(rapid.IntRange(0, 4).Draw(t, label+"_lx")))), val.E("s", val.GenStr(t))))
			} else {
				l.L = append(l.L, val.Int(int64(rapid.IntRange(0, 4).Draw(t, label+"_li"))))
			}
		}
		replaced := false
		for i := range v.M {
			if v.M[i].K == "l" {
				v.M[i].V = l
				replaced = true
			}
		}
		if !replaced {
			v.M = append(v.M, val.KV{K: "l", V: l})
		}
	}
	return v
}

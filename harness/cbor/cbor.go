// Package cbor is a small CBOR tree parser / printer that, unlike a
// canonical encoder, can emit chosen non-canonical forms of the same data
// (non-minimal lengths, indefinite lengths, permuted map keys, undefined for
// null, shorter floats). Used by C08 (canonicity), C06/C17 (structured
// corruption) and C09 (hostile lengths).
package cbor

import (
	"encoding/binary"
	"errors"
	"fmt"
	"math"
)

// Item is one CBOR data item.
type Item struct {
	Major byte   // 0..7
	Arg   uint64 // value / length / tag / simple value / float bits
	Info  byte   // additional-information field as read (width class)
	Data  []byte // payload of byte / text strings
	Items []*Item // array elements, map k,v,k,v..., tag content (1)
	// printing directives
	Width  int  // 0 = minimal; 1,2,4,8 = force that many argument bytes
	Indef  bool // indefinite length (arrays, maps, strings)
	Raw    []byte // when set, emitted verbatim instead of the item
}

var ErrTruncated = errors.New("cbor: truncated")

// Parse decodes exactly one item from b and returns the number of bytes used.
func Parse(b []byte) (*Item, int, error) {
	it, n, err := parse(b, 0)
	return it, n, err
}

func parse(b []byte, depth int) (*Item, int, error) {
	if depth > 512 {
		return nil, 0, errors.New("cbor: too deep")
	}
	if len(b) == 0 {
		return nil, 0, ErrTruncated
	}
	ib := b[0]
	it := &Item{Major: ib >> 5, Info: ib & 0x1f}
	n := 1
	switch {
	case it.Info < 24:
		it.Arg = uint64(it.Info)
	case it.Info == 24:
		if len(b) < 2 {
			return nil, 0, ErrTruncated
		}
		it.Arg = uint64(b[1])
		n = 2
	case it.Info == 25:
		if len(b) < 3 {
			return nil, 0, ErrTruncated
		}
		it.Arg = uint64(binary.BigEndian.Uint16(b[1:]))
		n = 3
	case it.Info == 26:
		if len(b) < 5 {
			return nil, 0, ErrTruncated
		}
		it.Arg = uint64(binary.BigEndian.Uint32(b[1:]))
		n = 5
	case it.Info == 27:
		if len(b) < 9 {
			return nil, 0, ErrTruncated
		}
		it.Arg = binary.BigEndian.Uint64(b[1:])
		n = 9
	case it.Info == 31:
		return nil, 0, errors.New("cbor: indefinite length not supported by this parser")
	default:
		return nil, 0, errors.New("cbor: reserved additional info")
	}
	switch it.Major {
	case 0, 1, 7:
		return it, n, nil
	case 2, 3:
		if uint64(len(b)-n) < it.Arg {
			return nil, 0, ErrTruncated
		}
		it.Data = append([]byte{}, b[n:n+int(it.Arg)]...)
		return it, n + int(it.Arg), nil
	case 4, 5, 6:
		cnt := it.Arg
		if it.Major == 5 {
			cnt *= 2
		}
		if it.Major == 6 {
			cnt = 1
		}
		if cnt > uint64(len(b)) {
			return nil, 0, ErrTruncated
		}
		for i := uint64(0); i < cnt; i++ {
			c, m, err := parse(b[n:], depth+1)
			if err != nil {
				return nil, 0, err
			}
			it.Items = append(it.Items, c)
			n += m
		}
		return it, n, nil
	}
	return nil, 0, errors.New("cbor: unreachable")
}

func head(major byte, arg uint64, width int) []byte {
	min := 0
	switch {
	case arg < 24:
		min = 0
	case arg <= 0xff:
		min = 1
	case arg <= 0xffff:
		min = 2
	case arg <= 0xffffffff:
		min = 4
	default:
		min = 8
	}
	w := min
	if width > w {
		w = width
	}
	switch w {
	case 0:
		return []byte{major<<5 | byte(arg)}
	case 1:
		return []byte{major<<5 | 24, byte(arg)}
	case 2:
		out := []byte{major<<5 | 25, 0, 0}
		binary.BigEndian.PutUint16(out[1:], uint16(arg))
		return out
	case 4:
		out := []byte{major<<5 | 26, 0, 0, 0, 0}
		binary.BigEndian.PutUint32(out[1:], uint32(arg))
		return out
	default:
		out := []byte{major<<5 | 27, 0, 0, 0, 0, 0, 0, 0, 0}
		binary.BigEndian.PutUint64(out[1:], arg)
		return out
	}
}

// Bytes prints the item honouring the printing directives.
func (it *Item) Bytes() []byte {
	if it.Raw != nil {
		return it.Raw
	}
	switch it.Major {
	case 0, 1:
		return head(it.Major, it.Arg, it.Width)
	case 7:
		// simple / float: keep the width it was read with
		switch it.Info {
		case 25:
			return []byte{0xf9, byte(it.Arg >> 8), byte(it.Arg)}
		case 26:
			out := []byte{0xfa, 0, 0, 0, 0}
			binary.BigEndian.PutUint32(out[1:], uint32(it.Arg))
			return out
		case 27:
			out := []byte{0xfb, 0, 0, 0, 0, 0, 0, 0, 0}
			binary.BigEndian.PutUint64(out[1:], it.Arg)
			return out
		case 24:
			return []byte{0xf8, byte(it.Arg)}
		}
		return []byte{0xe0 | byte(it.Arg)}
	case 2, 3:
		if it.Indef {
			out := []byte{it.Major<<5 | 31}
			out = append(out, head(it.Major, uint64(len(it.Data)), 0)...)
			out = append(out, it.Data...)
			return append(out, 0xff)
		}
		return append(head(it.Major, uint64(len(it.Data)), it.Width), it.Data...)
	case 4, 5:
		var out []byte
		n := uint64(len(it.Items))
		if it.Major == 5 {
			n /= 2
		}
		if it.Indef {
			out = []byte{it.Major<<5 | 31}
		} else {
			out = head(it.Major, n, it.Width)
		}
		for _, c := range it.Items {
			out = append(out, c.Bytes()...)
		}
		if it.Indef {
			out = append(out, 0xff)
		}
		return out
	case 6:
		out := head(6, it.Arg, it.Width)
		return append(out, it.Items[0].Bytes()...)
	}
	panic("cbor: major")
}

// Walk visits every item in pre-order.
func (it *Item) Walk(f func(*Item)) {
	f(it)
	for _, c := range it.Items {
		c.Walk(f)
	}
}

// Count returns the number of items in the tree.
func (it *Item) Count() int {
	n := 0
	it.Walk(func(*Item) { n++ })
	return n
}

// Nth returns the n-th item in pre-order.
func (it *Item) Nth(n int) *Item {
	var out *Item
	i := 0
	it.Walk(func(x *Item) {
		if i == n {
			out = x
		}
		i++
	})
	return out
}

// Clone deep-copies the tree.
func (it *Item) Clone() *Item {
	c := *it
	c.Data = append([]byte{}, it.Data...)
	c.Items = nil
	for _, x := range it.Items {
		c.Items = append(c.Items, x.Clone())
	}
	return &c
}

// Kinds of data-preserving re-encodings.
var Reencodings = []string{"nonminimal-1", "nonminimal-2", "nonminimal-4", "nonminimal-8", "indefinite", "permute-keys", "undefined-for-null", "float-shorter", "extra-element", "trailing-byte"}

// Applicable tells whether re-encoding kind k changes the bytes of item it.
func Applicable(it *Item, k string) bool {
	switch k {
	case "nonminimal-1", "nonminimal-2", "nonminimal-4", "nonminimal-8":
		if it.Major == 7 {
			return false
		}
		w := map[string]int{"nonminimal-1": 1, "nonminimal-2": 2, "nonminimal-4": 4, "nonminimal-8": 8}[k]
		arg := it.Arg
		if it.Major == 2 || it.Major == 3 {
			arg = uint64(len(it.Data))
		}
		if it.Major == 4 {
			arg = uint64(len(it.Items))
		}
		if it.Major == 5 {
			arg = uint64(len(it.Items) / 2)
		}
		return len(head(0, arg, 0)) < 1+w
	case "indefinite":
		return it.Major >= 2 && it.Major <= 5
	case "permute-keys":
		return it.Major == 5 && len(it.Items) >= 4
	case "undefined-for-null":
		return it.Major == 7 && it.Info == 22
	case "float-shorter":
		if it.Major != 7 || it.Info != 27 {
			return false
		}
		f := math.Float64frombits(it.Arg)
		return float64(float32(f)) == f
	}
	return false
}

// Apply applies re-encoding k to item it (in place).
func Apply(it *Item, k string) {
	switch k {
	case "nonminimal-1":
		it.Width = 1
	case "nonminimal-2":
		it.Width = 2
	case "nonminimal-4":
		it.Width = 4
	case "nonminimal-8":
		it.Width = 8
	case "indefinite":
		it.Indef = true
	case "permute-keys":
		n := len(it.Items)
		// rotate the entries by one
		it.Items = append(append([]*Item{}, it.Items[2:n]...), it.Items[0], it.Items[1])
	case "undefined-for-null":
		it.Raw = []byte{0xf7}
	case "float-shorter":
		f := math.Float64frombits(it.Arg)
		out := []byte{0xfa, 0, 0, 0, 0}
		binary.BigEndian.PutUint32(out[1:], math.Float32bits(float32(f)))
		it.Raw = out
	default:
		panic(fmt.Sprintf("cbor.Apply: %s", k))
	}
}

// Helpers to build items.
func Uint(v uint64) *Item   { return &Item{Major: 0, Arg: v} }
func BytesItem(b []byte) *Item { return &Item{Major: 2, Arg: uint64(len(b)), Data: b} }
func Text(s string) *Item   { return &Item{Major: 3, Arg: uint64(len(s)), Data: []byte(s)} }
func Array(xs ...*Item) *Item { return &Item{Major: 4, Arg: uint64(len(xs)), Items: xs} }

// DeclaredTooLong scans b leniently (as far as it is well-formed) and reports
// whether some array / map / string head declares more entries / bytes than
// there are bytes left in the input. This is the syntactic predicate of the
// known finding C09/mem/dagcbor-declared-length.
func DeclaredTooLong(b []byte) bool {
	pos := 0
	var walk func(depth int) bool // returns false when scanning must stop
	found := false
	walk = func(depth int) bool {
		if depth > 4096 || pos >= len(b) {
			return false
		}
		ib := b[pos]
		major, info := ib>>5, ib&0x1f
		pos++
		var arg uint64
		switch {
		case info < 24:
			arg = uint64(info)
		case info == 24:
			if pos+1 > len(b) {
				return false
			}
			arg = uint64(b[pos])
			pos++
		case info == 25:
			if pos+2 > len(b) {
				return false
			}
			arg = uint64(binary.BigEndian.Uint16(b[pos:]))
			pos += 2
		case info == 26:
			if pos+4 > len(b) {
				return false
			}
			arg = uint64(binary.BigEndian.Uint32(b[pos:]))
			pos += 4
		case info == 27:
			if pos+8 > len(b) {
				return false
			}
			arg = binary.BigEndian.Uint64(b[pos:])
			pos += 8
		case info == 31:
			// indefinite: items until break
			if major == 4 || major == 5 {
				for pos < len(b) && b[pos] != 0xff {
					if !walk(depth + 1) {
						return false
					}
				}
				pos++
				return true
			}
			if major == 2 || major == 3 {
				// indefinite-length string: definite chunks until break (the decoder of the dependency accepts them)
				for pos < len(b) && b[pos] != 0xff {
					if !walk(depth + 1) {
						return false
					}
				}
				pos++
				return true
			}
			return false
		default:
			return false
		}
		rem := uint64(len(b) - pos)
		switch major {
		case 0, 1, 7:
			return true
		case 2, 3:
			if arg > rem {
				found = found || arg > rem+64
				return false
			}
			pos += int(arg)
			return true
		case 4, 5:
			n := arg
			if major == 5 {
				if arg > rem {
					found = true
					return false
				}
				n = arg * 2
			}
			if arg > rem {
				found = true
				return false
			}
			for i := uint64(0); i < n; i++ {
				if !walk(depth + 1) {
					return false
				}
			}
			return true
		case 6:
			return walk(depth + 1)
		}
		return false
	}
	for pos < len(b) {
		if !walk(0) {
			break
		}
	}
	return found
}

// DeclaredTooLongAnywhere is the structure-blind form of the same predicate: at SOME offset of b there is an
// array / map head with a 4- or 8-byte count that exceeds the bytes that follow it. Used only to classify an
// allocation that has already exceeded the bound, for inputs on which the structural walk above loses track
// (a mutated input need not be well-formed up to the hostile head).
func DeclaredTooLongAnywhere(b []byte) bool {
	for i := 0; i < len(b); i++ {
		major, info := b[i]>>5, b[i]&0x1f
		if major != 4 && major != 5 {
			continue
		}
		var arg uint64
		switch info {
		case 26:
			if i+5 > len(b) {
				continue
			}
			arg = uint64(binary.BigEndian.Uint32(b[i+1:]))
			if arg > uint64(len(b)-i-5) && arg >= 1<<16 {
				return true
			}
		case 27:
			if i+9 > len(b) {
				continue
			}
			arg = binary.BigEndian.Uint64(b[i+1:])
			if arg > uint64(len(b)-i-9) && arg >= 1<<16 {
				return true
			}
		}
	}
	return false
}

#!/bin/sh
# usage: tools/r4.sh <Cxx> <name> [more checks]  -- confirm + archive a round-4 seed, run current checks, and the as-built check of the owner
p=$1; name=$2; shift 2
python3 tools/seed_verify.py /tmp/seed/out_${p}_r16 $name $p $p "$@" 2>&1 | grep -E "confirmed|^C[0-9]+ \{|does not apply"
echo "as-built: $(/tmp/verif_asbuilt/tools/seedrun.sh /tmp/seed/out_${p}_r16/patch.diff quick $p)"

package chain

import (
	"math"
	"fmt"
	"strings"

	"pgregory.net/rapid"

	"verif/harness/pol"
	"verif/harness/sel"
	"verif/harness/val"
)

// GenOpt steers DrawConforming.
type GenOpt struct {
	MaxLen      int
	Commands    bool // draw attenuating command sequences (else all equal)
	Policies    bool // put satisfiable policies on links
	Times       bool // add bounds that keep every token valid now
	Irrelevant  bool // randomise audience / meta / nonce / cause / iat / decoded
	Args        bool // draw an argument map
	NoAudience  bool
	MixedAlgs   bool // principals of every key algorithm (signatures then differ between two builds of the same case)
}

var mixedAlgs bool

// "/bar", "/a", "/foo": an EMPTY segment followed by a non-empty one ("/foo//bar" is a valid command, distinct
// from and unrelated to "/foo/bar")
var CmdSegs = []string{"foo", "foobar", "fo", "bar", "a", "ab", "é", "λόγος", "λόγοσ", "σ", "ς", "/bar", "/a", "/foo", "θ", "ϑ", "*", "*", "**", "?", "%2a", "..", ".", "~", "+", "{x}", ":id",
	// names of the length real commands have (a command of three of these is 40..90 bytes long)
	"storage", "bucket-objects", "object-versions", "write", "0123456789abcdef0123456789abcdef", "crud"}

func drawPrin(t *rapid.T, label string) int {
	if mixedAlgs {
		return rapid.IntRange(0, NPrincipalsMixed-1).Draw(t, label)
	}
	return rapid.IntRange(0, NPrincipals-1).Draw(t, label)
}

func childCmd(t *rapid.T, base string, label string) string {
	n := rapid.IntRange(0, 2).Draw(t, label+"_ext")
	c := base
	for i := 0; i < n; i++ {
		seg := rapid.SampledFrom(CmdSegs).Draw(t, label+"_seg")
		if c == "/" {
			c = "/" + seg
		} else {
			c = c + "/" + seg
		}
	}
	return c
}

var FarFuture = []int64{10413792000, 16725225600, 32503680000, 253402300799, (1 << 53) - 1}

var HourOffsets = []int64{3600, 7200, 86400, 365 * 86400, 100 * 365 * 86400}

func i64(v int64) *int64 { return &v }

// ArgKeys is the alphabet of top-level argument names used by the chain checks.
var ArgKeys = []string{"a", "b", "c", "n", "s", "l", "foo"}

// globEscape writes a literal text as a like pattern (stars and backslashes escaped).
func globEscape(x string) string {
	out := ""
	for i := 0; i < len(x); i++ {
		if x[i] == '*' || x[i] == '\\' {
			out += `\`
		}
		out += string(x[i])
	}
	return out
}

// DrawArgs draws a small argument map with scalar and list values.
func DrawArgs(t *rapid.T, label string) []val.KV {
	n := rapid.IntRange(0, 5).Draw(t, label+"_n")
	var out []val.KV
	seen := map[string]bool{}
	for i := 0; i < n; i++ {
		k := rapid.SampledFrom(ArgKeys).Draw(t, label+"_k")
		if seen[k] {
			continue
		}
		seen[k] = true
		var v val.V
		switch rapid.IntRange(0, 5).Draw(t, label+"_vk") {
		case 0, 1:
			v = val.Int(int64(rapid.IntRange(-3, 10).Draw(t, label+"_i")))
		case 2:
			v = val.Str(rapid.SampledFrom([]string{"", "a", "abc", "foo", "foobar", "Alice", "bob@example.com", `C:\Users\alice\notes.txt`, "50%*off", `a\*b`, `\\host\share`, "*", `\`}).Draw(t, label+"_s"))
		case 3:
			v = val.Float(float64(rapid.IntRange(-4, 8).Draw(t, label+"_f")) + 0.5)
			if rapid.IntRange(0, 5).Draw(t, label+"_fnf") == 3 {
				// a float with no place in the order of the finite ones: the constructor takes it, the wire carries it
				v = val.Float(rapid.SampledFrom([]float64{math.Inf(1), math.Inf(-1), math.NaN()}).Draw(t, label+"_fnfv"))
			}
		case 4:
			v = val.Bool(rapid.Bool().Draw(t, label+"_b"))
		default:
			m := rapid.IntRange(0, 3).Draw(t, label+"_ln")
			l := val.V{K: "list"}
			for j := 0; j < m; j++ {
				l.L = append(l.L, val.Int(int64(rapid.IntRange(0, 5).Draw(t, label+"_li"))))
			}
			v = l
		}
		out = append(out, val.KV{K: k, V: v})
	}
	if len(out) > 0 && rapid.IntRange(0, 4).Draw(t, label+"_twin") == 2 {
		// a second key that is the first one DECORATED with characters that mean something to a selector parser
		// (quotes, brackets, dots, question marks, blanks), holding a NEIGHBOURING value: a statement on the one
		// must not be answered with the value of the other
		e := out[rapid.IntRange(0, len(out)-1).Draw(t, label+"_twin_of")]
		deco := rapid.SampledFrom([]string{"'%s'", "%s?", ".%s", "[%s]", "%s[]", " %s", "%s ", "%s.", "'%s", "%s'", "`%s`", "(%s)", "%s[0]", "$%s", "%s:", "-%s", `CORP\%s`, `%s\n`, `\%s`, `%s\\x`}).Draw(t, label+"_twin_deco")
		k := fmt.Sprintf(deco, e.K)
		var v val.V
		ok := true
		switch e.V.Kind() {
		case "int":
			v = val.Int(e.V.I + int64(rapid.SampledFrom([]int{-1, 1}).Draw(t, label+"_twin_d")))
		case "str":
			v = val.Str(e.V.StrVal() + "x")
		case "bool":
			v = val.Bool(!e.V.B)
		default:
			ok = false
		}
		if ok && !seen[k] {
			seen[k] = true
			out = append(out, val.KV{K: k, V: v})
		}
	}
	if !seen["deep"] && rapid.IntRange(0, 7).Draw(t, label+"_deep") == 0 {
		// a value nested d containers deep, every d from 1 to 70 (and a few beyond): nothing in the rules bounds
		// the nesting of arguments; whatever the constructor accepts must not be refused at check time
		d := rapid.IntRange(1, 70).Draw(t, label+"_depth")
		if rapid.IntRange(0, 9).Draw(t, label+"_deeper") == 0 {
			d = rapid.SampledFrom([]int{100, 127, 128, 129, 200, 256}).Draw(t, label+"_depthb")
		}
		v := val.Int(7)
		for i := 0; i < d; i++ {
			if (i+d)%2 == 0 {
				v = val.List(v)
			} else {
				v = val.Map(val.E("n", v))
			}
		}
		out = append(out, val.KV{K: "deep", V: v})
	}
	return out
}

// DrawStmt draws one flat statement over the top-level fields of args whose
// truth on args is fixed by the property text; want selects its truth.
// Statements are comparisons / like / all / any with scalar or list literals
// (G10). like subjects never contain '*' or '\'.
func DrawStmt(t *rapid.T, args []val.KV, want bool, label string) (pol.Stmt, bool) {
	data := val.V{K: "map", M: args}
	// occasionally the statement sits under n nested nots (n around the powers of two up to 256): its truth is
	// the inner truth flipped n times, however deep it stands
	nots := 0
	if rapid.IntRange(0, 39).Draw(t, label+"_deepnot") == 17 {
		nots = rapid.SampledFrom([]int{1, 2, 3, 31, 32, 33, 63, 64, 65, 66, 67, 100, 101, 127, 128, 129, 130, 255, 256, 257}).Draw(t, label+"_nots")
	}
	inner := want
	if nots%2 == 1 {
		inner = !want
	}
	for attempt := 0; attempt < 12; attempt++ {
		s := drawStmtOnce(t, args, inner, fmt.Sprintf("%s_%d", label, attempt))
		ok, spec := StmtHolds(s, data)
		if !spec || ok != inner {
			continue
		}
		if nots > 0 {
			// only over data that resolves: under a not, "missing" is not the classical false
			if r := pol.Eval(s, data); r != pol.True && r != pol.False {
				continue
			}
			for i := 0; i < nots; i++ {
				s = pol.Stmt{Op: "not", Sub: []pol.Stmt{s}}
			}
			if ok2, spec2 := StmtHolds(s, data); !spec2 || ok2 != want {
				continue
			}
		}
		return s, true
	}
	return pol.Stmt{}, false
}

func drawStmtOnce(t *rapid.T, args []val.KV, want bool, label string) pol.Stmt {
	present := len(args) > 0 && rapid.IntRange(0, 9).Draw(t, label+"_present") < 8
	if !present {
		// missing field: required => false, optional => true
		used := map[string]bool{}
		for _, e := range args {
			used[e.K] = true
		}
		name := "zz"
		for _, k := range []string{"missing", "zz", "q"} {
			if !used[k] {
				name = k
				break
			}
		}
		lit := val.Int(1)
		return pol.Stmt{Op: rapid.SampledFrom([]string{"==", ">", "<="}).Draw(t, label+"_op"),
			Sel: sel.Sel{{Kind: "field", Name: name, Opt: want}}, Lit: &lit}
	}
	e := args[rapid.IntRange(0, len(args)-1).Draw(t, label+"_e")]
	fs := sel.Sel{{Kind: "field", Name: e.K, Opt: rapid.IntRange(0, 4).Draw(t, label+"_opt") == 0}}
	if sel.NeedsQuote(e.K) {
		fs[0].Kind = "qfield"
	}
	switch e.V.Kind() {
	case "int":
		d := int64(rapid.IntRange(-2, 2).Draw(t, label+"_d"))
		lit := val.Int(e.V.I + d)
		op := rapid.SampledFrom([]string{"==", "<", "<=", ">", ">="}).Draw(t, label+"_op")
		return pol.Stmt{Op: op, Sel: fs, Lit: &lit}
	case "float":
		d := float64(rapid.IntRange(-2, 2).Draw(t, label+"_d"))
		lit := val.Float(e.V.Float64() + d)
		if f := e.V.Float64(); math.IsNaN(f) || math.IsInf(f, 0) {
			lit = val.Float(100.5 * d)
		}
		op := rapid.SampledFrom([]string{"==", "<", "<=", ">", ">="}).Draw(t, label+"_op")
		return pol.Stmt{Op: op, Sel: fs, Lit: &lit}
	case "str":
		s := e.V.StrVal()
		switch rapid.IntRange(0, 3).Draw(t, label+"_sm") {
		case 0:
			lit := val.Str(s)
			return pol.Stmt{Op: "==", Sel: fs, Lit: &lit}
		case 1:
			lit := val.Str(s + "x")
			return pol.Stmt{Op: "==", Sel: fs, Lit: &lit}
		case 2:
			k := rapid.IntRange(0, len(s)).Draw(t, label+"_cut")
			return pol.Stmt{Op: "like", Sel: fs, Pat: globEscape(s[:k]) + "*"}
		default:
			return pol.Stmt{Op: "like", Sel: fs, Pat: "*" + rapid.SampledFrom([]string{"", "@example.com", "bar", "zzz", "c", `\\notes.txt`, `\*off`, "b"}).Draw(t, label+"_suf")}
		}
	case "bool":
		lit := val.Bool(rapid.Bool().Draw(t, label+"_bv"))
		return pol.Stmt{Op: "==", Sel: fs, Lit: &lit}
	case "list":
		lit := val.Int(int64(rapid.IntRange(0, 5).Draw(t, label+"_qv")))
		inner := pol.Stmt{Op: rapid.SampledFrom([]string{"==", ">=", "<"}).Draw(t, label+"_qop"), Sel: sel.Sel{{Kind: "id"}}, Lit: &lit}
		return pol.Stmt{Op: rapid.SampledFrom([]string{"all", "any"}).Draw(t, label+"_q"), Sel: fs, Sub: []pol.Stmt{inner}}
	}
	lit := e.V
	return pol.Stmt{Op: "==", Sel: fs, Lit: &lit}
}

// DrawConforming draws a case in which R1..R9 all hold by construction.
func DrawConforming(t *rapid.T, o GenOpt) Case {
	if o.MaxLen == 0 {
		o.MaxLen = 6
	}
	mixedAlgs = o.MixedAlgs
	defer func() { mixedAlgs = false }()
	n := rapid.IntRange(1, o.MaxLen).Draw(t, "len")
	if o.MaxLen >= 6 && rapid.IntRange(0, 24).Draw(t, "longchain") == 0 {
		// nothing in the rules bounds the length of a chain
		n = rapid.SampledFrom([]int{7, 8, 9, 12, 16, 17, 31, 32, 33, 64, 65, 100}).Draw(t, "longlen")
	}
	subj := drawPrin(t, "subject")
	var c Case
	c.Inv.Sub = subj
	c.Inv.Aud = -1
	c.Inv.NonceLen = 12
	// principals p[0] = invoker ... ; link i: aud=p[i], iss=p[i+1]; last iss = subject
	p := make([]int, n+1)
	for i := 0; i < n; i++ {
		switch rapid.IntRange(0, 9).Draw(t, "pmode") {
		case 0:
			p[i] = subj // subject re-appears (e.g. subject == invoker)
		case 1:
			if i > 0 {
				p[i] = p[i-1] // self-delegation link
				break
			}
			fallthrough
		default:
			p[i] = drawPrin(t, "p")
		}
	}
	p[n] = subj
	c.Inv.Iss = p[0]
	// commands
	cmds := make([]string, n+1) // cmds[n] = root link's, cmds[0] = invocation's ... index k: link k-1 for k>=1
	root := "/"
	if o.Commands {
		switch rapid.IntRange(0, 3).Draw(t, "rootcmd") {
		case 0:
			root = "/"
		default:
			root = childCmd(t, "/", "root")
		}
	} else {
		root = rapid.SampledFrom([]string{"/", "/foo", "/foo/bar"}).Draw(t, "cmd")
	}
	cur := root
	linkCmd := make([]string, n)
	for i := n - 1; i >= 0; i-- {
		linkCmd[i] = cur
		if o.Commands {
			cur = childCmd(t, cur, "c")
		}
	}
	_ = cmds
	c.Inv.Cmd = cur
	if o.Args || o.Policies {
		c.Inv.Args = DrawArgs(t, "args")
	}
	for i := 0; i < n; i++ {
		l := Link{Iss: p[i+1], Aud: p[i], Sub: subj, Cmd: linkCmd[i], Nonce: byte(i)}
		if o.Policies && rapid.IntRange(0, 2).Draw(t, "haspol") > 0 {
			m := rapid.IntRange(1, 3).Draw(t, "npol")
			if rapid.IntRange(0, 14).Draw(t, "longpol") == 0 {
				// nor the number of statements of a policy
				m = rapid.SampledFrom([]int{4, 5, 8, 16, 17, 33, 64}).Draw(t, "longpoln")
			}
			for j := 0; j < m; j++ {
				if s, ok := DrawStmt(t, c.Inv.Args, true, fmt.Sprintf("st%d_%d", i, j)); ok {
					l.Pol = append(l.Pol, s)
				}
			}
			l.PolIPLD = rapid.Bool().Draw(t, "polipld")
		}
		if o.Times {
			switch rapid.IntRange(0, 3).Draw(t, "tmode") {
			case 1:
				l.Exp = i64(rapid.SampledFrom(HourOffsets).Draw(t, "exp"))
			case 2:
				l.Nbf = i64(-rapid.SampledFrom(HourOffsets).Draw(t, "nbf"))
			case 3:
				l.Exp = i64(rapid.SampledFrom(HourOffsets).Draw(t, "exp"))
				l.Nbf = i64(-rapid.SampledFrom(HourOffsets).Draw(t, "nbf"))
			}
			if rapid.IntRange(0, 5).Draw(t, "farexp") == 0 {
				// "never expires" in practice: years 2300, 2500, 3000, 9999, and the largest admissible timestamp
				l.Exp = nil
				l.ExpAbs = i64(rapid.SampledFrom(FarFuture).Draw(t, "farexpv"))
			}
		}
		if o.Irrelevant {
			l.Decoded = rapid.Bool().Draw(t, "ldec")
		}
		c.Links = append(c.Links, l)
	}
	// the same delegation (same CID) may legitimately serve two hops of a chain
	switch rapid.IntRange(0, 7).Draw(t, "reuse") {
	case 0: // a self-delegation link walked twice
		for i, l := range c.Links {
			if l.Iss == l.Aud {
				dup := l
				c.Links = append(c.Links[:i+1], append([]Link{dup}, c.Links[i+1:]...)...)
				break
			}
		}
	case 1: // ping-pong: [B<-C (token X), C<-B, B<-C (token X again), ...]
		if len(c.Links) <= 4 {
			first := c.Links[0]
			back := Link{Iss: first.Aud, Aud: first.Iss, Sub: first.Sub, Cmd: first.Cmd, Nonce: 99, Nbf: first.Nbf, Exp: first.Exp, Decoded: first.Decoded}
			c.Links = append([]Link{first, back}, c.Links...)
		}
	}
	if o.Times && rapid.Bool().Draw(t, "invexp") {
		c.Inv.Exp = i64(rapid.SampledFrom(HourOffsets).Draw(t, "iexp"))
	}
	if o.Irrelevant {
		if !o.NoAudience {
			switch rapid.IntRange(0, 3).Draw(t, "audmode") {
			case 0:
			case 1:
				c.Inv.Aud = subj
			default:
				c.Inv.Aud = drawPrin(t, "aud")
			}
		}
		c.Inv.Decoded = rapid.Bool().Draw(t, "idec")
		c.Inv.Cause = rapid.Bool().Draw(t, "cause")
		c.Inv.NonceLen = rapid.SampledFrom([]int{12, 13, 16, 32, 64}).Draw(t, "noncelen")
		switch rapid.IntRange(0, 3).Draw(t, "iatmode") {
		case 0:
		case 1:
			c.Inv.NoIat = true
		case 2:
			c.Inv.Iat = i64(-rapid.SampledFrom(HourOffsets).Draw(t, "iat"))
		default:
			c.Inv.Iat = i64(rapid.SampledFrom(HourOffsets).Draw(t, "iat"))
		}
		nm := rapid.IntRange(0, 2).Draw(t, "nmeta")
		for j := 0; j < nm; j++ {
			c.Inv.Meta = append(c.Inv.Meta, val.KV{K: fmt.Sprintf("m%d", j), V: val.Str(rapid.SampledFrom([]string{"x", "", "meta"}).Draw(t, "mv"))})
		}
	}
	if rapid.IntRange(0, 5).Draw(t, "wellknown") == 2 {
		// a command with a meaning of its own in the UCAN specifications (revocation, attestation ...) with the
		// arguments such a command carries, under delegations that cover it: the rules of the chain are the rules
		// for EVERY command
		wk := rapid.SampledFrom([]string{"/ucan/revoke", "/ucan/revoke", "/ucan/attest", "/ucan", "/ucan/assert/claim", "/crud/read", "/msg/send", "/wasm/run"}).Draw(t, "wk_cmd")
		c.Inv.Cmd = wk
		for i := range c.Links {
			c.Links[i].Cmd = rapid.SampledFrom([]string{"/", "/", wk, wk[:strings.LastIndex(wk, "/")+1][:max(1, strings.LastIndex(wk, "/"))]}).Draw(t, "wk_link")
		}
		// keep the commands narrowing towards the invocation: sort by length, longest nearest to the invoker
		for i := 0; i+1 < len(c.Links); i++ {
			for j := i + 1; j < len(c.Links); j++ {
				if len(c.Links[j].Cmd) > len(c.Links[i].Cmd) {
					c.Links[i].Cmd, c.Links[j].Cmd = c.Links[j].Cmd, c.Links[i].Cmd
				}
			}
		}
		c.Inv.UcanArg = rapid.IntRange(1, 2).Draw(t, "wk_ucanarg")
		for i := range c.Links {
			c.Links[i].Pol = nil // statements drawn for the earlier arguments do not apply any more
		}
	}
	if rapid.IntRange(0, 3).Draw(t, "readerloader") == 2 {
		c.ReaderLoader = true
	}
	if rapid.IntRange(0, 3).Draw(t, "reseal") == 1 {
		for i := range c.Links {
			c.Links[i].Reseal = rapid.IntRange(0, 3).Draw(t, "reseal_n")
		}
	}
	if rapid.IntRange(0, 2).Draw(t, "optperm") == 1 {
		// the constructor options of every token in another order: they set different things, the order means nothing
		c.Inv.OptPerm = rapid.IntRange(1, 1<<16).Draw(t, "optperm_inv")
		for i := range c.Links {
			c.Links[i].OptPerm = rapid.IntRange(1, 1<<16).Draw(t, "optperm_link")
		}
	}
	return c
}

// otherPrin returns a principal different from all in avoid.
func otherPrin(t *rapid.T, label string, avoid ...int) int {
	for tries := 0; tries < 50; tries++ {
		p := drawPrin(t, label)
		ok := true
		for _, a := range avoid {
			if a == p {
				ok = false
			}
		}
		if ok {
			return p
		}
	}
	for p := 0; p < NPrincipals; p++ {
		ok := true
		for _, a := range avoid {
			if a == p {
				ok = false
			}
		}
		if ok {
			return p
		}
	}
	return 0
}

// PrincipalDeviations lists the deviation kinds of C01.
var PrincipalDeviations = []string{"rewire-aud", "rewire-iss", "subject-other", "subject-undef", "last-not-root",
	"foreign-root", "foreign-root-suffix", "subject-other-run", "root-in-audience", "swap", "duplicate", "truncate-root", "truncate-leaf", "missing", "loader-error",
	"empty", "wrong-invoker", "inv-subject-other", "reverse", "rotate", "near-twin-aud", "near-twin-sub", "near-twin-inv-sub", "foreign-proof", "foreign-proof", "root-ctor-foreign-issuer", "root-ctor-foreign-issuer", "root-ctor"}

// ApplyPrincipalDeviation mutates c in place with one labelled deviation at a drawn position.
func ApplyPrincipalDeviation(t *rapid.T, c *Case, kind string) {
	n := len(c.Links)
	pos := 0
	if n > 0 {
		pos = rapid.IntRange(0, n-1).Draw(t, "devpos")
	}
	label := fmt.Sprintf("%s@%d/%d", kind, pos, n)
	switch kind {
	case "rewire-aud":
		if n == 0 {
			return
		}
		c.Links[pos].Aud = otherPrin(t, "dev_p", c.Links[pos].Aud)
	case "rewire-iss":
		if n == 0 {
			return
		}
		c.Links[pos].Iss = otherPrin(t, "dev_p", c.Links[pos].Iss)
	case "subject-other":
		if n == 0 {
			return
		}
		c.Links[pos].Sub = otherPrin(t, "dev_p", c.Links[pos].Sub)
	case "subject-undef":
		if n == 0 {
			return
		}
		c.Links[pos].Sub = -1
	case "root-ctor-foreign-issuer", "root-ctor":
		// the last delegation (or, for "root-ctor", the one at the drawn position) is built with delegation.Root and an
		// option list that names the invocation's subject (one option list shared between New and Root calls): Root
		// makes the ISSUER the subject. With a foreign issuer the delegation is about that stranger - and stays in
		// memory, as built (a decoder recomputes nothing)
		if n == 0 {
			return
		}
		at := n - 1
		if kind == "root-ctor" {
			at = pos
		} else {
			c.Links[at].Iss = otherPrin(t, "dev_p", c.Links[at].Sub)
		}
		c.Links[at].ViaRoot = true
		c.Links[at].Decoded = false
		c.ReaderLoader = false
		label = fmt.Sprintf("%s@%d/%d", kind, at, n)
	case "last-not-root":
		if n == 0 {
			return
		}
		c.Links[n-1].Iss = otherPrin(t, "dev_p", c.Links[n-1].Sub)
		label = fmt.Sprintf("%s@%d/%d", kind, n-1, n)
	case "foreign-root":
		// the whole chain is about another subject E (rooted in E), invocation still names its own subject
		e := otherPrin(t, "dev_p", c.Inv.Sub)
		for i := range c.Links {
			c.Links[i].Sub = e
		}
		if n > 0 {
			c.Links[n-1].Iss = e
		}
		label = fmt.Sprintf("%s/%d", kind, n)
	case "foreign-root-suffix":
		// the last k links (k >= 1) are about, and rooted in, another principal E;
		// the links nearer to the invoker still name the invocation's subject
		if n == 0 {
			return
		}
		e := otherPrin(t, "dev_p", c.Inv.Sub)
		for i := pos; i < n; i++ {
			c.Links[i].Sub = e
		}
		c.Links[n-1].Iss = e
		label = fmt.Sprintf("%s@%d/%d", kind, pos, n)
	case "subject-other-run":
		if n == 0 {
			return
		}
		e := otherPrin(t, "dev_p", c.Inv.Sub)
		j := rapid.IntRange(pos, n-1).Draw(t, "devpos2")
		for i := pos; i <= j; i++ {
			c.Links[i].Sub = e
		}
		label = fmt.Sprintf("%s@%d-%d/%d", kind, pos, j, n)
	case "root-in-audience":
		e := otherPrin(t, "dev_p", c.Inv.Sub)
		for i := range c.Links {
			c.Links[i].Sub = e
		}
		if n > 0 {
			c.Links[n-1].Iss = e
		}
		c.Inv.Aud = e
		label = fmt.Sprintf("%s/%d", kind, n)
	case "swap":
		if n < 2 {
			return
		}
		j := rapid.IntRange(0, n-1).Draw(t, "devpos2")
		c.Links[pos], c.Links[j] = c.Links[j], c.Links[pos]
		label = fmt.Sprintf("%s@%d,%d/%d", kind, pos, j, n)
	case "near-twin-aud", "near-twin-sub", "near-twin-inv-sub":
		// a principal in a role that needs no signature replaced by a keyless near-twin of itself (see Prin)
		tw := 100 * rapid.IntRange(1, 3).Draw(t, "twinkind")
		switch kind {
		case "near-twin-aud":
			if n == 0 || c.Links[pos].Aud < 0 || c.Links[pos].Aud >= 100 {
				return
			}
			c.Links[pos].Aud += tw
		case "near-twin-sub":
			if n == 0 || c.Links[pos].Sub < 0 || c.Links[pos].Sub >= 100 {
				return
			}
			c.Links[pos].Sub += tw
		default:
			if c.Inv.Sub < 0 || c.Inv.Sub >= 100 {
				return
			}
			c.Inv.Sub += tw
		}
		label = fmt.Sprintf("%s(kind%d)@%d/%d", kind, tw/100, pos, n)
	case "foreign-proof":
		c.ForeignProof = 1 + rapid.IntRange(0, n).Draw(t, "foreignpos")
		c.ReaderLoader = rapid.IntRange(0, 2).Draw(t, "foreignreader") > 0
		label = fmt.Sprintf("%s@%d/%d(reader=%v)", kind, c.ForeignProof-1, n, c.ReaderLoader)
	case "reverse":
		// the whole proof list the other way round (root first, as older UCAN versions listed it)
		if n < 2 {
			return
		}
		for i, j := 0, n-1; i < j; i, j = i+1, j-1 {
			c.Links[i], c.Links[j] = c.Links[j], c.Links[i]
		}
		label = fmt.Sprintf("%s/%d", kind, n)
	case "rotate":
		if n < 2 {
			return
		}
		k := 1 + pos%(n-1)
		c.Links = append(append([]Link{}, c.Links[k:]...), c.Links[:k]...)
		label = fmt.Sprintf("%s@%d/%d", kind, k, n)
	case "duplicate":
		if n == 0 {
			return
		}
		dup := c.Links[pos]
		c.Links = append(c.Links[:pos+1], append([]Link{dup}, c.Links[pos+1:]...)...)
	case "truncate-root":
		if n == 0 {
			return
		}
		c.Links = c.Links[:n-1]
		label = fmt.Sprintf("%s/%d", kind, n)
	case "truncate-leaf":
		if n == 0 {
			return
		}
		c.Links = c.Links[1:]
		label = fmt.Sprintf("%s/%d", kind, n)
	case "missing":
		if n == 0 {
			return
		}
		c.Links[pos].Missing = true
		c.Links[pos].MissStyle = rapid.IntRange(0, 7).Draw(t, "missstyle")
		label = fmt.Sprintf("%s(style%d)@%d/%d", kind, c.Links[pos].MissStyle, pos, n)
	case "loader-error":
		if n == 0 {
			return
		}
		c.Links[pos].LoaderErr = true
	case "empty":
		c.Links = nil
		label = kind
	case "wrong-invoker":
		c.Inv.Iss = otherPrin(t, "dev_p", c.Inv.Iss)
		label = fmt.Sprintf("%s/%d", kind, n)
	case "inv-subject-other":
		c.Inv.Sub = otherPrin(t, "dev_p", c.Inv.Sub)
		label = fmt.Sprintf("%s/%d", kind, n)
	}
	c.Dev = append(c.Dev, label)
}

// PrincipalPattern renames principals in order of first appearance so that
// cases equal up to renaming share a key.
func PrincipalPattern(c Case) string {
	m := map[int]int{-1: -1}
	id := func(p int) int {
		if v, ok := m[p]; ok {
			return v
		}
		m[p] = len(m) - 1
		return m[p]
	}
	var b strings.Builder
	fmt.Fprintf(&b, "I%d.%d.%d", id(c.Inv.Iss), id(c.Inv.Sub), id(c.Inv.Aud))
	for _, l := range c.Links {
		fmt.Fprintf(&b, "|%d>%d:%d", id(l.Iss), id(l.Aud), id(l.Sub))
		if l.Missing {
			b.WriteString("m")
		}
		if l.LoaderErr {
			b.WriteString("e")
		}
	}
	return b.String()
}

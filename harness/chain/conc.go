package chain

// Concurrent checks of DIFFERENT invocations over different chains (with shared principals, possibly shared
// delegations): every decision must be the one the reference rules give for that invocation, exactly as when
// it is checked alone. Run in a race-detector build by the driver.

import (
	"fmt"
	"strings"
	"sync"
	"time"

	"github.com/ipfs/go-cid"
	"github.com/ucan-wg/go-ucan/token/delegation"

	"pgregory.net/rapid"

	"verif/harness/h"
	"verif/harness/pol"
)

type slowLoader struct {
	inner delegation.Loader
	d     time.Duration
}

func (s slowLoader) GetDelegation(c cid.Cid) (*delegation.Token, error) {
	time.Sleep(s.d)
	return s.inner.GetDelegation(c)
}

type lackingLoader struct {
	inner delegation.Loader
	hide  cid.Cid
}

func (l lackingLoader) GetDelegation(c cid.Cid) (*delegation.Token, error) {
	if c == l.hide {
		return nil, delegation.ErrDelegationNotFound
	}
	return l.inner.GetDelegation(c)
}

type ConcChains struct {
	Cases      []Case `json:"cases"`
	Goroutines int    `json:"goroutines"`
	Rounds     int    `json:"rounds"`
}

func RunConcChains(c *h.Ctx, cc ConcChains, owner string) {
	type live struct {
		b  *Built
		r  Rules
		cs Case
	}
	var ls []live
	for _, cs := range cc.Cases {
		b, err := Build(cs)
		if err != nil {
			continue
		}
		r := Eval(cs)
		if r.PolicyUnspec {
			continue
		}
		ls = append(ls, live{b, r, cs})
	}
	// twins: the SAME invocation and proof CIDs checked at the same time against a store that lacks one of the
	// delegations (each conforming chain gets one). Both stores take their time over a lookup, so that lookups of the
	// same CID by different checks overlap. What one check's store holds is nothing to the other check.
	var pairs [][2]int // (index of the chain with its full store, index of its twin)
	for i, l := range append([]live{}, ls...) {
		if !l.r.All(1, 9) || len(l.b.Cids) == 0 {
			continue
		}
		pairs = append(pairs, [2]int{i, len(ls)})
		full := *l.b
		full.Loader = slowLoader{inner: l.b.Loader, d: time.Duration(150+37*i) * time.Microsecond}
		ls[i].b = &full
		lacking := *l.b
		lacking.Loader = slowLoader{inner: lackingLoader{inner: l.b.Loader, hide: l.b.Cids[i%len(l.b.Cids)]}, d: time.Duration(120+11*i) * time.Microsecond}
		r2 := l.r
		r2.R[2] = false
		cs2 := l.cs
		cs2.Dev = append(append([]string{}, l.cs.Dev...), fmt.Sprintf("twin-store-lacks-delegation-%d", i%len(l.b.Cids)))
		ls = append(ls, live{&lacking, r2, cs2})
	}
	if len(ls) < 2 {
		return
	}
	var mu sync.Mutex
	bad, sig := "", ""
	// first touch: every chain is met by all goroutines at the same moment while its token objects are fresh (whatever a
	// token computes lazily on first use is computed under contention)
	for idx := range ls {
		l := ls[idx]
		start := make(chan struct{})
		var wg sync.WaitGroup
		for g := 0; g < cc.Goroutines; g++ {
			wg.Add(1)
			go func(g int) {
				defer wg.Done()
				<-start
				d := Decide(l.b, nil)
				if who, what := Owner(l.r, d.Allowed); who == owner {
					mu.Lock()
					if bad == "" {
						sig = what
						bad = fmt.Sprintf("goroutine %d, first touch: invocation %d checked by %d goroutines at the same moment: allowed=%v (%s), rules broken: %v\ncase: %s", g, idx, cc.Goroutines, d.Allowed, d.Err, l.r.Broken(), mustJSON(l.cs))
					}
					mu.Unlock()
				}
			}(g)
		}
		close(start)
		wg.Wait()
	}
	pv := h.Concurrently(cc.Goroutines, func(g int) {
		for rd := 0; rd < cc.Rounds; rd++ {
			l := ls[(g+rd)%len(ls)]
			if len(pairs) > 0 && rd%2 == 1 {
				// every other round: goroutines 2k and 2k+1 check the same chain at the same moment, one against the
				// full store, one against the store that lacks a delegation
				pr := pairs[(rd/2+g/2)%len(pairs)]
				l = ls[pr[g%2]]
			}
			var d Decision
			if (g+rd)%3 == 0 {
				d = DecideIdentityHook(l.b)
			} else {
				d = Decide(l.b, nil)
			}
			if who, what := Owner(l.r, d.Allowed); who != "" {
				mu.Lock()
				if who == owner && bad == "" {
					sig = what
					bad = fmt.Sprintf("goroutine %d, round %d: invocation %d checked while other invocations are being checked: allowed=%v (%s), rules broken: %v\ncase: %s", g, rd, (g+rd)%len(ls), d.Allowed, d.Err, l.r.Broken(), mustJSON(l.cs))
				}
				mu.Unlock()
			}
		}
	})
	if pv != nil {
		c.P.PanicSeen()
	}
	if bad != "" {
		c.Fail(owner+"/concurrent/"+sig, "%s", bad)
	}
	c.P.NonTrivial([]any{"concchains", len(ls), cc.Goroutines, cc.Rounds, mustJSON(cc.Cases[0].Dev)}, map[string]any{"concurrent_chains": len(ls), "goroutines": cc.Goroutines, "rounds": cc.Rounds})
	c.P.Class(fmt.Sprintf("concurrent-chains/goroutines=%d", cc.Goroutines))
}

func DrawConcChains(t *rapid.T) ConcChains {
	cc := ConcChains{Goroutines: rapid.IntRange(2, 8).Draw(t, "goroutines"), Rounds: rapid.IntRange(10, 80).Draw(t, "rounds")}
	n := rapid.IntRange(2, 5).Draw(t, "nchains")
	for i := 0; i < n; i++ {
		cs := DrawConforming(t, GenOpt{MaxLen: 4, Commands: true, Policies: true, Args: true, Irrelevant: true})
		// half of them are denied by exactly one unsatisfied statement at a drawn place
		if rapid.Bool().Draw(t, "deny") && len(cs.Links) > 0 {
			li := rapid.IntRange(0, len(cs.Links)-1).Draw(t, "flink")
			if s, ok := DrawStmt(t, cs.Inv.Args, false, "false"); ok {
				p := cs.Links[li].Pol
				at := rapid.IntRange(0, len(p)).Draw(t, "fidx")
				cs.Links[li].Pol = append(append(append(pol.Policy{}, p[:at]...), s), p[at:]...)
				cs.Dev = append(cs.Dev, fmt.Sprintf("false-stmt@%d/%d", li, len(cs.Links)))
			}
		}
		if len(cs.Dev) == 0 && len(cs.Links) > 0 && rapid.IntRange(0, 2).Draw(t, "widen") == 0 {
			// or by a link that widens the command (an unrelated, long command), on delegations that stay in memory as
			// built: several goroutines meet the fresh objects at the same moment
			li := rapid.IntRange(0, len(cs.Links)-1).Draw(t, "wlink")
			cs.Links[li].Cmd = "/unrelated/" + strings.Repeat("x", rapid.SampledFrom([]int{1, 100, 5000, 200000}).Draw(t, "wlen"))
			for i := range cs.Links {
				cs.Links[i].Decoded = false
			}
			cs.ReaderLoader = false
			cs.Dev = append(cs.Dev, fmt.Sprintf("widen-cmd@%d/%d", li, len(cs.Links)))
		}
		cc.Cases = append(cc.Cases, cs)
	}
	return cc
}

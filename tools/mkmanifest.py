#!/usr/bin/env python3
"""Regenerates /verif/MANIFEST.json from plan.json + manifest_meta.json."""
import json, os
ROOT = os.path.dirname(os.path.dirname(os.path.abspath(__file__)))
plan = json.load(open(os.path.join(ROOT, "plan.json")))
meta = json.load(open(os.path.join(ROOT, "manifest_meta.json")))
props = [json.loads(l) for l in open(os.path.join(ROOT, "properties.jsonl"))]
checks, na = [], []
for p in props:
    pid = p["id"]
    if pid in plan and pid in meta["checks"]:
        m = meta["checks"][pid]
        checks.append({
            "property_id": pid,
            "quick_cmd": "./check %s quick" % pid,
            "thorough_cmd": "./check %s thorough" % pid,
            "evidence_file": "/verif/evidence/%s.json" % pid,
            "replay_cmd_template": "./check %s --replay {path}" % pid,
            "engine": "rapid-harness",
            "level_claimed": {"category": plan[pid]["level"], "text": m["text"], "design_ref": "DESIGN.md §5 %s" % pid},
            "level_note": m["note"],
            "technique": m["technique"],
        })
    else:
        na.append({"property_id": pid, "reason": meta.get("not_applicable", {}).get(pid, "check not yet implemented in this commit (planned, see DESIGN.md §5)")})
man = {
    "version": 1,
    "setup_cmd": "./check --setup",
    "hooks": {"guard": "verif", "enable": "harness test binaries are built with `go test -c -tags verif` against /repo through a `replace` directive; no hook code exists in /repo (every observation point is public API; C20 reads unexported fields by reflection from the harness side)",
              "baseline_off_cmd": "cd /repo && GOFLAGS=-mod=mod GOPROXY=off GOSUMDB=off GOTOOLCHAIN=local go test -vet=off -count=1 ./...",
              "source_commits": [], "add_only": True},
    "engines": [{"name": "rapid-harness", "path": "/verif/harness", "serves_properties": [c["property_id"] for c in checks],
                 "kind_free_text": "Go module with one test package per property: pgregory.net/rapid v1.3.0 property-based tests over plain-data cases (generated, shrunk, saved as JSON replays), exhaustive enumerations of small finite sub-spaces, reference models written from the property statements (chain rules, policy evaluator, selector interpreter, glob matcher, command order, did:key codec); driver ./check (python3) builds against /repo's working tree, shards by seed, merges evidence"}],
    "checks": checks,
    "notes": meta.get("notes", ""),
    "not_applicable": na,
}
json.dump(man, open(os.path.join(ROOT, "MANIFEST.json"), "w"), indent=1)
print("checks:", len(checks), "not_applicable:", len(na))

// C17 — a container returns exactly the tokens put in, under their true CIDs.
package c17

import (
	"math/bits"
	"testing/iotest"
	"io"
	"bufio"
	"bytes"
	"encoding/base64"
	"encoding/binary"
	"fmt"
	"os"
	"sort"
	"testing"

	"github.com/ipfs/go-cid"
	mh "github.com/multiformats/go-multihash"
	"pgregory.net/rapid"

	"github.com/ucan-wg/go-ucan/pkg/container"
	"github.com/ucan-wg/go-ucan/token"
	"github.com/ucan-wg/go-ucan/token/delegation"
	"github.com/ucan-wg/go-ucan/token/invocation"

	"verif/harness/ctr"
	"verif/harness/env"
	"verif/harness/h"
	_ "verif/harness/warm"
	"verif/harness/keys"
	"verif/harness/tok"
	"verif/harness/val"
)

var P = h.New("C17", "exploration",
	"case = set of 0..6 sealed tokens (both types, six key algorithms) in a drawn insertion order x {car, car/base64, cbor, cbor/base64} x {bytes, stream} writer x {bytes, stream} reader, optionally one corruption: bit flip inside one token, token re-signed by the wrong key, truncated entry, (CAR) entry stored under the CID of other data, zero-length / oversize section, entry under a CID with another codec whose digest matches (positive control), or a bit flip at any byte of the container. Oracle: honest => key set == {CID(sealed_i)} and every value equals the directly decoded token; corrupted => error, or exactly the set of entries as they now are on the wire (harness's own container readers), each independently signature-verified and (CAR) digest-checked. Non-trivial = >= 2 tokens, or a mixed bytes/stream pair, or a corruption. Distinct by (format, writer/reader variant, set shape, corruption).")

func TestMain(m *testing.M) { os.Exit(P.Main(m)) }
func TestReplay(t *testing.T) { P.Replay(t) }

type Corr struct {
	Kind  string `json:"kind"`
	Entry int    `json:"entry,omitempty"`
	Off   int    `json:"off,omitempty"`
	Bit   int    `json:"bit,omitempty"`
}

type Case struct {
	Toks    []tok.Tok `json:"toks"`
	Order   []int     `json:"order"`
	Format  string    `json:"format"`
	WStream bool      `json:"w_stream"`
	RStream bool      `json:"r_stream"`
	// RKind: the dynamic type of the stream source (when RStream): 0 *bytes.Reader, 1 an opaque io.Reader (no Len,
	// no other method), 2 one byte per Read, 3 *bufio.Reader, 4 *bytes.Buffer, 5 two readers chained
	RKind int `json:"r_kind,omitempty"`
	Corr    *Corr     `json:"corr,omitempty"`
	Pad     int       `json:"pad,omitempty"` // that many more (simple, distinct) delegations in the set: sizes around the CBOR list-head boundaries
	// Twice: every token is sealed a second time by its issuer and that sealing is put in as well. Under a randomised
	// signature scheme (the NIST curves) the two sealings are different bytes under different CIDs: two entries that say
	// the same thing. Both were added; both come back.
	Twice bool `json:"twice,omitempty"`
}

func padTokens(n int) []tok.Tok {
	var out []tok.Tok
	for i := 0; i < n; i++ {
		out = append(out, tok.Tok{Dlg: &tok.Dlg{Iss: tok.KeyRef{Alg: keys.Ed25519, Idx: i % 4}, Aud: tok.KeyRef{Alg: keys.Ed25519, Idx: (i + 1) % 4}, Sub: "iss", Cmd: "/pad",
			Nonce: []byte(fmt.Sprintf("pad-nonce-%04d", i))}})
	}
	return out
}

var corrKinds = []string{"relabel-as-other-entry", "relabel-as-other-entry", "duplicate-section", "flip-in-token", "wrong-key", "truncate-entry", "mislabel", "zero-section", "oversize-section", "other-codec-cid", "flip-anywhere", "drop-last-byte", "truncate-at", "append-byte", "cbor-lower-count"}

func write(w container.Writer, format string, stream bool) ([]byte, error) {
	if !stream {
		switch format {
		case "car":
			return w.ToCar()
		case "carb64":
			return w.ToCarBase64()
		case "cbor":
			return w.ToCbor()
		default:
			return w.ToCborBase64()
		}
	}
	var buf bytes.Buffer
	var err error
	switch format {
	case "car":
		err = w.ToCarWriter(&buf)
	case "carb64":
		err = w.ToCarBase64Writer(&buf)
	case "cbor":
		err = w.ToCborWriter(&buf)
	default:
		err = w.ToCborBase64Writer(&buf)
	}
	return buf.Bytes(), err
}

type opaqueReader struct{ r io.Reader }

func (o opaqueReader) Read(p []byte) (int, error) { return o.r.Read(p) }

func read(b []byte, format string, stream bool, kind ...int) (container.Reader, error) {
	if !stream {
		switch format {
		case "car":
			return container.FromCar(b)
		case "carb64":
			return container.FromCarBase64(b)
		case "cbor":
			return container.FromCbor(b)
		default:
			return container.FromCborBase64(b)
		}
	}
	var r io.Reader = bytes.NewReader(b)
	if len(kind) > 0 {
		switch kind[0] % 6 {
		case 1:
			r = opaqueReader{bytes.NewReader(b)}
		case 2:
			r = iotest.OneByteReader(bytes.NewReader(b))
		case 3:
			r = bufio.NewReaderSize(bytes.NewReader(b), 16)
		case 4:
			r = bytes.NewBuffer(append([]byte{}, b...))
		case 5:
			r = io.MultiReader(bytes.NewReader(b[:len(b)/2]), bytes.NewReader(b[len(b)/2:]))
		}
	}
	switch format {
	case "car":
		return container.FromCarReader(r)
	case "carb64":
		return container.FromCarBase64Reader(r)
	case "cbor":
		return container.FromCborReader(r)
	default:
		return container.FromCborBase64Reader(r)
	}
}

type sealedTok struct {
	d      tok.Tok
	data   []byte
	id     cid.Cid
	view   tok.View
}

func rawCodecCid(data []byte) cid.Cid {
	h, _ := mh.Sum(data, mh.SHA2_256, -1)
	return cid.NewCidV1(0x55, h)
}

func keyset(r container.Reader) []string {
	var out []string
	for k := range r {
		out = append(out, k.String())
	}
	sort.Strings(out)
	return out
}

func run(c *h.Ctx, cs Case) {
	var sealed []sealedTok
	if cs.Pad > 0 {
		c.P.Class(fmt.Sprintf("pad=%d", cs.Pad))
	}
	for _, d := range append(append([]tok.Tok{}, cs.Toks...), padTokens(cs.Pad)...) {
		tk, priv, err := tok.Build(d)
		if err != nil {
			continue
		}
		data, id, err := tk.ToSealed(priv)
		if err != nil {
			continue
		}
		if _, _, err := token.FromSealed(data); err != nil {
			continue // unsealable tokens are C07's subject
		}
		v, _ := tok.ViewOf(tk)
		sealed = append(sealed, sealedTok{d, data, id, v})
		if cs.Twice {
			if data2, id2, err := tk.ToSealed(priv); err == nil && !bytes.Equal(data2, data) {
				if _, _, err := token.FromSealed(data2); err == nil {
					sealed = append(sealed, sealedTok{d, data2, id2, v})
					c.P.Class("sealed-twice:two-forms")
				}
			}
		}
	}
	// insertion order
	idx := make([]int, len(sealed))
	for i := range idx {
		idx[i] = i
	}
	for i := len(idx) - 1; i > 0 && len(cs.Order) > 0; i-- {
		j := cs.Order[i%len(cs.Order)] % (i + 1)
		idx[i], idx[j] = idx[j], idx[i]
	}
	w := container.NewWriter()
	corr := cs.Corr
	mustFail := false
	entryBad := -1
	if corr != nil && len(sealed) > 0 {
		entryBad = corr.Entry % len(sealed)
	}
	for _, i := range idx {
		s := sealed[i]
		id, data := s.id, s.data
		if corr != nil && i == entryBad {
			switch corr.Kind {
			case "wrong-key":
				e, err := env.Parse(data)
				if err == nil {
					other := keys.Get(s.d.Issuer().Alg, (s.d.Issuer().Idx+1)%4)
					if s.d.Issuer().Alg == keys.RSA {
						other = keys.Get(keys.RSA, (s.d.Issuer().Idx+1)%keys.RSAFast)
					}
					if bad, err := env.Seal(other.Priv, e.SigPayload); err == nil && !bytes.Equal(bad, data) {
						data, id, mustFail = bad, ctr.RefCID(bad), true
					}
				}
			case "truncate-entry":
				data = data[:len(data)-1-corr.Off%(len(data)-1)]
				mustFail = true // CAR: digest mismatch; CBOR container: truncated token
			case "mislabel":
				id = ctr.RefCID(append(append([]byte{}, data...), 'x')) // CID of other data (not itself in the set: the Writer is keyed by CID)
				if cs.Format == "car" || cs.Format == "carb64" {
					mustFail = true
				}
			case "other-codec-cid":
				id = rawCodecCid(data) // digest matches, codec differs: positive control
			}
		}
		w.AddSealed(id, data)
	}
	out, err := write(w, cs.Format, cs.WStream)
	if err != nil {
		c.Fail("C17/write-error/"+cs.Format, "writing an honest container failed: %v", err)
		return
	}
	// the bytes handed back belong to the caller: writing the SAME Writer again (every format, both variants),
	// and another Writer, must neither disturb them nor produce something else for the same set
	keep := append([]byte{}, out...)
	for _, f2 := range ctr.Formats {
		for _, st := range []bool{false, true} {
			again, err2 := write(w, f2, st)
			if err2 != nil {
				c.Fail("C17/write-error/"+f2, "writing the same Writer again failed: %v", err2)
				return
			}
			if corr == nil && f2 == cs.Format && st != cs.WStream {
				if r2, e2 := read(again, f2, !st); e2 != nil || len(r2) > len(sealed) {
					c.Fail("C17/honest-rejected/rewrite/"+f2, "the second output of the same Writer (%s) does not read back: %v", f2, e2)
					return
				}
			}
		}
	}
	other := container.NewWriter()
	other.AddSealed(ctr.RefCID([]byte("x")), []byte("not a token, never read"))
	_, _ = other.ToCbor()
	_, _ = other.ToCar()
	if !bytes.Equal(out, keep) {
		c.Fail("C17/output-changed-by-later-write/"+cs.Format, "the bytes returned by the %s writer (stream=%v) changed when the Writer (or another one) was written again", cs.Format, cs.WStream)
		return
	}
	isB64 := cs.Format == "carb64" || cs.Format == "cborb64"
	isCar := cs.Format == "car" || cs.Format == "carb64"
	// byte-level corruptions of the written container
	if corr != nil {
		switch corr.Kind {
		case "flip-in-token":
			if len(sealed) == 0 {
				break
			}
			raw := out
			if isB64 {
				raw, _ = base64.StdEncoding.DecodeString(string(out))
			}
			pos := bytes.Index(raw, sealed[entryBad].data)
			if pos >= 0 {
				raw = append([]byte{}, raw...)
				raw[pos+corr.Off%len(sealed[entryBad].data)] ^= 1 << (corr.Bit % 8)
				if isB64 {
					out = []byte(base64.StdEncoding.EncodeToString(raw))
				} else {
					out = raw
				}
			}
		case "relabel-as-other-entry", "duplicate-section":
			// CAR only, on the written bytes: a section's CID field is overwritten with the CID of ANOTHER section of
			// the same file (earlier or later) - the data under it no longer hashes to its label; or a whole
			// section is repeated (same CID, same data: harmless, the set is unchanged)
			if isCar {
				raw := out
				if isB64 {
					raw, _ = base64.StdEncoding.DecodeString(string(out))
				}
				secs, _, perr := ctr.CarSections(raw)
				if perr == nil && len(secs) >= 2 {
					j := corr.Entry % len(secs)
					i := (j + 1 + corr.Off%(len(secs)-1)) % len(secs)
					nr := append([]byte{}, raw...)
					if corr.Kind == "duplicate-section" {
						nr = append(append(append([]byte{}, raw[:secs[j].End]...), raw[secs[i].Start:secs[i].End]...), raw[secs[j].End:]...)
					} else if secs[i].Cid.ByteLen() == secs[j].Cid.ByteLen() && !secs[i].Cid.Equals(secs[j].Cid) {
						// the CID sits right after the section's uvarint length
						_, n := binary.Uvarint(raw[secs[j].Start:])
						copy(nr[secs[j].Start+n:], secs[i].Cid.Bytes())
						mustFail = true
					}
					if isB64 {
						out = []byte(base64.StdEncoding.EncodeToString(nr))
					} else {
						out = nr
					}
				}
			}
		case "flip-anywhere":
			if len(out) > 0 {
				out = append([]byte{}, out...)
				out[corr.Off%len(out)] ^= 1 << (corr.Bit % 8)
			}
		case "drop-last-byte":
			if len(out) > 0 {
				out = out[:len(out)-1]
			}
		case "cbor-lower-count":
			// the CBOR container's list announces one entry fewer than follow: the last entry is left over
			if !isCar {
				raw := out
				if isB64 {
					raw, _ = base64.StdEncoding.DecodeString(string(out))
				}
				// a1 66 "ctn-v1" <list head>: the head sits at offset 8
				if len(raw) > 9 && raw[0] == 0xa1 && raw[8] > 0x80 && raw[8] <= 0x97 {
					raw = append([]byte{}, raw...)
					raw[8]--
					mustFail = true
					if isB64 {
						out = []byte(base64.StdEncoding.EncodeToString(raw))
					} else {
						out = raw
					}
				}
			}
		case "truncate-at":
			// the container ends early, at any offset (in the base64 forms: of the text)
			if len(out) > 0 {
				out = out[:corr.Off%len(out)]
			}
		case "append-byte":
			// one stray byte after the container (a newline from a text transport, a NUL, the start of another frame)
			out = append(append([]byte{}, out...), byte(corr.Off))
		case "zero-section", "oversize-section":
			if isCar {
				raw := out
				if isB64 {
					raw, _ = base64.StdEncoding.DecodeString(string(out))
				}
				var sec []byte
				if corr.Kind == "zero-section" {
					sec = []byte{0x00}
				} else {
					sec = binary.AppendUvarint(nil, (32<<20)+1+uint64(corr.Off))
				}
				raw = append(append([]byte{}, raw...), sec...)
				mustFail = true
				if isB64 {
					out = []byte(base64.StdEncoding.EncodeToString(raw))
				} else {
					out = raw
				}
			}
		}
	}
	var rd container.Reader
	var rerr error
	if pn, pv, _ := h.Try(func() { rd, rerr = read(out, cs.Format, cs.RStream, cs.RKind) }); pn {
		c.P.PanicSeen()
		c.Fail("C17/read-panic/"+cs.Format, "reader panicked: %v", pv)
		return
	}
	variant := fmt.Sprintf("%s/w=%v/r=%v", cs.Format, cs.WStream, cs.RStream)
	c.P.Class("variant:" + variant)
	if corr == nil {
		// honest: exactly the tokens put in, under their true CIDs
		if rerr != nil {
			c.Fail("C17/honest-rejected/"+variant, "reading back an honest container failed: %v (%d tokens)", rerr, len(sealed))
			return
		}
		var want []string
		seen := map[string]bool{}
		for _, s := range sealed {
			k := ctr.RefCID(s.data).String()
			if !seen[k] {
				seen[k] = true
				want = append(want, k)
			}
		}
		sort.Strings(want)
		if got := keyset(rd); fmt.Sprint(got) != fmt.Sprint(want) {
			c.Fail("C17/honest-keyset/"+variant, "container returned keys %v, expected %v", got, want)
			return
		}
		nd, ni := 0, 0
		for _, s := range sealed {
			tk, err := rd.GetToken(ctr.RefCID(s.data))
			if err != nil {
				c.Fail("C17/honest-gettoken", "GetToken(%s): %v", s.id, err)
				continue
			}
			v, _ := tok.ViewOf(tk)
			if diff := tok.Diff(s.view, v); diff != "" {
				c.Fail("C17/honest-value-differs/"+tok.Field(diff), "token read from the container differs from the one put in: %s", diff)
			}
			dl, derr := rd.GetDelegation(ctr.RefCID(s.data))
			if (s.d.Dlg != nil) != (derr == nil && dl != nil) {
				c.Fail("C17/honest-getdelegation", "GetDelegation on a %s: %v", s.d.Kind(), derr)
			}
		}
		for k, t := range rd.GetAllDelegations() {
			nd++
			if _, ok := interface{}(t).(*delegation.Token); !ok || !seen[k.String()] {
				c.Fail("C17/honest-alldelegations", "GetAllDelegations yields a foreign entry")
			}
		}
		for k, t := range rd.GetAllInvocations() {
			ni++
			if _, ok := interface{}(t).(*invocation.Token); !ok || !seen[k.String()] {
				c.Fail("C17/honest-allinvocations", "GetAllInvocations yields a foreign entry")
			}
		}
		if nd+ni != len(want) {
			c.Fail("C17/honest-type-partition", "%d delegations + %d invocations != %d tokens", nd, ni, len(want))
		}
		// look-ups are reads: asking for CIDs that are NOT keys of the container (the same digest under another
		// codec or CID version, an unrelated CID) - found or not - leaves the container as it was
		before := keyset(rd)
		for _, s := range sealed {
			c0 := ctr.RefCID(s.data)
			dg, _ := mh.Sum(s.data, mh.SHA2_256, -1)
			for _, alias := range []cid.Cid{cid.NewCidV1(cid.Raw, c0.Hash()), cid.NewCidV0(dg), cid.NewCidV1(cid.DagJSON, c0.Hash()), ctr.RefCID(append([]byte("not in here"), s.data[:8]...))} {
				_, _ = rd.GetToken(alias)
				_, _ = rd.GetDelegation(alias)
			}
		}
		if after := keyset(rd); fmt.Sprint(after) != fmt.Sprint(before) {
			c.Fail("C17/honest-lookup-changes-container", "after GetToken / GetDelegation with CIDs that are not keys of the container, its keys are %v (before: %v)", after, before)
			return
		}
		// GetInvocation: THE invocation of a container that holds exactly one; an error otherwise
		gi, gerr := rd.GetInvocation()
		switch {
		case ni == 1 && (gerr != nil || gi == nil):
			c.Fail("C17/honest-getinvocation", "container with exactly one invocation: GetInvocation fails: %v", gerr)
		case ni == 1:
			found := false
			for _, s := range sealed {
				if s.d.Inv != nil {
					v, _ := tok.ViewOf(gi)
					found = found || tok.Diff(s.view, v) == ""
				}
			}
			if !found {
				c.Fail("C17/honest-getinvocation", "GetInvocation returned an invocation that was not put in")
			}
		case ni != 1 && gerr == nil:
			c.Fail("C17/honest-getinvocation", "container with %d invocations: GetInvocation returned one without error", ni)
		}
	} else {
		c.P.Class("corr:" + corr.Kind)
		if rerr == nil {
			c.P.Class("corr-accepted:" + corr.Kind)
			if mustFail {
				c.Fail("C17/corrupt-accepted/"+corr.Kind+"/"+cs.Format, "container with a %s entry was read without error (keys %v)", corr.Kind, keyset(rd))
				return
			}
			// whatever was accepted must be exactly the entries as they now are on the wire
			entries, digestsOK, perr := ctr.Entries(cs.Format, out)
			if perr != nil {
				c.Fail("C17/corrupt-accepted-unparseable/"+corr.Kind+"/"+cs.Format, "reader accepted a container the harness's own reader cannot parse (%v)", perr)
				return
			}
			if !digestsOK {
				c.Fail("C17/corrupt-digest-mismatch-accepted/"+cs.Format, "reader accepted a CAR in which a section's CID does not hash to its data (%s)", corr.Kind)
				return
			}
			var want []string
			seen := map[string]bool{}
			for _, e := range entries {
				k := ctr.RefCID(e).String()
				if !seen[k] {
					seen[k] = true
					want = append(want, k)
				}
				pe, err := env.Parse(e)
				if err != nil || pe.Verify() != nil {
					c.Fail("C17/corrupt-unverifiable-entry-accepted/"+corr.Kind, "reader accepted a container holding an entry that does not verify independently (%s, %v)", corr.Kind, err)
					return
				}
			}
			sort.Strings(want)
			if got := keyset(rd); fmt.Sprint(got) != fmt.Sprint(want) {
				c.Fail("C17/corrupt-partial-or-mislabelled/"+corr.Kind+"/"+cs.Format, "reader returned keys %v for a container whose wire entries have CIDs %v", got, want)
			}
		} else {
			c.P.Class("corr-rejected:" + corr.Kind)
		}
	}
	if len(sealed) >= 2 || cs.WStream != cs.RStream || corr != nil {
		shape := ""
		for _, s := range sealed {
			shape += s.d.Kind()[:1] + string(s.d.Issuer().Alg)[:2]
		}
		c.P.NonTrivial([]any{variant, shape, cs.Corr, cs.Order}, map[string]any{"format": cs.Format, "w_stream": cs.WStream, "r_stream": cs.RStream, "tokens": shape, "corruption": cs.Corr, "container_len": len(out), "read_error": rerr != nil})
	}
}

func draw(t *rapid.T) Case {
	var cs Case
	n := rapid.IntRange(0, 6).Draw(t, "n")
	for i := 0; i < n; i++ {
		cs.Toks = append(cs.Toks, tok.Gen(t, tok.GenCfg{Algs: keys.AllAlgs, NoTopNull: true, OnlyFuture: true, Values: val.Cfg{Depth: 1, MaxLen: 2, SafeInts: true, NoFloat: true, Big: true}}))
	}
	if rapid.IntRange(0, 19).Draw(t, "padded") == 0 {
		cs.Pad = rapid.SampledFrom([]int{17, 18, 19, 20, 21, 22, 23, 24, 25, 250, 255, 256, 257}).Draw(t, "pad") - n
		if cs.Pad < 0 {
			cs.Pad = 0
		}
	}
	cs.Order = rapid.SliceOfN(rapid.IntRange(0, 5), 1, 6).Draw(t, "order")
	cs.Format = rapid.SampledFrom(ctr.Formats).Draw(t, "format")
	cs.WStream = rapid.Bool().Draw(t, "ws")
	cs.RStream = rapid.Bool().Draw(t, "rs")
	if cs.RStream {
		cs.RKind = rapid.IntRange(0, 5).Draw(t, "rkind")
	}
	cs.Twice = rapid.IntRange(0, 3).Draw(t, "twice") == 0
	if rapid.IntRange(0, 2).Draw(t, "corrupt") == 0 {
		cs.Corr = &Corr{Kind: rapid.SampledFrom(corrKinds).Draw(t, "ck"), Entry: rapid.IntRange(0, 5).Draw(t, "ce"), Off: rapid.IntRange(0, 5000).Draw(t, "co"), Bit: rapid.IntRange(0, 7).Draw(t, "cb")}
	}
	return cs
}

var prop = h.Define(P, "container", draw, run)

func TestContainer(t *testing.T) { prop.Check(t) }

func fixedSets() [][]tok.Tok {
	k := func(a keys.Alg, i int) tok.KeyRef { return tok.KeyRef{Alg: a, Idx: i} }
	n := func(b byte) []byte { return bytes.Repeat([]byte{b}, 12) }
	d1 := tok.Tok{Dlg: &tok.Dlg{Iss: k(keys.Ed25519, 0), Aud: k(keys.Ed25519, 1), Sub: "iss", Cmd: "/foo", Nonce: n(1)}}
	d2 := tok.Tok{Dlg: &tok.Dlg{Iss: k(keys.P256, 1), Aud: k(keys.Ed25519, 2), Sub: "none", Cmd: "/", Nonce: n(2)}}
	i1 := tok.Tok{Inv: &tok.Inv{Iss: k(keys.Secp256k1, 2), Sub: k(keys.Ed25519, 0), Cmd: "/foo", Nonce: n(3), NoIat: true, Prf: [][]byte{{1}}}}
	return [][]tok.Tok{{}, {d1}, {d1, d2, i1}}
}

// TestVariantMatrix: every format x writer variant x reader variant on three fixed sets,
// and a bit flip at EVERY bit of the written container of the 3-token set.
func TestVariantMatrix(t *testing.T) {
	for _, set := range fixedSets() {
		for _, f := range ctr.Formats {
			for _, ws := range []bool{false, true} {
				for _, rs := range []bool{false, true} {
					prop.One(t, Case{Toks: set, Order: []int{1, 0, 2}, Format: f, WStream: ws, RStream: rs})
					for _, ck := range corrKinds[1:] {
						if ck == "flip-anywhere" || ck == "truncate-at" || ck == "append-byte" {
							continue
						}
						for e := 0; e < len(set); e++ {
							prop.One(t, Case{Toks: set, Order: []int{0}, Format: f, WStream: ws, RStream: rs, Corr: &Corr{Kind: ck, Entry: e, Off: 3}})
							if rs {
								for rk := 1; rk <= 5; rk++ {
									prop.One(t, Case{Toks: set, Order: []int{0}, Format: f, WStream: ws, RStream: rs, RKind: rk, Corr: &Corr{Kind: ck, Entry: e, Off: 3}})
								}
							}
						}
					}
				}
			}
		}
	}
	// the container of the 3-token and of the 1-token set cut at EVERY offset, and followed by every byte value
	for _, set := range fixedSets()[1:] {
		for _, f := range ctr.Formats {
			for _, rs := range []bool{false, true} {
				for off := 0; off < 1500; off++ {
					prop.One(t, Case{Toks: set, Order: []int{0}, Format: f, RStream: rs, RKind: off % 6, Corr: &Corr{Kind: "truncate-at", Off: off}})
				}
				for b := 0; b < 256; b++ {
					prop.One(t, Case{Toks: set, Order: []int{0}, Format: f, RStream: rs, RKind: b % 6, Corr: &Corr{Kind: "append-byte", Off: b}})
					if rs && b%16 == 10 {
						for rk := 0; rk < 6; rk++ {
							prop.One(t, Case{Toks: set, Order: []int{0}, Format: f, RStream: rs, RKind: rk, Corr: &Corr{Kind: "append-byte", Off: b}})
						}
					}
				}
			}
		}
	}
	set := fixedSets()[2]
	stride := h.N(3, 1)
	for _, f := range ctr.Formats {
		for off := 0; off < 1400; off += stride {
			for bit := 0; bit < 8; bit++ {
				prop.One(t, Case{Toks: set, Order: []int{0}, Format: f, RStream: off%2 == 0, Corr: &Corr{Kind: "flip-anywhere", Off: off, Bit: bit}})
			}
		}
	}
}

// ---------- concurrent writers / readers (race-detector build) ----------

type ConcCase struct {
	Toks       []tok.Tok `json:"toks"`
	Goroutines int       `json:"goroutines"`
}

func runConc(c *h.Ctx, cc ConcCase) {
	var sealed []sealedTok
	for _, d := range cc.Toks {
		tk, priv, err := tok.Build(d)
		if err != nil {
			continue
		}
		data, id, err := tk.ToSealed(priv)
		if err != nil {
			continue
		}
		if _, _, err := token.FromSealed(data); err != nil {
			continue
		}
		v, _ := tok.ViewOf(tk)
		sealed = append(sealed, sealedTok{d, data, id, v})
	}
	if len(sealed) == 0 {
		return
	}
	var want []string
	for _, s := range sealed {
		want = append(want, ctr.RefCID(s.data).String())
	}
	sort.Strings(want)
	uniq := want[:0]
	for i, w := range want {
		if i == 0 || w != want[i-1] {
			uniq = append(uniq, w)
		}
	}
	bad := make(chan string, 16)
	report := func(s string) {
		select {
		case bad <- s:
		default:
		}
	}
	// one shared reader, iterated by everybody, plus private write/read round trips
	w0 := container.NewWriter()
	for _, s := range sealed {
		w0.AddSealed(s.id, s.data)
	}
	b0, _ := w0.ToCar()
	shared, err := container.FromCar(b0)
	if err != nil {
		c.Fail("C17/honest-rejected/car", "honest CAR rejected: %v", err)
		return
	}
	if pv := h.Concurrently(cc.Goroutines, func(g int) {
		for r := 0; r < 3; r++ {
			format := ctr.Formats[(g+r)%4]
			w := container.NewWriter()
			for _, s := range sealed {
				w.AddSealed(s.id, s.data)
			}
			out, err := write(w, format, (g+r)%2 == 0)
			if err != nil {
				report("write failed under concurrency: " + err.Error())
				continue
			}
			keep := append([]byte{}, out...)
			rd, err := read(out, format, r%2 == 0)
			if err != nil {
				report(format + ": honest container rejected under concurrency: " + err.Error())
				continue
			}
			if fmt.Sprint(keyset(rd)) != fmt.Sprint(uniq) {
				report(format + ": wrong key set under concurrency")
			}
			if !bytes.Equal(keep, out) {
				report(format + ": writer output changed while other goroutines were writing")
			}
			n := 0
			for range shared.GetAllDelegations() {
				n++
			}
			for range shared.GetAllInvocations() {
				n++
			}
			if n != len(uniq) {
				report("shared reader iteration yields a different number of tokens under concurrency")
			}
			for _, s := range sealed {
				if tk, err := shared.GetToken(ctr.RefCID(s.data)); err != nil {
					report("shared reader lost a token under concurrency")
				} else if v, _ := tok.ViewOf(tk); tok.Diff(s.view, v) != "" {
					report("shared reader returns a different token under concurrency")
				}
			}
		}
	}); pv != nil {
		c.Fail("C17/concurrent/panic", "panic under concurrent container use: %v", pv)
	}
	close(bad)
	for b := range bad {
		c.Fail("C17/concurrent", "%s", b)
	}
	c.P.NonTrivial([]any{"conc", len(sealed), cc.Goroutines}, map[string]any{"mode": "concurrent", "tokens": len(sealed), "goroutines": cc.Goroutines})
}

var concProp = h.Define(P, "concurrent", func(t *rapid.T) ConcCase {
	cc := ConcCase{Goroutines: rapid.IntRange(2, 8).Draw(t, "goroutines")}
	n := rapid.IntRange(1, 4).Draw(t, "n")
	for i := 0; i < n; i++ {
		cc.Toks = append(cc.Toks, tok.Gen(t, tok.GenCfg{Algs: []keys.Alg{keys.Ed25519, keys.Ed25519, keys.P256}, NoTopNull: true, OnlyFuture: true, Values: val.Cfg{Depth: 1, MaxLen: 2, SafeInts: true, NoFloat: true, Big: true}}))
	}
	return cc
}, runConc)

func TestConcurrentContainers(t *testing.T) { concProp.Check(t) }

// TestSizeSweep: a token of every sealed size around the framing / buffer
// boundaries, alone and next to a small one, through every format and
// writer / reader variant.
func TestSizeSweep(t *testing.T) {
	small := fixedSets()[1][0]
	n := 0
	for _, size := range tok.SweepSizes() {
		d, _, ok := tok.PaddedDlg(size)
		if !ok {
			continue
		}
		for fi, f := range ctr.Formats {
			for v := 0; v < 4; v++ {
				if (size+fi+v)%2 == 1 && !h.Thorough() {
					continue // quick: half of the variant matrix per size, alternating
				}
				set := []tok.Tok{d}
				if v%2 == 1 {
					set = []tok.Tok{small, d}
				}
				prop.One(t, Case{Toks: set, Order: []int{v}, Format: f, WStream: v&1 == 1, RStream: v&2 == 2})
				n++
			}
		}
	}
	P.SetExtra("size_sweep_cases", n)
}

// ---------- section boundaries at round stream offsets ----------

func paddedAt(target int, idx byte) (tok.Tok, bool) {
	mk := func(k int) (tok.Tok, int) {
		pad := make([]byte, k)
		for i := range pad {
			pad[i] = 'a' + byte(i%26)
		}
		d := tok.Tok{Dlg: &tok.Dlg{Iss: tok.KeyRef{Alg: keys.Ed25519, Idx: 0}, Aud: tok.KeyRef{Alg: keys.Ed25519, Idx: 1}, Sub: "iss", Cmd: "/pad",
			Nonce: append([]byte("padpadpadpa"), idx), Meta: []tok.KVal{{K: "pad", V: val.Bytes(pad)}}}}
		tk, priv, err := tok.Build(d)
		if err != nil {
			return d, -1
		}
		b, _, err := tk.ToSealed(priv)
		if err != nil {
			return d, -1
		}
		return d, len(b)
	}
	k := target - 400
	if k < 0 {
		return tok.Tok{}, false
	}
	for try := 0; try < 6; try++ {
		d, n := mk(k)
		if n < 0 {
			return tok.Tok{}, false
		}
		if n == target {
			return d, true
		}
		k += target - n
		if k < 0 {
			return tok.Tok{}, false
		}
	}
	return tok.Tok{}, false
}

// TestRoundBoundaries: CAR containers built so that a boundary between two sections falls EXACTLY on a round stream
// offset - 2^16, 2^20, 2^24 and 2^25 (32 MiB) bytes, where buffers, chunked readers and size limits have their edges -
// with more tokens behind it. All tokens have the same sealed size, so the offsets do not depend on the order the
// writer emits them in. Honest containers: every reader variant returns every token.
func TestRoundBoundaries(t *testing.T) {
	targets := []int{1 << 16, 1 << 20, 1 << 24}
	targets = append(targets, 1<<25)
	_ = os.Getenv
	// header length of the library's CAR
	w0 := container.NewWriter()
	probe := fixedSets()[1][0]
	ptk, ppriv, _ := tok.Build(probe)
	pdata, pid, _ := ptk.ToSealed(ppriv)
	w0.AddSealed(pid, pdata)
	car0, _ := w0.ToCar()
	_, bounds0, err := ctr.CarSections(car0)
	if err != nil || len(bounds0) == 0 {
		t.Fatalf("INCONCLUSIVE cannot measure the CAR header: %v", err)
	}
	header := bounds0[0]
	n := 0
	for _, T := range targets {
		j := 6
		if T <= 1<<20 {
			j = 3
		}
		if (T-header)%j != 0 {
			// choose j so that the section size is an integer
			for j = 2; j < 12 && (T-header)%j != 0; j++ {
			}
			if (T-header)%j != 0 {
				P.Class("round-boundary:not-constructible")
				continue
			}
		}
		sec := (T - header) / j
		vl := len(binary.AppendUvarint(nil, uint64(sec)))
		size := sec - vl - 36
		if len(binary.AppendUvarint(nil, uint64(36+size))) != vl {
			P.Class("round-boundary:not-constructible")
			continue
		}
		var set []tok.Tok
		ok := true
		for i := 0; i < j+2; i++ {
			d, good := paddedAt(size, byte(i))
			if !good {
				ok = false
				break
			}
			set = append(set, d)
		}
		if !ok {
			P.Class("round-boundary:not-constructible")
			continue
		}
		for _, f := range []string{"car", "carb64"} {
			for rk := 0; rk <= 5; rk++ {
				if T >= 1<<24 && !h.Thorough() && (rk > 1 || (f == "carb64" && rk > 0)) {
					continue // quick tier: the two largest containers through two source types only
				}
				prop.One(t, Case{Toks: set, Order: []int{0}, Format: f, WStream: rk%2 == 1, RStream: true, RKind: rk})
				n++
			}
			prop.One(t, Case{Toks: set, Order: []int{0}, Format: f, RStream: false})
			n++
		}
		P.Class(fmt.Sprintf("round-boundary:2^%d", bits.Len(uint(T))-1))
	}
	P.SetExtra("round_boundary_cases", n)
}

// TestEveryCountEveryEntry: containers of EVERY size 1..41 (quick) / 1..80 and around 128 and 256 (thorough) in which
// exactly one entry - each entry in turn, so every stored position whatever order the writer emits - is a token
// re-signed with another key under the CID of its new bytes: consistent with its label, only signature verification
// can tell. Reading must fail for every size and every position, through every format and reader variant (the main
// generator draws sizes 0..6 and a few padded ones, and corrupts one of the first six entries).
func TestEveryCountEveryEntry(t *testing.T) {
	var sizes []int
	for n := 1; n <= 41; n++ {
		sizes = append(sizes, n)
	}
	if h.Thorough() {
		for n := 42; n <= 80; n++ {
			sizes = append(sizes, n)
		}
		sizes = append(sizes, 127, 128, 129, 255, 256, 257)
	}
	cases := 0
	for _, n := range sizes {
		for e := 0; e < n; e++ {
			if n > 100 && e%7 != 0 && e < n-20 {
				continue
			}
			for fi, f := range ctr.Formats {
				if !h.Thorough() && (n+e+fi)%2 == 1 {
					continue // quick: two of the four formats per (size, entry), alternating
				}
				v := n + e + fi
				prop.One(t, Case{Pad: n, Order: []int{e % 3, 1}, Format: f, WStream: v%2 == 1, RStream: v%4 >= 2, RKind: v % 6, Corr: &Corr{Kind: "wrong-key", Entry: e}})
				cases++
			}
		}
		// and the honest container of that size
		prop.One(t, Case{Pad: n, Order: []int{0}, Format: ctr.Formats[n%len(ctr.Formats)], RStream: n%2 == 0, RKind: n % 6})
	}
	P.SetExtra("every_count_every_entry_cases", cases)
}


// TestSealedTwice: one delegation and one invocation of every key algorithm, each sealed twice, both sealings in one
// container, through every format and reader / writer variant.
func TestSealedTwice(t *testing.T) {
	n := 0
	for _, a := range keys.AllAlgs {
		set := []tok.Tok{
			{Dlg: &tok.Dlg{Iss: tok.KeyRef{Alg: a, Idx: 0}, Aud: tok.KeyRef{Alg: keys.Ed25519, Idx: 1}, Sub: "iss", Cmd: "/twice", Nonce: []byte("twice-nonce-00")}},
			{Inv: &tok.Inv{Iss: tok.KeyRef{Alg: a, Idx: 1}, Sub: tok.KeyRef{Alg: keys.Ed25519, Idx: 0}, Cmd: "/twice/x", Nonce: []byte("twice-nonce-01")}},
		}
		for _, f := range ctr.Formats {
			for v := 0; v < 4; v++ {
				prop.One(t, Case{Toks: set, Order: []int{v, 1}, Format: f, WStream: v&1 == 1, RStream: v&2 == 2, RKind: v, Twice: true})
				n++
			}
		}
	}
	P.SetExtra("sealed_twice_cases", n)
}

// TestHonestAfterHostile: a process that has been fed hostile CAR streams - first sections of 32 MiB that arrive in full
// and are not a header, sections cut short, oversize announcements, garbage - six of each, goes on reading honest
// containers of every format exactly as before. What a reader met earlier is nothing to the container at hand.
func TestHonestAfterHostile(t *testing.T) {
	ctx := &h.Ctx{P: P, T: t}
	honest := fixedSets()[1]
	check := func(when string) bool {
		for _, f := range ctr.Formats {
			for v := 0; v < 4; v++ {
				prop.One(t, Case{Toks: honest, Order: []int{v}, Format: f, WStream: v&1 == 1, RStream: v&2 == 2, RKind: v})
			}
		}
		return true
	}
	check("before")
	junk := func(n int, fill byte) []byte {
		b := binary.AppendUvarint(nil, uint64(n))
		return append(b, bytes.Repeat([]byte{fill}, n)...)
	}
	rounds := 0
	for round := 0; round < 6; round++ {
		for _, hostile := range [][]byte{junk(32<<20, 0xa5), junk(32<<20, 0x00), junk(1<<20, 0xff), junk(32<<20, 0xa5)[:1<<20], binary.AppendUvarint(nil, 33<<20), {0xff, 0xff, 0xff}, append(junk(17, 0xa1), 0x05)} {
			h.Try(func() {
				_, _ = container.FromCarReader(bytes.NewReader(hostile))
				_, _ = container.FromCar(hostile)
				_, _ = container.FromCborReader(bytes.NewReader(hostile))
			})
			rounds++
		}
		check(fmt.Sprintf("after %d hostile streams", rounds))
	}
	_ = ctx
	P.SetExtra("hostile_streams_before_honest", rounds)
}

// C05 — every chain that satisfies the delegation rules is accepted.
package c05

import (
	"time"
	"verif/harness/pol"
	"verif/harness/sel"
	"verif/harness/val"
	"fmt"
	"os"
	"testing"

	"pgregory.net/rapid"

	"verif/harness/chain"
	"verif/harness/h"
	_ "verif/harness/warm"
)

var P = h.New("C05", "exploration",
	"only conforming cases: chains of length 1..6 in which R1..R9 hold by construction (re-verified by the reference rules), with audience (none/subject/any principal), meta, nonce length, cause, iat (past/future/absent), far-future bounds, self-delegation links, repeated principals, attenuating commands incl. top at the root, satisfiable policies on any link, constructed vs decoded tokens all randomised. Every case is a positive instance; distinct by (length, principal pattern, audience class, command sequence, policy placement, decoded bitmap).")

func TestMain(m *testing.M) { os.Exit(P.Main(m)) }
func TestReplay(t *testing.T) { P.Replay(t) }

func audClass(cs chain.Case) string {
	switch {
	case cs.Inv.Aud < 0:
		return "none"
	case cs.Inv.Aud == cs.Inv.Sub:
		return "subject"
	case cs.Inv.Aud == cs.Inv.Iss:
		return "invoker"
	}
	return "other"
}

func run(c *h.Ctx, cs chain.Case) {
	r := chain.Eval(cs)
	if r.PolicyUnspec {
		c.P.Unspecified()
		return
	}
	if !r.All(1, 9) {
		c.Inconclusive("generator produced a non-conforming case: broken %v", r.Broken())
	}
	b, err := chain.Build(cs)
	if err != nil {
		// the property is about invocations that exist: what the constructors accept is C07's / C10's subject
		c.P.Class("constructor-rejected")
		c.Logf("constructor rejected: %v", err)
		return
	}
	d := chain.Decide(b, nil)
	polPlacement := ""
	cmdSeq := cs.Inv.Cmd
	dec := ""
	for _, l := range cs.Links {
		polPlacement += fmt.Sprint(len(l.Pol))
		cmdSeq += "<" + l.Cmd
		if l.Decoded {
			dec += "d"
		} else {
			dec += "c"
		}
	}
	c.P.Class(fmt.Sprintf("len=%d", len(cs.Links)))
	c.P.Class("aud=" + audClass(cs))
	if !d.Allowed {
		why := d.Err
		if d.Panicked {
			why = "panic: " + d.Panic
		}
		c.Fail("C05/conforming-chain-denied/aud="+audClass(cs), "a rule-conforming chain was denied: %s\ncase: %+v", why, cs)
	}
	dh := chain.DecideIdentityHook(b)
	if !dh.Allowed {
		c.Fail("C05/hook/conforming-chain-denied", "a rule-conforming chain was denied through the identity hook: %s", dh.Err)
	}
	c.P.NonTrivial([]any{len(cs.Links), chain.PrincipalPattern(cs), audClass(cs), cmdSeq, polPlacement, dec},
		map[string]any{"case": cs, "allowed": d.Allowed})
}

func draw(t *rapid.T) chain.Case {
	cs := chain.DrawConforming(t, chain.GenOpt{MaxLen: 6, Commands: true, Policies: true, Times: true, Irrelevant: true, Args: true, MixedAlgs: rapid.IntRange(0, 2).Draw(t, "mixed") == 0})
	if rapid.IntRange(0, 5).Draw(t, "wholeargs") == 2 {
		// a policy that pins the argument set AS A WHOLE: ["==", ".", {...}] with the literal written as a Go map
		// (literal.Any), as callers write it. Keys of different lengths and scripts, scalar values; the arguments hold
		// exactly these entries, given in another order. Neither side has an order of the caller's choosing.
		keys := rapid.SampledFrom([][]string{{"to", "subject"}, {"b", "aa"}, {"subject", "to", "cc"}, {"k", "é", "zz", "a"}, {"amount", "to", "memo", "id"}, {"x"}, {"b", "a"}, {"aa", "b", "ccc", "dddd", "e"}}).Draw(t, "wa_keys")
		var argsKV, litKV []val.KV
		for i, k := range keys {
			var v val.V
			switch (i + len(keys)) % 4 {
			case 0:
				v = val.Str("v-" + k)
			case 1:
				v = val.Int(int64(40 + i))
			case 2:
				v = val.Bool(i%2 == 0)
			default:
				v = val.Bytes([]byte{byte(i), 2, 3})
			}
			argsKV = append(argsKV, val.KV{K: k, V: v})
			litKV = append([]val.KV{{K: k, V: v}}, litKV...) // the literal lists them the other way round
		}
		cs.Inv.Args = argsKV
		cs.Inv.CommonArgs, cs.Inv.TypedArg, cs.Inv.UcanArg = 0, false, 0
		for i := range cs.Links {
			cs.Links[i].Pol = nil
		}
		lit := val.V{K: "map", M: litKV}
		li := rapid.IntRange(0, len(cs.Links)-1).Draw(t, "wa_link")
		cs.Links[li].Pol = pol.Policy{{Op: "==", Sel: sel.Sel{{Kind: "id"}}, Lit: &lit, LitGo: true}}
		cs.Links[li].PolIPLD = rapid.Bool().Draw(t, "wa_ipld")
		one := argsKV[0].V
		cs.Links[(li+1)%len(cs.Links)].Pol = append(cs.Links[(li+1)%len(cs.Links)].Pol, pol.Stmt{Op: "==", Sel: sel.Sel{{Kind: "field", Name: argsKV[0].K}}, Lit: &one, LitGo: true})
		cs.Dev = append(cs.Dev, "whole-args-literal")
	}
	return cs
}

var prop = h.Define(P, "chain", draw, run)

func TestChain(t *testing.T) { prop.Check(t) }

// History clause over a shared delegation store (chain/store.go): checks interleaved with loader
// changes, re-decoding and sibling invocations over the same delegations; every decision is compared
// with the reference rules for the store as it is at that moment.
var storeProp = h.Define(P, "store", func(t *rapid.T) chain.StoreCase { return chain.DrawStore(t, "none") },
	func(c *h.Ctx, sc chain.StoreCase) { chain.RunStore(c, sc, "C05") })

func TestStore(t *testing.T) { storeProp.Check(t) }

// Clock histories (chain/clock.go): bounds milliseconds to seconds from now, the same token objects checked
// before and after real time has passed; verdicts only where the clock readings leave a margin.
var clockProp = h.Define(P, "clock", chain.DrawClock, func(c *h.Ctx, cc chain.ClockCase) { chain.RunClock(c, cc, "C05") })

func TestClock(t *testing.T) { clockProp.Check(t) }

// Concurrent checks of different invocations over different chains (chain/conc.go), race-detector build.
var concChainsProp = h.Define(P, "concchains", chain.DrawConcChains, func(c *h.Ctx, cc chain.ConcChains) { chain.RunConcChains(c, cc, "C05") })

func TestConcurrentChains(t *testing.T) { concChainsProp.Check(t) }

// Argument presentation (chain/argorder.go): policies that look at the argument values by position, the same
// argument set handed over in different orders / as one object / through the hook / after seal-unseal.
var argOrderProp = h.Define(P, "argorder", chain.DrawArgOrder, func(c *h.Ctx, ac chain.ArgOrderCase) { chain.RunArgOrder(c, ac, "C05") })

func TestArgOrder(t *testing.T) { argOrderProp.Check(t) }

// TestOtherTimeZones: conforming chains in a process whose local time zone is not UTC (time.Now() carries time.Local),
// with one token - each position in turn - that expires, or became active, 30 minutes, 2, 6 and 13 hours from / before
// now: every token is valid now, wherever the process runs, so the chain is allowed.
func TestOtherTimeZones(t *testing.T) {
	saved := time.Local
	defer func() { time.Local = saved }()
	n := 0
	for _, zone := range []int{-12 * 3600, -7 * 3600, -2 * 3600, 3600, 5*3600 + 45*60, 14 * 3600} {
		time.Local = time.FixedZone(fmt.Sprintf("verif%+d", zone), zone)
		for length := 1; length <= 3; length++ {
			for pos := 0; pos <= length; pos++ {
				for _, off := range []int64{1800, 2 * 3600, 6 * 3600, 13 * 3600} {
					for _, kind := range []string{"valid-exp", "valid-nbf"} {
						if pos == 0 && kind == "valid-nbf" {
							continue
						}
						var cs chain.Case
						cs.Inv = chain.Inv{Iss: 0, Sub: length % chain.NPrincipals, Aud: -1, NonceLen: 12, Cmd: "/foo"}
						for i := 0; i < length; i++ {
							iss := (i + 1) % chain.NPrincipals
							if i == length-1 {
								iss = cs.Inv.Sub
							}
							cs.Links = append(cs.Links, chain.Link{Iss: iss, Aud: i % chain.NPrincipals, Sub: cs.Inv.Sub, Cmd: "/foo", Nonce: byte(i)})
						}
						v := off
						if kind == "valid-nbf" {
							v = -off
						}
						switch {
						case pos == 0:
							cs.Inv.Exp = &v
						case kind == "valid-exp":
							cs.Links[pos-1].Exp = &v
						default:
							cs.Links[pos-1].Nbf = &v
						}
						cs.Dev = []string{fmt.Sprintf("%s@%d/%d zone%+d", kind, pos, length, zone)}
						prop.One(t, cs)
						n++
					}
				}
			}
		}
	}
	P.SetExtra("other_time_zone_chains", n)
}

package tok

import (
	"fmt"

	"pgregory.net/rapid"

	"verif/harness/keys"
	"verif/harness/pol"
	"verif/harness/sel"
	"verif/harness/val"
)

// GenCfg steers token generation.
type GenCfg struct {
	Algs        []keys.Alg // issuer algorithms
	Values      val.Cfg    // args / meta values
	ExtremeTime bool       // absolute extremes in addition to offsets
	OnlyFuture  bool       // bounds that keep the token valid now
	Kinds       string     // "dlg", "inv" or "" for both
	SmallNonce  bool
	NoNative    bool
	NoTopNull   bool // no null as a top-level args/meta value (known finding C07/toplevel-null-value)
	NoStretch   bool // never enlarge a dimension (see Stretch)
	WideInts    bool // args / meta values may hold integers of the whole int64 range (and beyond, as uint64 nodes);
	// whether a constructor takes them is the constructor's decision, not the generator's
}

var cmdPool = []string{"/", "/foo", "/foo/bar", "/crud/create", "/a/b/c/d", "/é/x", "/msg/send", "/a&b/<c>", "/sp ace/x", "/q\"uote", "/a\u2028b", "/tab\t", "/a//b", "/."}

var AbsTimes = []int64{-62135596800, 253402300799, 10413792000, 32503680000, -11676096000, (1 << 53) - 1, 1 << 53, (1 << 53) + 1, -((1 << 53) - 1), -(1 << 53), 1 << 60, 1900000000, 4102444800, 0, 1}
var offs = []int64{3600, 86400, 365 * 86400, 100 * 365 * 86400}

func genKey(t *rapid.T, algs []keys.Alg, label string) KeyRef {
	if len(algs) == 0 {
		algs = []keys.Alg{keys.Ed25519}
	}
	a := rapid.SampledFrom(algs).Draw(t, label+"_alg")
	n := 6
	if a == keys.RSA {
		n = keys.RSAFast
		if rapid.IntRange(0, 15).Draw(t, label+"_bigrsa") == 0 {
			return KeyRef{Alg: a, Idx: rapid.IntRange(keys.RSAFast, keys.RSAPoolSize()-1).Draw(t, label+"_idx")}
		}
	}
	return KeyRef{Alg: a, Idx: rapid.IntRange(0, n-1).Draw(t, label+"_idx")}
}

func genTime(t *rapid.T, cfg GenCfg, label string, future bool) *TimeSpec {
	if cfg.ExtremeTime && rapid.IntRange(0, 3).Draw(t, label+"_abs") == 0 {
		ts := &TimeSpec{Abs: true, V: rapid.SampledFrom(AbsTimes).Draw(t, label+"_absv")}
		if rapid.IntRange(0, 3).Draw(t, label+"_ns") == 0 {
			ts.Ns = int64(rapid.IntRange(1, 999999999).Draw(t, label+"_nsv"))
		}
		return ts
	}
	o := rapid.SampledFrom(offs).Draw(t, label+"_off")
	if cfg.OnlyFuture {
		if !future {
			o = -o
		}
	} else if rapid.Bool().Draw(t, label+"_neg") {
		o = -o
	}
	return &TimeSpec{V: o}
}

var kvKeys = []string{"a", "b", "aa", "x", "foo", "é", "with space", "A", "key-1", "d.e", "zz", "n", "<k&>", "k\u2028", " k", "k\t", "\"q\"", "k\x00", "~"}

func genKVs(t *rapid.T, cfg GenCfg, label string, max int) []KVal {
	n := rapid.IntRange(0, max).Draw(t, label+"_n")
	seen := map[string]bool{}
	var out []KVal
	vc := cfg.Values
	if vc.Depth == 0 {
		vc.Depth = 3
	}
	for i := 0; i < n; i++ {
		k := rapid.SampledFrom(kvKeys).Draw(t, label+"_k")
		if seen[k] {
			continue
		}
		seen[k] = true
		if cfg.WideInts && rapid.IntRange(0, 5).Draw(t, label+"_wide") == 0 {
			vc.SafeInts, vc.Hostile = false, true
		}
		v := val.Gen(t, vc)
		vc.SafeInts, vc.Hostile = cfg.Values.SafeInts, cfg.Values.Hostile
		if v.K == "null" && cfg.NoTopNull {
			v = val.List(val.Null())
		}
		out = append(out, KVal{K: k, V: v, Native: !cfg.NoNative && rapid.Bool().Draw(t, label+"_native")})
	}
	return out
}

func genNonce(t *rapid.T, label string) []byte {
	switch rapid.IntRange(0, 4).Draw(t, label+"_mode") {
	case 0:
		return nil // library default
	default:
		n := rapid.SampledFrom([]int{12, 13, 16, 24, 32, 64}).Draw(t, label+"_len")
		return rapid.SliceOfN(rapid.Byte(), n, n).Draw(t, label)
	}
}

// GenDlg draws a delegation descriptor.
func GenDlg(t *rapid.T, cfg GenCfg) Dlg {
	d := Dlg{Iss: genKey(t, cfg.Algs, "iss"), Aud: genKey(t, nil, "aud"), Cmd: rapid.SampledFrom(cmdPool).Draw(t, "cmd")}
	switch rapid.IntRange(0, 3).Draw(t, "submode") {
	case 0:
		d.Sub = "none"
	case 1:
		d.Sub = "iss"
	case 2:
		d.UseRoot = true
		d.Sub = "iss"
	default:
		d.Sub = "other"
		d.SubKey = genKey(t, nil, "sub")
	}
	if rapid.IntRange(0, 2).Draw(t, "haspol") > 0 {
		data := pol.GenData(t, "poldata")
		d.Pol = pol.Gen(t, data, pol.GenCfg{Depth: 2, MaxStmt: 3}, "pol")
		d.PolIPLD = rapid.Bool().Draw(t, "polipld")
	}
	d.Nonce = genNonce(t, "nonce")
	if rapid.Bool().Draw(t, "hasmeta") {
		d.Meta = genKVs(t, cfg, "meta", 3)
	}
	if rapid.Bool().Draw(t, "hasnbf") {
		d.Nbf = genTime(t, cfg, "nbf", false)
	}
	if rapid.Bool().Draw(t, "hasexp") {
		d.Exp = genTime(t, cfg, "exp", true)
	}
	return d
}

// GenInv draws an invocation descriptor.
func GenInv(t *rapid.T, cfg GenCfg) Inv {
	iv := Inv{Iss: genKey(t, cfg.Algs, "iss"), Sub: genKey(t, nil, "sub"), Cmd: rapid.SampledFrom(cmdPool).Draw(t, "cmd")}
	if rapid.Bool().Draw(t, "hasaud") {
		a := genKey(t, nil, "aud")
		iv.Aud = &a
	}
	if rapid.IntRange(0, 3).Draw(t, "hasargs") > 0 {
		iv.Args = genKVs(t, cfg, "args", 5)
		iv.ArgsMerged = rapid.Bool().Draw(t, "argsmerged")
	}
	np := rapid.IntRange(0, 3).Draw(t, "nprf")
	for i := 0; i < np; i++ {
		iv.Prf = append(iv.Prf, []byte{byte(rapid.IntRange(0, 9).Draw(t, "prf")), byte(rapid.IntRange(0, 9).Draw(t, "prfshape"))})
	}
	if rapid.Bool().Draw(t, "hasmeta") {
		iv.Meta = genKVs(t, cfg, "meta", 3)
	}
	if rapid.IntRange(0, 7).Draw(t, "emptynonce") == 0 {
		iv.EmptyNonce = true
	} else {
		iv.Nonce = genNonce(t, "nonce")
	}
	if rapid.Bool().Draw(t, "hasexp") {
		iv.Exp = genTime(t, cfg, "exp", true)
	}
	switch rapid.IntRange(0, 2).Draw(t, "iatmode") {
	case 1:
		iv.NoIat = true
	case 2:
		iv.Iat = genTime(t, cfg, "iat", false)
	}
	if rapid.Bool().Draw(t, "hascause") {
		iv.Cause = []byte{byte(rapid.IntRange(0, 9).Draw(t, "cause")), byte(rapid.IntRange(0, 9).Draw(t, "causeshape"))}
	}
	return iv
}

// stretchSizes: every size from 1 to 70, and the neighbourhoods of the powers of two up to 1024 - the places where
// a limit introduced at one site and forgotten (or off by one) at another shows.
func stretchSize(t *rapid.T) int {
	if rapid.IntRange(0, 3).Draw(t, "stretch_far") == 2 {
		return rapid.SampledFrom([]int{100, 127, 128, 129, 255, 256, 257, 511, 512, 513, 1000, 1023, 1024, 1025}).Draw(t, "stretch_big")
	}
	return rapid.IntRange(1, 70).Draw(t, "stretch_n")
}

func nested(depth int, leaf val.V) val.V {
	v := leaf
	for i := 0; i < depth; i++ {
		if (i+depth)%2 == 0 {
			v = val.List(v)
		} else {
			v = val.Map(val.E("n", v))
		}
	}
	return v
}

// Stretch makes ONE dimension of the token unusually large (still legal): number of arguments / metadata entries
// / proofs, nonce length, command segments, policy statements, policy nesting, selector segments, value nesting,
// list length, string length.
func Stretch(t *rapid.T, tk *Tok) {
	n := stretchSize(t)
	many := func(prefix string) []KVal {
		out := make([]KVal, 0, n)
		for i := 0; i < n; i++ {
			out = append(out, KVal{K: fmt.Sprintf("%s%04d", prefix, i), V: val.Int(int64(i % 9))})
		}
		return out
	}
	longCmd := func() string {
		var b []byte
		for i := 0; i < n; i++ {
			b = append(b, fmt.Sprintf("/s%d", i%7)...)
		}
		return string(b)
	}
	dims := []string{"meta-count", "nonce-len", "cmd-segs", "value-depth", "list-len", "str-len"}
	if tk.Inv != nil {
		dims = append(dims, "args-count", "prf-count", "args-depth")
	} else {
		dims = append(dims, "pol-stmts", "pol-depth", "sel-segs", "pol-and-width")
	}
	one := val.Int(1)
	switch rapid.SampledFrom(dims).Draw(t, "stretch_dim") {
	case "meta-count":
		if tk.Inv != nil {
			tk.Inv.Meta = many("m")
		} else {
			tk.Dlg.Meta = many("m")
		}
	case "nonce-len":
		nn := make([]byte, n+11)
		for i := range nn {
			nn[i] = byte(i*7 + 1)
		}
		if tk.Inv != nil {
			tk.Inv.Nonce, tk.Inv.EmptyNonce = nn, false
		} else {
			tk.Dlg.Nonce = nn
		}
	case "cmd-segs":
		if tk.Inv != nil {
			tk.Inv.Cmd = longCmd()
		} else {
			tk.Dlg.Cmd = longCmd()
		}
	case "value-depth":
		kv := KVal{K: "deep", V: nested(n, val.Str("leaf"))}
		if tk.Inv != nil {
			tk.Inv.Meta = append(tk.Inv.Meta, kv)
		} else {
			tk.Dlg.Meta = append(tk.Dlg.Meta, kv)
		}
	case "list-len":
		l := val.V{K: "list"}
		for i := 0; i < n; i++ {
			l.L = append(l.L, val.Int(int64(i%5)))
		}
		kv := KVal{K: "longlist", V: l}
		if tk.Inv != nil {
			tk.Inv.Meta = append(tk.Inv.Meta, kv)
		} else {
			tk.Dlg.Meta = append(tk.Dlg.Meta, kv)
		}
	case "str-len":
		b := make([]byte, n*16)
		for i := range b {
			b[i] = 'a' + byte(i%26)
		}
		kv := KVal{K: "longstr", V: val.Str(string(b))}
		if tk.Inv != nil {
			tk.Inv.Meta = append(tk.Inv.Meta, kv)
		} else {
			tk.Dlg.Meta = append(tk.Dlg.Meta, kv)
		}
	case "args-count":
		tk.Inv.Args = many("a")
	case "args-depth":
		tk.Inv.Args = append(tk.Inv.Args, KVal{K: "deeparg", V: nested(n, val.Int(3))})
	case "prf-count":
		tk.Inv.Prf = nil
		for i := 0; i < n; i++ {
			tk.Inv.Prf = append(tk.Inv.Prf, []byte{byte(i), byte(i >> 8), 0})
		}
	case "pol-stmts":
		tk.Dlg.Pol = nil
		for i := 0; i < n; i++ {
			tk.Dlg.Pol = append(tk.Dlg.Pol, pol.Stmt{Op: "==", Sel: sel.Sel{{Kind: "field", Name: fmt.Sprintf("f%d", i)}}, Lit: &one})
		}
	case "pol-depth":
		st := pol.Stmt{Op: "==", Sel: sel.Sel{{Kind: "field", Name: "a"}}, Lit: &one}
		for i := 0; i < n; i++ {
			switch i % 3 {
			case 0:
				st = pol.Stmt{Op: "not", Sub: []pol.Stmt{st}}
			case 1:
				st = pol.Stmt{Op: "and", Sub: []pol.Stmt{st}}
			default:
				st = pol.Stmt{Op: "any", Sel: sel.Sel{{Kind: "field", Name: "l"}}, Sub: []pol.Stmt{st}}
			}
		}
		tk.Dlg.Pol = pol.Policy{st}
	case "pol-and-width":
		st := pol.Stmt{Op: "or"}
		for i := 0; i < n; i++ {
			lit := val.Int(int64(i))
			st.Sub = append(st.Sub, pol.Stmt{Op: "==", Sel: sel.Sel{{Kind: "field", Name: "a"}}, Lit: &lit})
		}
		tk.Dlg.Pol = pol.Policy{st}
	case "sel-segs":
		var sl sel.Sel
		for i := 0; i < n; i++ {
			switch i % 3 {
			case 0:
				sl = append(sl, sel.Seg{Kind: "field", Name: "a"})
			case 1:
				sl = append(sl, sel.Seg{Kind: "index", Idx: int64(i % 4)})
			default:
				sl = append(sl, sel.Seg{Kind: "qfield", Name: "k k", Opt: true})
			}
		}
		tk.Dlg.Pol = pol.Policy{{Op: "==", Sel: sl, Lit: &one}}
	}
}

// Gen draws a token descriptor of either type.
func Gen(t *rapid.T, cfg GenCfg) Tok {
	tk := gen(t, cfg)
	if rapid.Bool().Draw(t, "optperm") {
		n := rapid.IntRange(1, 1<<16).Draw(t, "optperm_n")
		if tk.Dlg != nil {
			tk.Dlg.OptPerm = n
		} else {
			tk.Inv.OptPerm = n
		}
	}
	if !cfg.NoStretch && rapid.IntRange(0, 9).Draw(t, "stretch") == 4 {
		Stretch(t, &tk)
	}
	return tk
}

func gen(t *rapid.T, cfg GenCfg) Tok {
	kind := cfg.Kinds
	if kind == "" {
		kind = rapid.SampledFrom([]string{"dlg", "inv"}).Draw(t, "kind")
	}
	if kind == "dlg" {
		d := GenDlg(t, cfg)
		return Tok{Dlg: &d}
	}
	iv := GenInv(t, cfg)
	return Tok{Inv: &iv}
}

// OptionBitmap summarises which optional parts are set (for distinctness keys).
func (t Tok) OptionBitmap() string {
	b := func(x bool) byte {
		if x {
			return '1'
		}
		return '0'
	}
	if t.Dlg != nil {
		d := t.Dlg
		return "D" + string([]byte{b(d.Sub != "none"), b(d.UseRoot), b(len(d.Pol) > 0), b(d.Nonce != nil), b(len(d.Meta) > 0), b(d.Nbf != nil), b(d.Exp != nil)})
	}
	i := t.Inv
	return "I" + string([]byte{b(i.Aud != nil), b(len(i.Args) > 0), b(i.ArgsMerged), b(len(i.Prf) > 0), b(len(i.Meta) > 0), b(i.EmptyNonce), b(i.Nonce != nil), b(i.Exp != nil), b(i.Iat != nil), b(i.NoIat), b(i.Cause != nil)})
}

// OptionCount counts the optional fields that are set.
func (t Tok) OptionCount() int {
	n := 0
	for _, c := range t.OptionBitmap()[1:] {
		if c == '1' {
			n++
		}
	}
	return n
}

// ValueShape hashes the shapes of the argument / metadata values.
func (t Tok) ValueShape() string {
	s := ""
	add := func(kvs []KVal) {
		for _, e := range kvs {
			s += fmt.Sprintf("%s=%s%v;", e.K, e.V.Shape(), e.Native)
		}
	}
	if t.Dlg != nil {
		add(t.Dlg.Meta)
	} else {
		add(t.Inv.Args)
		add(t.Inv.Meta)
	}
	return s
}

// HasNested reports a nested argument / metadata value.
func (t Tok) HasNested() bool {
	nested := false
	chk := func(kvs []KVal) {
		for _, e := range kvs {
			if e.V.K == "list" || e.V.K == "map" {
				nested = true
			}
		}
	}
	if t.Dlg != nil {
		chk(t.Dlg.Meta)
	} else {
		chk(t.Inv.Args)
		chk(t.Inv.Meta)
	}
	return nested
}

// Values calls f on every argument / metadata value of the descriptor.
func (t Tok) Values(f func(val.V)) {
	each := func(kvs []KVal) {
		for _, e := range kvs {
			e.V.Walk(f)
		}
	}
	if t.Dlg != nil {
		each(t.Dlg.Meta)
		for _, s := range t.Dlg.Pol {
			walkStmt(s, f)
		}
	} else {
		each(t.Inv.Args)
		each(t.Inv.Meta)
	}
}

func walkStmt(s pol.Stmt, f func(val.V)) {
	if s.Lit != nil {
		s.Lit.Walk(f)
	}
	for _, c := range s.Sub {
		walkStmt(c, f)
	}
}

// SweepSizes are the sealed-token sizes worth visiting one by one: around the
// CBOR length-head boundaries (256, 65536), the uvarint boundary of a CAR
// section (16384 - 36-byte CID) and the common 4 KiB buffer size (with and
// without the 36-byte CID and small prefixes).
func SweepSizes() []int {
	var out []int
	for _, r := range [][2]int{{236, 300}, {3990, 4130}, {16320, 16400}, {65480, 65560}} {
		for s := r[0]; s <= r[1]; s++ {
			out = append(out, s)
		}
	}
	return out
}

// PaddedDlg returns an Ed25519 delegation whose sealed size is exactly target
// bytes (padding in a metadata string), or false when no padding length hits
// it (sizes skipped when the CBOR length head grows).
func PaddedDlg(target int) (Tok, []byte, bool) {
	mk := func(k int) (Tok, []byte) {
		pad := make([]byte, k)
		for i := range pad {
			pad[i] = 'a' + byte(i%26)
		}
		d := Tok{Dlg: &Dlg{Iss: KeyRef{Alg: keys.Ed25519, Idx: 0}, Aud: KeyRef{Alg: keys.Ed25519, Idx: 1}, Sub: "iss", Cmd: "/pad",
			Nonce: []byte("padpadpadpad"), Meta: []KVal{{K: "pad", V: val.Str(string(pad))}}}}
		tk, priv, err := Build(d)
		if err != nil {
			return d, nil
		}
		b, _, err := tk.ToSealed(priv)
		if err != nil {
			return d, nil
		}
		return d, b
	}
	_, base := mk(0)
	if base == nil || target < len(base) {
		return Tok{}, nil, false
	}
	k0 := target - len(base)
	for k := k0; k >= 0 && k >= k0-12; k-- {
		d, b := mk(k)
		if len(b) == target {
			return d, b, true
		}
		if len(b) < target {
			break
		}
	}
	return Tok{}, nil, false
}

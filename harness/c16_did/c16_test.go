// C16 — did:key text, DID value and public key convert back and forth without loss.
package c16

import (
	"github.com/multiformats/go-multicodec"
	"crypto/ecdsa"
	"math/big"

	"bytes"
	"crypto/elliptic"
	"crypto/rsa"
	"crypto/x509"
	"fmt"
	secp "github.com/decred/dcrd/dcrec/secp256k1/v4"
	"os"
	"strings"
	"sync"
	"testing"

	"github.com/libp2p/go-libp2p/core/crypto"
	"github.com/libp2p/go-libp2p/core/crypto/pb"
	"pgregory.net/rapid"

	"github.com/ucan-wg/go-ucan/did"

	"verif/harness/h"
	_ "verif/harness/warm"
	"verif/harness/keys"
)

var P = h.New("C16", "exploration",
	"(keys) deterministic keys of every generatable algorithm (Ed25519, secp256k1, P-256/384/521, RSA-2048/3072 pool, plus did.Generate* in the thorough tier) through FromPubKey -> String -> Parse -> PubKey, pairs for equality; (variants) alternative encodings of the same key material behind the right multicodec: uncompressed / hybrid / wrong-length points, odd-y flip, PKIX instead of PKCS#1, padded lengths, truncated/extended Ed25519; (strings) arbitrary and mutated identifiers: other multibase prefix, non-base58 characters, non-minimal varint, unsupported codec, trailing bytes. Reference: own base58btc + varint codec and per-codec key checks. Non-trivial = non-Ed25519 key, or a non-canonical / garbled identifier that still passes multibase decoding. Distinct by (algorithm, key index, variant) / string.")

func TestMain(m *testing.M)   { os.Exit(P.Main(m)) }
func TestReplay(t *testing.T) { P.Replay(t) }

// ---------- reference base58btc / varint ----------

const b58 = "123456789ABCDEFGHJKLMNPQRSTUVWXYZabcdefghijkmnopqrstuvwxyz"

func b58enc(b []byte) string {
	x := new(big.Int).SetBytes(b)
	var out []byte
	z := big.NewInt(0)
	m := new(big.Int)
	fe := big.NewInt(58)
	for x.Cmp(z) > 0 {
		x.DivMod(x, fe, m)
		out = append(out, b58[m.Int64()])
	}
	for _, c := range b {
		if c != 0 {
			break
		}
		out = append(out, '1')
	}
	for i, j := 0, len(out)-1; i < j; i, j = i+1, j-1 {
		out[i], out[j] = out[j], out[i]
	}
	return string(out)
}

func b58dec(s string) ([]byte, bool) {
	x := big.NewInt(0)
	fe := big.NewInt(58)
	for _, c := range s {
		i := strings.IndexRune(b58, c)
		if i < 0 {
			return nil, false
		}
		x.Mul(x, fe)
		x.Add(x, big.NewInt(int64(i)))
	}
	out := x.Bytes()
	nz := 0
	for _, c := range s {
		if c != '1' {
			break
		}
		nz++
	}
	return append(make([]byte, nz), out...), true
}

func uvarint(x uint64) []byte {
	var out []byte
	for x >= 0x80 {
		out = append(out, byte(x)|0x80)
		x >>= 7
	}
	return append(out, byte(x))
}

// readUvarint: minimal encodings only (multiformats varint spec), max 9 bytes.
func readUvarint(b []byte) (v uint64, n int, ok bool) {
	var s uint
	for i, c := range b {
		if i == 9 {
			return 0, 0, false
		}
		if c < 0x80 {
			if i > 0 && c == 0 {
				return 0, 0, false // non-minimal
			}
			return v | uint64(c)<<s, i + 1, true
		}
		v |= uint64(c&0x7f) << s
		s += 7
	}
	return 0, 0, false
}

const (
	cEd25519   = 0xed
	cSecp256k1 = 0xe7
	cP256      = 0x1200
	cP384      = 0x1201
	cP521      = 0x1202
	cRSA       = 0x1205
	cX25519    = 0xec
)

var supported = map[uint64]string{cEd25519: "ed25519", cSecp256k1: "secp256k1", cP256: "p256", cP384: "p384", cP521: "p521", cRSA: "rsa"}

func didString(code uint64, keyBytes []byte) string {
	return "did:key:z" + b58enc(append(uvarint(code), keyBytes...))
}

// refParse: "did:key:z" + base58btc(varint(code) ++ ...) with code supported.
// specified=false where the statement is silent: the multibase library also
// accepts nothing else, but e.g. an empty payload after the code is a matter
// for key extraction, not for the parser.
func refParse(s string) (accept bool) {
	if !strings.HasPrefix(s, "did:key:z") {
		return false
	}
	raw, ok := b58dec(s[len("did:key:z"):])
	if !ok {
		return false
	}
	code, _, ok := readUvarint(raw)
	if !ok {
		return false
	}
	_, sup := supported[code]
	return sup
}

// ---------- key cases ----------

type KeyCase struct {
	Alg  keys.Alg `json:"alg"`
	Idx  int      `json:"idx"`
	Alg2 keys.Alg `json:"alg2"`
	Idx2 int      `json:"idx2"`
}

func codeOf(a keys.Alg) uint64 {
	switch a {
	case keys.Ed25519:
		return cEd25519
	case keys.Secp256k1:
		return cSecp256k1
	case keys.P256:
		return cP256
	case keys.P384:
		return cP384
	case keys.P521:
		return cP521
	}
	return cRSA
}

// canonicalKeyBytes computes, independently of the did package, the key
// material a did:key carries for pub.
func canonicalKeyBytes(alg keys.Alg, pub crypto.PubKey) ([]byte, error) {
	switch alg {
	case keys.Ed25519, keys.Secp256k1:
		return pub.Raw() // 32-byte key / 33-byte compressed point
	case keys.P256, keys.P384, keys.P521:
		std, err := crypto.PubKeyToStdKey(pub)
		if err != nil {
			return nil, err
		}
		e := std.(*ecdsa.PublicKey)
		return elliptic.MarshalCompressed(e.Curve, e.X, e.Y), nil
	default:
		pkix, err := pub.Raw()
		if err != nil {
			return nil, err
		}
		parsed, err := x509.ParsePKIXPublicKey(pkix)
		if err != nil {
			return nil, err
		}
		rk, ok := parsed.(*rsa.PublicKey)
		if !ok {
			return nil, fmt.Errorf("not an RSA key")
		}
		return x509.MarshalPKCS1PublicKey(rk), nil
	}
}

func roundTrip(c *h.Ctx, alg keys.Alg, k *keys.Key) (did.DID, bool) {
	d, err := did.FromPubKey(k.Pub)
	if err != nil {
		c.Fail("C16/frompubkey-rejects/"+string(alg), "FromPubKey rejected a %s key: %v", alg, err)
		return did.Undef, false
	}
	s := d.String()
	kb, err := canonicalKeyBytes(alg, k.Pub)
	if err == nil {
		if want := didString(codeOf(alg), kb); s != want {
			c.Fail("C16/string/not-canonical/"+string(alg), "DID of %s key prints as %s, reference encoding is %s", alg, s, want)
		}
	}
	d2, err := did.Parse(s)
	if err != nil {
		c.Fail("C16/roundtrip/parse-rejects/"+string(alg), "did.Parse rejects the identifier that FromPubKey/String produced for a %s key: %s: %v", alg, s, err)
		return d, false
	}
	if d2 != d {
		c.Fail("C16/roundtrip/parse-differs/"+string(alg), "Parse(String(d)) != d for %s", s)
	}
	if !d2.Defined() {
		c.Fail("C16/roundtrip/undefined", "parsed DID reports !Defined(): %s", s)
	}
	var pk crypto.PubKey
	if pn, v, _ := h.Try(func() { pk, err = d2.PubKey() }); pn {
		c.Fail("C16/pubkey/panic", "PubKey panicked on %s: %v", s, v)
		return d, false
	}
	if err != nil {
		c.Fail("C16/roundtrip/pubkey-error/"+string(alg), "PubKey() of the DID built from a %s key fails: %v", alg, err)
		return d, false
	}
	if !pk.Equals(k.Pub) {
		c.Fail("C16/roundtrip/pubkey-differs/"+string(alg), "PubKey() of the DID built from a %s key is a different key", alg)
	}
	// the extracted key is a value like any other key: turned into a DID - twice - it gives the DID it came from, and
	// it is still the key it was (conversion reads the key, it does not use it as scratch space)
	for pass := 1; pass <= 2; pass++ {
		back, berr := did.FromPubKey(pk)
		if berr != nil || back != d {
			c.Fail("C16/roundtrip/extracted-key-to-did/"+string(alg), "FromPubKey (call %d) of the key extracted from %s gives %s (%v)", pass, s, back, berr)
			break
		}
		if !pk.Equals(k.Pub) {
			c.Fail("C16/roundtrip/extracted-key-changed/"+string(alg), "after FromPubKey (call %d) the key extracted from %s is no longer equal to the original key", pass, s)
			break
		}
	}
	if pk3, err3 := d2.PubKey(); err3 != nil || !pk3.Equals(k.Pub) {
		c.Fail("C16/roundtrip/pubkey-differs/"+string(alg), "a second PubKey() of %s gives another key (%v)", s, err3)
	}
	if pk2, err := did.ToPubKey(s); err != nil || !pk2.Equals(k.Pub) {
		c.Fail("C16/roundtrip/topubkey/"+string(alg), "ToPubKey(%s) failed or returned another key: %v", s, err)
	}
	if d3, err := did.FromPrivKey(k.Priv); err != nil || d3 != d {
		c.Fail("C16/fromprivkey", "FromPrivKey disagrees with FromPubKey for %s", s)
	}
	return d, true
}

func runKeys(c *h.Ctx, kc KeyCase) {
	k1, k2 := keys.Get(kc.Alg, kc.Idx), keys.Get(kc.Alg2, kc.Idx2)
	d1, ok1 := roundTrip(c, kc.Alg, k1)
	d2, ok2 := roundTrip(c, kc.Alg2, k2)
	if ok1 && ok2 {
		if (d1 == d2) != k1.Pub.Equals(k2.Pub) {
			c.Fail("C16/equality", "DID equality (%v) disagrees with key equality (%v): %s vs %s", d1 == d2, k1.Pub.Equals(k2.Pub), d1, d2)
		}
		if (d1.String() == d2.String()) != (d1 == d2) {
			c.Fail("C16/equality-string", "DID string equality disagrees with DID equality")
		}
	}
	c.P.Class("alg:" + string(kc.Alg))
	if kc.Alg != keys.Ed25519 || kc.Alg2 != keys.Ed25519 {
		c.P.NonTrivial([]any{"keys", kc}, map[string]any{"alg": kc.Alg, "idx": kc.Idx, "alg2": kc.Alg2, "idx2": kc.Idx2, "did": d1.String()})
	}
}

func drawAlg(t *rapid.T, label string) (keys.Alg, int) {
	a := rapid.SampledFrom(keys.AllAlgs).Draw(t, label)
	n := 40
	if a == keys.RSA {
		n = keys.RSAPoolSize()
	}
	return a, rapid.IntRange(0, n-1).Draw(t, label+"_i")
}

var keyProp = h.Define(P, "keys", func(t *rapid.T) KeyCase {
	var kc KeyCase
	kc.Alg, kc.Idx = drawAlg(t, "alg")
	switch rapid.IntRange(0, 3).Draw(t, "pair") {
	case 0:
		kc.Alg2, kc.Idx2 = kc.Alg, kc.Idx
	case 1:
		kc.Alg2 = kc.Alg
		kc.Idx2 = rapid.IntRange(0, 3).Draw(t, "i2")
	default:
		kc.Alg2, kc.Idx2 = drawAlg(t, "alg2")
	}
	return kc
}, runKeys)

func TestKeys(t *testing.T) { keyProp.Check(t) }

// TestGenerated exercises the package's own generators (random keys: the
// oracle only uses relations, no expected constants).
func TestGenerated(t *testing.T) {
	type gen struct {
		name string
		f    func() (crypto.PrivKey, did.DID, error)
	}
	gens := []gen{
		{"ed25519", did.GenerateEd25519}, {"secp256k1", did.GenerateSecp256k1}, {"p256", did.GenerateECDSA},
		{"p384", func() (crypto.PrivKey, did.DID, error) { return did.GenerateECDSAWithCurve(did.P384) }},
		{"p521", func() (crypto.PrivKey, did.DID, error) { return did.GenerateECDSAWithCurve(did.P521) }},
	}
	// the curve-parameterised generator with EVERY multicodec constant the package exports (and some it does not):
	// whatever it hands back without error is "a key of an algorithm the package can generate"
	optional := map[string]bool{}
	for _, code := range []multicodec.Code{did.P256, did.Secp256k1, did.Ed25519, did.RSA, did.X25519, 0, 0x1203, 0xe8} {
		code := code
		name := fmt.Sprintf("ecdsa-with-curve-0x%x", uint64(code))
		optional[name] = true
		gens = append(gens, gen{name, func() (crypto.PrivKey, did.DID, error) { return did.GenerateECDSAWithCurve(code) }})
	}
	reps := h.N(3, 25)
	if h.Thorough() {
		gens = append(gens, gen{"rsa", did.GenerateRSA})
	}
	for _, g := range gens {
		n := reps
		if g.name == "rsa" {
			n = 3
		}
		for i := 0; i < n; i++ {
			priv, d, err := g.f()
			P.Eval()
			ctx := &h.Ctx{P: P, T: t}
			if optional[g.name] && (err != nil || priv == nil) {
				P.Class("generator-refuses:" + g.name)
				continue
			}
			if err != nil || priv == nil {
				ctx.Fail("C16/generate/"+g.name, "generator failed: %v", err)
				continue
			}
			if d3, err := did.FromPrivKey(priv); err != nil || d3 != d {
				ctx.Fail("C16/roundtrip/fromprivkey-differs/"+g.name, "generator %s returned DID %s, FromPrivKey of the key it returned gives %s (%v)", g.name, d, d3, err)
			}
			if d4, err := did.FromPubKey(priv.GetPublic()); err != nil || d4 != d {
				ctx.Fail("C16/roundtrip/frompubkey-differs/"+g.name, "generator %s returned DID %s, FromPubKey of the key it returned gives %s (%v)", g.name, d, d4, err)
			}
			d2, err := did.Parse(d.String())
			if err != nil || d2 != d {
				ctx.Fail("C16/roundtrip/parse-rejects/"+g.name, "generated %s DID does not parse back: %s: %v", g.name, d, err)
				continue
			}
			pk, err := d2.PubKey()
			if err != nil || !pk.Equals(priv.GetPublic()) {
				ctx.Fail("C16/roundtrip/pubkey-differs/"+g.name, "generated %s DID yields another key / error %v", g.name, err)
			}
			P.Class("generated:" + g.name)
		}
	}
}

// ---------- variant encodings ----------

type VarCase struct {
	Alg     keys.Alg `json:"alg"`
	Idx     int      `json:"idx"`
	Variant string   `json:"variant"`
	N       int      `json:"n"`
}

var variants = []string{"canonical", "uncompressed", "hybrid", "flip-y", "truncate", "extend", "empty", "garbage", "wrong-codec", "pkix-for-rsa", "nonminimal-varint", "zero-x", "full-point-off-curve", "full-point-constant", "compressed-off-curve", "rsa-der", "x-plus-p", "small-x"}

func point(alg keys.Alg, pub crypto.PubKey) (elliptic.Curve, *big.Int, *big.Int, bool) {
	switch alg {
	case keys.P256, keys.P384, keys.P521:
		std, _ := crypto.PubKeyToStdKey(pub)
		e := std.(*ecdsa.PublicKey)
		return e.Curve, e.X, e.Y, true
	case keys.Secp256k1:
		raw, _ := pub.Raw()
		pk, err := secp.ParsePubKey(raw)
		if err != nil {
			return nil, nil, nil, false
		}
		return secp.S256(), pk.X(), pk.Y(), true
	}
	return nil, nil, nil, false
}

func buildVariant(vc VarCase) (s string, code uint64, payload []byte, sameKey bool, ok bool) {
	k := keys.Get(vc.Alg, vc.Idx)
	code = codeOf(vc.Alg)
	canon, err := canonicalKeyBytes(vc.Alg, k.Pub)
	if err != nil {
		return "", 0, nil, false, false
	}
	payload = canon
	sameKey = true
	curve, x, y, isPoint := point(vc.Alg, k.Pub)
	switch vc.Variant {
	case "canonical":
	case "uncompressed":
		if !isPoint {
			return "", 0, nil, false, false
		}
		payload = elliptic.Marshal(curve, x, y)
	case "hybrid":
		if !isPoint {
			return "", 0, nil, false, false
		}
		payload = elliptic.Marshal(curve, x, y)
		payload[0] = 6 + byte(y.Bit(0))
	case "flip-y":
		if !isPoint {
			return "", 0, nil, false, false
		}
		payload = append([]byte{}, canon...)
		payload[0] ^= 1 // the other point with the same x: a different key
		sameKey = false
	case "truncate":
		n := vc.N % (len(canon) + 1)
		payload = canon[:n]
		sameKey = n == len(canon)
	case "extend":
		payload = append(append([]byte{}, canon...), make([]byte, 1+vc.N%4)...)
		sameKey = false
	case "empty":
		payload = nil
		sameKey = false
	case "garbage":
		payload = bytes.Repeat([]byte{byte(vc.N)}, len(canon))
		sameKey = false
	case "full-point-off-curve":
		// the right length and form byte (4, 6 or 7) of a whole point, with one coordinate byte changed: almost
		// surely not a point of the curve. Anything that computes with the coordinates before checking them meets it.
		if !isPoint {
			return "", 0, nil, false, false
		}
		payload = elliptic.Marshal(curve, x, y)
		payload[0] = []byte{4, 6, 7}[vc.N%3]
		payload[1+(vc.N/3)%(len(payload)-1)] ^= byte(1 << (vc.N % 8))
		sameKey = false
	case "full-point-constant":
		// the point at infinity spelled as coordinates (all zero), coordinates beyond the field (all 0xff), (0,1)...
		if !isPoint {
			return "", 0, nil, false, false
		}
		payload = elliptic.Marshal(curve, x, y)
		fill := []byte{0x00, 0xff, 0x01, 0x80}[vc.N%4]
		for i := 1; i < len(payload); i++ {
			payload[i] = fill
		}
		payload[0] = []byte{4, 6, 7}[(vc.N/4)%3]
		sameKey = false
	case "compressed-off-curve":
		// a compressed point whose x has no y on the curve (about half of all x): walk from the real x
		if !isPoint {
			return "", 0, nil, false, false
		}
		payload = append([]byte{}, canon...)
		payload[1+vc.N%(len(payload)-1)] ^= byte(1 + vc.N%251)
		sameKey = false
	case "zero-x":
		if !isPoint {
			return "", 0, nil, false, false
		}
		payload = make([]byte, len(canon))
		payload[0] = 2
		sameKey = false
	case "wrong-codec":
		others := []uint64{cEd25519, cSecp256k1, cP256, cP384, cP521, cRSA}
		code = others[vc.N%len(others)]
		sameKey = code == codeOf(vc.Alg)
	case "pkix-for-rsa":
		if vc.Alg != keys.RSA {
			return "", 0, nil, false, false
		}
		payload, _ = k.Pub.Raw() // PKIX instead of PKCS#1
	case "rsa-der":
		// the same modulus and exponent in another DER/BER spelling: one principal must not gain a second identifier
		if vc.Alg != keys.RSA {
			return "", 0, nil, false, false
		}
		payload = rsaDerVariant(canon, vc.N)
		if payload == nil {
			return "", 0, nil, false, false
		}
	case "x-plus-p", "small-x":
		// a compressed point whose x bytes hold x+p (the same residue, a second spelling), either of the key itself
		// when x+p still fits the coordinate width (always for P-521) or of the first curve point with a small x;
		// "small-x" is the control: that small point in its one canonical spelling.
		if !isPoint {
			return "", 0, nil, false, false
		}
		fp := curve.Params().P
		w := len(canon) - 1
		limit := new(big.Int).Lsh(big.NewInt(1), uint(8*w))
		xx, form := new(big.Int).Set(x), canon[0]
		if vc.Variant == "small-x" || new(big.Int).Add(xx, fp).Cmp(limit) >= 0 || vc.N%2 == 1 {
			xx = big.NewInt(int64(1 + vc.N/4%40))
			for !hasY(curve, xx) {
				xx.Add(xx, big.NewInt(1))
			}
			form = 2 + byte(vc.N/2%2)
		}
		if vc.Variant == "x-plus-p" {
			xx.Add(xx, fp)
			if xx.Cmp(limit) >= 0 {
				return "", 0, nil, false, false
			}
		}
		payload = append([]byte{form}, xx.FillBytes(make([]byte, w))...)
		sameKey = false
	case "nonminimal-varint":
		v := uvarint(code)
		v[len(v)-1] |= 0x80
		v = append(v, 0x00)
		return "did:key:z" + b58enc(append(v, canon...)), code, canon, true, true
	}
	return didString(code, payload), code, payload, sameKey, true
}

// hasY: x^3 + ax + b is a square modulo the field prime (a = -3 for the NIST curves, 0 for secp256k1).
func hasY(curve elliptic.Curve, x *big.Int) bool {
	pr := curve.Params()
	y2 := new(big.Int).Exp(x, big.NewInt(3), pr.P)
	if pr.Name != "secp256k1" {
		y2.Sub(y2, new(big.Int).Mul(big.NewInt(3), x))
	}
	y2.Add(y2, pr.B)
	y2.Mod(y2, pr.P)
	return new(big.Int).ModSqrt(y2, pr.P) != nil
}

// refPointCanonical: the one spelling a compressed point has: form byte 2 or 3, exactly the coordinate width, x below
// the field prime and on the curve. Independent of the did package and of the curve libraries' parsers.
func refPointCanonical(code uint64, payload []byte) (canonical, known bool) {
	var curve elliptic.Curve
	switch code {
	case cSecp256k1:
		curve = secp.S256()
	case cP256:
		curve = elliptic.P256()
	case cP384:
		curve = elliptic.P384()
	case cP521:
		curve = elliptic.P521()
	default:
		return false, false
	}
	w := (curve.Params().BitSize + 7) / 8
	if len(payload) != 1+w || (payload[0] != 2 && payload[0] != 3) {
		return false, true
	}
	x := new(big.Int).SetBytes(payload[1:])
	if x.Cmp(curve.Params().P) >= 0 {
		return false, true
	}
	return hasY(curve, x), true
}

func derLen(n int) []byte {
	switch {
	case n < 0x80:
		return []byte{byte(n)}
	case n < 0x100:
		return []byte{0x81, byte(n)}
	default:
		return []byte{0x82, byte(n >> 8), byte(n)}
	}
}

func derTLV(tag byte, body []byte) []byte {
	return append(append([]byte{tag}, derLen(len(body))...), body...)
}

// rsaDerVariant re-spells SEQUENCE{INTEGER n, INTEGER e}; nil when the canonical form is not what it expects.
func rsaDerVariant(canon []byte, n int) []byte {
	rd := func(b []byte) (tag byte, body, rest []byte, ok bool) {
		if len(b) < 2 {
			return
		}
		tag = b[0]
		l, hl := int(b[1]), 2
		if b[1]&0x80 != 0 {
			k := int(b[1] & 0x7f)
			if k == 0 || k > 2 || len(b) < 2+k {
				return
			}
			l = 0
			for i := 0; i < k; i++ {
				l = l<<8 | int(b[2+i])
			}
			hl = 2 + k
		}
		if len(b) < hl+l {
			return
		}
		return tag, b[hl : hl+l], b[hl+l:], true
	}
	tag, seq, rest, ok := rd(canon)
	if !ok || tag != 0x30 || len(rest) != 0 {
		return nil
	}
	t1, mod, r1, ok1 := rd(seq)
	t2, exp, r2, ok2 := rd(r1)
	if !ok1 || !ok2 || t1 != 2 || t2 != 2 || len(r2) != 0 {
		return nil
	}
	cat := func(bs ...[]byte) []byte { return bytes.Join(bs, nil) }
	im, ie := derTLV(2, mod), derTLV(2, exp)
	longLen := func(tag byte, body []byte) []byte { // length in one more byte than needed
		l := derLen(len(body))
		if l[0]&0x80 == 0 {
			l = []byte{0x81, l[0]}
		} else {
			l = append([]byte{l[0] + 1, 0}, l[1:]...)
		}
		return append(append([]byte{tag}, l...), body...)
	}
	switch n % 16 {
	case 0: // a third element: INTEGER 0
		return derTLV(0x30, cat(im, ie, []byte{2, 1, 0}))
	case 1: // a third element: NULL
		return derTLV(0x30, cat(im, ie, []byte{5, 0}))
	case 2: // a third element: an OCTET STRING of 1..64 bytes
		return derTLV(0x30, cat(im, ie, derTLV(4, bytes.Repeat([]byte{0xab}, 1+n/16%64))))
	case 3: // a third element: the other fields of a PKCS#1 private key, zeroed
		return derTLV(0x30, cat(im, ie, []byte{2, 1, 0, 2, 1, 0, 2, 1, 0}))
	case 4: // the sequence length spelled with one byte more
		return longLen(0x30, seq)
	case 5: // the modulus length spelled with one byte more
		return derTLV(0x30, cat(longLen(2, mod), ie))
	case 6: // the exponent length spelled with one byte more
		return derTLV(0x30, cat(im, longLen(2, exp)))
	case 7: // the modulus with one more leading zero byte
		return derTLV(0x30, cat(derTLV(2, append([]byte{0}, mod...)), ie))
	case 8: // the exponent with a leading zero byte
		return derTLV(0x30, cat(im, derTLV(2, append([]byte{0}, exp...))))
	case 9: // indefinite length
		return cat([]byte{0x30, 0x80}, im, ie, []byte{0, 0})
	case 10: // the key wrapped in one more sequence
		return derTLV(0x30, canon)
	case 11: // trailing element that is not even well formed
		return derTLV(0x30, cat(im, ie, []byte{0xff}))
	case 12: // the modulus without its sign byte (reads as a negative number)
		if len(mod) > 1 && mod[0] == 0 {
			return derTLV(0x30, cat(derTLV(2, mod[1:]), ie))
		}
		return nil
	case 13: // a SET instead of a SEQUENCE
		return derTLV(0x31, seq)
	case 14: // exponent and modulus swapped
		return derTLV(0x30, cat(ie, im))
	default: // a leading version INTEGER 0, as in the private-key structure
		return derTLV(0x30, cat([]byte{2, 1, 0}, im, ie))
	}
}

func runVariant(c *h.Ctx, vc VarCase) {
	s, code, payload, _, ok := buildVariant(vc)
	if !ok {
		return
	}
	k := keys.Get(vc.Alg, vc.Idx)
	c.P.Class("variant:" + vc.Variant)
	var d did.DID
	var err error
	if pn, v, _ := h.Try(func() { d, err = did.Parse(s) }); pn {
		c.Fail("C16/parse/panic", "Parse(%q) panicked: %v", s, v)
		return
	}
	want := refParse(s)
	if (err == nil) != want {
		if vc.Variant == "nonminimal-varint" {
			c.P.Unspecified() // whether a non-minimal varint is "a did:key identifier of a supported type" is the library's call
		} else {
			c.Fail(fmt.Sprintf("C16/parse/whitelist/0x%x", code), "Parse(%q): accepted=%v, reference (did:key:z + base58btc + supported multicodec 0x%x) says %v: %v", s, err == nil, code, want, err)
			return
		}
	}
	if err != nil {
		c.P.NonTrivial([]any{"var", vc}, map[string]any{"variant": vc, "id": s, "parse": "rejected"})
		return
	}
	var pk crypto.PubKey
	if pn, v, _ := h.Try(func() { pk, err = d.PubKey() }); pn {
		c.Fail("C16/pubkey/panic/"+vc.Variant+"/"+string(vc.Alg), "PubKey() panicked on %s (%s %s): %v", s, vc.Alg, vc.Variant, v)
		return
	}
	if err == nil && pk == nil {
		c.Fail("C16/pubkey/nil", "PubKey() returned (nil, nil) for %s", s)
		return
	}
	if err == nil {
		// one principal, one DID: any accepted identifier that yields a key is the canonical one of that key
		canon, cerr := did.FromPubKey(pk)
		if cerr != nil {
			c.Fail("C16/canonical/frompubkey-error", "key extracted from %s cannot be turned back into a DID: %v", s, cerr)
		} else if canon != d || canon.String() != s {
			same := pk.Equals(k.Pub)
			c.Fail("C16/canonical/alias/"+vc.Variant+"/"+string(vc.Alg), "identifier %s (%s of a %s key) is accepted and yields a key (same as original: %v) whose canonical DID is %s: two identifiers for one principal", s, vc.Variant, vc.Alg, same, canon)
		}
		// the same, decided without the library's own re-encoding: a point has exactly one compressed spelling
		if canonical, known := refPointCanonical(code, payload); known && !canonical {
			c.Fail("C16/canonical/alias-point/"+vc.Variant+"/"+string(vc.Alg), "identifier %s (%s of a %s key) yields a key although its key bytes are not the one compressed spelling of a curve point (form 2/3, x below the field prime, on the curve)", s, vc.Variant, vc.Alg)
		}
	} else if vc.Variant == "small-x" {
		c.Fail("C16/roundtrip/pubkey-error/small-x/"+string(vc.Alg), "the canonical identifier %s of a curve point with a small x yields no key: %v", s, err)
	}
	outcome := "key"
	if err != nil {
		outcome = "error"
	}
	c.P.NonTrivial([]any{"var", vc}, map[string]any{"variant": vc, "id": s, "parse": "accepted", "pubkey": outcome})
}

var varProp = h.Define(P, "variants", func(t *rapid.T) VarCase {
	var vc VarCase
	vc.Alg, vc.Idx = drawAlg(t, "alg")
	vc.Variant = rapid.SampledFrom(variants).Draw(t, "variant")
	vc.N = rapid.IntRange(0, 600).Draw(t, "n")
	return vc
}, runVariant)

func TestVariants(t *testing.T) { varProp.Check(t) }

// TestVariantsEnumerated: every variant x algorithm, and every truncation length.
func TestVariantsEnumerated(t *testing.T) {
	for _, a := range keys.AllAlgs {
		for _, v := range variants {
			ns := []int{0, 1, 2, 3, 4, 5}
			if v == "full-point-off-curve" || v == "full-point-constant" || v == "compressed-off-curve" {
				ns = nil
				for n := 0; n < 48; n++ {
					ns = append(ns, n, 100+7*n)
				}
			}
			if v == "rsa-der" || v == "x-plus-p" || v == "small-x" {
				ns = nil
				for n := 0; n < 160; n++ {
					ns = append(ns, n)
				}
			}
			if v == "truncate" {
				ns = nil
				kb, _ := canonicalKeyBytes(a, keys.Get(a, 0).Pub)
				for n := 0; n <= len(kb) && n <= 140; n++ {
					ns = append(ns, n)
				}
			}
			for _, n := range ns {
				varProp.One(t, VarCase{Alg: a, Idx: 0, Variant: v, N: n})
			}
		}
	}
}

// ---------- strings ----------

type StrCase struct{ S string }

func runStr(c *h.Ctx, sc StrCase) {
	var d did.DID
	var err error
	// what the process converted last (the undefined DID printed, another DID parsed and printed) is nothing to the
	// string at hand
	switch len(sc.S) % 3 {
	case 0:
		_ = did.Undef.String()
	case 1:
		_ = keys.Get(keys.Ed25519, 0).DID.String()
		_, _ = did.Parse(keys.Get(keys.P256, 0).DID.String())
	}
	if pn, v, _ := h.Try(func() { d, err = did.Parse(sc.S) }); pn {
		c.Fail("C16/parse/panic", "Parse(%q) panicked: %v", sc.S, v)
		return
	}
	// the other way from a string to a key: ToPubKey. Whatever string it draws a key from is the canonical identifier
	// of that key, and it draws one exactly when Parse + PubKey do
	{
		var tk crypto.PubKey
		var terr error
		if pn, v, _ := h.Try(func() { tk, terr = did.ToPubKey(sc.S) }); pn {
			c.Fail("C16/topubkey/panic", "ToPubKey(%q) panicked: %v", sc.S, v)
			return
		}
		if terr == nil && tk != nil {
			if canon, cerr := did.FromPubKey(tk); cerr != nil || canon.String() != sc.S {
				c.Fail("C16/canonical/alias/topubkey", "ToPubKey(%q) yields a key whose canonical identifier is %q (%v): two identifiers for one principal", sc.S, canon.String(), cerr)
				return
			}
		}
		viaParse := false
		if err == nil {
			if pn, _, _ := h.Try(func() {
				if pk, perr := d.PubKey(); perr == nil && pk != nil {
					viaParse = true
				}
			}); pn {
				viaParse = false
			}
		}
		if (terr == nil) != viaParse {
			c.Fail("C16/topubkey/disagrees-with-parse", "ToPubKey(%q) succeeds=%v, Parse + PubKey succeed=%v", sc.S, terr == nil, viaParse)
			return
		}
	}
	want := refParse(sc.S)
	if (err == nil) != want {
		// only the reject direction is fixed by the statement for arbitrary
		// strings; accepting less than the reference (e.g. stricter varint) is
		// reported too, since "supported key type" identifiers must parse.
		raw, okb := []byte(nil), false
		if strings.HasPrefix(sc.S, "did:key:z") {
			raw, okb = b58dec(sc.S[len("did:key:z"):])
		}
		_ = raw
		if err == nil {
			c.Fail("C16/parse/accepts-invalid", "Parse(%q) accepted; the reference says it is not a base58btc did:key of a supported type", sc.S)
		} else if okb {
			c.Fail("C16/parse/rejects-valid", "Parse(%q) rejected (%v); the reference says it is a base58btc did:key of a supported type", sc.S, err)
		}
		return
	}
	if err == nil {
		if d.String() != sc.S {
			// base58 has one encoding per byte string, so an accepted identifier must print back unchanged
			c.Fail("C16/parse/print-differs", "Parse(%q).String() = %q", sc.S, d.String())
		}
		var perr error
		if pn, v, _ := h.Try(func() { _, perr = d.PubKey() }); pn {
			c.Fail("C16/pubkey/panic/string", "PubKey() panicked on %q: %v", sc.S, v)
		}
		_ = perr
		c.P.Class("str:accepted")
	} else {
		c.P.Class("str:rejected")
	}
	if strings.HasPrefix(sc.S, "did:key:") && len(sc.S) > 9 {
		c.P.NonTrivial([]string{"str", sc.S}, map[string]any{"string": sc.S, "accepted": err == nil})
	}
}

var strProp = h.Define(P, "strings", func(t *rapid.T) StrCase {
	a, i := drawAlg(t, "alg")
	base := keys.Get(a, i).DID.String()
	switch rapid.IntRange(0, 9).Draw(t, "mode") {
	case 0:
		return StrCase{rapid.String().Draw(t, "s")}
	case 1:
		return StrCase{"did:key:" + rapid.StringMatching(`[zmfuZ]?[1-9A-HJ-NP-Za-km-z0OIl+/=]{0,60}`).Draw(t, "tail")}
	case 2: // other multibase prefix
		return StrCase{"did:key:" + rapid.SampledFrom([]string{"m", "f", "u", "Z", "b", "", "zz"}).Draw(t, "mb") + base[len("did:key:z"):]}
	case 3: // random payload behind a random code
		code := rapid.SampledFrom([]uint64{cEd25519, cSecp256k1, cP256, cP384, cP521, cRSA, cX25519, 0x00, 0x55, 0x70, 0x1203, 0xeb51}).Draw(t, "code")
		pl := rapid.SliceOfN(rapid.Byte(), 0, 40).Draw(t, "pl")
		return StrCase{didString(code, pl)}
	case 4: // prefix mutations
		return StrCase{rapid.SampledFrom([]string{"did:key", "did:web:", "DID:KEY:", "did:key::", " did:key:", "did:key:z "}).Draw(t, "pfx") + base[len("did:key:"):]}
	default: // character-level mutation
		r := []rune(base)
		n := rapid.IntRange(1, 2).Draw(t, "nm")
		for k := 0; k < n; k++ {
			pos := rapid.IntRange(0, len(r)-1).Draw(t, "pos")
			switch rapid.IntRange(0, 2).Draw(t, "mk") {
			case 0:
				r = append(r[:pos:pos], r[pos+1:]...)
			case 1:
				r[pos] = rapid.SampledFrom([]rune("0OIl1zZ9aé ")).Draw(t, "ch")
			default:
				r = append(r[:pos:pos], append([]rune{rapid.SampledFrom([]rune("0OIl1zZ9a")).Draw(t, "ch")}, r[pos:]...)...)
			}
			if len(r) == 0 {
				break
			}
		}
		return StrCase{string(r)}
	}
}, runStr)

func TestStrings(t *testing.T) { strProp.Check(t) }

var _ = pb.KeyType_RSA

// FuzzDID: coverage-guided search over identifier strings (parser grammar, canonical-identifier and no-panic oracles).
func FuzzDID(f *testing.F) {
	for i := 0; i < 6; i++ {
		k := keys.Get(keys.AllAlgs[i%len(keys.AllAlgs)], 0)
		f.Add(k.DID.String())
	}
	for _, s := range []string{"did:key:z", "did:key:", "did:web:x", "did:key:z6Mk", "did:key:f00", "did:key:z6LSbysY2xFMRpGMhb7tFTLMpeuPRaqaWM1yECx2AtzE3KCc"} {
		f.Add(s)
	}
	f.Fuzz(func(t *testing.T, s string) {
		if len(s) > 2048 {
			return
		}
		strProp.One(t, StrCase{S: s})
	})
}

// ---------- concurrent conversions ----------

// ConcCase: several goroutines convert DIDs of DIFFERENT keys (drawn so that keys of the same algorithm / curve
// meet) to public keys and back at the same time; each must get the key of its own DID, as when run alone.
type ConcCase struct {
	Keys       []KeyRef `json:"keys"`
	Goroutines int      `json:"goroutines"`
	Rounds     int      `json:"rounds"`
}

type KeyRef struct {
	Alg keys.Alg `json:"alg"`
	Idx int      `json:"idx"`
}

func runConc(c *h.Ctx, cc ConcCase) {
	type job struct {
		text string
		want crypto.PubKey
		d    did.DID
	}
	var jobs []job
	for _, k := range cc.Keys {
		kk := keys.Get(k.Alg, k.Idx)
		jobs = append(jobs, job{kk.DID.String(), kk.Priv.GetPublic(), kk.DID})
	}
	if len(jobs) == 0 {
		return
	}
	var mu sync.Mutex
	bad := ""
	pv := h.Concurrently(cc.Goroutines, func(g int) {
		for r := 0; r < cc.Rounds; r++ {
			j := jobs[(g+r)%len(jobs)]
			d, err := did.Parse(j.text)
			if err != nil || d != j.d {
				mu.Lock()
				bad = fmt.Sprintf("Parse(%s) under concurrency: %v", j.text, err)
				mu.Unlock()
				return
			}
			pk, err := d.PubKey()
			if err != nil || pk == nil || !pk.Equals(j.want) {
				mu.Lock()
				bad = fmt.Sprintf("%s yields another key (or an error: %v) while other DIDs are converted concurrently", j.text, err)
				mu.Unlock()
				return
			}
			if pk2, err := did.ToPubKey(j.text); err != nil || !pk2.Equals(j.want) {
				mu.Lock()
				bad = fmt.Sprintf("ToPubKey(%s) yields another key (or an error: %v) under concurrency", j.text, err)
				mu.Unlock()
				return
			}
			if d2, err := did.FromPubKey(pk); err != nil || d2 != j.d {
				mu.Lock()
				bad = fmt.Sprintf("FromPubKey(PubKey(%s)) = %s under concurrency", j.text, d2)
				mu.Unlock()
				return
			}
		}
	})
	if pv != nil {
		c.Fail("C16/concurrent/panic", "panic in a concurrent conversion: %v", pv)
	}
	if bad != "" {
		c.Fail("C16/concurrent/wrong-key", "%s", bad)
	}
	algs := map[keys.Alg]int{}
	for _, k := range cc.Keys {
		algs[k.Alg]++
	}
	c.P.NonTrivial([]any{"conc", cc.Keys, cc.Goroutines}, map[string]any{"concurrent_conversions": cc.Goroutines, "keys": cc.Keys, "rounds": cc.Rounds})
	c.P.Class(fmt.Sprintf("concurrent/goroutines=%d", cc.Goroutines))
}

var concProp = h.Define(P, "concurrent", func(t *rapid.T) ConcCase {
	cc := ConcCase{Goroutines: rapid.IntRange(2, 8).Draw(t, "goroutines"), Rounds: rapid.IntRange(20, 200).Draw(t, "rounds")}
	alg := rapid.SampledFrom(keys.AllAlgs).Draw(t, "alg")
	n := rapid.IntRange(2, 4).Draw(t, "nkeys")
	for i := 0; i < n; i++ {
		a := alg
		if rapid.IntRange(0, 3).Draw(t, "otheralg") == 0 {
			a = rapid.SampledFrom(keys.AllAlgs).Draw(t, "alg2")
		}
		idx := i
		if a == keys.RSA {
			idx = i % keys.RSAFast
		}
		cc.Keys = append(cc.Keys, KeyRef{Alg: a, Idx: idx})
	}
	return cc
}, runConc)

func TestConcurrentConversions(t *testing.T) { concProp.Check(t) }

// TestPrefixTwins: two RSA keys whose encodings share a long prefix (keys.RSATwinIdx) converted one after the
// other, in both orders and repeatedly: each DID yields its own key, and the DIDs are unequal.
func TestPrefixTwins(t *testing.T) {
	ctx := &h.Ctx{P: P, T: t}
	a, b := keys.Get(keys.RSA, 0), keys.Get(keys.RSA, keys.RSATwinIdx)
	if a.DID == b.DID {
		ctx.Fail("C16/equality/twins-equal", "two different RSA keys have equal DIDs")
	}
	for round := 0; round < 3; round++ {
		for _, order := range [][2]*keys.Key{{b, a}, {a, b}} {
			for _, k := range order {
				P.Eval()
				d, err := did.Parse(k.DID.String())
				if err != nil || d != k.DID {
					ctx.Fail("C16/parse/rejects-valid", "Parse(%s): %v", k.DID, err)
					continue
				}
				pk, err := d.PubKey()
				if err != nil || !pk.Equals(k.Priv.GetPublic()) {
					ctx.Fail("C16/roundtrip/pubkey-differs/rsa-prefix-twin", "after converting its prefix twin, %s yields another key (err=%v)", k.DID, err)
				}
				if pk2, err := did.ToPubKey(k.DID.String()); err != nil || !pk2.Equals(k.Priv.GetPublic()) {
					ctx.Fail("C16/roundtrip/pubkey-differs/rsa-prefix-twin", "ToPubKey(%s) yields another key (err=%v)", k.DID, err)
				}
			}
		}
	}
	P.AddDistinct(12)
	P.Class("prefix-twins")
}

// TestCoercedSecp256k1: a secp256k1 public key held as a generic ECDSA key (crypto.ECDSAPublicKey over the
// secp256k1 curve) is the same principal as the native key: FromPubKey gives the same DID, which yields the same
// key. Keys are searched so that X or Y has one or two leading zero bytes (about 1 key in 128): fixed-width
// encodings of coordinates are where such conversions go wrong.
func TestCoercedSecp256k1(t *testing.T) {
	ctx := &h.Ctx{P: P, T: t}
	found := map[string]int{}
	for i := 0; i < 6000 && (found["short-x"] < 3 || found["short-y"] < 3 || found["full"] < 6); i++ {
		k := keys.Get(keys.Secp256k1, 1000+i)
		raw, err := k.Priv.GetPublic().Raw() // 33-byte compressed point
		if err != nil {
			t.Fatalf("INCONCLUSIVE %v", err)
		}
		pk, err := secp.ParsePubKey(raw)
		if err != nil {
			t.Fatalf("INCONCLUSIVE %v", err)
		}
		std := pk.ToECDSA()
		class := "full"
		if std.X.BitLen() <= 248 {
			class = "short-x"
		} else if std.Y.BitLen() <= 248 {
			class = "short-y"
		}
		if found[class] >= 6 {
			continue
		}
		found[class]++
		P.Eval()
		typed, _, err := crypto.ECDSAKeyPairFromKey(&ecdsa.PrivateKey{PublicKey: *std, D: new(big.Int).SetBytes(mustRaw(k.Priv))})
		var pub crypto.PubKey
		if err == nil {
			pub = typed.GetPublic()
		} else if pub, err = crypto.ECDSAPublicKeyFromPubKey(*std); err != nil {
			t.Fatalf("INCONCLUSIVE cannot wrap the key as a generic ECDSA key: %v", err)
		}
		d, err := did.FromPubKey(pub)
		if err != nil {
			ctx.Fail("C16/coerced/rejected/"+class, "FromPubKey refuses a valid secp256k1 key held as a generic ECDSA key (%s coordinate): %v", class, err)
			continue
		}
		if d != k.DID {
			ctx.Fail("C16/coerced/other-did/"+class, "the same secp256k1 point gives %s as a generic ECDSA key and %s as a native key (%s)", d, k.DID, class)
			continue
		}
		back, err := d.PubKey()
		if err != nil || !back.Equals(k.Priv.GetPublic()) {
			ctx.Fail("C16/coerced/pubkey-differs/"+class, "DID of a coerced key yields another key (err=%v)", err)
		}
		P.Class("coerced:" + class)
		P.NonTrivial([]any{"coerced", class, i}, map[string]any{"coerced_secp256k1": class, "did": d.String()})
	}
	if found["short-x"] == 0 || found["short-y"] == 0 {
		t.Fatalf("INCONCLUSIVE no key with a short coordinate found")
	}
}

func mustRaw(p crypto.PrivKey) []byte {
	b, err := p.Raw()
	if err != nil {
		panic(err)
	}
	return b
}

// TestEveryPoolKey: every committed RSA key (sizes 2048..8192, public exponents 3, 5, 17, 257 and 65537, the prefix
// twin) and the first 40 keys of every other algorithm, each paired with itself and with its neighbour.
func TestEveryPoolKey(t *testing.T) {
	for _, a := range keys.AllAlgs {
		n := 40
		if a == keys.RSA {
			n = keys.RSAPoolSize()
		}
		for i := 0; i < n; i++ {
			keyProp.One(t, KeyCase{Alg: a, Idx: i, Alg2: a, Idx2: i})
			keyProp.One(t, KeyCase{Alg: a, Idx: i, Alg2: a, Idx2: (i + 1) % n})
		}
	}
}

// TestDecoratedIdentifiers: the canonical identifier of one key of every algorithm, DECORATED in the ways identifiers
// are decorated in the wild - a version segment (did:key:1:z...), DID URL parts (#fragment, ?query, /path, ;param),
// another case, blanks and line ends around or inside, percent-encoding, a doubled or missing separator, the method
// name spelled otherwise. None of them is "did:key:z" + base58btc: each is rejected (and if one were accepted, it
// would be a second identifier for the same principal).
func TestDecoratedIdentifiers(t *testing.T) {
	n := 0
	for _, a := range keys.AllAlgs {
		base := keys.Get(a, 0).DID.String()
		mb := base[len("did:key:"):]
		forms := []string{
			"did:key:1:" + mb, "did:key:01:" + mb, "did:key:001:" + mb, "did:key:0:" + mb, "did:key:2:" + mb, "did:key:1.0:" + mb, "did:key:v1:" + mb, "did:key::" + mb, "did:key:1::" + mb,
			base + "#" + mb, base + "#" + base, base + "#" + mb + "#" + mb, base + "#" + mb[1:], base + "?" + mb, base + "/" + mb, base + "#", base + "#key-1", base + "?versionId=1", base + "?", base + "/", base + "/path", base + ";service=x", base + ":", base + ":1",
			"DID:KEY:" + mb, "Did:Key:" + mb, "did:KEY:" + mb, "did:key:" + strings.ToUpper(mb[:1]) + mb[1:],
			" " + base, base + " ", base + "\n", base + "\r\n", "\t" + base, base + "\x00", "\ufeff" + base, "did:key: " + mb, "did:key:" + mb[:5] + " " + mb[5:], "did:key:" + mb[:5] + "\n" + mb[5:],
			"did%3Akey%3A" + mb, "did:key:%7A" + mb[1:], "did:key:" + mb + "%20",
			"did:key:z", "did:key:", "did:key:z1", "did:key:z" + mb[1:3], did.Undef.String(), did.Undef.String() + " ", "did:key" + mb, "did:" + mb, "did::key:" + mb, "did:key:key:" + mb, "did:keys:" + mb, "did:ke:" + mb, "urn:did:key:" + mb, "did:key:did:key:" + mb,
			"<" + base + ">", "\"" + base + "\"", "did:key:" + mb + mb[:1], base + "=", base + "==",
		}
		for _, f := range forms {
			strProp.One(t, StrCase{f})
			n++
		}
	}
	P.Sample(map[string]any{"decorated_identifiers": n})
}

module verif/harness

go 1.23

require (
	github.com/ucan-wg/go-ucan v0.0.0
	pgregory.net/rapid v1.3.0
)

replace github.com/ucan-wg/go-ucan => /repo

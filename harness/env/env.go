// Package env is the harness's own view of the UCAN envelope: it parses
// sealed bytes with go-ipld-prime, verifies the signature independently of
// go-ucan's envelope package (own did:key decoder, own varsig header table),
// extracts the payload fields, and can hand-sign arbitrary payloads.
package env

import (
	"crypto/ecdsa"
	"crypto/elliptic"
	"crypto/x509"
	"errors"
	"fmt"
	"math/big"
	"strings"

	"github.com/ipld/go-ipld-prime"
	"github.com/ipld/go-ipld-prime/codec/dagcbor"
	"github.com/ipld/go-ipld-prime/datamodel"
	"github.com/ipld/go-ipld-prime/fluent/qp"
	cidlink "github.com/ipld/go-ipld-prime/linking/cid"
	"github.com/ipld/go-ipld-prime/node/basicnode"
	"github.com/libp2p/go-libp2p/core/crypto"
	"github.com/libp2p/go-libp2p/core/crypto/pb"

	"github.com/ucan-wg/go-ucan/did"

	"verif/harness/tok"
)

const (
	DlgTag = "ucan/dlg@1.0.0-rc.1"
	InvTag = "ucan/inv@1.0.0-rc.1"
)

// Env is a parsed envelope.
type Env struct {
	Sig        []byte
	Header     []byte
	Tag        string
	Payload    ipld.Node
	SigPayload ipld.Node
}

// ---------- independent did:key decoding ----------

const b58 = "123456789ABCDEFGHJKLMNPQRSTUVWXYZabcdefghijkmnopqrstuvwxyz"

func b58dec(s string) ([]byte, bool) {
	x := big.NewInt(0)
	fe := big.NewInt(58)
	for _, c := range s {
		i := strings.IndexRune(b58, c)
		if i < 0 {
			return nil, false
		}
		x.Mul(x, fe)
		x.Add(x, big.NewInt(int64(i)))
	}
	out := x.Bytes()
	nz := 0
	for _, c := range s {
		if c != '1' {
			break
		}
		nz++
	}
	return append(make([]byte, nz), out...), true
}

func uvarint(b []byte) (uint64, int, bool) {
	var v uint64
	var s uint
	for i, c := range b {
		if i == 9 {
			return 0, 0, false
		}
		if c < 0x80 {
			return v | uint64(c)<<s, i + 1, true
		}
		v |= uint64(c&0x7f) << s
		s += 7
	}
	return 0, 0, false
}

func putUvarint(x uint64) []byte {
	var out []byte
	for x >= 0x80 {
		out = append(out, byte(x)|0x80)
		x >>= 7
	}
	return append(out, byte(x))
}

// KeyFromDID decodes a did:key string into a libp2p public key without using
// the did package.
func KeyFromDID(s string) (crypto.PubKey, error) {
	if !strings.HasPrefix(s, "did:key:z") {
		return nil, errors.New("not a base58btc did:key")
	}
	raw, ok := b58dec(s[len("did:key:z"):])
	if !ok {
		return nil, errors.New("bad base58")
	}
	code, n, ok := uvarint(raw)
	if !ok {
		return nil, errors.New("bad varint")
	}
	kb := raw[n:]
	nist := func(c elliptic.Curve) (crypto.PubKey, error) {
		x, y := elliptic.UnmarshalCompressed(c, kb)
		if x == nil {
			return nil, errors.New("bad point")
		}
		pkix, err := x509.MarshalPKIXPublicKey(&ecdsa.PublicKey{Curve: c, X: x, Y: y})
		if err != nil {
			return nil, err
		}
		return crypto.UnmarshalECDSAPublicKey(pkix)
	}
	switch code {
	case 0xed:
		return crypto.UnmarshalEd25519PublicKey(kb)
	case 0xe7:
		if len(kb) != 33 {
			return nil, errors.New("secp256k1: not compressed")
		}
		return crypto.UnmarshalSecp256k1PublicKey(kb)
	case 0x1200:
		return nist(elliptic.P256())
	case 0x1201:
		return nist(elliptic.P384())
	case 0x1202:
		return nist(elliptic.P521())
	case 0x1205:
		k, err := x509.ParsePKCS1PublicKey(kb)
		if err != nil {
			return nil, err
		}
		pkix, err := x509.MarshalPKIXPublicKey(k)
		if err != nil {
			return nil, err
		}
		return crypto.UnmarshalRsaPublicKey(pkix)
	}
	return nil, fmt.Errorf("unsupported multicodec 0x%x", code)
}

// HeaderFor is the harness's own varsig header table, from multicodec
// constants: 0x34 prefix, key codec, [hash], [rsa sig len], dag-cbor.
func HeaderFor(t pb.KeyType) []byte {
	cat := func(vs ...uint64) []byte {
		var out []byte
		for _, v := range vs {
			out = append(out, putUvarint(v)...)
		}
		return out
	}
	switch t {
	case pb.KeyType_Ed25519:
		return cat(0x34, 0xed, 0x71)
	case pb.KeyType_Secp256k1:
		return cat(0x34, 0xe7, 0x12, 0x71)
	case pb.KeyType_ECDSA:
		return cat(0x34, 0xd01200, 0x12, 0x71) // es256
	case pb.KeyType_RSA:
		return cat(0x34, 0x1205, 0x12, 0x100, 0x71)
	}
	return nil
}

// Parse reads sealed DAG-CBOR bytes as [sig, {h, tag: payload}].
func Parse(sealed []byte) (*Env, error) {
	n, err := ipld.Decode(sealed, dagcbor.Decode)
	if err != nil {
		return nil, err
	}
	return FromNode(n)
}

// FromNode reads an envelope node.
func FromNode(n ipld.Node) (*Env, error) {
	if n.Kind() != ipld.Kind_List || n.Length() != 2 {
		return nil, fmt.Errorf("envelope is not a 2-element list")
	}
	sigN, _ := n.LookupByIndex(0)
	sig, err := sigN.AsBytes()
	if err != nil {
		return nil, fmt.Errorf("signature is not bytes")
	}
	sp, _ := n.LookupByIndex(1)
	if sp.Kind() != ipld.Kind_Map || sp.Length() != 2 {
		return nil, fmt.Errorf("sigPayload is not a 2-entry map")
	}
	e := &Env{Sig: sig, SigPayload: sp}
	it := sp.MapIterator()
	for !it.Done() {
		k, v, err := it.Next()
		if err != nil {
			return nil, err
		}
		ks, _ := k.AsString()
		switch {
		case ks == "h":
			e.Header, err = v.AsBytes()
			if err != nil {
				return nil, fmt.Errorf("header is not bytes")
			}
		case strings.HasPrefix(ks, "ucan/"):
			if e.Tag != "" {
				return nil, fmt.Errorf("two payload tags")
			}
			e.Tag, e.Payload = ks, v
		default:
			return nil, fmt.Errorf("unexpected sigPayload key %q", ks)
		}
	}
	if e.Header == nil || e.Payload == nil {
		return nil, fmt.Errorf("missing header or payload")
	}
	return e, nil
}

// Verify checks the signature independently: issuer key from payload.iss, the
// header must be the table entry of that key type, signature over the
// canonical DAG-CBOR encoding of {h, tag: payload}.
func (e *Env) Verify() error {
	if e.Payload.Kind() != ipld.Kind_Map {
		return fmt.Errorf("payload is not a map")
	}
	issN, err := e.Payload.LookupByString("iss")
	if err != nil {
		return fmt.Errorf("no iss")
	}
	iss, err := issN.AsString()
	if err != nil {
		return fmt.Errorf("iss is not a string")
	}
	pub, err := KeyFromDID(iss)
	if err != nil {
		return fmt.Errorf("iss: %w", err)
	}
	if string(HeaderFor(pub.Type())) != string(e.Header) {
		return fmt.Errorf("header %x does not announce the issuer's key type %s", e.Header, pub.Type())
	}
	data, err := ipld.Encode(e.SigPayload, dagcbor.Encode)
	if err != nil {
		return err
	}
	ok, err := pub.Verify(data, e.Sig)
	if err != nil || !ok {
		return fmt.Errorf("signature does not verify")
	}
	return nil
}

// ---------- payload view ----------

func optStr(m ipld.Node, k string) (string, bool, error) {
	n, err := m.LookupByString(k)
	if err != nil {
		return "", false, nil
	}
	if n.IsNull() {
		return "", false, nil
	}
	s, err := n.AsString()
	return s, true, err
}

func optInt(m ipld.Node, k string) (*int64, error) {
	n, err := m.LookupByString(k)
	if err != nil || n.IsNull() {
		return nil, nil
	}
	i, err := n.AsInt()
	if err != nil {
		return nil, err
	}
	return &i, nil
}

func mapOf(m ipld.Node, k string) (map[string]ipld.Node, error) {
	out := map[string]ipld.Node{}
	n, err := m.LookupByString(k)
	if err != nil || n.IsNull() {
		return out, nil
	}
	if n.Kind() != ipld.Kind_Map {
		return nil, fmt.Errorf("%s is not a map", k)
	}
	it := n.MapIterator()
	for !it.Done() {
		kk, v, err := it.Next()
		if err != nil {
			return nil, err
		}
		ks, _ := kk.AsString()
		out[ks] = v
	}
	return out, nil
}

// View extracts the fields of the payload as a tok.View (harness-side
// decoding of the wire form, independent of the token packages).
func (e *Env) View() (tok.View, error) {
	p := e.Payload
	var v tok.View
	switch e.Tag {
	case DlgTag:
		v.Type = "dlg"
	case InvTag:
		v.Type = "inv"
	default:
		return v, fmt.Errorf("unknown tag %q", e.Tag)
	}
	parseDID := func(k string) (did.DID, error) {
		s, ok, err := optStr(p, k)
		if err != nil {
			return did.Undef, err
		}
		if !ok {
			return did.Undef, nil
		}
		return did.Parse(s)
	}
	var err error
	if v.Iss, err = parseDID("iss"); err != nil {
		return v, err
	}
	if v.Aud, err = parseDID("aud"); err != nil {
		return v, err
	}
	if v.Sub, err = parseDID("sub"); err != nil {
		return v, err
	}
	if v.Cmd, _, err = optStr(p, "cmd"); err != nil {
		return v, err
	}
	if n, err := p.LookupByString("nonce"); err == nil && !n.IsNull() {
		if v.Nonce, err = n.AsBytes(); err != nil {
			return v, err
		}
	}
	if v.Meta, err = mapOf(p, "meta"); err != nil {
		return v, err
	}
	if v.Exp, err = optInt(p, "exp"); err != nil {
		return v, err
	}
	if v.Type == "dlg" {
		if v.Nbf, err = optInt(p, "nbf"); err != nil {
			return v, err
		}
		if v.Pol, err = p.LookupByString("pol"); err != nil {
			return v, err
		}
	} else {
		if v.Iat, err = optInt(p, "iat"); err != nil {
			return v, err
		}
		if v.Args, err = mapOf(p, "args"); err != nil {
			return v, err
		}
		if n, err := p.LookupByString("prf"); err == nil && n.Kind() == ipld.Kind_List {
			it := n.ListIterator()
			for !it.Done() {
				_, x, _ := it.Next()
				l, err := x.AsLink()
				if err != nil {
					return v, err
				}
				v.Prf = append(v.Prf, l.(cidlink.Link).Cid.String())
			}
		}
		if n, err := p.LookupByString("cause"); err == nil && !n.IsNull() {
			l, err := n.AsLink()
			if err != nil {
				return v, err
			}
			v.Cause = l.(cidlink.Link).Cid.String()
		}
	}
	return v, nil
}

// ---------- hand signing ----------

// SigPayloadNode builds {h: header, tag: payload}.
func SigPayloadNode(header []byte, tag string, payload ipld.Node) ipld.Node {
	n, err := qp.BuildMap(basicnode.Prototype.Any, 2, func(ma datamodel.MapAssembler) {
		qp.MapEntry(ma, "h", qp.Bytes(header))
		qp.MapEntry(ma, tag, qp.Node(payload))
	})
	if err != nil {
		panic(err)
	}
	return n
}

// Seal signs sigPayload with priv and returns the DAG-CBOR envelope bytes.
func Seal(priv crypto.PrivKey, sigPayload ipld.Node) ([]byte, error) {
	data, err := ipld.Encode(sigPayload, dagcbor.Encode)
	if err != nil {
		return nil, err
	}
	sig, err := priv.Sign(data)
	if err != nil {
		return nil, err
	}
	return Assemble(sig, sigPayload)
}

// Assemble encodes [sig, sigPayload].
func Assemble(sig []byte, sigPayload ipld.Node) ([]byte, error) {
	n, err := qp.BuildList(basicnode.Prototype.Any, 2, func(la datamodel.ListAssembler) {
		qp.ListEntry(la, qp.Bytes(sig))
		qp.ListEntry(la, qp.Node(sigPayload))
	})
	if err != nil {
		return nil, err
	}
	return ipld.Encode(n, dagcbor.Encode)
}

// SignPayload signs an arbitrary payload node under tag with the right header for priv.
func SignPayload(priv crypto.PrivKey, tag string, payload ipld.Node) ([]byte, error) {
	return Seal(priv, SigPayloadNode(HeaderFor(priv.Type()), tag, payload))
}

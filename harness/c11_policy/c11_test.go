// C11 — policy matching follows the policy-language semantics.
package c11

import (
	mh "github.com/multiformats/go-multihash"
	"github.com/ipfs/go-cid"
	"math"
	"fmt"
	"strings"
	"os"
	"testing"

	"github.com/ipld/go-ipld-prime"
	"pgregory.net/rapid"


	"verif/harness/h"
	_ "verif/harness/warm"
	"verif/harness/pol"
	"verif/harness/sel"
	"verif/harness/val"
)

var P = h.New("C11", "exploration",
	"case = (policy over all eleven statement kinds, nesting <= 3, selectors guided by the data, literals equal/near/other-kind; map-rooted IPLD data with lists, present / missing-required / missing-optional fields; a second policy q; permutation seeds; an extra operand). Oracles: (1) classical reference evaluation whenever every selector resolves; (2) metamorphic: operand permutation of every and/or, element permutation and element insertion under all/any, extra operand in a positive-position and, Match => PartialMatch, concatenation, top-level missing required / optional data. Non-trivial = the policy has >= 2 statement kinds or a connective/quantifier with >= 2 operands/elements. Distinct by (policy shape, data shape, reference outcome).")

func TestMain(m *testing.M) { os.Exit(P.Main(m)) }
func TestReplay(t *testing.T) { P.Replay(t) }

type Case struct {
	Pol      pol.Policy `json:"pol"`
	Q        pol.Policy `json:"q"`
	Data     val.V      `json:"data"`
	Perm     []int      `json:"perm"`            // permutation seed
	Extra    *pol.Stmt  `json:"extra,omitempty"` // operand added to an `and`
	ExtraAt  int        `json:"extra_at"`
	ExtraEl  *val.V     `json:"extra_el,omitempty"` // element added to a list under all
	ViaCtor  bool       `json:"via_ctor"`
	Missing  string     `json:"missing"` // name of a field absent from the root map
}

type res struct{ match, partial bool }

func eval(c *h.Ctx, p pol.Policy, data ipld.Node, viaCtor bool) (res, bool) {
	bp, err := p.Build(!viaCtor)
	if err != nil {
		c.P.Class("build-error")
		return res{}, false
	}
	var r res
	if pn, v, _ := h.Try(func() {
		r.match, _ = bp.Match(data)
		r.partial, _ = bp.PartialMatch(data)
	}); pn {
		c.P.PanicSeen()
		c.Fail("C11/panic", "Match/PartialMatch panicked: %v\npolicy %s", v, show(p))
		return res{}, false
	}
	return r, true
}

func show(p pol.Policy) string {
	bp, err := p.Build(true)
	if err != nil {
		return fmt.Sprintf("%+v", p)
	}
	return bp.String()
}

// permute returns a copy of the policy in which the operands of every and/or
// (and the top-level statement list is NOT touched) are permuted by seed.
func permuteStmt(s pol.Stmt, seed []int, k *int) pol.Stmt {
	out := s
	if len(s.Sub) > 0 {
		out.Sub = make([]pol.Stmt, len(s.Sub))
		for i, c := range s.Sub {
			out.Sub[i] = permuteStmt(c, seed, k)
		}
		if s.Op == "and" || s.Op == "or" {
			out.Sub = permuted(out.Sub, seed, k)
		}
	}
	return out
}

func permuted[T any](in []T, seed []int, k *int) []T {
	out := append([]T{}, in...)
	for i := len(out) - 1; i > 0; i-- {
		j := 0
		if len(seed) > 0 {
			j = seed[*k%len(seed)] % (i + 1)
			*k++
		}
		out[i], out[j] = out[j], out[i]
	}
	return out
}

// andsPositive collects pointers (paths) to `and` statements not under a `not`.
type path []int

func collectAnds(s pol.Stmt, p path, out *[]path) {
	if s.Op == "not" {
		return
	}
	if s.Op == "and" {
		*out = append(*out, append(path{}, p...))
	}
	for i, c := range s.Sub {
		collectAnds(c, append(p, i), out)
	}
}

func addOperand(s pol.Stmt, p path, extra pol.Stmt, at int) pol.Stmt {
	out := s
	out.Sub = append([]pol.Stmt{}, s.Sub...)
	if len(p) == 0 {
		i := at % (len(out.Sub) + 1)
		out.Sub = append(out.Sub[:i], append([]pol.Stmt{extra}, out.Sub[i:]...)...)
		return out
	}
	out.Sub[p[0]] = addOperand(out.Sub[p[0]], p[1:], extra, at)
	return out
}

func collectQuant(s pol.Stmt, out *[]pol.Stmt) {
	if s.Op == "all" || s.Op == "any" {
		*out = append(*out, s)
	}
	for _, c := range s.Sub {
		collectQuant(c, out)
	}
}

func maxFan(p pol.Policy, data val.V) int {
	m := 0
	var w func(s pol.Stmt, d val.V)
	w = func(s pol.Stmt, d val.V) {
		if (s.Op == "and" || s.Op == "or") && len(s.Sub) > m {
			m = len(s.Sub)
		}
		if s.Op == "all" || s.Op == "any" {
			if rv, st := sel.Resolve(s.Sel, d); st == sel.Value && rv.Kind() == "list" {
				if len(rv.L) > m {
					m = len(rv.L)
				}
				for _, e := range rv.L {
					w(s.Sub[0], e)
				}
				return
			}
		}
		for _, c := range s.Sub {
			w(c, d)
		}
	}
	for _, s := range p {
		w(s, data)
	}
	return m
}

func run(c *h.Ctx, cs Case) {
	data := cs.Data.Node()
	base, ok := eval(c, cs.Pol, data, cs.ViaCtor)
	if !ok {
		return
	}
	kinds := cs.Pol.Kinds()
	for k := range kinds {
		c.P.Class("op:" + k)
	}
	// (1) classical reference
	ref := pol.EvalPolicy(cs.Pol, cs.Data)
	c.P.Class("ref=" + ref.String())
	switch ref {
	case pol.True, pol.False:
		want := ref == pol.True
		if base.match != want {
			// find the first statement that disagrees on its own, for the signature
			op := "policy"
			for _, s := range cs.Pol {
				if r1, ok := eval(c, pol.Policy{s}, data, cs.ViaCtor); ok {
					if rs := pol.Eval(s, cs.Data); (rs == pol.True) != r1.match {
						op = s.Op
						break
					}
				}
			}
			c.Fail("C11/classical/"+op, "every selector resolves; classical reading says %v, Match says %v\npolicy %s\ndata %+v", want, base.match, show(cs.Pol), cs.Data)
		}
		if want && !base.partial {
			c.Fail("C11/classical/partial", "policy is classically true but PartialMatch is false\npolicy %s", show(cs.Pol))
		}
	case pol.Unspecified:
		c.P.Unspecified()
	}
	// other construction path agrees
	if other, ok := eval(c, cs.Pol, data, !cs.ViaCtor); ok && other != base {
		c.Fail("C11/ctor-vs-ipld", "constructor-built and IPLD-built policy disagree: %+v vs %+v\npolicy %s", base, other, show(cs.Pol))
	}
	// (2c) Match => PartialMatch
	if base.match && !base.partial {
		c.Fail("C11/match-implies-partial", "Match true but PartialMatch false\npolicy %s\ndata %+v", show(cs.Pol), cs.Data)
	}
	// (2a) operand permutation
	k := 0
	pp := make(pol.Policy, len(cs.Pol))
	for i, s := range cs.Pol {
		pp[i] = permuteStmt(s, cs.Perm, &k)
	}
	if kinds["and"]+kinds["or"] > 0 {
		if r2, ok := eval(c, pp, data, cs.ViaCtor); ok && r2 != base {
			which := "and"
			if kinds["and"] == 0 {
				which = "or"
			} else if kinds["or"] > 0 {
				which = "and+or"
			}
			c.Fail("C11/order/operands/"+which, "outcome depends on operand order: %+v vs permuted %+v\npolicy   %s\npermuted %s\ndata %+v", base, r2, show(cs.Pol), show(pp), cs.Data)
		}
		c.P.Class("perm-operands")
	}
	// (2a') element permutation / (2b') element insertion under all / any
	var quants []pol.Stmt
	for _, s := range cs.Pol {
		collectQuant(s, &quants)
	}
	for qi, q := range quants {
		if qi > 3 {
			break
		}
		rv, st := sel.Resolve(q.Sel, cs.Data)
		if st != sel.Value || rv.Kind() != "list" {
			continue
		}
		qs := q
		qs.Sel = sel.Sel{{Kind: "id"}}
		r0, ok := eval(c, pol.Policy{qs}, rv.Node(), cs.ViaCtor)
		if !ok {
			continue
		}
		k2 := 0
		pl := val.V{K: "list", L: permuted(rv.L, cs.Perm, &k2)}
		if r1, ok := eval(c, pol.Policy{qs}, pl.Node(), cs.ViaCtor); ok && r1 != r0 {
			c.Fail("C11/order/elements/"+q.Op, "outcome of %s depends on element order: %+v on %+v vs %+v on %+v\nstatement %s", q.Op, r0, rv, r1, pl, show(pol.Policy{qs}))
		}
		c.P.Class("perm-elements")
		if q.Op == "all" && cs.ExtraEl != nil {
			at := cs.ExtraAt % (len(rv.L) + 1)
			ml := val.V{K: "list", L: append(append(append([]val.V{}, rv.L[:at]...), *cs.ExtraEl), rv.L[at:]...)}
			if r1, ok := eval(c, pol.Policy{qs}, ml.Node(), cs.ViaCtor); ok {
				if !r0.match && r1.match {
					c.Fail("C11/monotone/all-element/match", "adding an element under all turned a failing Match into a passing one: %+v -> %+v\nstatement %s", rv, ml, show(pol.Policy{qs}))
				}
				if !r0.partial && r1.partial {
					c.Fail("C11/monotone/all-element/partial", "adding an element under all turned a failing PartialMatch into a passing one: %+v -> %+v\nstatement %s", rv, ml, show(pol.Policy{qs}))
				}
			}
			c.P.Class("extra-element")
		}
	}
	// (2b) extra operand in a positive-position `and`
	if cs.Extra != nil {
		for si, s := range cs.Pol {
			var ands []path
			collectAnds(s, nil, &ands)
			if len(ands) == 0 {
				continue
			}
			pth := ands[cs.ExtraAt%len(ands)]
			more := append(pol.Policy{}, cs.Pol...)
			more[si] = addOperand(s, pth, *cs.Extra, cs.ExtraAt)
			if r1, ok := eval(c, more, data, cs.ViaCtor); ok {
				if !base.match && r1.match {
					c.Fail("C11/monotone/and-operand/match", "adding an operand to an and turned a failing Match into a passing one\nbefore %s\nafter  %s\ndata %+v", show(cs.Pol), show(more), cs.Data)
				}
				if !base.partial && r1.partial {
					c.Fail("C11/monotone/and-operand/partial", "adding an operand to an and turned a failing PartialMatch into a passing one\nbefore %s\nafter  %s\ndata %+v", show(cs.Pol), show(more), cs.Data)
				}
			}
			c.P.Class("extra-operand")
			break
		}
	}
	// (2d) concatenation
	if rq, ok := eval(c, cs.Q, data, cs.ViaCtor); ok {
		cat := append(append(pol.Policy{}, cs.Pol...), cs.Q...)
		if rc, ok := eval(c, cat, data, cs.ViaCtor); ok {
			if rc.match != (base.match && rq.match) {
				c.Fail("C11/concat/match", "Match(p++q)=%v but Match(p)=%v, Match(q)=%v\np %s\nq %s", rc.match, base.match, rq.match, show(cs.Pol), show(cs.Q))
			}
			if rc.partial != (base.partial && rq.partial) {
				c.Fail("C11/concat/partial", "PartialMatch(p++q)=%v but PartialMatch(p)=%v, PartialMatch(q)=%v\np %s\nq %s", rc.partial, base.partial, rq.partial, show(cs.Pol), show(cs.Q))
			}
		}
	}
	// (2e) top-level statement over missing data
	if _, present := cs.Data.Get(cs.Missing); !present && cs.Data.Kind() == "map" && cs.Missing != "" {
		one := val.Int(1)
		for _, opt := range []bool{false, true} {
			for _, mk := range []pol.Stmt{
				{Op: "==", Sel: sel.Sel{{Kind: "field", Name: cs.Missing, Opt: opt}}, Lit: &one},
				{Op: ">", Sel: sel.Sel{{Kind: "field", Name: cs.Missing, Opt: opt}}, Lit: &one},
				{Op: "like", Sel: sel.Sel{{Kind: "field", Name: cs.Missing, Opt: opt}}, Pat: "*"},
				{Op: "all", Sel: sel.Sel{{Kind: "field", Name: cs.Missing, Opt: opt}}, Sub: []pol.Stmt{{Op: "==", Sel: sel.Sel{{Kind: "id"}}, Lit: &one}}},
				{Op: "any", Sel: sel.Sel{{Kind: "field", Name: cs.Missing, Opt: opt}}, Sub: []pol.Stmt{{Op: "==", Sel: sel.Sel{{Kind: "id"}}, Lit: &one}}},
				// the same statement under a negation / a one-operand connective is still a statement over missing data
				{Op: "not", Sub: []pol.Stmt{{Op: "==", Sel: sel.Sel{{Kind: "field", Name: cs.Missing, Opt: opt}}, Lit: &one}}},
				{Op: "and", Sub: []pol.Stmt{{Op: "<", Sel: sel.Sel{{Kind: "field", Name: cs.Missing, Opt: opt}}, Lit: &one}}},
				{Op: "or", Sub: []pol.Stmt{{Op: "==", Sel: sel.Sel{{Kind: "field", Name: cs.Missing, Opt: opt}}, Lit: &one}}},
				{Op: "not", Sub: []pol.Stmt{{Op: "not", Sub: []pol.Stmt{{Op: "like", Sel: sel.Sel{{Kind: "field", Name: cs.Missing, Opt: opt}}, Pat: "*"}}}}},
			} {
				more := append(append(pol.Policy{}, cs.Pol...), mk)
				r1, ok := eval(c, more, data, cs.ViaCtor)
				if !ok {
					continue
				}
				if !opt {
					if r1.match {
						c.Fail("C11/missing/required-passes-match/"+mk.Op, "top-level %s over missing required field %q does not fail Match\npolicy %s", mk.Op, cs.Missing, show(more))
					}
					if r1.partial != base.partial {
						c.Fail("C11/missing/required-affects-partial/"+mk.Op, "top-level %s over missing required field %q changes PartialMatch %v -> %v", mk.Op, cs.Missing, base.partial, r1.partial)
					}
				} else if r1 != base {
					c.Fail("C11/missing/optional-does-not-pass/"+mk.Op, "top-level %s over missing optional field %q changes the outcome %+v -> %+v", mk.Op, cs.Missing, base, r1)
				}
			}
		}
		c.P.Class("missing-toplevel")
	}
	// (2e') the same for the statements the policy itself has: a top-level comparison / like / quantifier whose selector
	// comes to "no value" (an optional field or index that misses, whatever holds it: map, list, bytes) passes - the
	// policy gives what it gives without that statement; one whose selector fails on a required segment fails the full
	// match and leaves the partial match as it is without it
	for i, st := range cs.Pol {
		if len(st.Sel) == 0 || (len(st.Sub) > 0 && st.Op != "all" && st.Op != "any") {
			continue
		}
		_, rs := sel.Resolve(st.Sel, cs.Data)
		if rs != sel.NoValue && rs != sel.Error {
			continue
		}
		rest := append(append(pol.Policy{}, cs.Pol[:i]...), cs.Pol[i+1:]...)
		without, ok := eval(c, rest, data, cs.ViaCtor)
		if !ok {
			continue
		}
		if rs == sel.NoValue {
			if base != without {
				c.Fail("C11/missing/optional-does-not-pass/own-statement/"+st.Op, "top-level %s over a selector that comes to no value (optional data missing) changes the outcome: %+v without it, %+v with it\npolicy %s\ndata %+v", st.Op, without, base, show(cs.Pol), cs.Data)
			}
			c.P.Class("own-statement:optional-missing")
		} else {
			if base.match {
				c.Fail("C11/missing/required-passes-match/own-statement/"+st.Op, "top-level %s over a selector that fails on a required segment does not fail Match\npolicy %s\ndata %+v", st.Op, show(cs.Pol), cs.Data)
			}
			if base.partial != without.partial {
				c.Fail("C11/missing/required-affects-partial/own-statement/"+st.Op, "top-level %s over a selector that fails on a required segment changes PartialMatch %v -> %v\npolicy %s", st.Op, without.partial, base.partial, show(cs.Pol))
			}
			c.P.Class("own-statement:required-missing")
		}
	}
	if len(kinds) >= 2 || maxFan(cs.Pol, cs.Data) >= 2 {
		shape := ""
		for _, s := range cs.Pol {
			shape += shapeOf(s) + ";"
		}
		c.P.NonTrivial([]any{shape, cs.Data.Shape(), ref.String()},
			map[string]any{"policy": cs.Pol, "data": cs.Data, "reference": ref.String(), "match": base.match, "partial": base.partial})
	}
}

func shapeOf(s pol.Stmt) string {
	out := s.Op
	if len(s.Sel) > 0 {
		out += "(" + s.Sel.KindSeq() + ")"
	}
	if len(s.Sub) > 0 {
		out += "["
		for _, c := range s.Sub {
			out += shapeOf(c) + ","
		}
		out += "]"
	}
	return out
}

func draw(t *rapid.T) Case {
	var cs Case
	cs.Data = pol.GenData(t, "data")
	cfg := pol.GenCfg{Depth: 3, MaxStmt: 3}
	if rapid.IntRange(0, 4).Draw(t, "longpolicy") == 0 {
		cfg.MaxStmt = 8 // long top-level conjunctions (a matcher that stops early shows only there)
		cfg.Depth = 1
	}
	cs.Pol = pol.Gen(t, cs.Data, cfg, "p")
	cfg = pol.GenCfg{Depth: 3, MaxStmt: 3}
	if rapid.IntRange(0, 11).Draw(t, "focuslike") == 0 {
		// like over a long, self-overlapping subject (expensive for a backtracking matcher), also under not / all
		n := rapid.SampledFrom([]int{30, 60, 100, 400, 3000}).Draw(t, "ln")
		k := rapid.SampledFrom([]int{1, 9, 17, 40, 300}).Draw(t, "lk")
		if k > n {
			k = n
		}
		tail := rapid.SampledFrom([]string{"b", "", "ab"}).Draw(t, "ltail")
		subj := strings.Repeat("a", n) + tail
		pat := "*" + strings.Repeat("a", k) + tail
		if rapid.IntRange(0, 3).Draw(t, "lmiss") == 0 {
			pat += "x"
		}
		cs.Data = val.Map(val.E("s", val.Str(subj)), val.E("l", val.List(val.Str(subj), val.Str("b"+subj))))
		like := pol.Stmt{Op: "like", Sel: sel.Sel{{Kind: "field", Name: "s"}}, Pat: pat}
		switch rapid.IntRange(0, 3).Draw(t, "lwrap") {
		case 0:
			cs.Pol = pol.Policy{like}
		case 1:
			cs.Pol = pol.Policy{{Op: "not", Sub: []pol.Stmt{like}}}
		case 2:
			cs.Pol = pol.Policy{{Op: "all", Sel: sel.Sel{{Kind: "field", Name: "l"}}, Sub: []pol.Stmt{{Op: "like", Sel: sel.Sel{{Kind: "id"}}, Pat: pat}}}}
		default:
			cs.Pol = pol.Policy{{Op: "and", Sub: []pol.Stmt{like, {Op: "like", Sel: sel.Sel{{Kind: "field", Name: "s"}}, Pat: "a*"}}}}
		}
	}
	if rapid.IntRange(0, 11).Draw(t, "focusconfusable") == 0 {
		// field names that SPELL a structured selector ("a.b", "x?", "l[0]", "a[]"), next to the structure they
		// spell, addressed by several top-level statements: .["a.b"] and .a.b are different selectors
		x, y := val.Int(int64(rapid.IntRange(0, 3).Draw(t, "cx"))), val.Int(int64(rapid.IntRange(0, 3).Draw(t, "cy")))
		entries := []val.KV{}
		add := func(k string, v val.V) {
			if rapid.IntRange(0, 3).Draw(t, "chas_"+k) > 0 {
				entries = append(entries, val.KV{K: k, V: v})
			}
		}
		add("a.b", x)
		add("a", val.Map(val.E("b", y)))
		add("x?", x)
		add("x", y)
		add("l[0]", x)
		add("l", val.List(y, x))
		add("a[]", x)
		cs.Data = val.V{K: "map", M: entries}
		sels := []sel.Sel{
			{{Kind: "qfield", Name: "a.b"}}, {{Kind: "field", Name: "a"}, {Kind: "field", Name: "b"}},
			{{Kind: "qfield", Name: "x?"}}, {{Kind: "field", Name: "x", Opt: true}}, {{Kind: "field", Name: "x"}},
			{{Kind: "qfield", Name: "l[0]"}}, {{Kind: "field", Name: "l"}, {Kind: "index", Idx: 0}},
			{{Kind: "qfield", Name: "a[]"}}, {{Kind: "field", Name: "a"}, {Kind: "iter"}},
			{{Kind: "qfield", Name: "a.b", Opt: true}}, {{Kind: "qfield", Name: "x?", Opt: true}},
		}
		n := rapid.IntRange(2, 4).Draw(t, "cn")
		cs.Pol = nil
		for i := 0; i < n; i++ {
			lit := val.Int(int64(rapid.IntRange(0, 3).Draw(t, "clit")))
			cs.Pol = append(cs.Pol, pol.Stmt{Op: rapid.SampledFrom([]string{"==", "==", ">=", "<"}).Draw(t, "cop"), Sel: rapid.SampledFrom(sels).Draw(t, "csel"), Lit: &lit})
		}
	}
	if rapid.IntRange(0, 11).Draw(t, "focusuint") == 0 {
		// data holding an integer above MaxInt64 (CBOR uint64), compared with == against ordinary literals under
		// not / or / and / any / all: equality with a different number is plainly false, and the connectives
		// around it keep their classical meaning
		u := val.Uint(rapid.SampledFrom([]uint64{1 << 63, 1<<63 + 5, ^uint64(0)}).Draw(t, "uu"))
		one, five := val.Int(1), val.Int(5)
		cs.Data = val.Map(val.E("a", u), val.E("b", one), val.E("l", val.List(one, u, five)), val.E("m", val.List(u, u)))
		eqA := pol.Stmt{Op: "==", Sel: sel.Sel{{Kind: "field", Name: "a"}}, Lit: &five}
		eqB := pol.Stmt{Op: "==", Sel: sel.Sel{{Kind: "field", Name: "b"}}, Lit: &one}
		neB := pol.Stmt{Op: "==", Sel: sel.Sel{{Kind: "field", Name: "b"}}, Lit: &five}
		elem := pol.Stmt{Op: "==", Sel: sel.Sel{{Kind: "id"}}, Lit: &five}
		cands := []pol.Stmt{
			{Op: "not", Sub: []pol.Stmt{eqA}},
			{Op: "or", Sub: []pol.Stmt{eqA, eqB}},
			{Op: "or", Sub: []pol.Stmt{eqB, eqA}},
			{Op: "and", Sub: []pol.Stmt{{Op: "not", Sub: []pol.Stmt{eqA}}, eqB}},
			{Op: "any", Sel: sel.Sel{{Kind: "field", Name: "l"}}, Sub: []pol.Stmt{elem}},
			{Op: "not", Sub: []pol.Stmt{{Op: "all", Sel: sel.Sel{{Kind: "field", Name: "m"}}, Sub: []pol.Stmt{elem}}}},
			{Op: "not", Sub: []pol.Stmt{{Op: "or", Sub: []pol.Stmt{eqA, neB}}}},
			eqA,
		}
		n := rapid.IntRange(1, 3).Draw(t, "un")
		cs.Pol = nil
		for i := 0; i < n; i++ {
			cs.Pol = append(cs.Pol, rapid.SampledFrom(cands).Draw(t, "ustmt"))
		}
	}
	if rapid.IntRange(0, 11).Draw(t, "focusslashmap") == 8 {
		// maps that LOOK like the DAG-JSON spelling of a link or of bytes ({"/": "<cid>"}, {"/": {"bytes": "<base64>"}})
		// but are maps - in the data model and in DAG-CBOR they are ordinary one-key maps. As literal and as data,
		// against each other and against the link / bytes they resemble, alone and nested.
		c1 := cid.NewCidV1(cid.DagCBOR, func() mh.Multihash { m, _ := mh.Sum([]byte("slash-map"), mh.SHA2_256, -1); return m }())
		raw := []byte{0, 1, 2, 3, 250}
		forms := []val.V{
			val.Map(val.E("/", val.Str(c1.String()))),
			val.Map(val.E("/", val.Map(val.E("bytes", val.Str("AAECA/o"))))),
			val.Map(val.E("/", val.Map(val.E("bytes", val.Str("AAECA/o="))))),
			{K: "link", S: c1.String()},
			val.Bytes(raw),
			val.Map(val.E("/", val.Str("not a cid"))),
			val.Map(val.E("/", val.Int(1))),
		}
		a := rapid.SampledFrom(forms).Draw(t, "sm-a")
		b := rapid.SampledFrom(forms[:3]).Draw(t, "sm-b")
		wrapV := func(f val.V, i int) val.V {
			return []val.V{f, val.List(f), val.Map(val.E("ref", f)), val.List(val.Int(1), val.Map(val.E("ref", f)))}[i]
		}
		i := rapid.IntRange(0, 3).Draw(t, "sm-shape")
		lit := wrapV(b, i)
		cs.Data = val.Map(val.E("a", wrapV(a, i)))
		eq := pol.Stmt{Op: "==", Sel: sel.Sel{{Kind: "field", Name: "a"}}, Lit: &lit}
		if rapid.Bool().Draw(t, "sm-not") {
			cs.Pol = pol.Policy{{Op: "not", Sub: []pol.Stmt{eq}}}
		} else {
			cs.Pol = pol.Policy{eq}
		}
	}
	if rapid.IntRange(0, 11).Draw(t, "focuslinkeq") == 4 {
		// == between links that address the same bytes in different ways: one multihash under CIDv0, CIDv1 dag-pb,
		// raw, dag-cbor, dag-json; another hash function; an identity CID. A link is its CID: two different CIDs
		// are two different values, alone and nested in list and map literals.
		seed := rapid.SliceOfN(rapid.Byte(), 1, 3).Draw(t, "lk-seed")
		dg, _ := mh.Sum(append([]byte("verif-link-eq/"), seed...), mh.SHA2_256, -1)
		dg512, _ := mh.Sum(append([]byte("verif-link-eq/"), seed...), mh.SHA2_512, -1)
		idh, _ := mh.Sum(seed, mh.IDENTITY, -1)
		forms := []cid.Cid{cid.NewCidV0(dg), cid.NewCidV1(cid.DagProtobuf, dg), cid.NewCidV1(cid.Raw, dg), cid.NewCidV1(cid.DagCBOR, dg), cid.NewCidV1(cid.DagJSON, dg),
			cid.NewCidV1(cid.DagCBOR, dg512), cid.NewCidV1(cid.Raw, idh), cid.NewCidV1(cid.DagCBOR, idh)}
		lk := func(c cid.Cid) val.V { return val.V{K: "link", S: c.String()} }
		a := lk(rapid.SampledFrom(forms).Draw(t, "lk-a"))
		b := lk(rapid.SampledFrom(forms[:5]).Draw(t, "lk-b"))
		mk := func(f val.V) []val.V {
			return []val.V{f, val.List(f), val.Map(val.E("ref", f)), val.List(val.Map(val.E("ref", f)), val.Int(1))}
		}
		da, lb := mk(a), mk(b)
		i := rapid.IntRange(0, len(da)-1).Draw(t, "lk-shape")
		lit := lb[i]
		cs.Data = val.Map(val.E("a", da[i]), val.E("l", val.List(da[i], da[i])))
		eq := pol.Stmt{Op: "==", Sel: sel.Sel{{Kind: "field", Name: "a"}}, Lit: &lit}
		switch rapid.IntRange(0, 2).Draw(t, "lk-wrap") {
		case 0:
			cs.Pol = pol.Policy{eq}
		case 1:
			cs.Pol = pol.Policy{{Op: "not", Sub: []pol.Stmt{eq}}}
		default:
			cs.Pol = pol.Policy{{Op: "any", Sel: sel.Sel{{Kind: "field", Name: "l"}}, Sub: []pol.Stmt{{Op: "==", Sel: sel.Sel{{Kind: "id"}}, Lit: &lit}}}}
		}
	}
	if rapid.IntRange(0, 11).Draw(t, "focuslongeq") == 6 {
		// == between two sequences (bytes, string, list) of DIFFERENT length of which one is a periodic or
		// zero-padded extension of the other, the difference being 1, 2, or at / around a multiple of 256 or 65536:
		// whatever folds a length or walks "the longer one modulo the shorter one" is wrong exactly there
		unit := rapid.SliceOfN(rapid.Byte(), 1, 4).Draw(t, "le-unit")
		d := rapid.SampledFrom([]int{1, 2, 255, 256, 257, 512, 768, 1024, 65536}).Draw(t, "le-d")
		long := make([]byte, 0, len(unit)+d)
		if rapid.Bool().Draw(t, "le-periodic") {
			for len(long) < len(unit)+d {
				long = append(long, unit[len(long)%len(unit)])
			}
		} else {
			long = append(append(long, unit...), make([]byte, d)...)
		}
		kind := rapid.IntRange(0, 2).Draw(t, "le-k")
		conv := func(b []byte) val.V {
			switch kind {
			case 0:
				return val.Bytes(b)
			case 1:
				r := make([]byte, len(b))
				for i, x := range b {
					r[i] = 'a' + x%26
				}
				return val.Str(string(r))
			}
			l := val.V{K: "list"}
			for _, x := range b {
				l.L = append(l.L, val.Int(int64(x%3)))
			}
			return l
		}
		if kind == 2 && d > 1100 {
			long = long[:len(unit)+1024]
		}
		a, b := conv(unit), conv(long)
		if rapid.Bool().Draw(t, "le-swap") {
			a, b = b, a
		}
		cs.Data = val.Map(val.E("a", a), val.E("l", val.List(a, b)), val.E("m", val.Map(val.E("v", a))))
		lit := b
		eq := pol.Stmt{Op: "==", Sel: sel.Sel{{Kind: "field", Name: "a"}}, Lit: &lit}
		mlit := val.Map(val.E("v", b))
		switch rapid.IntRange(0, 4).Draw(t, "le-wrap") {
		case 0, 1:
			cs.Pol = pol.Policy{eq}
		case 2:
			cs.Pol = pol.Policy{{Op: "not", Sub: []pol.Stmt{eq}}}
		case 3:
			cs.Pol = pol.Policy{{Op: "any", Sel: sel.Sel{{Kind: "field", Name: "l"}}, Sub: []pol.Stmt{{Op: "==", Sel: sel.Sel{{Kind: "id"}}, Lit: &lit}}}}
		default:
			cs.Pol = pol.Policy{{Op: "==", Sel: sel.Sel{{Kind: "field", Name: "m"}}, Lit: &mlit}}
		}
	}
	if rapid.IntRange(0, 11).Draw(t, "focusfloateq") == 7 {
		// == between floats that are the same NUMBER with different bits (0 and -0) or the same bits and no number
		// (NaN), as scalars and nested under list and map literals, where an implementation may compare encodings
		zs := []float64{0, math.Copysign(0, -1), math.NaN(), 2.5, math.Inf(1)}
		fa := val.Float(rapid.SampledFrom(zs).Draw(t, "fe-a"))
		fb := val.Float(rapid.SampledFrom(zs[:3]).Draw(t, "fe-b"))
		other := val.Float(2.5)
		mk := func(f val.V) []val.V {
			return []val.V{f, val.List(f), val.List(other, f), val.Map(val.E("lat", f), val.E("lon", other)), val.Map(val.E("m", val.Map(val.E("v", f)))), val.List(val.Map(val.E("v", f)))}
		}
		da, lb := mk(fa), mk(fb)
		i := rapid.IntRange(0, len(da)-1).Draw(t, "fe-shape")
		lit := lb[i]
		cs.Data = val.Map(val.E("a", da[i]), val.E("l", val.List(da[i], da[i])))
		eq := pol.Stmt{Op: "==", Sel: sel.Sel{{Kind: "field", Name: "a"}}, Lit: &lit}
		switch rapid.IntRange(0, 3).Draw(t, "fe-wrap") {
		case 0:
			cs.Pol = pol.Policy{eq}
		case 1:
			cs.Pol = pol.Policy{{Op: "not", Sub: []pol.Stmt{eq}}}
		case 2:
			cs.Pol = pol.Policy{{Op: "all", Sel: sel.Sel{{Kind: "field", Name: "l"}}, Sub: []pol.Stmt{{Op: "==", Sel: sel.Sel{{Kind: "id"}}, Lit: &lit}}}}
		default:
			cs.Pol = pol.Policy{{Op: "and", Sub: []pol.Stmt{eq, eq}}}
		}
	}
	if rapid.IntRange(0, 11).Draw(t, "focusunordered") == 5 {
		// data with a number that has no place among the ordinary ones (NaN, +-Inf, an integer above MaxInt64)
		// under an ORDERING statement with an ordinary literal, at top level and under every connective:
		// where the classical answer is "false" (NaN with anything, +Inf below something, 2^64-1 below something)
		// the statement is false wherever it sits.
		var x, lit val.V
		if rapid.Bool().Draw(t, "uo-int") {
			x = val.Uint(rapid.SampledFrom([]uint64{1 << 63, ^uint64(0)}).Draw(t, "uo-u"))
			lit = val.Int(int64(rapid.IntRange(-5, 100).Draw(t, "uo-il")))
		} else {
			x = val.Float(rapid.SampledFrom([]float64{math.NaN(), math.Inf(1), math.Inf(-1)}).Draw(t, "uo-f"))
			lit = val.Float(float64(rapid.IntRange(-5, 100).Draw(t, "uo-fl")) + 0.5)
		}
		one := val.Int(1)
		cs.Data = val.Map(val.E("a", x), val.E("b", one), val.E("l", val.List(x)), val.E("m", val.Map(val.E("p", x), val.E("q", x))))
		op := rapid.SampledFrom([]string{"<", "<=", ">", ">="}).Draw(t, "uo-op")
		cmpA := pol.Stmt{Op: op, Sel: sel.Sel{{Kind: "field", Name: "a"}}, Lit: &lit}
		elem := pol.Stmt{Op: op, Sel: sel.Sel{{Kind: "id"}}, Lit: &lit}
		eqB := pol.Stmt{Op: "==", Sel: sel.Sel{{Kind: "field", Name: "b"}}, Lit: &one}
		cands := []pol.Stmt{
			cmpA,
			{Op: "and", Sub: []pol.Stmt{cmpA}},
			{Op: "and", Sub: []pol.Stmt{eqB, cmpA}},
			{Op: "and", Sub: []pol.Stmt{cmpA, eqB}},
			{Op: "or", Sub: []pol.Stmt{cmpA}},
			{Op: "or", Sub: []pol.Stmt{cmpA, cmpA}},
			{Op: "all", Sel: sel.Sel{{Kind: "field", Name: "l"}}, Sub: []pol.Stmt{elem}},
			{Op: "any", Sel: sel.Sel{{Kind: "field", Name: "l"}}, Sub: []pol.Stmt{elem}},
			{Op: "all", Sel: sel.Sel{{Kind: "field", Name: "m"}}, Sub: []pol.Stmt{elem}},
			{Op: "and", Sub: []pol.Stmt{{Op: "all", Sel: sel.Sel{{Kind: "field", Name: "l"}}, Sub: []pol.Stmt{elem}}, eqB}},
			{Op: "not", Sub: []pol.Stmt{{Op: "not", Sub: []pol.Stmt{cmpA}}}},
		}
		n := rapid.IntRange(1, 3).Draw(t, "uo-n")
		cs.Pol = nil
		for i := 0; i < n; i++ {
			cs.Pol = append(cs.Pol, rapid.SampledFrom(cands).Draw(t, "uo-stmt"))
		}
		if rapid.Bool().Draw(t, "uo-pad") {
			cs.Pol = append(pol.Policy{eqB}, cs.Pol...)
		}
	}
	forceCtor := false
	if rapid.IntRange(0, 11).Draw(t, "focusbigint") == 0 {
		// ordered comparisons between integers of large magnitude that differ by 1 or 2 (exact int64 arithmetic
		// is the classical reading; anything that goes through float64 merges neighbours beyond 2^53). Literals
		// beyond 2^53 can only be built through the constructors, data integers are unrestricted.
		bases := []int64{1 << 53, (1 << 53) - 1, (1 << 53) + 1, -(1 << 53), -(1 << 53) - 1, 1 << 54, 1 << 62, math.MaxInt64 - 2, math.MinInt64 + 2, (1 << 53) + 1<<10, 3 << 60}
		x := rapid.SampledFrom(bases).Draw(t, "bx")
		d := int64(rapid.IntRange(-2, 2).Draw(t, "bd"))
		y := x + d
		lit, dat := val.Int(x), val.Int(y)
		if rapid.Bool().Draw(t, "bswap") {
			lit, dat = dat, lit
		}
		if rapid.IntRange(0, 2).Draw(t, "bsmall-lit") == 0 {
			lit = val.Int(rapid.SampledFrom([]int64{(1 << 53) - 1, -((1 << 53) - 1), 0}).Draw(t, "bsl"))
		}
		op := rapid.SampledFrom([]string{"<", "<=", ">", ">=", "=="}).Draw(t, "bop")
		cs.Data = val.Map(val.E("a", dat), val.E("l", val.List(dat, lit)))
		cmpS := pol.Stmt{Op: op, Sel: sel.Sel{{Kind: "field", Name: "a"}}, Lit: &lit}
		switch rapid.IntRange(0, 2).Draw(t, "bwrap") {
		case 0:
			cs.Pol = pol.Policy{cmpS}
		case 1:
			cs.Pol = pol.Policy{{Op: "not", Sub: []pol.Stmt{cmpS}}}
		default:
			cs.Pol = pol.Policy{{Op: "any", Sel: sel.Sel{{Kind: "field", Name: "l"}}, Sub: []pol.Stmt{{Op: op, Sel: sel.Sel{{Kind: "id"}}, Lit: &lit}}}}
		}
		forceCtor = true
	}
	cs.Q = pol.Gen(t, cs.Data, pol.GenCfg{Depth: 2, MaxStmt: 2}, "q")
	cs.Perm = rapid.SliceOfN(rapid.IntRange(0, 5), 1, 8).Draw(t, "perm")
	if rapid.Bool().Draw(t, "hasextra") {
		e := pol.GenStmt(t, cs.Data, cfg, 1, "extra")
		cs.Extra = &e
	}
	cs.ExtraAt = rapid.IntRange(0, 7).Draw(t, "extraat")
	if rapid.Bool().Draw(t, "hasextrael") {
		e := val.Gen(t, val.Cfg{Depth: 1, SafeInts: true, Keys: []string{"x", "s", "a"}})
		cs.ExtraEl = &e
	}
	cs.ViaCtor = rapid.Bool().Draw(t, "viactor") || forceCtor
	cs.Missing = rapid.SampledFrom([]string{"zz", "missing", "q"}).Draw(t, "missing")
	return cs
}

var prop = h.Define(P, "match", draw, run)

func TestMatch(t *testing.T) { prop.Check(t) }

// ---------- four-valued algebra: exhaustive small expression trees ----------

// Leaves with a known status on the fixed datum {a:1, l:[1,2]}:
// T true, F false, N required data missing, O optional data missing.
func leaf(kind string) pol.Stmt {
	one, two := val.Int(1), val.Int(2)
	switch kind {
	case "T":
		return pol.Stmt{Op: "==", Sel: sel.Sel{{Kind: "field", Name: "a"}}, Lit: &one}
	case "F":
		return pol.Stmt{Op: "==", Sel: sel.Sel{{Kind: "field", Name: "a"}}, Lit: &two}
	case "N":
		return pol.Stmt{Op: "==", Sel: sel.Sel{{Kind: "field", Name: "zz"}}, Lit: &one}
	default:
		return pol.Stmt{Op: "==", Sel: sel.Sel{{Kind: "field", Name: "zz", Opt: true}}, Lit: &one}
	}
}

// elemLeaf: statements relative to a list element (1 or 2).
func elemLeaf(kind string) pol.Stmt {
	one := val.Int(1)
	switch kind {
	case "T1": // true on element 1, false on element 2
		return pol.Stmt{Op: "==", Sel: sel.Sel{{Kind: "id"}}, Lit: &one}
	case "TT":
		return pol.Stmt{Op: ">=", Sel: sel.Sel{{Kind: "id"}}, Lit: &one}
	case "N":
		return pol.Stmt{Op: "==", Sel: sel.Sel{{Kind: "field", Name: "x"}}, Lit: &one}
	default: // O
		return pol.Stmt{Op: "==", Sel: sel.Sel{{Kind: "field", Name: "x", Opt: true}}, Lit: &one}
	}
}

type AlgCase struct {
	Expr  pol.Stmt  `json:"expr"`
	Extra *pol.Stmt `json:"extra,omitempty"`
}

var algData = val.Map(val.E("a", val.Int(1)), val.E("l", val.List(val.Int(1), val.Int(2))), val.E("m", val.List(val.Int(2), val.Map(val.E("x", val.Int(1))), val.Int(1))))

func reverseOperands(s pol.Stmt) pol.Stmt {
	out := s
	if len(s.Sub) > 0 {
		out.Sub = make([]pol.Stmt, len(s.Sub))
		for i, c := range s.Sub {
			out.Sub[i] = reverseOperands(c)
		}
		if s.Op == "and" || s.Op == "or" {
			for i, j := 0, len(out.Sub)-1; i < j; i, j = i+1, j-1 {
				out.Sub[i], out.Sub[j] = out.Sub[j], out.Sub[i]
			}
		}
	}
	return out
}

func runAlg(c *h.Ctx, ac AlgCase) {
	data := algData.Node()
	base, ok := eval(c, pol.Policy{ac.Expr}, data, false)
	if !ok {
		return
	}
	if base.match && !base.partial {
		c.Fail("C11/match-implies-partial", "Match true but PartialMatch false\npolicy %s", show(pol.Policy{ac.Expr}))
	}
	rev := reverseOperands(ac.Expr)
	if r2, ok := eval(c, pol.Policy{rev}, data, false); ok && r2 != base {
		c.Fail("C11/order/operands/algebra", "outcome depends on operand order: %+v vs reversed %+v\npolicy   %s\nreversed %s", base, r2, show(pol.Policy{ac.Expr}), show(pol.Policy{rev}))
	}
	// element order under every quantifier over .l / .m
	for _, name := range []string{"l", "m"} {
		lst, _ := algData.Get(name)
		rl := val.V{K: "list"}
		for i := len(lst.L) - 1; i >= 0; i-- {
			rl.L = append(rl.L, lst.L[i])
		}
		alt := val.V{K: "map"}
		for _, e := range algData.M {
			if e.K == name {
				alt.M = append(alt.M, val.KV{K: name, V: rl})
			} else {
				alt.M = append(alt.M, e)
			}
		}
		if r3, ok := eval(c, pol.Policy{ac.Expr}, alt.Node(), false); ok && r3 != base {
			c.Fail("C11/order/elements/algebra", "outcome depends on the order of the elements of .%s: %+v vs reversed %+v\npolicy %s", name, base, r3, show(pol.Policy{ac.Expr}))
		}
	}
	if ac.Extra != nil {
		var ands []path
		collectAnds(ac.Expr, nil, &ands)
		for ai, pth := range ands {
			more := addOperand(ac.Expr, pth, *ac.Extra, ai)
			if r1, ok := eval(c, pol.Policy{more}, data, false); ok {
				if !base.match && r1.match {
					c.Fail("C11/monotone/and-operand/match", "adding an operand to an and turned a failing Match into a passing one\nbefore %s\nafter  %s", show(pol.Policy{ac.Expr}), show(pol.Policy{more}))
				}
				if !base.partial && r1.partial {
					c.Fail("C11/monotone/and-operand/partial", "adding an operand to an and turned a failing PartialMatch into a passing one\nbefore %s\nafter  %s", show(pol.Policy{ac.Expr}), show(pol.Policy{more}))
				}
			}
		}
	}
	// concatenation with each leaf
	for _, k := range []string{"T", "F", "N", "O"} {
		q := pol.Policy{leaf(k)}
		rq, ok1 := eval(c, q, data, false)
		rc, ok2 := eval(c, pol.Policy{ac.Expr, q[0]}, data, false)
		if ok1 && ok2 && (rc.match != (base.match && rq.match) || rc.partial != (base.partial && rq.partial)) {
			c.Fail("C11/concat/algebra", "Match/PartialMatch of p++q is not the conjunction: p=%+v q=%+v p++q=%+v\np %s\nq %s", base, rq, rc, show(pol.Policy{ac.Expr}), show(q))
		}
	}
}

var algProp = h.Define(P, "algebra", func(t *rapid.T) AlgCase {
	var gen func(d int) pol.Stmt
	gen = func(d int) pol.Stmt {
		if d == 0 || rapid.IntRange(0, 3).Draw(t, "leaf") == 0 {
			return leaf(rapid.SampledFrom([]string{"T", "F", "N", "O"}).Draw(t, "lk"))
		}
		switch rapid.IntRange(0, 4).Draw(t, "ek") {
		case 0:
			return pol.Stmt{Op: "not", Sub: []pol.Stmt{gen(d - 1)}}
		case 1, 2:
			n := rapid.IntRange(0, 3).Draw(t, "n")
			s := pol.Stmt{Op: rapid.SampledFrom([]string{"and", "or"}).Draw(t, "conn")}
			for i := 0; i < n; i++ {
				s.Sub = append(s.Sub, gen(d-1))
			}
			return s
		default:
			var inner pol.Stmt
			if rapid.Bool().Draw(t, "innerleaf") {
				inner = elemLeaf(rapid.SampledFrom([]string{"T1", "TT", "N", "O"}).Draw(t, "el"))
			} else {
				inner = pol.Stmt{Op: rapid.SampledFrom([]string{"not", "and", "or"}).Draw(t, "ic"), Sub: []pol.Stmt{elemLeaf(rapid.SampledFrom([]string{"T1", "TT", "N", "O"}).Draw(t, "el1"))}}
				if inner.Op != "not" {
					inner.Sub = append(inner.Sub, elemLeaf(rapid.SampledFrom([]string{"T1", "TT", "N", "O"}).Draw(t, "el2")))
				}
			}
			return pol.Stmt{Op: rapid.SampledFrom([]string{"all", "any"}).Draw(t, "q"), Sel: sel.Sel{{Kind: "field", Name: rapid.SampledFrom([]string{"l", "m"}).Draw(t, "ql")}}, Sub: []pol.Stmt{inner}}
		}
	}
	ac := AlgCase{Expr: gen(4)}
	if rapid.Bool().Draw(t, "extra") {
		e := gen(1)
		ac.Extra = &e
	}
	return ac
}, runAlg)

func TestAlgebra(t *testing.T) { algProp.Check(t) }

// TestAlgebraExhaustive: every expression of depth <= 2 over the four leaves
// with not / binary and / binary or, every quantifier form, each with every
// leaf as extra operand.
func TestAlgebraExhaustive(t *testing.T) {
	kinds := []string{"T", "F", "N", "O"}
	var level [][]pol.Stmt
	var l0 []pol.Stmt
	for _, k := range kinds {
		l0 = append(l0, leaf(k))
	}
	level = append(level, l0)
	for d := 1; d <= 2; d++ {
		prev := []pol.Stmt{}
		for _, l := range level {
			prev = append(prev, l...)
		}
		var cur []pol.Stmt
		for _, x := range prev {
			cur = append(cur, pol.Stmt{Op: "not", Sub: []pol.Stmt{x}})
		}
		for _, op := range []string{"and", "or"} {
			for _, x := range prev {
				for _, y := range prev {
					cur = append(cur, pol.Stmt{Op: op, Sub: []pol.Stmt{x, y}})
				}
			}
		}
		level = append(level, cur)
	}
	n := 0
	for _, l := range level {
		for _, e := range l {
			for _, k := range kinds {
				x := leaf(k)
				algProp.One(t, AlgCase{Expr: e, Extra: &x})
				n++
			}
		}
	}
	// quantifiers: all/any x inner in {leaf, not leaf, and/or of two leaves} x wrappers {plain, not}
	els := []string{"T1", "TT", "N", "O"}
	for _, q := range []string{"all", "any"} {
		for _, ln := range []string{"l", "m"} {
			var inners []pol.Stmt
			for _, a := range els {
				inners = append(inners, elemLeaf(a), pol.Stmt{Op: "not", Sub: []pol.Stmt{elemLeaf(a)}})
				for _, b := range els {
					inners = append(inners, pol.Stmt{Op: "and", Sub: []pol.Stmt{elemLeaf(a), elemLeaf(b)}}, pol.Stmt{Op: "or", Sub: []pol.Stmt{elemLeaf(a), elemLeaf(b)}})
				}
			}
			for _, in := range inners {
				qs := pol.Stmt{Op: q, Sel: sel.Sel{{Kind: "field", Name: ln}}, Sub: []pol.Stmt{in}}
				for _, w := range []pol.Stmt{qs, {Op: "not", Sub: []pol.Stmt{qs}}, {Op: "or", Sub: []pol.Stmt{qs, leaf("F")}}, {Op: "and", Sub: []pol.Stmt{leaf("O"), qs}}} {
					algProp.One(t, AlgCase{Expr: w})
					n++
				}
			}
		}
	}
	P.AddDistinct(n)
	P.SetExtra("algebra_expressions", n)
	P.Sample(map[string]any{"algebra": "all not/and/or expressions of depth <= 2 over leaves T,F,N,O x extra operand; quantifier forms", "count": n})
}

// ---------- reuse and concurrency of one policy object ----------

type ReuseCase struct {
	Pol        pol.Policy `json:"pol"`
	Datas      []val.V    `json:"datas"`
	Goroutines int        `json:"goroutines"`
}

// runReuse: a built policy is a value; evaluating it on d1, then d2, then d1
// again (and from several goroutines at once) must give what a freshly built
// policy gives on each datum.
func runReuse(c *h.Ctx, rc ReuseCase) {
	shared, err := rc.Pol.Build(true)
	if err != nil {
		return
	}
	type r3 struct {
		m, p bool
		s    string
	}
	fresh := make([]r3, len(rc.Datas))
	nodes := make([]ipld.Node, len(rc.Datas))
	for i, d := range rc.Datas {
		nodes[i] = d.Node()
		f, err := rc.Pol.Build(true)
		if err != nil {
			return
		}
		var x r3
		if pn, _, _ := h.Try(func() {
			x.m, _ = f.Match(nodes[i])
			x.p, _ = f.PartialMatch(nodes[i])
			x.s = f.String()
		}); pn {
			return // crashes are C09's
		}
		fresh[i] = x
	}
	order := []int{}
	for round := 0; round < 3; round++ {
		for i := range rc.Datas {
			order = append(order, (i+round)%len(rc.Datas))
		}
	}
	check := func(where string) {
		for _, i := range order {
			m, _ := shared.Match(nodes[i])
			p, _ := shared.PartialMatch(nodes[i])
			if m != fresh[i].m || p != fresh[i].p || shared.String() != fresh[i].s {
				c.Fail("C11/reuse/"+where, "a policy object evaluated repeatedly gives (%v,%v) on datum %d where a freshly built one gives (%v,%v)\npolicy %s", m, p, i, fresh[i].m, fresh[i].p, show(rc.Pol))
			}
		}
	}
	check("sequential")
	if rc.Goroutines > 1 {
		type fl struct{ i int; m, p bool }
		bad := make(chan fl, 16)
		if pv := h.Concurrently(rc.Goroutines, func(g int) {
			for k := range order {
				i := order[(k+g)%len(order)]
				m, _ := shared.Match(nodes[i])
				p, _ := shared.PartialMatch(nodes[i])
				_ = shared.String()
				if m != fresh[i].m || p != fresh[i].p {
					select {
					case bad <- fl{i, m, p}:
					default:
					}
				}
			}
		}); pv != nil {
			c.Fail("C11/panic", "concurrent Match panicked: %v", pv)
		}
		close(bad)
		for b := range bad {
			c.Fail("C11/reuse/concurrent", "concurrent evaluation of a shared policy gives (%v,%v) on datum %d, alone (%v,%v)\npolicy %s", b.m, b.p, b.i, fresh[b.i].m, fresh[b.i].p, show(rc.Pol))
		}
	}
	if len(rc.Pol) > 0 && len(rc.Datas) >= 2 {
		c.P.NonTrivial([]any{"reuse", val.FromNode(rc.Pol.IPLD()).String(), len(rc.Datas), rc.Goroutines}, map[string]any{"mode": "reuse", "policy": rc.Pol, "datas": len(rc.Datas), "goroutines": rc.Goroutines})
	}
}

var reuseProp = h.Define(P, "reuse", func(t *rapid.T) ReuseCase {
	d := pol.GenData(t, "d0")
	rc := ReuseCase{Pol: pol.Gen(t, d, pol.GenCfg{Depth: 3, MaxStmt: 3}, "p"), Datas: []val.V{d}, Goroutines: rapid.IntRange(1, 6).Draw(t, "goroutines")}
	n := rapid.IntRange(1, 3).Draw(t, "ndatas")
	for i := 0; i < n; i++ {
		rc.Datas = append(rc.Datas, pol.GenData(t, fmt.Sprintf("d%d", i+1)))
	}
	return rc
}, runReuse)

func TestReuse(t *testing.T) { reuseProp.Check(t) }

// ---------- deep nesting ----------

// DeepCase: a leaf of known truth under Depth wrappers taken cyclically from W
// (n: not, a: and[x], A: and[taut, x], o: or[x], O: or[contra, x], q: all over [data], Q: any over [data]).
// Every selector resolves, so Match == PartialMatch == the classical value, whatever the depth.
type DeepCase struct {
	Depth   int    `json:"depth"`
	W       string `json:"w"`
	Leaf    bool   `json:"leaf"`
	ViaCtor bool   `json:"via_ctor"`
}

var deepDepths = []int{1, 2, 3, 5, 8, 13, 16, 17, 31, 32, 33, 63, 64, 65, 100, 127, 128, 129, 130, 131, 200, 255, 256, 257, 300, 511, 512, 513, 1000, 1023, 1024, 1025, 2000}

func runDeep(c *h.Ctx, dc DeepCase) {
	if dc.Depth < 1 || len(dc.W) == 0 {
		return
	}
	sentinel := val.Str("zz-never-§")
	one, two := val.Int(1), val.Int(2)
	taut := pol.Stmt{Op: "not", Sub: []pol.Stmt{{Op: "==", Sel: sel.Sel{{Kind: "id"}}, Lit: &sentinel}}}
	contra := pol.Stmt{Op: "==", Sel: sel.Sel{{Kind: "id"}}, Lit: &sentinel}
	st := pol.Stmt{Op: "==", Sel: sel.Sel{{Kind: "id"}}, Lit: &one}
	data := one
	if !dc.Leaf {
		data = two
	}
	want := dc.Leaf
	nots := 0
	for i := 0; i < dc.Depth; i++ {
		switch dc.W[i%len(dc.W)] {
		case 'n':
			st = pol.Stmt{Op: "not", Sub: []pol.Stmt{st}}
			want = !want
			nots++
		case 'a':
			st = pol.Stmt{Op: "and", Sub: []pol.Stmt{st}}
		case 'A':
			st = pol.Stmt{Op: "and", Sub: []pol.Stmt{taut, st}}
		case 'o':
			st = pol.Stmt{Op: "or", Sub: []pol.Stmt{st}}
		case 'O':
			st = pol.Stmt{Op: "or", Sub: []pol.Stmt{contra, st}}
		case 'q':
			st = pol.Stmt{Op: "all", Sel: sel.Sel{{Kind: "id"}}, Sub: []pol.Stmt{st}}
			data = val.List(data)
		default:
			st = pol.Stmt{Op: "any", Sel: sel.Sel{{Kind: "id"}}, Sub: []pol.Stmt{st}}
			data = val.List(data)
		}
	}
	c.P.Class(fmt.Sprintf("deep/depth<=%d", bucket(dc.Depth)))
	p := pol.Policy{st}
	bp, err := p.Build(!dc.ViaCtor)
	if err != nil {
		c.P.Class("deep/build-error")
		c.Logf("deep policy rejected at depth %d: %v", dc.Depth, err)
		return
	}
	nd := data.Node()
	var m, pm bool
	if pn, v, _ := h.Try(func() { m, _ = bp.Match(nd); pm, _ = bp.PartialMatch(nd) }); pn {
		c.P.PanicSeen()
		c.Fail("C11/panic", "Match/PartialMatch panicked on a policy nested %d deep: %v", dc.Depth, v)
		return
	}
	if m != want || pm != want {
		c.Fail("C11/classical/deep", "policy nested %d deep (wrappers %q cyclically, %d nots, leaf %v): Match=%v PartialMatch=%v, classical value %v", dc.Depth, dc.W, nots, dc.Leaf, m, pm, want)
	}
	c.P.NonTrivial([]any{"deep", dc.Depth, dc.W, dc.Leaf, dc.ViaCtor}, map[string]any{"deep_nesting": dc.Depth, "wrappers": dc.W, "leaf": dc.Leaf, "classical": want, "match": m})
}

func bucket(d int) int {
	for _, b := range []int{4, 16, 64, 128, 256, 512, 1024} {
		if d <= b {
			return b
		}
	}
	return 4096
}

var deepProp = h.Define(P, "deep", func(t *rapid.T) DeepCase {
	dc := DeepCase{Leaf: rapid.Bool().Draw(t, "leaf"), ViaCtor: rapid.Bool().Draw(t, "ctor")}
	if rapid.Bool().Draw(t, "boundary") {
		dc.Depth = rapid.SampledFrom(deepDepths).Draw(t, "depthb")
	} else {
		dc.Depth = rapid.IntRange(1, 600).Draw(t, "depth")
	}
	dc.W = rapid.StringOfN(rapid.SampledFrom([]rune("nnnaAoOqQ")), 1, 5, -1).Draw(t, "w")
	return dc
}, runDeep)

func TestDeep(t *testing.T) { deepProp.Check(t) }

// TestDeepBoundaries: every listed depth x {all-not, not+and, not+any} x leaf truth x build path.
func TestDeepBoundaries(t *testing.T) {
	for _, d := range deepDepths {
		for _, w := range []string{"n", "na", "nQ", "AnO", "qn"} {
			for _, leaf := range []bool{true, false} {
				for _, ctor := range []bool{false, true} {
					deepProp.One(t, DeepCase{Depth: d, W: w, Leaf: leaf, ViaCtor: ctor})
				}
			}
		}
	}
}

// TestOptionalMissMatrix: a statement over a selector whose LAST segment is optional and misses (or hits), for every
// kind of holder - bytes, list, string, map, null, integer - and every kind of last segment - index inside, outside,
// negative, field, quoted field, slice, iterator - under every comparison operator and in every connective position.
// "A statement over missing optional data passes" is a claim about each of these cells; the random generator follows
// the data and reaches few of them.
func TestOptionalMissMatrix(t *testing.T) {
	holders := []val.V{val.Bytes([]byte{}), val.Bytes([]byte{7, 9}), val.List(), val.List(val.Int(7), val.Int(9)), val.Str("hé"), val.Str(""),
		val.Map(), val.Map(val.E("zz", val.Int(7)), val.E("0", val.Int(9))), val.Null(), val.Int(3),
		// names that differ by the characters a selector quotes names with: each statement is about the key it names
		val.Map(val.E("rock'", val.Int(7)), val.E("rock", val.Int(9)), val.E("'n'", val.Int(7)), val.E("n", val.Int(9)), val.E(`q\"`, val.Int(7)), val.E("q", val.Int(9))),
		val.Map(val.E("rock", val.Int(9)), val.E("n", val.Int(9)), val.E("q", val.Int(9)))}
	ip := func(i int64) *int64 { return &i }
	tails := []sel.Seg{{Kind: "index", Idx: 0}, {Kind: "index", Idx: 1}, {Kind: "index", Idx: 5}, {Kind: "index", Idx: -1}, {Kind: "index", Idx: -9},
		{Kind: "field", Name: "zz"}, {Kind: "qfield", Name: "0"}, {Kind: "field", Name: "nope"}, {Kind: "qfield", Name: "rock'"}, {Kind: "qfield", Name: "'n'"}, {Kind: "qfield", Name: `q\"`}, {Kind: "qfield", Name: "rock"}, {Kind: "slice", From: ip(0), To: ip(1)}, {Kind: "slice", From: ip(5)}, {Kind: "iter"}}
	seven, zero, str := val.Int(7), val.Int(0), val.Str("x")
	n := 0
	for _, hd := range holders {
		for _, tl := range tails {
			for _, opt := range []bool{true, false} {
				tl.Opt = opt
				s := sel.Sel{{Kind: "field", Name: "d"}, tl}
				var stmts []pol.Stmt
				for _, op := range []string{"==", ">", "<=", "<"} {
					stmts = append(stmts, pol.Stmt{Op: op, Sel: s, Lit: &seven}, pol.Stmt{Op: op, Sel: s, Lit: &zero})
				}
				stmts = append(stmts, pol.Stmt{Op: "==", Sel: s, Lit: &str}, pol.Stmt{Op: "like", Sel: s, Pat: "*"},
					pol.Stmt{Op: "any", Sel: s, Sub: []pol.Stmt{{Op: "==", Sel: sel.Sel{{Kind: "id"}}, Lit: &seven}}},
					pol.Stmt{Op: "all", Sel: s, Sub: []pol.Stmt{{Op: "==", Sel: sel.Sel{{Kind: "id"}}, Lit: &seven}}})
				tru := pol.Stmt{Op: "==", Sel: sel.Sel{{Kind: "field", Name: "one"}}, Lit: func() *val.V { v := val.Int(1); return &v }()}
				fls := pol.Stmt{Op: "==", Sel: sel.Sel{{Kind: "field", Name: "one"}}, Lit: &zero}
				for _, st := range stmts {
					for _, p := range []pol.Policy{{st}, {{Op: "not", Sub: []pol.Stmt{st}}}, {{Op: "and", Sub: []pol.Stmt{tru, st}}}, {{Op: "or", Sub: []pol.Stmt{fls, st}}}, {tru, st}} {
						for _, ctor := range []bool{false, true} {
							prop.One(t, Case{Pol: p, Data: val.Map(val.E("d", hd), val.E("one", val.Int(1))), ViaCtor: ctor})
							n++
						}
					}
				}
			}
		}
	}
	P.SetExtra("optional_miss_matrix_cases", n)
}

// TestAlgebraSpines: expressions two levels deeper than the exhaustive enumeration reaches, along one spine:
// u3( op3( u2( op2( u1( op1(x, y) ), z ) ), w ) ) with x, y, z, w over the four leaf kinds (true, false, required data
// missing, optional data missing), op over and / or on either side, u over nothing / not. What a connective does with a
// child that has no data depends on where it stands below negations; every such expression gets the same outcome with
// its operands reversed, and Match implies PartialMatch.
func TestAlgebraSpines(t *testing.T) {
	kinds := []string{"T", "F", "N", "O"}
	wrap := func(u int, s pol.Stmt) pol.Stmt {
		if u == 1 {
			return pol.Stmt{Op: "not", Sub: []pol.Stmt{s}}
		}
		return s
	}
	join := func(op string, side int, a, b pol.Stmt) pol.Stmt {
		if side == 1 {
			a, b = b, a
		}
		return pol.Stmt{Op: op, Sub: []pol.Stmt{a, b}}
	}
	n := 0
	for _, op1 := range []string{"and", "or"} {
		for _, x := range kinds {
			for _, y := range kinds {
				core := pol.Stmt{Op: op1, Sub: []pol.Stmt{leaf(x), leaf(y)}}
				for u1 := 0; u1 < 2; u1++ {
					for _, op2 := range []string{"and", "or"} {
						for _, z := range kinds {
							for side2 := 0; side2 < 2; side2++ {
								for u2 := 0; u2 < 2; u2++ {
									e2 := wrap(u2, join(op2, side2, wrap(u1, core), leaf(z)))
									algProp.One(t, AlgCase{Expr: e2})
									n++
									if !h.Thorough() && (side2 == 1 || z == "T") {
										continue // quick: the third level for part of the second
									}
									for _, op3 := range []string{"and", "or"} {
										for _, w := range []string{"F", "N", "O"} {
											for u3 := 0; u3 < 2; u3++ {
												algProp.One(t, AlgCase{Expr: wrap(u3, join(op3, 0, e2, leaf(w)))})
												n++
											}
										}
									}
								}
							}
						}
					}
				}
			}
		}
	}
	P.AddDistinct(n)
	P.SetExtra("algebra_spine_expressions", n)
}

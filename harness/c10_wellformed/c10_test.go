// C10 — only well-formed tokens come out of constructors and decoders.
package c10

import (
	"encoding/json"
	"time"
	"strconv"
	"bytes"
	"fmt"
	"math"
	"math/big"
	"os"
	"strings"
	"testing"
	"unicode"

	"github.com/ipfs/go-cid"
	"github.com/ipld/go-ipld-prime"
	"github.com/ipld/go-ipld-prime/codec/dagcbor"
	"github.com/ipld/go-ipld-prime/codec/dagjson"
	"github.com/ipld/go-ipld-prime/datamodel"
	"github.com/ipld/go-ipld-prime/fluent/qp"
	"github.com/ipld/go-ipld-prime/node/basicnode"
	"pgregory.net/rapid"

	"github.com/ucan-wg/go-ucan/did"
	"github.com/ucan-wg/go-ucan/pkg/args"
	"github.com/ucan-wg/go-ucan/pkg/command"
	"github.com/ucan-wg/go-ucan/pkg/meta"
	"github.com/ucan-wg/go-ucan/pkg/policy"
	"github.com/ucan-wg/go-ucan/pkg/policy/literal"
	"github.com/ucan-wg/go-ucan/token"
	"github.com/ucan-wg/go-ucan/token/delegation"
	"github.com/ucan-wg/go-ucan/token/invocation"

	"verif/harness/api"
	"verif/harness/env"
	"verif/harness/h"
	_ "verif/harness/warm"
	"verif/harness/keys"
	"verif/harness/val"
)

var P = h.New("C10", "exploration",
	"(payload) a valid delegation / invocation payload mutated by dropping, adding, retyping, nulling or out-of-ranging any field (ints +/-2^53, +/-2^63, 2^64-1 in exp/nbf/iat, nested in args and pol), malformed DIDs and commands, nonce lengths 0..11, malformed policies, sigPayload with 1/3 entries, two tags, header only, unknown tag / version, payload under the other type's tag - then SIGNED CORRECTLY and fed to the generic and both typed decoders in DAG-CBOR and DAG-JSON; the field x mutation x decoder product is enumerated, pairs of mutations are drawn. Oracle: a schema table transcribed from the .ipldsch files says what must be rejected; any token that does come out must satisfy the well-formedness invariants. (constructor) adversarial option lists. (values) Go values of every integer type at its extremes and around +/-2^53, floats, pointers, arrays, nested slices/maps, non-string-key maps, structs, nil handed to args.Add / meta.Add / literal.Any: stored exactly or rejected. Non-trivial = a mutated payload under a valid signature / a value whose Go type is not int, string or bool. Distinct by (type, field, mutation, decoder, codec) / (Go type, magnitude class).")

func TestMain(m *testing.M) { os.Exit(P.Main(m)) }
func TestReplay(t *testing.T) { P.Replay(t) }

const maxSafe = (1 << 53) - 1

// ---------- payload mutations ----------

type Mut struct {
	Field string `json:"field"`
	Kind  string `json:"kind"`
	N     int    `json:"n,omitempty"`
}

type PayCase struct {
	Type string `json:"type"` // dlg | inv
	Muts []Mut  `json:"muts"`
	Env  string `json:"env,omitempty"` // envelope-level mutation
	Ctx  int    `json:"ctx,omitempty"` // index into contexts: the (valid) command and extra (valid) arguments around the mutation
}

// contexts: commands with a meaning of their own in the UCAN specifications or in common use, each with the
// arguments such a command carries. A validation rule is a rule for EVERY command; one that is switched per
// command (a dedicated shape check standing in for the general one) is wrong for that command only.
type payCtx struct {
	Cmd   string
	Extra []val.KV
}

var contexts = []payCtx{
	{},
	{Cmd: "/ucan/revoke", Extra: []val.KV{{K: "ucan", V: val.V{K: "link", X: []byte{3}}}}},
	{Cmd: "/ucan/revoke"},
	{Cmd: "/ucan", Extra: []val.KV{{K: "ucan", V: val.V{K: "link", X: []byte{3}}}}},
	{Cmd: "/ucan/attest", Extra: []val.KV{{K: "ucan", V: val.V{K: "link", X: []byte{4}}}, {K: "proof", V: val.V{K: "link", X: []byte{5}}}}},
	{Cmd: "/ucan/assert/claim", Extra: []val.KV{{K: "claim", V: val.Map(val.E("n", val.Int(1)))}}},
	{Cmd: "/", Extra: []val.KV{{K: "ucan", V: val.V{K: "link", X: []byte{3}}}}},
	{Cmd: "/crud/read", Extra: []val.KV{{K: "uri", V: val.Str("https://example.com/x")}}},
	{Cmd: "/msg/send", Extra: []val.KV{{K: "to", V: val.List(val.Str("mailto:bob@example.com"))}}},
	{Cmd: "/wasm/run", Extra: []val.KV{{K: "mod", V: val.Bytes([]byte{0, 0x61, 0x73, 0x6d})}, {K: "fun", V: val.Str("add")}, {K: "params", V: val.List(val.Int(1), val.Int(2))}}},
	{Cmd: "/http/get", Extra: []val.KV{{K: "headers", V: val.Map(val.E("content-type", val.Str("application/json")))}}},
}

// inContext puts the mutated payload into context k: the command replaced (unless a mutation owns it) and the
// extra arguments added to an args map (unless they are there already). Both are valid, so the verdict stands.
func inContext(typ string, p val.V, k int, touched map[string]bool) val.V {
	cx := contexts[k%len(contexts)]
	if cx.Cmd == "" {
		return p
	}
	out := val.V{K: "map", M: append([]val.KV{}, p.M...)}
	for i := range out.M {
		if out.M[i].K == "cmd" && !touched["cmd"] {
			out.M[i].V = val.Str(cx.Cmd)
		}
		if out.M[i].K == "args" && typ == "inv" && out.M[i].V.K == "map" {
			a := val.V{K: "map", M: append([]val.KV{}, out.M[i].V.M...)}
			for _, e := range cx.Extra {
				if _, dup := a.Get(e.K); !dup {
					a.M = append(a.M, e)
				}
			}
			out.M[i].V = a
		}
	}
	return out
}

func issuer() *keys.Key { return keys.Principal(0) }

func basePayload(typ string) val.V {
	iss := val.Str(issuer().DID.String())
	other := val.Str(keys.Principal(1).DID.String())
	third := val.Str(keys.Principal(2).DID.String())
	nonce := val.Bytes(bytes.Repeat([]byte{7}, 12))
	if typ == "dlg" {
		return val.Map(
			val.E("iss", iss), val.E("aud", other), val.E("sub", iss), val.E("cmd", val.Str("/foo/bar")),
			val.E("pol", val.List(val.List(val.Str("=="), val.Str(".a"), val.Int(5)), val.List(val.Str("like"), val.Str(".s"), val.Str("x*")))),
			val.E("nonce", nonce), val.E("meta", val.Map(val.E("k", val.Str("v")))),
			val.E("nbf", val.Int(1700000000)), val.E("exp", val.Int(4102444800)))
	}
	return val.Map(
		val.E("iss", iss), val.E("sub", other), val.E("aud", third), val.E("cmd", val.Str("/foo/bar")),
		val.E("args", val.Map(val.E("a", val.Int(5)), val.E("l", val.List(val.Int(1), val.Map(val.E("deep", val.Int(2))))))),
		val.E("prf", val.List(val.V{K: "link", X: []byte{1}})), val.E("meta", val.Map(val.E("k", val.Str("v")))),
		val.E("nonce", nonce), val.E("exp", val.Int(4102444800)), val.E("iat", val.Int(1700000000)),
		val.E("cause", val.V{K: "link", X: []byte{2}}))
}

var fieldsOf = map[string][]string{
	"dlg": {"iss", "aud", "sub", "cmd", "pol", "nonce", "meta", "nbf", "exp"},
	"inv": {"iss", "sub", "aud", "cmd", "args", "prf", "meta", "nonce", "exp", "iat", "cause"},
}

// schema table transcribed from delegation.ipldsch / invocation.ipldsch
type fieldSpec struct {
	kind     string // str bytes map list int link any
	required bool   // must be present
	nullable bool
}

var schema = map[string]map[string]fieldSpec{
	"dlg": {
		"iss": {"str", true, false}, "aud": {"str", true, false}, "sub": {"str", false, false}, "cmd": {"str", true, false},
		"pol": {"any", true, false}, "nonce": {"bytes", true, false}, "meta": {"map", false, false},
		"nbf": {"int", false, false}, "exp": {"int", true, true},
	},
	"inv": {
		"iss": {"str", true, false}, "sub": {"str", true, false}, "aud": {"str", false, false}, "cmd": {"str", true, false},
		"args": {"map", true, false}, "prf": {"list", true, false}, "meta": {"map", false, false},
		"nonce": {"bytes", true, false}, // optional in the schema, but a nonce is required by the token rules
		"exp": {"int", true, true}, "iat": {"int", false, false}, "cause": {"link", false, false},
	},
}

var retypes = []val.V{val.Int(1), val.Str("x"), val.Bool(true), val.Bytes([]byte{1, 2, 3, 4, 5, 6, 7, 8, 9, 10, 11, 12}), val.List(), val.Map(), val.Float(1.5), val.V{K: "link", X: []byte{9}}}

var bigInts = []val.V{val.Int(maxSafe + 1), val.Int(-(maxSafe + 1)), val.Int(math.MaxInt64), val.Int(math.MinInt64), val.Uint(1 << 63), val.Uint(math.MaxUint64)}
func st(xs ...val.V) val.V { return val.List(xs...) }

var okStmt = st(val.Str("=="), val.Str(".a"), val.Int(1))

var polCores = []func(big val.V) val.V{
	func(b val.V) val.V { return st(val.Str("=="), val.Str(".a"), b) },
	func(b val.V) val.V { return st(val.Str(">"), val.Str(".a"), b) },
	func(b val.V) val.V { return st(val.Str("<="), val.Str(".a?"), b) },
	func(b val.V) val.V { return st(val.Str("=="), val.Str(".a"), val.List(val.Int(1), val.Map(val.E("x", b)))) },
	func(b val.V) val.V { return st(val.Str("!="), val.Str(".a"), val.Map(val.E("k", val.List(b)))) },
	func(b val.V) val.V { return st(val.Str("=="), val.Str(".a"), val.Map(val.E("meta", b))) },
	func(b val.V) val.V { return st(val.Str("=="), val.Str(".meta"), val.Map(val.E("args", val.Map(val.E("meta", val.List(b)))))) },
}

var polShapes = []func(core val.V) val.V{
	func(c val.V) val.V { return c },
	func(c val.V) val.V { return st(val.Str("not"), c) },
	func(c val.V) val.V { return st(val.Str("and"), val.List(okStmt, c)) },
	func(c val.V) val.V { return st(val.Str("or"), val.List(c, okStmt)) },
	func(c val.V) val.V { return st(val.Str("all"), val.Str(".l"), c) },
	func(c val.V) val.V { return st(val.Str("any"), val.Str(".l"), c) },
	func(c val.V) val.V { return st(val.Str("any"), val.Str(".l"), st(val.Str("all"), val.Str("."), c)) },
	func(c val.V) val.V { return st(val.Str("not"), st(val.Str("any"), val.Str(".l"), st(val.Str("or"), val.List(c)))) },
	func(c val.V) val.V { return st(val.Str("all"), val.Str(".l"), st(val.Str("and"), val.List(st(val.Str("any"), val.Str("."), c)))) },
	func(c val.V) val.V { return st(val.Str("or"), val.List(st(val.Str("not"), st(val.Str("not"), c)))) },
	func(c val.V) val.V { return st(val.Str("and"), val.List(okStmt, okStmt, okStmt, st(val.Str("and"), val.List(st(val.Str("and"), val.List(c)))))) },
}

var argShapes = []func(big val.V) val.V{
	func(b val.V) val.V { return val.Map(val.E("a", b)) },
	func(b val.V) val.V { return val.Map(val.E("a", val.Int(1)), val.E("l", val.List(val.Int(1), val.Map(val.E("deep", b))))) },
	func(b val.V) val.V { return val.Map(val.E("l", val.List(b))) },
	func(b val.V) val.V { return val.Map(val.E("l", val.List(val.Int(1), val.Int(2), val.Int(3), b))) },
	func(b val.V) val.V { return val.Map(val.E("m", val.Map(val.E("m", val.Map(val.E("m", val.Map(val.E("m", b)))))))) },
	func(b val.V) val.V { return val.Map(val.E("l", val.List(val.List(val.List(val.List(b)))))) },
	func(b val.V) val.V { return val.Map(val.E("a", val.Str("x")), val.E("b", val.Bytes([]byte{1})), val.E("zzzzzzzz", b)) },
	func(b val.V) val.V { return val.Map(val.E("", b)) },
	// keys that are the names of payload / envelope fields (a walker that recognises fields by NAME, not by place)
	func(b val.V) val.V { return val.Map(val.E("meta", b)) },
	func(b val.V) val.V { return val.Map(val.E("file", val.Map(val.E("meta", val.Map(val.E("size", b)))))) },
	func(b val.V) val.V { return val.Map(val.E("meta", val.List(val.Int(1), b))) },
	func(b val.V) val.V { return val.Map(val.E("args", val.Map(val.E("meta", b))), val.E("a", val.Int(1))) },
	func(b val.V) val.V { return val.Map(val.E("exp", b)) },
	func(b val.V) val.V { return val.Map(val.E("nbf", b), val.E("iat", b)) },
	func(b val.V) val.V { return val.Map(val.E("nonce", val.Map(val.E("n", b)))) },
	func(b val.V) val.V { return val.Map(val.E("pol", val.List(val.List(val.Str("=="), val.Str(".a"), b)))) },
	func(b val.V) val.V { return val.Map(val.E("h", b), val.E("ucan/inv@1.0.0-rc.1", val.Map(val.E("x", b)))) },
	func(b val.V) val.V { return val.Map(val.E("prf", val.List(b)), val.E("cause", b)) },
}

var okInts = []val.V{val.Int(maxSafe), val.Int(-maxSafe), val.Int(0)}

var badDIDs = []string{"", "did:key:", "did:web:example.com", "did:key:zQ", "not a did", "did:key:z6Mk", "did:key:f00"}
var badCmds = []string{"", "foo", "/foo/", "/Foo", "//x/", "/FOO/bar", "foo/bar", "/É", "/ж/Ж", "/Ⅰ", "/foo/Ⓐ"}

var mutKinds = []string{"drop", "null", "retype", "bigint", "okint", "bad-did", "bad-cmd", "short-nonce", "bad-policy", "nested-bigint", "unknown-field", "empty-collection"}

// apply returns the mutated payload and the verdict the schema table gives:
// "reject" (must be rejected), "accept-ok" (still well-formed), "unspecified".
func applyMut(typ string, p val.V, m Mut) (val.V, string, bool) {
	spec, known := schema[typ][m.Field]
	out := val.V{K: "map", M: append([]val.KV{}, p.M...)}
	set := func(v val.V) {
		for i := range out.M {
			if out.M[i].K == m.Field {
				out.M[i].V = v
				return
			}
		}
		out.M = append(out.M, val.KV{K: m.Field, V: v})
	}
	switch m.Kind {
	case "unknown-field":
		name := []string{"zzz", "Iss", "iss ", "fct", "ucv"}[m.N%5]
		if _, dup := out.Get(name); dup {
			return p, "", false
		}
		out.M = append(out.M, val.KV{K: name, V: retypes[m.N%len(retypes)]})
		return out, "reject", true
	}
	if !known {
		return p, "", false
	}
	switch m.Kind {
	case "drop":
		var keep []val.KV
		for _, e := range out.M {
			if e.K != m.Field {
				keep = append(keep, e)
			}
		}
		out.M = keep
		if spec.required {
			return out, "reject", true
		}
		return out, "accept-ok", true
	case "null":
		set(val.Null())
		switch {
		case spec.nullable:
			return out, "accept-ok", true
		case spec.required:
			return out, "reject", true
		}
		return out, "unspecified", true // null for an optional, non-nullable field
	case "retype":
		v := retypes[m.N%len(retypes)]
		if v.Kind() == spec.kind {
			return p, "", false
		}
		if spec.kind == "any" { // pol: Any in the schema; a policy must be a list of statements
			set(v)
			if v.Kind() == "list" {
				return out, "unspecified", true
			}
			return out, "reject", true
		}
		set(v)
		return out, "reject", true
	case "bigint":
		if spec.kind != "int" {
			return p, "", false
		}
		set(bigInts[m.N%len(bigInts)])
		return out, "reject", true
	case "okint":
		if spec.kind != "int" {
			return p, "", false
		}
		set(okInts[m.N%len(okInts)])
		return out, "accept-ok", true
	case "bad-did":
		if spec.kind != "str" || m.Field == "cmd" {
			return p, "", false
		}
		set(val.Str(badDIDs[m.N%len(badDIDs)]))
		return out, "reject", true
	case "bad-cmd":
		if m.Field != "cmd" {
			return p, "", false
		}
		set(val.Str(badCmds[m.N%len(badCmds)]))
		return out, "reject", true
	case "short-nonce":
		if m.Field != "nonce" {
			return p, "", false
		}
		set(val.Bytes(bytes.Repeat([]byte{1}, m.N%12)))
		return out, "reject", true
	case "bad-policy":
		if m.Field != "pol" {
			return p, "", false
		}
		bad := []val.V{
			val.List(val.Int(1)),
			val.List(val.List(val.Str("=="), val.Str(".a"))),
			val.List(val.List(val.Str("xor"), val.Str(".a"), val.Int(1))),
			val.List(val.List(val.Str("=="), val.Str("a"), val.Int(1))),
			val.List(val.List(val.Str("like"), val.Str(".a"), val.Int(1))),
			val.List(val.List(val.Str("like"), val.Str(".a"), val.Str(`x\`))),
			val.List(val.List(val.Str("not"), val.Int(1))),
			val.List(val.List(val.Str("and"), val.Str("x"))),
			val.List(val.List(val.Str("all"), val.Str(".a"), val.List())),
			val.List(val.List(val.Int(1), val.Str(".a"), val.Int(1))),
			val.List(val.List(val.Str("=="), val.Str(`.a["x`), val.Int(1))),
		}
		// integers of a policy that sit INSIDE a selector text - an index, the bounds of a slice - are policy integers
		// like the literals are: outside +/-(2^53-1) the policy is not well formed (at and beyond each edge: 2^53,
		// -2^53, the int64 limits, 20 digits), in every position a selector has in a statement
		for _, n := range []string{"9007199254740992", "-9007199254740992", "9007199254740993", "-9007199254740993", "9223372036854775807", "-9223372036854775808", "99999999999999999999", "-99999999999999999999"} {
			for _, sl := range []string{".[" + n + "]", ".[" + n + "]?", ".a[" + n + ":]", ".[:" + n + "]", ".a[1:" + n + "]?", ".[" + n + ":" + n + "]"} {
				bad = append(bad, val.List(val.List(val.Str("=="), val.Str(sl), val.Int(1))),
					val.List(val.List(val.Str("any"), val.Str(sl), val.List(val.Str("=="), val.Str("."), val.Int(1)))),
					val.List(val.List(val.Str("not"), val.List(val.Str("like"), val.Str(sl), val.Str("*")))))
			}
		}
		set(bad[m.N%len(bad)])
		return out, "reject", true
	case "nested-bigint":
		big := bigInts[m.N%len(bigInts)]
		switch m.Field {
		case "args":
			k := m.N / len(bigInts)
			set(argShapes[k%len(argShapes)](big))
			return out, "reject", true
		case "pol":
			// the out-of-range integer sits in a comparison literal (bare, or nested in a list / map literal)
			// at every syntactic position a statement can occupy: top level, under not / and / or / all / any
			// and under combinations of them
			k := m.N / len(bigInts)
			core := polCores[k%len(polCores)](big)
			shape := polShapes[(k/len(polCores))%len(polShapes)]
			set(val.List(shape(core)))
			return out, "reject", true
		case "meta":
			set(val.Map(val.E("k", big)))
			return out, "unspecified", true // the statement bounds args and policy integers, not metadata
		}
		return p, "", false
	case "empty-collection":
		switch spec.kind {
		case "map":
			set(val.Map())
		case "list":
			set(val.List())
		case "any":
			set(val.List())
		case "bytes":
			set(val.Bytes([]byte{}))
			return out, "reject", true // empty nonce
		default:
			return p, "", false
		}
		return out, "accept-ok", true
	}
	return p, "", false
}

var envMuts = []string{"", "tag-extended-digit", "tag-extended-plus", "tag-extended-slash", "tag-extended-space", "tag-truncated", "one-entry", "three-entries", "two-tags", "h+aux-short+payload", "h+payload+aux-long", "h+aux-short-map+payload", "h+both-type-tags", "h+other-version+payload", "h+payload+payload-copy-long", "header-only", "unknown-tag", "other-version", "other-type-tag", "no-prefix-tag", "header-int", "sig-not-bytes"}

// buildEnvelope signs the payload correctly and applies the envelope-level mutation.
func buildEnvelope(typ string, payload val.V, envMut string) (ipld.Node, string, error) {
	k := issuer()
	tag := env.DlgTag
	if typ == "inv" {
		tag = env.InvTag
	}
	hdr := env.HeaderFor(k.Priv.Type())
	verdict := ""
	entries := []val.KV{{K: "h", V: val.Bytes(hdr)}, {K: tag, V: payload}}
	switch envMut {
	case "":
	case "one-entry":
		entries = entries[1:]
		verdict = "reject"
	case "three-entries":
		entries = append(entries, val.KV{K: "x", V: val.Int(1)})
		verdict = "reject"
	case "two-tags":
		other := env.InvTag
		if typ == "inv" {
			other = env.DlgTag
		}
		entries = []val.KV{{K: tag, V: payload}, {K: other, V: payload}}
		verdict = "reject"
	case "h+aux-short+payload":
		// header, the payload under the right tag, and one more "ucan/..." entry: three entries, two of which look
		// like payloads. In canonical key order the short tag comes first, the genuine payload last.
		entries = append(entries, val.KV{K: "ucan/aux", V: val.Int(1)})
		verdict = "reject"
	case "h+aux-short-map+payload":
		entries = append(entries, val.KV{K: "ucan/a", V: val.Map(val.E("iss", val.Str("x")))})
		verdict = "reject"
	case "h+payload+aux-long":
		entries = append(entries, val.KV{K: "ucan/zzzzzzzzzzzzzzzzzzzzzzzzzzzz@1.0.0-rc.1", V: val.Int(1)})
		verdict = "reject"
	case "h+payload+payload-copy-long":
		entries = append(entries, val.KV{K: tag + "-bis", V: payload})
		verdict = "reject"
	case "h+both-type-tags":
		other := env.InvTag
		if typ == "inv" {
			other = env.DlgTag
		}
		entries = append(entries, val.KV{K: other, V: val.Map(val.E("junk", val.Int(1)))})
		verdict = "reject"
	case "h+other-version+payload":
		entries = append(entries, val.KV{K: strings.Replace(tag, "rc.1", "rc.0", 1), V: val.Int(0)})
		verdict = "reject"
	case "header-only":
		entries = entries[:1]
		verdict = "reject"
	case "unknown-tag":
		entries[1].K = "ucan/rcpt@1.0.0-rc.1"
		verdict = "reject"
	case "tag-extended-digit": // ucan/dlg@1.0.0-rc.10: the right tag is a proper PREFIX of it
		entries[1].K = tag + "0"
		verdict = "reject"
	case "tag-extended-plus":
		entries[1].K = tag + "+build.7"
		verdict = "reject"
	case "tag-extended-slash":
		entries[1].K = tag + "/x"
		verdict = "reject"
	case "tag-extended-space":
		entries[1].K = tag + " "
		verdict = "reject"
	case "tag-truncated":
		entries[1].K = tag[:len(tag)-1]
		verdict = "reject"
	case "other-version":
		entries[1].K = strings.Replace(tag, "rc.1", "rc.2", 1)
		verdict = "reject"
	case "other-type-tag":
		if typ == "inv" {
			entries[1].K = env.DlgTag
		} else {
			entries[1].K = env.InvTag
		}
		verdict = "reject"
	case "no-prefix-tag":
		entries[1].K = strings.TrimPrefix(tag, "ucan/")
		verdict = "reject"
	case "header-int":
		entries[0].V = val.Int(1)
		verdict = "reject"
	}
	sp := val.V{K: "map", M: entries}.Node()
	data, err := ipld.Encode(sp, dagcbor.Encode)
	if err != nil {
		return nil, "", err
	}
	sig, err := k.Priv.Sign(data)
	if err != nil {
		return nil, "", err
	}
	var sigNode val.V = val.Bytes(sig)
	if envMut == "sig-not-bytes" {
		sigNode = val.Str(string(sig[:8]))
		verdict = "reject"
	}
	n, err := qp.BuildList(basicnode.Prototype.Any, 2, func(la datamodel.ListAssembler) {
		qp.ListEntry(la, qp.Node(sigNode.Node()))
		qp.ListEntry(la, qp.Node(sp))
	})
	return n, verdict, err
}

type decoder struct {
	name  string
	typ   string // "", dlg, inv
	codec string
	f     func(cb, js []byte, n ipld.Node) (token.Token, error)
}

func nd(t *delegation.Token, err error) (token.Token, error) {
	if err != nil || t == nil {
		return nil, err
	}
	return t, nil
}
func ni(t *invocation.Token, err error) (token.Token, error) {
	if err != nil || t == nil {
		return nil, err
	}
	return t, nil
}

var decoders = []decoder{
	{"token.FromSealed", "", "cbor", func(cb, js []byte, n ipld.Node) (token.Token, error) { t, _, err := token.FromSealed(cb); return t, err }},
	{"token.FromDagCbor", "", "cbor", func(cb, js []byte, n ipld.Node) (token.Token, error) { return token.FromDagCbor(cb) }},
	{"token.FromDagJson", "", "json", func(cb, js []byte, n ipld.Node) (token.Token, error) { return token.FromDagJson(js) }},
	{"delegation.FromSealed", "dlg", "cbor", func(cb, js []byte, n ipld.Node) (token.Token, error) { t, _, err := delegation.FromSealed(cb); return nd(t, err) }},
	{"delegation.FromDagJson", "dlg", "json", func(cb, js []byte, n ipld.Node) (token.Token, error) { return nd(delegation.FromDagJson(js)) }},
	{"delegation.FromIPLD", "dlg", "node", func(cb, js []byte, n ipld.Node) (token.Token, error) { return nd(delegation.FromIPLD(n)) }},
	{"invocation.FromSealed", "inv", "cbor", func(cb, js []byte, n ipld.Node) (token.Token, error) { t, _, err := invocation.FromSealed(cb); return ni(t, err) }},
	{"invocation.FromDagJson", "inv", "json", func(cb, js []byte, n ipld.Node) (token.Token, error) { return ni(invocation.FromDagJson(js)) }},
	{"invocation.FromIPLD", "inv", "node", func(cb, js []byte, n ipld.Node) (token.Token, error) { return ni(invocation.FromIPLD(n)) }},
}

// plus every other public decode entry point (harness/api)
func init() {
	have := map[string]bool{}
	for _, d := range decoders {
		have[d.name] = true
	}
	for _, format := range []string{"cbor", "json"} {
		for _, d := range api.Decoders(format) {
			d, format := d, format
			if have[d.Name] || strings.Contains(d.Name, "FromIPLD") {
				continue
			}
			decoders = append(decoders, decoder{d.Name, d.Typed, format, func(cb, js []byte, n ipld.Node) (token.Token, error) {
				in := cb
				if format == "json" {
					in = js
				}
				t, _, err := d.Bytes(in)
				return t, err
			}})
		}
	}
}

func refCommandValid(s string) bool {
	if !strings.HasPrefix(s, "/") || (len(s) > 1 && strings.HasSuffix(s, "/")) {
		return false
	}
	for _, r := range s {
		if unicode.IsUpper(r) || (unicode.Is(unicode.Other_Uppercase, r) && unicode.ToLower(r) != r) {
			return false
		}
	}
	return true
}

func intsInRange(n ipld.Node) (ok bool, bad string) {
	ok = true
	var walk func(n ipld.Node)
	walk = func(n ipld.Node) {
		if n == nil {
			return
		}
		switch n.Kind() {
		case ipld.Kind_Int:
			i, err := n.AsInt()
			if err != nil || i > maxSafe || i < -maxSafe {
				ok, bad = false, val.FromNode(n).String()
			}
		case ipld.Kind_List:
			it := n.ListIterator()
			for !it.Done() {
				_, v, err := it.Next()
				if err != nil {
					return
				}
				walk(v)
			}
		case ipld.Kind_Map:
			it := n.MapIterator()
			for !it.Done() {
				_, v, err := it.Next()
				if err != nil {
					return
				}
				walk(v)
			}
		}
	}
	walk(n)
	return
}

// invariants checks the well-formedness of a token that came out of a decoder or constructor.
func invariants(c *h.Ctx, t token.Token, decoded bool, where string) {
	chkTime := func(name string, p interface{ Unix() int64 }, present bool) {
		if present && decoded {
			if u := p.Unix(); u > maxSafe || u < -maxSafe {
				c.Fail("C10/invariant/time-bound/"+name, "%s: %s = %d is outside +/-(2^53-1)", where, name, u)
			}
		}
	}
	switch x := t.(type) {
	case *delegation.Token:
		if !x.Issuer().Defined() {
			c.Fail("C10/invariant/issuer", "%s: delegation without issuer", where)
		}
		if !x.Audience().Defined() {
			c.Fail("C10/invariant/audience", "%s: delegation without audience", where)
		}
		if len(x.Nonce()) < 12 {
			c.Fail("C10/invariant/nonce", "%s: delegation with a %d-byte nonce", where, len(x.Nonce()))
		}
		if decoded && !refCommandValid(x.Command().String()) {
			c.Fail("C10/invariant/command", "%s: delegation with invalid command %q", where, x.Command())
		}
		if x.NotBefore() != nil {
			chkTime("nbf", *x.NotBefore(), true)
		}
		if x.Expiration() != nil {
			chkTime("exp", *x.Expiration(), true)
		}
		if decoded {
			if pn, err := x.Policy().ToIPLD(); err == nil {
				if ok, bad := intsInRange(pn); !ok {
					c.Fail("C10/invariant/policy-int", "%s: decoded delegation carries policy integer %s", where, bad)
				}
			}
		}
	case *invocation.Token:
		if !x.Issuer().Defined() {
			c.Fail("C10/invariant/issuer", "%s: invocation without issuer", where)
		}
		if !x.Subject().Defined() {
			c.Fail("C10/invariant/subject", "%s: invocation without subject", where)
		}
		if len(x.Nonce()) < 12 {
			c.Fail("C10/invariant/nonce", "%s: invocation with a %d-byte nonce", where, len(x.Nonce()))
		}
		if decoded && !refCommandValid(x.Command().String()) {
			c.Fail("C10/invariant/command", "%s: invocation with invalid command %q", where, x.Command())
		}
		if x.Expiration() != nil {
			chkTime("exp", *x.Expiration(), true)
		}
		if x.InvokedAt() != nil {
			chkTime("iat", *x.InvokedAt(), true)
		}
		if decoded {
			for k, n := range x.Arguments().Iter() {
				if ok, bad := intsInRange(n); !ok {
					c.Fail("C10/invariant/args-int", "%s: decoded invocation carries argument %q with integer %s", where, k, bad)
				}
			}
		}
	default:
		c.Fail("C10/invariant/type", "%s: unknown token type %T", where, t)
	}
}

func runPay(c *h.Ctx, pc PayCase) {
	payload := basePayload(pc.Type)
	verdict := "accept-ok"
	desc := []string{}
	touched := map[string]bool{}
	for _, m := range pc.Muts {
		if m.Kind != "unknown-field" {
			if touched[m.Field] {
				continue // a later mutation of the same field could undo the earlier one
			}
			touched[m.Field] = true
		}
		np, v, ok := applyMut(pc.Type, payload, m)
		if !ok {
			continue
		}
		payload = np
		desc = append(desc, m.Kind+":"+m.Field)
		switch {
		case v == "reject":
			verdict = "reject"
		case v == "unspecified" && verdict != "reject":
			verdict = "unspecified"
		}
	}
	payload = inContext(pc.Type, payload, pc.Ctx, touched)
	if pc.Ctx%len(contexts) != 0 {
		c.P.Class("context:" + contexts[pc.Ctx%len(contexts)].Cmd)
	}
	node, ev, err := buildEnvelope(pc.Type, payload, pc.Env)
	if err != nil {
		c.P.Class("harness-cannot-build")
		return
	}
	if ev == "reject" {
		verdict = "reject"
		desc = append(desc, "env:"+pc.Env)
	}
	cb, err := ipld.Encode(node, dagcbor.Encode)
	if err != nil {
		c.P.Class("harness-cannot-encode")
		return
	}
	js, jerr := ipld.Encode(node, dagjson.Encode)
	label := strings.Join(desc, "+")
	if label == "" {
		label = "unmodified"
	}
	c.P.Class("verdict:" + verdict)
	if verdict == "unspecified" {
		c.P.Unspecified()
	}
	for _, d := range decoders {
		if d.codec == "json" && jerr != nil {
			continue
		}
		var got token.Token
		var derr error
		if pn, pv, _ := h.Try(func() { got, derr = d.f(cb, js, node) }); pn {
			c.P.PanicSeen()
			c.Logf("%s panicked on %s: %v", d.name, label, pv)
			continue
		}
		wrongType := d.typ != "" && d.typ != pc.Type
		if derr != nil || got == nil {
			if verdict == "accept-ok" && !wrongType && pc.Env == "" && len(desc) == 0 && pc.Ctx%len(contexts) == 0 {
				c.Fail("C10/harness/base-payload-rejected", "%s rejects the unmodified, correctly signed base payload: %v", d.name, derr)
			}
			continue
		}
		where := fmt.Sprintf("%s on %s payload [%s]", d.name, pc.Type, label)
		if wrongType {
			c.Fail("C10/type-confusion/"+d.name, "%s returned a token for a %s envelope [%s]", d.name, pc.Type, label)
			continue
		}
		if verdict == "reject" {
			c.Fail("C10/accepted-illformed/"+label, "%s returned a token although the payload must be rejected: %s\npayload %s", d.name, label, payload)
			continue
		}
		// concrete type matches the tag
		switch got.(type) {
		case *delegation.Token:
			if pc.Type != "dlg" {
				c.Fail("C10/type-confusion/tag", "%s returned a delegation for an invocation envelope", d.name)
			}
		case *invocation.Token:
			if pc.Type != "inv" {
				c.Fail("C10/type-confusion/tag", "%s returned an invocation for a delegation envelope", d.name)
			}
		}
		invariants(c, got, true, where)
		c.P.Class("accepted")
	}
	if len(desc) > 0 {
		c.P.NonTrivial([]any{pc.Type, pc.Muts, pc.Env}, map[string]any{"type": pc.Type, "mutations": desc, "verdict": verdict})
	}
}

var payProp = h.Define(P, "payload", func(t *rapid.T) PayCase {
	typ := rapid.SampledFrom([]string{"dlg", "inv"}).Draw(t, "type")
	pc := PayCase{Type: typ}
	n := rapid.IntRange(1, 2).Draw(t, "nmut")
	for i := 0; i < n; i++ {
		pc.Muts = append(pc.Muts, Mut{Field: rapid.SampledFrom(fieldsOf[typ]).Draw(t, "field"), Kind: rapid.SampledFrom(mutKinds).Draw(t, "kind"), N: rapid.IntRange(0, 359).Draw(t, "n")})
	}
	if rapid.IntRange(0, 4).Draw(t, "envmut") == 0 {
		pc.Env = rapid.SampledFrom(envMuts).Draw(t, "env")
	}
	if rapid.Bool().Draw(t, "inctx") {
		pc.Ctx = rapid.IntRange(1, len(contexts)-1).Draw(t, "ctx")
	}
	return pc
}, runPay)

func TestPayloadPairs(t *testing.T) { payProp.Check(t) }

// TestPayloadProduct enumerates type x field x mutation x parameter once, and every envelope mutation.
func TestPayloadProduct(t *testing.T) {
	for _, typ := range []string{"dlg", "inv"} {
		payProp.One(t, PayCase{Type: typ})
		for _, f := range fieldsOf[typ] {
			for _, k := range mutKinds {
				nmax := 12
				if k == "nested-bigint" {
					nmax = len(bigInts) * len(polCores) * len(polShapes)
				}
				if k == "bad-policy" {
					nmax = 11 + 8*6*3
				}
				for n := 0; n < nmax; n++ {
					payProp.One(t, PayCase{Type: typ, Muts: []Mut{{Field: f, Kind: k, N: n}}})
				}
				// and in every context, with a few parameters each
				for cx := 1; cx < len(contexts) && (k == "bigint" || k == "nested-bigint" || h.Thorough()); cx++ {
					for n := 0; n < nmax; n += 1 + nmax/24 {
						payProp.One(t, PayCase{Type: typ, Muts: []Mut{{Field: f, Kind: k, N: n + cx%3}}, Ctx: cx})
					}
				}
			}
		}
		for _, e := range envMuts[1:] {
			payProp.One(t, PayCase{Type: typ, Env: e})
		}
	}
	P.SetExhaustive()
}

// ---------- constructors with adversarial options ----------

type CtorCase struct {
	Type     string `json:"type"`
	IssUndef bool   `json:"iss_undef"`
	AudUndef bool   `json:"aud_undef"`
	SubUndef bool   `json:"sub_undef"`
	Nonces   []int  `json:"nonces"` // lengths given through successive WithNonce; -1 = WithEmptyNonce (invocation)
	Order    int    `json:"order"`
	// RootSub: delegation.Root called with an option list that ALSO contains WithSubject (a list re-used from a New
	// call): 1 another principal, 2 the undefined DID, 3 the issuer itself, at position RootSubAt of the list
	RootSub   int `json:"root_sub,omitempty"`
	RootSubAt int `json:"root_sub_at,omitempty"`
}

func runCtor(c *h.Ctx, cc CtorCase) {
	pick := func(undef bool, i int) did.DID {
		if undef {
			return did.Undef
		}
		return keys.Principal(i).DID
	}
	var tk token.Token
	var err error
	if cc.Type == "dlg" {
		var opts []delegation.Option
		for _, n := range cc.Nonces {
			if n >= 0 {
				opts = append(opts, delegation.WithNonce(bytes.Repeat([]byte{1}, n)))
			}
		}
		opts = append(opts, delegation.WithMeta("k", "v"))
		if cc.Order%2 == 1 {
			for i, j := 0, len(opts)-1; i < j; i, j = i+1, j-1 {
				opts[i], opts[j] = opts[j], opts[i]
			}
		}
		var d *delegation.Token
		if cc.Order%3 == 0 {
			if cc.RootSub > 0 {
				so := delegation.WithSubject([]did.DID{keys.Principal(2).DID, did.Undef, pick(cc.IssUndef, 0)}[(cc.RootSub-1)%3])
				at := cc.RootSubAt % (len(opts) + 1)
				opts = append(append(append([]delegation.Option{}, opts[:at]...), so), opts[at:]...)
			}
			d, err = delegation.Root(pick(cc.IssUndef, 0), pick(cc.AudUndef, 1), command.MustParse("/foo"), policy.Policy{}, opts...)
			if err == nil && d != nil && d.Subject() != d.Issuer() {
				c.Fail("C10/constructor/root-subject", "delegation.Root returned a token whose subject (%s) is not its issuer (%s): a root delegation is issued by its subject, whatever options came along (WithSubject variant %d at position %d)", d.Subject(), d.Issuer(), cc.RootSub, cc.RootSubAt)
			}
		} else {
			if !cc.SubUndef {
				opts = append(opts, delegation.WithSubject(keys.Principal(2).DID))
			}
			d, err = delegation.New(pick(cc.IssUndef, 0), pick(cc.AudUndef, 1), command.MustParse("/foo"), policy.Policy{}, opts...)
		}
		if d != nil {
			tk = d
		}
	} else {
		var opts []invocation.Option
		for _, n := range cc.Nonces {
			if n >= 0 {
				opts = append(opts, invocation.WithNonce(bytes.Repeat([]byte{1}, n)))
			} else {
				opts = append(opts, invocation.WithEmptyNonce())
			}
		}
		opts = append(opts, invocation.WithArgument("a", 1))
		if cc.Order%2 == 1 {
			for i, j := 0, len(opts)-1; i < j; i, j = i+1, j-1 {
				opts[i], opts[j] = opts[j], opts[i]
			}
		}
		if !cc.AudUndef {
			opts = append(opts, invocation.WithAudience(keys.Principal(3).DID))
		}
		var iv *invocation.Token
		iv, err = invocation.New(pick(cc.IssUndef, 0), pick(cc.SubUndef, 1), command.MustParse("/foo"), []cid.Cid{}, opts...)
		if iv != nil {
			tk = iv
		}
	}
	if err != nil && tk != nil {
		c.Fail("C10/constructor/token-with-error", "constructor returned both a token and an error")
	}
	if tk != nil && err == nil {
		invariants(c, tk, false, fmt.Sprintf("constructor %+v", cc))
		c.P.Class("ctor/accepted")
	} else {
		c.P.Class("ctor/rejected")
	}
	if cc.IssUndef || cc.AudUndef || cc.SubUndef || len(cc.Nonces) > 0 {
		c.P.NonTrivial([]any{"ctor", cc}, map[string]any{"constructor_case": cc, "accepted": tk != nil && err == nil})
	}
}

var ctorProp = h.Define(P, "constructor", func(t *rapid.T) CtorCase {
	return CtorCase{Type: rapid.SampledFrom([]string{"dlg", "inv"}).Draw(t, "type"),
		IssUndef: rapid.IntRange(0, 3).Draw(t, "iu") == 0, AudUndef: rapid.IntRange(0, 3).Draw(t, "au") == 0, SubUndef: rapid.IntRange(0, 3).Draw(t, "su") == 0,
		Nonces: rapid.SliceOfN(rapid.SampledFrom([]int{-1, 0, 1, 11, 12, 13, 32}), 0, 3).Draw(t, "nonces"), Order: rapid.IntRange(0, 5).Draw(t, "order"), RootSub: rapid.IntRange(0, 3).Draw(t, "rootsub"), RootSubAt: rapid.IntRange(0, 4).Draw(t, "rootsubat")}
}, runCtor)

func TestConstructors(t *testing.T) { ctorProp.Check(t) }

// ---------- Go values ----------

// GoVal describes a Go value handed to args.Add / meta.Add / literal.Any.
type GoVal struct {
	T   string  `json:"t"` // Go type name, see build()
	I   int64   `json:"i,omitempty"`
	U   uint64  `json:"u,omitempty"`
	F   float64 `json:"f,omitempty"`
	S   string  `json:"s,omitempty"`
	SB  []byte  `json:"sb,omitempty"` // for string types: the string's bytes when they are not valid UTF-8 (JSON cannot carry them in S)
	B   []byte  `json:"b,omitempty"`
	L   []GoVal `json:"l,omitempty"`
	K   []string `json:"k,omitempty"` // map keys, parallel to L
	Ptr bool    `json:"ptr,omitempty"`
}

type myInt int
type myUint uint64
type myStr string
type myStruct struct{ A int }

// "loud" types: the same underlying kinds, with the method sets of the text / JSON / binary marshalling interfaces,
// fmt.Stringer and error on top (enums, levels, tag lists as applications define them). What a value IS does not
// depend on what it can print itself as: an integer is stored as that integer (or rejected).
type loudInt int64
type loudStr string
type loudSlice []string
type loudBool bool
type loudFloat float64

func (l loudInt) MarshalText() ([]byte, error)     { return []byte("level-" + strconv.FormatInt(int64(l), 10)), nil }
func (l loudInt) String() string                   { return "LEVEL" }
func (l loudInt) MarshalJSON() ([]byte, error)     { return []byte(`"json-level"`), nil }
func (l loudInt) MarshalBinary() ([]byte, error)   { return []byte{0xff}, nil }
func (l loudInt) Error() string                    { return "loud" }
func (l loudStr) MarshalText() ([]byte, error)     { return []byte("text:" + string(l)), nil }
func (l loudStr) String() string                   { return "STR" }
func (l loudStr) MarshalJSON() ([]byte, error)     { return []byte(`"json-str"`), nil }
func (l loudSlice) MarshalText() ([]byte, error)   { return []byte(strings.Join(l, ",")), nil }
func (l loudSlice) String() string                 { return "SLICE" }
func (l loudBool) MarshalText() ([]byte, error)    { return []byte("yes"), nil }
func (l loudBool) String() string                  { return "BOOL" }
func (l loudFloat) MarshalText() ([]byte, error)   { return []byte("1e0"), nil }
func (l loudFloat) MarshalBinary() ([]byte, error) { return []byte{1}, nil }

// build returns the Go value and what must be stored: (node, true) when the
// value is representable, (nil, false) when it must be rejected. spec=false
// when the statement does not settle it.
func (g GoVal) build() (v any, want *val.V, mustReject bool, spec bool) {
	// "stored exactly or rejected": an integer is storable exactly when it fits the
	// IPLD integer the package uses (int64); above that it must be rejected
	// (or kept as the same mathematical value, which exactEqual checks).
	okInt := func(i int64) (*val.V, bool) {
		x := val.Int(i)
		return &x, false
	}
	okUint := func(u uint64) (*val.V, bool) {
		if u > math.MaxInt64 {
			x := val.Uint(u)
			return &x, false
		}
		x := val.Int(int64(u))
		return &x, false
	}
	spec = true
	switch g.T {
	case "int":
		v = int(g.I)
		want, mustReject = okInt(g.I)
	case "int8":
		v = int8(g.I)
		want, mustReject = okInt(int64(int8(g.I)))
	case "int16":
		v = int16(g.I)
		want, mustReject = okInt(int64(int16(g.I)))
	case "int32":
		v = int32(g.I)
		want, mustReject = okInt(int64(int32(g.I)))
	case "int64":
		v = g.I
		want, mustReject = okInt(g.I)
	case "myInt":
		v = myInt(g.I)
		want, mustReject = okInt(g.I)
	case "loudInt":
		v = loudInt(g.I)
		want, mustReject = okInt(g.I)
	case "loudStr":
		v = loudStr(g.S)
		x := val.Str(g.S)
		want = &x
	case "loudSlice":
		v = loudSlice{"a", g.S, "c"}
		x := val.List(val.Str("a"), val.Str(g.S), val.Str("c"))
		want = &x
	case "loudBool":
		v = loudBool(g.I != 0)
		x := val.Bool(g.I != 0)
		want = &x
	case "loudFloat":
		v = loudFloat(g.F)
		x := val.Float(g.F)
		want = &x
	case "nodeInt", "nodeUint", "nodeNested":
		// the value handed over as a prebuilt IPLD node (what a caller has after decoding something else): an integer,
		// an unsigned integer, or one of them two levels down in a list in a map
		var leaf val.V
		if g.T == "nodeUint" || (g.T == "nodeNested" && g.U != 0) {
			want, mustReject = okUint(g.U)
			leaf = val.Uint(g.U)
			if g.U <= math.MaxInt64 {
				leaf = val.Int(int64(g.U))
			}
		} else {
			want, mustReject = okInt(g.I)
			leaf = val.Int(g.I)
		}
		if g.T == "nodeNested" {
			leaf = val.Map(val.E("l", val.List(val.Str("x"), leaf)))
			if want != nil {
				w := val.Map(val.E("l", val.List(val.Str("x"), *want)))
				want = &w
			}
		}
		v = leaf.Node()
	case "aliased":
		// ONE buffer seen through several slices inside one value - the whole of it, a prefix, a shorter prefix, a
		// window - as callers have them after paging or trimming: every slice is stored with ITS elements
		buf := []int64{1, 2, 3, 4, 5}
		sbuf := []string{"a", "b", "c"}
		mk := func(xs []int64) val.V {
			l := val.V{K: "list"}
			for _, x := range xs {
				l.L = append(l.L, val.Int(x))
			}
			return l
		}
		switch g.I % 4 {
		case 0:
			v = map[string]any{"all": buf, "head": buf[:2], "one": buf[:1]}
			w := val.Map(val.E("all", mk(buf)), val.E("head", mk(buf[:2])), val.E("one", mk(buf[:1])))
			want = &w
		case 1:
			v = [][]int64{buf[:1], buf[:3], buf, buf[1:3]}
			w := val.List(mk(buf[:1]), mk(buf[:3]), mk(buf), mk(buf[1:3]))
			want = &w
		case 2:
			v = []any{sbuf, sbuf[:1], map[string]any{"again": sbuf[:2]}}
			w := val.List(val.List(val.Str("a"), val.Str("b"), val.Str("c")), val.List(val.Str("a")), val.Map(val.E("again", val.List(val.Str("a"), val.Str("b")))))
			want = &w
		default:
			shared := map[string]any{"k": int64(1)}
			v = []any{shared, shared, map[string]any{"m": shared}}
			one := val.Map(val.E("k", val.Int(1)))
			w := val.List(one, one, val.Map(val.E("m", one)))
			want = &w
		}
	case "jsonNumber":
		// a number of a JSON document decoded with UseNumber(): a string type whose text denotes a number. Kept as
		// that text, or stored as the number the text denotes (an integer literal exactly; a decimal literal as the
		// float64 every JSON reader gives it), or rejected
		v = json.Number(g.S)
		want = &val.V{K: "numtext", S: g.S}
	case "duration":
		v = time.Duration(g.I)
		want, mustReject = okInt(g.I)
	case "uint":
		v = uint(g.U)
		want, mustReject = okUint(g.U)
	case "uint8":
		v = uint8(g.U)
		want, mustReject = okUint(uint64(uint8(g.U)))
	case "uint16":
		v = uint16(g.U)
		want, mustReject = okUint(uint64(uint16(g.U)))
	case "uint32":
		v = uint32(g.U)
		want, mustReject = okUint(uint64(uint32(g.U)))
	case "uint64":
		v = g.U
		want, mustReject = okUint(g.U)
	case "uintptr":
		v = uintptr(g.U)
		want, mustReject = okUint(g.U)
		spec = false // whether uintptr is "a numeric value" a caller supplies is not settled; either outcome is fine if exact
	case "myUint":
		v = myUint(g.U)
		want, mustReject = okUint(g.U)
	case "float64":
		v = g.F
		x := val.Float(g.F)
		want = &x
	case "float32":
		v = float32(g.F)
		x := val.Float(float64(float32(g.F)))
		want = &x
	case "string":
		v = g.S
		x := val.Str(g.S)
		if g.SB != nil {
			v = string(g.SB)
			x = val.V{K: "strb", X: g.SB}
		}
		want = &x
	case "myStr":
		v = myStr(g.S)
		x := val.Str(g.S)
		if g.SB != nil {
			v = myStr(g.SB)
			x = val.V{K: "strb", X: g.SB}
		}
		want = &x
	case "bool":
		v = g.I != 0
		x := val.Bool(g.I != 0)
		want = &x
	case "bytes":
		b := g.B
		if b == nil {
			b = []byte{}
		}
		v = b
		x := val.Bytes(b)
		want = &x
	case "nil":
		v, mustReject = nil, true
	case "struct":
		v, mustReject = myStruct{A: int(g.I)}, true
	case "chan":
		v, mustReject = make(chan int), true
	case "func":
		v, mustReject = func() {}, true
	case "intkeymap":
		v, mustReject = map[int]string{1: "a"}, true
	case "nilptr":
		var p *int
		v, mustReject = p, true
	case "slice", "array3":
		out := make([]any, len(g.L))
		w := val.V{K: "list"}
		for i, e := range g.L {
			ev, ew, er, es := e.build()
			out[i] = ev
			if er {
				mustReject = true
			}
			if !es {
				spec = false
			}
			if ew != nil {
				w.L = append(w.L, *ew)
			}
		}
		if g.T == "array3" {
			var arr [3]any
			for i := 0; i < 3; i++ {
				if i < len(out) {
					arr[i] = out[i]
				} else {
					arr[i] = 0
					w.L = append(w.L, val.Int(0))
				}
			}
			v = arr
			if len(g.L) > 3 {
				w.L = w.L[:3]
			}
		} else {
			v = out
		}
		if !mustReject {
			want = &w
		}
	case "intslice":
		out := make([]int64, len(g.L))
		w := val.V{K: "list"}
		for i, e := range g.L {
			out[i] = e.I
			ww, rej := okInt(e.I)
			if rej {
				mustReject = true
			} else {
				w.L = append(w.L, *ww)
			}
		}
		v = out
		if !mustReject {
			want = &w
		}
	case "uintslice":
		out := make([]uint, len(g.L))
		w := val.V{K: "list"}
		for i, e := range g.L {
			out[i] = uint(e.U)
			ww, rej := okUint(e.U)
			if rej {
				mustReject = true
			} else {
				w.L = append(w.L, *ww)
			}
		}
		v = out
		if !mustReject {
			want = &w
		}
	case "map":
		out := map[string]any{}
		w := val.V{K: "map"}
		for i, e := range g.L {
			k := fmt.Sprint(i)
			if i < len(g.K) {
				k = g.K[i]
			}
			if _, dup := out[k]; dup {
				continue
			}
			ev, ew, er, es := e.build()
			out[k] = ev
			if er {
				mustReject = true
			}
			if !es {
				spec = false
			}
			if ew != nil {
				w.M = append(w.M, val.KV{K: k, V: *ew})
			}
		}
		v = out
		if !mustReject {
			want = &w
		}
	default:
		panic("GoVal type " + g.T)
	}
	if g.Ptr && v != nil {
		switch x := v.(type) {
		case int:
			v = &x
		case int64:
			v = &x
		case uint:
			v = &x
		case uint64:
			v = &x
		case string:
			v = &x
		case float64:
			v = &x
		case []any:
			v = &x
		case map[string]any:
			v = &x
		}
	}
	return
}

func exactEqual(n ipld.Node, w val.V) bool {
	if n == nil {
		return false
	}
	if w.K == "numtext" {
		r, isNum := new(big.Rat).SetString(w.S)
		if strings.ContainsAny(w.S, "_xXoObBpP/ +") || w.S == "" {
			isNum = false // big.Rat reads more than JSON number syntax
		}
		switch n.Kind() {
		case ipld.Kind_String:
			s, _ := n.AsString()
			return s == w.S
		case ipld.Kind_Int:
			if !isNum {
				return false
			}
			if un, ok := n.(datamodel.UintNode); ok {
				u, err := un.AsUint()
				return err == nil && new(big.Rat).SetInt(new(big.Int).SetUint64(u)).Cmp(r) == 0
			}
			i, err := n.AsInt()
			return err == nil && new(big.Rat).SetInt64(i).Cmp(r) == 0
		case ipld.Kind_Float:
			f, _ := n.AsFloat()
			if !isNum || math.IsNaN(f) || math.IsInf(f, 0) {
				return false
			}
			if r.IsInt() {
				return new(big.Rat).SetFloat64(f).Cmp(r) == 0
			}
			pf, err := strconv.ParseFloat(w.S, 64)
			return err == nil && pf == f
		}
		return false
	}
	switch w.K {
	case "uint": // true value above MaxInt64: only an unsigned node holding exactly it is "exact"
		if n.Kind() != ipld.Kind_Int {
			return false
		}
		if un, ok := n.(datamodel.UintNode); ok {
			u, err := un.AsUint()
			return err == nil && new(big.Int).SetUint64(u).Cmp(new(big.Int).SetUint64(w.U)) == 0
		}
		return false
	case "int":
		if n.Kind() != ipld.Kind_Int {
			return false
		}
		i, err := n.AsInt()
		return err == nil && big.NewInt(i).Cmp(big.NewInt(w.I)) == 0
	case "float":
		if n.Kind() != ipld.Kind_Float {
			return false
		}
		f, _ := n.AsFloat()
		wf := w.Float64()
		return f == wf || (math.IsNaN(f) && math.IsNaN(wf))
	case "list":
		if n.Kind() != ipld.Kind_List || n.Length() != int64(len(w.L)) {
			return false
		}
		for i, e := range w.L {
			x, _ := n.LookupByIndex(int64(i))
			if !exactEqual(x, e) {
				return false
			}
		}
		return true
	case "map":
		if n.Kind() != ipld.Kind_Map || n.Length() != int64(len(w.M)) {
			return false
		}
		for _, e := range w.M {
			x, err := n.LookupByString(e.K)
			if err != nil || !exactEqual(x, e.V) {
				return false
			}
		}
		return true
	}
	return val.EqualNodes(n, w.Node())
}

type ValCase struct {
	V   GoVal  `json:"v"`
	API string `json:"api"` // args | meta | any | list | map
}

func magnitude(g GoVal) string {
	switch {
	case strings.HasPrefix(g.T, "int") || g.T == "myInt":
		a := g.I
		if a < 0 {
			a = -a
		}
		switch {
		case g.I == math.MinInt64:
			return "min64"
		case a > maxSafe:
			return ">2^53"
		case a == maxSafe:
			return "=2^53-1"
		}
		return "small"
	case strings.HasPrefix(g.T, "uint") || g.T == "myUint":
		switch {
		case g.U > math.MaxInt64:
			return ">2^63"
		case g.U > maxSafe:
			return ">2^53"
		case g.U == maxSafe:
			return "=2^53-1"
		}
		return "small"
	}
	return "-"
}

func runVal(c *h.Ctx, vc ValCase) {
	v, want, mustReject, spec := vc.V.build()
	var node ipld.Node
	var err error
	storedAfterReject := ""
	pn, pv, _ := h.Try(func() {
		switch vc.API {
		case "args":
			a := args.New()
			if err = a.Add("k", v); err == nil {
				node, err = a.GetNode("k")
			} else if n, gerr := a.GetNode("k"); gerr == nil || len(a.Keys) != 0 {
				// "rejected" means not stored: the caller goes on using the same Args for the values that were accepted
				storedAfterReject = fmt.Sprintf("args.Add returned %v, yet the Args holds key k = %v (keys %v)", err, n != nil, a.Keys)
			}
		case "meta":
			m := meta.NewMeta()
			if err = m.Add("k", v); err == nil {
				node, err = m.GetNode("k")
			} else if n, gerr := m.GetNode("k"); gerr == nil || len(m.Keys) != 0 {
				storedAfterReject = fmt.Sprintf("meta.Add returned %v, yet the Meta holds key k = %v (keys %v)", err, n != nil, m.Keys)
			}
		case "args-builder":
			var a *args.Args
			if a, err = args.NewBuilder().Add("k", v).Build(); err == nil {
				node, err = a.GetNode("k")
			}
		case "args-builder-ipld":
			var n ipld.Node
			if n, err = args.NewBuilder().Add("j", int64(1)).Add("k", v).BuildIPLD(); err == nil {
				node, err = n.LookupByString("k")
			}
		case "with-argument":
			var iv *invocation.Token
			if iv, err = invocation.New(keys.Principal(0).DID, keys.Principal(1).DID, command.MustParse("/foo"), []cid.Cid{}, invocation.WithArgument("k", v)); err == nil {
				node, err = iv.Arguments().GetNode("k")
			}
		case "with-meta-inv":
			var iv *invocation.Token
			if iv, err = invocation.New(keys.Principal(0).DID, keys.Principal(1).DID, command.MustParse("/foo"), []cid.Cid{}, invocation.WithMeta("k", v)); err == nil {
				node, err = iv.Meta().GetNode("k")
			}
		case "with-meta-dlg":
			var d *delegation.Token
			if d, err = delegation.Root(keys.Principal(0).DID, keys.Principal(1).DID, command.MustParse("/foo"), policy.Policy{}, delegation.WithMeta("k", v)); err == nil {
				node, err = d.Meta().GetNode("k")
			}
		case "list":
			var l ipld.Node
			if l, err = literal.List([]any{v}); err == nil {
				node, err = l.LookupByIndex(0)
			}
		case "map":
			var m ipld.Node
			if m, err = literal.Map(map[string]any{"k": v}); err == nil {
				node, err = m.LookupByString("k")
			}
		default:
			node, err = literal.Any(v)
		}
	})
	if storedAfterReject != "" {
		c.Fail("C10/value/rejected-but-stored/"+vc.API, "%s (Go value %s %+v)", storedAfterReject, vc.V.T, vc.V)
		return
	}
	c.P.Class("val/type:" + vc.V.T)
	c.P.Class("val/api:" + vc.API)
	key := []any{"val", vc.V.T, magnitude(vc.V), vc.API, vc.V.Ptr, len(vc.V.L)}
	if vc.V.T != "int" && vc.V.T != "string" && vc.V.T != "bool" {
		c.P.NonTrivial(key, map[string]any{"go_value": vc.V, "api": vc.API, "must_reject": mustReject})
	}
	if pn {
		// literal.List / literal.Map document no error recovery of their own; a
		// panic there is a rejection of sorts but C09 owns crashes. For
		// Add/Any a panic is a failure to "store exactly or reject".
		c.P.PanicSeen()
		if vc.API == "list" || vc.API == "map" {
			return
		}
		c.Fail("C10/value/panic/"+vc.V.T, "%s(%s %+v) panicked: %v", vc.API, vc.V.T, vc.V, pv)
		return
	}
	if !spec {
		c.P.Unspecified()
		if err == nil && want != nil && !exactEqual(node, *want) {
			c.Fail("C10/value/altered/"+vc.V.T+"/"+magnitude(vc.V), "%s stored %s for Go value %s %+v", vc.API, val.FromNode(node), vc.V.T, vc.V)
		}
		return
	}
	if err != nil {
		if !mustReject && want != nil && !strings.Contains(vc.API, "meta") {
			// rejecting a representable value is allowed by "stored exactly or rejected"; only count it
			c.P.Class("val/rejected-representable:" + vc.V.T)
		}
		return
	}
	if want == nil {
		if mustReject {
			// accepted something that has no exact IPLD representation within the bounds:
			// for integers compare against the true mathematical value
			c.Fail("C10/value/altered/"+vc.V.T+"/"+magnitude(vc.V), "%s accepted Go value %s %+v, which cannot be stored exactly within +/-(2^53-1) (or has no IPLD form), and stored %s", vc.API, vc.V.T, vc.V, val.FromNode(node))
		}
		return
	}
	if !exactEqual(node, *want) {
		c.Fail("C10/value/altered/"+vc.V.T+"/"+magnitude(vc.V), "%s stored %s for Go value %s %+v (expected %s)", vc.API, val.FromNode(node), vc.V.T, vc.V, *want)
	}
}

var intEdges = []int64{0, 1, -1, 127, -128, 255, 32767, -32768, 65535, math.MaxInt32, math.MinInt32, math.MaxUint32, maxSafe - 1, maxSafe, maxSafe + 1, -maxSafe, -maxSafe - 1, math.MaxInt64, math.MinInt64, math.MaxInt64 - 1}
var uintEdges = []uint64{0, 1, 255, 256, 65535, 65536, math.MaxUint32, maxSafe - 1, maxSafe, maxSafe + 1, math.MaxInt64, math.MaxInt64 + 1, math.MaxUint64 - 4, math.MaxUint64}
var scalarTypes = []string{"int", "int8", "int16", "int32", "int64", "myInt", "uint", "uint8", "uint16", "uint32", "uint64", "uintptr", "myUint", "float64", "float32", "string", "myStr", "bool", "bytes", "nil", "struct", "chan", "func", "intkeymap", "nilptr", "loudInt", "loudStr", "loudSlice", "loudBool", "loudFloat", "jsonNumber", "duration", "nodeInt", "nodeUint", "nodeNested", "aliased"}

var numberTexts = []string{"0", "1", "-1", "-0", "9007199254740991", "9007199254740992", "-9007199254740992", "9223372036854775807", "9223372036854775808", "-9223372036854775808", "-9223372036854775809",
	"18446744073709551615", "18446744073709551616", "12345678901234567891", "100000000000000000000000000000000000000", "1e3", "1E2", "1.5", "0.1", "2.50", "1e400", "-1e400", "1e-400", "12345678901234567891.5",
	"", "abc", "1.2.3", "0x10", "1_000", " 1", "1 ", "+1", "٣", "NaN", "Infinity", "1e", "--1", "01", ".5", "5."}

func drawScalar(t *rapid.T, label string) GoVal {
	g := GoVal{T: rapid.SampledFrom(scalarTypes).Draw(t, label+"_t")}
	switch {
	case g.T == "jsonNumber":
		g.S = rapid.SampledFrom(numberTexts).Draw(t, label+"_num")
		if rapid.IntRange(0, 3).Draw(t, label+"_numr") == 0 {
			g.S = rapid.StringMatching(`-?[1-9][0-9]{0,24}(\.[0-9]{1,3})?(e[0-9]{1,2})?`).Draw(t, label+"_numx")
		}
	case g.T == "nodeUint" || g.T == "nodeNested":
		g.U = rapid.SampledFrom(uintEdges).Draw(t, label+"_nu")
		if g.T == "nodeNested" && rapid.Bool().Draw(t, label+"_nsigned") {
			g.U, g.I = 0, rapid.SampledFrom(intEdges).Draw(t, label+"_ni")
		}
	case strings.HasPrefix(g.T, "int") || g.T == "myInt" || g.T == "struct" || g.T == "bool" || g.T == "loudInt" || g.T == "loudBool" || g.T == "duration" || g.T == "nodeInt" || g.T == "aliased":
		if rapid.Bool().Draw(t, label+"_edge") {
			g.I = rapid.SampledFrom(intEdges).Draw(t, label+"_ie")
		} else {
			g.I = rapid.Int64().Draw(t, label+"_i")
		}
	case strings.HasPrefix(g.T, "uint") || g.T == "myUint":
		if rapid.Bool().Draw(t, label+"_edge") {
			g.U = rapid.SampledFrom(uintEdges).Draw(t, label+"_ue")
		} else {
			g.U = rapid.Uint64().Draw(t, label+"_u")
		}
	case strings.HasPrefix(g.T, "float") || g.T == "loudFloat":
		g.F = rapid.SampledFrom([]float64{0, 1, -1.5, 0.1, 1e-40, 3.4e38, 1e300, 16777217, math.MaxFloat32, math.SmallestNonzeroFloat64}).Draw(t, label+"_f")
	case g.T == "loudStr" || g.T == "loudSlice":
		g.S = rapid.SampledFrom([]string{"", "a", "héllo", "b,c"}).Draw(t, label+"_ls")
	case g.T == "string" || g.T == "myStr":
		switch rapid.IntRange(0, 3).Draw(t, label+"_smode") {
		case 0:
			g.S = rapid.SampledFrom([]string{"", "a", "héllo", "日本"}).Draw(t, label+"_s")
		case 1:
			g.S = rapid.String().Draw(t, label+"_sr")
		default:
			// a Go string is a byte string: Latin-1 text, a multi-byte rune cut short, lone continuation bytes,
			// overlong forms, surrogates - stored exactly or rejected, like everything else
			g.SB = rapid.SampledFrom([][]byte{[]byte("caf\xe9.txt"), {0xff}, {0xc3}, []byte("a\xe6\x97"), {0x80}, {0xc0, 0xaf}, {0xed, 0xa0, 0x80}, []byte("ok\xfe\xffend"), {0xf8, 0x88, 0x80, 0x80, 0x80}, {0x00}, []byte("a\x00b")}).Draw(t, label+"_sb")
			if rapid.Bool().Draw(t, label+"_sbr") {
				g.SB = rapid.SliceOfN(rapid.Byte(), 1, 6).Draw(t, label+"_sbb")
			}
		}
	case g.T == "bytes":
		g.B = rapid.SliceOfN(rapid.Byte(), 0, 5).Draw(t, label+"_b")
	}
	g.Ptr = rapid.IntRange(0, 7).Draw(t, label+"_ptr") == 0
	return g
}

func drawGoVal(t *rapid.T, depth int, label string) GoVal {
	if depth <= 0 || rapid.IntRange(0, 9).Draw(t, label+"_leaf") < 6 {
		return drawScalar(t, label)
	}
	g := GoVal{T: rapid.SampledFrom([]string{"slice", "array3", "map", "intslice", "uintslice"}).Draw(t, label+"_ct")}
	n := rapid.IntRange(0, 3).Draw(t, label+"_n")
	for i := 0; i < n; i++ {
		switch g.T {
		case "intslice":
			g.L = append(g.L, GoVal{T: "int64", I: rapid.SampledFrom(intEdges).Draw(t, label+"_ii")})
		case "uintslice":
			g.L = append(g.L, GoVal{T: "uint", U: rapid.SampledFrom(uintEdges).Draw(t, label+"_uu")})
		default:
			e := drawGoVal(t, depth-1, label+"c")
			e.Ptr = false
			g.L = append(g.L, e)
			g.K = append(g.K, rapid.SampledFrom([]string{"a", "b", "aa", "é", ""}).Draw(t, label+"_k"))
		}
	}
	return g
}

var valProp = h.Define(P, "values", func(t *rapid.T) ValCase {
	return ValCase{V: drawGoVal(t, 2, "v"), API: rapid.SampledFrom([]string{"args", "meta", "any", "any", "list", "map", "args-builder", "args-builder-ipld", "with-argument", "with-meta-inv", "with-meta-dlg"}).Draw(t, "api")}
}, runVal)

func TestValues(t *testing.T) { valProp.Check(t) }

// TestValueEdges: every integer type at every edge through every API.
func TestValueEdges(t *testing.T) {
	for _, api := range []string{"args", "meta", "any", "list", "map", "args-builder", "args-builder-ipld", "with-argument", "with-meta-inv", "with-meta-dlg"} {
		for _, ty := range []string{"int", "int8", "int16", "int32", "int64", "myInt"} {
			for _, e := range intEdges {
				for _, ptr := range []bool{false, true} {
					valProp.One(t, ValCase{V: GoVal{T: ty, I: e, Ptr: ptr}, API: api})
				}
			}
		}
		for _, ty := range []string{"uint", "uint8", "uint16", "uint32", "uint64", "uintptr", "myUint"} {
			for _, e := range uintEdges {
				for _, ptr := range []bool{false, true} {
					valProp.One(t, ValCase{V: GoVal{T: ty, U: e, Ptr: ptr}, API: api})
				}
				valProp.One(t, ValCase{V: GoVal{T: "uintslice", L: []GoVal{{T: "uint", U: e}}}, API: api})
				valProp.One(t, ValCase{V: GoVal{T: "map", L: []GoVal{{T: ty, U: e}}, K: []string{"x"}}, API: api})
			}
		}
		for k := int64(0); k < 4; k++ {
			valProp.One(t, ValCase{V: GoVal{T: "aliased", I: k}, API: api})
		}
		// prebuilt IPLD nodes holding integers at every edge, alone and nested
		for _, e := range intEdges {
			valProp.One(t, ValCase{V: GoVal{T: "nodeInt", I: e}, API: api})
			valProp.One(t, ValCase{V: GoVal{T: "nodeNested", I: e}, API: api})
		}
		for _, e := range uintEdges {
			valProp.One(t, ValCase{V: GoVal{T: "nodeUint", U: e}, API: api})
			valProp.One(t, ValCase{V: GoVal{T: "nodeNested", U: e}, API: api})
		}
		// numbers of a JSON document, alone and nested, through every API
		for _, nt := range numberTexts {
			lv := GoVal{T: "jsonNumber", S: nt}
			valProp.One(t, ValCase{V: lv, API: api})
			valProp.One(t, ValCase{V: GoVal{T: "slice", L: []GoVal{lv}, K: []string{"x"}}, API: api})
			valProp.One(t, ValCase{V: GoVal{T: "map", L: []GoVal{lv, {T: "duration", I: 1500}}, K: []string{"x", "d"}}, API: api})
		}
		// the loud types, alone and nested, through every API
		for _, lv := range []GoVal{{T: "loudInt", I: 4}, {T: "loudInt", I: -1}, {T: "loudInt", I: maxSafe + 1}, {T: "loudStr", S: "high"}, {T: "loudStr", S: ""}, {T: "loudSlice", S: "b"}, {T: "loudBool", I: 1}, {T: "loudBool", I: 0}, {T: "loudFloat", F: 2.5}} {
			for _, ptr := range []bool{false, true} {
				g := lv
				g.Ptr = ptr
				valProp.One(t, ValCase{V: g, API: api})
			}
			valProp.One(t, ValCase{V: GoVal{T: "slice", L: []GoVal{lv}, K: []string{"x"}}, API: api})
			valProp.One(t, ValCase{V: GoVal{T: "map", L: []GoVal{lv}, K: []string{"x"}}, API: api})
		}
	}
	P.SetExhaustive()
}

// ---------- histories: one argument object feeding several tokens ----------

type SharedCase struct {
	Base   int   `json:"base"`   // number of keys in the shared *args.Args (every count: slice capacities step at 1, 2, 4, 8 ...)
	Tokens int   `json:"tokens"` // number of invocations built from it
	Extra  []int `json:"extra"`  // per token: number of further WithArgument options after WithArguments(base)
	Later  int   `json:"later"`  // keys added to the base object itself after the tokens were built
	Style  int   `json:"style"`  // 0 WithArguments(base); 1 args.New().Include(base) handed over; 2 hook-style: clone of the first token's Arguments()
}

// runShared: a caller keeps ONE argument object and derives several invocations from it, each with arguments of
// its own on top. What each token stores is what it was given: building the next token, or extending the base
// afterwards, does not reach back into tokens that already exist.
func runShared(c *h.Ctx, sc SharedCase) {
	base := args.New()
	var baseKeys []string
	for i := 0; i < sc.Base; i++ {
		k := fmt.Sprintf("base%d", i)
		if err := base.Add(k, int64(i)); err != nil {
			c.Inconclusive("harness: %v", err)
		}
		baseKeys = append(baseKeys, k)
	}
	type made struct {
		tk   *invocation.Token
		want map[string]string
		keys []string
	}
	var ms []made
	for ti := 0; ti < sc.Tokens; ti++ {
		var opts []invocation.Option
		src := base
		switch sc.Style % 3 {
		case 1:
			src = args.New()
			src.Include(base)
		case 2:
			if len(ms) > 0 {
				src = args.New()
				src.Include(ms[0].tk.Arguments())
				// only the base part: drop the first token's own extras by rebuilding from the base when they exist
				if len(ms[0].keys) != len(baseKeys) {
					src = args.New()
					src.Include(base)
				}
			}
		}
		opts = append(opts, invocation.WithArguments(src), invocation.WithNonce(bytes.Repeat([]byte{byte(ti + 1)}, 12)))
		want := map[string]string{}
		ks := append([]string{}, baseKeys...)
		for i, k := range baseKeys {
			want[k] = fmt.Sprint(i)
		}
		nx := 1
		if len(sc.Extra) > 0 {
			nx = sc.Extra[ti%len(sc.Extra)]
		}
		for x := 0; x < nx; x++ {
			k := fmt.Sprintf("own%d_%d", ti, x)
			v := fmt.Sprintf("value-%d-%d", ti, x)
			opts = append(opts, invocation.WithArgument(k, v))
			want[k] = v
			ks = append(ks, k)
		}
		tk, err := invocation.New(keys.Principal(0).DID, keys.Principal(1).DID, command.MustParse("/foo"), []cid.Cid{}, opts...)
		if err != nil {
			c.Fail("C10/shared-base/constructor-rejected", "invocation.New with WithArguments(base of %d keys) + %d own arguments: %v", sc.Base, nx, err)
			return
		}
		ms = append(ms, made{tk, want, ks})
	}
	for i := 0; i < sc.Later; i++ {
		_ = base.Add(fmt.Sprintf("later%d", i), "added after the tokens were built")
	}
	for ti, m := range ms {
		got := map[string]string{}
		var gotKeys []string
		var perr any
		if pn, pv, _ := h.Try(func() {
			for k, v := range m.tk.Arguments().Iter() {
				gotKeys = append(gotKeys, k)
				switch {
				case v == nil:
					got[k] = "<nil>"
				case v.Kind() == ipld.Kind_Int:
					x, _ := v.AsInt()
					got[k] = fmt.Sprint(x)
				case v.Kind() == ipld.Kind_String:
					x, _ := v.AsString()
					got[k] = x
				default:
					got[k] = "<" + v.Kind().String() + ">"
				}
			}
		}); pn {
			perr = pv
		}
		if perr != nil || fmt.Sprint(got) != fmt.Sprint(m.want) || len(gotKeys) != len(m.keys) {
			c.Fail("C10/shared-base/arguments-altered", "token %d of %d built from one shared base of %d keys (+%d added to the base later): its arguments are now %v (keys %v, panic %v); it was given %v", ti, len(ms), sc.Base, sc.Later, got, gotKeys, perr, m.want)
			return
		}
		var serr error
		if pn, pv, _ := h.Try(func() { _, _, serr = m.tk.ToSealed(keys.Principal(0).Priv) }); pn {
			c.Fail("C10/shared-base/seal-panics", "token %d of %d built from one shared base cannot be sealed any more: panic %v", ti, len(ms), pv)
			return
		}
		if serr != nil {
			c.Fail("C10/shared-base/seal-fails", "token %d of %d built from one shared base cannot be sealed: %v", ti, len(ms), serr)
			return
		}
		invariants(c, m.tk, false, "shared-base history")
	}
	c.P.Class(fmt.Sprintf("shared-base:keys=%d", sc.Base))
	c.P.NonTrivial([]any{"shared", sc.Base, sc.Tokens, sc.Extra, sc.Later, sc.Style % 3}, map[string]any{"kind": "shared-base", "case": sc})
}

var sharedProp = h.Define(P, "sharedbase", func(t *rapid.T) SharedCase {
	return SharedCase{Base: rapid.IntRange(0, 20).Draw(t, "base"), Tokens: rapid.IntRange(2, 4).Draw(t, "tokens"),
		Extra: rapid.SliceOfN(rapid.IntRange(0, 3), 1, 4).Draw(t, "extra"), Later: rapid.IntRange(0, 2).Draw(t, "later"), Style: rapid.IntRange(0, 2).Draw(t, "style")}
}, runShared)

func TestSharedBase(t *testing.T) { sharedProp.Check(t) }

// TestSharedBaseEnumerated: every base size 0..40 with 2 and 3 tokens, one own argument each.
func TestSharedBaseEnumerated(t *testing.T) {
	for n := 0; n <= 40; n++ {
		for _, k := range []int{2, 3} {
			for style := 0; style < 3; style++ {
				sharedProp.One(t, SharedCase{Base: n, Tokens: k, Extra: []int{1}, Style: style})
				sharedProp.One(t, SharedCase{Base: n, Tokens: k, Extra: []int{1, 2}, Later: 1, Style: style})
			}
		}
	}
}

// C20 — tokens are immutable: read-only use is race-free and repeatable.
package c20

import (
	"math"
	"github.com/ucan-wg/go-ucan/pkg/meta"
	"bytes"
	"fmt"
	"io"
	"os"
	"reflect"
	"sort"
	"strings"
	"sync"
	"testing"
	"time"
	"unsafe"

	"github.com/ipfs/go-cid"
	"github.com/ipld/go-ipld-prime"
	"pgregory.net/rapid"

	"github.com/ucan-wg/go-ucan/did"
	"github.com/ucan-wg/go-ucan/pkg/args"
	"github.com/ucan-wg/go-ucan/token/delegation"
	"github.com/ucan-wg/go-ucan/token/invocation"

	"verif/harness/chain"
	"verif/harness/h"
	_ "verif/harness/warm"
	"verif/harness/pol"
	"verif/harness/sel"
	"verif/harness/val"
)

var P = h.New("C20", "exploration",
	"case = a rule-conforming chain whose invocation carries 0..8 arguments and metadata keys inserted in a drawn order (mostly neither Go-sorted nor CBOR-canonical), tokens constructed or decoded, plus histories over the read-only operation alphabet {ExecutionAllowed, ExecutionAllowedWithArgsHook, ToSealed, ToDagCbor, ToDagJson, ToSealedWriter, every accessor, Arguments().{Iter,String,ToIPLD,Equals,GetNode}, Meta().{Iter,String,Get*}, Policy().{String,Match}, IsValidAt/Now} on the invocation and on the shared delegations. (a) sequential: a deep structural snapshot of every token (reflection over unexported fields: key slices, maps, IPLD nodes, times) taken before the history must equal the snapshot after EACH operation, and each operation must return the same result the second time. (b) concurrent (race-detector build): 2..8 goroutines run drawn histories on the same tokens; no data race, and every result equals the result of the same operation run alone on the same token beforehand. Non-trivial = the invocation has >= 2 argument or metadata keys whose insertion order differs from sorted order and the history contains a key-touching operation (and, for (b), >= 2 goroutines). Distinct by (key-order pattern, operation multiset, goroutine count).")

func TestMain(m *testing.M) { os.Exit(P.Main(m)) }
func TestReplay(t *testing.T) { P.Replay(t) }

// ---------- deep snapshot ----------

var (
	tTime = reflect.TypeOf(time.Time{})
	tCid  = reflect.TypeOf(cid.Cid{})
	tDID  = reflect.TypeOf(did.DID{})
	tNode = reflect.TypeOf((*ipld.Node)(nil)).Elem()
)

func snap(b *strings.Builder, v reflect.Value, depth int, seen map[uintptr]bool) {
	if depth > 12 {
		b.WriteString("<deep>")
		return
	}
	if !v.IsValid() {
		b.WriteString("<invalid>")
		return
	}
	if v.CanAddr() && !v.CanInterface() {
		v = reflect.NewAt(v.Type(), unsafe.Pointer(v.UnsafeAddr())).Elem()
	}
	t := v.Type()
	switch {
	case t == tTime:
		if v.CanInterface() {
			fmt.Fprintf(b, "time(%d)", v.Interface().(time.Time).UnixNano())
			return
		}
	case t == tCid:
		if v.CanInterface() {
			fmt.Fprintf(b, "cid(%s)", v.Interface().(cid.Cid).String())
			return
		}
	case t == tDID:
		if v.CanInterface() {
			fmt.Fprintf(b, "did(%s)", v.Interface().(did.DID).String())
			return
		}
	}
	if t.Implements(tNode) && v.CanInterface() && (v.Kind() != reflect.Ptr && v.Kind() != reflect.Interface || !v.IsNil()) {
		if n, ok := v.Interface().(ipld.Node); ok && n != nil {
			fmt.Fprintf(b, "node(%s)", val.FromNode(n).String())
			return
		}
	}
	switch v.Kind() {
	case reflect.Ptr:
		if v.IsNil() {
			b.WriteString("nil")
			return
		}
		if seen[v.Pointer()] {
			b.WriteString("<cycle>")
			return
		}
		seen[v.Pointer()] = true
		b.WriteString("&")
		snap(b, v.Elem(), depth+1, seen)
	case reflect.Interface:
		if v.IsNil() {
			b.WriteString("nil")
			return
		}
		fmt.Fprintf(b, "%s:", v.Elem().Type())
		e := v.Elem()
		if e.Kind() != reflect.Ptr && !e.CanAddr() {
			// copy into an addressable value so that unexported fields can be read
			c := reflect.New(e.Type()).Elem()
			c.Set(e)
			e = c
		}
		snap(b, e, depth+1, seen)
	case reflect.Struct:
		b.WriteString(t.Name() + "{")
		if !v.CanAddr() {
			c := reflect.New(t).Elem()
			c.Set(v)
			v = c
		}
		for i := 0; i < v.NumField(); i++ {
			b.WriteString(t.Field(i).Name + ":")
			snap(b, v.Field(i), depth+1, seen)
			b.WriteString(";")
		}
		b.WriteString("}")
	case reflect.Slice:
		if v.IsNil() {
			b.WriteString("nilslice")
			return
		}
		if t.Elem().Kind() == reflect.Uint8 {
			fmt.Fprintf(b, "bytes(%x)", v.Bytes())
			return
		}
		fmt.Fprintf(b, "[len=%d:", v.Len())
		for i := 0; i < v.Len(); i++ {
			snap(b, v.Index(i), depth+1, seen)
			b.WriteString(",")
		}
		// the spare capacity is memory of the token too: a read-only operation
		// that appends to a shared slice writes there
		if v.Cap() > v.Len() && v.Cap()-v.Len() <= 64 {
			full := v.Slice3(0, v.Cap(), v.Cap())
			b.WriteString("|spare:")
			for i := v.Len(); i < v.Cap(); i++ {
				snap(b, full.Index(i), depth+1, seen)
				b.WriteString(",")
			}
		}
		b.WriteString("]")
	case reflect.Array:
		b.WriteString("[")
		for i := 0; i < v.Len(); i++ {
			snap(b, v.Index(i), depth+1, seen)
			b.WriteString(",")
		}
		b.WriteString("]")
	case reflect.Map:
		if v.IsNil() {
			b.WriteString("nilmap")
			return
		}
		var parts []string
		it := v.MapRange()
		for it.Next() {
			var kb, vb strings.Builder
			snap(&kb, it.Key(), depth+1, seen)
			vv := it.Value()
			c := reflect.New(vv.Type()).Elem()
			c.Set(vv)
			snap(&vb, c, depth+1, seen)
			parts = append(parts, kb.String()+"=>"+vb.String())
		}
		sort.Strings(parts)
		b.WriteString("map{" + strings.Join(parts, ",") + "}")
	case reflect.String:
		fmt.Fprintf(b, "%q", v.String())
	case reflect.Bool:
		fmt.Fprint(b, v.Bool())
	case reflect.Int, reflect.Int8, reflect.Int16, reflect.Int32, reflect.Int64:
		fmt.Fprint(b, v.Int())
	case reflect.Uint, reflect.Uint8, reflect.Uint16, reflect.Uint32, reflect.Uint64, reflect.Uintptr:
		fmt.Fprint(b, v.Uint())
	case reflect.Float32, reflect.Float64:
		fmt.Fprint(b, v.Float())
	case reflect.UnsafePointer:
		// e.g. the word inside an atomic.Pointer: a hidden cache shows as nil -> address
		fmt.Fprintf(b, "uptr(%#x)", v.Pointer())
	default:
		fmt.Fprintf(b, "<%s>", v.Kind())
	}
}

// Snapshot renders the complete in-memory state of a token.
func Snapshot(tk any) string {
	var b strings.Builder
	snap(&b, reflect.ValueOf(tk), 0, map[uintptr]bool{})
	return b.String()
}

// ---------- operations ----------

type world struct {
	inv     *invocation.Token
	dlgs    []*delegation.Token
	cids    []cid.Cid
	loader  delegation.Loader
	cs      chain.Case
	data    ipld.Node
	alt     []val.KV  // alternative arguments: same keys, collections / strings of other lengths
	altData ipld.Node
}

// hiding is a loader from which one delegation has gone missing.
type hiding struct {
	inner  delegation.Loader
	hidden cid.Cid
}

func (l hiding) GetDelegation(c cid.Cid) (*delegation.Token, error) {
	if c == l.hidden {
		return nil, delegation.ErrDelegationNotFound
	}
	return l.inner.GetDelegation(c)
}

func errClass(err error) string {
	if err == nil {
		return "allowed"
	}
	return "denied"
}

var opNames = []string{"ExecutionAllowed/hook-adds-key", "ExecutionAllowed/hook-fresh-args", "ExecutionAllowed", "ExecutionAllowedWithArgsHook", "ExecutionAllowed/alt-args", "ExecutionAllowed/alt-args", "ExecutionAllowed/incomplete-loader", "dlg.Policy.Match/alt-data", "inv.ToSealed", "inv.ToDagCbor", "inv.ToDagJson", "inv.ToSealedWriter",
	"inv.accessors", "args.Iter", "args.String", "args.ToIPLD", "args.Equals", "args.GetNode", "args.WriteableClone",
	"meta.Iter", "meta.String", "meta.Get", "meta.GetEncrypted", "meta.GetEncrypted", "meta.GetBytes", "dlg.Meta.GetEncrypted", "inv.IsValid",
	"dlg.ToSealed", "dlg.ToDagJson", "dlg.accessors", "dlg.Policy.String", "dlg.Policy.Match", "dlg.Meta.String", "dlg.IsValid", "dlg.IsValidAt/what-if", "dlg.IsValidAt/what-if", "inv.IsValidAt/what-if", "args.Equals/other-order", "args.Equals/other-order", "meta.Equals/other-order",
	"args.Iter/same-sequence-again", "meta.Iter/same-sequence-again", "dlg.Meta.Iter/same-sequence-again",
	"inv.ToSealed/caller-overwrites-result", "inv.ToDagCbor/caller-overwrites-result", "inv.ToDagJson/caller-overwrites-result", "dlg.ToSealed/caller-overwrites-result", "dlg.ToDagCbor/caller-overwrites-result", "dlg.ToDagJson/caller-overwrites-result"}

// whatIfInstants: instants a caller may ask about that are NOT now (planning, auditing, pruning): the answers are
// facts about the token, asking changes nothing - in particular not what the token answers about other instants
func whatIfInstants() []time.Time {
	now := time.Now()
	return []time.Time{time.Unix(0, 0), time.Unix(-62135596800, 0), now.Add(-200 * 365 * 24 * time.Hour), now.Add(-5400 * time.Second), now, now.Add(5400 * time.Second),
		now.Add(48 * time.Hour), now.Add(200 * 365 * 24 * time.Hour), time.Unix(1<<40, 0), {}}
}

func whatIf(f func(time.Time) bool) string {
	out := ""
	for _, ti := range whatIfInstants() {
		if f(ti) {
			out += "1"
		} else {
			out += "0"
		}
	}
	return out
}

// aloneComparable: operations whose result does not depend on the wall clock or on signatures, so that the
// result inside a history can be compared with the result of the same operation run alone on a fresh world.
var aloneComparable = map[string]bool{"ExecutionAllowed/hook-adds-key": true, "ExecutionAllowed/hook-fresh-args": true, "ExecutionAllowed": true, "ExecutionAllowedWithArgsHook": true, "ExecutionAllowed/alt-args": true,
	"ExecutionAllowed/incomplete-loader": true, "dlg.Policy.Match/alt-data": true, "dlg.Policy.Match": true, "dlg.Policy.String": true,
	"args.Iter": true, "args.String": true, "args.ToIPLD": true, "args.GetNode": true, "args.WriteableClone": true, "meta.Iter": true, "meta.String": true, "meta.Get": true,
	"dlg.IsValidAt/what-if": true, "inv.IsValidAt/what-if": true, "dlg.IsValid": true, "inv.IsValid": true, "args.Equals/other-order": true, "meta.Equals/other-order": true}

var keyTouching = map[string]bool{"ExecutionAllowed/hook-adds-key": true, "ExecutionAllowed/hook-fresh-args": true, "ExecutionAllowed/alt-args": true, "ExecutionAllowed/incomplete-loader": true, "ExecutionAllowed": true, "ExecutionAllowedWithArgsHook": true, "inv.ToSealed": true, "inv.ToDagCbor": true, "inv.ToDagJson": true,
	"inv.ToSealedWriter": true, "args.Iter": true, "args.String": true, "args.ToIPLD": true, "args.Equals": true, "args.WriteableClone": true, "meta.Iter": true, "meta.String": true}

func sortedLines(s string) string {
	l := strings.Split(s, "\n")
	sort.Strings(l)
	return strings.Join(l, "\n")
}

// keeper holds on to byte slices that operations returned, the way a caller would, together with a private
// copy: a result must stay what it was while the caller holds it ("a result equivalent to the one it returns
// when run alone" - not one that turns into another call's result afterwards).
type keeper struct {
	live [][]byte
	copy [][]byte
	what []string
}

func (k *keeper) keep(what string, b []byte) {
	if k == nil || b == nil {
		return
	}
	k.live = append(k.live, b)
	k.copy = append(k.copy, append([]byte{}, b...))
	k.what = append(k.what, what)
	if len(k.live) > 64 {
		k.live, k.copy, k.what = k.live[1:], k.copy[1:], k.what[1:]
	}
}

func (k *keeper) changed() string {
	if k == nil {
		return ""
	}
	for i := range k.live {
		if !bytes.Equal(k.live[i], k.copy[i]) {
			return fmt.Sprintf("%s: was %.60q, now %.60q", k.what[i], k.copy[i], k.live[i])
		}
	}
	return ""
}

// scribble: the caller uses a buffer it was handed as its own - overwrites every byte and appends into whatever
// capacity lies behind it.
func scribble(b []byte) {
	for i := range b {
		b[i] ^= 0xa5
	}
	if cap(b) > len(b) {
		tail := b[len(b):cap(b)]
		for i := range tail {
			tail[i] = 0xee
		}
	}
}

// apply runs one operation and returns a canonical rendering of its result.
func (w *world) apply(op string, which int, k *keeper) (res string) {
	defer func() {
		if r := recover(); r != nil {
			res = fmt.Sprintf("panic: %v", r)
		}
	}()
	invPriv := chain.Prin(w.cs.Inv.Iss).Priv
	var d *delegation.Token
	var dl chain.Link
	if len(w.dlgs) > 0 {
		d = w.dlgs[which%len(w.dlgs)]
		dl = w.cs.Links[which%len(w.dlgs)]
	}
	switch op {
	case "ExecutionAllowed":
		return errClass(w.inv.ExecutionAllowed(w.loader))
	case "ExecutionAllowedWithArgsHook":
		return errClass(w.inv.ExecutionAllowedWithArgsHook(w.loader, func(ro args.ReadOnly) (*args.Args, error) { return ro.WriteableClone(), nil }))
	case "ExecutionAllowed/hook-adds-key":
		// a hook that enriches the signed arguments with a key of its own
		return errClass(w.inv.ExecutionAllowedWithArgsHook(w.loader, func(ro args.ReadOnly) (*args.Args, error) {
			a := ro.WriteableClone()
			if err := a.Add("origin-added-by-hook", "10.0.0.1"); err != nil {
				return nil, err
			}
			return a, nil
		}))
	case "ExecutionAllowed/hook-fresh-args":
		// ... or builds its own set from scratch, taking some of the signed values over
		return errClass(w.inv.ExecutionAllowedWithArgsHook(w.loader, func(ro args.ReadOnly) (*args.Args, error) {
			a := args.New()
			for k, v := range ro.Iter() {
				if err := a.Add(k, v); err != nil {
					return nil, err
				}
			}
			_ = a.Add("zz-extra", int64(which))
			return a, nil
		}))
	case "ExecutionAllowed/alt-args":
		return errClass(w.inv.ExecutionAllowedWithArgsHook(w.loader, func(ro args.ReadOnly) (*args.Args, error) { return chain.BuildArgs(w.alt) }))
	case "ExecutionAllowed/incomplete-loader":
		if len(w.cids) == 0 {
			return "no-delegation"
		}
		return errClass(w.inv.ExecutionAllowed(hiding{inner: w.loader, hidden: w.cids[which%len(w.cids)]}))
	case "dlg.Policy.Match/alt-data":
		if d == nil {
			return "no-delegation"
		}
		ok, _ := d.Policy().Match(w.altData)
		ok2, _ := d.Policy().PartialMatch(w.altData)
		return fmt.Sprint(ok, ok2)
	case "inv.ToSealed":
		b, c, err := w.inv.ToSealed(invPriv)
		k.keep(op, b)
		return fmt.Sprintf("%x %s %v", b, c, err)
	case "inv.ToSealed/caller-overwrites-result", "inv.ToDagCbor/caller-overwrites-result", "inv.ToDagJson/caller-overwrites-result":
		// what a sealing call hands back is the caller's: encrypting it in place, re-using it as a scratch buffer or
		// appending a trailer to it is no operation on the token. The result is rendered first, then overwritten.
		var b []byte
		var c cid.Cid
		var err error
		switch op {
		case "inv.ToSealed/caller-overwrites-result":
			b, c, err = w.inv.ToSealed(invPriv)
		case "inv.ToDagCbor/caller-overwrites-result":
			b, err = w.inv.ToDagCbor(invPriv)
		default:
			b, err = w.inv.ToDagJson(invPriv)
		}
		r := fmt.Sprintf("%x %s %v", b, c, err)
		scribble(b)
		return r
	case "meta.GetEncrypted":
		var sb strings.Builder
		for i, e := range w.cs.Inv.EncMeta {
			if (i+which)%2 == 0 {
				b, err := w.inv.Meta().GetEncryptedBytes(e.K, chain.EncKey(e.KeyByte))
				k.keep(op+"/"+e.K, b)
				sb.WriteString(fmt.Sprintf("%x %v;", b, err))
			} else {
				s, err := w.inv.Meta().GetEncryptedString(e.K, chain.EncKey(e.KeyByte))
				sb.WriteString(fmt.Sprintf("%x %v;", s, err))
			}
		}
		return sb.String()
	case "meta.GetBytes":
		var sb strings.Builder
		for _, e := range w.cs.Inv.EncMeta {
			b, err := w.inv.Meta().GetBytes(e.K)
			k.keep(op+"/"+e.K, b)
			sb.WriteString(fmt.Sprintf("%x %v;", b, err))
		}
		return sb.String()
	case "inv.ToDagCbor":
		b, err := w.inv.ToDagCbor(invPriv)
		return fmt.Sprintf("%x %v", b, err)
	case "inv.ToDagJson":
		b, err := w.inv.ToDagJson(invPriv)
		return fmt.Sprintf("%s %v", b, err)
	case "inv.ToSealedWriter":
		var buf bytes.Buffer
		c, err := w.inv.ToSealedWriter(&buf, invPriv)
		return fmt.Sprintf("%x %s %v", buf.Bytes(), c, err)
	case "inv.accessors":
		k.keep("inv.Nonce", w.inv.Nonce())
		return fmt.Sprint(w.inv.Issuer(), w.inv.Subject(), w.inv.Audience(), w.inv.Command(), w.inv.Proof(), fmt.Sprintf("%x", w.inv.Nonce()), w.inv.Expiration(), w.inv.InvokedAt() != nil, w.inv.Cause())
	case "args.Iter":
		var sb strings.Builder
		for k, n := range w.inv.Arguments().Iter() {
			sb.WriteString(k + "=" + val.FromNode(n).String() + ";")
		}
		return sb.String()
	case "args.Iter/same-sequence-again", "meta.Iter/same-sequence-again", "dlg.Meta.Iter/same-sequence-again":
		// ONE iterator value (an iter.Seq2 is a value a caller may keep, pass on and range over more than once):
		// ranged in full, ranged up to its second entry, ranged in full again, and by two goroutines at once - every
		// full pass yields what the first did
		var seq func(func(string, ipld.Node) bool)
		switch op {
		case "args.Iter/same-sequence-again":
			seq = w.inv.Arguments().Iter()
		case "meta.Iter/same-sequence-again":
			seq = w.inv.Meta().Iter()
		default:
			if d == nil {
				return "no-delegation"
			}
			seq = d.Meta().Iter()
		}
		pass := func(limit int) string {
			var sb strings.Builder
			i := 0
			for k, n := range seq {
				sb.WriteString(k + "=" + val.FromNode(n).String() + ";")
				i++
				if limit > 0 && i >= limit {
					break
				}
			}
			return sb.String()
		}
		first := pass(0)
		_ = pass(2)
		again := pass(0)
		var c1, c2 string
		var wg sync.WaitGroup
		wg.Add(2)
		go func() { defer wg.Done(); c1 = pass(0) }()
		go func() { defer wg.Done(); c2 = pass(0) }()
		wg.Wait()
		if again != first || c1 != first || c2 != first {
			return fmt.Sprintf("passes over one iterator value differ: first %q | after a partial pass %q | concurrent %q / %q", first, again, c1, c2)
		}
		return "same:" + first
	case "args.String":
		return w.inv.Arguments().String()
	case "args.ToIPLD":
		n, err := w.inv.Arguments().ToIPLD()
		if err != nil {
			return err.Error()
		}
		return val.FromNode(n).String()
	case "args.Equals":
		return fmt.Sprint(w.inv.Arguments().Equals(w.inv.Arguments()))
	case "args.Equals/other-order":
		// compared with the same argument set filled in the opposite order, and with a different set of the same
		// size (a comparison reads both sides)
		rev := args.New()
		for i := len(w.cs.Inv.Args) - 1; i >= 0; i-- {
			_ = rev.Add(w.cs.Inv.Args[i].K, w.cs.Inv.Args[i].V.Node())
		}
		oth := args.New()
		for i := len(w.cs.Inv.Args) - 1; i >= 0; i-- {
			_ = oth.Add(w.cs.Inv.Args[i].K+"~", w.cs.Inv.Args[i].V.Node())
		}
		return fmt.Sprint(w.inv.Arguments().Equals(rev.ReadOnly()), rev.ReadOnly().Equals(w.inv.Arguments()), w.inv.Arguments().Equals(oth.ReadOnly()))
	case "meta.Equals/other-order":
		rev := meta.NewMeta()
		var ks []string
		var vs []ipld.Node
		for k, v := range w.inv.Meta().Iter() {
			ks, vs = append(ks, k), append(vs, v)
		}
		for i := len(ks) - 1; i >= 0; i-- {
			_ = rev.Add(ks[i], vs[i])
		}
		return fmt.Sprint(w.inv.Meta().Equals(rev.ReadOnly()), rev.ReadOnly().Equals(w.inv.Meta()))
	case "args.GetNode":
		var sb strings.Builder
		for _, k := range []string{"a", "b", "zz", "n"} {
			n, err := w.inv.Arguments().GetNode(k)
			if err == nil {
				sb.WriteString(val.FromNode(n).String())
			} else {
				sb.WriteString("!")
			}
		}
		return sb.String()
	case "args.WriteableClone":
		c := w.inv.Arguments().WriteableClone()
		return fmt.Sprint(c.Keys)
	case "meta.Iter":
		var sb strings.Builder
		for k, n := range w.inv.Meta().Iter() {
			sb.WriteString(k + "=" + val.FromNode(n).String() + ";")
		}
		return sb.String()
	case "meta.String":
		return sortedLines(w.inv.Meta().String())
	case "meta.Get":
		s, e1 := w.inv.Meta().GetString("m0")
		_, e2 := w.inv.Meta().GetInt64("m0")
		_, e3 := w.inv.Meta().GetNode("zz")
		return fmt.Sprint(s, e1, e2, e3)
	case "inv.IsValid":
		return fmt.Sprint(w.inv.IsValidNow(), w.inv.IsValidAt(time.Unix(0, 0)))
	case "inv.IsValidAt/what-if":
		return whatIf(w.inv.IsValidAt)
	}
	if d == nil {
		return "no-delegation"
	}
	priv := chain.Prin(dl.Iss).Priv
	switch op {
	case "dlg.ToSealed":
		b, c, err := d.ToSealed(priv)
		k.keep(op, b)
		return fmt.Sprintf("%x %s %v", b, c, err)
	case "dlg.ToSealed/caller-overwrites-result", "dlg.ToDagCbor/caller-overwrites-result", "dlg.ToDagJson/caller-overwrites-result":
		var b []byte
		var c cid.Cid
		var err error
		switch op {
		case "dlg.ToSealed/caller-overwrites-result":
			b, c, err = d.ToSealed(priv)
		case "dlg.ToDagCbor/caller-overwrites-result":
			b, err = d.ToDagCbor(priv)
		default:
			b, err = d.ToDagJson(priv)
		}
		r := fmt.Sprintf("%x %s %v", b, c, err)
		scribble(b)
		return r
	case "dlg.Meta.GetEncrypted":
		var sb strings.Builder
		for _, e := range dl.EncMeta {
			b, err := d.Meta().GetEncryptedBytes(e.K, chain.EncKey(e.KeyByte))
			k.keep(op+"/"+e.K, b)
			sb.WriteString(fmt.Sprintf("%x %v;", b, err))
		}
		return sb.String()
	case "dlg.ToDagJson":
		b, err := d.ToDagJson(priv)
		return fmt.Sprintf("%s %v", b, err)
	case "dlg.accessors":
		k.keep("dlg.Nonce", d.Nonce())
		return fmt.Sprint(d.Issuer(), d.Audience(), d.Subject(), d.Command(), fmt.Sprintf("%x", d.Nonce()), d.NotBefore(), d.Expiration())
	case "dlg.Policy.String":
		return d.Policy().String()
	case "dlg.Policy.Match":
		ok, _ := d.Policy().Match(w.data)
		ok2, _ := d.Policy().PartialMatch(w.data)
		return fmt.Sprint(ok, ok2)
	case "dlg.Meta.String":
		return sortedLines(d.Meta().String())
	case "dlg.IsValid":
		return fmt.Sprint(d.IsValidNow(), d.IsValidAt(time.Unix(0, 0)))
	case "dlg.IsValidAt/what-if":
		return whatIf(d.IsValidAt)
	}
	return "unknown-op"
}

func build(cs chain.Case, alt []val.KV) (*world, error) {
	b, err := chain.Build(cs)
	if err != nil {
		return nil, err
	}
	if alt == nil {
		alt = cs.Inv.Args
	}
	return &world{inv: b.Inv, dlgs: b.Dlgs, cids: b.Cids, loader: b.Loader, cs: cs, data: val.V{K: "map", M: cs.Inv.Args}.Node(),
		alt: alt, altData: val.V{K: "map", M: alt}.Node()}, nil
}

// ---------- cases ----------

type Step struct {
	Op    string `json:"op"`
	Which int    `json:"which,omitempty"`
}

type SeqCase struct {
	Chain chain.Case `json:"chain"`
	Alt   []val.KV   `json:"alt_args,omitempty"`
	Hist  []Step     `json:"hist"`
}

type ConcCase struct {
	Chain chain.Case `json:"chain"`
	Alt   []val.KV   `json:"alt_args,omitempty"`
	Hists [][]Step   `json:"hists"`
}

func unsortedKeys(kvs []val.KV) bool {
	ks := make([]string, len(kvs))
	for i, e := range kvs {
		ks[i] = e.K
	}
	return len(ks) >= 2 && !sort.StringsAreSorted(ks)
}

// richValue draws a collection / string of the given size for the argument named k.
func richValue(t *rapid.T, k string, n int) val.V {
	switch k {
	case "l":
		l := val.V{K: "list"}
		for i := 0; i < n; i++ {
			l.L = append(l.L, val.Int(int64(i%3)))
		}
		return l
	case "to":
		l := val.V{K: "list"}
		for i := 0; i < n; i++ {
			l.L = append(l.L, val.Str(fmt.Sprintf("u%d@example.com", i)))
		}
		return l
	case "s":
		return val.Str(strings.Repeat("aé", n)[:0] + strings.Repeat("x", n))
	case "by":
		return val.Bytes(make([]byte, n))
	default:
		m := val.V{K: "map"}
		for i := 0; i < n; i++ {
			m.M = append(m.M, val.KV{K: fmt.Sprintf("k%d", i), V: val.List(val.Int(int64(i)))})
		}
		return m
	}
}

func drawChain(t *rapid.T) (chain.Case, []val.KV) {
	cs := chain.DrawConforming(t, chain.GenOpt{MaxLen: 3, Commands: true, Policies: true, Args: true, Irrelevant: true, Times: rapid.Bool().Draw(t, "times")})
	cs.Inv.UcanArg = 0 // the "ucan" argument names a proof CID, which differs between two builds under randomised signatures: not comparable "alone"
	if rapid.IntRange(0, 3).Draw(t, "deviate") == 1 {
		// a chain that must be refused, in any of the ways a chain can be wrong (proofs in another order, a link
		// about someone else, a missing proof, ...): a refusal leaves the tokens exactly as an approval does
		chain.ApplyPrincipalDeviation(t, &cs, rapid.SampledFrom(chain.PrincipalDeviations).Draw(t, "devkind"))
	}
	var alt []val.KV
	if rapid.Bool().Draw(t, "rich") {
		// arguments holding collections and strings, an alternative argument set in which the same keys hold
		// values of other lengths, and policies drawn from the full grammar over them (slices and indexes with
		// negative bounds, iterators, quantifiers, like): the chain need not be conforming here, a denial is as
		// good a result as an approval - it must be the same result every time, and nothing may be written to
		have := map[string]bool{}
		for _, e := range cs.Inv.Args {
			have[e.K] = true
		}
		for _, k := range []string{"l", "to", "s", "by", "mm"} {
			if have[k] || rapid.IntRange(0, 3).Draw(t, "rich_"+k) == 0 {
				continue
			}
			cs.Inv.Args = append(cs.Inv.Args, val.KV{K: k, V: richValue(t, k, rapid.IntRange(0, 5).Draw(t, "rich_n_"+k))})
		}
		for _, e := range cs.Inv.Args {
			switch e.K {
			case "l", "to", "s", "by", "mm":
				if e.V.K == "list" || e.V.K == "str" || e.V.K == "bytes" || e.V.K == "map" {
					alt = append(alt, val.KV{K: e.K, V: richValue(t, e.K, rapid.IntRange(0, 6).Draw(t, "alt_n_"+e.K))})
					continue
				}
			}
			alt = append(alt, e)
		}
		if len(cs.Links) > 0 && rapid.IntRange(0, 14).Draw(t, "huge") == 0 {
			// one unusually large (but legal) check: a list argument of tens of thousands of elements under a
			// quantifier. Alone it passes; it must pass just the same while other checks run
			n := rapid.SampledFrom([]int{1000, 34000, 40000}).Draw(t, "hugen")
			big := val.V{K: "list"}
			for i := 0; i < n; i++ {
				big.L = append(big.L, val.Int(int64(i%5)))
			}
			cs.Inv.Args = append(cs.Inv.Args, val.KV{K: "big", V: big})
			alt = append(alt, val.KV{K: "big", V: big})
			zero := val.Int(0)
			q := pol.Stmt{Op: "all", Sel: sel.Sel{{Kind: "field", Name: "big"}}, Sub: []pol.Stmt{{Op: ">=", Sel: sel.Sel{{Kind: "id"}}, Lit: &zero}}}
			li := rapid.IntRange(0, len(cs.Links)-1).Draw(t, "hugelink")
			cs.Links[li].Pol = append(append(pol.Policy{}, cs.Links[li].Pol...), q)
			cs.Links[li].Decoded = false
			cs.Inv.Decoded = false
		}
		data := val.V{K: "map", M: cs.Inv.Args}
		for i := range cs.Links {
			if rapid.Bool().Draw(t, "richpol") && len(cs.Inv.Args) < 12 {
				cs.Links[i].Pol = pol.Gen(t, data, pol.GenCfg{Depth: 2, MaxStmt: 3, SelCfg: sel.GenCfg{MaxSegs: 3}}, fmt.Sprintf("rp%d", i))
				cs.Links[i].PolIPLD = true
			}
		}
	}
	// arguments / metadata in a drawn (mostly unsorted) order
	keys := []string{"zz", "b", "aa", "a", "n", "é", "m", "c"}
	n := rapid.IntRange(0, 8).Draw(t, "nargs")
	perm := rapid.Permutation(keys).Draw(t, "argorder")
	have := map[string]bool{}
	for _, e := range cs.Inv.Args {
		have[e.K] = true
	}
	for _, k := range perm[:n] {
		if !have[k] {
			cs.Inv.Args = append(cs.Inv.Args, val.KV{K: k, V: val.Int(int64(len(k)))})
		}
	}
	if rapid.IntRange(0, 2).Draw(t, "numberforms") == 1 {
		// values whose wire form has more than one spelling in some codec - a float with an integral value (2.0, -0.0,
		// 1e15), alone and nested - as arguments and as metadata: what the token holds is what it was given, before
		// and after it has been encoded
		for _, e := range []val.KV{{K: "ratio", V: val.Float(2)}, {K: "neg0", V: val.Float(math.Copysign(0, -1))}, {K: "big", V: val.Float(1e15)}, {K: "nestf", V: val.List(val.Float(3), val.Map(val.E("f", val.Float(4))))}} {
			if !have[e.K] && rapid.Bool().Draw(t, "nf_"+e.K) {
				cs.Inv.Args = append(cs.Inv.Args, e)
				have[e.K] = true
			}
		}
	}
	nm := rapid.IntRange(0, 4).Draw(t, "nmeta")
	cs.Inv.Meta = nil
	mperm := rapid.Permutation([]string{"m0", "z", "b", "aa"}).Draw(t, "metaorder")
	for _, k := range mperm[:nm] {
		cs.Inv.Meta = append(cs.Inv.Meta, val.KV{K: k, V: val.Str("v" + k)})
	}
	if rapid.IntRange(0, 3).Draw(t, "metafloat") == 2 {
		cs.Inv.Meta = append(cs.Inv.Meta, val.KV{K: "mf", V: val.Float(5)})
	}
	cs.Inv.TypedArg = rapid.IntRange(0, 5).Draw(t, "typedarg") == 3
	if cs.Inv.TypedArg {
		cs.Inv.Decoded = false // a decoded token holds plain nodes only
	}
	if rapid.Bool().Draw(t, "encmeta") {
		ne := rapid.IntRange(1, 3).Draw(t, "nenc")
		for i := 0; i < ne; i++ {
			cs.Inv.EncMeta = append(cs.Inv.EncMeta, chain.EncKV{K: fmt.Sprintf("enc%d", i), Plain: fmt.Sprintf("secret-%d-%s", i, strings.Repeat("x", i*7)), KeyByte: byte(i + 1)})
		}
		for j := range cs.Links {
			if rapid.Bool().Draw(t, "lenc") {
				cs.Links[j].EncMeta = []chain.EncKV{{K: "e0", Plain: "delegated secret A", KeyByte: 7}, {K: "e1", Plain: "another one, longer than the first", KeyByte: 7}}
			}
		}
	}
	for i := range cs.Links {
		cs.Links[i].SpareCap = rapid.Bool().Draw(t, "sparecap")
		cs.Links[i].Decoded = cs.Links[i].Decoded && !cs.Links[i].SpareCap
	}
	return cs, alt
}

func drawHist(t *rapid.T, label string, max int) []Step {
	n := rapid.IntRange(1, max).Draw(t, label+"_n")
	var out []Step
	for i := 0; i < n; i++ {
		out = append(out, Step{Op: rapid.SampledFrom(opNames).Draw(t, label+"_op"), Which: rapid.IntRange(0, 3).Draw(t, label+"_w")})
	}
	return out
}

func mutated(before, after string) string {
	// point at the first difference
	i := 0
	for i < len(before) && i < len(after) && before[i] == after[i] {
		i++
	}
	lo := i - 60
	if lo < 0 {
		lo = 0
	}
	hi := i + 60
	return fmt.Sprintf("first difference at byte %d:\n  before ...%s...\n  after  ...%s...", i, before[lo:min(hi, len(before))], after[lo:min(hi, len(after))])
}

func allSnaps(w *world) []string {
	out := []string{Snapshot(w.inv)}
	for _, d := range w.dlgs {
		out = append(out, Snapshot(d))
	}
	return out
}

func runSeq(c *h.Ctx, sc SeqCase) {
	w, err := build(sc.Chain, sc.Alt)
	if err != nil {
		c.P.Class("build-error")
		return
	}
	if sc.Alt != nil {
		c.P.Class("rich")
	}
	before := allSnaps(w)
	touch := false
	ops := map[string]int{}
	kp := &keeper{}
	for i, st := range sc.Hist {
		r1 := w.apply(st.Op, st.Which, kp)
		if strings.HasPrefix(r1, "passes over one iterator value differ") {
			c.Fail("C20/iterator-not-repeatable/"+st.Op, "operation %d (%s): %s", i, st.Op, r1)
			return
		}
		if ch := kp.changed(); ch != "" {
			c.Fail("C20/returned-value-changed-by/"+st.Op, "a byte slice returned by an earlier operation changed when operation %d (%s) ran:\n%s", i, st.Op, ch)
			return
		}
		after := allSnaps(w)
		for j := range before {
			if after[j] != before[j] {
				what := "invocation"
				if j > 0 {
					what = fmt.Sprintf("delegation %d", j-1)
				}
				c.Fail("C20/mutated-by/"+st.Op, "operation %d (%s) changed the %s token:\n%s", i, st.Op, what, mutated(before[j], after[j]))
				return
			}
		}
		r2 := w.apply(st.Op, st.Which, kp)
		if !equivalent(st.Op, sc.Chain, r1, r2) {
			c.Fail("C20/not-repeatable/"+st.Op, "operation %s returned a different result the second time:\n 1st %.300s\n 2nd %.300s", st.Op, r1, r2)
			return
		}
		// "each returns a result equivalent to the one it returns when run alone": a fresh world built from
		// the same description, this one operation only
		// (freshly built tokens carry freshly encrypted metadata: ciphertexts differ by design, C19)
		freshDiffers := len(sc.Chain.Inv.EncMeta) > 0 && (st.Op == "meta.Iter" || st.Op == "meta.String")
		if aloneComparable[st.Op] && i > 0 && !freshDiffers {
			if fw, err := build(sc.Chain, sc.Alt); err == nil {
				if ra := fw.apply(st.Op, st.Which, nil); ra != r1 {
					c.Fail("C20/differs-from-alone/"+st.Op, "operation %d (%s) returned, after the %d operations before it,\n   %.300s\nwhile the same operation run alone on freshly built tokens returns\n   %.300s\nhistory so far: %v", i, st.Op, i, r1, ra, sc.Hist[:i+1])
					return
				}
			}
		}
		if keyTouching[st.Op] {
			touch = true
		}
		ops[st.Op]++
		c.P.Class("op:" + st.Op)
	}
	if ((unsortedKeys(sc.Chain.Inv.Args) || unsortedKeys(sc.Chain.Inv.Meta)) && touch) || (sc.Alt != nil && ops["ExecutionAllowed/alt-args"]+ops["dlg.Policy.Match/alt-data"] > 0) {
		c.P.NonTrivial([]any{"seq", keyPattern(sc.Chain), ops}, map[string]any{"mode": "sequential", "arg_keys": argKeys(sc.Chain), "meta_keys": metaKeys(sc.Chain), "history": sc.Hist, "decoded_invocation": sc.Chain.Inv.Decoded})
	}
}

// equivalent: results compare equal, except for signing operations under a
// randomised signature scheme (only Ed25519 principals are used by the chain
// generator, so signatures are deterministic) .
func equivalent(op string, cs chain.Case, a, b string) bool { return a == b }

func argKeys(cs chain.Case) []string {
	var out []string
	for _, e := range cs.Inv.Args {
		out = append(out, e.K)
	}
	return out
}
func metaKeys(cs chain.Case) []string {
	var out []string
	for _, e := range cs.Inv.Meta {
		out = append(out, e.K)
	}
	return out
}
func keyPattern(cs chain.Case) string {
	return strings.Join(argKeys(cs), ",") + "|" + strings.Join(metaKeys(cs), ",") + fmt.Sprint(cs.Inv.Decoded, len(cs.Links))
}

var seqProp = h.Define(P, "sequential", func(t *rapid.T) SeqCase {
	cs, alt := drawChain(t)
	return SeqCase{Chain: cs, Alt: alt, Hist: drawHist(t, "h", 12)}
}, runSeq)

func TestSequential(t *testing.T) { seqProp.Check(t) }

func runConc(c *h.Ctx, cc ConcCase) {
	w, err := build(cc.Chain, cc.Alt)
	if err != nil {
		c.P.Class("build-error")
		return
	}
	// expected results: the same operations run alone (sequentially, before any
	// goroutine starts) on the same tokens. A separately constructed copy would
	// differ in wall-clock derived fields (iat) when the two constructions
	// straddle a second boundary.
	before := allSnaps(w)
	expected := make([][]string, len(cc.Hists))
	for g, hist := range cc.Hists {
		for _, st := range hist {
			expected[g] = append(expected[g], w.apply(st.Op, st.Which, nil))
		}
	}
	got := make([][]string, len(cc.Hists))
	kps := make([]*keeper, len(cc.Hists))
	changedBy := make([]string, len(cc.Hists))
	for g := range kps {
		kps[g] = &keeper{}
	}
	var wg sync.WaitGroup
	start := make(chan struct{})
	for g, hist := range cc.Hists {
		wg.Add(1)
		go func(g int, hist []Step) {
			defer wg.Done()
			<-start
			for _, st := range hist {
				got[g] = append(got[g], w.apply(st.Op, st.Which, kps[g]))
				if ch := kps[g].changed(); ch != "" && changedBy[g] == "" {
					changedBy[g] = st.Op + ": " + ch
				}
			}
		}(g, hist)
	}
	close(start)
	wg.Wait()
	touch := false
	ops := map[string]int{}
	for g := range changedBy {
		if changedBy[g] != "" {
			c.Fail("C20/returned-value-changed-by/concurrent-history", "goroutine %d: a byte slice returned by an earlier operation changed while other goroutines read the same tokens: %s", g, changedBy[g])
			return
		}
	}
	for g, hist := range cc.Hists {
		for i, st := range hist {
			if got[g][i] != expected[g][i] {
				c.Fail("C20/concurrent-result-differs/"+st.Op, "goroutine %d, step %d (%s): result under concurrency differs from the result of the same operation run alone:\n concurrent %.300s\n alone      %.300s", g, i, st.Op, got[g][i], expected[g][i])
				return
			}
			if keyTouching[st.Op] {
				touch = true
			}
			ops[st.Op]++
		}
	}
	after := allSnaps(w)
	for j := range before {
		if after[j] != before[j] {
			c.Fail("C20/mutated-by/concurrent-history", "the concurrent histories changed token %d:\n%s", j, mutated(before[j], after[j]))
			return
		}
	}
	c.P.Class(fmt.Sprintf("goroutines=%d", len(cc.Hists)))
	if (unsortedKeys(cc.Chain.Inv.Args) || unsortedKeys(cc.Chain.Inv.Meta)) && touch && len(cc.Hists) >= 2 {
		c.P.NonTrivial([]any{"conc", keyPattern(cc.Chain), ops, len(cc.Hists)}, map[string]any{"mode": "concurrent", "goroutines": len(cc.Hists), "arg_keys": argKeys(cc.Chain), "meta_keys": metaKeys(cc.Chain), "histories": cc.Hists})
	}
}

var concProp = h.Define(P, "concurrent", func(t *rapid.T) ConcCase {
	cs, alt := drawChain(t)
	cc := ConcCase{Chain: cs, Alt: alt}
	g := rapid.IntRange(2, 8).Draw(t, "goroutines")
	for i := 0; i < g; i++ {
		cc.Hists = append(cc.Hists, drawHist(t, fmt.Sprintf("g%d", i), 6))
	}
	return cc
}, runConc)

func TestConcurrent(t *testing.T) { concProp.Check(t) }

var _ = io.Discard

// TestConcurrentHeavy: fixed histories in which one unusually large (but legal) check - a list argument of tens of
// thousands of elements under a quantifier - overlaps with ordinary ones on the same tokens. Alone every check
// passes; it passes just the same in company. (The random histories draw such a case only now and then.)
func TestConcurrentHeavy(t *testing.T) {
	zero := val.Int(0)
	for _, n := range []int{34000, 40000, 70000} {
		big := val.V{K: "list"}
		for i := 0; i < n; i++ {
			big.L = append(big.L, val.Int(int64(i%5)))
		}
		q := pol.Stmt{Op: "all", Sel: sel.Sel{{Kind: "field", Name: "big"}}, Sub: []pol.Stmt{{Op: ">=", Sel: sel.Sel{{Kind: "id"}}, Lit: &zero}}}
		args := []val.KV{{K: "a", V: val.Int(1)}, {K: "big", V: big}}
		cs := chain.Case{Links: []chain.Link{{Iss: 1, Aud: 2, Sub: 0, Cmd: "/", Pol: pol.Policy{q}}, {Iss: 0, Aud: 1, Sub: 0, Cmd: "/"}},
			Inv: chain.Inv{Iss: 2, Sub: 0, Aud: -1, Cmd: "/x", NonceLen: 12, Args: args}}
		var hists [][]Step
		for g := 0; g < 6; g++ {
			hists = append(hists, []Step{{Op: "ExecutionAllowed"}, {Op: "ExecutionAllowedWithArgsHook"}, {Op: "dlg.Policy.Match", Which: g % 2}, {Op: "ExecutionAllowed/alt-args"}, {Op: "ExecutionAllowed"}})
		}
		for rep := 0; rep < 3; rep++ {
			concProp.One(t, ConcCase{Chain: cs, Alt: args, Hists: hists})
		}
	}
}

// Package api lists EVERY public decode and encode entry point of the token
// packages (generic token.*, typed delegation.* / invocation.*), so that the
// checks quantify over all of them instead of the handful each one happened to
// name: a change confined to one of the less used entry points (DecodeReader,
// FromDagCborReader, EncodeWriter ...) is otherwise invisible.
package api

import (
	"bytes"
	"io"

	"github.com/ipfs/go-cid"
	"github.com/ipld/go-ipld-prime"
	"github.com/ipld/go-ipld-prime/codec"
	"github.com/ipld/go-ipld-prime/codec/dagcbor"
	"github.com/ipld/go-ipld-prime/codec/dagjson"
	"github.com/libp2p/go-libp2p/core/crypto"

	"github.com/ucan-wg/go-ucan/token"
	"github.com/ucan-wg/go-ucan/token/delegation"
	"github.com/ucan-wg/go-ucan/token/invocation"
)

// Decoder is one decode entry point. Family: "sealed" (DAG-CBOR, reports a CID), "dagcbor", "dagjson".
// Typed: "" generic, "dlg", "inv".
type Decoder struct {
	Name   string
	Family string
	Typed  string
	Stream bool
	// F decodes from a reader (byte-slice entry points are fed io.ReadAll of it)
	F func(r io.Reader) (token.Token, cid.Cid, error)
}

// Bytes runs the decoder on a byte slice.
func (d Decoder) Bytes(b []byte) (token.Token, cid.Cid, error) { return d.F(bytes.NewReader(b)) }

func all(r io.Reader) []byte { b, _ := io.ReadAll(r); return b }

func gd(t *delegation.Token, c cid.Cid, err error) (token.Token, cid.Cid, error) {
	if err != nil || t == nil {
		return nil, cid.Undef, err
	}
	return t, c, nil
}
func gi(t *invocation.Token, c cid.Cid, err error) (token.Token, cid.Cid, error) {
	if err != nil || t == nil {
		return nil, cid.Undef, err
	}
	return t, c, nil
}
func gt(t token.Token, c cid.Cid, err error) (token.Token, cid.Cid, error) {
	if err != nil || t == nil {
		return nil, cid.Undef, err
	}
	return t, c, nil
}

func node(r io.Reader, dec codec.Decoder) (ipld.Node, error) { return ipld.Decode(all(r), dec) }

func family(fam string, dec codec.Decoder) []Decoder {
	u := cid.Undef
	ds := []Decoder{
		{"token.Decode(" + fam + ")", fam, "", false, func(r io.Reader) (token.Token, cid.Cid, error) { t, err := token.Decode(all(r), dec); return gt(t, u, err) }},
		{"token.DecodeReader(" + fam + ")", fam, "", true, func(r io.Reader) (token.Token, cid.Cid, error) { t, err := token.DecodeReader(r, dec); return gt(t, u, err) }},
		{"delegation.Decode(" + fam + ")", fam, "dlg", false, func(r io.Reader) (token.Token, cid.Cid, error) { t, err := delegation.Decode(all(r), dec); return gd(t, u, err) }},
		{"delegation.DecodeReader(" + fam + ")", fam, "dlg", true, func(r io.Reader) (token.Token, cid.Cid, error) { t, err := delegation.DecodeReader(r, dec); return gd(t, u, err) }},
		{"delegation.FromIPLD(" + fam + ")", fam, "dlg", false, func(r io.Reader) (token.Token, cid.Cid, error) {
			n, err := node(r, dec)
			if err != nil {
				return nil, u, err
			}
			t, err := delegation.FromIPLD(n)
			return gd(t, u, err)
		}},
		{"invocation.Decode(" + fam + ")", fam, "inv", false, func(r io.Reader) (token.Token, cid.Cid, error) { t, err := invocation.Decode(all(r), dec); return gi(t, u, err) }},
		{"invocation.DecodeReader(" + fam + ")", fam, "inv", true, func(r io.Reader) (token.Token, cid.Cid, error) { t, err := invocation.DecodeReader(r, dec); return gi(t, u, err) }},
		{"invocation.FromIPLD(" + fam + ")", fam, "inv", false, func(r io.Reader) (token.Token, cid.Cid, error) {
			n, err := node(r, dec)
			if err != nil {
				return nil, u, err
			}
			t, err := invocation.FromIPLD(n)
			return gi(t, u, err)
		}},
		// the way a router reads a token: look at the node first (Inspect, FindTag - read-only helpers), try the other
		// type, then decode the SAME node object with the decoder the tag names
		{"Inspect+FindTag+delegation.FromIPLD(" + fam + ")", fam, "dlg", false, func(r io.Reader) (token.Token, cid.Cid, error) {
			n, err := node(r, dec)
			if err != nil {
				return nil, u, err
			}
			_, _ = token.Inspect(n)
			_, _ = token.FindTag(n)
			_, _ = invocation.FromIPLD(n)
			_, _ = token.Inspect(n)
			t, err := delegation.FromIPLD(n)
			return gd(t, u, err)
		}},
		{"Inspect+FindTag+invocation.FromIPLD(" + fam + ")", fam, "inv", false, func(r io.Reader) (token.Token, cid.Cid, error) {
			n, err := node(r, dec)
			if err != nil {
				return nil, u, err
			}
			_, _ = token.Inspect(n)
			_, _ = token.FindTag(n)
			_, _ = delegation.FromIPLD(n)
			_, _ = token.Inspect(n)
			t, err := invocation.FromIPLD(n)
			return gi(t, u, err)
		}},
	}
	return ds
}

// Decoders returns every decode entry point of the given wire format: "cbor" (sealed + dagcbor families) or "json".
func Decoders(format string) []Decoder {
	u := cid.Undef
	if format == "json" {
		ds := []Decoder{
			{"token.FromDagJson", "dagjson", "", false, func(r io.Reader) (token.Token, cid.Cid, error) { t, err := token.FromDagJson(all(r)); return gt(t, u, err) }},
			{"token.FromDagJsonReader", "dagjson", "", true, func(r io.Reader) (token.Token, cid.Cid, error) { t, err := token.FromDagJsonReader(r); return gt(t, u, err) }},
			{"delegation.FromDagJson", "dagjson", "dlg", false, func(r io.Reader) (token.Token, cid.Cid, error) { t, err := delegation.FromDagJson(all(r)); return gd(t, u, err) }},
			{"delegation.FromDagJsonReader", "dagjson", "dlg", true, func(r io.Reader) (token.Token, cid.Cid, error) { t, err := delegation.FromDagJsonReader(r); return gd(t, u, err) }},
			{"invocation.FromDagJson", "dagjson", "inv", false, func(r io.Reader) (token.Token, cid.Cid, error) { t, err := invocation.FromDagJson(all(r)); return gi(t, u, err) }},
			{"invocation.FromDagJsonReader", "dagjson", "inv", true, func(r io.Reader) (token.Token, cid.Cid, error) { t, err := invocation.FromDagJsonReader(r); return gi(t, u, err) }},
		}
		return append(ds, family("dagjson", dagjson.Decode)...)
	}
	ds := []Decoder{
		{"token.FromSealed", "sealed", "", false, func(r io.Reader) (token.Token, cid.Cid, error) { return gt(token.FromSealed(all(r))) }},
		{"token.FromSealedReader", "sealed", "", true, func(r io.Reader) (token.Token, cid.Cid, error) { return gt(token.FromSealedReader(r)) }},
		{"delegation.FromSealed", "sealed", "dlg", false, func(r io.Reader) (token.Token, cid.Cid, error) { return gd(delegation.FromSealed(all(r))) }},
		{"delegation.FromSealedReader", "sealed", "dlg", true, func(r io.Reader) (token.Token, cid.Cid, error) { return gd(delegation.FromSealedReader(r)) }},
		{"invocation.FromSealed", "sealed", "inv", false, func(r io.Reader) (token.Token, cid.Cid, error) { return gi(invocation.FromSealed(all(r))) }},
		{"invocation.FromSealedReader", "sealed", "inv", true, func(r io.Reader) (token.Token, cid.Cid, error) { return gi(invocation.FromSealedReader(r)) }},
		{"token.FromDagCbor", "dagcbor", "", false, func(r io.Reader) (token.Token, cid.Cid, error) { t, err := token.FromDagCbor(all(r)); return gt(t, u, err) }},
		{"token.FromDagCborReader", "dagcbor", "", true, func(r io.Reader) (token.Token, cid.Cid, error) { t, err := token.FromDagCborReader(r); return gt(t, u, err) }},
		{"delegation.FromDagCbor", "dagcbor", "dlg", false, func(r io.Reader) (token.Token, cid.Cid, error) { t, err := delegation.FromDagCbor(all(r)); return gd(t, u, err) }},
		{"delegation.FromDagCborReader", "dagcbor", "dlg", true, func(r io.Reader) (token.Token, cid.Cid, error) { t, err := delegation.FromDagCborReader(r); return gd(t, u, err) }},
		{"invocation.FromDagCbor", "dagcbor", "inv", false, func(r io.Reader) (token.Token, cid.Cid, error) { t, err := invocation.FromDagCbor(all(r)); return gi(t, u, err) }},
		{"invocation.FromDagCborReader", "dagcbor", "inv", true, func(r io.Reader) (token.Token, cid.Cid, error) { t, err := invocation.FromDagCborReader(r); return gi(t, u, err) }},
	}
	return append(ds, family("dagcbor", dagcbor.Decode)...)
}

// Encoder is one encode entry point. Format "cbor" or "json"; HasCID for the sealing ones.
type Encoder struct {
	Name   string
	Format string
	HasCID bool
	Stream bool
	F      func(tk token.Token, priv crypto.PrivKey, w io.Writer) (cid.Cid, error)
}

// Bytes runs the encoder into a buffer.
func (e Encoder) Bytes(tk token.Token, priv crypto.PrivKey) ([]byte, cid.Cid, error) {
	var buf bytes.Buffer
	c, err := e.F(tk, priv, &buf)
	return buf.Bytes(), c, err
}

type encodable interface {
	ToSealed(crypto.PrivKey) ([]byte, cid.Cid, error)
	ToSealedWriter(io.Writer, crypto.PrivKey) (cid.Cid, error)
	ToDagCbor(crypto.PrivKey) ([]byte, error)
	ToDagCborWriter(io.Writer, crypto.PrivKey) error
	ToDagJson(crypto.PrivKey) ([]byte, error)
	ToDagJsonWriter(io.Writer, crypto.PrivKey) error
	Encode(crypto.PrivKey, codec.Encoder) ([]byte, error)
	EncodeWriter(io.Writer, crypto.PrivKey, codec.Encoder) error
}

var _ encodable = (*delegation.Token)(nil)
var _ encodable = (*invocation.Token)(nil)

func buf(w io.Writer, b []byte, err error) (cid.Cid, error) {
	if err != nil {
		return cid.Undef, err
	}
	_, err = w.Write(b)
	return cid.Undef, err
}

// Encoders lists every encode entry point (they exist with identical signatures on both token types).
var Encoders = []Encoder{
	{"ToSealed", "cbor", true, false, func(tk token.Token, p crypto.PrivKey, w io.Writer) (cid.Cid, error) {
		b, c, err := tk.(encodable).ToSealed(p)
		if err != nil {
			return cid.Undef, err
		}
		_, err = w.Write(b)
		return c, err
	}},
	{"ToSealedWriter", "cbor", true, true, func(tk token.Token, p crypto.PrivKey, w io.Writer) (cid.Cid, error) { return tk.(encodable).ToSealedWriter(w, p) }},
	{"ToDagCbor", "cbor", false, false, func(tk token.Token, p crypto.PrivKey, w io.Writer) (cid.Cid, error) { b, err := tk.(encodable).ToDagCbor(p); return buf(w, b, err) }},
	{"ToDagCborWriter", "cbor", false, true, func(tk token.Token, p crypto.PrivKey, w io.Writer) (cid.Cid, error) { return cid.Undef, tk.(encodable).ToDagCborWriter(w, p) }},
	{"Encode(dagcbor)", "cbor", false, false, func(tk token.Token, p crypto.PrivKey, w io.Writer) (cid.Cid, error) { b, err := tk.(encodable).Encode(p, dagcbor.Encode); return buf(w, b, err) }},
	{"EncodeWriter(dagcbor)", "cbor", false, true, func(tk token.Token, p crypto.PrivKey, w io.Writer) (cid.Cid, error) { return cid.Undef, tk.(encodable).EncodeWriter(w, p, dagcbor.Encode) }},
	{"ToDagJson", "json", false, false, func(tk token.Token, p crypto.PrivKey, w io.Writer) (cid.Cid, error) { b, err := tk.(encodable).ToDagJson(p); return buf(w, b, err) }},
	{"ToDagJsonWriter", "json", false, true, func(tk token.Token, p crypto.PrivKey, w io.Writer) (cid.Cid, error) { return cid.Undef, tk.(encodable).ToDagJsonWriter(w, p) }},
	{"Encode(dagjson)", "json", false, false, func(tk token.Token, p crypto.PrivKey, w io.Writer) (cid.Cid, error) { b, err := tk.(encodable).Encode(p, dagjson.Encode); return buf(w, b, err) }},
	{"EncodeWriter(dagjson)", "json", false, true, func(tk token.Token, p crypto.PrivKey, w io.Writer) (cid.Cid, error) { return cid.Undef, tk.(encodable).EncodeWriter(w, p, dagjson.Encode) }},
}

#!/usr/bin/env python3
"""Renders the sensitivity tables of DESIGN.md section 13 from mutants.json, mutants_results.json and seeded/*/meta.json."""
import json, os, glob
ROOT = os.path.dirname(os.path.dirname(os.path.abspath(__file__)))
muts = json.load(open(os.path.join(ROOT, "mutants.json")))
try:
    res = json.load(open(os.path.join(ROOT, "mutants_results.json")))
except Exception:
    res = {}
out = []
out.append("### Hand-written mutants (G9)\n")
out.append("Each mutant is a text replacement in /repo (`mutants.json`), applied one at a time by `tools/mutants.py`; `suite` tells whether the repository's own tests still pass with it (a mutant the suite already catches is kept as a sanity check but is not \"realistic\" in the brief's sense). Outcome per check at the quick tier.\n")
out.append("| Mutant | Suite | Check outcomes |")
out.append("|---|---|---|")
for m in muts:
    r = res.get(m["id"], {})
    checks = "; ".join("%s: %s" % (k, v.rsplit(" ", 1)[0]) for k, v in sorted(r.get("checks", {}).items()))
    if m.get("equivalent"):
        checks += " — equivalent mutant: " + m["equivalent"]
    out.append("| %s | %s | %s |" % (m["id"], r.get("suite", "?").replace("suite=", ""), checks or "not run"))
out.append("")
out.append("### Independently seeded defects\n")
out.append("Written by fresh sub-agents that were given only the text of one property and a scratch worktree (nothing from /verif). Each was confirmed in a fresh worktree by `tools/seed_verify.py` (patch applies, repository suite passes with it, demonstration fails with it and passes without it) before being archived under `seeded/<name>/`.\n")
out.append("| Seed | Breaks | Needs, to manifest | Caught by (quick tier, signature) |")
out.append("|---|---|---|---|")
for mp in sorted(glob.glob(os.path.join(ROOT, "seeded", "*", "meta.json"))):
    m = json.load(open(mp))
    caught = "; ".join("%s: %s %s" % (k, v["outcome"], v.get("sig", "")) for k, v in sorted(m.get("check_results", {}).items()))
    out.append("| %s | %s | %s | %s |" % (m["name"], m["breaks_property"], m.get("needs", "see notes.md"), caught))
print("\n".join(out))

// C15 — command coverage is the segment-prefix partial order; Parse accepts
// exactly the documented grammar; Join appends segments.
package c15

import (
	"verif/harness/keys"
	"github.com/ucan-wg/go-ucan/pkg/policy"
	"github.com/ucan-wg/go-ucan/pkg/container"
	"github.com/ucan-wg/go-ucan/token/invocation"
	"github.com/ucan-wg/go-ucan/token/delegation"
	"github.com/ucan-wg/go-ucan/token"
	"github.com/ipfs/go-cid"
	"bytes"
	"sync"
	"fmt"
	"os"
	"strings"
	"testing"
	"unicode"
	"unicode/utf8"

	"github.com/ucan-wg/go-ucan/pkg/command"
	"pgregory.net/rapid"

	"verif/harness/h"
	_ "verif/harness/warm"
)

var P = h.New("C15", "exploration",
	"covers: pairs/triples of valid commands built from segments {a,b,ab,foo,foobar,é,1,a-b,''}; non-trivial = the two commands differ and one is a textual prefix of the other or they share a first segment (the region where the boundary test decides); parse: strings over a slash-rich alphabet, non-trivial = contains '/' ; join: non-trivial = >=1 appended segment. Distinct by the strings themselves.")

func TestMain(m *testing.M) { os.Exit(P.Main(m)) }
func TestReplay(t *testing.T) { P.Replay(t) }

// ---- reference model (from the property text only) ----

func refSegments(c string) []string {
	if c == "/" {
		return nil
	}
	return strings.Split(c, "/")[1:]
}

func refCovers(a, b string) bool {
	sa, sb := refSegments(a), refSegments(b)
	if len(sa) > len(sb) {
		return false
	}
	for i := range sa {
		if sa[i] != sb[i] {
			return false
		}
	}
	return true
}

// refValid: leading slash, no trailing slash (except "/"), no upper-case letter.
// third value: specified? (false for invalid UTF-8 and title-case letters)
func refValid(s string) (valid bool, specified bool) {
	if !utf8.ValidString(s) {
		return false, false
	}
	for _, r := range s {
		if unicode.IsTitle(r) {
			return false, false
		}
		// upper-case for sure: category Lu or Unicode property Other_Uppercase
		// (Roman numerals, circled capitals) AND a simple lower-case mapping exists.
		// Letters that are upper case without a lower-case mapping, or that
		// ToLower changes without being upper case, are outside what the statement
		// pins down ("upper-case letters" vs the code's ToLower test).
		if isUpperForSure(r) {
			continue
		}
		if unicode.IsUpper(r) != (unicode.ToLower(r) != r) {
			return false, false
		}
	}
	if !strings.HasPrefix(s, "/") {
		return false, true
	}
	if len(s) > 1 && strings.HasSuffix(s, "/") {
		return false, true
	}
	for _, r := range s {
		if unicode.IsUpper(r) || isUpperForSure(r) {
			return false, true
		}
	}
	return true, true
}

func isUpperForSure(r rune) bool {
	return (unicode.IsUpper(r) || unicode.Is(unicode.Other_Uppercase, r)) && unicode.ToLower(r) != r
}

func eqStrs(a, b []string) bool {
	if len(a) != len(b) {
		return false
	}
	for i := range a {
		if a[i] != b[i] {
			return false
		}
	}
	return true
}

// ---- covers ----

type CoversCase struct {
	A, B, C string
}

// the last six are lower-case letters that are related by Unicode case FOLDING only (σ/ς, µ/μ, ſ/s): distinct segments
var segAlphabet = []string{"a", "b", "ab", "foo", "foobar", "é", "1", "a-b", "", "σ", "ς", "µ", "μ", "ſ", "s", ".", "..", "*", "**", "?", "%2a", "~", "{x}", ":id", "+"}

var nonEmptySegs = func() []string {
	var out []string
	for _, s := range segAlphabet {
		if s != "" {
			out = append(out, s)
		}
	}
	return out
}()

func buildCmd(segs []string) (string, bool) {
	if len(segs) == 0 {
		return "/", true
	}
	s := "/" + strings.Join(segs, "/")
	if strings.HasSuffix(s, "/") {
		return "", false // trailing empty segment: not a valid command
	}
	return s, true
}

func drawCmd(t *rapid.T, label string) string {
	for {
		n := rapid.IntRange(0, 5).Draw(t, label+"_n")
		segs := make([]string, n)
		for i := range segs {
			segs[i] = rapid.SampledFrom(segAlphabet).Draw(t, label+"_seg")
		}
		if s, ok := buildCmd(segs); ok {
			return s
		}
	}
}

// drawRelated derives a command from base so that related pairs are frequent.
func drawRelated(t *rapid.T, base string, label string) string {
	switch rapid.IntRange(0, 6).Draw(t, label+"_rel") {
	case 0:
		return base
	case 1: // child
		seg := rapid.SampledFrom(nonEmptySegs).Draw(t, label+"_seg")
		if base == "/" {
			return "/" + seg
		}
		return base + "/" + seg
	case 2: // textual extension without boundary
		if base == "/" {
			return "/" + rapid.SampledFrom(nonEmptySegs).Draw(t, label+"_seg")
		}
		return base + rapid.SampledFrom([]string{"a", "bar", "1", "-b", "é"}).Draw(t, label+"_ext")
	case 3: // parent
		segs := refSegments(base)
		if len(segs) == 0 {
			return "/"
		}
		s, ok := buildCmd(segs[:len(segs)-1])
		if !ok {
			return "/"
		}
		return s
	case 4: // grand-child through an empty segment
		if base == "/" {
			return "//a"
		}
		return base + "//" + rapid.SampledFrom(nonEmptySegs).Draw(t, label+"_seg")
	default:
		return drawCmd(t, label)
	}
}

func nontrivialPair(a, b string) bool {
	if a == b {
		return false
	}
	if strings.HasPrefix(b, a) || strings.HasPrefix(a, b) {
		return true
	}
	sa, sb := refSegments(a), refSegments(b)
	return len(sa) > 0 && len(sb) > 0 && sa[0] == sb[0]
}

func checkPair(c *h.Ctx, a, b string) {
	ca, err := command.Parse(a)
	if err != nil {
		c.Fail("C15/parse/rejects-valid", "Parse(%q) rejected a valid command: %v", a, err)
		return
	}
	cb, err := command.Parse(b)
	if err != nil {
		c.Fail("C15/parse/rejects-valid", "Parse(%q) rejected a valid command: %v", b, err)
		return
	}
	if !eqStrs(ca.Segments(), refSegments(a)) {
		c.Fail("C15/segments", "Segments(%q) = %q, want %q", a, ca.Segments(), refSegments(a))
	}
	got, want := ca.Covers(cb), refCovers(a, b)
	if got != want {
		c.Fail("C15/covers/prefix-order", "Covers(%q, %q) = %v, segment-prefix order says %v", a, b, got, want)
	}
	if nontrivialPair(a, b) {
		c.P.NonTrivial([]string{"pair", a, b}, map[string]any{"a": a, "b": b, "covers": got})
	}
}

func runCovers(c *h.Ctx, cs CoversCase) {
	for _, s := range []string{cs.A, cs.B, cs.C} {
		if v, sp := refValid(s); !v || !sp {
			c.Inconclusive("generator produced invalid command %q", s)
		}
	}
	checkPair(c, cs.A, cs.B)
	checkPair(c, cs.B, cs.C)
	checkPair(c, cs.A, cs.C)
	checkPair(c, cs.B, cs.A)
	a, b, cc := command.MustParse(cs.A), command.MustParse(cs.B), command.MustParse(cs.C)
	if !a.Covers(a) {
		c.Fail("C15/covers/reflexive", "Covers(%q,%q) false", cs.A, cs.A)
	}
	if !command.Top().Covers(a) {
		c.Fail("C15/covers/top", "/ does not cover %q", cs.A)
	}
	if a.Covers(b) && b.Covers(a) && cs.A != cs.B {
		c.Fail("C15/covers/antisymmetric", "%q and %q cover each other", cs.A, cs.B)
	}
	if a.Covers(b) && b.Covers(cc) && !a.Covers(cc) {
		c.Fail("C15/covers/transitive", "%q covers %q covers %q but not transitively", cs.A, cs.B, cs.C)
	}
	if a.Covers(b) && b.Covers(cc) && cs.A != cs.B && cs.B != cs.C {
		c.P.Class("covers/chain-of-3")
	}
}

var covers = h.Define(P, "covers", func(t *rapid.T) CoversCase {
	if rapid.IntRange(0, 9).Draw(t, "deep") == 0 {
		// nothing bounds the number of segments: parents and children around every power of two up to 1024
		n := rapid.SampledFrom([]int{15, 16, 17, 31, 32, 33, 63, 64, 65, 66, 127, 128, 129, 255, 256, 257, 1000, 1024, 1025}).Draw(t, "deepn")
		var sb strings.Builder
		for i := 0; i < n; i++ {
			fmt.Fprintf(&sb, "/s%d", i%7)
		}
		a := sb.String()
		b := a + "/" + rapid.SampledFrom(nonEmptySegs).Draw(t, "deepchild")
		cc := b
		switch rapid.IntRange(0, 3).Draw(t, "deeprel") {
		case 0:
			cc = b + "/x/y"
		case 1:
			cc = a + "x" // textual extension of the last segment: not covered
		case 2:
			cc = a[:len(a)-1] // last segment cut short
		}
		return CoversCase{a, b, cc}
	}
	a := drawCmd(t, "a")
	b := drawRelated(t, a, "b")
	cc := drawRelated(t, b, "c")
	return CoversCase{a, b, cc}
}, runCovers)

func TestCovers(t *testing.T) { covers.Check(t) }

// TestCoversExhaustive enumerates every pair of commands with <= maxSeg
// segments over the alphabet (and all triples of a sub-alphabet).
func TestCoversExhaustive(t *testing.T) {
	maxSeg := h.N(3, 4)
	alpha := []string{"a", "b", "ab", "foo", "foobar", "é", "1", "a-b", "", "σ", "ς", "µ", "μ", "ſ", "s", ".", "..", "*"}
	if maxSeg == 4 {
		alpha = []string{"a", "ab", "foo", "foobar", "é", "", "σ", "ς"}
	}
	var cmds []string
	var rec func(prefix []string, depth int)
	rec = func(prefix []string, depth int) {
		if s, ok := buildCmd(prefix); ok {
			cmds = append(cmds, s)
		}
		if depth == maxSeg {
			return
		}
		for _, s := range alpha {
			rec(append(append([]string{}, prefix...), s), depth+1)
		}
	}
	rec(nil, 0)
	parsed := make([]command.Command, len(cmds))
	for i, s := range cmds {
		c, err := command.Parse(s)
		if err != nil {
			ctx := &h.Ctx{P: P, T: t}
			_ = ctx
			covers.One(t, CoversCase{s, s, s})
			return
		}
		parsed[i] = c
	}
	nt := 0
	for i, a := range cmds {
		for j, b := range cmds {
			got, want := parsed[i].Covers(parsed[j]), refCovers(a, b)
			if got != want {
				covers.One(t, CoversCase{a, b, b}) // reports + saves replay
				return
			}
			if nontrivialPair(a, b) {
				nt++
			}
		}
	}
	P.EvalN(len(cmds) * len(cmds))
	P.AddDistinct(nt)
	P.ClassN("covers/exhaustive-pairs", len(cmds)*len(cmds))
	P.SetExtra("exhaustive_commands", len(cmds))
	P.SetExtra("exhaustive_max_segments", maxSeg)
	P.Sample(map[string]any{"enumerated_commands_sample": cmds[:min(8, len(cmds))], "total": len(cmds)})
	// transitivity on all triples of the first 60 commands
	m := min(len(cmds), h.N(60, 120))
	for i := 0; i < m; i++ {
		for j := 0; j < m; j++ {
			if !parsed[i].Covers(parsed[j]) {
				continue
			}
			for k := 0; k < m; k++ {
				if parsed[j].Covers(parsed[k]) && !parsed[i].Covers(parsed[k]) {
					covers.One(t, CoversCase{cmds[i], cmds[j], cmds[k]})
					return
				}
			}
		}
	}
	P.SetExhaustive()
}

// ---- parse ----

// Prime: before Parse(S) is judged, the same spelling is built through New / Join from its segments (these do
// not validate, so the result may be a Command that Parse would refuse). Acceptance by Parse is a function of
// the string alone; whatever the package remembers about commands it has seen must not change it.
type ParseCase struct {
	S     string
	Prime int `json:",omitempty"` // 0 no, 1 New(segs...), 2 Top().Join(segs...), 3 New(first).Join(rest...)
	// Warm: before Parse(S) is judged, OTHER packages that use commands have been at work in this process (bit 0: a
	// sealed delegation is decoded, 1: an invocation is built, sealed, decoded and checked, 2: a container is written
	// and read, 3: a policy is parsed). What Parse accepts is a function of the string, not of what the process did
	// before.
	Warm int `json:",omitempty"`
}

var warmOnce sync.Once
var warmDlg, warmInv, warmCar []byte
var warmDlgCid cid.Cid

func warmUp(bits int) {
	warmOnce.Do(func() {
		iss, aud := keys.Principal(0), keys.Principal(1)
		d, err := delegation.Root(iss.DID, aud.DID, command.MustParse("/warm/up"), policy.Policy{}, delegation.WithNonce(bytes.Repeat([]byte{1}, 12)))
		if err != nil {
			panic(err)
		}
		warmDlg, warmDlgCid, _ = d.ToSealed(iss.Priv)
		iv, err := invocation.New(aud.DID, iss.DID, command.MustParse("/warm/up/now"), []cid.Cid{warmDlgCid}, invocation.WithNonce(bytes.Repeat([]byte{2}, 12)))
		if err != nil {
			panic(err)
		}
		var ivc cid.Cid
		warmInv, ivc, _ = iv.ToSealed(aud.Priv)
		w := container.NewWriter()
		w.AddSealed(warmDlgCid, warmDlg)
		w.AddSealed(ivc, warmInv)
		warmCar, _ = w.ToCar()
	})
	if bits&1 != 0 {
		_, _, _ = delegation.FromSealed(warmDlg)
	}
	if bits&2 != 0 {
		if t, _, err := invocation.FromSealed(warmInv); err == nil {
			if d, _, err := delegation.FromSealed(warmDlg); err == nil {
				_ = t.ExecutionAllowed(oneLoader{warmDlgCid, d})
			}
		}
	}
	if bits&4 != 0 {
		_, _ = container.FromCar(warmCar)
	}
	if bits&8 != 0 {
		_, _ = policy.FromDagJson(`[["==", ".a", 1], ["like", ".b", "x*"]]`)
		_, _, _ = token.FromSealed(warmDlg)
	}
}

type oneLoader struct {
	c cid.Cid
	d *delegation.Token
}

func (l oneLoader) GetDelegation(c cid.Cid) (*delegation.Token, error) {
	if c == l.c {
		return l.d, nil
	}
	return nil, delegation.ErrDelegationNotFound
}

var parseRunes = []rune{'/', '/', '/', 'a', 'b', 'z', 'A', 'Z', 'é', 'É', 'ß', 'ж', 'Ж', '1', '-', '_', ' ', '.', 'ほ', 'Σ', 'σ', 'ς', 'Ⅰ', 'ⅰ', 'Ⓐ', 'ⓐ', 'ǅ', '𝐀', 'ſ', 'µ', '\t', '\n', '\x00', '\x7f', '\u0085', '\u00a0', '\u200b', '\u2028', '\ufeff', '%', '\\', '"', '*', '*', '?', '#', '~', '+', ':', ';', '=', '&', '@', '{', '}', '$'}

func runParse(c *h.Ctx, pc ParseCase) {
	if pc.Prime > 0 && strings.HasPrefix(pc.S, "/") && len(pc.S) > 1 {
		segs := strings.Split(pc.S[1:], "/")
		h.Try(func() {
			switch pc.Prime {
			case 1:
				_ = command.New(segs...).String()
			case 2:
				_ = command.Top().Join(segs...).String()
			default:
				_ = command.New(segs[0]).Join(segs[1:]...).String()
			}
		})
		c.P.Class("parse/primed")
	}
	if pc.Warm > 0 {
		warmUp(pc.Warm)
		c.P.Class("parse/after-other-packages")
	}
	want, specified := refValid(pc.S)
	if !specified {
		c.P.Unspecified()
		_, _ = command.Parse(pc.S)
		return
	}
	got, err := command.Parse(pc.S)
	ok := err == nil
	if ok != want {
		c.Fail("C15/parse/grammar", "Parse(%q): accepted=%v, grammar says %v (err=%v)", pc.S, ok, want, err)
		return
	}
	if command.IsValid(pc.S) != ok {
		c.Fail("C15/parse/isvalid", "IsValid(%q) disagrees with Parse", pc.S)
	}
	if ok {
		if got.String() != pc.S {
			c.Fail("C15/parse/unchanged", "Parse(%q).String() = %q", pc.S, got.String())
		}
		segs := got.Segments()
		if !eqStrs(segs, refSegments(pc.S)) {
			c.Fail("C15/segments", "Segments(%q) = %q", pc.S, segs)
		}
		// the slice handed back is the caller's: writing to it must not change what the command (or an equal
		// command obtained later) reports
		for i := range segs {
			segs[i] = "scribbled"
		}
		if again, err := command.Parse(pc.S); err == nil {
			if !eqStrs(again.Segments(), refSegments(pc.S)) || !eqStrs(got.Segments(), refSegments(pc.S)) {
				c.Fail("C15/segments/shared-with-caller", "after the caller wrote into the slice returned by Segments(), Segments(%q) = %q", pc.S, again.Segments())
			}
			if len(segs) > 0 && !again.Covers(got) {
				c.Fail("C15/covers/reflexive", "%q does not cover itself after a caller wrote into an earlier Segments() result", pc.S)
			}
		}
	}
	if strings.Contains(pc.S, "/") {
		c.P.NonTrivial([]string{"parse", pc.S}, map[string]any{"parse": pc.S, "accepted": ok})
	}
	if ok {
		c.P.Class("parse/accepted")
	} else {
		c.P.Class("parse/rejected")
	}
}

var parse = h.Define(P, "parse", func(t *rapid.T) ParseCase {
	if rapid.IntRange(0, 9).Draw(t, "mode") == 0 {
		return ParseCase{S: rapid.String().Draw(t, "s")}
	}
	n := rapid.IntRange(0, 10).Draw(t, "n")
	rs := make([]rune, n)
	for i := range rs {
		rs[i] = rapid.SampledFrom(parseRunes).Draw(t, "r")
	}
	s := string(rs)
	if rapid.IntRange(0, 2).Draw(t, "lead") > 0 {
		s = "/" + s
	}
	pc := ParseCase{S: s}
	if rapid.IntRange(0, 2).Draw(t, "prime") == 0 {
		pc.Prime = rapid.IntRange(1, 3).Draw(t, "primekind")
	}
	if rapid.IntRange(0, 3).Draw(t, "warm") == 1 {
		pc.Warm = rapid.IntRange(1, 15).Draw(t, "warmbits")
	}
	return pc
}, runParse)

func TestParse(t *testing.T) { parse.Check(t) }

// ---- join ----

type JoinCase struct {
	Base string
	Segs []string
}

func runJoin(c *h.Ctx, jc JoinCase) {
	base, err := command.Parse(jc.Base)
	if err != nil {
		c.Fail("C15/parse/rejects-valid", "Parse(%q): %v", jc.Base, err)
		return
	}
	// the segments are the caller's: handed over as a spread slice (with spare capacity, as append leaves it), they are
	// read, not written; the same slice gives the same command when it is used again
	orig := append([]string{}, jc.Segs...)
	callers := make([]string, len(orig), len(orig)+4)
	copy(callers, orig)
	got := base.Join(callers...)
	if !eqStrs(callers, orig) {
		c.Fail("C15/join/callers-slice-written", "%q.Join(segs...) changed the caller's slice from %q to %q", jc.Base, orig, callers)
		return
	}
	if again := base.Join(callers...); again != got {
		c.Fail("C15/join/not-repeatable", "%q.Join(%q) gives %q, then %q", jc.Base, orig, got, again)
		return
	}
	n0 := command.New(callers...)
	if !eqStrs(callers, orig) || command.New(callers...) != n0 {
		c.Fail("C15/join/callers-slice-written", "New(segs...) changed the caller's slice from %q to %q (or is not repeatable)", orig, callers)
		return
	}
	jc.Segs = orig
	// segments that contain the separator themselves ("crud/", "/a", "a/b"): the text of the result is the receiver
	// followed by each non-empty segment behind one separator - nothing is merged, nothing is dropped
	hasSlash := false
	for _, sg := range orig {
		hasSlash = hasSlash || strings.Contains(sg, "/")
	}
	if hasSlash {
		wantText := jc.Base
		for _, sg := range orig {
			if sg == "" {
				continue
			}
			if len(wantText) > 1 {
				wantText += "/"
			}
			wantText += sg
		}
		if got.String() != wantText {
			c.Fail("C15/join/text", "%q.Join(%q) = %q, the receiver followed by the segments behind one separator each is %q", jc.Base, orig, got.String(), wantText)
		}
		c.P.Class("join/segment-with-separator")
		return
	}
	for _, sg := range orig {
		if sg == "" {
			// what an EMPTY segment contributes is not said; only the clauses above apply
			c.P.Class("join/with-empty-segment")
			return
		}
	}
	want := append(append([]string{}, refSegments(jc.Base)...), jc.Segs...)
	if !eqStrs(got.Segments(), want) {
		c.Fail("C15/join/segments", "%q.Join(%q) = %q with segments %q, want segments %q", jc.Base, jc.Segs, got, got.Segments(), want)
		return
	}
	if _, err := command.Parse(got.String()); err != nil {
		c.Fail("C15/join/valid", "%q.Join(%q) = %q is not a valid command", jc.Base, jc.Segs, got)
	}
	if !base.Covers(got) {
		c.Fail("C15/join/covered", "%q does not cover its own extension %q", jc.Base, got)
	}
	n := command.New(jc.Segs...)
	if !eqStrs(n.Segments(), jc.Segs) && len(jc.Segs) > 0 {
		c.Fail("C15/join/new", "New(%q) has segments %q", jc.Segs, n.Segments())
	}
	if len(jc.Segs) > 0 {
		c.P.NonTrivial([]any{"join", jc.Base, jc.Segs}, map[string]any{"base": jc.Base, "join": jc.Segs, "result": got.String()})
	}
}

var join = h.Define(P, "join", func(t *rapid.T) JoinCase {
	base := drawCmd(t, "base")
	n := rapid.IntRange(0, 4).Draw(t, "n")
	segs := make([]string, n)
	for i := range segs {
		segs[i] = rapid.SampledFrom(nonEmptySegs).Draw(t, "seg")
		if rapid.IntRange(0, 5).Draw(t, "emptyseg") == 0 {
			segs[i] = ""
		}
		if rapid.IntRange(0, 7).Draw(t, "slashseg") == 0 {
			segs[i] = rapid.SampledFrom([]string{"crud/", "a/", "/", "/a", "a/b", "//", "a//", "/a/"}).Draw(t, "slashsegv")
		}
	}
	if n == 0 {
		segs = nil
	}
	return JoinCase{base, segs}
}, runJoin)

func TestJoin(t *testing.T) { join.Check(t) }

// FuzzCommands: coverage-guided search over command strings (parser grammar) and pairs (coverage order).
func FuzzCommands(f *testing.F) {
	for _, s := range [][2]string{{"/", "/a"}, {"/a", "/a/b"}, {"/foo", "/foobar"}, {"/a//b", "/a/b"}, {"/σ", "/ς"}, {"/A", "/a"}, {"/a/", "/a"}, {"", "/"}} {
		f.Add(s[0], s[1])
	}
	f.Fuzz(func(t *testing.T, a, b string) {
		if len(a) > 64 || len(b) > 64 {
			return
		}
		parse.One(t, ParseCase{S: a})
		parse.One(t, ParseCase{S: b})
		if va, sa := refValid(a); va && sa {
			if vb, sb := refValid(b); vb && sb {
				covers.One(t, CoversCase{A: a, B: b, C: a})
			}
		}
	})
}

// TestEveryCodePoint: every Unicode code point (all 1 112 064 scalar values), alone as a segment and between two
// letters, through Parse / IsValid / String: accepted exactly when the reference grammar says so (code points whose
// case status the statement does not pin down are skipped and counted), and returned unchanged. A rule about "upper-case
// letters" is a rule about every letter there is, not about the few dozen a generator's alphabet holds.
func TestEveryCodePoint(t *testing.T) {
	ctx := &h.Ctx{P: P, T: t}
	n, unspec := 0, 0
	for r := rune(0); r <= unicode.MaxRune; r++ {
		if r >= 0xd800 && r <= 0xdfff {
			continue
		}
		for _, s := range []string{"/" + string(r), "/a" + string(r) + "b/c"} {
			if r == '/' {
				continue
			}
			want, specified := refValid(s)
			got, err := command.Parse(s)
			if !specified {
				unspec++
				continue
			}
			n++
			if (err == nil) != want {
				ctx.Fail("C15/parse/grammar", "Parse(%q) (code point U+%04X): accepted=%v, grammar says %v (err=%v)", s, r, err == nil, want, err)
				return
			}
			if command.IsValid(s) != want {
				ctx.Fail("C15/parse/isvalid", "IsValid(%q) (code point U+%04X) disagrees with Parse", s, r)
				return
			}
			if err == nil && got.String() != s {
				ctx.Fail("C15/parse/unchanged", "Parse(%q).String() = %q", s, got.String())
				return
			}
		}
	}
	P.EvalN(n)
	P.AddDistinct(n)
	P.ClassN("parse/code-point-unspecified", unspec)
	P.SetExtra("code_points_judged", n)
}

// TestConcurrentParse: goroutines parse accepted and refused strings at the same time - each its own short list, asking
// every string several times in a row, neighbours asking look-alike strings (same text, one letter in upper case; same
// text with a trailing slash) - and Covers / Join / Segments on the results. Every answer is the reference grammar's
// answer for THAT string; what another goroutine is asking at that moment is nothing to it. Race-detector build.
func TestConcurrentParse(t *testing.T) {
	ctx := &h.Ctx{P: P, T: t}
	bases := []string{"/crud/create", "/msg/send", "/a", "/", "/store/é/x", "/foo//bar", "/x/y/z/w", "/very/long/command/with/many/segments/in/it"}
	var inputs []string
	for _, b := range bases {
		inputs = append(inputs, b)
		if len(b) > 1 {
			inputs = append(inputs, b+"/", strings.ToUpper(b[:2])+b[2:], b[:len(b)-1]+strings.ToUpper(b[len(b)-1:]), b[1:], " "+b)
		}
	}
	type verdict struct{ valid, specified bool }
	ref := map[string]verdict{}
	for _, s := range inputs {
		v, sp := refValid(s)
		ref[s] = verdict{v, sp}
	}
	rounds := h.N(20000, 200000)
	var mu sync.Mutex
	bad := ""
	pv := h.Concurrently(8, func(g int) {
		for r := 0; r < rounds; r++ {
			s := inputs[(g*7+r/3)%len(inputs)] // every string three times in a row, neighbours offset
			if g%2 == 1 {
				s = inputs[(g*7+r)%len(inputs)]
			}
			want := ref[s]
			if !want.specified {
				continue
			}
			got, err := command.Parse(s)
			if (err == nil) != want.valid || (err == nil && got.String() != s) || command.IsValid(s) != want.valid {
				mu.Lock()
				if bad == "" {
					bad = fmt.Sprintf("goroutine %d, round %d: Parse(%q) = (%q, %v), IsValid = %v; the grammar says valid = %v", g, r, s, got, err, command.IsValid(s), want.valid)
				}
				mu.Unlock()
				return
			}
			if err == nil {
				if !got.Covers(got) || !eqStrs(got.Segments(), refSegments(s)) {
					mu.Lock()
					if bad == "" {
						bad = fmt.Sprintf("goroutine %d: %q does not cover itself / reports segments %q while other goroutines parse", g, s, got.Segments())
					}
					mu.Unlock()
					return
				}
			}
		}
	})
	if pv != nil {
		ctx.Fail("C15/concurrent/panic", "concurrent Parse panicked: %v", pv)
		return
	}
	if bad != "" {
		ctx.Fail("C15/concurrent/parse", "%s", bad)
		return
	}
	P.EvalN(8 * rounds)
	P.AddDistinct(len(inputs))
}

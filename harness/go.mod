module verif/harness

go 1.23

require (
	github.com/decred/dcrd/dcrec/secp256k1/v4 v4.3.0
	github.com/ipfs/go-cid v0.4.1
	github.com/ipld/go-ipld-prime v0.21.0
	github.com/libp2p/go-libp2p v0.36.3
	github.com/multiformats/go-multibase v0.2.0
	github.com/multiformats/go-multicodec v0.9.0
	github.com/multiformats/go-multihash v0.2.3
	github.com/multiformats/go-varint v0.0.7
	github.com/ucan-wg/go-ucan v0.0.0
	pgregory.net/rapid v1.3.0
)

require (
	github.com/klauspost/cpuid/v2 v2.2.8 // indirect
	github.com/mr-tron/base58 v1.2.0 // indirect
	github.com/multiformats/go-base32 v0.1.0 // indirect
	github.com/multiformats/go-base36 v0.2.0 // indirect
	github.com/polydawn/refmt v0.89.0 // indirect
	github.com/spaolacci/murmur3 v1.1.0 // indirect
	golang.org/x/crypto v0.25.0 // indirect
	golang.org/x/sys v0.22.0 // indirect
	google.golang.org/protobuf v1.34.2 // indirect
	lukechampine.com/blake3 v1.3.0 // indirect
)

replace github.com/ucan-wg/go-ucan => /repo

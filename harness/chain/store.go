package chain

// Histories over a shared delegation store (the "histories" half of the C01..C05
// quantifiers). A case is plain data: a pool of delegation descriptors, a few
// invocations whose proof lists index into the pool (so delegations are shared
// between invocations), and a list of operations: authorization checks
// interleaved with changes of what the loader can deliver (remove / restore /
// make it fail), re-decoding of tokens, and checks through the hook entry
// point. After every check the decision is compared with the reference rules
// R1..R9 evaluated on the store AS IT IS AT THAT MOMENT. Anything the library
// carries over from an earlier call (memoised proofs, cached decisions keyed by
// token, CID, principal or command, pooled buffers) shows up as a decision that
// is right for an earlier state and wrong for the present one.
//
// Both directions are judged (allowed => R1..R9, R1..R9 => allowed); a mismatch
// is reported by the property that owns the broken rule (R1-6: C01, R7: C02,
// R8: C03, R9: C04, all rules hold but denied: C05) and only counted by the others.

import (
	"encoding/json"
	"fmt"

	"github.com/ipfs/go-cid"
	"pgregory.net/rapid"

	"github.com/ucan-wg/go-ucan/pkg/args"
	"github.com/ucan-wg/go-ucan/token/delegation"
	"github.com/ucan-wg/go-ucan/token/invocation"

	"verif/harness/h"
	"verif/harness/pol"
	"verif/harness/sel"
	"verif/harness/val"
)

type StoreInv struct {
	Inv   Inv   `json:"inv"`
	Proof []int `json:"proof"`
}

type StoreOp struct {
	Kind string `json:"kind"` // check | check-hook | remove | restore | fail | unfail | reseal-inv | reseal-dlg
	I    int    `json:"i"`
}

type StoreCase struct {
	Pool       []Link     `json:"pool"`
	Invs       []StoreInv `json:"invs"`
	Ops        []StoreOp  `json:"ops"`
	FreshLoads bool       `json:"fresh_loads,omitempty"` // the loader decodes a new token from the sealed bytes on every call
	Dev        []string   `json:"deviations,omitempty"`
}

type poolEntry struct {
	style   int
	tok     *delegation.Token
	data    []byte
	id      cid.Cid
	present bool
	failing bool
}

type storeLoader struct {
	m     map[cid.Cid]*poolEntry
	fresh bool
}

func (l *storeLoader) GetDelegation(c cid.Cid) (*delegation.Token, error) {
	e, ok := l.m[c]
	if !ok {
		return nil, delegation.ErrDelegationNotFound
	}
	if !e.present {
		return miss(e.style)
	}
	if e.failing {
		return nil, fmt.Errorf("verif: injected loader failure")
	}
	if l.fresh {
		t, _, err := delegation.FromSealed(e.data)
		if err != nil {
			return nil, err
		}
		return t, nil
	}
	return e.tok, nil
}

// Owner maps a mismatch to the property whose rule it is.
func Owner(r Rules, allowed bool) (prop string, what string) {
	if allowed {
		for i := 1; i <= 9; i++ {
			if !r.R[i] {
				switch {
				case i <= 6:
					return "C01", fmt.Sprintf("allowed-without-R%d", i)
				case i == 7:
					return "C02", "widened-command-allowed"
				case i == 8:
					return "C03", "unsatisfied-policy-allowed"
				default:
					return "C04", "allowed-with-invalid-token"
				}
			}
		}
		return "", ""
	}
	if r.All(1, 9) {
		return "C05", "conforming-chain-denied"
	}
	return "", ""
}

// RunStore executes the history and judges every check. owner is the property
// id of the calling check.
func RunStore(c *h.Ctx, sc StoreCase, owner string) {
	ld := &storeLoader{m: map[cid.Cid]*poolEntry{}, fresh: sc.FreshLoads}
	pool := make([]*poolEntry, len(sc.Pool))
	for i, l := range sc.Pool {
		l.Missing, l.LoaderErr = false, false
		t, id, data, err := BuildLink(l)
		if err != nil {
			c.P.Class("store:build-error")
			c.Logf("pool %d: %v", i, err)
			return
		}
		if other, dup := ld.m[id]; dup {
			pool[i] = other
			continue
		}
		pool[i] = &poolEntry{tok: t, data: data, id: id, present: true}
		ld.m[id] = pool[i]
	}
	commonArgs := map[string]*args.Args{}
	invs := make([]*invocation.Token, len(sc.Invs))
	for i, si := range sc.Invs {
		var prf []cid.Cid
		for _, k := range si.Proof {
			prf = append(prf, pool[k%len(pool)].id)
		}
		t, err := BuildInvShared(si.Inv, prf, commonArgs)
		if err != nil {
			c.P.Class("store:build-error")
			c.Logf("inv %d: %v", i, err)
			return
		}
		invs[i] = t
	}
	if len(invs) == 0 || len(pool) == 0 {
		return
	}
	checks, changes, changedSinceCheck, interesting := 0, 0, false, false
	var trace []string
	for step, op := range sc.Ops {
		switch op.Kind {
		case "remove":
			pool[op.I%len(pool)].present = false
			pool[op.I%len(pool)].style = (op.I / len(pool)) % 4
			changes++
			changedSinceCheck = true
		case "restore":
			var gone []*poolEntry
			for _, e := range pool {
				if !e.present {
					gone = append(gone, e)
				}
			}
			if len(gone) == 0 {
				continue
			}
			gone[op.I%len(gone)].present = true
			changes++
			changedSinceCheck = true
		case "restore-exact":
			if e := pool[op.I%len(pool)]; !e.present {
				e.present = true
				changes++
				changedSinceCheck = true
			}
		case "fail":
			pool[op.I%len(pool)].failing = true
			changes++
			changedSinceCheck = true
		case "unfail":
			var bad []*poolEntry
			for _, e := range pool {
				if e.failing {
					bad = append(bad, e)
				}
			}
			if len(bad) == 0 {
				continue
			}
			bad[op.I%len(bad)].failing = false
			changes++
			changedSinceCheck = true
		case "reseal-dlg":
			e := pool[op.I%len(pool)]
			t, _, err := delegation.FromSealed(e.data)
			if err != nil {
				c.P.Class("store:reseal-error")
				continue
			}
			e.tok = t
		case "reseal-inv":
			k := op.I % len(invs)
			data, _, err := invs[k].ToSealed(Prin(sc.Invs[k].Inv.Iss).Priv)
			if err != nil {
				c.P.Class("store:reseal-error")
				continue
			}
			t, _, err := invocation.FromSealed(data)
			if err != nil {
				c.P.Class("store:reseal-error")
				continue
			}
			invs[k] = t
		case "check", "check-hook":
			k := op.I % len(invs)
			si := sc.Invs[k]
			ref := Case{Inv: si.Inv}
			for _, pi := range si.Proof {
				l := sc.Pool[pi%len(pool)]
				e := pool[pi%len(pool)]
				l.Missing, l.LoaderErr = !e.present, e.present && e.failing
				ref.Links = append(ref.Links, l)
			}
			ref.Inv.Hook = nil
			r := Eval(ref)
			b := &Built{Inv: invs[k], Loader: ld}
			var d Decision
			if op.Kind == "check-hook" {
				var err error
				p, v, _ := h.Try(func() {
					err = b.Inv.ExecutionAllowedWithArgsHook(ld, func(ro args.ReadOnly) (*args.Args, error) { return ro.WriteableClone(), nil })
				})
				d = Decision{Allowed: !p && err == nil, Panicked: p, Panic: fmt.Sprint(v)}
				if err != nil {
					d.Err = err.Error()
				}
			} else {
				d = Decide(b, nil)
			}
			checks++
			if changedSinceCheck && checks > 1 {
				interesting = true
			}
			changedSinceCheck = false
			trace = append(trace, fmt.Sprintf("#%d %s inv%d -> allowed=%v broken=%v", step, op.Kind, k, d.Allowed, r.Broken()))
			if d.Panicked {
				c.P.PanicSeen()
			}
			if r.PolicyUnspec {
				c.P.Unspecified()
				continue
			}
			if who, what := Owner(r, d.Allowed); who != "" {
				if who == owner {
					c.Fail(fmt.Sprintf("%s/store/%s", owner, what),
						"history over a shared delegation store: at step %d, %s of invocation %d returned allowed=%v (%s) while the rules broken for the store as it is now are %v\ntrace:\n%s\ncase: %s",
						step, op.Kind, k, d.Allowed, d.Err, r.Broken(), joinLines(trace), mustJSON(sc))
				} else {
					c.P.Class("store:mismatch-owned-by-" + who)
				}
			}
			if d.Allowed {
				c.P.Class("store:allowed")
			} else {
				c.P.Class("store:denied")
			}
		}
		c.P.Class("store:op:" + op.Kind)
	}
	shared := false
	seen := map[int]int{}
	for i, si := range sc.Invs {
		for _, pi := range si.Proof {
			if j, ok := seen[pi%len(pool)]; ok && j != i {
				shared = true
			}
			seen[pi%len(pool)] = i
		}
	}
	if shared {
		c.P.Class("store:shared-delegation")
	}
	if checks >= 2 && (interesting || shared) {
		kinds := ""
		for _, op := range sc.Ops {
			kinds += op.Kind[:2] + fmt.Sprint(op.I%7) + ","
		}
		c.P.NonTrivial([]any{"store", len(sc.Pool), len(sc.Invs), kinds, sc.Dev},
			map[string]any{"store_history": map[string]any{"pool": len(sc.Pool), "invocations": len(sc.Invs), "ops": sc.Ops, "deviations": sc.Dev, "trace": trace}})
	}
}

func joinLines(s []string) string {
	out := ""
	for _, l := range s {
		out += "  " + l + "\n"
	}
	return out
}

func mustJSON(v any) string {
	b, _ := json.Marshal(v)
	return string(b)
}

func widen(t *rapid.T, cur string) string {
	segs := refSegments(cur)
	switch rapid.IntRange(0, 3).Draw(t, "widen") {
	case 0:
		return "/"
	case 1:
		if len(segs) > 0 {
			segs = segs[:len(segs)-1]
		}
	case 2:
		if len(segs) > 0 {
			segs = append(append([]string{}, segs[:len(segs)-1]...), rapid.SampledFrom(CmdSegs).Draw(t, "sib"))
		}
	default:
		return cur + rapid.SampledFrom([]string{"bar", "o", "é"}).Draw(t, "ext")
	}
	if len(segs) == 0 {
		return "/"
	}
	out := ""
	for _, s := range segs {
		out += "/" + s
	}
	return out
}

// DrawStore draws a history. focus names the rule family whose deviations are
// preferred: "principal", "command", "policy", "time" or "none".
func DrawStore(t *rapid.T, focus string) StoreCase {
	var sc StoreCase
	index := map[string]int{}
	base := 0
	add := func(l Link) int {
		// identical descriptors inside one base case (a delegation walked twice) are one token;
		// everything else gets a nonce of its own
		l.Missing, l.LoaderErr = false, false
		key := fmt.Sprintf("%d/%s", base, mustJSON(l))
		if i, ok := index[key]; ok {
			return i
		}
		l.Nonce = byte(len(sc.Pool) + 1)
		index[key] = len(sc.Pool)
		sc.Pool = append(sc.Pool, l)
		return len(sc.Pool) - 1
	}
	nb := rapid.IntRange(1, 3).Draw(t, "nbase")
	for bi := 0; bi < nb; bi++ {
		base = bi
		cs := DrawConforming(t, GenOpt{MaxLen: 4, Commands: true, Policies: true, Times: true, Irrelevant: true, Args: true})
		fam := "none"
		if rapid.IntRange(0, 9).Draw(t, "deviate") < 5 {
			fam = focus
			if focus == "none" || rapid.IntRange(0, 9).Draw(t, "otherfam") < 3 {
				fam = rapid.SampledFrom([]string{"principal", "command", "policy", "time"}).Draw(t, "fam")
			}
		}
		n := len(cs.Links)
		switch fam {
		case "principal":
			kinds := []string{"rewire-aud", "rewire-iss", "subject-other", "subject-undef", "last-not-root", "foreign-root", "foreign-root-suffix",
				"subject-other-run", "swap", "duplicate", "truncate-root", "truncate-leaf", "wrong-invoker", "inv-subject-other"}
			ApplyPrincipalDeviation(t, &cs, rapid.SampledFrom(kinds).Draw(t, "devkind"))
		case "command":
			pos := rapid.IntRange(0, n).Draw(t, "cpos")
			if pos == 0 {
				cs.Inv.Cmd = widen(t, cs.Inv.Cmd)
			} else {
				cs.Links[pos-1].Cmd = widen(t, cs.Links[pos-1].Cmd)
			}
			cs.Dev = append(cs.Dev, fmt.Sprintf("cmd@%d/%d", pos, n))
		case "policy":
			li := rapid.IntRange(0, n-1).Draw(t, "flink")
			if s, ok := DrawStmt(t, cs.Inv.Args, false, "false"); ok {
				p := cs.Links[li].Pol
				at := rapid.IntRange(0, len(p)).Draw(t, "fidx")
				cs.Links[li].Pol = append(append(append(pol.Policy{}, p[:at]...), s), p[at:]...)
				cs.Dev = append(cs.Dev, fmt.Sprintf("false-stmt@%d/%d", li, n))
			}
		case "time":
			pos := rapid.IntRange(0, n).Draw(t, "tpos")
			off := rapid.SampledFrom(HourOffsets).Draw(t, "toff")
			if pos == 0 {
				v := -off
				cs.Inv.Exp = &v
			} else if rapid.Bool().Draw(t, "tkind") {
				v := -off
				cs.Links[pos-1].Exp, cs.Links[pos-1].ExpAbs = &v, nil
			} else {
				v := off
				cs.Links[pos-1].Nbf = &v
			}
			cs.Dev = append(cs.Dev, fmt.Sprintf("time@%d/%d", pos, n))
		}
		// a pair of invocations derived from ONE common *args.Args (WithArguments) plus an argument of their own
		// (WithArgument), with a statement of the chain that binds the first one's own argument
		commonSib := len(cs.Links) > 0 && rapid.IntRange(0, 5).Draw(t, "commonsib") == 0
		if commonSib {
			for i := 0; len(cs.Inv.Args) < rapid.SampledFrom([]int{4, 4, 6, 7, 8}).Draw(t, "commonn") && i < 8; i++ {
				k := fmt.Sprintf("f%d", i)
				cs.Inv.Args = append([]val.KV{{K: k, V: val.Int(int64(i))}}, cs.Inv.Args...)
			}
			own := val.KV{K: "own", V: val.Str("mine")}
			cs.Inv.Args = append(cs.Inv.Args, own)
			cs.Inv.CommonArgs = len(cs.Inv.Args) - 1
			li := rapid.IntRange(0, len(cs.Links)-1).Draw(t, "ownlink")
			lit := own.V
			cs.Links[li].Pol = append(append(pol.Policy{}, cs.Links[li].Pol...), pol.Stmt{Op: "==", Sel: sel.Sel{{Kind: "field", Name: "own"}}, Lit: &lit})
		}
		si := StoreInv{Inv: cs.Inv}
		si.Inv.Hook = nil
		for _, l := range cs.Links {
			si.Proof = append(si.Proof, add(l))
		}
		sc.Invs = append(sc.Invs, si)
		sc.Dev = append(sc.Dev, cs.Dev...)
		// a sibling invocation over the same proofs: other arguments / command / nonce, or issued by someone else
		if commonSib {
			n := len(si.Inv.Args)
			sib := StoreInv{Inv: si.Inv, Proof: append([]int{}, si.Proof...)}
			sib.Inv.Args = append(append([]val.KV{}, si.Inv.Args[:n-1]...), val.KV{K: "other", V: val.Int(1)})
			sc.Invs = append(sc.Invs, sib)
			sc.Dev = append(sc.Dev, "common-args-sibling")
		} else if rapid.IntRange(0, 2).Draw(t, "sibling") == 0 {
			sib := StoreInv{Inv: si.Inv, Proof: append([]int{}, si.Proof...)}
			switch rapid.IntRange(0, 4).Draw(t, "sibkind") {
			case 0:
				sib.Inv.Args = DrawArgs(t, "sibargs")
			case 1:
				sib.Inv.Cmd = widen(t, sib.Inv.Cmd)
			case 2:
				sib.Inv.Iss = drawPrin(t, "sibiss")
			case 3:
				sib.Inv.Sub = drawPrin(t, "sibsub")
			default:
				sib.Inv.NonceLen = 20
			}
			sc.Invs = append(sc.Invs, sib)
			sc.Dev = append(sc.Dev, "sibling")
		}
	}
	// an invocation over a drawn sub-sequence of the whole pool
	if rapid.IntRange(0, 3).Draw(t, "cross") == 0 && len(sc.Pool) > 0 {
		base := sc.Invs[rapid.IntRange(0, len(sc.Invs)-1).Draw(t, "crossbase")]
		x := StoreInv{Inv: base.Inv}
		m := rapid.IntRange(0, 4).Draw(t, "crossn")
		for i := 0; i < m; i++ {
			x.Proof = append(x.Proof, rapid.IntRange(0, len(sc.Pool)-1).Draw(t, "crossp"))
		}
		sc.Invs = append(sc.Invs, x)
		sc.Dev = append(sc.Dev, "cross")
	}
	sc.FreshLoads = rapid.IntRange(0, 3).Draw(t, "fresh") == 0
	nops := rapid.IntRange(3, 16).Draw(t, "nops")
	kinds := []string{"check", "check", "check", "check", "check", "check-hook", "remove", "remove", "restore", "restore", "fail", "unfail", "reseal-inv", "reseal-dlg"}
	for i := 0; i < nops; i++ {
		k := rapid.SampledFrom(kinds).Draw(t, "op")
		sc.Ops = append(sc.Ops, StoreOp{Kind: k, I: rapid.IntRange(0, 95).Draw(t, "opi")})
	}
	// the fetch-and-retry pattern: a check that fails because ONE proof of the invocation is not in the store yet,
	// the proof is fetched, the SAME invocation object is checked again. The second verdict is the one a first
	// check against the complete store gives - nothing learnt during the failed attempt may stand in for a rule.
	for g := rapid.IntRange(0, 2).Draw(t, "retries"); g > 0; g-- {
		k := rapid.IntRange(0, len(sc.Invs)-1).Draw(t, "retry_inv")
		if len(sc.Invs[k].Proof) == 0 {
			continue
		}
		j := rapid.IntRange(0, len(sc.Invs[k].Proof)-1).Draw(t, "retry_pos")
		p := sc.Invs[k].Proof[j]
		grp := []StoreOp{{Kind: "remove", I: p}, {Kind: rapid.SampledFrom([]string{"check", "check", "check-hook"}).Draw(t, "retry_c1"), I: k}, {Kind: "restore-exact", I: p}, {Kind: rapid.SampledFrom([]string{"check", "check", "check-hook"}).Draw(t, "retry_c2"), I: k}}
		at := rapid.IntRange(0, len(sc.Ops)).Draw(t, "retry_at")
		sc.Ops = append(append(append([]StoreOp{}, sc.Ops[:at]...), grp...), sc.Ops[at:]...)
		sc.Dev = append(sc.Dev, fmt.Sprintf("retry-after-fetch@%d/%d", j, len(sc.Invs[k].Proof)))
	}
	sc.Ops = append(sc.Ops, StoreOp{Kind: "check", I: rapid.IntRange(0, 23).Draw(t, "lastcheck")})
	return sc
}

// Package tok describes delegation and invocation tokens as plain data,
// builds them through the public constructors with every option, and
// extracts an accessor-level View used by the round-trip / tamper oracles.
package tok

import (
	"fmt"
	"sort"
	"time"

	"github.com/ipfs/go-cid"
	"github.com/ipld/go-ipld-prime"
	"github.com/libp2p/go-libp2p/core/crypto"

	"github.com/ucan-wg/go-ucan/did"
	"github.com/ucan-wg/go-ucan/pkg/args"
	"github.com/ucan-wg/go-ucan/pkg/command"
	"github.com/ucan-wg/go-ucan/token"
	"github.com/ucan-wg/go-ucan/token/delegation"
	"github.com/ucan-wg/go-ucan/token/invocation"

	"verif/harness/keys"
	"verif/harness/pol"
	"verif/harness/val"
)

type KeyRef struct {
	Alg keys.Alg `json:"alg"`
	Idx int      `json:"idx"`
}

func (k KeyRef) Key() *keys.Key { return keys.Get(k.Alg, k.Idx) }

// TimeSpec is either an absolute unix time or an offset from now, in seconds.
type TimeSpec struct {
	Abs bool  `json:"abs,omitempty"`
	V   int64 `json:"v"`
	Ns  int64 `json:"ns,omitempty"` // extra nanoseconds (absolute only)
}

// KVal is a key with a value and the form in which it is handed to Add.
type KVal struct {
	K      string `json:"k"`
	V      val.V  `json:"v"`
	Native bool   `json:"native,omitempty"` // pass a Go native value instead of an IPLD node
}

type Dlg struct {
	OptPerm int `json:"opt_perm,omitempty"` // != 0: the options are handed to the constructor in another order (a permutation derived from this number)
	Iss     KeyRef     `json:"iss"`
	Aud     KeyRef     `json:"aud"`
	Sub     string     `json:"sub"` // none | iss | other
	SubKey  KeyRef     `json:"sub_key"`
	UseRoot bool       `json:"use_root,omitempty"`
	Cmd     string     `json:"cmd"`
	Pol     pol.Policy `json:"pol,omitempty"`
	PolIPLD bool       `json:"pol_via_ipld,omitempty"`
	Nonce   []byte     `json:"nonce,omitempty"`
	Meta    []KVal     `json:"meta,omitempty"`
	Nbf     *TimeSpec  `json:"nbf,omitempty"`
	Exp     *TimeSpec  `json:"exp,omitempty"`
}

type Inv struct {
	OptPerm int `json:"opt_perm,omitempty"`
	Iss        KeyRef    `json:"iss"`
	Sub        KeyRef    `json:"sub"`
	Aud        *KeyRef   `json:"aud,omitempty"`
	Cmd        string    `json:"cmd"`
	Args       []KVal    `json:"args,omitempty"`
	ArgsMerged bool      `json:"args_merged,omitempty"` // WithArguments(*args.Args) instead of WithArgument
	Prf        [][]byte  `json:"prf,omitempty"`
	Meta       []KVal    `json:"meta,omitempty"`
	Nonce      []byte    `json:"nonce,omitempty"`
	EmptyNonce bool      `json:"empty_nonce,omitempty"`
	Exp        *TimeSpec `json:"exp,omitempty"`
	Iat        *TimeSpec `json:"iat,omitempty"`
	NoIat      bool      `json:"no_iat,omitempty"`
	Cause      []byte    `json:"cause,omitempty"`
}

// Tok is one token of either type.
type Tok struct {
	Dlg *Dlg `json:"dlg,omitempty"`
	Inv *Inv `json:"inv,omitempty"`
}

func (t Tok) Issuer() KeyRef {
	if t.Dlg != nil {
		return t.Dlg.Iss
	}
	return t.Inv.Iss
}

func (t Tok) Kind() string {
	if t.Dlg != nil {
		return "dlg"
	}
	return "inv"
}

// Native converts a value description into the Go native value a caller
// would pass to Add (ints as int64, maps as map[string]any, ...).
func Native(v val.V) any {
	switch v.K {
	case "null":
		return v.Node() // there is no Go native for null; use the node
	case "bool":
		return v.B
	case "int":
		return v.I
	case "uint":
		return v.U
	case "float":
		return v.Float64()
	case "str":
		return v.S
	case "strb":
		return string(v.X)
	case "bytes":
		b := v.X
		if b == nil {
			b = []byte{}
		}
		return b
	case "link":
		return v.Cid()
	case "list":
		out := make([]any, len(v.L))
		for i, e := range v.L {
			out[i] = Native(e)
		}
		return out
	case "map":
		out := map[string]any{}
		for _, e := range v.M {
			out[e.K] = Native(e.V)
		}
		return out
	}
	panic("tok.Native: " + v.K)
}

func (k KVal) arg() any {
	if k.Native {
		return Native(k.V)
	}
	return k.V.Node()
}

func (ts TimeSpec) dur() time.Duration { return time.Duration(ts.V) * time.Second }
func (ts TimeSpec) abs() time.Time     { return time.Unix(ts.V, ts.Ns) }

// permute reorders options: the options of one constructor call set different things (the descriptors never
// give one key twice), so their order is not part of the meaning.
func permute[T any](opts []T, seed int) {
	if seed == 0 {
		return
	}
	x := uint64(seed)*6364136223846793005 + 1442695040888963407
	for i := len(opts) - 1; i > 0; i-- {
		x = x*6364136223846793005 + 1442695040888963407
		j := int((x >> 33) % uint64(i+1))
		opts[i], opts[j] = opts[j], opts[i]
	}
}

// BuildDlg runs the delegation constructor.
func BuildDlg(d Dlg) (*delegation.Token, error) {
	cmd, err := command.Parse(d.Cmd)
	if err != nil {
		return nil, fmt.Errorf("descriptor: command: %w", err)
	}
	p, err := d.Pol.Build(d.PolIPLD)
	if err != nil {
		return nil, fmt.Errorf("descriptor: policy: %w", err)
	}
	var opts []delegation.Option
	if d.Nonce != nil {
		opts = append(opts, delegation.WithNonce(d.Nonce))
	}
	for _, m := range d.Meta {
		opts = append(opts, delegation.WithMeta(m.K, m.arg()))
	}
	if d.Nbf != nil {
		if d.Nbf.Abs {
			opts = append(opts, delegation.WithNotBefore(d.Nbf.abs()))
		} else {
			opts = append(opts, delegation.WithNotBeforeIn(d.Nbf.dur()))
		}
	}
	if d.Exp != nil {
		if d.Exp.Abs {
			opts = append(opts, delegation.WithExpiration(d.Exp.abs()))
		} else {
			opts = append(opts, delegation.WithExpirationIn(d.Exp.dur()))
		}
	}
	iss, aud := d.Iss.Key().DID, d.Aud.Key().DID
	if d.UseRoot {
		permute(opts, d.OptPerm)
		return delegation.Root(iss, aud, cmd, p, opts...)
	}
	switch d.Sub {
	case "iss":
		opts = append(opts, delegation.WithSubject(iss))
	case "other":
		opts = append(opts, delegation.WithSubject(d.SubKey.Key().DID))
	}
	permute(opts, d.OptPerm)
	return delegation.New(iss, aud, cmd, p, opts...)
}

// BuildInv runs the invocation constructor.
func BuildInv(iv Inv) (*invocation.Token, error) {
	cmd, err := command.Parse(iv.Cmd)
	if err != nil {
		return nil, fmt.Errorf("descriptor: command: %w", err)
	}
	var opts []invocation.Option
	if iv.ArgsMerged {
		a := args.New()
		for _, e := range iv.Args {
			if err := a.Add(e.K, e.arg()); err != nil {
				return nil, err
			}
		}
		opts = append(opts, invocation.WithArguments(a))
	} else {
		for _, e := range iv.Args {
			opts = append(opts, invocation.WithArgument(e.K, e.arg()))
		}
	}
	if iv.Aud != nil {
		opts = append(opts, invocation.WithAudience(iv.Aud.Key().DID))
	}
	for _, m := range iv.Meta {
		opts = append(opts, invocation.WithMeta(m.K, m.arg()))
	}
	if iv.EmptyNonce {
		opts = append(opts, invocation.WithEmptyNonce())
	} else if iv.Nonce != nil {
		opts = append(opts, invocation.WithNonce(iv.Nonce))
	}
	if iv.Exp != nil {
		if iv.Exp.Abs {
			opts = append(opts, invocation.WithExpiration(iv.Exp.abs()))
		} else {
			opts = append(opts, invocation.WithExpirationIn(iv.Exp.dur()))
		}
	}
	if iv.NoIat {
		opts = append(opts, invocation.WithoutInvokedAt())
	} else if iv.Iat != nil {
		if iv.Iat.Abs {
			opts = append(opts, invocation.WithInvokedAt(iv.Iat.abs()))
		} else {
			opts = append(opts, invocation.WithInvokedAtIn(iv.Iat.dur()))
		}
	}
	if iv.Cause != nil {
		c := val.CidOf(iv.Cause)
		opts = append(opts, invocation.WithCause(&c))
	}
	prf := make([]cid.Cid, 0, len(iv.Prf))
	for _, s := range iv.Prf {
		prf = append(prf, val.CidOf(s))
	}
	permute(opts, iv.OptPerm)
	return invocation.New(iv.Iss.Key().DID, iv.Sub.Key().DID, cmd, prf, opts...)
}

// Build constructs the token; the returned key is the issuer's private key.
func Build(t Tok) (token.Token, crypto.PrivKey, error) {
	if t.Dlg != nil {
		tk, err := BuildDlg(*t.Dlg)
		if err != nil {
			return nil, nil, err
		}
		return tk, t.Dlg.Iss.Key().Priv, nil
	}
	tk, err := BuildInv(*t.Inv)
	if err != nil {
		return nil, nil, err
	}
	return tk, t.Inv.Iss.Key().Priv, nil
}

// ---------- accessor-level view ----------

// View is everything observable through the accessors of a token.
type View struct {
	Type   string
	Iss    did.DID
	Aud    did.DID
	Sub    did.DID
	Cmd    string
	Pol    ipld.Node            // delegation only
	Args   map[string]ipld.Node // invocation only
	ArgKeys []string
	Meta   map[string]ipld.Node
	MetaKeys []string
	Prf    []string
	Nonce  []byte
	Cause  string
	Nbf    *int64
	Exp    *int64
	Iat    *int64
}

func unix(t *time.Time) *int64 {
	if t == nil {
		return nil
	}
	u := t.Unix()
	return &u
}

// ViewOf reads a token through its accessors.
func ViewOf(t token.Token) (View, error) {
	switch x := t.(type) {
	case *delegation.Token:
		v := View{Type: "dlg", Iss: x.Issuer(), Aud: x.Audience(), Sub: x.Subject(), Cmd: x.Command().String(),
			Nonce: x.Nonce(), Nbf: unix(x.NotBefore()), Exp: unix(x.Expiration()), Meta: map[string]ipld.Node{}}
		p, err := x.Policy().ToIPLD()
		if err != nil {
			return v, err
		}
		v.Pol = p
		for k, n := range x.Meta().Iter() {
			v.Meta[k] = n
			v.MetaKeys = append(v.MetaKeys, k)
		}
		return v, nil
	case *invocation.Token:
		v := View{Type: "inv", Iss: x.Issuer(), Aud: x.Audience(), Sub: x.Subject(), Cmd: x.Command().String(),
			Nonce: x.Nonce(), Exp: unix(x.Expiration()), Iat: unix(x.InvokedAt()), Meta: map[string]ipld.Node{}, Args: map[string]ipld.Node{}}
		for k, n := range x.Arguments().Iter() {
			v.Args[k] = n
			v.ArgKeys = append(v.ArgKeys, k)
		}
		for k, n := range x.Meta().Iter() {
			v.Meta[k] = n
			v.MetaKeys = append(v.MetaKeys, k)
		}
		for _, c := range x.Proof() {
			v.Prf = append(v.Prf, c.String())
		}
		if x.Cause() != nil {
			v.Cause = x.Cause().String()
		}
		return v, nil
	}
	return View{}, fmt.Errorf("unknown token type %T", t)
}

func eqI(a, b *int64) bool {
	if a == nil || b == nil {
		return a == nil && b == nil
	}
	return *a == *b
}

func eqMap(a, b map[string]ipld.Node) string {
	ka, kb := keysOf(a), keysOf(b)
	if fmt.Sprint(ka) != fmt.Sprint(kb) {
		return fmt.Sprintf("keys %q vs %q", ka, kb)
	}
	for _, k := range ka {
		if !val.EqualNodes(a[k], b[k]) {
			return fmt.Sprintf("value of %q: %s vs %s", k, val.FromNode(a[k]), val.FromNode(b[k]))
		}
	}
	return ""
}

func keysOf(m map[string]ipld.Node) []string {
	out := make([]string, 0, len(m))
	for k := range m {
		out = append(out, k)
	}
	sort.Strings(out)
	return out
}

// Diff returns "" when both views agree on every field, else the first
// difference as "field: detail".
func Diff(a, b View) string {
	switch {
	case a.Type != b.Type:
		return fmt.Sprintf("type: %s vs %s", a.Type, b.Type)
	case a.Iss != b.Iss:
		return fmt.Sprintf("iss: %s vs %s", a.Iss, b.Iss)
	case a.Aud != b.Aud:
		return fmt.Sprintf("aud: %s vs %s", a.Aud, b.Aud)
	case a.Sub != b.Sub:
		return fmt.Sprintf("sub: %s vs %s", a.Sub, b.Sub)
	case a.Cmd != b.Cmd:
		return fmt.Sprintf("cmd: %q vs %q", a.Cmd, b.Cmd)
	case string(a.Nonce) != string(b.Nonce):
		return fmt.Sprintf("nonce: %x vs %x", a.Nonce, b.Nonce)
	case a.Cause != b.Cause:
		return fmt.Sprintf("cause: %q vs %q", a.Cause, b.Cause)
	case !eqI(a.Nbf, b.Nbf):
		return fmt.Sprintf("nbf: %s vs %s", showI(a.Nbf), showI(b.Nbf))
	case !eqI(a.Exp, b.Exp):
		return fmt.Sprintf("exp: %s vs %s", showI(a.Exp), showI(b.Exp))
	case !eqI(a.Iat, b.Iat):
		return fmt.Sprintf("iat: %s vs %s", showI(a.Iat), showI(b.Iat))
	case fmt.Sprint(a.Prf) != fmt.Sprint(b.Prf):
		return fmt.Sprintf("prf: %v vs %v", a.Prf, b.Prf)
	}
	if (a.Pol == nil) != (b.Pol == nil) || (a.Pol != nil && !val.EqualNodes(a.Pol, b.Pol)) {
		return fmt.Sprintf("pol: %v vs %v", showN(a.Pol), showN(b.Pol))
	}
	if d := eqMap(a.Args, b.Args); d != "" {
		return "args: " + d
	}
	if d := eqMap(a.Meta, b.Meta); d != "" {
		return "meta: " + d
	}
	return ""
}

func showI(p *int64) string {
	if p == nil {
		return "absent"
	}
	return fmt.Sprint(*p)
}

func showN(n ipld.Node) string {
	if n == nil {
		return "nil"
	}
	return val.FromNode(n).String()
}

// Field returns the name of the first differing field ("" if none).
func Field(diff string) string {
	for i := 0; i < len(diff); i++ {
		if diff[i] == ':' {
			return diff[:i]
		}
	}
	return diff
}

// C03 — every policy statement of every delegation in the chain binds the
// arguments; monotone in statements and links; the hook's arguments are the
// ones that are checked.
package c03

import (
	mh "github.com/multiformats/go-multihash"
	"github.com/ipfs/go-cid"
	"fmt"
	"github.com/ucan-wg/go-ucan/pkg/args"
	"os"
	"testing"

	"pgregory.net/rapid"

	"verif/harness/chain"
	"verif/harness/h"
	_ "verif/harness/warm"
	"verif/harness/pol"
	"verif/harness/sel"
	"verif/harness/val"
)

var P = h.New("C03", "exploration",
	"case = principal/command/time-conforming chain of length 1..6, an argument map of 0..5 top-level entries, per link 0..4 flat statements (==,<,<=,>,>=,like,all,any over existing or top-level-missing fields) whose truth on the arguments is fixed by the property text; the number and (link, index) position of false statements is drawn (none / one / several, incl. root and leaf, first and last statement). Variants: extra statement, extra link (self-delegation) inserted, argument hook returning other arguments or an error. Non-trivial = some link has a non-empty policy and (a statement is false or a hook changes the arguments). Distinct by (length, positions of false statements, statement kinds, hook class).")

func TestMain(m *testing.M)   { os.Exit(P.Main(m)) }
func TestReplay(t *testing.T) { P.Replay(t) }

type Case struct {
	chain.Case
	ExtraLink int        `json:"extra_link"` // link that receives the extra statement
	ExtraStmt *pol.Stmt  `json:"extra_stmt,omitempty"`
	InsertAt  int        `json:"insert_at"` // self-delegation inserted after this link (-1: none)
	InsertPol pol.Policy `json:"insert_pol,omitempty"`
}

func posClass(li, n int) string {
	switch {
	case n == 1:
		return "only"
	case li == 0:
		return "leaf"
	case li == n-1:
		return "root"
	}
	return "inner"
}


// elementOrderClause: see the comment inside; d is the decision for the case as drawn.
func elementOrderClause(c *h.Ctx, cs Case, d chain.Decision) {
	// element order: the same chain with the elements of the argument list "files" in another order (reversed, rotated)
	// gets the same verdict - a statement over a list says something about its elements, not about their places
	for _, dv := range cs.Dev {
		if dv != "list-deny-rule" {
			continue
		}
		for variant := 0; variant < 2; variant++ {
			c2 := cs.Case
			reorder := func(kvs []val.KV) []val.KV {
				out := append([]val.KV{}, kvs...)
				for i, e := range out {
					if e.K == "files" && e.V.Kind() == "list" && len(e.V.L) > 1 {
						l := append([]val.V{}, e.V.L...)
						if variant == 0 {
							for a, b := 0, len(l)-1; a < b; a, b = a+1, b-1 {
								l[a], l[b] = l[b], l[a]
							}
						} else {
							l = append(l[1:], l[0])
						}
						out[i].V = val.List(l...)
					}
				}
				return out
			}
			c2.Inv.Args = reorder(cs.Inv.Args)
			if cs.Inv.Hook != nil {
				hk := *cs.Inv.Hook
				hk.Args = reorder(cs.Inv.Hook.Args)
				c2.Inv.Hook = &hk
			}
			b2, err := chain.Build(c2)
			if err != nil {
				continue
			}
			if d2 := chain.Decide(b2, c2.Inv.Hook); d2.Allowed != d.Allowed && !d2.Panicked && !d.Panicked {
				c.Fail("C03/list-order/verdict-depends-on-element-order", "the same chain and arguments with the elements of the list argument in another order (variant %d): allowed=%v, in the drawn order allowed=%v\ncase: %+v", variant, d2.Allowed, d.Allowed, cs)
			}
		}
		c.P.Class("list-order-variants")
	}
}

func run(c *h.Ctx, cs Case) {
	r := chain.Eval(cs.Case)
	if r.PolicyUnspec {
		c.P.Unspecified()
		for _, o := range r.UnspecOps {
			c.P.Class("unspec:" + o)
		}
		// what the statement says is not settled by the reference - that it says the same whatever the order of the
		// list's elements is
		if b, err := chain.Build(cs.Case); err == nil {
			elementOrderClause(c, cs, chain.Decide(b, cs.Inv.Hook))
		}
		return
	}
	if !r.All(1, 7) || !r.R[9] {
		c.Inconclusive("generator broke a non-policy rule: %v", r.Broken())
	}
	b, err := chain.Build(cs.Case)
	if err != nil {
		c.P.Class("build-error")
		c.Logf("build: %v", err)
		return
	}
	d := chain.Decide(b, cs.Inv.Hook)
	if d.Panicked {
		c.P.PanicSeen()
	}
	n := len(cs.Links)
	c.P.Class(fmt.Sprintf("len=%d", n))
	hookClass := "nohook"
	if cs.Inv.Hook != nil {
		hookClass = "hook"
		if cs.Inv.Hook.Err {
			hookClass = "hook-err"
		}
	}
	c.P.Class(hookClass)
	for _, d := range cs.Dev {
		if d == "twin-keys" {
			c.P.Class("twin-keys/" + hookClass)
		}
	}
	if !r.R[8] && !d.Allowed {
		if how, ok := chain.FlakyAllowed(b, n, cs.Inv.Hook); ok {
			c.Fail("C03/flaky-loader/unsatisfied-policy-allowed/"+hookClass, "ExecutionAllowed returned nil although statement(s) %v (link, index) are not satisfied by the checked arguments; %s\ncase: %+v", r.FalseStmts, how, cs)
		}
		c.P.Class("flaky-loader")
	}
	if d.Allowed && !r.R[8] {
		where := "hook"
		if len(r.FalseStmts) > 0 {
			fs := r.FalseStmts[0]
			where = fmt.Sprintf("%s-link/stmt%d-of-%d", posClass(fs[0], n), fs[1], len(cs.Links[fs[0]].Pol))
		}
		c.Fail("C03/unsatisfied-policy-allowed/"+hookClass, "ExecutionAllowed returned nil although statement(s) %v (link, index) are not satisfied by the checked arguments [%s]\ncase: %+v", r.FalseStmts, where, cs)
	}
	for _, fs := range r.FalseStmts {
		c.P.Class("false@" + posClass(fs[0], n))
	}
	elementOrderClause(c, cs, d)
	// hook clause: decision(args A, hook -> B) == decision(args B, no hook)
	if cs.Inv.Hook != nil && !cs.Inv.Hook.Err {
		twin := cs.Case
		twin.Inv.Args = cs.Inv.Hook.Args
		twin.Inv.Hook = nil
		if b2, err := chain.Build(twin); err == nil {
			d2 := chain.Decide(b2, nil)
			if d2.Allowed != d.Allowed {
				c.Fail("C03/hook/args-not-the-ones-checked", "token args A with hook->B: allowed=%v (%s); token args B without hook: allowed=%v (%s)\ncase: %+v", d.Allowed, d.Err, d2.Allowed, d2.Err, cs)
			}
		}
	}
	// history: the decision is about the arguments of THIS call. The same token object checked
	// first with one set of arguments (through the hook), then with another, must give each
	// time what a fresh token gives.
	if cs.Inv.Hook != nil && !cs.Inv.Hook.Err {
		noHook := chain.Decide(b, nil) // token's own args, same object, after the hook call
		fresh := cs.Case
		fresh.Inv.Hook = nil
		if bf, err := chain.Build(fresh); err == nil {
			if df := chain.Decide(bf, nil); df.Allowed != noHook.Allowed {
				c.Fail("C03/history/decision-depends-on-earlier-call", "after a check through the hook (allowed=%v), the same token checked with its own arguments is allowed=%v, a fresh token allowed=%v\ncase: %+v", d.Allowed, noHook.Allowed, df.Allowed, cs)
			}
		}
		again := chain.Decide(b, cs.Inv.Hook)
		if again.Allowed != d.Allowed {
			c.Fail("C03/history/decision-depends-on-earlier-call", "the same hook check repeated on the same token gives allowed=%v then %v", d.Allowed, again.Allowed)
		}
		c.P.Class("history:hook-then-own-args")
	}
	// history: a hook that hands back THE SAME *args.Args object on every call, which its owner has extended
	// in between (an enrichment pipeline): each check is about the arguments as they are at that call
	if cs.Inv.Hook != nil && !cs.Inv.Hook.Err && len(cs.Inv.Hook.Args) >= 1 {
		full := cs.Inv.Hook.Args
		if shared, err := chain.BuildArgs(full[:len(full)-1]); err == nil {
			fn := func(args.ReadOnly) (*args.Args, error) { return shared, nil }
			first := cs.Case
			first.Inv.Hook = &chain.Hook{Args: full[:len(full)-1]}
			r1 := chain.Eval(first)
			d1 := chain.DecideWithHookFn(b, fn)
			if d1.Allowed && !r1.R[8] && !r1.PolicyUnspec {
				c.Fail("C03/history/hook-args-object-reused", "first call with the shared arguments object: allowed although statements %v are not satisfied", r1.FalseStmts)
			}
			last := full[len(full)-1]
			if err := shared.Add(last.K, last.V.Node()); err == nil {
				d2 := chain.DecideWithHookFn(b, fn)
				if d2.Allowed && !r.R[8] {
					c.Fail("C03/history/hook-args-object-reused", "the hook returned the same *args.Args object as on the previous call, extended by %q in between: the check allowed the invocation although the arguments as they are NOW violate statements %v (the previous call saw them without %q: allowed=%v)\ncase: %+v", last.K, r.FalseStmts, last.K, d1.Allowed, cs)
				}
				if !d2.Allowed && r.R[8] && d.Allowed {
					c.P.Class("history:shared-args-object:denied-though-satisfied") // C05's direction, not judged here
				}
				c.P.Class("history:shared-args-object")
			}
		}
	}
	if cs.Inv.Hook != nil && cs.Inv.Hook.Err && d.Allowed {
		c.Fail("C03/hook/error-ignored", "hook returned an error but the invocation was allowed")
	}
	// monotonicity: one more statement never turns denied into allowed
	if cs.ExtraStmt != nil && n > 0 && !d.Allowed && !d.Panicked {
		more := cs.Case
		more.Links = append([]chain.Link{}, cs.Links...)
		li := cs.ExtraLink % n
		more.Links[li].Pol = append(append(pol.Policy{}, more.Links[li].Pol...), *cs.ExtraStmt)
		if b3, err := chain.Build(more); err == nil {
			if d3 := chain.Decide(b3, cs.Inv.Hook); d3.Allowed {
				c.Fail("C03/monotone/extra-statement", "denied invocation became allowed after adding statement %+v to link %d\ncase: %+v", *cs.ExtraStmt, li, cs)
			}
			c.P.Class("mono-stmt")
		}
	}
	// monotonicity: one more (self-delegation) link never turns denied into allowed
	if cs.InsertAt >= 0 && n > 0 && !d.Allowed && !d.Panicked {
		i := cs.InsertAt % n
		base := cs.Links[i]
		extra := chain.Link{Iss: base.Iss, Aud: base.Iss, Sub: base.Sub, Cmd: base.Cmd, Pol: cs.InsertPol, Nonce: 200}
		more := cs.Case
		more.Links = append(append(append([]chain.Link{}, cs.Links[:i+1]...), extra), cs.Links[i+1:]...)
		if r2 := chain.Eval(more); r2.All(1, 7) && r2.R[9] {
			if b4, err := chain.Build(more); err == nil {
				if d4 := chain.Decide(b4, cs.Inv.Hook); d4.Allowed {
					c.Fail("C03/monotone/extra-link", "denied invocation became allowed after inserting a delegation after link %d\ncase: %+v", i, cs)
				}
				c.P.Class("mono-link")
			}
		}
	}
	hasPol := false
	kinds := map[string]int{}
	for _, l := range cs.Links {
		if len(l.Pol) > 0 {
			hasPol = true
		}
		for k, v := range l.Pol.Kinds() {
			kinds[k] += v
		}
	}
	hookChanges := cs.Inv.Hook != nil
	if hasPol && (len(r.FalseStmts) > 0 || hookChanges) {
		c.P.NonTrivial([]any{n, r.FalseStmts, kinds, hookClass},
			map[string]any{"case": cs.Case, "false_statements": r.FalseStmts, "allowed": d.Allowed, "err": d.Err})
	}
}

func draw(t *rapid.T) Case {
	var cs Case
	cs.Case = chain.DrawConforming(t, chain.GenOpt{MaxLen: 6, Commands: true, Policies: true, Args: true, Irrelevant: true})
	n := len(cs.Links)
	// falsify: none / one / several
	nf := rapid.SampledFrom([]int{0, 1, 1, 1, 2, 3}).Draw(t, "nfalse")
	for k := 0; k < nf; k++ {
		li := rapid.IntRange(0, n-1).Draw(t, "flink")
		s, ok := chain.DrawStmt(t, cs.Inv.Args, false, fmt.Sprintf("false%d", k))
		if !ok {
			continue
		}
		p := cs.Links[li].Pol
		at := rapid.IntRange(0, len(p)).Draw(t, "fidx")
		np := append(append(append(pol.Policy{}, p[:at]...), s), p[at:]...)
		cs.Links[li].Pol = np
	}
	if rapid.IntRange(0, 5).Draw(t, "prefixpols") == 0 {
		chain.MakePrefixPols(&cs.Case)
	}
	switch rapid.IntRange(0, 5).Draw(t, "hookmode") {
	case 0, 1:
		cs.Inv.Hook = &chain.Hook{Args: chain.DrawArgs(t, "hookargs")}
	case 2:
		// hook that alters a single value of the token's own arguments
		hk := append([]val.KV{}, cs.Inv.Args...)
		if len(hk) > 0 {
			i := rapid.IntRange(0, len(hk)-1).Draw(t, "hki")
			if hk[i].V.Kind() == "int" {
				hk[i].V = val.Int(hk[i].V.I + int64(rapid.IntRange(-3, 3).Draw(t, "hkd")))
			} else {
				hk = append(hk[:i], hk[i+1:]...)
			}
		}
		cs.Inv.Hook = &chain.Hook{Args: hk}
	case 3:
		if rapid.IntRange(0, 3).Draw(t, "hookerr") == 0 {
			cs.Inv.Hook = &chain.Hook{Args: cs.Inv.Args, Err: true}
		}
	}
	if rapid.IntRange(0, 5).Draw(t, "twinfocus") == 3 {
		// two argument names of which one is the other DECORATED with characters that mean something to a selector
		// parser, holding neighbouring values, and a statement that is FALSE for the key it names and would be true
		// for its twin (or for "no such key"): the statement binds the argument it names
		base := rapid.SampledFrom([]string{"role", "a", "n", "x1"}).Draw(t, "twin_base")
		deco := fmt.Sprintf(rapid.SampledFrom([]string{"'%s'", "%s?", ".%s", "[%s]", "%s[]", " %s", "%s ", "%s.", "'%s", "%s'", "`%s`", "(%s)", "%s[0]", "$%s", "%s:", "-%s", "['%s']"}).Draw(t, "twin_deco"), base)
		v := int64(rapid.IntRange(0, 9).Draw(t, "twin_v"))
		var keep []val.KV
		for _, e := range cs.Inv.Args {
			if e.K != base && e.K != deco {
				keep = append(keep, e)
			}
		}
		withBase := rapid.Bool().Draw(t, "twin_withbase")
		if withBase {
			keep = append(keep, val.KV{K: base, V: val.Int(v)})
		}
		keep = append(keep, val.KV{K: deco, V: val.Int(v + 1)})
		cs.Inv.Args = keep
		if cs.Inv.Hook != nil {
			// the hook hands back the same argument set: the statement is about the arguments that are checked
			cs.Inv.Hook.Args = append([]val.KV{}, keep...)
		}
		lit := val.Int(v)
		st := pol.Stmt{Op: "==", Sel: sel.Sel{{Kind: "qfield", Name: deco, Opt: !withBase && rapid.Bool().Draw(t, "twin_opt")}}, Lit: &lit}
		if withBase && rapid.IntRange(0, 3).Draw(t, "twin_mirror") == 0 {
			lit2 := val.Int(v + 1)
			st = pol.Stmt{Op: "==", Sel: sel.Sel{{Kind: "field", Name: base}}, Lit: &lit2}
		}
		li := rapid.IntRange(0, n-1).Draw(t, "twin_link")
		cs.Links[li].Pol = append(append(pol.Policy{}, cs.Links[li].Pol...), st)
		cs.Dev = append(cs.Dev, "twin-keys")
	}
	if rapid.IntRange(0, 5).Draw(t, "valuetwin") == 2 {
		// an argument holding a value, and a statement comparing it with a DIFFERENT value that some notion of "the
		// same" merges with it: a link to the same multihash under another CID version or codec, a string in another
		// letter case or normal form, the bytes of the string - alone and nested in a list or map. The reference
		// evaluator says what the statement is (false for ==, true under not); a false one binds like any other.
		seed := rapid.SliceOfN(rapid.Byte(), 1, 3).Draw(t, "vt_seed")
		dg, _ := mh.Sum(append([]byte("verif-c03-link/"), seed...), mh.SHA2_256, -1)
		lk := func(c cid.Cid) val.V { return val.V{K: "link", S: c.String()} }
		pairs := [][2]val.V{
			{lk(cid.NewCidV0(dg)), lk(cid.NewCidV1(cid.DagProtobuf, dg))}, {lk(cid.NewCidV0(dg)), lk(cid.NewCidV1(cid.Raw, dg))}, {lk(cid.NewCidV0(dg)), lk(cid.NewCidV1(cid.DagCBOR, dg))},
			{lk(cid.NewCidV1(cid.DagCBOR, dg)), lk(cid.NewCidV0(dg))}, {lk(cid.NewCidV1(cid.Raw, dg)), lk(cid.NewCidV1(cid.DagCBOR, dg))}, {lk(cid.NewCidV1(cid.DagJSON, dg)), lk(cid.NewCidV1(cid.DagCBOR, dg))},
			{val.Str("admin"), val.Str("Admin")}, {val.Str("é"), val.Str("e\u0301")}, {val.Str("abc"), val.Bytes([]byte("abc"))}, {val.Str("a"), val.Str("a ")},
		}
		pr := rapid.SampledFrom(pairs).Draw(t, "vt_pair")
		a, b := pr[0], pr[1]
		switch rapid.IntRange(0, 3).Draw(t, "vt_shape") {
		case 1:
			a, b = val.List(a), val.List(b)
		case 2:
			a, b = val.Map(val.E("ref", a)), val.Map(val.E("ref", b))
		case 3:
			a, b = val.List(val.Int(1), val.Map(val.E("ref", a))), val.List(val.Int(1), val.Map(val.E("ref", b)))
		}
		var keep []val.KV
		for _, e := range cs.Inv.Args {
			if e.K != "ref" {
				keep = append(keep, e)
			}
		}
		keep = append(keep, val.KV{K: "ref", V: a})
		cs.Inv.Args = keep
		if cs.Inv.Hook != nil {
			cs.Inv.Hook.Args = append([]val.KV{}, keep...)
		}
		st := pol.Stmt{Op: "==", Sel: sel.Sel{{Kind: "field", Name: "ref"}}, Lit: &b}
		switch rapid.IntRange(0, 3).Draw(t, "vt_wrap") {
		case 1:
			st = pol.Stmt{Op: "not", Sub: []pol.Stmt{st}}
		case 2:
			st = pol.Stmt{Op: "and", Sub: []pol.Stmt{st}}
		}
		li := rapid.IntRange(0, n-1).Draw(t, "vt_link")
		cs.Links[li].Pol = append(append(pol.Policy{}, cs.Links[li].Pol...), st)
		cs.Dev = append(cs.Dev, "value-twin")
	}
	if rapid.IntRange(0, 6).Draw(t, "listorder") == 3 {
		// a deny-list over the elements of an argument list - not(any(.files, == .owner? "root")), all(.files, ...) -
		// whose inner statement reads an OPTIONAL field that some elements lack; the elements in a drawn order (the
		// invoker chooses it): what the statement says about the list does not depend on where the offending element
		// stands among elements that lack the field. The reference evaluator decides what it says.
		mk := func(owner string, i int) val.V {
			if owner == "" {
				return val.Map(val.E("name", val.Str(fmt.Sprintf("f%d", i))))
			}
			return val.Map(val.E("owner", val.Str(owner)), val.E("name", val.Str(fmt.Sprintf("f%d", i))))
		}
		nEl := rapid.IntRange(1, 5).Draw(t, "lo_n")
		var els []val.V
		for i := 0; i < nEl; i++ {
			els = append(els, mk(rapid.SampledFrom([]string{"", "", "root", "alice"}).Draw(t, "lo_owner"), i))
		}
		var keep []val.KV
		for _, e := range cs.Inv.Args {
			if e.K != "files" {
				keep = append(keep, e)
			}
		}
		keep = append(keep, val.KV{K: "files", V: val.List(els...)})
		cs.Inv.Args = keep
		if cs.Inv.Hook != nil {
			cs.Inv.Hook.Args = append([]val.KV{}, keep...)
		}
		root := val.Str("root")
		inner := pol.Stmt{Op: "==", Sel: sel.Sel{{Kind: "field", Name: "owner", Opt: rapid.IntRange(0, 3).Draw(t, "lo_opt") > 0}}, Lit: &root}
		files := sel.Sel{{Kind: "field", Name: "files"}}
		var st pol.Stmt
		switch rapid.IntRange(0, 3).Draw(t, "lo_form") {
		case 0, 1:
			st = pol.Stmt{Op: "not", Sub: []pol.Stmt{{Op: "any", Sel: files, Sub: []pol.Stmt{inner}}}}
		case 2:
			st = pol.Stmt{Op: "all", Sel: files, Sub: []pol.Stmt{{Op: "not", Sub: []pol.Stmt{inner}}}}
		default:
			st = pol.Stmt{Op: "any", Sel: files, Sub: []pol.Stmt{inner}}
		}
		li := rapid.IntRange(0, n-1).Draw(t, "lo_link")
		cs.Links[li].Pol = append(append(pol.Policy{}, cs.Links[li].Pol...), st)
		cs.Dev = append(cs.Dev, "list-deny-rule")
	}
	eff := cs.Inv.Args
	if cs.Inv.Hook != nil {
		eff = cs.Inv.Hook.Args
	}
	if rapid.Bool().Draw(t, "extrastmt") {
		if s, ok := chain.DrawStmt(t, eff, rapid.Bool().Draw(t, "extratruth"), "extra"); ok {
			cs.ExtraStmt = &s
			cs.ExtraLink = rapid.IntRange(0, 5).Draw(t, "extralink")
		}
	}
	cs.InsertAt = -1
	if rapid.Bool().Draw(t, "insert") {
		cs.InsertAt = rapid.IntRange(0, 5).Draw(t, "insertat")
		m := rapid.IntRange(0, 2).Draw(t, "insn")
		for j := 0; j < m; j++ {
			if s, ok := chain.DrawStmt(t, eff, rapid.Bool().Draw(t, "instruth"), fmt.Sprintf("ins%d", j)); ok {
				cs.InsertPol = append(cs.InsertPol, s)
			}
		}
	}
	return cs
}

var prop = h.Define(P, "chain", draw, run)

func TestChain(t *testing.T) { prop.Check(t) }

// History clause over a shared delegation store (chain/store.go): checks interleaved with loader
// changes, re-decoding and sibling invocations over the same delegations; every decision is compared
// with the reference rules for the store as it is at that moment.
var storeProp = h.Define(P, "store", func(t *rapid.T) chain.StoreCase { return chain.DrawStore(t, "policy") },
	func(c *h.Ctx, sc chain.StoreCase) { chain.RunStore(c, sc, "C03") })

func TestStore(t *testing.T) { storeProp.Check(t) }

// Concurrent checks of different invocations over different chains (chain/conc.go), race-detector build.
var concChainsProp = h.Define(P, "concchains", chain.DrawConcChains, func(c *h.Ctx, cc chain.ConcChains) { chain.RunConcChains(c, cc, "C03") })

func TestConcurrentChains(t *testing.T) { concChainsProp.Check(t) }

// Argument presentation (chain/argorder.go): the statements bind the arguments, not the way they were filled in.
var argOrderProp = h.Define(P, "argorder", chain.DrawArgOrder, func(c *h.Ctx, ac chain.ArgOrderCase) { chain.RunArgOrder(c, ac, "C03") })

func TestArgOrder(t *testing.T) { argOrderProp.Check(t) }

// TestWorkScaling: the TOTAL work of a check (statements x argument size, summed over the links) grown over four
// orders of magnitude, with one violated statement on the root link - in the shapes a resource limit is most likely
// to let through (optional first segment, optional slices, quantifiers). However much the other links make the
// evaluator work, the violated statement still denies; adding the heavy link never turns the denial into an approval.
func TestWorkScaling(t *testing.T) {
	ctx := &h.Ctx{P: P, T: t}
	budget := h.N(40_000_000, 400_000_000)
	zero, read, minus := val.Int(0), val.Str("read"), val.Int(-1)
	opt := func(name string) sel.Seg { return sel.Seg{Kind: "field", Name: name, Opt: true} }
	from0 := int64(0)
	heavy := []pol.Stmt{
		{Op: ">=", Sel: sel.Sel{opt("batch"), {Kind: "slice", From: &from0, Opt: true}, {Kind: "index", Idx: 0, Opt: true}}, Lit: &zero},
		{Op: "all", Sel: sel.Sel{opt("batch")}, Sub: []pol.Stmt{{Op: ">=", Sel: sel.Sel{{Kind: "id"}}, Lit: &zero}}},
		{Op: ">=", Sel: sel.Sel{{Kind: "field", Name: "batch"}, {Kind: "index", Idx: -1}}, Lit: &zero},
	}
	violated := []pol.Stmt{
		{Op: "==", Sel: sel.Sel{opt("scope")}, Lit: &read},
		{Op: "==", Sel: sel.Sel{{Kind: "field", Name: "scope"}}, Lit: &read},
		{Op: "any", Sel: sel.Sel{opt("batch")}, Sub: []pol.Stmt{{Op: "==", Sel: sel.Sel{{Kind: "id"}}, Lit: &minus}}},
		{Op: "like", Sel: sel.Sel{opt("scope")}, Pat: "re*"},
	}
	n := 0
	for _, m := range []int{16, 4096, 65536} {
		batch := val.V{K: "list"}
		for i := 0; i < m; i++ {
			batch.L = append(batch.L, val.Int(int64(i%7)))
		}
		args := []val.KV{{K: "batch", V: batch}, {K: "scope", V: val.Str("write")}}
		for _, k := range []int{1, 16, 256, 1100, 4096, 16384} {
			for hi, hs := range heavy {
				cost := k * m
				if hi == 2 {
					cost = k
				}
				if cost > budget {
					continue
				}
				var hp pol.Policy
				for i := 0; i < k; i++ {
					hp = append(hp, hs)
				}
				for vi, vs := range violated {
					for _, heavyAt := range []int{0, 1} { // the heavy link nearer the invoker, or the root itself carries both
						cs := chain.Case{Links: []chain.Link{{Iss: 1, Aud: 2, Sub: 0, Cmd: "/", Nonce: 1}, {Iss: 0, Aud: 1, Sub: 0, Cmd: "/", Nonce: 2}},
							Inv: chain.Inv{Iss: 2, Sub: 0, Aud: -1, Cmd: "/x", NonceLen: 12, Args: args}}
						cs.Links[1].Pol = pol.Policy{vs}
						if heavyAt == 0 {
							cs.Links[0].Pol = hp
						} else {
							cs.Links[1].Pol = append(append(pol.Policy{}, hp...), vs)
						}
						b, err := chain.Build(cs)
						if err != nil {
							P.Class("scaling:build-error")
							continue
						}
						n++
						for _, hook := range []bool{false, true} {
							var d chain.Decision
							if hook {
								d = chain.DecideIdentityHook(b)
							} else {
								d = chain.Decide(b, nil)
							}
							if d.Allowed {
								ctx.Fail("C03/scaling/unsatisfied-policy-allowed", "the root link's statement %d (%s) is violated by the arguments (scope = \"write\", no -1 in batch), yet the invocation is allowed (hook=%v) when %d heavy statements (shape %d) over a %d-element list stand on link %d; with one such statement it is denied", vi, vs.Op, hook, k, hi, m, heavyAt)
								return
							}
						}
					}
				}
			}
		}
	}
	P.EvalN(n)
	P.AddDistinct(n)
	P.SetExtra("work_scaling_cases", n)
}

// TestOnePolicyManyInvocations: ONE delegation object (as built, held by the loader) whose policy slices an argument with
// open and negative bounds - .name[-4:], .name[1:], .list[:-1], .list[-2:][0] - checked against invocations whose
// argument has another length each time, in several orders, through the plain check and the identity hook. Every
// verdict is the reference evaluator's verdict for THAT invocation; what the policy was evaluated on before is nothing
// to it.
func TestOnePolicyManyInvocations(t *testing.T) {
	ctx := &h.Ctx{P: P, T: t}
	ip := func(i int64) *int64 { return &i }
	txt, one, two := val.Str(".txt"), val.Int(1), val.List(val.Int(1), val.Int(2))
	name := sel.Seg{Kind: "field", Name: "name"}
	list := sel.Seg{Kind: "field", Name: "list"}
	stmts := []pol.Stmt{
		{Op: "==", Sel: sel.Sel{name, {Kind: "slice", From: ip(-4)}}, Lit: &txt},
		{Op: "like", Sel: sel.Sel{name, {Kind: "slice", From: ip(1)}}, Pat: "*.txt"},
		{Op: "==", Sel: sel.Sel{list, {Kind: "slice", To: ip(-1)}}, Lit: &two},
		{Op: "==", Sel: sel.Sel{list, {Kind: "slice", From: ip(-2)}, {Kind: "index", Idx: 0}}, Lit: &one},
		{Op: "not", Sub: []pol.Stmt{{Op: "==", Sel: sel.Sel{name, {Kind: "slice", From: ip(-4)}}, Lit: &txt}}},
	}
	names := []string{"a.txt", "a.txt.exe", "x.txt", "txt", "report.final.txt", "", ".txt", "é.txt", "a.txt.exe.txt"}
	lists := []val.V{val.List(val.Int(1), val.Int(2), val.Int(3)), val.List(val.Int(1), val.Int(2)), val.List(val.Int(9), val.Int(1), val.Int(2), val.Int(3)), val.List(), val.List(val.Int(1))}
	n := 0
	for si, st := range stmts {
		for _, polIPLD := range []bool{false, true} {
			var cs chain.Case
			cs.Inv = chain.Inv{Iss: 0, Sub: 1, Aud: -1, NonceLen: 12, Cmd: "/foo"}
			cs.Links = []chain.Link{{Iss: 1, Aud: 0, Sub: 1, Cmd: "/foo", Pol: pol.Policy{st}, PolIPLD: polIPLD}}
			b, err := chain.Build(cs)
			if err != nil {
				t.Fatalf("INCONCLUSIVE cannot build the base chain: %v", err)
			}
			for order := 0; order < 3; order++ {
				for k := 0; k < len(names)*len(lists); k++ {
					i := k
					if order == 1 {
						i = len(names)*len(lists) - 1 - k
					} else if order == 2 {
						i = (k * 7) % (len(names) * len(lists))
					}
					argsKV := []val.KV{{K: "name", V: val.Str(names[i%len(names)])}, {K: "list", V: lists[i/len(names)%len(lists)]}}
					inv := cs.Inv
					inv.Args = argsKV
					tk, err := chain.BuildInv(inv, b.Cids)
					if err != nil {
						continue
					}
					want := pol.Eval(st, val.V{K: "map", M: argsKV})
					if want != pol.True && want != pol.False && want != pol.Unresolved {
						continue
					}
					allowedWant := want == pol.True
					if want == pol.Unresolved {
						allowedWant = false // a required selector that fails: not satisfied
						if st.Op == "not" {
							continue
						}
					}
					b2 := *b
					b2.Inv = tk
					for hook := 0; hook < 2; hook++ {
						var d chain.Decision
						if hook == 0 {
							d = chain.Decide(&b2, nil)
						} else {
							d = chain.DecideIdentityHook(&b2)
						}
						n++
						if d.Allowed != allowedWant {
							ctx.Fail("C03/one-policy-many-invocations", "statement %d (IPLD-built: %v), the same delegation object checked against its %d-th invocation (order %d, hook %d), arguments %v: allowed=%v (%s), the reference says the statement is %v", si, polIPLD, k+1, order, hook, argsKV, d.Allowed, d.Err, want)
							return
						}
					}
				}
			}
		}
	}
	P.EvalN(n)
	P.AddDistinct(len(stmts) * len(names) * len(lists))
}

// C08 — a token's CID is the content address of its canonical sealed bytes.
package c08

import (
	"bufio"
	"encoding/binary"
	"strings"
	"io"
	"errors"
	"sync"
	"github.com/libp2p/go-libp2p/core/crypto"
	"bytes"
	"crypto/elliptic"
	"crypto/sha256"
	"encoding/asn1"
	"fmt"
	"math/big"
	"os"
	"testing"
	"testing/iotest"

	secp "github.com/decred/dcrd/dcrec/secp256k1/v4"
	"github.com/ipfs/go-cid"
	"github.com/ipld/go-ipld-prime"
	"github.com/ipld/go-ipld-prime/codec/dagcbor"
	mh "github.com/multiformats/go-multihash"
	"pgregory.net/rapid"

	"github.com/ucan-wg/go-ucan/pkg/container"
	"github.com/ucan-wg/go-ucan/token"
	"github.com/ucan-wg/go-ucan/token/delegation"
	"github.com/ucan-wg/go-ucan/token/invocation"

	"verif/harness/cbor"
	"verif/harness/h"
	_ "verif/harness/warm"
	"verif/harness/keys"
	"verif/harness/tok"
	"verif/harness/val"
)

var P = h.New("C08", "exploration",
	"(1) address: generated tokens (all options, six key algorithms) through ToSealed, ToSealedWriter, FromSealed, FromSealedReader (generic and typed) and as container keys; every reported CID must be 01 71 12 20 || sha256(bytes). (2) canonicity: for a generated token, every data-preserving re-encoding kind (non-minimal 1/2/4/8-byte heads, indefinite lengths, permuted map keys, undefined for null, shorter float, third envelope element, trailing byte) at every applicable CBOR item, and key-less signature re-encodings (ECDSA s -> n-s, DER long-form length, DER padded integer); each variant must be rejected or get the same CID. Non-trivial (2) = the variant differs from the original and still decodes to equal data under go-ipld-prime (or is a signature variant). Distinct by (token, kind, item index).")

func TestMain(m *testing.M) { os.Exit(P.Main(m)) }
func TestReplay(t *testing.T) { P.Replay(t) }

func refCID(b []byte) []byte {
	s := sha256.Sum256(b)
	return append([]byte{0x01, 0x71, 0x12, 0x20}, s[:]...)
}

func cidOK(c cid.Cid, data []byte) bool { return bytes.Equal(c.Bytes(), refCID(data)) }

// ---------- (1) address ----------

type AddrCase struct {
	Tok tok.Tok `json:"tok"`
	// Faults: streaming operations on the same sealed bytes whose reader / writer fails at a drawn point, run
	// BEFORE the healthy ones. Each fails or reports the right CID; the healthy operations after them report
	// the right CID as if nothing had happened before.
	Faults []Fault `json:"faults,omitempty"`
}

type Fault struct {
	Op    string `json:"op"`   // read | write
	Kind  int    `json:"kind"` // read: 0 error at offset, 1 error together with the data ending at offset then EOF, 2 the same then the stream continues, 3 (0, err) once then continues; write: 0 error at offset, 1 short write without error
	At    int    `json:"at"`   // offset from the END of the sealed bytes (0 = with / after the last byte)
	Chunk int    `json:"chunk"`
}

var errInjected = errors.New("verif: injected stream fault")

type faultReader struct {
	data  []byte
	off   int
	at    int
	kind  int
	chunk int
	fired bool
}

func (r *faultReader) Read(p []byte) (int, error) {
	if r.fired && r.kind == 0 {
		return 0, errInjected
	}
	if r.fired && r.kind == 1 {
		return 0, io.EOF
	}
	if !r.fired && r.off >= r.at && (r.kind == 0 || r.kind == 3) {
		r.fired = true
		return 0, errInjected
	}
	if r.off >= len(r.data) {
		return 0, io.EOF
	}
	n := len(p)
	if r.chunk > 0 && n > r.chunk {
		n = r.chunk
	}
	if n > len(r.data)-r.off {
		n = len(r.data) - r.off
	}
	if !r.fired && r.off < r.at && r.off+n >= r.at {
		n = r.at - r.off
		copy(p, r.data[r.off:r.off+n])
		r.off += n
		if r.kind == 1 || r.kind == 2 {
			r.fired = true
			return n, errInjected
		}
		return n, nil
	}
	copy(p, r.data[r.off:r.off+n])
	r.off += n
	return n, nil
}

type faultWriter struct {
	buf  bytes.Buffer
	at   int
	kind int
}

func (w *faultWriter) Write(p []byte) (int, error) {
	if w.buf.Len()+len(p) <= w.at {
		return w.buf.Write(p)
	}
	n := w.at - w.buf.Len()
	if n < 0 {
		n = 0
	}
	w.buf.Write(p[:n])
	if w.kind == 1 {
		return n, nil
	}
	return n, errInjected
}

func runAddr(c *h.Ctx, ac AddrCase) {
	d := ac.Tok
	tk, priv, err := tok.Build(d)
	if err != nil {
		c.P.Class("constructor-rejected")
		return
	}
	alg := d.Issuer().Alg
	sealed, id, err := tk.ToSealed(priv)
	if err != nil {
		c.P.Class("seal-error")
		return
	}
	if !cidOK(id, sealed) {
		c.Fail("C08/address/ToSealed", "ToSealed reported %s for bytes whose CIDv1(dag-cbor, sha2-256) is %x", id, refCID(sealed))
	}
	var buf bytes.Buffer
	id2, err := tk.ToSealedWriter(&buf, priv)
	if err != nil {
		c.Fail("C08/address/ToSealedWriter-error", "ToSealedWriter failed on a token ToSealed accepts: %v", err)
	} else {
		if !cidOK(id2, buf.Bytes()) {
			c.Fail("C08/address/ToSealedWriter", "ToSealedWriter reported %s, the bytes written hash to %x", id2, refCID(buf.Bytes()))
		}
		if alg == keys.Ed25519 || alg == keys.RSA {
			if !bytes.Equal(buf.Bytes(), sealed) || id2 != id {
				c.Fail("C08/address/writer-vs-buffer", "ToSealedWriter and ToSealed disagree for a deterministic signature scheme (%s)", alg)
			}
		}
	}
	// sealing into a writer that already holds data (a frame header, a previous token): the CID is
	// that of the bytes THIS call wrote
	for _, prefix := range [][]byte{[]byte("frame-header:"), sealed} {
		pre := bytes.NewBuffer(append([]byte{}, prefix...))
		if id3, err := tk.ToSealedWriter(pre, priv); err == nil {
			written := pre.Bytes()[len(prefix):]
			if !cidOK(id3, written) {
				c.Fail("C08/address/ToSealedWriter-into-used-buffer", "ToSealedWriter into a buffer already holding %d bytes reported %s; the %d bytes it appended hash to %x", len(prefix), id3, len(written), refCID(written))
			}
		}
	}
	for _, f := range ac.Faults {
		at := len(sealed) - f.At
		if at < 0 {
			at = 0
		}
		switch f.Op {
		case "read":
			fr := &faultReader{data: sealed, at: at, kind: f.Kind % 4, chunk: f.Chunk}
			var got cid.Cid
			var ferr error
			if d.Dlg != nil && f.Chunk%2 == 0 {
				_, got, ferr = delegation.FromSealedReader(fr)
			} else if d.Dlg == nil && f.Chunk%2 == 0 {
				_, got, ferr = invocation.FromSealedReader(fr)
			} else {
				_, got, ferr = token.FromSealedReader(fr)
			}
			c.P.Class(fmt.Sprintf("fault:read/%d:%s", f.Kind%4, map[bool]string{true: "refused", false: "accepted"}[ferr != nil]))
			if ferr == nil && !cidOK(got, sealed) {
				c.Fail("C08/address/faulted-reader", "FromSealedReader on a stream with a fault (kind %d, %d bytes from the end) succeeded and reported %s; the sealed bytes hash to %x", f.Kind%4, f.At, got, refCID(sealed))
			}
		default:
			fw := &faultWriter{at: at, kind: f.Kind % 2}
			got, ferr := tk.ToSealedWriter(fw, priv)
			c.P.Class(fmt.Sprintf("fault:write/%d:%s", f.Kind%2, map[bool]string{true: "refused", false: "accepted"}[ferr != nil]))
			if ferr == nil && fw.buf.Len() > 0 && !cidOK(got, fw.buf.Bytes()) && f.Kind%2 == 0 {
				c.Fail("C08/address/faulted-writer", "ToSealedWriter into a failing writer reported success and %s; the %d bytes that reached the writer hash to %x", got, fw.buf.Len(), refCID(fw.buf.Bytes()))
			}
		}
	}
	if len(ac.Faults) > 0 {
		// after the faulted operations: the healthy writer path once more
		var again bytes.Buffer
		if id4, err := tk.ToSealedWriter(&again, priv); err == nil && !cidOK(id4, again.Bytes()) {
			c.Fail("C08/address/ToSealedWriter-after-faulted-stream", "after %d streaming operation(s) that met a fault, ToSealedWriter reported %s for bytes hashing to %x", len(ac.Faults), id4, refCID(again.Bytes()))
		}
	}
	type dec struct {
		name string
		f    func() (cid.Cid, error)
	}
	decs := []dec{
		{"token.FromSealed", func() (cid.Cid, error) { _, c, err := token.FromSealed(sealed); return c, err }},
		{"token.FromSealedReader", func() (cid.Cid, error) { _, c, err := token.FromSealedReader(bytes.NewReader(sealed)); return c, err }},
		// the same stream delivered differently: last chunk together with EOF, one byte at a time, half reads
		{"token.FromSealedReader/data+EOF", func() (cid.Cid, error) {
			_, c, err := token.FromSealedReader(iotest.DataErrReader(bytes.NewReader(sealed)))
			return c, err
		}},
		{"token.FromSealedReader/one-byte", func() (cid.Cid, error) {
			_, c, err := token.FromSealedReader(iotest.OneByteReader(bytes.NewReader(sealed)))
			return c, err
		}},
		{"token.FromSealedReader/half", func() (cid.Cid, error) {
			_, c, err := token.FromSealedReader(iotest.HalfReader(bytes.NewReader(sealed)))
			return c, err
		}},
	}
	if d.Dlg != nil {
		decs = append(decs, dec{"delegation.FromSealedReader/data+EOF", func() (cid.Cid, error) {
			_, c, err := delegation.FromSealedReader(iotest.DataErrReader(bytes.NewReader(sealed)))
			return c, err
		}})
	} else {
		decs = append(decs, dec{"invocation.FromSealedReader/data+EOF", func() (cid.Cid, error) {
			_, c, err := invocation.FromSealedReader(iotest.DataErrReader(bytes.NewReader(sealed)))
			return c, err
		}})
	}
	if d.Dlg != nil {
		decs = append(decs,
			dec{"delegation.FromSealed", func() (cid.Cid, error) { _, c, err := delegation.FromSealed(sealed); return c, err }},
			dec{"delegation.FromSealedReader", func() (cid.Cid, error) {
				_, c, err := delegation.FromSealedReader(bytes.NewReader(sealed))
				return c, err
			}})
	} else {
		decs = append(decs,
			dec{"invocation.FromSealed", func() (cid.Cid, error) { _, c, err := invocation.FromSealed(sealed); return c, err }},
			dec{"invocation.FromSealedReader", func() (cid.Cid, error) {
				_, c, err := invocation.FromSealedReader(bytes.NewReader(sealed))
				return c, err
			}})
	}
	for _, dc := range decs {
		got, err := dc.f()
		if err != nil {
			c.P.Class("unseal-error") // C07's subject
			continue
		}
		if !cidOK(got, sealed) || got != id {
			c.Fail("C08/address/"+dc.name, "%s reported %s, seal reported %s, reference %x", dc.name, got, id, refCID(sealed))
		}
	}
	// container key: whatever CID the writer was handed for the sealed bytes (the true one, the same digest
	// under another codec or CID version, or a different hash function), a reader either fails or files the
	// token under the CID of its sealed bytes - in all four formats, bytes and stream readers alike
	dg, _ := mh.Sum(sealed, mh.SHA2_256, -1)
	dg512, _ := mh.Sum(sealed, mh.SHA2_512, -1)
	labels := map[string]cid.Cid{"true": id, "raw-codec": cid.NewCidV1(cid.Raw, dg), "cidv0": cid.NewCidV0(dg),
		"dag-json-codec": cid.NewCidV1(cid.DagJSON, dg), "sha2-512": cid.NewCidV1(cid.DagCBOR, dg512)}
	type rd struct {
		name string
		enc  func(container.Writer) ([]byte, error)
		dec  func([]byte) (container.Reader, error)
	}
	readers := []rd{
		{"cbor", container.Writer.ToCbor, container.FromCbor},
		{"cbor/reader", container.Writer.ToCbor, func(b []byte) (container.Reader, error) { return container.FromCborReader(bytes.NewReader(b)) }},
		{"cborb64", container.Writer.ToCborBase64, container.FromCborBase64},
		{"car", container.Writer.ToCar, container.FromCar},
		{"car/reader", container.Writer.ToCar, func(b []byte) (container.Reader, error) { return container.FromCarReader(iotest.DataErrReader(bytes.NewReader(b))) }},
		{"carb64", container.Writer.ToCarBase64, container.FromCarBase64},
		{"carb64/reader", container.Writer.ToCarBase64, func(b []byte) (container.Reader, error) { return container.FromCarBase64Reader(bytes.NewReader(b)) }},
	}
	for lbl, key := range labels {
		w := container.NewWriter()
		w.AddSealed(key, sealed)
		for _, r := range readers {
			cb, err := r.enc(w)
			if err != nil {
				continue
			}
			got, err := r.dec(cb)
			if err != nil {
				c.P.Class("container-key/" + lbl + "/rejected")
				if lbl == "true" {
					c.Fail("C08/address/container-rejects-honest/"+r.name, "%s rejects a container holding one honest token under its true CID: %v", r.name, err)
				}
				continue
			}
			c.P.Class("container-key/" + lbl + "/accepted")
			for k := range got {
				if !cidOK(k, sealed) {
					c.Fail("C08/address/container-key/"+lbl, "%s: token written under a %s CID is filed under %s, which is not the CID of its sealed bytes (%s)", r.name, lbl, k, id)
				}
			}
			if _, err := got.GetToken(id); err != nil && len(got) > 0 {
				c.Fail("C08/address/container-key/"+lbl, "%s: token not retrievable under the CID of its sealed bytes", r.name)
			}
		}
	}
	c.P.Class("addr/alg:" + string(alg))
	c.P.NonTrivial([]any{"addr", d.Kind(), d.OptionBitmap(), alg, d.ValueShape()}, map[string]any{"kind": "address", "token": d.Kind(), "alg": alg, "sealed_len": len(sealed), "cid": id.String()})
}

var addrProp = h.Define(P, "address", func(t *rapid.T) AddrCase {
	ac := AddrCase{Tok: tok.Gen(t, tok.GenCfg{Algs: keys.AllAlgs, NoTopNull: true, OnlyFuture: true,
		Values: val.Cfg{Depth: 2, MaxLen: 3, SafeInts: true, Big: true}})}
	if rapid.Bool().Draw(t, "faulted") {
		n := rapid.IntRange(1, 3).Draw(t, "nfaults")
		for i := 0; i < n; i++ {
			f := Fault{Op: rapid.SampledFrom([]string{"read", "read", "write"}).Draw(t, "fop"), Kind: rapid.IntRange(0, 3).Draw(t, "fkind"), Chunk: rapid.SampledFrom([]int{0, 1, 7, 64, 4096}).Draw(t, "fchunk")}
			if rapid.Bool().Draw(t, "fatend") {
				f.At = rapid.SampledFrom([]int{0, 0, 1, 12, 13}).Draw(t, "fat_end")
			} else {
				f.At = rapid.IntRange(0, 600).Draw(t, "fat")
			}
			ac.Faults = append(ac.Faults, f)
		}
	}
	return ac
}, runAddr)

func TestAddress(t *testing.T) { addrProp.Check(t) }

// ---------- (2) canonicity ----------

type ReencCase struct {
	Tok  tok.Tok `json:"tok"`
	Kind string  `json:"kind"`
	Item int     `json:"item"` // pre-order index of the CBOR item the re-encoding is applied to
	// Resign: after the re-encoding the ISSUER signs the re-encoded header+payload bytes (it has the key; an issuer
	// with a sloppy encoder, or a malicious one minting several CIDs for one grant). The signature is then valid over
	// the bytes as they travel - which are not the canonical ones. Canonicity is a property of the accepted bytes,
	// whoever produced them.
	Resign bool `json:"resign,omitempty"`
}

var sigKinds = []string{"sig-ecdsa-s-plus-n", "sig-ecdsa-r-plus-n", "sig-ecdsa-n-minus-s", "sig-der-long-length", "sig-der-padded-int", "sig-der-trailing-byte", "sig-prepend-zero", "sig-append-zero", "sig-drop-leading-zero", "sig-frame-prepend-header", "sig-frame-append-header", "sig-frame-prepend-varsig-prefix", "sig-frame-prepend-length", "sig-frame-prepend-key-code", "sig-frame-doubled", "sig-frame-prepend-ff", "sig-hdr-nonminimal-0", "sig-hdr-nonminimal-1", "sig-hdr-nonminimal-2", "sig-hdr-nonminimal-3", "sig-hdr-nonminimal-4"}

func curveN(a keys.Alg) *big.Int {
	switch a {
	case keys.P256:
		return elliptic.P256().Params().N
	case keys.P384:
		return elliptic.P384().Params().N
	case keys.P521:
		return elliptic.P521().Params().N
	case keys.Secp256k1:
		return secp.S256().N
	}
	return nil
}

type ecdsaSig struct{ R, S *big.Int }

func sigVariant(kind string, alg keys.Alg, sig []byte) ([]byte, bool) {
	// byte-level variants that need no key and apply to every scheme (a verifier that pads, trims or ignores
	// bytes of the signature accepts them)
	switch kind {
	case "sig-prepend-zero":
		return append([]byte{0x00}, sig...), true
	case "sig-append-zero":
		if alg == keys.P256 || alg == keys.P384 || alg == keys.P521 {
			return nil, false // = sig-der-trailing-byte, a listed finding for the NIST curves
		}
		return append(append([]byte{}, sig...), 0x00), true
	case "sig-drop-leading-zero":
		if len(sig) < 2 || sig[0] != 0x00 {
			return nil, false
		}
		return append([]byte{}, sig[1:]...), true
	}
	n := curveN(alg)
	if n == nil {
		return nil, false
	}
	var es ecdsaSig
	if rest, err := asn1.Unmarshal(sig, &es); err != nil || len(rest) != 0 {
		return nil, false
	}
	switch kind {
	case "sig-ecdsa-n-minus-s":
		es.S = new(big.Int).Sub(n, es.S)
		out, err := asn1.Marshal(es)
		return out, err == nil
	case "sig-ecdsa-s-plus-n":
		es.S = new(big.Int).Add(n, es.S) // the same residue, written one modulus higher
		out, err := asn1.Marshal(es)
		return out, err == nil
	case "sig-ecdsa-r-plus-n":
		es.R = new(big.Int).Add(n, es.R)
		out, err := asn1.Marshal(es)
		return out, err == nil
	case "sig-der-trailing-byte":
		return append(append([]byte{}, sig...), 0x00), true
	case "sig-der-long-length":
		if len(sig) < 2 || sig[0] != 0x30 || sig[1] >= 0x80 {
			return nil, false
		}
		return append([]byte{0x30, 0x81, sig[1]}, sig[2:]...), true
	case "sig-der-padded-int":
		if len(sig) < 4 || sig[0] != 0x30 || sig[1] >= 0x7f || sig[2] != 0x02 || sig[3] >= 0x7f {
			return nil, false
		}
		out := []byte{0x30, sig[1] + 1, 0x02, sig[3] + 1, 0x00}
		return append(out, sig[4:]...), true
	}
	return nil, false
}

func buildVariant(rc ReencCase, sealed []byte) (variant []byte, ok bool) {
	root, n, err := cbor.Parse(sealed)
	if err != nil || n != len(sealed) {
		return nil, false
	}
	switch rc.Kind {
	case "trailing-byte":
		return append(append([]byte{}, sealed...), 0x00), true
	case "trailing-token":
		return append(append([]byte{}, sealed...), sealed...), true
	case "trailing-newline":
		return append(append([]byte{}, sealed...), '\n'), true
	case "trailing-kilobyte":
		return append(append([]byte{}, sealed...), make([]byte, 1024)...), true
	case "extra-element":
		root.Items = append(root.Items, cbor.Uint(0))
		return root.Bytes(), true
	case "sig-ecdsa-s-plus-n", "sig-ecdsa-r-plus-n", "sig-ecdsa-n-minus-s", "sig-der-long-length", "sig-der-padded-int", "sig-der-trailing-byte", "sig-prepend-zero", "sig-append-zero", "sig-drop-leading-zero":
		sig, ok := sigVariant(rc.Kind, rc.Tok.Issuer().Alg, root.Items[0].Data)
		if !ok {
			return nil, false
		}
		root.Items[0].Data = sig
		return root.Bytes(), true
	}
	if strings.HasPrefix(rc.Kind, "sig-hdr-nonminimal-") {
		// the varsig HEADER re-spelled: its k-th varint written with one byte more than needed (a continuation bit and
		// a zero byte). Same numbers, other bytes, same signature, canonical CBOR around it - no key needed. The
		// signature covers the header bytes, so this is either refused or ... nothing else.
		k := int(rc.Kind[len(rc.Kind)-1] - '0')
		if len(root.Items) != 2 || root.Items[1].Major != 5 {
			return nil, false
		}
		for i := 0; i+1 < len(root.Items[1].Items); i += 2 {
			if key := root.Items[1].Items[i]; key.Major == 3 && string(key.Data) == "h" {
				hdr := root.Items[1].Items[i+1].Data
				var out []byte
				seg, done := 0, false
				for pos := 0; pos < len(hdr); {
					end := pos
					for end < len(hdr) && hdr[end]&0x80 != 0 {
						end++
					}
					if end >= len(hdr) {
						return nil, false
					}
					v := append([]byte{}, hdr[pos:end+1]...)
					if seg == k {
						v[len(v)-1] |= 0x80
						v = append(v, 0x00)
						done = true
					}
					out = append(out, v...)
					pos = end + 1
					seg++
				}
				if !done {
					return nil, false
				}
				root.Items[1].Items[i+1].Data = out
				return root.Bytes(), true
			}
		}
		return nil, false
	}
	if strings.HasPrefix(rc.Kind, "sig-frame-") {
		// the same signature in another FRAMING that needs no key: with the envelope's own varsig header (or
		// a part of it, or its length) in front of or behind it, or twice. A verifier that strips or skips
		// what it recognises accepts the token under a second CID.
		if len(root.Items) != 2 || root.Items[1].Major != 5 {
			return nil, false
		}
		var hdr []byte
		for i := 0; i+1 < len(root.Items[1].Items); i += 2 {
			if k := root.Items[1].Items[i]; k.Major == 3 && string(k.Data) == "h" {
				hdr = root.Items[1].Items[i+1].Data
			}
		}
		sig := root.Items[0].Data
		if len(hdr) < 2 || len(sig) == 0 {
			return nil, false
		}
		if a := rc.Tok.Issuer().Alg; (a == keys.P256 || a == keys.P384 || a == keys.P521) && (rc.Kind == "sig-frame-append-header" || rc.Kind == "sig-frame-doubled") {
			return nil, false // bytes BEHIND a DER signature = sig-der-trailing-byte, a listed finding for the NIST curves
		}
		var out []byte
		switch rc.Kind {
		case "sig-frame-prepend-header":
			out = append(append([]byte{}, hdr...), sig...)
		case "sig-frame-append-header":
			out = append(append([]byte{}, sig...), hdr...)
		case "sig-frame-prepend-varsig-prefix":
			out = append([]byte{hdr[0]}, sig...)
		case "sig-frame-prepend-length":
			out = append(binary.AppendUvarint(nil, uint64(len(sig))), sig...)
		case "sig-frame-prepend-key-code":
			out = append(append([]byte{}, hdr[1:len(hdr)-1]...), sig...)
		case "sig-frame-doubled":
			out = append(append([]byte{}, sig...), sig...)
		default:
			out = append([]byte{0xff}, sig...)
		}
		root.Items[0].Data = out
		root.Items[0].Arg = uint64(len(out))
		return root.Bytes(), true
	}
	cnt := root.Count()
	it := root.Nth(rc.Item % cnt)
	if !cbor.Applicable(it, rc.Kind) {
		return nil, false
	}
	cbor.Apply(it, rc.Kind)
	if rc.Resign && len(root.Items) == 2 && rc.Item%cnt >= 2 { // only when the re-encoded item lies in the signed part
		sig, err := rc.Tok.Issuer().Key().Priv.Sign(root.Items[1].Bytes())
		if err != nil {
			return nil, false
		}
		root.Items[0] = cbor.BytesItem(sig)
	}
	return root.Bytes(), true
}

func runReenc(c *h.Ctx, rc ReencCase) {
	tk, priv, err := tok.Build(rc.Tok)
	if err != nil {
		return
	}
	sealed, id, err := tk.ToSealed(priv)
	if err != nil {
		return
	}
	variant, ok := buildVariant(rc, sealed)
	if !ok || bytes.Equal(variant, sealed) {
		c.P.Class("reenc/not-applicable")
		return
	}
	alg := rc.Tok.Issuer().Alg
	isSig := len(rc.Kind) > 4 && rc.Kind[:4] == "sig-"
	// data preserved? (non-triviality; also guards the harness's own re-encoder)
	preserved := false
	if n0, err := ipld.Decode(sealed, dagcbor.Decode); err == nil {
		if n1, err := ipld.Decode(variant, dagcbor.Decode); err == nil {
			preserved = val.EqualNodes(n0, n1)
		}
	}
	type dec struct {
		name string
		f    func() (cid.Cid, error)
	}
	decs := []dec{
		{"token.FromSealed", func() (cid.Cid, error) { _, c, err := token.FromSealed(variant); return c, err }},
		{"token.FromSealedReader", func() (cid.Cid, error) { _, c, err := token.FromSealedReader(bytes.NewReader(variant)); return c, err }},
	}
	if rc.Tok.Dlg != nil {
		decs = append(decs, dec{"delegation.FromSealed", func() (cid.Cid, error) { _, c, err := delegation.FromSealed(variant); return c, err }})
	} else {
		decs = append(decs, dec{"invocation.FromSealed", func() (cid.Cid, error) { _, c, err := invocation.FromSealed(variant); return c, err }})
	}
	// the streaming entry points over sources of other dynamic types: what a source can tell about itself (its
	// remaining length, its buffer) is no part of the bytes it delivers
	srcs := []struct {
		name string
		mk   func() io.Reader
	}{
		{"opaque", func() io.Reader { return struct{ io.Reader }{bytes.NewReader(variant)} }},
		{"one-byte", func() io.Reader { return iotest.OneByteReader(bytes.NewReader(variant)) }},
		{"half", func() io.Reader { return iotest.HalfReader(bytes.NewReader(variant)) }},
		{"multi", func() io.Reader { return io.MultiReader(bytes.NewReader(variant[:len(variant)/2]), bytes.NewReader(variant[len(variant)/2:])) }},
		{"limit", func() io.Reader { return io.LimitReader(bytes.NewReader(variant), int64(len(variant))) }},
		{"bufio", func() io.Reader { return bufio.NewReaderSize(bytes.NewReader(variant), 16) }},
		{"buffer", func() io.Reader { return bytes.NewBuffer(append([]byte{}, variant...)) }},
	}
	for _, sc := range srcs {
		sc := sc
		decs = append(decs, dec{"token.FromSealedReader/" + sc.name, func() (cid.Cid, error) { _, c, err := token.FromSealedReader(sc.mk()); return c, err }})
		if rc.Tok.Dlg != nil {
			decs = append(decs, dec{"delegation.FromSealedReader/" + sc.name, func() (cid.Cid, error) { _, c, err := delegation.FromSealedReader(sc.mk()); return c, err }})
		} else {
			decs = append(decs, dec{"invocation.FromSealedReader/" + sc.name, func() (cid.Cid, error) { _, c, err := invocation.FromSealedReader(sc.mk()); return c, err }})
		}
	}
	// the same bytes arriving inside a container, filed there under the CID of the bytes themselves
	for _, car := range []bool{false, true} {
		car := car
		name := "container.FromCbor"
		if car {
			name = "container.FromCar"
		}
		decs = append(decs, dec{name, func() (cid.Cid, error) {
			sum := sha256.Sum256(variant)
			vc := cid.NewCidV1(cid.DagCBOR, append([]byte{0x12, 0x20}, sum[:]...))
			w := container.NewWriter()
			w.AddSealed(vc, variant)
			var rd container.Reader
			var err error
			if car {
				var b []byte
				if b, err = w.ToCar(); err == nil {
					rd, err = container.FromCar(b)
				}
			} else {
				var b []byte
				if b, err = w.ToCbor(); err == nil {
					rd, err = container.FromCbor(b)
				}
			}
			if err != nil {
				return cid.Undef, err
			}
			for k := range rd {
				return k, nil
			}
			return cid.Undef, errors.New("empty container")
		}})
	}
	accepted := 0
	// every entry point is asked THREE times: what a decoder answers about a byte string does not depend on whether it,
	// or another entry point, has seen that byte string before
	for pass := 0; pass < 3; pass++ {
	for _, dc := range decs {
		if pass > 0 {
			c.P.Class("presented-again")
		}
		var got cid.Cid
		var derr error
		if pn, pv, _ := h.Try(func() { got, derr = dc.f() }); pn {
			c.P.PanicSeen()
			c.Fail("C08/panic/"+rc.Kind, "%s panicked on a re-encoded token (neither rejected nor accepted under the same CID): %v\n variant %x", dc.name, pv, variant)
			continue
		}
		if derr != nil {
			continue
		}
		accepted++
		if got == id && !cidOK(got, variant) && !isSig {
			// accepted, and filed under the CID of OTHER bytes than the ones that were handed in
			c.Fail("C08/address/accepted-bytes-not-addressed/"+rc.Kind, "%s accepts a byte string that is not the canonical sealed form (kind=%s) and reports %s, which is the CID of the canonical form, not of the %d bytes it was given (those hash to %x)", dc.name, rc.Kind, got, len(variant), refCID(variant))
			continue
		}
		if got != id {
			sig := "C08/reencode/" + rc.Kind
			if rc.Resign {
				sig = "C08/reencode-signed-by-issuer/" + rc.Kind
			}
			if isSig {
				sig = "C08/sigmalleable/" + rc.Kind + "/" + string(alg)
			}
			c.Fail(sig, "%s (presentation %d) accepts a second byte string for the same signed content under another CID: kind=%s item=%d alg=%s\n original %x -> %s\n variant  %x -> %s",
				dc.name, pass+1, rc.Kind, rc.Item, alg, sealed, id, variant, got)
		}
	}
	}
	// the LENIENT decoders (FromDagCbor takes any DAG-CBOR spelling) may accept the variant; what they return is the
	// token, not its spelling: sealed again by the issuer it gives canonical bytes - for a deterministic scheme the
	// very bytes of the original sealing - that unseal under the CID that is reported
	if !isSig && !rc.Resign {
		type resealer interface {
			ToSealed(crypto.PrivKey) ([]byte, cid.Cid, error)
			ToDagCbor(crypto.PrivKey) ([]byte, error)
		}
		var lenient []func() (token.Token, error)
		lenient = append(lenient, func() (token.Token, error) { return token.FromDagCbor(variant) })
		if rc.Tok.Dlg != nil {
			lenient = append(lenient, func() (token.Token, error) { t, err := delegation.FromDagCbor(variant); if err != nil { return nil, err }; return t, nil })
		} else {
			lenient = append(lenient, func() (token.Token, error) { t, err := invocation.FromDagCbor(variant); if err != nil { return nil, err }; return t, nil })
		}
		for li, lf := range lenient {
			var lt token.Token
			var lerr error
			if pn, _, _ := h.Try(func() { lt, lerr = lf() }); pn || lerr != nil || lt == nil {
				continue
			}
			rs, ok := lt.(resealer)
			if !ok {
				continue
			}
			out, oid, serr := rs.ToSealed(priv)
			if serr != nil {
				c.Fail("C08/reseal/fails", "a token read by the lenient DAG-CBOR decoder (%d) from a re-encoding (%s) cannot be sealed by its issuer: %v", li, rc.Kind, serr)
				continue
			}
			if !cidOK(oid, out) {
				c.Fail("C08/reseal/cid", "re-sealing a token read from a re-encoding (%s) reports %s for bytes hashing to %x", rc.Kind, oid, refCID(out))
			}
			if _, id3, uerr := token.FromSealed(out); uerr != nil || id3 != oid {
				c.Fail("C08/reseal/not-canonical", "a token read by the lenient DAG-CBOR decoder from a re-encoding (%s), sealed again by its issuer, gives bytes that FromSealed refuses / files elsewhere: %v (%s vs %s)", rc.Kind, uerr, id3, oid)
			}
			if (alg == keys.Ed25519 || alg == keys.RSA) && !bytes.Equal(out, sealed) {
				c.Fail("C08/reseal/other-bytes", "a token read from a re-encoding (%s) and sealed again by its issuer (deterministic scheme %s) gives other bytes than the original sealing: the same signed content under a second CID (%s vs %s)", rc.Kind, alg, oid, id)
			}
			if cb, cerr := rs.ToDagCbor(priv); cerr == nil && (alg == keys.Ed25519 || alg == keys.RSA) && !bytes.Equal(cb, sealed) {
				c.Fail("C08/reseal/other-bytes", "ToDagCbor of a token read from a re-encoding (%s) returns other bytes than the canonical sealing", rc.Kind)
			}
			c.P.Class("reenc/lenient-accepted-and-resealed")
		}
	}
	if accepted > 0 {
		c.P.Class("reenc/accepted:" + rc.Kind)
	} else {
		c.P.Class("reenc/rejected:" + rc.Kind)
	}
	if preserved || isSig {
		c.P.NonTrivial([]any{"reenc", rc.Tok.Kind(), rc.Tok.OptionBitmap(), alg, rc.Kind, rc.Item},
			map[string]any{"kind": rc.Kind, "item": rc.Item, "alg": alg, "token": rc.Tok.Kind(), "accepted_by": accepted, "data_preserved": preserved})
	}
}

var allKinds = append(append(append([]string{}, cbor.Reencodings...), sigKinds...), "trailing-token", "trailing-newline", "trailing-kilobyte")

var reencProp = h.Define(P, "reencode", func(t *rapid.T) ReencCase {
	algs := keys.AllAlgs
	kind := rapid.SampledFrom(allKinds).Draw(t, "kind")
	if len(kind) > 4 && kind[:4] == "sig-" {
		algs = []keys.Alg{keys.Secp256k1, keys.P256, keys.P384, keys.P521}
		if kind == "sig-prepend-zero" || kind == "sig-append-zero" || kind == "sig-drop-leading-zero" {
			algs = keys.AllAlgs
		}
	}
	return ReencCase{Tok: tok.Gen(t, tok.GenCfg{Algs: algs, NoTopNull: true, OnlyFuture: true, Values: val.Cfg{Depth: 2, MaxLen: 3, SafeInts: true}}),
		Kind: kind, Item: rapid.IntRange(0, 400).Draw(t, "item"), Resign: rapid.IntRange(0, 2).Draw(t, "resign") == 1}
}, runReenc)

func TestReencode(t *testing.T) { reencProp.Check(t) }

// fixed tokens for the exhaustive part
func fixedTokens() []tok.Tok {
	k := func(a keys.Alg, i int) tok.KeyRef { return tok.KeyRef{Alg: a, Idx: i} }
	nonce := bytes.Repeat([]byte{9}, 12)
	five, half := val.Int(5), val.Float(0.5)
	_ = five
	var out []tok.Tok
	for _, a := range []keys.Alg{keys.Ed25519, keys.Secp256k1, keys.P256, keys.RSA} {
		out = append(out,
			tok.Tok{Dlg: &tok.Dlg{Iss: k(a, 0), Aud: k(keys.Ed25519, 1), Sub: "iss", Cmd: "/foo/bar", Nonce: nonce,
				Meta: []tok.KVal{{K: "m", V: val.Map(val.E("a", val.Null()), val.E("bb", half))}, {K: "n", V: val.Int(300)}},
				Exp:  &tok.TimeSpec{Abs: true, V: 4102444800}}},
			tok.Tok{Inv: &tok.Inv{Iss: k(a, 0), Sub: k(keys.Ed25519, 1), Cmd: "/foo", Nonce: nonce, NoIat: true,
				Args: []tok.KVal{{K: "x", V: val.List(val.Int(1), val.Null(), val.Float(1.5))}, {K: "name", V: val.Str("héllo")}},
				Prf:  [][]byte{{1}}, Cause: []byte{2}}})
	}
	return out
}

// TestReencodeExhaustive applies every kind at every item of the fixed tokens.
func TestReencodeExhaustive(t *testing.T) {
	toks := fixedTokens()
	if !h.Thorough() {
		toks = toks[:4]
	}
	for _, d := range toks {
		tk, priv, err := tok.Build(d)
		if err != nil {
			t.Fatalf("INCONCLUSIVE fixed token does not build: %v", err)
		}
		sealed, _, err := tk.ToSealed(priv)
		if err != nil {
			t.Fatalf("INCONCLUSIVE %v", err)
		}
		root, _, err := cbor.Parse(sealed)
		if err != nil {
			t.Fatalf("INCONCLUSIVE harness CBOR parser cannot read a sealed token: %v", err)
		}
		if !bytes.Equal(root.Bytes(), sealed) {
			t.Fatalf("INCONCLUSIVE harness CBOR printer is not the identity on canonical input")
		}
		cnt := root.Count()
		for _, kind := range allKinds {
			switch kind {
			case "trailing-byte", "extra-element", "sig-ecdsa-n-minus-s", "sig-der-long-length", "sig-der-padded-int", "sig-der-trailing-byte", "trailing-token", "trailing-newline", "trailing-kilobyte":
				reencProp.One(t, ReencCase{Tok: d, Kind: kind})
			default:
				if strings.HasPrefix(kind, "sig-") {
					reencProp.One(t, ReencCase{Tok: d, Kind: kind})
					continue
				}
				for i := 0; i < cnt; i++ {
					if cbor.Applicable(root.Nth(i), kind) {
						reencProp.One(t, ReencCase{Tok: d, Kind: kind, Item: i})
						if i >= 2 { // inside the signed part: the same re-encoding, signed by the issuer
							reencProp.One(t, ReencCase{Tok: d, Kind: kind, Item: i, Resign: true})
						}
					}
				}
			}
		}
	}
	P.SetExhaustive()
}

// TestKnownFindings prints the KNOWN-FINDING lines for the listed
// re-encodings that the exhaustive test has just re-confirmed (it runs
// after the others in the same process when invoked by the driver plan).
func TestKnownFindings(t *testing.T) {
	d := fixedTokens()[2] // secp256k1 delegation
	dp := fixedTokens()[4]
	_ = dp
	check := func(d tok.Tok, kind string, item int) bool {
		tk, priv, err := tok.Build(d)
		if err != nil {
			return false
		}
		sealed, id, err := tk.ToSealed(priv)
		if err != nil {
			return false
		}
		root, _, _ := cbor.Parse(sealed)
		items := []int{item}
		if item < 0 {
			items = nil
			for i := 0; i < root.Count(); i++ {
				items = append(items, i)
			}
		}
		for _, i := range items {
			v, ok := buildVariant(ReencCase{Tok: d, Kind: kind, Item: i}, sealed)
			if !ok {
				continue
			}
			if _, got, err := token.FromSealed(v); err == nil && got != id {
				return true
			}
		}
		return false
	}
	for _, kind := range cbor.Reencodings {
		P.Eval()
		P.KnownFinding("C08/reencode/"+kind, check(fixedTokens()[0], kind, -1) || check(fixedTokens()[1], kind, -1))
	}
	for _, a := range []keys.Alg{keys.Secp256k1, keys.P256, keys.P384, keys.P521} {
		for _, kind := range sigKinds {
			dd := d
			dl := *d.Dlg
			dl.Iss = tok.KeyRef{Alg: a, Idx: 0}
			dd.Dlg = &dl
			P.Eval()
			P.KnownFinding(fmt.Sprintf("C08/sigmalleable/%s/%s", kind, a), check(dd, kind, 0))
		}
	}
}

// TestSizeSweep: the address clause for a token of every sealed size around
// the framing / buffer boundaries.
func TestSizeSweep(t *testing.T) {
	n := 0
	for _, size := range tok.SweepSizes() {
		if d, _, ok := tok.PaddedDlg(size); ok {
			addrProp.One(t, AddrCase{Tok: d})
			n++
		}
	}
	P.SetExtra("size_sweep_tokens", n)
}

// ---------- concurrent sealing / unsealing ----------

// ConcAddr: goroutines seal and unseal DIFFERENT tokens through the streaming and the buffered APIs at the same
// time; every CID reported must be the address of the bytes it goes with.
type ConcAddr struct {
	Toks       []tok.Tok `json:"toks"`
	Goroutines int       `json:"goroutines"`
	Rounds     int       `json:"rounds"`
}

func runConcAddr(c *h.Ctx, ca ConcAddr) {
	type job struct {
		tk     token.Token
		priv   crypto.PrivKey
		sealed []byte
	}
	var jobs []job
	for _, d := range ca.Toks {
		tk, priv, err := tok.Build(d)
		if err != nil {
			continue
		}
		var sealed []byte
		switch x := tk.(type) {
		case *delegation.Token:
			sealed, _, err = x.ToSealed(priv)
		case *invocation.Token:
			sealed, _, err = x.ToSealed(priv)
		}
		if err != nil {
			continue
		}
		jobs = append(jobs, job{tk, priv, sealed})
	}
	if len(jobs) < 2 {
		return
	}
	var mu sync.Mutex
	bad := ""
	report := func(s string) {
		mu.Lock()
		if bad == "" {
			bad = s
		}
		mu.Unlock()
	}
	pv := h.Concurrently(ca.Goroutines, func(g int) {
		for r := 0; r < ca.Rounds; r++ {
			j := jobs[(g+r)%len(jobs)]
			var buf bytes.Buffer
			var id cid.Cid
			var err error
			switch x := j.tk.(type) {
			case *delegation.Token:
				id, err = x.ToSealedWriter(&buf, j.priv)
			case *invocation.Token:
				id, err = x.ToSealedWriter(&buf, j.priv)
			}
			if err != nil || !cidOK(id, buf.Bytes()) {
				report(fmt.Sprintf("ToSealedWriter under concurrency: CID %s is not the address of the %d bytes written (err=%v)", id, buf.Len(), err))
				return
			}
			if _, id2, err := token.FromSealedReader(iotest.OneByteReader(bytes.NewReader(j.sealed))); err != nil || !cidOK(id2, j.sealed) {
				report(fmt.Sprintf("FromSealedReader under concurrency: CID %s is not the address of the bytes read (err=%v)", id2, err))
				return
			}
			if _, id3, err := token.FromSealed(j.sealed); err != nil || !cidOK(id3, j.sealed) {
				report(fmt.Sprintf("FromSealed under concurrency: CID %s is not the address of the bytes (err=%v)", id3, err))
				return
			}
		}
	})
	if pv != nil {
		c.Fail("C08/concurrent/panic", "panic while sealing / unsealing concurrently: %v", pv)
	}
	if bad != "" {
		c.Fail("C08/concurrent/address", "%s", bad)
	}
	c.P.NonTrivial([]any{"concaddr", len(jobs), ca.Goroutines, ca.Rounds}, map[string]any{"kind": "concurrent-address", "tokens": len(jobs), "goroutines": ca.Goroutines, "rounds": ca.Rounds})
	c.P.Class(fmt.Sprintf("concurrent/goroutines=%d", ca.Goroutines))
}

var concAddrProp = h.Define(P, "concaddr", func(t *rapid.T) ConcAddr {
	ca := ConcAddr{Goroutines: rapid.IntRange(2, 8).Draw(t, "goroutines"), Rounds: rapid.IntRange(10, 60).Draw(t, "rounds")}
	n := rapid.IntRange(2, 5).Draw(t, "ntoks")
	for i := 0; i < n; i++ {
		ca.Toks = append(ca.Toks, tok.Gen(t, tok.GenCfg{Algs: []keys.Alg{keys.Ed25519, keys.Ed25519, keys.Secp256k1, keys.P256}, NoTopNull: true, OnlyFuture: true, Values: val.Cfg{Depth: 1, MaxLen: 2, SafeInts: true, NoFloat: true}}))
	}
	return ca
}, runConcAddr)

func TestConcurrentAddress(t *testing.T) { concAddrProp.Check(t) }


// TestSignatureLeadingZero: tokens are searched (by nonce) until the signature's first byte is zero - about one
// in 256 for RSA and Ed25519 - and the signature is then re-encoded without that byte: the shorter byte string
// must be rejected or get the same CID.
func TestSignatureLeadingZero(t *testing.T) {
	for _, alg := range []keys.Alg{keys.RSA, keys.Ed25519} {
		found := 0
		for i := 0; i < 6000 && found < 2; i++ {
			d := tok.Tok{Dlg: &tok.Dlg{Iss: tok.KeyRef{Alg: alg, Idx: found % 2}, Aud: tok.KeyRef{Alg: keys.Ed25519, Idx: 1}, Sub: "iss", Cmd: "/foo",
				Nonce: []byte(fmt.Sprintf("nonce-%08d", i))}}
			tk, priv, err := tok.Build(d)
			if err != nil {
				t.Fatalf("INCONCLUSIVE %v", err)
			}
			sealed, _, err := tk.(*delegation.Token).ToSealed(priv)
			if err != nil {
				t.Fatalf("INCONCLUSIVE %v", err)
			}
			root, _, err := cbor.Parse(sealed)
			if err != nil || len(root.Items) != 2 {
				t.Fatalf("INCONCLUSIVE cannot parse a sealed token")
			}
			if sig := root.Items[0].Data; len(sig) == 0 || sig[0] != 0x00 {
				continue
			}
			found++
			reencProp.One(t, ReencCase{Tok: d, Kind: "sig-drop-leading-zero"})
		}
		if found == 0 {
			t.Fatalf("INCONCLUSIVE no %s signature with a leading zero byte found", alg)
		}
		P.ClassN("leading-zero-signature:"+string(alg), found)
	}
}

// TestRoundSizes: tokens whose sealed form is EXACTLY a round number of bytes - every power of two from 1 KiB to
// 4 MiB (8 MiB in the thorough tier), the byte before and after, the decimal round numbers - where size limits,
// read buffers and length prefixes have their edges. For each: the address clause, and the token followed by one
// byte, a newline, a kilobyte or a second copy of itself, through every buffered and streaming decoder and every
// source type: what is accepted is addressed by the CID that comes back, whatever the size.
func TestRoundSizes(t *testing.T) {
	var sizes []int
	top := 22
	if h.Thorough() {
		top = 23 // 8 MiB; go-ipld-prime's decoders refuse a single item beyond their allocation budget (10 MiB), which is their right
	}
	for k := 10; k <= top; k++ {
		sizes = append(sizes, 1<<k-1, 1<<k, 1<<k+1)
	}
	sizes = append(sizes, 1000, 10000, 100000, 1000000, 65535, 65536+9, 1<<20-9, 1<<20+9)
	n := 0
	for _, size := range sizes {
		d, _, ok := tok.PaddedDlg(size)
		if !ok {
			P.Class("round-size:not-constructible")
			continue
		}
		addrProp.One(t, AddrCase{Tok: d})
		for _, kind := range []string{"trailing-byte", "trailing-newline", "trailing-kilobyte", "trailing-token"} {
			reencProp.One(t, ReencCase{Tok: d, Kind: kind})
		}
		n++
	}
	P.SetExtra("round_size_tokens", n)
}

// TestReencodeLargeTokens: every re-encoding kind at every item of tokens that are LARGER than the small buffers decoders
// keep inline (4 KiB, 8 KiB, 64 KiB: 5 000, 9 000 and 70 000 bytes sealed) - the fixed tokens of the exhaustive test are a
// few hundred bytes, and a decoder may take another path (a spill buffer, a pool, a streamed comparison) above a size.
func TestReencodeLargeTokens(t *testing.T) {
	n := 0
	for _, size := range []int{5000, 9000, 70000} {
		d, _, ok := tok.PaddedDlg(size)
		if !ok {
			d, _, ok = tok.PaddedDlg(size + 1)
		}
		if !ok {
			P.Class("large-token:not-constructible")
			continue
		}
		tk, priv, err := tok.Build(d)
		if err != nil {
			continue
		}
		sealed, _, err := tk.ToSealed(priv)
		if err != nil {
			continue
		}
		root, _, err := cbor.Parse(sealed)
		if err != nil {
			continue
		}
		cnt := root.Count()
		for _, kind := range cbor.Reencodings {
			for i := 0; i < cnt; i++ {
				if cbor.Applicable(root.Nth(i), kind) {
					reencProp.One(t, ReencCase{Tok: d, Kind: kind, Item: i})
					n++
				}
			}
		}
	}
	P.SetExtra("large_token_reencodings", n)
}

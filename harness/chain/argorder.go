package chain

import (
	"fmt"
	"sort"

	"pgregory.net/rapid"

	"verif/harness/h"
	"verif/harness/pol"
	"verif/harness/sel"
	"verif/harness/val"
)

// ArgOrderCase: one conforming chain whose policies look at the arguments BY POSITION (the values of the
// argument map through the iterator, then an index or a slice), checked for the same argument SET presented in
// different ways: handed to the constructor in the drawn order, in the reverse order, as one *args.Args object,
// through the argument hook, and after seal / unseal. An argument map is a map: which way it was filled in is not
// part of the invocation, so all presentations get the same verdict.
type ArgOrderCase struct {
	Chain Case `json:"chain"`
}

func DrawArgOrder(t *rapid.T) ArgOrderCase {
	cs := DrawConforming(t, GenOpt{MaxLen: 3, Commands: true, Irrelevant: true})
	keys := []string{"b", "aa", "c", "a", "zz", "ab", "B", "", "aaa", "z"}
	n := rapid.IntRange(2, 5).Draw(t, "ao_n")
	perm := rapid.Permutation(keys).Draw(t, "ao_keys")[:n]
	cs.Inv.Args = nil
	for i, k := range perm {
		cs.Inv.Args = append(cs.Inv.Args, val.KV{K: k, V: val.Int(int64(i + 1))})
	}
	// the literal: the value found at the position in one of the orders an implementation may come up with
	orders := map[string][]string{"insertion": perm}
	lex := append([]string{}, perm...)
	sort.Strings(lex)
	orders["lexicographic"] = lex
	wire := append([]string{}, perm...)
	sort.Slice(wire, func(i, j int) bool {
		if len(wire[i]) != len(wire[j]) {
			return len(wire[i]) < len(wire[j])
		}
		return wire[i] < wire[j]
	})
	orders["length-first"] = wire
	which := rapid.SampledFrom([]string{"insertion", "lexicographic", "lexicographic", "length-first"}).Draw(t, "ao_order")
	ord := orders[which]
	valueOf := func(k string) val.V {
		for _, e := range cs.Inv.Args {
			if e.K == k {
				return e.V
			}
		}
		return val.Int(0)
	}
	ns := rapid.IntRange(1, 2).Draw(t, "ao_nstmt")
	for s := 0; s < ns; s++ {
		pos := rapid.IntRange(0, n-1).Draw(t, "ao_pos")
		idx := int64(pos)
		if rapid.Bool().Draw(t, "ao_neg") {
			idx = int64(pos - n)
		}
		var st pol.Stmt
		switch rapid.IntRange(0, 2).Draw(t, "ao_shape") {
		case 0:
			lit := valueOf(ord[pos])
			st = pol.Stmt{Op: "==", Sel: sel.Sel{{Kind: "iter"}, {Kind: "index", Idx: idx}}, Lit: &lit}
		case 1:
			from := int64(pos)
			lit := val.V{K: "list"}
			for _, k := range ord[pos:] {
				lit.L = append(lit.L, valueOf(k))
			}
			st = pol.Stmt{Op: "==", Sel: sel.Sel{{Kind: "iter"}, {Kind: "slice", From: &from}}, Lit: &lit}
		default:
			lit := val.V{K: "list"}
			for _, k := range ord {
				lit.L = append(lit.L, valueOf(k))
			}
			st = pol.Stmt{Op: "==", Sel: sel.Sel{{Kind: "iter"}}, Lit: &lit}
		}
		li := rapid.IntRange(0, len(cs.Links)-1).Draw(t, "ao_link")
		cs.Links[li].Pol = append(cs.Links[li].Pol, st)
	}
	cs.Dev = append(cs.Dev, "literal-in-"+which+"-order")
	cs.Inv.Decoded = false
	cs.Inv.OptPerm = 0
	return ArgOrderCase{Chain: cs}
}

func RunArgOrder(c *h.Ctx, ac ArgOrderCase, owner string) {
	type variant struct {
		name string
		mod  func(cs *Case)
		hook bool
	}
	rev := func(kvs []val.KV) []val.KV {
		out := make([]val.KV, len(kvs))
		for i, e := range kvs {
			out[len(kvs)-1-i] = e
		}
		return out
	}
	vs := []variant{
		{"as-drawn", func(cs *Case) {}, false},
		{"reversed", func(cs *Case) { cs.Inv.Args = rev(cs.Inv.Args) }, false},
		{"one-args-object", func(cs *Case) { cs.Inv.CommonArgs = len(cs.Inv.Args) }, false},
		{"one-args-object-reversed", func(cs *Case) { cs.Inv.Args = rev(cs.Inv.Args); cs.Inv.CommonArgs = len(cs.Inv.Args) }, false},
		{"options-permuted", func(cs *Case) { cs.Inv.OptPerm = 12345 }, false},
		{"decoded", func(cs *Case) { cs.Inv.Decoded = true }, false},
		{"decoded-reversed", func(cs *Case) { cs.Inv.Args = rev(cs.Inv.Args); cs.Inv.Decoded = true }, false},
		{"identity-hook", func(cs *Case) {}, true},
		{"identity-hook-decoded", func(cs *Case) { cs.Inv.Decoded = true }, true},
	}
	var first *Decision
	firstName := ""
	verdicts := ""
	for _, v := range vs {
		cs := ac.Chain
		cs.Inv.Args = append([]val.KV{}, ac.Chain.Inv.Args...)
		v.mod(&cs)
		b, err := Build(cs)
		if err != nil {
			c.P.Class("argorder:build-error")
			c.Logf("build (%s): %v", v.name, err)
			return
		}
		var d Decision
		if v.hook {
			d = DecideIdentityHook(b)
		} else {
			d = Decide(b, nil)
		}
		verdicts += fmt.Sprintf("%s=%v ", v.name, d.Allowed)
		if first == nil {
			dd := d
			first, firstName = &dd, v.name
			continue
		}
		if d.Allowed != first.Allowed {
			c.Fail(owner+"/arg-order/verdict-depends-on-presentation/"+v.name,
				"the same invocation (same subject, command, proofs and argument SET %v) is allowed=%v when its arguments are presented %s and allowed=%v when presented %s (%s %s)\npolicies look at the argument values by position: %v\ncase: %+v",
				ac.Chain.Inv.Args, first.Allowed, firstName, d.Allowed, v.name, d.Err, d.Panic, ac.Chain.Dev, ac.Chain)
			return
		}
	}
	c.P.Class(fmt.Sprintf("argorder:allowed=%v", first.Allowed))
	c.P.NonTrivial([]any{"argorder", len(ac.Chain.Inv.Args), ac.Chain.Dev, first.Allowed, PrincipalPattern(ac.Chain)},
		map[string]any{"kind": "argument-order", "args": ac.Chain.Inv.Args, "verdicts": verdicts, "dev": ac.Chain.Dev})
}

#!/bin/sh
# usage: tools/sweep.sh "<seeds>" [tier]   runs every claimed check at each seed, prints everything that is not HELD
cd "$(dirname "$0")/.."
tier=${2:-quick}
for s in $1; do
  for c in C01 C02 C03 C04 C05 C06 C07 C08 C09 C10 C11 C12 C13 C14 C15 C16 C17 C18 C19 C20; do
    out=$(VERIF_SEED=$s ./check $c $tier 2>&1); rc=$?
    if [ $rc -ne 0 ]; then echo "=== seed=$s $c rc=$rc"; echo "$out" | grep -v "draw " | grep -E "VIOLATION|INCONCLUSIVE|panic|FAIL" | head -8; fi
  done
  echo "seed $s done"
done

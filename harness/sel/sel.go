// Package sel describes selectors structurally (plain data), prints them to
// the textual syntax and resolves them with a reference interpreter written
// from the statement of property C12 (it does not import the selector package).
package sel

import (
	"fmt"
	"strconv"
	"strings"
	"unicode"

	"pgregory.net/rapid"

	"verif/harness/val"
)

// Seg is one selector segment.
// Kind: "id" (.), "field" (.name), "qfield" (["name"]), "index" ([i]), "slice" ([a:b]), "iter" ([]).
type Seg struct {
	Kind string `json:"kind"`
	Name string `json:"name,omitempty"`
	Idx  int64  `json:"idx,omitempty"`
	From *int64 `json:"from,omitempty"`
	To   *int64 `json:"to,omitempty"`
	Opt  bool   `json:"opt,omitempty"`
	Pad  int    `json:"pad,omitempty"` // leading zeros in the decimal spelling of the index / slice bounds: [007], [-010:010] (the grammar is -?\d+)
}

// num spells an integer in decimal with pad leading zeros.
func num(v int64, pad int) string {
	s := strconv.FormatInt(v, 10)
	if pad <= 0 {
		return s
	}
	z := strings.Repeat("0", pad)
	if v < 0 {
		return "-" + z + s[1:]
	}
	return z + s
}

type Sel []Seg

func (s Seg) Text() string {
	q := ""
	if s.Opt {
		q = "?"
	}
	switch s.Kind {
	case "id":
		return "." // an identity segment prints as "." (optional mark is meaningless)
	case "field":
		return "." + s.Name + q
	case "qfield":
		return `["` + s.Name + `"]` + q
	case "index":
		return "[" + num(s.Idx, s.Pad) + "]" + q
	case "slice":
		a, b := "", ""
		if s.From != nil {
			a = num(*s.From, s.Pad)
		}
		if s.To != nil {
			b = num(*s.To, s.Pad)
		}
		return "[" + a + ":" + b + "]" + q
	case "iter":
		return "[]" + q
	}
	panic("sel: kind " + s.Kind)
}

// Text prints the selector. A selector must start with '.'; bracket segments in
// first position are written ".[...]" as the grammar requires.
func (s Sel) Text() string {
	if len(s) == 0 {
		return "."
	}
	var b strings.Builder
	for i, g := range s {
		t := g.Text()
		if i == 0 && !strings.HasPrefix(t, ".") {
			b.WriteString(".")
		}
		if g.Kind == "id" && i > 0 {
			// "." in the middle would read as recursive descent / be merged; the
			// generator only puts identity first.
			panic("sel: identity segment not in first position")
		}
		b.WriteString(t)
	}
	return b.String()
}

// TextDotted prints the selector with every bracket segment (quoted field, index, slice, iterator) that follows
// another segment written in its dot-spelled form: .a.["b"].[0].[] - the grammar reads the extra dot as an identity
// segment, which does nothing. Same segments, other spelling.
func (s Sel) TextDotted() string {
	if len(s) == 0 {
		return "."
	}
	var b strings.Builder
	for i, g := range s {
		t := g.Text()
		if g.Kind == "id" {
			if i == 0 {
				b.WriteString(".")
			}
			continue
		}
		if !strings.HasPrefix(t, ".") && (i > 0 || true) {
			b.WriteString(".")
		}
		b.WriteString(t)
	}
	if b.Len() == 0 {
		return "."
	}
	return b.String()
}

// State of a reference resolution.
type State int

const (
	Value       State = iota // resolved to a value
	NoValue                  // optional segment failed: "no value"
	Error                    // non-optional segment failed
	Unspecified              // the property statement does not fix the outcome
)

func (s State) String() string {
	return [...]string{"value", "no-value", "error", "unspecified"}[s]
}

// pySlice applies Python slice clamping to [from:to] on a sequence of length n.
func pySlice(from, to *int64, n int64) (int64, int64) {
	lo, hi := int64(0), n
	if from != nil {
		lo = *from
		if lo < 0 {
			lo += n
			if lo < 0 {
				lo = 0
			}
		} else if lo > n {
			lo = n
		}
	}
	if to != nil {
		hi = *to
		if hi < 0 {
			hi += n
			if hi < 0 {
				hi = 0
			}
		} else if hi > n {
			hi = n
		}
	}
	if lo > hi {
		return 0, 0 // empty
	}
	return lo, hi
}

// Step applies one segment to a value.
func Step(g Seg, v val.V) (val.V, State) {
	fail := func(optionalDefined bool) (val.V, State) {
		if !g.Opt {
			return val.V{}, Error
		}
		if optionalDefined {
			return val.V{}, NoValue
		}
		return val.V{}, Unspecified
	}
	switch g.Kind {
	case "id":
		return v, Value
	case "field", "qfield":
		if v.Kind() != "map" {
			return fail(true)
		}
		if e, ok := v.Get(g.Name); ok {
			return e, Value
		}
		return fail(true)
	case "index":
		switch v.Kind() {
		case "list":
			n := int64(len(v.L))
			i := g.Idx
			if i < 0 {
				i += n
			}
			if i < 0 || i >= n {
				return fail(true)
			}
			return v.L[i], Value
		case "bytes":
			n := int64(len(v.X))
			i := g.Idx
			if i < 0 {
				i += n
			}
			if i < 0 || i >= n {
				return fail(true)
			}
			return val.Int(int64(v.X[i])), Value
		}
		return fail(false) // optional index on a kind it is not defined on: unspecified
	case "slice":
		switch v.Kind() {
		case "list":
			lo, hi := pySlice(g.From, g.To, int64(len(v.L)))
			return val.V{K: "list", L: append([]val.V{}, v.L[lo:hi]...)}, Value
		case "bytes":
			lo, hi := pySlice(g.From, g.To, int64(len(v.X)))
			return val.Bytes(append([]byte{}, v.X[lo:hi]...)), Value
		case "str":
			r := []rune(v.StrVal())
			lo, hi := pySlice(g.From, g.To, int64(len(r)))
			return val.Str(string(r[lo:hi])), Value
		}
		return fail(false)
	case "iter":
		switch v.Kind() {
		case "list":
			return v, Value
		case "map":
			out := val.V{K: "list"}
			for _, e := range v.M {
				out.L = append(out.L, e.V)
			}
			return out, Value
		}
		return fail(false)
	}
	panic("sel: kind " + g.Kind)
}

// Resolve applies the segments one after the other.
func Resolve(s Sel, v val.V) (val.V, State) {
	cur := v
	for i, g := range s {
		nv, st := Step(g, cur)
		switch st {
		case Value:
			cur = nv
		case NoValue:
			// What follows a miss. Identity does nothing. After an optional field that is simply not there in a map,
			// the next segment is resolved on "no value": one that is not optional cannot succeed on nothing and
			// fails - an error (every segment kind of the library does that). What an OPTIONAL segment makes of
			// nothing, what happens behind it, and what follows a miss of another sort (a field of a non-map, an index
			// out of range: the library ends the resolution there with "no value", whatever follows) the statement
			// does not settle: Unspecified.
			mapMiss := (g.Kind == "field" || g.Kind == "qfield") && cur.Kind() == "map"
			for _, rest := range s[i+1:] {
				if rest.Kind == "id" {
					continue
				}
				if mapMiss && !rest.Opt {
					return val.V{}, Error
				}
				return val.V{}, Unspecified
			}
			return val.V{}, NoValue
		default:
			return val.V{}, st
		}
	}
	return cur, Value
}

// ---------- generators ----------

var fieldNames = []string{"a", "b", "c", "aa", "x", "foo", "é", "A", "_u", "key-1"}
var quotedNames = []string{"a", "b", "with space", "d.e", "é", "", "key-1", "x", "0", "[]", "a?b", "<k&>", "k\u2028", " k", "k\t", "k\x00", "~", "'tis", "users'", "'q'", "''", "'", "a'b",
	// characters that displays treat specially (bidirectional controls, zero-width and soft characters, replacement
	// character, combining marks): to a parser and printer they are characters of a name like any other
	// a quote preceded by a backslash does not end the quoted name; both characters belong to it
	`a\"b`, `\"`, `x\".y`, `\"]`, `a\\b`,
	"a\u202eb", "\u202e", "\u200fx", "\u2066iso\u2069", "\u061c", "x\ufeff", "so\u00adft", "zw\u200dj", "\ufffd", "e\u0301", "\u202atxt.exe"}

// GenCfg biases segment generation.
type GenCfg struct {
	MaxSegs     int
	Names       []string // unquoted-safe field names to prefer
	Quoted      []string // names for ["..."]
	NoEmptyName bool     // exclude [""] (known C12 defect region)
	NoIterMid   bool     // iterator only in final position
	NoOpt       bool
	OnlyFields  bool
}

func ip(i int64) *int64 { return &i }

func drawPad(t *rapid.T) int {
	if rapid.IntRange(0, 5).Draw(t, "padded") == 0 {
		return rapid.IntRange(1, 3).Draw(t, "pad")
	}
	return 0
}

func GenSeg(t *rapid.T, cfg GenCfg) Seg {
	names := cfg.Names
	if names == nil {
		names = fieldNames
	}
	q := cfg.Quoted
	if q == nil {
		q = quotedNames
	}
	opt := !cfg.NoOpt && rapid.IntRange(0, 3).Draw(t, "opt") == 0
	k := rapid.IntRange(0, 9).Draw(t, "segkind")
	if cfg.OnlyFields {
		k = k % 4
	}
	switch k {
	case 0, 1, 2:
		return Seg{Kind: "field", Name: rapid.SampledFrom(names).Draw(t, "fname"), Opt: opt}
	case 3:
		n := rapid.SampledFrom(q).Draw(t, "qname")
		if n == "" && cfg.NoEmptyName {
			n = "a"
		}
		return Seg{Kind: "qfield", Name: n, Opt: opt}
	case 4, 5:
		return Seg{Kind: "index", Idx: int64(rapid.IntRange(-6, 12).Draw(t, "idx")), Opt: opt, Pad: drawPad(t)}
	case 6, 7:
		s := Seg{Kind: "slice", Opt: opt, Pad: drawPad(t)}
		m := rapid.IntRange(0, 2).Draw(t, "slmode")
		if m != 0 {
			s.From = ip(int64(rapid.IntRange(-7, 7).Draw(t, "from")))
		}
		if m != 1 {
			s.To = ip(int64(rapid.IntRange(-7, 7).Draw(t, "to")))
		}
		return s
	default:
		return Seg{Kind: "iter", Opt: opt}
	}
}

func Gen(t *rapid.T, cfg GenCfg) Sel {
	if cfg.MaxSegs == 0 {
		cfg.MaxSegs = 5
	}
	n := rapid.IntRange(0, cfg.MaxSegs).Draw(t, "nsegs")
	var s Sel
	for i := 0; i < n; i++ {
		g := GenSeg(t, cfg)
		if g.Kind == "iter" && cfg.NoIterMid && i != n-1 {
			g = Seg{Kind: "index", Idx: 0}
		}
		s = append(s, g)
	}
	if len(s) == 0 {
		s = Sel{{Kind: "id"}}
	}
	return s
}

// GenFor draws a selector biased to resolve inside v: at each step it looks at
// the current reference value and mostly picks a segment that applies to it.
func GenFor(t *rapid.T, v val.V, cfg GenCfg) Sel {
	if cfg.MaxSegs == 0 {
		cfg.MaxSegs = 5
	}
	n := rapid.IntRange(0, cfg.MaxSegs).Draw(t, "nsegs")
	var s Sel
	cur, ok := v, true
	for i := 0; i < n; i++ {
		var g Seg
		if ok && rapid.IntRange(0, 9).Draw(t, "guided") < 8 {
			g = guided(t, cur, cfg)
		} else {
			g = GenSeg(t, cfg)
		}
		if g.Kind == "iter" && cfg.NoIterMid && i != n-1 {
			continue
		}
		s = append(s, g)
		if ok {
			nv, st := Step(g, cur)
			if st == Value {
				cur = nv
			} else {
				ok = false
			}
		}
	}
	if len(s) == 0 {
		s = Sel{{Kind: "id"}}
	}
	return s
}

// NeedsQuote reports whether a field name can only be written in the quoted form ["name"].
func NeedsQuote(name string) bool { return needsQuote(name) }

func needsQuote(name string) bool {
	if name == "" {
		return true
	}
	for i, r := range name {
		switch {
		case r >= 'a' && r <= 'z', r >= 'A' && r <= 'Z', r == '_', r > 127 && unicode.IsLetter(r):
		case i > 0 && (r >= '0' && r <= '9' || r == '$' || r == '-'):
		default:
			return true
		}
	}
	return false
}

// NumericNames are field names that look like indexes: a field segment stays a field segment whatever its
// name looks like (it fails on a list), an index segment stays an index (it fails on a map that happens to
// have such a key).
var NumericNames = []string{"0", "1", "2", "-1", "+1", "00", "002", "1e0", " 1", "0x1", "9999999999"}

func guided(t *rapid.T, cur val.V, cfg GenCfg) Seg {
	opt := !cfg.NoOpt && rapid.IntRange(0, 4).Draw(t, "opt") == 0
	if !cfg.OnlyFields && rapid.IntRange(0, 7).Draw(t, "crosskind") == 0 {
		// a segment of the kind that does NOT apply to the current value
		switch cur.Kind() {
		case "map":
			if rapid.Bool().Draw(t, "xk_slice") {
				return Seg{Kind: "slice", From: ip(0), Opt: opt}
			}
			return Seg{Kind: "index", Idx: int64(rapid.IntRange(-2, 2).Draw(t, "xk_idx")), Opt: opt}
		default:
			return Seg{Kind: "qfield", Name: rapid.SampledFrom(NumericNames).Draw(t, "xk_name"), Opt: opt}
		}
	}
	switch cur.Kind() {
	case "map":
		if len(cur.M) > 0 && rapid.IntRange(0, 5).Draw(t, "mapmode") > 0 {
			e := cur.M[rapid.IntRange(0, len(cur.M)-1).Draw(t, "entry")]
			if e.K == "" && cfg.NoEmptyName {
				break
			}
			if strings.ContainsAny(e.K, `":`) {
				break
			}
			if needsQuote(e.K) || rapid.IntRange(0, 4).Draw(t, "quoteanyway") == 0 {
				return Seg{Kind: "qfield", Name: e.K, Opt: opt}
			}
			return Seg{Kind: "field", Name: e.K, Opt: opt}
		}
		if !cfg.OnlyFields && rapid.Bool().Draw(t, "iter") {
			return Seg{Kind: "iter", Opt: opt}
		}
	case "list", "bytes", "str":
		if cfg.OnlyFields {
			break
		}
		n := len(cur.L)
		if cur.Kind() == "bytes" {
			n = len(cur.X)
		} else if cur.Kind() == "str" {
			n = len([]rune(cur.StrVal()))
		}
		m := rapid.IntRange(0, 5).Draw(t, "seqmode")
		if cur.Kind() == "str" && m < 3 {
			m = 3
		}
		switch m {
		case 0, 1, 2:
			return Seg{Kind: "index", Idx: int64(rapid.IntRange(-n-1, n).Draw(t, "idx")), Opt: opt, Pad: drawPad(t)}
		case 3, 4:
			s := Seg{Kind: "slice", Opt: opt, Pad: drawPad(t)}
			sm := rapid.IntRange(0, 2).Draw(t, "slmode")
			if sm != 0 {
				s.From = ip(int64(rapid.IntRange(-n-2, n+2).Draw(t, "from")))
			}
			if sm != 1 {
				s.To = ip(int64(rapid.IntRange(-n-2, n+2).Draw(t, "to")))
			}
			return s
		default:
			if cur.Kind() == "list" {
				return Seg{Kind: "iter", Opt: opt}
			}
		}
	}
	return GenSeg(t, cfg)
}

func (s Sel) KindSeq() string {
	var b strings.Builder
	for _, g := range s {
		b.WriteString(g.Kind[:2])
		if g.Opt {
			b.WriteString("?")
		}
		b.WriteString(" ")
	}
	return b.String()
}

var _ = fmt.Sprint

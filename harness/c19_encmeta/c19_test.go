// C19 — encrypted metadata is confidential, authenticated and round-trips.
package c19

import (
	"compress/gzip"
	"compress/zlib"
	"compress/flate"

	"time"
	"strings"
	"bytes"
	"crypto/rand"
	"errors"
	"io"
	"sync"
	"encoding/base64"
	"fmt"
	"os"
	"testing"

	"github.com/ipfs/go-cid"
	"pgregory.net/rapid"

	"github.com/ucan-wg/go-ucan/pkg/command"
	"github.com/ucan-wg/go-ucan/pkg/meta"
	"github.com/ucan-wg/go-ucan/pkg/policy"
	"github.com/ucan-wg/go-ucan/token"
	"github.com/ucan-wg/go-ucan/token/delegation"
	"github.com/ucan-wg/go-ucan/token/invocation"

	"verif/harness/h"
	_ "verif/harness/warm"
	"verif/harness/keys"
	"verif/harness/val"
)

var P = h.New("C19", "exploration",
	"case = plaintext (empty, 1 byte .. 4 KiB, text and binary; string and []byte forms), two 32-byte keys, a bad key (nil, 0/16/31/33/64 bytes, all-zero), through Meta.AddEncrypted directly and through both token types' WithEncryptedMeta* options followed by seal/unseal (DAG-CBOR and DAG-JSON); every single-bit flip of the stored ciphertext is tried (exhaustive per case up to 600 bytes, sampled beyond). Oracle: same key => plaintext unchanged (before and after seal/unseal); other key, any flipped bit, truncated ciphertext => error; plaintext (>= 16 bytes) is not a substring of the stored value nor of the sealed token (raw, hex and base64 forms); two encryptions differ; stored length = plaintext + 40; bad keys refused by add and get. Non-trivial = plaintext of >= 1 byte. Distinct by (plaintext length class, form, path, bad-key class, content hash).")

func TestMain(m *testing.M) { os.Exit(P.Main(m)) }
func TestReplay(t *testing.T) { P.Replay(t) }

type Case struct {
	Plain   []byte `json:"plain"`
	AsBytes bool   `json:"as_bytes"`
	Key     []byte `json:"key"`
	Other   []byte `json:"other"`
	BadKey  []byte `json:"bad_key"`
	BadNil  bool   `json:"bad_nil,omitempty"`
	Path    string `json:"path"` // meta | dlg | inv
	JSON    bool   `json:"json,omitempty"`
}

func add(m *meta.Meta, cs Case, name string, key []byte) error {
	if cs.AsBytes {
		return m.AddEncrypted(name, cs.Plain, key)
	}
	return m.AddEncrypted(name, string(cs.Plain), key)
}

type reader interface {
	GetEncryptedString(key string, encryptionKey []byte) (string, error)
	GetEncryptedBytes(key string, encryptionKey []byte) ([]byte, error)
	GetBytes(key string) ([]byte, error)
}

func get(r reader, cs Case, name string, key []byte) ([]byte, error) {
	if cs.AsBytes {
		return r.GetEncryptedBytes(name, key)
	}
	s, err := r.GetEncryptedString(name, key)
	return []byte(s), err
}

func lenClass(n int) string {
	switch {
	case n == 0:
		return "0"
	case n < 16:
		return "<16"
	case n < 256:
		return "<256"
	}
	return ">=256"
}

func containsAnyForm(hay, needle []byte) string {
	if len(needle) < 16 {
		return ""
	}
	if bytes.Contains(hay, needle) {
		return "raw"
	}
	for _, enc := range []*base64.Encoding{base64.StdEncoding, base64.RawStdEncoding, base64.URLEncoding} {
		// any 12-byte window of the plaintext aligned to 3 inside its base64 text
		e := enc.EncodeToString(needle)
		if len(e) >= 16 && bytes.Contains(hay, []byte(e[:16])) {
			return "base64"
		}
	}
	if bytes.Contains(hay, []byte(fmt.Sprintf("%x", needle))) {
		return "hex"
	}
	return ""
}

func checkReader(c *h.Ctx, r reader, cs Case, where string) {
	stored, err := r.GetBytes("secret")
	if err != nil {
		c.Fail("C19/stored-missing/"+where, "%s: stored ciphertext not readable: %v", where, err)
		return
	}
	// the key is whatever the key buffer holds AT THE CALL: a buffer that opened the value a moment ago and has
	// since been overwritten with another key, or wiped, must not open it
	kb := append([]byte{}, cs.Key...)
	_, errS := r.GetEncryptedString("secret", kb)
	_, errB := r.GetEncryptedBytes("secret", kb)
	if errS == nil && errB == nil && !bytes.Equal(cs.Other, cs.Key) {
		copy(kb, cs.Other)
		if got, err := get(r, cs, "secret", kb); err == nil {
			c.Fail("C19/wrong-key-accepted/key-buffer-reused/"+where, "%s: a key buffer that has been overwritten with ANOTHER key after a successful read still opens the value (%d bytes)", where, len(got))
		}
		if s, err := r.GetEncryptedString("secret", kb); err == nil {
			c.Fail("C19/wrong-key-accepted/key-buffer-reused/"+where, "%s: GetEncryptedString with an overwritten key buffer returned %d bytes", where, len(s))
		}
		for i := range kb {
			kb[i] = 0
		}
		if got, err := get(r, cs, "secret", kb); err == nil {
			c.Fail("C19/bad-key-accepted/key-buffer-wiped/"+where, "%s: a wiped (all-zero) key buffer still opens the value (%d bytes)", where, len(got))
		}
		if s, err := r.GetEncryptedString("secret", kb); err == nil {
			c.Fail("C19/bad-key-accepted/key-buffer-wiped/"+where, "%s: GetEncryptedString with a wiped key buffer returned %d bytes", where, len(s))
		}
		// and the right key still works afterwards
		if got, err := get(r, cs, "secret", cs.Key); err != nil || !bytes.Equal(got, cs.Plain) {
			c.Fail("C19/roundtrip/"+where, "%s: reading with the right key after failed reads: err=%v", where, err)
		}
	}
	// (the stored length is not part of the property: a different framing / overhead is a legitimate change)
	if len(stored) == len(cs.Plain)+40 {
		c.P.Class("overhead=40")
	} else {
		c.P.Class("overhead=other")
	}
	if form := containsAnyForm(stored, cs.Plain); form != "" {
		c.Fail("C19/plaintext-in-stored-value/"+where, "%s: the plaintext appears (%s) in the stored value", where, form)
	}
	got, err := get(r, cs, "secret", cs.Key)
	if err != nil || !bytes.Equal(got, cs.Plain) {
		c.Fail("C19/roundtrip/"+where, "%s: reading with the same key: err=%v, equal=%v", where, err, bytes.Equal(got, cs.Plain))
	}
	// the other accessor form returns the same bytes
	if cs.AsBytes {
		if s, err := r.GetEncryptedString("secret", cs.Key); err != nil || s != string(cs.Plain) {
			c.Fail("C19/roundtrip/"+where, "%s: GetEncryptedString on a []byte value: %v", where, err)
		}
	} else if b, err := r.GetEncryptedBytes("secret", cs.Key); err != nil || !bytes.Equal(b, cs.Plain) {
		c.Fail("C19/roundtrip/"+where, "%s: GetEncryptedBytes on a string value: %v", where, err)
	}
	if !bytes.Equal(cs.Other, cs.Key) {
		if got, err := get(r, cs, "secret", cs.Other); err == nil {
			c.Fail("C19/wrong-key-accepted/"+where, "%s: reading with a different key returned %d bytes without error", where, len(got))
		}
	}
	bad := cs.BadKey
	if cs.BadNil {
		bad = nil
	}
	if got, err := get(r, cs, "secret", bad); err == nil {
		c.Fail("C19/bad-key-accepted/get/"+where, "%s: reading with a %d-byte/nil/zero key returned %d bytes without error", where, len(bad), len(got))
	}
	if _, err := get(r, cs, "absent", cs.Key); err == nil {
		c.Fail("C19/absent-key", "%s: reading an absent entry returned no error", where)
	}
	// "returned unchanged": the value handed back stays what it was while the caller holds it, whatever is
	// read afterwards (a second encrypted entry, the same entry again, a failed read with another key)
	if a, err := r.GetEncryptedBytes("secret", cs.Key); err == nil {
		keep := append([]byte{}, a...)
		b2, err2 := r.GetEncryptedBytes("secret2", cs.Key)
		_, _ = r.GetEncryptedString("secret2", cs.Key)
		_, _ = r.GetEncryptedBytes("secret", cs.Other)
		_, _ = r.GetEncryptedString("secret", cs.Key)
		if !bytes.Equal(a, keep) {
			c.Fail("C19/returned-value-changed-by-later-read/"+where, "%s: the bytes returned by GetEncryptedBytes(\"secret\") changed after later reads on the same metadata: now %q, was %q", where, trunc(a), trunc(keep))
		}
		if err2 == nil && !bytes.Equal(b2, second(cs.Plain)) {
			c.Fail("C19/roundtrip/"+where, "%s: second encrypted entry reads back wrong", where)
		}
		if err2 == nil {
			c.P.Class("two-encrypted-entries")
		}
	}
}

// second derives the plaintext of the second encrypted entry from the first.
func second(p []byte) []byte {
	out := make([]byte, 0, len(p)+1)
	for i := len(p) - 1; i >= 0; i-- {
		out = append(out, p[i]^0x55)
	}
	return append(out, 'x')
}

func trunc(b []byte) []byte {
	if len(b) > 40 {
		return b[:40]
	}
	return b
}

// every nonce (first 24 bytes of a stored ciphertext) produced in this process
var (
	nonceMu   sync.Mutex
	nonceSeen = map[string]int{}
	nonceN    int
)

func noteNonce(c *h.Ctx, stored []byte) {
	if len(stored) < 24 {
		return
	}
	k := string(stored[:24])
	nonceMu.Lock()
	defer nonceMu.Unlock()
	nonceN++
	if first, dup := nonceSeen[k]; dup {
		c.Fail("C19/nonce-reuse-across-calls", "encryption #%d of this process reuses the nonce of encryption #%d", nonceN, first)
		return
	}
	nonceSeen[k] = nonceN
}

func run(c *h.Ctx, cs Case) {
	m := meta.NewMeta()
	if err := add(m, cs, "secret", cs.Key); err != nil {
		c.Fail("C19/add-rejects-valid-key", "AddEncrypted with a valid 32-byte key failed: %v", err)
		return
	}
	if err := m.AddEncrypted("secret2", second(cs.Plain), cs.Key); err != nil {
		c.Fail("C19/add-rejects-valid-key", "AddEncrypted of a second entry failed: %v", err)
		return
	}
	bad := cs.BadKey
	if cs.BadNil {
		bad = nil
	}
	if err := add(meta.NewMeta(), cs, "x", bad); err == nil {
		c.Fail("C19/bad-key-accepted/add", "AddEncrypted accepted a bad key (%d bytes, nil=%v)", len(bad), cs.BadNil)
	}
	// the same bad key through every other way of adding an encrypted value: the four token options
	{
		iss0, aud0 := keys.Principal(0).DID, keys.Principal(1).DID
		secretIn := func(r reader) bool {
			for _, get := range []func() ([]byte, error){func() ([]byte, error) { return r.GetBytes("x") }} {
				if b, err := get(); err == nil && len(cs.Plain) >= 4 && bytes.Contains(b, cs.Plain) {
					return true
				}
			}
			return false
		}
		for _, asBytes := range []bool{false, true} {
			var dopt delegation.Option
			var iopt invocation.Option
			if asBytes {
				dopt, iopt = delegation.WithEncryptedMetaBytes("x", cs.Plain, bad), invocation.WithEncryptedMetaBytes("x", cs.Plain, bad)
			} else {
				dopt, iopt = delegation.WithEncryptedMetaString("x", string(cs.Plain), bad), invocation.WithEncryptedMetaString("x", string(cs.Plain), bad)
			}
			if d, err := delegation.New(iss0, aud0, command.MustParse("/foo"), policy.Policy{}, dopt); err == nil {
				c.Fail("C19/bad-key-accepted/option/dlg", "delegation.WithEncryptedMeta(bytes=%v) accepted a bad key (%d bytes, nil=%v); the value is stored in clear: %v", asBytes, len(bad), cs.BadNil, secretIn(d.Meta()))
			}
			if iv, err := invocation.New(iss0, aud0, command.MustParse("/foo"), []cid.Cid{}, iopt); err == nil {
				c.Fail("C19/bad-key-accepted/option/inv", "invocation.WithEncryptedMeta(bytes=%v) accepted a bad key (%d bytes, nil=%v); the value is stored in clear: %v", asBytes, len(bad), cs.BadNil, secretIn(iv.Meta()))
			}
		}
	}
	// a value that is itself a stored ciphertext under the SAME key (an entry forwarded from another token, a blob kept
	// in a blob): it is a byte string like any other - sealed, and returned as it was given
	if inner, err := m.GetBytes("secret"); err == nil && len(inner) > 0 {
		nm := meta.NewMeta()
		if err := nm.AddEncrypted("outer", inner, cs.Key); err != nil {
			c.Fail("C19/nested/add-fails", "AddEncrypted refuses a %d-byte value that happens to be a ciphertext under the same key: %v", len(inner), err)
		} else {
			stored, _ := nm.GetBytes("outer")
			if bytes.Equal(stored, inner) || (len(inner) >= 16 && bytes.Contains(stored, inner[:16])) {
				c.Fail("C19/nested/stored-in-clear", "a value that is a ciphertext under the same key was stored as it is (%d bytes): not sealed", len(stored))
			}
			back, gerr := nm.GetEncryptedBytes("outer", cs.Key)
			if gerr != nil || !bytes.Equal(back, inner) {
				c.Fail("C19/nested/roundtrip", "the %d-byte value given to AddEncrypted (itself a ciphertext under the same key) comes back as %d bytes / %v", len(inner), len(back), gerr)
			}
		}
		c.P.Class("nested-ciphertext")
	}
	// a name that is already taken (by a plain value, by a value sealed under the same or another key, by an included
	// entry): whatever AddEncrypted answers, "added" means readable - a nil error with nothing stored is a lost
	// secret - and a refusal leaves the occupant as it was
	for _, occ := range []string{"plain", "plain-bytes", "enc-same-key", "enc-other-key", "included"} {
		tm := meta.NewMeta()
		var oerr error
		switch occ {
		case "plain":
			oerr = tm.Add("k", "public")
		case "plain-bytes":
			oerr = tm.Add("k", []byte("public"))
		case "enc-same-key":
			oerr = tm.AddEncrypted("k", second(cs.Plain), cs.Key)
		case "enc-other-key":
			oerr = tm.AddEncrypted("k", second(cs.Plain), cs.Other)
		case "included":
			src := meta.NewMeta()
			oerr = src.Add("k", "public")
			tm.Include(src)
		}
		if oerr != nil {
			continue
		}
		beforeN, _ := tm.GetNode("k")
		before := val.FromNode(beforeN).String()
		if err := add(tm, cs, "k", cs.Key); err == nil {
			if got, gerr := get(tm.ReadOnly(), cs, "k", cs.Key); gerr != nil || !bytes.Equal(got, cs.Plain) {
				c.Fail("C19/taken-name/added-but-not-readable/"+occ, "AddEncrypted on a name already holding a %s value returned nil, but reading it back with the same key gives %d bytes / %v instead of the %d-byte value", occ, len(got), gerr, len(cs.Plain))
			}
		} else if afterN, _ := tm.GetNode("k"); afterN == nil || val.FromNode(afterN).String() != before {
			c.Fail("C19/taken-name/refused-but-changed/"+occ, "AddEncrypted on a name already holding a %s value failed (%v) and the entry changed", occ, err)
		}
		c.P.Class("taken-name")
	}
	{
		iss0, aud0 := keys.Principal(0).DID, keys.Principal(1).DID
		enc := func() (delegation.Option, invocation.Option) {
			if cs.AsBytes {
				return delegation.WithEncryptedMetaBytes("k", cs.Plain, cs.Key), invocation.WithEncryptedMetaBytes("k", cs.Plain, cs.Key)
			}
			return delegation.WithEncryptedMetaString("k", string(cs.Plain), cs.Key), invocation.WithEncryptedMetaString("k", string(cs.Plain), cs.Key)
		}
		de, ie := enc()
		for _, first := range []bool{true} { // the encrypted option comes last: if the constructor succeeds, it is that value the name holds
			dopts := []delegation.Option{delegation.WithMeta("k", "public"), de}
			iopts := []invocation.Option{invocation.WithMeta("k", "public"), ie}
			if !first {
				dopts[0], dopts[1] = dopts[1], dopts[0]
				iopts[0], iopts[1] = iopts[1], iopts[0]
			}
			if d, err := delegation.New(iss0, aud0, command.MustParse("/foo"), policy.Policy{}, dopts...); err == nil {
				if got, gerr := get(d.Meta(), cs, "k", cs.Key); gerr != nil || !bytes.Equal(got, cs.Plain) {
					c.Fail("C19/taken-name/added-but-not-readable/option/dlg", "delegation.New with a plain and an encrypted value under one name (plain first: %v) succeeds, and the encrypted value cannot be read back: %d bytes / %v", first, len(got), gerr)
				}
			}
			if iv, err := invocation.New(iss0, aud0, command.MustParse("/foo"), []cid.Cid{}, iopts...); err == nil {
				if got, gerr := get(iv.Meta(), cs, "k", cs.Key); gerr != nil || !bytes.Equal(got, cs.Plain) {
					c.Fail("C19/taken-name/added-but-not-readable/option/inv", "invocation.New with a plain and an encrypted value under one name (plain first: %v) succeeds, and the encrypted value cannot be read back: %d bytes / %v", first, len(got), gerr)
				}
			}
		}
	}
	// two tokens that are the same in EVERYTHING a caller can fix - principals, command, nonce, issue time (none or a
	// fixed one), expiration - built from option lists in which the fixing options stand before or behind the encrypted
	// one: two encryptions of the same value still differ (nothing about the token makes the encryption repeatable)
	{
		iss0, aud0 := keys.Principal(0).DID, keys.Principal(1).DID
		fixedNonce := []byte("fixed-nonce-12b")
		at := time.Unix(4102444800, 0)
		encI := func() invocation.Option {
			if cs.AsBytes {
				return invocation.WithEncryptedMetaBytes("secret", cs.Plain, cs.Key)
			}
			return invocation.WithEncryptedMetaString("secret", string(cs.Plain), cs.Key)
		}
		encD := func() delegation.Option {
			if cs.AsBytes {
				return delegation.WithEncryptedMetaBytes("secret", cs.Plain, cs.Key)
			}
			return delegation.WithEncryptedMetaString("secret", string(cs.Plain), cs.Key)
		}
		ictx := [][]invocation.Option{
			{invocation.WithNonce(fixedNonce), invocation.WithoutInvokedAt()},
			{invocation.WithoutInvokedAt(), invocation.WithNonce(fixedNonce)},
			{invocation.WithNonce(fixedNonce)},
			{invocation.WithoutInvokedAt()},
			{invocation.WithEmptyNonce(), invocation.WithoutInvokedAt()},
			{invocation.WithNonce(fixedNonce), invocation.WithInvokedAt(at.Add(-time.Hour)), invocation.WithExpiration(at)},
		}
		for ci, fix := range ictx {
			for _, encFirst := range []bool{false, true} {
				mk := func() (*invocation.Token, error) {
					opts := append(append([]invocation.Option{}, fix...), encI())
					if encFirst {
						opts = append([]invocation.Option{encI()}, fix...)
					}
					return invocation.New(iss0, aud0, command.MustParse("/foo"), []cid.Cid{}, opts...)
				}
				a, ea := mk()
				b, eb := mk()
				if ea != nil || eb != nil {
					continue
				}
				ca, _ := a.Meta().GetBytes("secret")
				cb, _ := b.Meta().GetBytes("secret")
				if len(ca) > 0 && bytes.Equal(ca, cb) {
					c.Fail("C19/nonce-reuse/identical-tokens/inv", "two invocations with the same fixed nonce / issue time / expiration (option context %d, encrypted option first: %v) carry byte-identical ciphertexts of the same value", ci, encFirst)
				}
				noteNonce(c, ca)
				noteNonce(c, cb)
			}
		}
		dctx := [][]delegation.Option{
			{delegation.WithNonce(fixedNonce)},
			{delegation.WithNonce(fixedNonce), delegation.WithExpiration(at), delegation.WithNotBefore(at.Add(-2 * time.Hour))},
			{delegation.WithExpiration(at)},
		}
		for ci, fix := range dctx {
			for _, encFirst := range []bool{false, true} {
				mk := func() (*delegation.Token, error) {
					opts := append(append([]delegation.Option{}, fix...), encD())
					if encFirst {
						opts = append([]delegation.Option{encD()}, fix...)
					}
					return delegation.New(iss0, aud0, command.MustParse("/foo"), policy.Policy{}, opts...)
				}
				a, ea := mk()
				b, eb := mk()
				if ea != nil || eb != nil {
					continue
				}
				ca, _ := a.Meta().GetBytes("secret")
				cb, _ := b.Meta().GetBytes("secret")
				if len(ca) > 0 && bytes.Equal(ca, cb) {
					c.Fail("C19/nonce-reuse/identical-tokens/dlg", "two delegations with the same fixed nonce / bounds (option context %d, encrypted option first: %v) carry byte-identical ciphertexts of the same value", ci, encFirst)
				}
			}
		}
		c.P.Class("identical-tokens")
	}
	if err := m.AddEncrypted("n", 42, cs.Key); err == nil {
		c.Fail("C19/non-encryptable-accepted", "AddEncrypted accepted an int")
	}
	// two encryptions of the same value differ
	m2 := meta.NewMeta()
	_ = add(m2, cs, "secret", cs.Key)
	s1, _ := m.GetBytes("secret")
	s2, _ := m2.GetBytes("secret")
	if bytes.Equal(s1, s2) {
		c.Fail("C19/nonce-reuse", "two encryptions of the same value under the same key are identical")
	}
	noteNonce(c, s1)
	noteNonce(c, s2)
	var r reader = m.ReadOnly()
	where := "meta"
	var sealed, sealedJSON []byte
	priv := keys.Principal(0).Priv
	iss, aud := keys.Principal(0).DID, keys.Principal(1).DID
	switch cs.Path {
	case "dlg":
		var opt delegation.Option
		if cs.AsBytes {
			opt = delegation.WithEncryptedMetaBytes("secret", cs.Plain, cs.Key)
		} else {
			opt = delegation.WithEncryptedMetaString("secret", string(cs.Plain), cs.Key)
		}
		dopts := []delegation.Option{opt, delegation.WithMeta("plain", "visible"), delegation.WithEncryptedMetaBytes("secret2", second(cs.Plain), cs.Key)}
		tk, err := delegation.New(iss, aud, command.MustParse("/foo"), policy.Policy{}, dopts...)
		// the same option VALUES applied to a second token (one options slice, several recipients): another
		// encryption of the same value - it must differ from the first
		if tkb, errb := delegation.New(iss, iss, command.MustParse("/foo/bar"), policy.Policy{}, dopts...); err == nil && errb == nil {
			for _, name := range []string{"secret", "secret2"} {
				a, _ := tk.Meta().GetBytes(name)
				b, _ := tkb.Meta().GetBytes(name)
				if len(a) > 0 && bytes.Equal(a, b) {
					c.Fail("C19/option-reuse-same-ciphertext/dlg", "two delegations built from the same option values carry byte-identical ciphertexts (same nonce) for %q", name)
				}
				noteNonce(c, b)
			}
			c.P.Class("option-reused")
		}
		if err != nil {
			c.Fail("C19/option-rejects-valid", "delegation with encrypted meta rejected: %v", err)
			return
		}
		checkReader(c, tk.Meta(), cs, "dlg/constructed")
		sealed, _, err = tk.ToSealed(priv)
		if err != nil {
			c.Fail("C19/seal", "seal failed: %v", err)
			return
		}
		sealedJSON, _ = tk.ToDagJson(priv)
		var back *delegation.Token
		if cs.JSON {
			back, err = delegation.FromDagJson(sealedJSON)
		} else {
			back, _, err = delegation.FromSealed(sealed)
		}
		if err != nil {
			c.Fail("C19/unseal", "unseal failed: %v", err)
			return
		}
		r, where = back.Meta(), "dlg/decoded"
	case "inv":
		var opt invocation.Option
		if cs.AsBytes {
			opt = invocation.WithEncryptedMetaBytes("secret", cs.Plain, cs.Key)
		} else {
			opt = invocation.WithEncryptedMetaString("secret", string(cs.Plain), cs.Key)
		}
		iopts := []invocation.Option{opt, invocation.WithEncryptedMetaBytes("secret2", second(cs.Plain), cs.Key)}
		tk, err := invocation.New(iss, aud, command.MustParse("/foo"), []cid.Cid{}, iopts...)
		if tkb, errb := invocation.New(iss, iss, command.MustParse("/foo/bar"), []cid.Cid{}, iopts...); err == nil && errb == nil {
			for _, name := range []string{"secret", "secret2"} {
				a, _ := tk.Meta().GetBytes(name)
				b, _ := tkb.Meta().GetBytes(name)
				if len(a) > 0 && bytes.Equal(a, b) {
					c.Fail("C19/option-reuse-same-ciphertext/inv", "two invocations built from the same option values carry byte-identical ciphertexts (same nonce) for %q", name)
				}
				noteNonce(c, b)
			}
			c.P.Class("option-reused")
		}
		if err != nil {
			c.Fail("C19/option-rejects-valid", "invocation with encrypted meta rejected: %v", err)
			return
		}
		checkReader(c, tk.Meta(), cs, "inv/constructed")
		sealed, _, err = tk.ToSealed(priv)
		if err != nil {
			c.Fail("C19/seal", "seal failed: %v", err)
			return
		}
		sealedJSON, _ = tk.ToDagJson(priv)
		var back token.Token
		if cs.JSON {
			back, err = token.FromDagJson(sealedJSON)
		} else {
			back, _, err = token.FromSealed(sealed)
		}
		if err != nil {
			c.Fail("C19/unseal", "unseal failed: %v", err)
			return
		}
		r, where = back.(*invocation.Token).Meta(), "inv/decoded"
	}
	checkReader(c, r, cs, where)
	// the byte slices a reader hands out are the caller's to extend: appending a trailer to the stored form of one
	// entry (to build an over-long variant, to frame it for transport) writes into whatever capacity lies behind it -
	// and that must not be another entry's ciphertext. Both entries read back under their key afterwards.
	if where != "meta" {
		for _, name := range []string{"secret", "secret2", "plain"} {
			if b, err := r.GetBytes(name); err == nil && cap(b) > len(b) {
				tail := b[len(b):cap(b)]
				for i := range tail {
					tail[i] ^= 0xee
				}
				c.P.Class("appended-into-capacity")
			}
		}
		if got, err := get(r, cs, "secret", cs.Key); err != nil || !bytes.Equal(got, cs.Plain) {
			c.Fail("C19/neighbour-overwritten/"+where, "after the caller appended to the byte slices GetBytes returned for the other entries, entry \"secret\" reads back as %d bytes / %v instead of the %d-byte value", len(got), err, len(cs.Plain))
		}
		if got, err := r.GetEncryptedBytes("secret2", cs.Key); err != nil || !bytes.Equal(got, second(cs.Plain)) {
			c.Fail("C19/neighbour-overwritten/"+where, "after the caller appended to the byte slices GetBytes returned for the other entries, entry \"secret2\" reads back as %d bytes / %v", len(got), err)
		}
	}
	for name, b := range map[string][]byte{"sealed": sealed, "dagjson": sealedJSON} {
		if form := containsAnyForm(b, cs.Plain); form != "" {
			c.Fail("C19/plaintext-in-token/"+name, "the plaintext appears (%s) in the %s token", form, name)
		}
	}
	// tamper evidence: every single-bit flip of the stored ciphertext
	stored, _ := m.GetBytes("secret")
	step := 1
	if len(stored) > 600 {
		step = len(stored)/600 + 1
	}
	flips := 0
	for i := 0; i < len(stored); i++ {
		// long ciphertexts: every bit of the first 96 and the last 48 bytes (nonce, tag, first and last
		// blocks), and every bit of every step-th byte in between
		if step > 1 && i >= 96 && i < len(stored)-48 && i%step != 0 {
			continue
		}
		for bit := 0; bit < 8; bit++ {
			t := append([]byte{}, stored...)
			t[i] ^= 1 << bit
			tm := meta.NewMeta()
			_ = tm.Add("secret", t)
			if got, err := get(tm.ReadOnly(), cs, "secret", cs.Key); err == nil {
				region := "ciphertext"
				if i < 24 {
					region = "nonce"
				} else if i < 40 {
					region = "tag"
				}
				c.Fail("C19/tampered-accepted/"+region, "flipping bit %d of byte %d (%s) of the stored ciphertext still decrypts (%d bytes)", bit, i, region, len(got))
			}
			flips++
		}
	}
	for _, cut := range []int{0, 1, 23, 24, 39, len(stored) - 1} {
		if cut >= 0 && cut < len(stored) {
			tm := meta.NewMeta()
			_ = tm.Add("secret", stored[:cut])
			if _, err := get(tm.ReadOnly(), cs, "secret", cs.Key); err == nil {
				c.Fail("C19/truncated-accepted", "ciphertext truncated to %d bytes still decrypts", cut)
			}
		}
	}
	c.P.ClassN("bitflips", flips)
	c.P.Class("path:" + cs.Path)
	c.P.Class("len:" + lenClass(len(cs.Plain)))
	if len(cs.Plain) >= 1 {
		c.P.NonTrivial([]any{lenClass(len(cs.Plain)), cs.AsBytes, cs.Path, cs.JSON, len(cs.BadKey), cs.BadNil, cs.Plain},
			map[string]any{"plaintext_len": len(cs.Plain), "as_bytes": cs.AsBytes, "path": cs.Path, "json": cs.JSON, "bad_key_len": len(cs.BadKey), "bad_nil": cs.BadNil, "bit_flips": flips})
	}
}

func draw(t *rapid.T) Case {
	var cs Case
	switch rapid.IntRange(0, 7).Draw(t, "pmode") {
	case 6, 7:
		// a value that is itself a container format some layer might want to "open": a gzip member, a zlib stream, a
		// DEFLATE block, a PNG / ZIP / zstd / lz4 magic, a DAG-CBOR map, a JSON document, base64 text - stored as given
		inner := []byte("the quick brown fox jumps over the lazy dog " + rapid.StringN(0, 40, -1).Draw(t, "wrapped"))
		switch rapid.IntRange(0, 9).Draw(t, "wrapkind") {
		case 0, 1:
			var b bytes.Buffer
			w := gzip.NewWriter(&b)
			_, _ = w.Write(inner)
			_ = w.Close()
			cs.Plain = b.Bytes()
		case 2:
			var b bytes.Buffer
			w := zlib.NewWriter(&b)
			_, _ = w.Write(inner)
			_ = w.Close()
			cs.Plain = b.Bytes()
		case 3:
			var b bytes.Buffer
			w, _ := flate.NewWriter(&b, flate.BestCompression)
			_, _ = w.Write(inner)
			_ = w.Close()
			cs.Plain = b.Bytes()
		case 4:
			cs.Plain = append([]byte{0x1f, 0x8b, 0x08, 0x00}, inner...) // the gzip magic, then something else
		case 5:
			cs.Plain = append(rapid.SampledFrom([][]byte{{0x28, 0xb5, 0x2f, 0xfd}, {0x04, 0x22, 0x4d, 0x18}, {0x89, 'P', 'N', 'G'}, {'P', 'K', 3, 4}, {0xa1, 0x61, 'k'}}).Draw(t, "magic"), inner...)
		case 6:
			cs.Plain = []byte(`{"k":"` + string(inner) + `","/":{"bytes":"AQID"}}`)
		case 7:
			cs.Plain = []byte(base64.StdEncoding.EncodeToString(inner))
		default:
			cs.Plain = []byte(strings.Repeat("a", rapid.IntRange(1, 3000).Draw(t, "run")))
		}
	case 0:
		cs.Plain = []byte{}
	case 1:
		cs.Plain = rapid.SliceOfN(rapid.Byte(), 1, 15).Draw(t, "short")
	case 2:
		cs.Plain = []byte(rapid.StringN(16, 80, -1).Draw(t, "text"))
	case 3:
		cs.Plain = rapid.SliceOfN(rapid.Byte(), 16, 300).Draw(t, "bin")
	case 4:
		n := rapid.SampledFrom([]int{215, 216, 255, 256, 1024, 4055, 4056, 4095, 4096, 16344, 16383, 16384, 16385, 32769, 65496, 65536, 65537, h.N(1024, 131073), h.N(4097, 1<<20+1)}).Draw(t, "biglen")
		seed := rapid.Byte().Draw(t, "bigseed")
		cs.Plain = make([]byte, n)
		for i := range cs.Plain {
			cs.Plain[i] = byte(i*7) ^ seed
		}
	default:
		cs.Plain = []byte("the quick brown fox jumps over the lazy dog " + rapid.StringN(0, 10, -1).Draw(t, "sfx"))
	}
	cs.AsBytes = rapid.Bool().Draw(t, "asbytes")
	key := func(label string) []byte {
		// any 32 bytes that are not all zero are a valid key: random ones, and structured ones (one byte
		// repeated, a short pattern repeated, a single set bit, zero halves, all ones)
		var k []byte
		switch rapid.IntRange(0, 7).Draw(t, label+"_shape") {
		case 0:
			k = bytes.Repeat([]byte{rapid.ByteRange(1, 255).Draw(t, label+"_b")}, 32)
		case 1:
			n := rapid.SampledFrom([]int{2, 4, 8, 16}).Draw(t, label+"_period")
			k = bytes.Repeat(rapid.SliceOfN(rapid.Byte(), n, n).Draw(t, label+"_pat"), 32/n)
		case 2:
			k = make([]byte, 32)
			k[rapid.IntRange(0, 31).Draw(t, label+"_pos")] = 1 << rapid.IntRange(0, 7).Draw(t, label+"_bit")
		case 3:
			k = append(make([]byte, 16), rapid.SliceOfN(rapid.Byte(), 16, 16).Draw(t, label+"_half")...)
			if rapid.Bool().Draw(t, label+"_swap") {
				k = append(k[16:], k[:16]...)
			}
		default:
			k = rapid.SliceOfN(rapid.Byte(), 32, 32).Draw(t, label)
		}
		allZero := true
		for _, b := range k {
			if b != 0 {
				allZero = false
			}
		}
		if allZero {
			k[0] |= 1
		}
		return k
	}
	cs.Key = key("key")
	cs.Other = key("other")
	if bytes.Equal(cs.Key, cs.Other) {
		cs.Other[31] ^= 0xff
	}
	switch rapid.IntRange(0, 8).Draw(t, "badmode") {
	case 7: // the right key with extra bytes appended
		cs.BadKey = append(append([]byte{}, cs.Key...), bytes.Repeat([]byte{9}, rapid.SampledFrom([]int{1, 32}).Draw(t, "extlen"))...)
	case 8: // the right key cut short
		cs.BadKey = append([]byte{}, cs.Key[:31]...)
	case 0:
		cs.BadNil = true
	case 1:
		cs.BadKey = []byte{}
	case 2:
		cs.BadKey = make([]byte, 32) // all-zero
	default:
		n := rapid.SampledFrom([]int{1, 16, 31, 33, 64}).Draw(t, "badlen")
		cs.BadKey = bytes.Repeat([]byte{7}, n)
	}
	cs.Path = rapid.SampledFrom([]string{"meta", "dlg", "inv"}).Draw(t, "path")
	cs.JSON = rapid.IntRange(0, 3).Draw(t, "json") == 0
	return cs
}

var prop = h.Define(P, "encmeta", draw, run)

func TestEncryptedMeta(t *testing.T) { prop.Check(t) }

// TestManyEncryptions: one value, one key, many encryptions in one process: all
// stored values (hence all nonces) must differ.
func TestManyEncryptions(t *testing.T) {
	n := h.N(20000, 400000)
	key := bytes.Repeat([]byte{3}, 32)
	ctx := &h.Ctx{P: P, T: t}
	for i := 0; i < n; i++ {
		m := meta.NewMeta()
		if err := m.AddEncrypted("k", "the same plaintext every time", key); err != nil {
			ctx.Fail("C19/valid-key-refused", "AddEncrypted refuses the 32-byte key %x, which is neither missing, of the wrong size nor all-zero: %v", key, err)
		}
		b, _ := m.GetBytes("k")
		noteNonce(ctx, b)
	}
	P.EvalN(n)
	P.AddDistinct(n)
	P.SetExtra("encryptions_with_distinct_nonces", n)
}

// ---------- faults at the entropy source ----------

// faultyEntropy hands out k real random bytes per Read call and then the error; with Once set, only the first
// call fails. It stands for a starved or unavailable system source (no getrandom, no /dev/urandom).
type faultyEntropy struct {
	real  io.Reader
	k     int
	once  bool
	calls int
}

var errEntropy = errors.New("verif: entropy source unavailable")

func (f *faultyEntropy) Read(p []byte) (int, error) {
	f.calls++
	if f.once && f.calls > 1 {
		return f.real.Read(p)
	}
	n := f.k
	if n > len(p) {
		n = len(p)
	}
	if n > 0 {
		if _, err := io.ReadFull(f.real, p[:n]); err != nil {
			return 0, err
		}
	}
	if n == len(p) && f.k > len(p) {
		return n, nil
	}
	return n, errEntropy
}

// TestEntropyFaults: the nonce of every encryption comes from the process' entropy source. With that source
// failing after k bytes of a read (every k from 0 to 40; on every call, or on the first only), an encryption is
// either refused, or it is as good as any other: it decrypts, and two encryptions of one value under one key
// still differ. A value sealed under a nonce that was never drawn is the failure.
func TestEntropyFaults(t *testing.T) {
	key := bytes.Repeat([]byte{5}, 32)
	ctx := &h.Ctx{P: P, T: t}
	real := rand.Reader
	defer func() { rand.Reader = real }()
	plain := "the same plaintext, under a failing entropy source"
	paths := []string{"meta", "dlg", "inv"}
	n := 0
	for _, once := range []bool{false, true} {
		for k := 0; k <= 40; k++ {
			for _, path := range paths {
				var stored [][]byte
				refused := 0
				fe := &faultyEntropy{real: real, k: k, once: once}
				for round := 0; round < 2; round++ {
					if !once {
						fe.calls = 0
					}
					rand.Reader = fe
					var b []byte
					var err error
					switch path {
					case "meta":
						m := meta.NewMeta()
						if err = m.AddEncrypted("k", plain, key); err == nil {
							b, err = m.GetBytes("k")
						}
					case "dlg":
						var d *delegation.Token
						d, err = delegation.Root(keys.Principal(0).DID, keys.Principal(1).DID, command.MustParse("/x"), policy.Policy{},
							delegation.WithNonce(bytes.Repeat([]byte{1}, 12)), delegation.WithEncryptedMetaString("k", plain, key))
						if err == nil {
							b, err = d.Meta().GetBytes("k")
						}
					default:
						var iv *invocation.Token
						iv, err = invocation.New(keys.Principal(0).DID, keys.Principal(1).DID, command.MustParse("/x"), []cid.Cid{},
							invocation.WithNonce(bytes.Repeat([]byte{1}, 12)), invocation.WithEncryptedMetaString("k", plain, key))
						if err == nil {
							b, err = iv.Meta().GetBytes("k")
						}
					}
					rand.Reader = real
					n++
					if err != nil {
						refused++
						continue
					}
					mm := meta.NewMeta()
					if aerr := mm.Add("k", b); aerr != nil {
						t.Fatalf("harness: %v", aerr)
					}
					got, derr := mm.GetEncryptedString("k", key)
					if derr != nil || got != plain {
						ctx.Fail("C19/entropy-fault/stored-value-does-not-decrypt", "path %s, entropy failing after %d bytes (once=%v): the encryption was accepted but the stored value decrypts to %q, %v", path, k, once, got, derr)
					}
					stored = append(stored, b)
				}
				P.Class(fmt.Sprintf("entropy-fault:%s:refused=%d/2", path, refused))
				if len(stored) == 2 && bytes.Equal(stored[0], stored[1]) {
					ctx.Fail("C19/entropy-fault/two-encryptions-identical", "path %s, entropy source failing after %d bytes of each read: both encryptions of the same value were accepted and are byte-identical (nonce %x): the nonce was not drawn", path, k, stored[0][:min(24, len(stored[0]))])
				}
				for _, b := range stored {
					if len(b) >= 24 && k < 24 && !once && bytes.Equal(b[k:24], make([]byte, 24-k)) && 24-k >= 8 {
						ctx.Fail("C19/entropy-fault/nonce-not-drawn", "path %s: a value was sealed although the entropy read failed after %d bytes; the nonce %x ends in %d zero bytes", path, k, b[:24], 24-k)
					}
				}
			}
		}
	}
	P.EvalN(n)
	P.AddDistinct(n)
	P.SetExtra("entropy_fault_runs", n)
}

// ---------- concurrent use with different keys, failures included ----------

// TestConcurrentKeys: several goroutines, each with a key of its own, add encrypted values and read them back, while
// they also make the reads that must FAIL (another goroutine's key, a tampered ciphertext, a bad key) - a failed read is
// an ordinary event, and nothing it leaves behind may reach the next call. Every read with the right key returns the
// value, every other read fails, whatever runs at the same time. Race-detector build.
func TestConcurrentKeys(t *testing.T) {
	ctx := &h.Ctx{P: P, T: t}
	const G = 8
	rounds := h.N(300, 6000)
	keysOf := make([][]byte, G)
	for g := range keysOf {
		keysOf[g] = bytes.Repeat([]byte{byte(0x11 * (g + 1))}, 32)
		keysOf[g][31] = byte(g)
	}
	var mu sync.Mutex
	var bad []string
	report := func(f string, a ...any) {
		mu.Lock()
		if len(bad) < 6 {
			bad = append(bad, fmt.Sprintf(f, a...))
		}
		mu.Unlock()
	}
	var wg sync.WaitGroup
	for g := 0; g < G; g++ {
		wg.Add(1)
		go func(g int) {
			defer wg.Done()
			mine, other := keysOf[g], keysOf[(g+1)%G]
			for r := 0; r < rounds; r++ {
				plain := fmt.Sprintf("goroutine %d round %d: attack at dawn", g, r)
				m := meta.NewMeta()
				if err := m.AddEncrypted("k", plain, mine); err != nil {
					report("goroutine %d: AddEncrypted with its own valid key failed: %v", g, err)
					return
				}
				// the reads that must fail
				if s, err := m.GetEncryptedString("k", other); err == nil {
					report("goroutine %d round %d: value read with ANOTHER goroutine's key (intact=%v)", g, r, s == plain)
				}
				if r%3 == 0 {
					stored, _ := m.GetBytes("k")
					tam := append([]byte{}, stored...)
					tam[len(tam)-1] ^= 1
					m2 := meta.NewMeta()
					_ = m2.Add("k", tam)
					if _, err := m2.GetEncryptedString("k", mine); err == nil {
						report("goroutine %d round %d: tampered ciphertext accepted", g, r)
					}
				}
				if r%5 == 0 {
					if _, err := m.GetEncryptedString("k", make([]byte, 32)); err == nil {
						report("goroutine %d round %d: value read with the all-zero key", g, r)
					}
					if _, err := m.GetEncryptedString("k", mine[:31]); err == nil {
						report("goroutine %d round %d: value read with a 31-byte key", g, r)
					}
				}
				// the read that must succeed
				got, err := m.GetEncryptedString("k", mine)
				if err != nil || got != plain {
					report("goroutine %d round %d: value NOT readable with the key it was sealed with (%v, %q) while other goroutines work with other keys", g, r, err, got)
				}
			}
		}(g)
	}
	wg.Wait()
	if len(bad) > 0 {
		ctx.Fail("C19/concurrent/keys-mixed-up", "%s", strings.Join(bad, " | "))
	}
	P.EvalN(G * rounds)
	P.AddDistinct(G * rounds)
	P.SetExtra("concurrent_key_rounds", G*rounds)
}

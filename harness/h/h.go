// Package h is the core of the verification harness: per-property recorder
// (evidence), known-findings handling, replay files and the glue that runs a
// property body either under rapid or directly on a saved case.
package h

import (
	"crypto/sha256"
	"encoding/hex"
	"encoding/json"
	"fmt"
	"os"
	"path/filepath"
	"runtime/debug"
	"sort"
	"strconv"
	"strings"
	"sync"
	"testing"
	"time"

	"pgregory.net/rapid"
)

// TB is the subset of testing.TB / rapid.T the property bodies need.
type TB interface {
	Fatalf(format string, args ...any)
	Logf(format string, args ...any)
	Helper()
}

// Prop is the per-property state shared by all tests of a package.
type Prop struct {
	ID    string
	Level string
	Rule  string

	mu       sync.Mutex
	evals    int64
	distinct map[string]struct{}
	samples  map[string]any // bottom-k by hash => deterministic "reservoir"
	first    []any
	hist     map[string]int64
	known    map[string]string // sig -> description (from KNOWN_FINDINGS.txt)
	knownHit map[string]int64
	unspec   int64
	panics   int64
	viol     int64
	extra    map[string]any
	assume   []string
	start    time.Time
	defs     map[string]replayer
	exhaust  bool
	counted  int64
}

type replayer interface {
	replay(t *testing.T, raw json.RawMessage)
}

func New(id, level, rule string) *Prop {
	p := &Prop{ID: id, Level: level, Rule: rule,
		distinct: map[string]struct{}{}, samples: map[string]any{}, hist: map[string]int64{},
		known: map[string]string{}, knownHit: map[string]int64{}, extra: map[string]any{},
		defs: map[string]replayer{}, start: time.Now()}
	p.loadKnown()
	return p
}

func (p *Prop) Assume(s ...string) { p.assume = append(p.assume, s...) }

func (p *Prop) loadKnown() {
	path := os.Getenv("VERIF_KNOWN")
	if path == "" {
		path = "/verif/KNOWN_FINDINGS.txt"
	}
	b, err := os.ReadFile(path)
	if err != nil {
		return
	}
	for _, ln := range strings.Split(string(b), "\n") {
		ln = strings.TrimSpace(ln)
		if !strings.HasPrefix(ln, "known:") {
			continue
		}
		f := strings.Fields(ln)
		var prop, sig string
		rest := []string{}
		for _, w := range f[1:] {
			switch {
			case strings.HasPrefix(w, "property=") && prop == "":
				prop = strings.TrimPrefix(w, "property=")
			case strings.HasPrefix(w, "sig=") && sig == "":
				sig = strings.TrimPrefix(w, "sig=")
			default:
				rest = append(rest, w)
			}
		}
		if prop == p.ID && sig != "" {
			p.known[sig] = strings.Join(rest, " ")
		}
	}
}

// IsKnown tells whether sig is listed as a known finding of this property.
func (p *Prop) IsKnown(sig string) bool { _, ok := p.known[sig]; return ok }

// Tier returns "quick" or "thorough".
func Tier() string {
	if os.Getenv("VERIF_TIER") == "thorough" {
		return "thorough"
	}
	return "quick"
}

func Thorough() bool { return Tier() == "thorough" }

// Seed returns the VERIF_SEED-derived seed for this process (never 0).
func Seed() int64 {
	s, _ := strconv.ParseInt(os.Getenv("VERIF_SEED"), 10, 64)
	sh, _ := strconv.ParseInt(os.Getenv("VERIF_SHARD"), 10, 64)
	s = s*1000 + sh
	if s == 0 {
		s = 0x5eed
	}
	return s
}

func Shard() (k, n int) {
	k, _ = strconv.Atoi(os.Getenv("VERIF_SHARD"))
	n, _ = strconv.Atoi(os.Getenv("VERIF_SHARDS"))
	if n < 1 {
		n = 1
	}
	return
}

// N picks a budget by tier.
func N(quick, thorough int) int {
	if Thorough() {
		return thorough
	}
	return quick
}

func canon(v any) []byte {
	b, err := json.Marshal(v)
	if err != nil {
		return []byte(fmt.Sprintf("%#v", v))
	}
	return b
}

func hashKey(v any) string {
	s := sha256.Sum256(canon(v))
	return hex.EncodeToString(s[:10])
}

// Eval counts one executed case.
func (p *Prop) Eval() { p.mu.Lock(); p.evals++; p.mu.Unlock() }

// EvalN counts n executed cases.
func (p *Prop) EvalN(n int) { p.mu.Lock(); p.evals += int64(n); p.mu.Unlock() }

// Class increments a histogram bucket.
func (p *Prop) Class(name string) { p.mu.Lock(); p.hist[name]++; p.mu.Unlock() }
func (p *Prop) ClassN(name string, n int) {
	p.mu.Lock()
	p.hist[name] += int64(n)
	p.mu.Unlock()
}

// Unspecified counts a case on which the property statement is silent.
func (p *Prop) Unspecified() { p.mu.Lock(); p.unspec++; p.mu.Unlock() }

// PanicSeen counts a recovered panic of the code under test.
func (p *Prop) PanicSeen() { p.mu.Lock(); p.panics++; p.mu.Unlock() }

// NonTrivial records a case that satisfies the property's non-triviality
// rule. key identifies the case up to the property's distinctness relation;
// sample is what gets written to the evidence file.
func (p *Prop) NonTrivial(key any, sample any) {
	k := hashKey(key)
	p.mu.Lock()
	defer p.mu.Unlock()
	if _, ok := p.distinct[k]; ok {
		return
	}
	p.distinct[k] = struct{}{}
	if len(p.first) < 3 {
		p.first = append(p.first, sample)
		return
	}
	const keep = 5
	if len(p.samples) < keep {
		p.samples[k] = sample
		return
	}
	// keep the `keep` smallest hashes
	max := ""
	for s := range p.samples {
		if s > max {
			max = s
		}
	}
	if k < max {
		delete(p.samples, max)
		p.samples[k] = sample
	}
}

// AddDistinct accounts for n non-trivial cases that are distinct by
// construction (members of an enumeration without repetition), without
// hashing each of them.
func (p *Prop) AddDistinct(n int) { p.mu.Lock(); p.counted += int64(n); p.mu.Unlock() }

// Sample adds a sample case unconditionally (bounded).
func (p *Prop) Sample(s any) {
	p.mu.Lock()
	if len(p.first) < 6 {
		p.first = append(p.first, s)
	}
	p.mu.Unlock()
}

func (p *Prop) SetExtra(k string, v any) { p.mu.Lock(); p.extra[k] = v; p.mu.Unlock() }
func (p *Prop) SetExhaustive()           { p.mu.Lock(); p.exhaust = true; p.mu.Unlock() }

// Fragment is what one process writes; the driver merges fragments.
type Fragment struct {
	Property    string           `json:"property_id"`
	Level       string           `json:"level"`
	Rule        string           `json:"rule"`
	Evals       int64            `json:"evaluations"`
	Distinct    []string         `json:"distinct_hashes"`
	Samples     []any            `json:"samples"`
	Hist        map[string]int64 `json:"histogram"`
	KnownHits   map[string]int64 `json:"known_hits"`
	Unspecified int64            `json:"unspecified"`
	Panics      int64            `json:"panics_observed"`
	Violations  int64            `json:"violations"`
	Extra       map[string]any   `json:"extra"`
	Assumptions []string         `json:"assumptions"`
	WallS       float64          `json:"wall_s"`
	Exhaustive  bool             `json:"exhaustive"`
	Counted     int64            `json:"distinct_counted"`
}

// Main runs the tests and writes the evidence fragment.
func (p *Prop) Main(m *testing.M) int {
	code := m.Run()
	p.writeFragment()
	return code
}

func (p *Prop) writeFragment() {
	out := os.Getenv("VERIF_EVIDENCE_OUT")
	if out == "" {
		return
	}
	for _, a := range os.Args {
		if strings.HasPrefix(a, "-test.fuzzworker") {
			// native fuzzing runs the target in worker processes: one fragment each
			out = strings.TrimSuffix(out, ".json") + fmt.Sprintf(".w%d.json", os.Getpid())
		}
	}
	p.mu.Lock()
	defer p.mu.Unlock()
	fr := Fragment{Property: p.ID, Level: p.Level, Rule: p.Rule, Evals: p.evals, Hist: p.hist,
		KnownHits: p.knownHit, Unspecified: p.unspec, Panics: p.panics, Violations: p.viol,
		Extra: p.extra, Assumptions: p.assume, WallS: time.Since(p.start).Seconds(), Exhaustive: p.exhaust, Counted: p.counted}
	for k := range p.distinct {
		fr.Distinct = append(fr.Distinct, k)
	}
	sort.Strings(fr.Distinct)
	fr.Samples = append(fr.Samples, p.first...)
	ks := make([]string, 0, len(p.samples))
	for k := range p.samples {
		ks = append(ks, k)
	}
	sort.Strings(ks)
	for _, k := range ks {
		fr.Samples = append(fr.Samples, p.samples[k])
	}
	b, _ := json.Marshal(fr)
	_ = os.MkdirAll(filepath.Dir(out), 0o755)
	_ = os.WriteFile(out, b, 0o644)
}

// Ctx is handed to a property body for one case.
type Ctx struct {
	P    *Prop
	T    TB
	def  string
	cas  any
	Mode string // "rapid" | "replay" | "enum"
}

// ReplayFile is the on-disk form of a failing case.
type ReplayFile struct {
	Property string          `json:"property"`
	Test     string          `json:"test"`
	Sig      string          `json:"sig"`
	Msg      string          `json:"msg"`
	Case     json.RawMessage `json:"case"`
}

// Fail reports a violation with signature sig unless sig is a listed known
// finding, in which case it is counted and false is returned so the body can
// carry on. On a real violation the case is saved as a replay file and the
// test is failed (does not return).
func (c *Ctx) Fail(sig string, format string, args ...any) bool {
	c.T.Helper()
	p := c.P
	if p.IsKnown(sig) {
		p.mu.Lock()
		p.knownHit[sig]++
		p.mu.Unlock()
		return false
	}
	msg := fmt.Sprintf(format, args...)
	path := c.saveReplay(sig, msg)
	p.mu.Lock()
	p.viol++
	p.mu.Unlock()
	c.T.Fatalf("VIOLATION-CANDIDATE property=%s test=%s sig=%s replay=%s\n%s", p.ID, c.def, sig, path, msg)
	return true
}

// FailExit reports a violation from which the process cannot carry on (the call under test has not come back and
// cannot be stopped): the case is saved, the line is printed and the process ends. No shrinking.
func (c *Ctx) FailExit(sig string, format string, args ...any) {
	p := c.P
	msg := fmt.Sprintf(format, args...)
	path := c.saveReplay(sig, msg)
	p.mu.Lock()
	p.viol++
	p.mu.Unlock()
	fmt.Printf("VIOLATION-CANDIDATE property=%s test=%s sig=%s replay=%s\n%s\n", p.ID, c.def, sig, path, msg)
	os.Stdout.Sync()
	os.Exit(1)
}

func (c *Ctx) saveReplay(sig, msg string) string {
	if c.Mode == "replay" {
		return os.Getenv("VERIF_REPLAY")
	}
	dir := os.Getenv("VERIF_REPLAY_DIR")
	if dir == "" {
		dir = filepath.Join(os.TempDir(), "verif-replays", c.P.ID)
	}
	_ = os.MkdirAll(dir, 0o755)
	name := fmt.Sprintf("%s-%s-seed%d.json", c.P.ID, c.def, Seed())
	path := filepath.Join(dir, name)
	rf := ReplayFile{Property: c.P.ID, Test: c.def, Sig: sig, Msg: msg, Case: canon(c.cas)}
	b, _ := json.MarshalIndent(rf, "", " ")
	_ = os.WriteFile(path, b, 0o644)
	return path
}

func (c *Ctx) Logf(format string, args ...any) { c.T.Logf(format, args...) }

// Inconclusive aborts the run with a harness-level problem (exit 2 in the driver).
func (c *Ctx) Inconclusive(format string, args ...any) {
	c.T.Fatalf("INCONCLUSIVE property=%s test=%s: %s", c.P.ID, c.def, fmt.Sprintf(format, args...))
}

// Def ties a case generator and a body together under a name.
type Def[C any] struct {
	P    *Prop
	Name string
	Draw func(*rapid.T) C
	Run  func(*Ctx, C)
}

func Define[C any](p *Prop, name string, draw func(*rapid.T) C, run func(*Ctx, C)) *Def[C] {
	d := &Def[C]{P: p, Name: name, Draw: draw, Run: run}
	p.defs[name] = d
	return d
}

// ---- process warm-up (see package warm) ----

var (
	warmFn    func()
	warmMu    sync.Mutex
	warmCount int
	warmDone  bool
)

// warmAfter: the work-out runs once, before the case with this ordinal (counted over all cases of the process).
const warmAfter = 120

// RegisterWarm installs the work-out (package warm does, from its init).
func RegisterWarm(f func()) { warmFn = f }

// Warmed reports whether the work-out has run in this process.
func Warmed() bool { warmMu.Lock(); defer warmMu.Unlock(); return warmDone }

func maybeWarm(force bool) {
	warmMu.Lock()
	warmCount++
	run := warmFn != nil && !warmDone && (force || warmCount == warmAfter)
	if run {
		warmDone = true
	}
	warmMu.Unlock()
	if run {
		warmFn()
	}
}

// guard runs the body and turns a panic that escapes it into a violation of the property: every property
// except the "allowed only if" ones promises a result, and a crash is a failure to deliver it (C09 owns
// crash-freedom on hostile input; the others see crashes on the inputs of their own domain; the "allowed
// only if" bodies of C01..C04 recover the calls they judge themselves, a panic being a denial there). rapid's own
// control-flow panics are passed through.
func (d *Def[C]) guard(c *Ctx, cas C) {
	defer func() {
		r := recover()
		if r == nil {
			return
		}
		if tn := fmt.Sprintf("%T", r); strings.HasPrefix(tn, "rapid.") || strings.HasPrefix(tn, "*rapid.") {
			panic(r)
		}
		st := string(debug.Stack())
		fn := "?"
		for _, ln := range strings.Split(st, "\n") {
			if strings.Contains(ln, "go-ucan") && strings.Contains(ln, "(") && !strings.HasPrefix(ln, "\t") {
				fn = ln[:strings.LastIndex(ln, "(")]
				if i := strings.LastIndex(fn, "/"); i >= 0 {
					fn = fn[i+1:]
				}
				break
			}
		}
		c.P.PanicSeen()
		c.Fail(c.P.ID+"/panic/"+fn, "panic while the property body ran: %v\n%s", r, st)
	}()
	d.Run(c, cas)
}

// Check runs the body under rapid. The number of cases comes from
// -rapid.checks (set by the driver).
func (d *Def[C]) Check(t *testing.T) {
	_ = os.RemoveAll("testdata/rapid")
	inflight := os.Getenv("VERIF_INFLIGHT")
	rapid.Check(t, func(rt *rapid.T) {
		cas := d.Draw(rt)
		maybeWarm(false)
		d.P.Eval()
		if inflight != "" {
			// a death of the process (race detector halt, OOM, fatal error) leaves the
			// case that was executing on disk, as a ready-to-use replay file
			rf := ReplayFile{Property: d.P.ID, Test: d.Name, Sig: d.P.ID + "/process-death", Msg: "case in flight when the process died", Case: canon(cas)}
			b, _ := json.Marshal(rf)
			_ = os.WriteFile(inflight, b, 0o644)
		}
		d.guard(&Ctx{P: d.P, T: rt, def: d.Name, cas: cas, Mode: "rapid"}, cas)
	})
	if inflight != "" {
		_ = os.Remove(inflight)
	}
}

// Enumerate runs a hand-written enumeration loop. The loop keeps *cur pointing at the case it is working on
// and calls the library directly (fast path); when the library panics, the case in *cur is re-run through
// the body, which reports it (guard), instead of the process dying with an INCONCLUSIVE result.
func (d *Def[C]) Enumerate(t TB, cur *C, loop func()) {
	defer func() {
		if r := recover(); r != nil {
			if tn := fmt.Sprintf("%T", r); strings.HasPrefix(tn, "rapid.") || strings.HasPrefix(tn, "*rapid.") {
				panic(r)
			}
			d.One(t, *cur)
			// the body did not reproduce the panic: report it all the same
			c := &Ctx{P: d.P, T: t, def: d.Name, cas: *cur, Mode: "enum"}
			c.Fail(d.P.ID+"/panic/enumeration", "panic inside an enumeration: %v\n%s", r, debug.Stack())
		}
	}()
	loop()
}

// One runs the body on one explicitly constructed case (enumerations,
// regression corpus).
func (d *Def[C]) One(t TB, cas C) {
	maybeWarm(false)
	d.P.Eval()
	if inflight := os.Getenv("VERIF_INFLIGHT"); inflight != "" {
		rf := ReplayFile{Property: d.P.ID, Test: d.Name, Sig: d.P.ID + "/process-death", Msg: "case in flight when the process died", Case: canon(cas)}
		b, _ := json.Marshal(rf)
		_ = os.WriteFile(inflight, b, 0o644)
	}
	d.guard(&Ctx{P: d.P, T: t, def: d.Name, cas: cas, Mode: "enum"}, cas)
}

func (d *Def[C]) replay(t *testing.T, raw json.RawMessage) {
	var cas C
	if err := json.Unmarshal(raw, &cas); err != nil {
		t.Fatalf("INCONCLUSIVE cannot decode replay case: %v", err)
	}
	d.P.Eval()
	d.guard(&Ctx{P: d.P, T: t, def: d.Name, cas: cas, Mode: "replay"}, cas)
	// the case once more after the process work-out: a violation that needs the library's other packages to have
	// been at work first reproduces here
	maybeWarm(true)
	d.guard(&Ctx{P: d.P, T: t, def: d.Name, cas: cas, Mode: "replay"}, cas)
}

// Replay re-executes the case stored in $VERIF_REPLAY.
func (p *Prop) Replay(t *testing.T) {
	path := os.Getenv("VERIF_REPLAY")
	if path == "" {
		t.Skip("no VERIF_REPLAY")
	}
	b, err := os.ReadFile(path)
	if err != nil {
		t.Fatalf("INCONCLUSIVE %v", err)
	}
	var rf ReplayFile
	if err := json.Unmarshal(b, &rf); err != nil {
		t.Fatalf("INCONCLUSIVE %v", err)
	}
	d, ok := p.defs[rf.Test]
	if !ok {
		t.Fatalf("INCONCLUSIVE unknown test %q in replay file", rf.Test)
	}
	d.replay(t, rf.Case)
}

// Try runs f and reports a panic of the code under test.
func Try(f func()) (panicked bool, val any, stack string) {
	defer func() {
		if r := recover(); r != nil {
			panicked, val, stack = true, r, string(debug.Stack())
		}
	}()
	f()
	return
}

// KnownFinding prints the KNOWN-FINDING line for a listed finding that the
// deterministic reproducer has just re-confirmed.
func (p *Prop) KnownFinding(sig string, reproduced bool) {
	desc, ok := p.known[sig]
	if !ok {
		return
	}
	if reproduced {
		p.mu.Lock()
		p.knownHit[sig]++
		p.mu.Unlock()
		fmt.Printf("KNOWN-FINDING: property=%s sig=%s %s\n", p.ID, sig, desc)
	} else {
		fmt.Printf("NOTE: property=%s listed finding sig=%s did not reproduce on this tree\n", p.ID, sig)
	}
}

// Concurrently runs f(0..n-1) in n goroutines released together and waits.
// A panic in a goroutine is returned (first one) instead of killing the process.
func Concurrently(n int, f func(g int)) (panicVal any) {
	var wg sync.WaitGroup
	var mu sync.Mutex
	start := make(chan struct{})
	for g := 0; g < n; g++ {
		wg.Add(1)
		go func(g int) {
			defer wg.Done()
			defer func() {
				if r := recover(); r != nil {
					mu.Lock()
					if panicVal == nil {
						panicVal = r
					}
					mu.Unlock()
				}
			}()
			<-start
			f(g)
		}(g)
	}
	close(start)
	wg.Wait()
	return panicVal
}

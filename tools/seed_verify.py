#!/usr/bin/env python3
"""Confirm a sub-agent's seeded defect in a fresh scratch worktree, archive it
under /verif/seeded/<name>/, then run the given checks against it in /repo.

usage: tools/seed_verify.py <outdir> <name> <property> [check ...] [--tier quick|thorough]
"""
import json, os, shutil, subprocess, sys, time

ENV = dict(os.environ, GOFLAGS="-mod=mod", GOPROXY="off", GOSUMDB="off", GOTOOLCHAIN="local")
ROOT = os.path.dirname(os.path.dirname(os.path.abspath(__file__)))


def sh(cmd, cwd=None, timeout=3600):
    r = subprocess.run(cmd, cwd=cwd, env=ENV, shell=isinstance(cmd, str), stdout=subprocess.PIPE, stderr=subprocess.STDOUT, text=True, errors="replace", timeout=timeout)
    return r.returncode, r.stdout


def main():
    a = sys.argv[1:]
    tier = "quick"
    if "--tier" in a:
        i = a.index("--tier")
        tier = a[i + 1]
        del a[i:i + 2]
    out, name, prop = a[0], a[1], a[2]
    checks = a[3:] or [prop]
    patch = os.path.join(out, "patch.diff")
    demo_rel = open(os.path.join(out, "demo_path.txt")).read().strip()
    demo_src = os.path.join(out, os.path.basename(demo_rel))
    if not os.path.exists(demo_src):
        cands = [f for f in os.listdir(out) if f.endswith("_test.go")]
        demo_src = os.path.join(out, cands[0])
    wt = "/tmp/seed/confirm_" + name
    sh("git -C /repo worktree remove --force %s" % wt)
    base = os.environ.get("SEED_BASE", "HEAD")  # a seed written against an earlier commit of /repo (before a later fix: touched the same lines)
    rc, o = sh("git -C /repo worktree add -q %s %s" % (wt, base))
    ran = []
    try:
        rc, o = sh("git apply %s" % patch, cwd=wt)
        if rc:
            print("patch does not apply:", o)
            return 1
        ran.append("git apply patch.diff")
        rc, o = sh("go build ./... && go test -vet=off -count=1 ./...", cwd=wt)
        suite_ok = rc == 0
        ran.append("go build ./... && go test -vet=off -count=1 ./...  -> %s" % ("pass" if suite_ok else "FAIL"))
        pkg = "./" + os.path.dirname(demo_rel) + "/"
        shutil.copy(demo_src, os.path.join(wt, demo_rel))
        rc1, o1 = sh("go test -vet=off -count=1 -run 'Seed|seed|Demo' %s" % pkg, cwd=wt)
        ran.append("demo with change: go test -run 'Seed|seed|Demo' %s -> %s" % (pkg, "fails" if rc1 else "PASSES"))
        sh("git apply -R %s" % patch, cwd=wt)
        rc2, o2 = sh("go test -vet=off -count=1 -run 'Seed|seed|Demo' %s" % pkg, cwd=wt)
        ran.append("demo without change -> %s" % ("passes" if rc2 == 0 else "FAILS"))
        confirmed = suite_ok and rc1 != 0 and rc2 == 0
        print("suite_with_change=%s demo_with_change=%s demo_without=%s => confirmed=%s" % (suite_ok, "fail" if rc1 else "pass", "pass" if rc2 == 0 else "fail", confirmed))
        if not confirmed:
            print(o[-1500:] if not suite_ok else (o1[-1500:] if rc1 == 0 else o2[-1500:]))
            return 1
    finally:
        sh("git -C /repo worktree remove --force %s" % wt)
    dst = os.path.join(ROOT, "seeded", name)
    os.makedirs(dst, exist_ok=True)
    shutil.copy(patch, os.path.join(dst, "patch.diff"))
    shutil.copy(demo_src, os.path.join(dst, os.path.basename(demo_rel) + ".txt"))
    notes = ""
    if os.path.exists(os.path.join(out, "notes.md")):
        notes = open(os.path.join(out, "notes.md")).read()
        open(os.path.join(dst, "notes.md"), "w").write(notes)
    # run the checks against it, in a second scratch worktree (never /repo: see VERIF_REPO in ./check)
    wt2 = "/tmp/seed/run_" + name
    sc2 = "/tmp/seed/scratch_" + name
    sh("git -C /repo worktree remove --force %s" % wt2)
    sh("git -C /repo worktree add -q %s %s" % (wt2, base))
    results = {}
    try:
        rc, o = sh("git apply %s" % patch, cwd=wt2)
        if rc:
            print("patch does not apply:", o)
            return 1
        for c in checks:
            t0 = time.time()
            env = dict(ENV, VERIF_REPO=wt2, VERIF_SCRATCH=sc2)
            r = subprocess.run([os.path.join(ROOT, "check"), c, tier], cwd=ROOT, env=env, stdout=subprocess.PIPE, stderr=subprocess.STDOUT, text=True, errors="replace", timeout=14400)
            rc, o = r.returncode, r.stdout
            sig = ""
            for ln in o.splitlines():
                if "VIOLATION-CANDIDATE" in ln and "sig=" in ln:
                    sig = ln.split("sig=")[1].split()[0]
                elif ln.startswith("VIOLATION property=") and not sig:
                    sig = ln
            results[c] = {"tier": tier, "outcome": "caught" if rc == 1 else "missed" if rc == 0 else "inconclusive", "sig": sig, "wall_s": round(time.time() - t0, 1)}
            print(c, results[c])
            if rc == 2:
                print(o[-3000:])
    finally:
        sh("git -C /repo worktree remove --force %s" % wt2)
        shutil.rmtree(sc2, ignore_errors=True)
    meta_path = os.path.join(dst, "meta.json")
    meta = {}
    if os.path.exists(meta_path):
        meta = json.load(open(meta_path))
    meta.update({"name": name, "breaks_property": prop, "demo_path": demo_rel, "source": "independent sub-agent given only the property text and a scratch worktree",
                 "confirmed_by": ran, "base_commit": subprocess.run("git -C /repo rev-parse --short %s" % base, shell=True, stdout=subprocess.PIPE, text=True).stdout.strip()})
    meta.setdefault("check_results", {}).update(results)
    json.dump(meta, open(meta_path, "w"), indent=1)
    return 0


if __name__ == "__main__":
    sys.exit(main())

#!/usr/bin/env python3
"""usage: tools/seed_meta.py <name> <round> <needs> <history>  -- fill in the descriptive fields of seeded/<name>/meta.json"""
import json, sys, os
name, rnd, needs, hist = sys.argv[1:5]
p = os.path.join(os.path.dirname(os.path.dirname(os.path.abspath(__file__))), "seeded", name, "meta.json")
m = json.load(open(p))
m.update(round=int(rnd), needs=needs, history=hist)
json.dump(m, open(p, "w"), indent=1)

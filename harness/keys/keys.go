// Package keys derives deterministic key pairs (G5): every key is a pure
// function of (algorithm, index), RSA keys come from a committed pool.
package keys

import (
	"crypto/ecdsa"
	"crypto/ed25519"
	"crypto/elliptic"
	"crypto/sha256"
	"crypto/x509"
	"embed"
	"encoding/pem"
	"fmt"
	"math/big"
	"sort"
	"sync"

	"github.com/libp2p/go-libp2p/core/crypto"

	"github.com/ucan-wg/go-ucan/did"
)

type Alg string

const (
	Ed25519   Alg = "ed25519"
	Secp256k1 Alg = "secp256k1"
	P256      Alg = "p256"
	P384      Alg = "p384"
	P521      Alg = "p521"
	RSA       Alg = "rsa"
)

var AllAlgs = []Alg{Ed25519, Secp256k1, P256, P384, P521, RSA}

type Key struct {
	Alg  Alg
	Idx  int
	Priv crypto.PrivKey
	Pub  crypto.PubKey
	DID  did.DID
	Err  error // did.FromPubKey error, if any
}

//go:embed rsa/*.pem
var rsaFS embed.FS

var (
	mu    sync.Mutex
	cache = map[string]*Key{}
	rsaPool []crypto.PrivKey
)

func Seed(alg Alg, idx int) [32]byte {
	return sha256.Sum256([]byte(fmt.Sprintf("verif-key/%s/%d", alg, idx)))
}

func loadRSA() {
	ents, _ := rsaFS.ReadDir("rsa")
	names := []string{}
	for _, e := range ents {
		names = append(names, e.Name())
	}
	sort.Strings(names)
	for _, n := range names {
		b, _ := rsaFS.ReadFile("rsa/" + n)
		blk, _ := pem.Decode(b)
		k, err := x509.ParsePKCS1PrivateKey(blk.Bytes)
		if err != nil {
			panic(err)
		}
		priv, _, err := crypto.KeyPairFromStdKey(k)
		if err != nil {
			panic(err)
		}
		rsaPool = append(rsaPool, priv)
	}
}

// RSAFast is the number of RSA keys of at most 3072 bits (indexes 0..RSAFast-1);
// the remaining ones (4096, 6144, 8192 bits) are slow to sign with.
const RSAFast = 4

// RSATwin: key RSATwinIdx is a 2048-bit key built so that its modulus shares its 126 leading bytes with the
// modulus of key 0 (p random, q the next prime after N0/p). Their did:key identifiers, PKCS#1 encodings and
// multikey bytes share a long prefix: anything that identifies a key by a truncated or partial form of it
// confuses the two.
const RSATwinIdx = 7

// RSAPoolSize is the number of committed RSA keys.
func RSAPoolSize() int {
	mu.Lock()
	defer mu.Unlock()
	if rsaPool == nil {
		loadRSA()
	}
	return len(rsaPool)
}

// Get returns the idx-th key of the algorithm.
func Get(alg Alg, idx int) *Key {
	ck := fmt.Sprintf("%s/%d", alg, idx)
	mu.Lock()
	defer mu.Unlock()
	if k, ok := cache[ck]; ok {
		return k
	}
	seed := Seed(alg, idx)
	var priv crypto.PrivKey
	var err error
	switch alg {
	case Ed25519:
		std := ed25519.NewKeyFromSeed(seed[:])
		priv, _, err = crypto.KeyPairFromStdKey(&std)
	case Secp256k1:
		priv, err = crypto.UnmarshalSecp256k1PrivateKey(seed[:])
	case P256, P384, P521:
		var curve elliptic.Curve
		switch alg {
		case P256:
			curve = elliptic.P256()
		case P384:
			curve = elliptic.P384()
		default:
			curve = elliptic.P521()
		}
		// widen the seed so P-384/521 scalars are full-size
		h2 := sha256.Sum256(append(seed[:], 1))
		h3 := sha256.Sum256(append(seed[:], 2))
		wide := append(append(append([]byte{}, seed[:]...), h2[:]...), h3[:]...)
		n := new(big.Int).Sub(curve.Params().N, big.NewInt(1))
		d := new(big.Int).SetBytes(wide)
		d.Mod(d, n)
		d.Add(d, big.NewInt(1))
		x, y := curve.ScalarBaseMult(d.Bytes())
		std := &ecdsa.PrivateKey{PublicKey: ecdsa.PublicKey{Curve: curve, X: x, Y: y}, D: d}
		priv, _, err = crypto.ECDSAKeyPairFromKey(std)
	case RSA:
		if rsaPool == nil {
			loadRSA()
		}
		priv = rsaPool[idx%len(rsaPool)]
	default:
		panic("unknown alg " + string(alg))
	}
	if err != nil {
		panic(fmt.Sprintf("deriving %s key: %v", alg, err))
	}
	k := &Key{Alg: alg, Idx: idx, Priv: priv, Pub: priv.GetPublic()}
	k.DID, k.Err = did.FromPubKey(k.Pub)
	cache[ck] = k
	return k
}

// Principal returns the i-th member of the default (Ed25519) principal pool.
func Principal(i int) *Key { return Get(Ed25519, i) }

// Parseable reports whether the DID of k survives did.Parse (G10): token
// round trips need an issuer the decoder can parse.
func (k *Key) Parseable() bool {
	if k.Err != nil {
		return false
	}
	d, err := did.Parse(k.DID.String())
	return err == nil && d == k.DID
}

package sel

import (
	"strconv"
	"strings"
	"unicode"
	"unicode/utf8"
)

const maxSafe = (1 << 53) - 1

// ParseRef is a reference recogniser for the selector text syntax, written
// from the documented grammar (jq-like: identity ".", ".name", ["name"],
// [i], [a:b], [], each optionally followed by "?"):
//
//	selector := segment+            (the text must start with ".")
//	segment  := "." opt             identity (never two in a row)
//	          | "." name opt        name = (letter | "_") (letter | digit | "$" | "_" | "-")*
//	          | "[" "]" opt         iterator
//	          | "[" int "]" opt     index, |int| <= 2^53-1
//	          | "[" int? ":" int? "]" opt   slice, at least one bound
//	          | "[" quoted "]" opt  quoted = '"' chars '"' (unescaped quotes come in pairs; inner ones belong to the name), no ":" inside
//	opt      := "?"*
//
// It returns the segments and whether the whole text is derivable. Every
// character of the text is accounted for by exactly one segment.
func ParseRef(s string) (Sel, bool) {
	if len(s) == 0 || s[0] != '.' {
		return nil, false
	}
	var out Sel
	i := 0
	lastID := false
	for i < len(s) {
		switch s[i] {
		case '.':
			j := i + 1
			// name?
			k := j
			for k < len(s) {
				r, sz := utf8.DecodeRuneInString(s[k:])
				if r == utf8.RuneError && sz == 1 {
					return nil, false
				}
				first := k == j
				ok := unicode.IsLetter(r) || r == '_' || (!first && (r >= '0' && r <= '9' || r == '$' || r == '-'))
				if !ok {
					break
				}
				k += sz
			}
			opt, e := skipOpt(s, k)
			if k == j {
				// identity
				if lastID {
					return nil, false
				}
				out = append(out, Seg{Kind: "id", Opt: opt})
				lastID = true
			} else {
				out = append(out, Seg{Kind: "field", Name: s[j:k], Opt: opt})
				lastID = false
			}
			i = e
		case '[':
			j := i + 1
			if j < len(s) && s[j] == '"' {
				// quoted name. Unescaped quotes toggle "inside a string"; the segment
				// ends at the first "]" that is outside a string and is followed by a
				// segment boundary. The name is what lies between the first and the
				// last quote (inner quotes are part of the name), and has no ":".
				// the segment extends to the next "." or "[" that is outside a string
				inStr := false
				k := j
				for k < len(s) {
					if s[k] == '"' && s[k-1] != '\\' {
						inStr = !inStr
					} else if !inStr && (s[k] == '.' || s[k] == '[') {
						break
					}
					k++
				}
				if inStr {
					return nil, false
				}
				end := k - 1
				for end > j && s[end] == '?' {
					end--
				}
				if s[end] != ']' {
					return nil, false
				}
				inner := s[j:end]
				if len(inner) < 2 || inner[len(inner)-1] != '"' {
					return nil, false
				}
				name := inner[1 : len(inner)-1]
				if strings.Contains(name, ":") {
					return nil, false
				}
				opt, e := skipOpt(s, end+1)
				if e != k {
					return nil, false
				}
				out = append(out, Seg{Kind: "qfield", Name: name, Opt: opt})
				i = e
				lastID = false
				continue
			}
			k := strings.IndexByte(s[j:], ']')
			if k < 0 {
				return nil, false
			}
			inner := s[j : j+k]
			opt, e := skipOpt(s, j+k+1)
			switch {
			case inner == "":
				out = append(out, Seg{Kind: "iter", Opt: opt})
			case strings.Count(inner, ":") == 1:
				parts := strings.SplitN(inner, ":", 2)
				if parts[0] == "" && parts[1] == "" {
					return nil, false
				}
				g := Seg{Kind: "slice", Opt: opt}
				for n, p := range parts {
					if p == "" {
						continue
					}
					v, ok := refInt(p)
					if !ok {
						return nil, false
					}
					if n == 0 {
						g.From = &v
					} else {
						g.To = &v
					}
				}
				out = append(out, g)
			default:
				v, ok := refInt(inner)
				if !ok {
					return nil, false
				}
				out = append(out, Seg{Kind: "index", Idx: v, Opt: opt})
			}
			i = e
			lastID = false
		default:
			return nil, false
		}
	}
	return out, true
}

func skipOpt(s string, i int) (bool, int) {
	opt := false
	for i < len(s) && s[i] == '?' {
		opt = true
		i++
	}
	return opt, i
}

func refInt(p string) (int64, bool) {
	d := p
	if strings.HasPrefix(d, "-") {
		d = d[1:]
	}
	if d == "" {
		return 0, false
	}
	for _, c := range d {
		if c < '0' || c > '9' {
			return 0, false
		}
	}
	v, err := strconv.ParseInt(p, 10, 64)
	if err != nil || v > maxSafe || v < -maxSafe {
		return 0, false
	}
	return v, true
}

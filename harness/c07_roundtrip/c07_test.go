// C07 — seal then unseal is lossless for every token, key algorithm and codec.
package c07

import (
	"strings"
	"github.com/ucan-wg/go-ucan/pkg/args"
	"time"
	"io"
	"bytes"
	"fmt"
	"math"
	"os"
	"testing"

	"github.com/ipfs/go-cid"
	"github.com/ipld/go-ipld-prime"
	"github.com/libp2p/go-libp2p/core/crypto"
	"github.com/multiformats/go-multicodec"
	"pgregory.net/rapid"

	"github.com/ucan-wg/go-ucan/did"
	"github.com/ucan-wg/go-ucan/pkg/command"
	"github.com/ucan-wg/go-ucan/pkg/policy"
	"github.com/ucan-wg/go-ucan/token"
	"github.com/ucan-wg/go-ucan/token/delegation"
	"github.com/ucan-wg/go-ucan/token/invocation"

	"verif/harness/api"
	"verif/harness/h"
	_ "verif/harness/warm"
	"verif/harness/keys"
	"verif/harness/tok"
	"verif/harness/val"
)

var P = h.New("C07", "exploration",
	"case = token descriptor (delegation via New/Root or invocation; every option present/absent; args/meta values of depth <= 3 passed as IPLD nodes or Go natives; policies from the policy grammar; nonces 12..64 bytes or library default; time bounds as offsets or absolute extremes: year 1, year 9999, +/-2^53+/-1, 2^60, sub-second parts) x issuer algorithm in {Ed25519, secp256k1, P-256, P-384, P-521, RSA-2048/3072} x {DAG-CBOR sealed, DAG-CBOR reader, DAG-JSON} x {generic, typed} decoders. Oracle: constructor accepted => seal succeeds and every decoder returns a token agreeing with the constructed one on every accessor (maps as entry sets, times at whole seconds). Excluded by construction (counted): non-finite floats, integral-valued floats on the DAG-JSON path (known finding). Non-trivial = >= 3 optional fields set, or a nested value, or a non-Ed25519 issuer. Distinct by (type, option bitmap, algorithm, value shapes).")

func TestMain(m *testing.M) { os.Exit(P.Main(m)) }
func TestReplay(t *testing.T) { P.Replay(t) }

type Case struct {
	Tok  tok.Tok  `json:"tok"`
	Next *tok.Tok `json:"next,omitempty"` // a second token encoded BEFORE the first one's outputs are decoded
	// Pre: encode attempts with keys that are not the issuer's (another algorithm, or the same algorithm and another
	// key), made on the token object BEFORE it is sealed with the right one. They fail; the seal that follows is
	// still the issuer's seal of that token.
	Pre []PreAttempt `json:"pre,omitempty"`
}

type PreAttempt struct {
	Key tok.KeyRef `json:"key"`
	API int        `json:"api"` // 0 ToSealed, 1 ToDagCbor, 2 ToDagJson, 3 ToSealedWriter
}

func hasIntegralFloat(t tok.Tok) bool {
	found := false
	t.Values(func(v val.V) {
		if v.K == "float" {
			f := v.Float64()
			if f == math.Trunc(f) {
				found = true
			}
		}
	})
	return found
}

func timeClass(t tok.Tok) string {
	cls := "ok"
	chk := func(ts *tok.TimeSpec) {
		if ts != nil && ts.Abs && (ts.V > (1<<53)-1 || ts.V < -((1<<53)-1)) {
			cls = "beyond-2^53"
		}
	}
	if t.Dlg != nil {
		chk(t.Dlg.Nbf)
		chk(t.Dlg.Exp)
	} else {
		chk(t.Inv.Exp)
		chk(t.Inv.Iat)
	}
	return cls
}

func expectFromDescriptor(c *h.Ctx, d tok.Tok, v tok.View) {
	// what the constructor was given must be what the accessors report
	check := func(kvs []tok.KVal, got map[string]ipld.Node, what string) {
		if len(kvs) != len(got) {
			c.Fail("C07/constructor/"+what+"-count", "%d %s entries given, %d reported", len(kvs), what, len(got))
			return
		}
		for _, e := range kvs {
			n, ok := got[e.K]
			if !ok || !val.EqualNodes(n, e.V.Node()) {
				c.Fail("C07/constructor/"+what+"-value", "%s[%q] given %s (native=%v), stored %v", what, e.K, e.V, e.Native, n)
				return
			}
		}
	}
	if d.Dlg != nil {
		check(d.Dlg.Meta, v.Meta, "meta")
		if d.Dlg.Nonce != nil && !bytes.Equal(d.Dlg.Nonce, v.Nonce) {
			c.Fail("C07/constructor/nonce", "nonce given %x stored %x", d.Dlg.Nonce, v.Nonce)
		}
		if v.Iss != d.Dlg.Iss.Key().DID || v.Aud != d.Dlg.Aud.Key().DID {
			c.Fail("C07/constructor/principals", "issuer/audience not stored as given")
		}
		switch d.Dlg.Sub {
		case "none":
			if v.Sub.Defined() && !d.Dlg.UseRoot {
				c.Fail("C07/constructor/subject", "powerline delegation reports a subject")
			}
		case "iss":
			if v.Sub != v.Iss {
				c.Fail("C07/constructor/subject", "root delegation: subject != issuer")
			}
		case "other":
			if v.Sub != d.Dlg.SubKey.Key().DID {
				c.Fail("C07/constructor/subject", "subject not stored as given")
			}
		}
	} else {
		check(d.Inv.Args, v.Args, "args")
		check(d.Inv.Meta, v.Meta, "meta")
		if d.Inv.Nonce != nil && !d.Inv.EmptyNonce && !bytes.Equal(d.Inv.Nonce, v.Nonce) {
			c.Fail("C07/constructor/nonce", "nonce given %x stored %x", d.Inv.Nonce, v.Nonce)
		}
		if (d.Inv.Cause != nil) != (v.Cause != "") || (d.Inv.Cause != nil && v.Cause != val.CidOf(d.Inv.Cause).String()) {
			c.Fail("C07/constructor/cause", "cause given=%v stored=%q", d.Inv.Cause != nil, v.Cause)
		}
		if len(d.Inv.Prf) != len(v.Prf) {
			c.Fail("C07/constructor/prf", "%d proofs given, %d stored", len(d.Inv.Prf), len(v.Prf))
		}
		for i := range d.Inv.Prf {
			if i < len(v.Prf) && v.Prf[i] != val.CidOf(d.Inv.Prf[i]).String() {
				c.Fail("C07/constructor/prf", "proof %d differs", i)
			}
		}
		if d.Inv.NoIat && v.Iat != nil {
			c.Fail("C07/constructor/iat", "WithoutInvokedAt ignored")
		}
		if d.Inv.Iat != nil && d.Inv.Iat.Abs && (v.Iat == nil || *v.Iat != d.Inv.Iat.V) {
			c.Fail("C07/constructor/iat", "iat given %d stored %v", d.Inv.Iat.V, v.Iat)
		}
		wantAud := d.Inv.Aud != nil && d.Inv.Aud.Key().DID != d.Inv.Sub.Key().DID
		if wantAud != v.Aud.Defined() {
			c.Fail("C07/constructor/audience", "audience given (and != subject)=%v, stored defined=%v", wantAud, v.Aud.Defined())
		}
	}
}

func run(c *h.Ctx, cs Case) {
	d := cs.Tok
	alg := d.Issuer().Alg
	kind := d.Kind()
	c.P.Class("alg:" + string(alg))
	c.P.Class("kind:" + kind)
	nonFinite := false
	d.Values(func(v val.V) {
		if v.K == "float" {
			if f := v.Float64(); math.IsNaN(f) || math.IsInf(f, 0) {
				nonFinite = true
			}
		}
	})
	if nonFinite {
		c.P.Class("excluded:non-finite-float") // outside the property's domain ("finite numeric values")
		c.P.Unspecified()
		return
	}
	tk, priv, err := tok.Build(d)
	if err != nil {
		c.P.Class("constructor-rejected")
		return
	}
	v0, err := tok.ViewOf(tk)
	if err != nil {
		c.Fail("C07/accessors", "accessors of a constructed token fail: %v", err)
		return
	}
	expectFromDescriptor(c, d, v0)
	tcls := timeClass(d)
	for _, pa := range cs.Pre {
		if pa.Key == d.Issuer() {
			continue
		}
		wrong := pa.Key.Key().Priv
		var perr error
		if pn, pv, _ := h.Try(func() {
			switch pa.API % 4 {
			case 0:
				_, _, perr = tk.ToSealed(wrong)
			case 1:
				_, perr = tk.ToDagCbor(wrong)
			case 2:
				_, perr = tk.ToDagJson(wrong)
			default:
				_, perr = tk.ToSealedWriter(io.Discard, wrong)
			}
		}); pn {
			c.Fail("C07/seal-panics/foreign-key", "encoding with a key that is not the issuer's panicked: %v", pv)
			return
		}
		if perr != nil {
			c.P.Class("history:failed-attempt-with-" + map[bool]string{true: "same", false: "other"}[pa.Key.Alg == alg] + "-algorithm-first")
		}
	}
	var sealed []byte
	if pn, pv, _ := h.Try(func() { sealed, _, err = tk.ToSealed(priv) }); pn {
		c.Fail("C07/seal-panics/"+string(alg), "ToSealed panicked: %v", pv)
		return
	}
	if err != nil {
		c.Fail("C07/seal-fails/"+string(alg)+"/time="+tcls, "constructor accepted the token but ToSealed failed: %v\n%+v", err, d)
		return
	}
	var js []byte
	jsonOK := !hasIntegralFloat(d)
	if jsonOK {
		js, err = tk.ToDagJson(priv)
		if err != nil {
			c.Fail("C07/dagjson-encode-fails", "ToDagJson failed: %v", err)
			js = nil
		}
	} else {
		c.P.Class("excluded:dagjson-integral-float")
	}
	// The outputs belong to the caller: encoding other tokens before decoding must not disturb them.
	sealedCopy, jsCopy := append([]byte{}, sealed...), append([]byte{}, js...)
	if cs.Next != nil {
		if tk2, priv2, err := tok.Build(*cs.Next); err == nil {
			for i := 0; i < 2; i++ {
				_, _, _ = tk2.ToSealed(priv2)
				_, _ = tk2.ToDagCbor(priv2)
				_, _ = tk2.ToDagJson(priv2)
				_, _, _ = tk.ToSealed(priv)
				_, _ = tk.ToDagJson(priv)
			}
			c.P.Class("interleaved-encoding")
		}
	}
	if !bytes.Equal(sealed, sealedCopy) {
		c.Fail("C07/output-changed-by-later-call/sealed", "the bytes returned by ToSealed changed after encoding another token")
	}
	if js != nil && !bytes.Equal(js, jsCopy) {
		c.Fail("C07/output-changed-by-later-call/dagjson/"+kind, "the bytes returned by ToDagJson changed after encoding another token (%d bytes)", len(js))
	}
	judge := func(name, codec string, got token.Token, derr error) {
		if derr != nil {
			c.Fail(fmt.Sprintf("C07/unseal-rejects/%s/%s/time=%s", alg, codec, tcls), "%s rejects a token that was constructed and sealed successfully: %v\ndescriptor %+v", name, derr, d)
			return
		}
		v1, err := tok.ViewOf(got)
		if err != nil {
			c.Fail("C07/accessors", "accessors of the decoded token fail: %v", err)
			return
		}
		if diff := tok.Diff(v0, v1); diff != "" {
			c.Fail(fmt.Sprintf("C07/field-differs/%s/%s/%s", kind, tok.Field(diff), codec), "%s: decoded token differs from the constructed one: %s\ndescriptor %+v", name, diff, d)
		}
		c.P.Class("decoded:" + codec)
	}
	// every decode entry point (harness/api) on the primary encodings
	for _, format := range []string{"cbor", "json"} {
		in := sealed
		if format == "json" {
			in = js
		}
		if in == nil {
			continue
		}
		for di, dec := range api.Decoders(format) {
			if dec.Typed != "" && dec.Typed != kind {
				continue
			}
			if h.Tier() == "quick" && (di+len(sealed))%2 == 1 {
				continue // quick tier: every other entry point per case (the offset varies with the case)
			}
			var got token.Token
			var derr error
			if pn, pv, _ := h.Try(func() { got, _, derr = dec.Bytes(in) }); pn {
				c.Fail("C07/decode-panics/"+dec.Name, "%s panicked: %v", dec.Name, pv)
				continue
			}
			judge(dec.Name, format, got, derr)
		}
	}
	// every encode entry point: same bytes as the primary one under a deterministic signature scheme,
	// otherwise decodable to the same token
	deterministic := alg == keys.Ed25519 || alg == keys.RSA
	slowKey := alg == keys.RSA && d.Issuer().Idx >= keys.RSAFast // 4096..8192-bit keys: one signature costs up to 0.5 s
	for ei, enc := range api.Encoders {
		if enc.Format == "json" && js == nil {
			continue
		}
		if slowKey && ei%5 != len(sealed)%5 {
			continue
		}
		if h.Tier() == "quick" && (ei+len(sealed))%2 == 1 {
			continue
		}
		var out []byte
		var eerr error
		if pn, pv, _ := h.Try(func() { out, _, eerr = enc.Bytes(tk, priv) }); pn {
			c.Fail("C07/encode-panics/"+enc.Name, "%s panicked: %v", enc.Name, pv)
			continue
		}
		if eerr != nil {
			c.Fail("C07/encode-fails/"+enc.Name, "%s failed on a token that ToSealed / ToDagJson encode: %v", enc.Name, eerr)
			continue
		}
		primary := sealed
		if enc.Format == "json" {
			primary = js
		}
		if deterministic {
			if !bytes.Equal(out, primary) {
				c.Fail("C07/encoders-disagree/"+enc.Name, "%s produced other bytes than the primary encoder of the same format (%d vs %d bytes) under a deterministic signature scheme", enc.Name, len(out), len(primary))
			}
			continue
		}
		decs := api.Decoders(enc.Format)
		dec := decs[(ei*7+len(out))%len(decs)]
		if dec.Typed != "" && dec.Typed != kind {
			dec = decs[0]
		}
		got, _, derr := dec.Bytes(out)
		judge(enc.Name+" -> "+dec.Name, enc.Format, got, derr)
	}
	if d.OptionCount() >= 3 || d.HasNested() || alg != keys.Ed25519 {
		c.P.NonTrivial([]any{kind, d.OptionBitmap(), alg, d.ValueShape()}, map[string]any{"descriptor": d, "sealed_len": len(sealed)})
	}
}

func draw(t *rapid.T) Case {
	cfg := tok.GenCfg{Algs: keys.AllAlgs, ExtremeTime: true, NoTopNull: true, WideInts: true,
		Values: val.Cfg{Depth: 3, MaxLen: 3, SafeInts: true, Big: true, Keys: []string{"a", "b", "aa", "x", "é", "with space", "zz"}}}
	cs := Case{Tok: tok.Gen(t, cfg)}
	if rapid.Bool().Draw(t, "interleave") {
		small := tok.GenCfg{Algs: []keys.Alg{keys.Ed25519}, NoTopNull: true, OnlyFuture: true, Kinds: cs.Tok.Kind(), Values: val.Cfg{Depth: 1, MaxLen: 2, SafeInts: true, NoFloat: true}}
		n := tok.Gen(t, small)
		cs.Next = &n
	}
	if rapid.IntRange(0, 3).Draw(t, "pre") == 2 {
		n := rapid.IntRange(1, 3).Draw(t, "pre_n")
		for i := 0; i < n; i++ {
			a := rapid.SampledFrom([]keys.Alg{keys.Ed25519, keys.Secp256k1, keys.P256, keys.P384, keys.P521, keys.RSA, cs.Tok.Issuer().Alg, cs.Tok.Issuer().Alg}).Draw(t, "pre_alg")
			cs.Pre = append(cs.Pre, PreAttempt{Key: tok.KeyRef{Alg: a, Idx: rapid.IntRange(0, 2).Draw(t, "pre_idx")}, API: rapid.IntRange(0, 3).Draw(t, "pre_api")})
		}
	}
	return cs
}

var prop = h.Define(P, "roundtrip", draw, run)

func TestRoundTrip(t *testing.T) { prop.Check(t) }

// TestKnownDagJsonIntegralFloat re-confirms the listed finding: DAG-JSON
// prints an integral-valued float without a decimal point, it decodes as an
// integer and the signature no longer verifies.
func TestKnownDagJsonIntegralFloat(t *testing.T) {
	const sig = "C07/dagjson/integral-float"
	d := tok.Tok{Inv: &tok.Inv{Iss: tok.KeyRef{Alg: keys.Ed25519, Idx: 0}, Sub: tok.KeyRef{Alg: keys.Ed25519, Idx: 1}, Cmd: "/foo",
		Args: []tok.KVal{{K: "x", V: val.Float(1)}}, Nonce: bytes.Repeat([]byte{7}, 12)}}
	tk, priv, err := tok.Build(d)
	P.Eval()
	if err != nil {
		t.Fatalf("INCONCLUSIVE reproducer does not build: %v", err)
	}
	js, err := tk.ToDagJson(priv)
	if err != nil {
		t.Fatalf("INCONCLUSIVE %v", err)
	}
	_, derr := token.FromDagJson(js)
	reproduced := derr != nil
	if !reproduced {
		// decodes: does the float come back as a float?
		got, _ := token.FromDagJson(js)
		v0, _ := tok.ViewOf(tk)
		v1, _ := tok.ViewOf(got)
		reproduced = tok.Diff(v0, v1) != ""
	}
	if reproduced && !P.IsKnown(sig) {
		ctx := &h.Ctx{P: P, T: t}
		ctx.Fail(sig, "DAG-JSON round trip of a token carrying float 1.0 fails: %v\n%s", derr, js)
	}
	P.KnownFinding(sig, reproduced)
}

// TestKnownTopLevelNull re-confirms the listed finding: a null given as a
// top-level argument / metadata value is accepted and sealed, but the
// bindnode-based decoder cannot assign null to an `Any` map value.
func TestKnownTopLevelNull(t *testing.T) {
	const sig = "C07/toplevel-null-value"
	reproduced := false
	for _, d := range []tok.Tok{
		{Inv: &tok.Inv{Iss: tok.KeyRef{Alg: keys.Ed25519, Idx: 0}, Sub: tok.KeyRef{Alg: keys.Ed25519, Idx: 1}, Cmd: "/foo",
			Args: []tok.KVal{{K: "x", V: val.Null()}}, Nonce: bytes.Repeat([]byte{7}, 12)}},
		{Dlg: &tok.Dlg{Iss: tok.KeyRef{Alg: keys.Ed25519, Idx: 0}, Aud: tok.KeyRef{Alg: keys.Ed25519, Idx: 1}, Sub: "iss", Cmd: "/foo",
			Meta: []tok.KVal{{K: "x", V: val.Null()}}, Nonce: bytes.Repeat([]byte{7}, 12)}},
	} {
		P.Eval()
		tk, priv, err := tok.Build(d)
		if err != nil {
			continue // the constructor rejects it: nothing left of the finding for this token type
		}
		sealed, _, err := tk.ToSealed(priv)
		if err != nil {
			continue
		}
		got, _, derr := token.FromSealed(sealed)
		if derr != nil {
			reproduced = true
			continue
		}
		v0, _ := tok.ViewOf(tk)
		v1, _ := tok.ViewOf(got)
		if tok.Diff(v0, v1) != "" {
			reproduced = true
		}
	}
	if reproduced && !P.IsKnown(sig) {
		ctx := &h.Ctx{P: P, T: t}
		ctx.Fail(sig, "a token carrying a top-level null argument / metadata value seals but does not unseal")
	}
	P.KnownFinding(sig, reproduced)
}

// ---------- concurrent encode / decode (race-detector build) ----------

type ConcCase struct {
	Toks       []tok.Tok `json:"toks"`
	Goroutines int       `json:"goroutines"`
}

// runConc: several goroutines seal / encode / decode their own tokens at the
// same time; every goroutine must get back exactly its own token.
func runConc(c *h.Ctx, cc ConcCase) {
	type built struct {
		tk   token.Token
		priv interface{}
		view tok.View
		d    tok.Tok
	}
	var bs []built
	for _, d := range cc.Toks {
		tk, priv, err := tok.Build(d)
		if err != nil {
			continue
		}
		if _, _, err := tk.ToSealed(priv); err != nil {
			continue
		}
		v, _ := tok.ViewOf(tk)
		bs = append(bs, built{tk, priv, v, d})
	}
	if len(bs) == 0 {
		return
	}
	bad := make(chan string, 16)
	report := func(s string) {
		select {
		case bad <- s:
		default:
		}
	}
	if pv := h.Concurrently(cc.Goroutines, func(g int) {
		for r := 0; r < 4; r++ {
			b := bs[(g+r)%len(bs)]
			priv := b.d.Issuer().Key().Priv
			sealed, _, err := b.tk.ToSealed(priv)
			if err != nil {
				report("ToSealed failed under concurrency: " + err.Error())
				continue
			}
			js, jerr := b.tk.ToDagJson(priv)
			cb, _ := b.tk.ToDagCbor(priv)
			keep := append([]byte{}, sealed...)
			keepJS := append([]byte{}, js...)
			got, _, err := token.FromSealed(sealed)
			if err != nil {
				report("FromSealed rejects own output under concurrency: " + err.Error())
				continue
			}
			if v, err := tok.ViewOf(got); err != nil || tok.Diff(b.view, v) != "" {
				report("decoded token differs under concurrency: " + tok.Diff(b.view, v))
			}
			if _, err := token.FromDagCbor(cb); err != nil {
				report("FromDagCbor rejects own output under concurrency")
			}
			if jerr == nil && !hasIntegralFloat(b.d) {
				if gj, err := token.FromDagJson(js); err != nil {
					report("FromDagJson rejects own output under concurrency: " + err.Error())
				} else if v, err := tok.ViewOf(gj); err != nil || tok.Diff(b.view, v) != "" {
					report("DAG-JSON decoded token differs under concurrency: " + tok.Diff(b.view, v))
				}
			}
			if !bytes.Equal(keep, sealed) || !bytes.Equal(keepJS, js) {
				report("encoder output changed while other goroutines were encoding")
			}
		}
	}); pv != nil {
		c.Fail("C07/concurrent/panic", "panic under concurrent seal/unseal: %v", pv)
	}
	close(bad)
	for b := range bad {
		c.Fail("C07/concurrent/roundtrip", "%s", b)
	}
	c.P.NonTrivial([]any{"conc", len(bs), cc.Goroutines, bs[0].d.OptionBitmap()}, map[string]any{"mode": "concurrent-roundtrip", "tokens": len(bs), "goroutines": cc.Goroutines})
}

var concProp = h.Define(P, "concurrent", func(t *rapid.T) ConcCase {
	cfg := tok.GenCfg{Algs: []keys.Alg{keys.Ed25519, keys.Ed25519, keys.P256, keys.Secp256k1}, NoTopNull: true, OnlyFuture: true, Values: val.Cfg{Depth: 2, MaxLen: 3, SafeInts: true, NoFloat: true}}
	cc := ConcCase{Goroutines: rapid.IntRange(2, 8).Draw(t, "goroutines")}
	n := rapid.IntRange(1, 4).Draw(t, "ntok")
	for i := 0; i < n; i++ {
		cc.Toks = append(cc.Toks, tok.Gen(t, cfg))
	}
	return cc
}, runConc)

func TestConcurrentRoundTrip(t *testing.T) { concProp.Check(t) }

func issuerOf(t token.Token) did.DID {
	if x, ok := t.(interface{ Issuer() did.DID }); ok {
		return x.Issuer()
	}
	return did.Undef
}

// TestGenerators: "for each key algorithm the DID package can generate". Every generator of the did package, the
// curve-parameterised one with EVERY multicodec constant the package exports (and a few it does not): whenever a
// generator hands back a key pair and a DID without error, a delegation and an invocation issued by that DID can
// be sealed with that key and unsealed again, through every codec.
func TestGenerators(t *testing.T) {
	ctx := &h.Ctx{P: P, T: t}
	type gen struct {
		name string
		f    func() (crypto.PrivKey, did.DID, error)
	}
	gens := []gen{{"GenerateEd25519", did.GenerateEd25519}, {"GenerateSecp256k1", did.GenerateSecp256k1}, {"GenerateECDSA", did.GenerateECDSA}}
	if h.Thorough() {
		gens = append(gens, gen{"GenerateRSA", did.GenerateRSA})
	}
	for _, code := range []multicodec.Code{did.P256, did.P384, did.P521, did.Secp256k1, did.Ed25519, did.RSA, did.X25519, 0, 0x1203, 0xe8} {
		code := code
		gens = append(gens, gen{fmt.Sprintf("GenerateECDSAWithCurve(0x%x)", uint64(code)), func() (crypto.PrivKey, did.DID, error) { return did.GenerateECDSAWithCurve(code) }})
	}
	aud := keys.Principal(1).DID
	n := 0
	for _, g := range gens {
		var priv crypto.PrivKey
		var iss did.DID
		var err error
		if pn, pv, _ := h.Try(func() { priv, iss, err = g.f() }); pn {
			ctx.Fail("C07/generator/panic", "%s panicked: %v", g.name, pv)
			continue
		}
		if err != nil {
			P.Class("generator-refuses:" + g.name)
			continue
		}
		P.Class("generator:" + g.name)
		dlg, derr := delegation.Root(iss, aud, command.MustParse("/foo"), policy.Policy{}, delegation.WithNonce(bytes.Repeat([]byte{7}, 12)))
		inv, ierr := invocation.New(iss, aud, command.MustParse("/foo"), []cid.Cid{}, invocation.WithNonce(bytes.Repeat([]byte{8}, 12)))
		if derr != nil || ierr != nil {
			ctx.Fail("C07/generator/constructor-rejects-issuer", "%s returned DID %s, which the token constructors refuse as an issuer: %v %v", g.name, iss, derr, ierr)
			continue
		}
		for _, tk := range []token.Token{dlg, inv} {
			n++
			type sealer interface {
				ToSealed(crypto.PrivKey) ([]byte, cid.Cid, error)
				ToDagJson(crypto.PrivKey) ([]byte, error)
				ToDagCbor(crypto.PrivKey) ([]byte, error)
			}
			s := tk.(sealer)
			sealed, id, serr := s.ToSealed(priv)
			if serr != nil {
				ctx.Fail("C07/generator/seal-fails", "the key pair returned by %s (DID %s, key type %s) cannot seal a %T it issues: %v", g.name, iss, priv.Type(), tk, serr)
				continue
			}
			back, id2, uerr := token.FromSealed(sealed)
			if uerr != nil || id2 != id || issuerOf(back) != iss {
				ctx.Fail("C07/generator/unseal-fails", "a %T sealed with the key pair returned by %s (DID %s) does not unseal: %v (cid %s vs %s)", tk, g.name, iss, uerr, id, id2)
				continue
			}
			js, jerr := s.ToDagJson(priv)
			if jerr != nil {
				ctx.Fail("C07/generator/seal-fails", "%s: ToDagJson: %v", g.name, jerr)
				continue
			}
			if b2, jerr := token.FromDagJson(js); jerr != nil || issuerOf(b2) != iss {
				ctx.Fail("C07/generator/unseal-fails", "%s: FromDagJson: %v", g.name, jerr)
			}
			cb, cerr := s.ToDagCbor(priv)
			if cerr != nil {
				ctx.Fail("C07/generator/seal-fails", "%s: ToDagCbor: %v", g.name, cerr)
				continue
			}
			if b3, cerr := token.FromDagCbor(cb); cerr != nil || issuerOf(b3) != iss {
				ctx.Fail("C07/generator/unseal-fails", "%s: FromDagCbor: %v", g.name, cerr)
			}
		}
	}
	P.EvalN(n)
	P.AddDistinct(n)
	P.SetExtra("generator_round_trips", n)
}

// TestManyIssuers: one process that meets MANY issuers (a service, a relay): a delegation of each of N distinct
// non-Ed25519 and Ed25519 issuers is sealed and unsealed, then the early ones are used again - their old tokens still
// unseal, and they can seal new ones. Whatever the library remembers about keys it has seen (a bounded cache has to
// evict at some N) does not change what a key is.
func TestManyIssuers(t *testing.T) {
	ctx := &h.Ctx{P: P, T: t}
	n := h.N(1400, 9000)
	algs := []keys.Alg{keys.Secp256k1, keys.Secp256k1, keys.P256, keys.Ed25519}
	aud := keys.Principal(1).DID
	type kept struct {
		k      *keys.Key
		sealed []byte
		id     cid.Cid
	}
	var first []kept
	roundTrip := func(k *keys.Key, nonce byte, phase string, i int) ([]byte, cid.Cid, bool) {
		d, err := delegation.Root(k.DID, aud, command.MustParse("/many/issuers"), policy.Policy{}, delegation.WithNonce(bytes.Repeat([]byte{nonce}, 12)))
		if err != nil {
			ctx.Fail("C07/many-issuers/constructor", "%s issuer #%d (%s): delegation.Root: %v", phase, i, k.Alg, err)
			return nil, cid.Undef, false
		}
		sealed, id, err := d.ToSealed(k.Priv)
		if err != nil {
			ctx.Fail("C07/many-issuers/seal-fails/"+phase, "issuer #%d (%s %s), after %d other issuers were met in this process: sealing with its own key fails: %v", i, k.Alg, k.DID, n, err)
			return nil, cid.Undef, false
		}
		back, id2, err := token.FromSealed(sealed)
		if err != nil || id2 != id || issuerOf(back) != k.DID {
			ctx.Fail("C07/many-issuers/unseal-fails/"+phase, "issuer #%d (%s %s): its freshly sealed delegation does not unseal: %v", i, k.Alg, k.DID, err)
			return nil, cid.Undef, false
		}
		return sealed, id, true
	}
	for i := 0; i < n; i++ {
		k := keys.Get(algs[i%len(algs)], 100+i)
		sealed, id, ok := roundTrip(k, 1, "first-use", i)
		if !ok {
			return
		}
		if i < 64 {
			first = append(first, kept{k, sealed, id})
		}
	}
	for i, f := range first {
		if back, id2, err := token.FromSealed(f.sealed); err != nil || id2 != f.id || issuerOf(back) != f.k.DID {
			ctx.Fail("C07/many-issuers/old-token-rejected", "the delegation of issuer #%d (%s %s), sealed and unsealed at the start of this process, is refused after %d other issuers were met: %v", i, f.k.Alg, f.k.DID, n, err)
			return
		}
		if _, _, ok := roundTrip(f.k, 2, "reuse", i); !ok {
			return
		}
		if pk, err := f.k.DID.PubKey(); err != nil || !pk.Equals(f.k.Pub) {
			ctx.Fail("C07/many-issuers/pubkey-changed", "DID %s of issuer #%d yields another key (or %v) after %d other issuers were met", f.k.DID, i, err, n)
			return
		}
	}
	P.EvalN(n + len(first))
	P.AddDistinct(n)
	P.SetExtra("distinct_issuers_in_one_process", n)
}

// TestOptionSequences: "all option combinations" includes an option given more than once and options that speak about
// the same field (WithEmptyNonce and WithNonce, two expirations, WithoutInvokedAt and WithInvokedAt ...), in every
// order. Whatever list the constructor ACCEPTS yields a token that seals and unseals, with the accessors unchanged.
func TestOptionSequences(t *testing.T) {
	ctx := &h.Ctx{P: P, T: t}
	iss, aud := keys.Principal(0), keys.Principal(1)
	nonceOpts := []int{-1, 0, 1, 11, 12, 13}
	n := 0
	var seqs [][]int
	for _, a := range nonceOpts {
		seqs = append(seqs, []int{a})
		for _, b := range nonceOpts {
			seqs = append(seqs, []int{a, b})
			for _, c := range []int{-1, 1, 12} {
				seqs = append(seqs, []int{a, b, c})
			}
		}
	}
	check := func(tk token.Token, what string) {
		n++
		type sealer interface {
			ToSealed(crypto.PrivKey) ([]byte, cid.Cid, error)
			ToDagJson(crypto.PrivKey) ([]byte, error)
		}
		v0, err := tok.ViewOf(tk)
		if err != nil {
			ctx.Fail("C07/option-sequence/accessors", "%s: accessors of a constructed token fail: %v", what, err)
			return
		}
		sealed, id, err := tk.(sealer).ToSealed(iss.Priv)
		if err != nil {
			ctx.Fail("C07/option-sequence/seal-fails", "%s: the constructor accepted the options, sealing fails: %v", what, err)
			return
		}
		back, id2, err := token.FromSealed(sealed)
		if err != nil || id2 != id {
			ctx.Fail("C07/option-sequence/unseal-fails", "%s: the constructor accepted the options and the token seals, but it cannot be unsealed: %v", what, err)
			return
		}
		if v1, err := tok.ViewOf(back); err != nil || tok.Diff(v0, v1) != "" {
			ctx.Fail("C07/option-sequence/changed", "%s: the unsealed token differs from the constructed one: %s %v", what, tok.Diff(v0, v1), err)
			return
		}
		js, err := tk.(sealer).ToDagJson(iss.Priv)
		if err != nil {
			ctx.Fail("C07/option-sequence/seal-fails", "%s: ToDagJson fails: %v", what, err)
			return
		}
		if _, err := token.FromDagJson(js); err != nil {
			ctx.Fail("C07/option-sequence/unseal-fails", "%s: FromDagJson fails: %v", what, err)
		}
	}
	for _, sq := range seqs {
		var iopts []invocation.Option
		var dopts []delegation.Option
		dOK := true
		for _, x := range sq {
			if x < 0 {
				iopts = append(iopts, invocation.WithEmptyNonce())
				dOK = false
				continue
			}
			iopts = append(iopts, invocation.WithNonce(bytes.Repeat([]byte{7}, x)))
			dopts = append(dopts, delegation.WithNonce(bytes.Repeat([]byte{7}, x)))
		}
		for _, extra := range []int{0, 1, 2, 3, 4, 5} {
			io, do := append([]invocation.Option{}, iopts...), append([]delegation.Option{}, dopts...)
			switch extra {
			case 3: // the same metadata entry given twice with the same value (defaults + per-call options)
				io = append(io, invocation.WithMeta("env", "prod"), invocation.WithMeta("k", int64(1)), invocation.WithMeta("env", "prod"))
				do = append(do, delegation.WithMeta("env", "prod"), delegation.WithMeta("k", int64(1)), delegation.WithMeta("env", "prod"))
			case 4: // the same argument twice with the same value; the same metadata entry with another value
				io = append(io, invocation.WithArgument("a", int64(1)), invocation.WithArgument("a", int64(1)))
				do = append(do, delegation.WithMeta("env", "prod"), delegation.WithMeta("env", "test"))
			case 5: // an argument that the shared argument set already holds, with the same value; bytes given twice
				tmpl := args.New()
				_ = tmpl.Add("a", int64(1))
				_ = tmpl.Add("b", "x")
				io = append(io, invocation.WithArguments(tmpl), invocation.WithArgument("b", "x"), invocation.WithMeta("blob", []byte{1, 2}), invocation.WithMeta("blob", []byte{1, 2}))
				do = append(do, delegation.WithMeta("blob", []byte{1, 2}), delegation.WithMeta("blob", []byte{1, 2}))
			case 1: // options about other fields, twice
				io = append(io, invocation.WithExpirationIn(time.Hour), invocation.WithExpirationIn(2*time.Hour), invocation.WithoutInvokedAt(), invocation.WithInvokedAtIn(-time.Minute), invocation.WithMeta("k", "v"), invocation.WithArgument("a", 1))
				do = append(do, delegation.WithExpirationIn(time.Hour), delegation.WithExpirationIn(2*time.Hour), delegation.WithNotBeforeIn(-time.Hour), delegation.WithNotBeforeIn(-time.Minute), delegation.WithMeta("k", "v"))
			case 2: // the same, in front
				io = append([]invocation.Option{invocation.WithInvokedAtIn(-time.Minute), invocation.WithoutInvokedAt(), invocation.WithAudience(aud.DID), invocation.WithAudience(iss.DID)}, io...)
				do = append([]delegation.Option{delegation.WithSubject(iss.DID), delegation.WithSubject(aud.DID), delegation.WithSubject(iss.DID)}, do...)
			}
			if iv, err := invocation.New(iss.DID, aud.DID, command.MustParse("/foo"), []cid.Cid{}, io...); err == nil {
				check(iv, fmt.Sprintf("invocation.New with nonce options %v (extra set %d)", sq, extra))
				P.Class("option-sequence:inv-accepted")
			} else {
				P.Class("option-sequence:inv-refused")
			}
			if dOK {
				if d, err := delegation.New(iss.DID, aud.DID, command.MustParse("/foo"), policy.Policy{}, do...); err == nil {
					check(d, fmt.Sprintf("delegation.New with nonce options %v (extra set %d)", sq, extra))
					P.Class("option-sequence:dlg-accepted")
				}
			}
		}
	}
	P.EvalN(n)
	P.AddDistinct(n)
	P.SetExtra("option_sequences", n)
}

// TestSharedArguments: ONE *args.Args given to several constructor calls (a template of arguments, completed per
// invocation with WithArgument), with 0..9 keys in it, in every position relative to the per-call arguments, followed
// by a second user of the same template: another invocation completed with other keys, or keys added to the template
// itself. A constructed token is a value of its own: what it holds is what its options said at the time (checked
// against an independent map of expectations), it stays that after the template has been used again, and it seals and
// unseals to exactly that.
func TestSharedArguments(t *testing.T) {
	ctx := &h.Ctx{P: P, T: t}
	iss, aud := keys.Principal(0), keys.Principal(1)
	n := 0
	type want struct {
		keys []string
		vals map[string]int64
	}
	expect := func(tk *invocation.Token, w want, what string) bool {
		n++
		v, err := tok.ViewOf(tk)
		if err != nil {
			ctx.Fail("C07/shared-arguments/accessors", "%s: accessors of a constructed token fail: %v", what, err)
			return false
		}
		if fmt.Sprint(v.ArgKeys) != fmt.Sprint(w.keys) {
			ctx.Fail("C07/shared-arguments/keys-differ", "%s: the token lists the argument keys %v, its options said %v", what, v.ArgKeys, w.keys)
			return false
		}
		for k, x := range w.vals {
			nd, ok := v.Args[k]
			if !ok {
				ctx.Fail("C07/shared-arguments/value-missing", "%s: argument %q has no value", what, k)
				return false
			}
			if got, err := nd.AsInt(); err != nil || got != x {
				ctx.Fail("C07/shared-arguments/value-differs", "%s: argument %q = %v (%v), its options said %d", what, k, got, err, x)
				return false
			}
		}
		var sealed []byte
		var id cid.Cid
		if pn, pv, _ := h.Try(func() { sealed, id, err = tk.ToSealed(iss.Priv) }); pn || err != nil {
			ctx.Fail("C07/shared-arguments/seal-fails", "%s: sealing fails: %v %v", what, pv, err)
			return false
		}
		back, id2, err := token.FromSealed(sealed)
		if err != nil || id2 != id {
			ctx.Fail("C07/shared-arguments/unseal-fails", "%s: the sealed token cannot be unsealed: %v", what, err)
			return false
		}
		if v1, err := tok.ViewOf(back); err != nil || tok.Diff(v, v1) != "" {
			ctx.Fail("C07/shared-arguments/changed", "%s: the unsealed token differs from the constructed one: %s %v", what, tok.Diff(v, v1), err)
			return false
		}
		var js []byte
		if pn, pv, _ := h.Try(func() { js, err = tk.ToDagJson(iss.Priv) }); pn || err != nil {
			ctx.Fail("C07/shared-arguments/seal-fails", "%s: ToDagJson fails: %v %v", what, pv, err)
			return false
		}
		if _, err := token.FromDagJson(js); err != nil {
			ctx.Fail("C07/shared-arguments/unseal-fails", "%s: FromDagJson fails: %v", what, err)
			return false
		}
		return true
	}
	// build(tmpl, shape, tag): the options of one call and what they say. Shapes: template first then 1 or 2 own
	// keys; own key first; template between; template twice; a second template behind the first.
	shapes := []string{"T,a", "T,a,b", "a,T", "a,T,b", "T,T,a", "T", "T,U,a", "a"}
	for size := 0; size <= 9; size++ {
		for _, shape := range shapes {
			for _, second := range []string{"other-call", "other-call-two-keys", "template-add", "same-call-again", "none"} {
				tmpl, other := args.New(), args.New()
				base := want{vals: map[string]int64{}}
				for i := 0; i < size; i++ {
					k := fmt.Sprintf("k%d", i)
					if err := tmpl.Add(k, int64(100+i)); err != nil {
						t.Fatal(err)
					}
					base.keys = append(base.keys, k)
					base.vals[k] = int64(100 + i)
				}
				_ = other.Add("u0", int64(900))
				_ = other.Add("k0", int64(901)) // a key the first template may hold too: the first value stays
				build := func(tag int64) ([]invocation.Option, want) {
					w := want{vals: map[string]int64{}}
					var opts []invocation.Option
					put := func(k string, v int64) {
						if _, ok := w.vals[k]; ok {
							return
						}
						w.keys = append(w.keys, k)
						w.vals[k] = v
					}
					for _, part := range strings.Split(shape, ",") {
						switch part {
						case "T":
							opts = append(opts, invocation.WithArguments(tmpl))
							for _, k := range base.keys {
								put(k, base.vals[k])
							}
						case "U":
							opts = append(opts, invocation.WithArguments(other))
							put("u0", 900)
							put("k0", 901)
						default:
							k := fmt.Sprintf("%s%d", part, tag)
							opts = append(opts, invocation.WithArgument(k, tag))
							put(k, tag)
						}
					}
					return opts, w
				}
				what := fmt.Sprintf("invocation.New with options [%s] over a shared %d-key Args, then %s", shape, size, second)
				o1, w1 := build(1)
				tk1, err := invocation.New(iss.DID, aud.DID, command.MustParse("/foo"), []cid.Cid{}, o1...)
				if err != nil {
					ctx.Fail("C07/shared-arguments/refused", "%s: refused: %v", what, err)
					continue
				}
				if !expect(tk1, w1, what+" (first token, before)") {
					return
				}
				var tk2 *invocation.Token
				var w2 want
				switch second {
				case "other-call":
					var o2 []invocation.Option
					o2, w2 = build(2)
					tk2, err = invocation.New(iss.DID, aud.DID, command.MustParse("/foo"), []cid.Cid{}, o2...)
				case "other-call-two-keys":
					var o2 []invocation.Option
					o2, w2 = build(2)
					o2 = append(o2, invocation.WithArgument("z2", int64(22)))
					w2.keys, w2.vals["z2"] = append(w2.keys, "z2"), 22
					tk2, err = invocation.New(iss.DID, aud.DID, command.MustParse("/foo"), []cid.Cid{}, o2...)
				case "template-add":
					err = tmpl.Add("late", int64(7))
				case "same-call-again":
					tk2, err = invocation.New(iss.DID, aud.DID, command.MustParse("/foo"), []cid.Cid{}, o1...)
					w2 = w1
				}
				if err != nil {
					ctx.Fail("C07/shared-arguments/refused", "%s: the second use is refused: %v", what, err)
					continue
				}
				if tk2 != nil && !expect(tk2, w2, what+" (second token)") {
					return
				}
				if !expect(tk1, w1, what+" (first token, after)") {
					return
				}
				// the template itself is the caller's: it holds what the caller put in it
				tw := base
				if second == "template-add" {
					tw.keys = append(append([]string{}, base.keys...), "late")
				}
				if fmt.Sprint(tmpl.Keys) != fmt.Sprint(tw.keys) && !(len(tmpl.Keys) == 0 && len(tw.keys) == 0) {
					ctx.Fail("C07/shared-arguments/template-changed", "%s: the caller's Args lists %v, the caller put %v in it", what, tmpl.Keys, tw.keys)
					return
				}
			}
		}
	}
	P.EvalN(n)
	P.AddDistinct(n)
	P.SetExtra("shared_argument_tokens", n)
}


// TestSealedLater: tokens built now and sealed more than a second later (queued, signed by another component, retried):
// every field of the unsealed token - the issue time the library set by default included - is what the constructed
// token reports. The random campaign seals within microseconds of building.
func TestSealedLater(t *testing.T) {
	ctx := &h.Ctx{P: P, T: t}
	iss, aud := keys.Principal(0), keys.Principal(1)
	type sealer interface {
		ToSealed(crypto.PrivKey) ([]byte, cid.Cid, error)
		ToDagJson(crypto.PrivKey) ([]byte, error)
	}
	var toks []token.Token
	var what []string
	add := func(tk token.Token, err error, w string) {
		if err == nil {
			toks, what = append(toks, tk), append(what, w)
		}
	}
	iv, err := invocation.New(iss.DID, aud.DID, command.MustParse("/foo"), []cid.Cid{})
	add(iv, err, "invocation with the default issue time")
	iv, err = invocation.New(iss.DID, aud.DID, command.MustParse("/foo"), []cid.Cid{}, invocation.WithExpirationIn(time.Hour), invocation.WithMeta("k", "v"))
	add(iv, err, "invocation with the default issue time and an expiration")
	iv, err = invocation.New(iss.DID, aud.DID, command.MustParse("/foo"), []cid.Cid{}, invocation.WithInvokedAtIn(-time.Minute))
	add(iv, err, "invocation with an explicit issue time")
	iv, err = invocation.New(iss.DID, aud.DID, command.MustParse("/foo"), []cid.Cid{}, invocation.WithoutInvokedAt())
	add(iv, err, "invocation without issue time")
	d, err := delegation.New(iss.DID, aud.DID, command.MustParse("/foo"), policy.Policy{}, delegation.WithExpirationIn(time.Hour), delegation.WithNotBeforeIn(-time.Minute))
	add(d, err, "delegation with both bounds")
	d, err = delegation.Root(iss.DID, aud.DID, command.MustParse("/foo"), policy.Policy{})
	add(d, err, "root delegation without bounds")
	var views []tok.View
	for _, tk := range toks {
		v, _ := tok.ViewOf(tk)
		views = append(views, v)
	}
	time.Sleep(1200 * time.Millisecond)
	for i, tk := range toks {
		for pass := 0; pass < 2; pass++ {
			sealed, id, err := tk.(sealer).ToSealed(iss.Priv)
			if err != nil {
				ctx.Fail("C07/sealed-later/seal-fails", "%s: %v", what[i], err)
				return
			}
			back, id2, err := token.FromSealed(sealed)
			if err != nil || id2 != id {
				ctx.Fail("C07/sealed-later/unseal-fails", "%s, sealed 1.2 s after it was built: %v", what[i], err)
				return
			}
			if v1, err := tok.ViewOf(back); err != nil || tok.Diff(views[i], v1) != "" {
				ctx.Fail("C07/sealed-later/changed/"+tok.Field(tok.Diff(views[i], v1)), "%s, sealed 1.2 s after it was built (sealing %d): the unsealed token differs from the constructed one: %s %v", what[i], pass+1, tok.Diff(views[i], v1), err)
				return
			}
			if v2, _ := tok.ViewOf(tk); tok.Diff(views[i], v2) != "" {
				ctx.Fail("C07/sealed-later/constructed-token-changed", "%s: sealing changed the constructed token: %s", what[i], tok.Diff(views[i], v2))
				return
			}
			js, err := tk.(sealer).ToDagJson(iss.Priv)
			if err == nil {
				if bj, err := token.FromDagJson(js); err == nil {
					if v1, err := tok.ViewOf(bj); err != nil || tok.Diff(views[i], v1) != "" {
						ctx.Fail("C07/sealed-later/changed/"+tok.Field(tok.Diff(views[i], v1)), "%s, encoded as DAG-JSON 1.2 s after it was built: differs from the constructed one: %s", what[i], tok.Diff(views[i], v1))
						return
					}
				}
			}
			time.Sleep(1100 * time.Millisecond)
		}
	}
	P.EvalN(4 * len(toks))
	P.AddDistinct(len(toks))
}

#!/usr/bin/env python3
"""Sensitivity harness (G9): apply each hand-written mutant of /verif/mutants.json
to /repo (text replacement), confirm that the repository builds and its own
test suite still passes, run the listed checks (quick tier) and report which
ones catch it. /repo is restored after every mutant.

usage: tools/mutants.py [--prop Cxx] [--id name] [--tier quick|thorough] [--skip-suite]
"""
import json, os, subprocess, sys, time

ROOT = os.path.dirname(os.path.dirname(os.path.abspath(__file__)))
ENV = dict(os.environ, GOFLAGS="-mod=mod", GOPROXY="off", GOSUMDB="off", GOTOOLCHAIN="local")


def sh(cmd, cwd=None, timeout=1800):
    r = subprocess.run(cmd, cwd=cwd, env=ENV, shell=isinstance(cmd, str), stdout=subprocess.PIPE,
                       stderr=subprocess.STDOUT, text=True, errors="replace", timeout=timeout)
    return r.returncode, r.stdout


def restore():
    sh("git checkout -- .", cwd="/repo")


def main():
    args = sys.argv[1:]
    prop = ident = None
    tier = "quick"
    skip = False
    while args:
        a = args.pop(0)
        if a == "--prop":
            prop = args.pop(0)
        elif a == "--id":
            ident = args.pop(0)
        elif a == "--tier":
            tier = args.pop(0)
        elif a == "--skip-suite":
            skip = True
    muts = json.load(open(os.path.join(ROOT, "mutants.json")))
    rc, out = sh("git status --porcelain", cwd="/repo")
    if out.strip():
        print("/repo is not clean, refusing:\n" + out)
        return 2
    results = []
    for m in muts:
        if prop and prop not in m["props"]:
            continue
        if ident and ident != m["id"]:
            continue
        try:
            ok = True
            for e in m["edits"]:
                p = os.path.join("/repo", e["file"])
                s = open(p).read()
                if s.count(e["old"]) != 1:
                    print("%s: pattern occurs %d times in %s" % (m["id"], s.count(e["old"]), e["file"]))
                    ok = False
                    break
                open(p, "w").write(s.replace(e["old"], e["new"]))
            if not ok:
                results.append((m["id"], "BAD-PATTERN", {}))
                continue
            rc, out = sh("go build ./... ", cwd="/repo")
            if rc != 0:
                results.append((m["id"], "NO-BUILD", {}))
                print(out[-1500:])
                continue
            suite = "skipped"
            if not skip:
                rc, out = sh("go test -vet=off -count=1 ./...", cwd="/repo")
                suite = "pass" if rc == 0 else "FAIL"
                if rc != 0:
                    print("%s: existing suite fails:\n%s" % (m["id"], out[-1200:]))
            per = {}
            for c in ([prop] if prop else m["props"]):
                t0 = time.time()
                rc, out = sh([os.path.join(ROOT, "check"), c, tier], cwd=ROOT, timeout=7200)
                sig = ""
                for ln in out.splitlines():
                    if "VIOLATION-CANDIDATE" in ln and "sig=" in ln:
                        sig = ln.split("sig=")[1].split()[0]
                per[c] = ("CAUGHT" if rc == 1 else "missed" if rc == 0 else "inconclusive") + (" " + sig if sig else "") + " %.0fs" % (time.time() - t0)
            results.append((m["id"], "suite=" + suite, per))
            print(m["id"], "suite=" + suite, per, flush=True)
        finally:
            restore()
    # persist (merge with earlier results)
    resfile = os.path.join(ROOT, "mutants_results.json")
    try:
        allres = json.load(open(resfile))
    except Exception:
        allres = {}
    for mid, suite, per in results:
        e = allres.setdefault(mid, {"suite": suite, "checks": {}})
        e["suite"] = suite
        e["checks"].update(per)
    json.dump(allres, open(resfile, "w"), indent=1, sort_keys=True)
    print("\n== summary ==")
    for r in results:
        print(r)
    return 0


if __name__ == "__main__":
    sys.exit(main())

#!/usr/bin/env python3
"""Re-run the owning check (quick tier) against every archived seeded defect, each in its own scratch worktree
(never /repo), and record the outcome in seeded/<name>/meta.json.  usage: tools/seed_regress.py [-j N] [name-prefix ...]"""
import json, os, subprocess, sys, glob, time, shutil
from concurrent.futures import ThreadPoolExecutor
ROOT = os.path.dirname(os.path.dirname(os.path.abspath(__file__)))
ENV = dict(os.environ, GOFLAGS="-mod=mod", GOPROXY="off", GOSUMDB="off", GOTOOLCHAIN="local")

def one(d):
    name = os.path.basename(d)
    meta = json.load(open(os.path.join(d, "meta.json")))
    prop = meta["breaks_property"]
    if meta.get("neutralised_by"):
        # a later fix: in /repo made the seeded change harmless (its own demonstration passes on the repaired tree)
        return name, prop, "neutralised", "by fix " + meta["neutralised_by"]
    wt, sc = "/tmp/wt/reg_" + name, "/tmp/wt/regsc_" + name
    subprocess.run("git -C /repo worktree remove --force %s" % wt, shell=True, stdout=subprocess.DEVNULL, stderr=subprocess.DEVNULL)
    os.makedirs("/tmp/wt", exist_ok=True)
    subprocess.run("git -C /repo worktree add -q %s HEAD" % wt, shell=True, check=True)
    try:
        r = subprocess.run("git apply %s" % os.path.join(d, "patch.diff"), shell=True, cwd=wt, stdout=subprocess.PIPE, stderr=subprocess.STDOUT, text=True)
        if r.returncode and meta.get("base_commit"):
            # written against an earlier commit; a later fix: touched the same lines - run it on its own base
            subprocess.run("git -C /repo worktree remove --force %s" % wt, shell=True, stdout=subprocess.DEVNULL, stderr=subprocess.DEVNULL)
            subprocess.run("git -C /repo worktree add -q %s %s" % (wt, meta["base_commit"]), shell=True, check=True)
            r = subprocess.run("git apply %s" % os.path.join(d, "patch.diff"), shell=True, cwd=wt, stdout=subprocess.PIPE, stderr=subprocess.STDOUT, text=True)
        if r.returncode:
            return name, prop, "patch-does-not-apply", r.stdout.strip()[:200]
        t0 = time.time()
        r = subprocess.run([os.path.join(ROOT, "check"), prop, "quick"], cwd=ROOT, env=dict(ENV, VERIF_REPO=wt, VERIF_SCRATCH=sc),
                           stdout=subprocess.PIPE, stderr=subprocess.STDOUT, text=True, errors="replace")
        sig = ""
        for ln in r.stdout.splitlines():
            if "VIOLATION-CANDIDATE" in ln and "sig=" in ln:
                sig = ln.split("sig=")[1].split()[0]
            elif ln.startswith("VIOLATION property=") and not sig:
                sig = ln
        out = {1: "caught", 0: "missed"}.get(r.returncode, "inconclusive")
        meta.setdefault("check_results", {})[prop] = {"tier": "quick", "outcome": out, "sig": sig, "wall_s": round(time.time() - t0, 1)}
        json.dump(meta, open(os.path.join(d, "meta.json"), "w"), indent=1)
        return name, prop, out, sig
    finally:
        subprocess.run("git -C /repo worktree remove --force %s" % wt, shell=True, stdout=subprocess.DEVNULL, stderr=subprocess.DEVNULL)
        shutil.rmtree(sc, ignore_errors=True)

def main():
    a = sys.argv[1:]
    j = 3
    if a[:1] == ["-j"]:
        j = int(a[1]); a = a[2:]
    ds = sorted(glob.glob(os.path.join(ROOT, "seeded", "*")))
    if a:
        ds = [d for d in ds if any(os.path.basename(d).startswith(p) for p in a)]
    bad = 0
    with ThreadPoolExecutor(max_workers=j) as ex:
        for name, prop, out, sig in ex.map(one, ds):
            print("%-55s %s %-12s %s" % (name, prop, out, sig), flush=True)
            bad += out not in ("caught", "neutralised")
    print("not caught: %d of %d" % (bad, len(ds)))
    return 1 if bad else 0

if __name__ == "__main__":
    sys.exit(main())

// Package warm: a broad, legitimate work-out of the library's other packages, run ONCE in the middle of every check's
// case stream (and between the two passes of a replay). A library's answer to a question is a function of the
// question; what the process did before - decoding tokens of every key type, parsing policies and selectors,
// reading containers, converting DIDs - is not part of it. State that one package leaves behind for another
// (a shared parser table, an interning map, a cache keyed too coarsely, a latch) shows as a difference between the
// cases before and after the work-out, and in any case as a wrong answer after it.
package warm

import (
	"bytes"

	"github.com/ipfs/go-cid"
	"github.com/ipld/go-ipld-prime"
	"github.com/ipld/go-ipld-prime/codec/dagjson"

	"github.com/ucan-wg/go-ucan/did"
	"github.com/ucan-wg/go-ucan/pkg/command"
	"github.com/ucan-wg/go-ucan/pkg/container"
	"github.com/ucan-wg/go-ucan/pkg/policy"
	"github.com/ucan-wg/go-ucan/pkg/policy/selector"
	"github.com/ucan-wg/go-ucan/token"
	"github.com/ucan-wg/go-ucan/token/delegation"
	"github.com/ucan-wg/go-ucan/token/invocation"

	"verif/harness/h"
	"verif/harness/keys"
)

type loader map[cid.Cid]*delegation.Token

func (l loader) GetDelegation(c cid.Cid) (*delegation.Token, error) {
	if d, ok := l[c]; ok {
		return d, nil
	}
	return nil, delegation.ErrDelegationNotFound
}

func init() { h.RegisterWarm(Do) }

// Do never fails and never panics; whatever it computes is thrown away.
func Do() {
	defer func() { _ = recover() }()
	encKey := bytes.Repeat([]byte{0x5a}, 32)
	pol, _ := policy.FromDagJson(`[["==", ".to", "bob@example.com"], ["like", ".subject", "re: \\*urgent\\\\*"], ["all", ".cc", ["like", ".", "*@example.com"]], ["any", ".tags[0:2]?", ["==", ".", "x"]], ["not", [">=", ".n[-1]?", 3]], ["or", [["<", ".a.b", 1.5], ["and", []]]]]`)
	for ai, alg := range []keys.Alg{keys.Ed25519, keys.Secp256k1, keys.P256, keys.P384, keys.P521, keys.RSA} {
		root, mid, inv := keys.Get(alg, 0), keys.Get(keys.Ed25519, 3), keys.Get(alg, 1)
		d0, err := delegation.Root(root.DID, mid.DID, command.MustParse("/warm/up"), pol, delegation.WithNonce(bytes.Repeat([]byte{byte(ai + 1)}, 12)),
			delegation.WithMeta("note", "warm\tup\n"), delegation.WithEncryptedMetaString("secret", "s3cr3t", encKey), delegation.WithExpirationIn(3600e9))
		if err != nil {
			continue
		}
		s0, c0, err := d0.ToSealed(root.Priv)
		if err != nil {
			continue
		}
		d1, err := delegation.New(mid.DID, inv.DID, command.MustParse("/warm/up/more"), policy.Policy{}, delegation.WithSubject(root.DID), delegation.WithNonce(bytes.Repeat([]byte{byte(ai + 9)}, 12)))
		if err != nil {
			continue
		}
		s1, c1, _ := d1.ToSealed(mid.Priv)
		iv, err := invocation.New(inv.DID, root.DID, command.MustParse("/warm/up/more/now"), []cid.Cid{c1, c0},
			invocation.WithArgument("to", "bob@example.com"), invocation.WithArgument("subject", "re: *urgent\\ please"), invocation.WithArgument("cc", []any{"a@example.com"}),
			invocation.WithArgument("tags", []any{"x", "y", "z"}), invocation.WithArgument("n", []any{1, 2}), invocation.WithArgument("a", map[string]any{"b": 1.25}),
			invocation.WithNonce(bytes.Repeat([]byte{byte(ai + 17)}, 12)), invocation.WithMeta("m", []byte{0, 1, 2}))
		if err != nil {
			continue
		}
		si, ci, _ := iv.ToSealed(inv.Priv)
		js, _ := iv.ToDagJson(inv.Priv)
		_, _ = token.FromDagJson(js)
		t0, _, _ := delegation.FromSealed(s0)
		t1, _, _ := token.FromSealedReader(bytes.NewReader(s1))
		ti, _, _ := invocation.FromSealed(si)
		if t0 != nil && ti != nil {
			if td1, ok := t1.(*delegation.Token); ok {
				_ = ti.ExecutionAllowed(loader{c0: t0, c1: td1})
				_ = ti.ExecutionAllowed(loader{c0: t0})
			}
			_, _ = t0.Meta().GetEncryptedString("secret", encKey)
			_ = t0.IsValidNow()
		}
		w := container.NewWriter()
		w.AddSealed(c0, s0)
		w.AddSealed(c1, s1)
		w.AddSealed(ci, si)
		if b, err := w.ToCar(); err == nil {
			_, _ = container.FromCar(b)
			_, _ = container.FromCarReader(bytes.NewReader(b[:len(b)/2]))
		}
		if b, err := w.ToCborBase64(); err == nil {
			_, _ = container.FromCborBase64(b)
		}
		if p, err := did.Parse(root.DID.String()); err == nil {
			if pk, err := p.PubKey(); err == nil {
				_, _ = did.FromPubKey(pk)
			}
		}
	}
	for _, s := range []string{"/", "/a", "/a/b", "/a\tb", "/é/ü", "/a//b", "/A", "a", "/a/", "", "/msg/send\nnow", "/\x00"} {
		if c, err := command.Parse(s); err == nil {
			_ = c.Covers(command.MustParse("/a/b/c"))
			_ = c.Segments()
		}
	}
	data, _ := ipld.Decode([]byte(`{"a": {"b": [1, 2, {"c": "d"}]}, "s": "héllo", "x": {"/": {"bytes": "AAEC"}}}`), dagjson.Decode)
	for _, s := range []string{".", ".a.b[0]", ".a.b[-1].c", ".s[1:3]", ".x[0:2]", ".a[]", ".a.b[]?", `.["a"]["b"]`, ".missing?", ".a.b[7]?", ".a.b[", "a", ".[\"'k'\"]", ".a.b[01]"} {
		if sel, err := selector.Parse(s); err == nil && data != nil {
			_, _ = sel.Select(data)
		}
	}
	if data != nil {
		_, _ = pol.Match(data)
		_, _ = pol.PartialMatch(data)
	}
	for _, s := range []string{"did:key:z6MkiTBz1ymuepAQ4HEHYSF1H8quG5GLVVQR3djdX3mDooWp", "did:key:zQ3shokFTS3brHcDQrn82RUDfCZESWL1ZdCEJwekUDPQiYBme", "did:key:1:z6Mk", "did:web:example.com", "did:key:z"} {
		if d, err := did.Parse(s); err == nil {
			_, _ = d.PubKey()
		}
	}
}

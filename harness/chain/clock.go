package chain

// Clock histories: the only way to put a time bound NEAR the instant of a check
// through the public API is to let real time pass (ExecutionAllowed reads the
// clock itself). One case is a batch of chains whose bounds lie milliseconds
// to a few seconds from their construction; all of them are checked a few
// milliseconds after construction, then again after one common sleep, on the
// SAME token objects. The expected decision is derived from the bounds read
// back through the accessors and from the wall clock sampled immediately
// before and after each call: valid with a margin on both sides => must be
// allowed (C05), invalid with a margin => must be denied (C04), anything
// closer than the margin is not judged. A stall of the process can therefore
// only move a check into the unjudged zone, never produce a wrong verdict.

import (
	"fmt"
	"time"

	"github.com/ucan-wg/go-ucan/token/delegation"
	"github.com/ucan-wg/go-ucan/token/invocation"
	"pgregory.net/rapid"

	"verif/harness/h"
)

// option values shared between the tokens of one clock history (nil: every token gets fresh ones)
var (
	sharedInvExp map[int64]invocation.Option
	sharedDlgExp map[int64]delegation.Option
	sharedDlgNbf map[int64]delegation.Option
)

type ClockCase struct {
	Chains []Case `json:"chains"`
	WaitMs int    `json:"wait_ms"`
	// ShareOpts: the caller keeps ONE option value per relative bound ("expires in 1.5 s") and uses it for every
	// token of the history that has this bound - also for tokens it builds later, after the wait. A token's
	// bounds are fixed when it is built; later uses of the option value do not move them.
	ShareOpts bool `json:"share_opts,omitempty"`
}

const clockMargin = 60 * time.Millisecond

type bound struct {
	nbf, exp *time.Time
	what     string
}

func boundsOf(b *Built) []bound {
	cp := func(t *time.Time) *time.Time {
		if t == nil {
			return nil
		}
		x := *t
		return &x
	}
	out := []bound{{nil, cp(b.Inv.Expiration()), "invocation"}}
	for i, d := range b.Dlgs {
		out = append(out, bound{cp(d.NotBefore()), cp(d.Expiration()), fmt.Sprintf("delegation %d", i)})
	}
	return out
}

func sameBounds(a, b []bound) (bool, string) {
	eq := func(x, y *time.Time) bool {
		if x == nil || y == nil {
			return x == y
		}
		return x.Equal(*y)
	}
	for i := range a {
		if i >= len(b) || !eq(a[i].nbf, b[i].nbf) || !eq(a[i].exp, b[i].exp) {
			return false, a[i].what
		}
	}
	return true, ""
}

// verdict: +1 every token valid with margin during [t0,t1]; -1 some token invalid with margin; 0 too close.
func verdict(bs []bound, t0, t1 time.Time) (int, string) {
	v := 1
	for _, b := range bs {
		if b.exp != nil {
			switch {
			case b.exp.Before(t0.Add(-clockMargin)):
				return -1, b.what + " expired"
			case !b.exp.After(t1.Add(clockMargin)):
				v = 0
			}
		}
		if b.nbf != nil {
			switch {
			case b.nbf.After(t1.Add(clockMargin)):
				return -1, b.what + " not yet active"
			case !b.nbf.Before(t0.Add(-clockMargin)):
				v = 0
			}
		}
	}
	return v, ""
}

func RunClock(c *h.Ctx, cc ClockCase, owner string) {
	type live struct {
		b      *Built
		cs     Case
		ok     bool    // all non-time rules hold
		bounds []bound // as read back right after construction
	}
	var ls []live
	// every second chain of the history uses the shared option values, the others fresh ones
	regI, regE, regN := map[int64]invocation.Option{}, map[int64]delegation.Option{}, map[int64]delegation.Option{}
	share := func(i int) {
		if cc.ShareOpts && i%2 == 1 {
			sharedInvExp, sharedDlgExp, sharedDlgNbf = regI, regE, regN
		} else {
			sharedInvExp, sharedDlgExp, sharedDlgNbf = nil, nil, nil
		}
	}
	defer share(0)
	if cc.ShareOpts {
		c.P.Class("clock:shared-option-values")
	}
	start := time.Now()
	for i, cs := range cc.Chains {
		share(i)
		b, err := Build(cs)
		if err != nil {
			c.P.Class("clock:build-error")
			c.Logf("build: %v", err)
			continue
		}
		r := Eval(cs)
		ls = append(ls, live{b, cs, r.All(1, 8) && !r.PolicyUnspec, boundsOf(b)})
	}
	judged := 0
	phase := func(name string) {
		for i, l := range ls {
			if !l.ok {
				continue
			}
			for rep := 0; rep < 2; rep++ {
				t0 := time.Now()
				var d Decision
				if rep == 0 {
					d = Decide(l.b, nil)
				} else {
					d = DecideIdentityHook(l.b)
				}
				t1 := time.Now()
				if same, what := sameBounds(l.bounds, boundsOf(l.b)); !same {
					c.Fail(owner+"/clock/bound-moved/"+name, "chain %d (%v): the time bounds of the %s are no longer what they were when the token was built (then: %s | now: %s): nothing but construction sets them", i, l.cs.Dev, what, showBoundsOf(l.bounds, t0), showBounds(l.b, t0))
					return
				}
				v, why := verdict(l.bounds, t0, t1)
				switch {
				case v == 0:
					c.P.Class("clock:" + name + ":too-close-to-judge")
					continue
				case v > 0 && !d.Allowed:
					judged++
					if owner == "C05" {
						c.Fail("C05/clock/valid-chain-denied/"+name, "chain %d (%v): every token is valid at the instant of the check (margin %v), all other rules hold, but the check (%s) returned: %s %s\nbounds: %s", i, l.cs.Dev, clockMargin, name, d.Err, d.Panic, showBounds(l.b, t0))
					}
					c.P.Class("clock:mismatch-owned-by-C05")
				case v < 0 && d.Allowed:
					judged++
					if owner == "C04" {
						c.Fail("C04/clock/allowed-with-invalid-token/"+name, "chain %d (%v): %s at the instant of the check (margin %v), but the check (%s) allowed the invocation\nbounds: %s", i, l.cs.Dev, why, clockMargin, name, showBounds(l.b, t0))
					}
					c.P.Class("clock:mismatch-owned-by-C04")
				default:
					judged++
				}
				if v > 0 {
					c.P.Class("clock:" + name + ":valid")
				} else {
					c.P.Class("clock:" + name + ":invalid")
				}
			}
		}
	}
	time.Sleep(8 * time.Millisecond)
	phase("first")
	if rest := time.Duration(cc.WaitMs)*time.Millisecond - time.Since(start); rest > 0 {
		time.Sleep(rest)
	}
	if cc.ShareOpts {
		// the caller goes on using its option values: every chain is built once more (and thrown away)
		for i, cs := range cc.Chains {
			share(i)
			_, _ = Build(cs)
		}
		share(0)
	}
	phase("after-wait")
	if judged > 0 {
		var devs []string
		for _, l := range ls {
			devs = append(devs, l.cs.Dev...)
		}
		c.P.NonTrivial([]any{"clock", devs, cc.WaitMs}, map[string]any{"clock_history": map[string]any{"chains": len(ls), "near_now_bounds": devs, "wait_ms": cc.WaitMs, "judged_checks": judged}})
	}
}

func showBounds(b *Built, at time.Time) string { return showBoundsOf(boundsOf(b), at) }

func showBoundsOf(bs []bound, at time.Time) string {
	s := ""
	for _, x := range bs {
		s += x.what + ":"
		if x.nbf != nil {
			s += fmt.Sprintf(" nbf%+v", x.nbf.Sub(at).Round(time.Millisecond))
		}
		if x.exp != nil {
			s += fmt.Sprintf(" exp%+v", x.exp.Sub(at).Round(time.Millisecond))
		}
		s += "; "
	}
	return s
}

func ms(v int64) *int64 { return &v }

// DrawClock draws a batch of conforming chains with near-now bounds.
func DrawClock(t *rapid.T) ClockCase {
	cc := ClockCase{WaitMs: rapid.SampledFrom([]int{2300, 3300}).Draw(t, "wait"), ShareOpts: true}
	n := rapid.IntRange(12, 30).Draw(t, "nchains")
	for i := 0; i < n; i++ {
		cs := DrawConforming(t, GenOpt{MaxLen: 4, Commands: true, Irrelevant: true})
		cs.Inv.Decoded = false
		for j := range cs.Links {
			cs.Links[j].Decoded = false
		}
		nb := rapid.IntRange(1, 2).Draw(t, "nbounds")
		for k := 0; k < nb; k++ {
			pos := rapid.IntRange(0, len(cs.Links)).Draw(t, "pos") // 0: the invocation
			kind := rapid.SampledFrom([]string{"exp-soon", "exp-soon", "nbf-soon", "nbf-just-passed", "nbf-just-passed", "exp-just-passed", "exp-comfortable", "nbf-now"}).Draw(t, "kind")
			if pos == 0 && (kind == "nbf-soon" || kind == "nbf-just-passed" || kind == "nbf-now") {
				kind = "exp-soon" // invocations have no not-before
			}
			var nbf, exp *int64
			switch kind {
			case "exp-soon":
				exp = ms(int64(rapid.SampledFrom([]int{900, 1000, 1100, 1300, 1500, 1700, 1900, 2000}).Draw(t, "expms")))
			case "nbf-soon":
				nbf = ms(int64(rapid.SampledFrom([]int{900, 1000, 1100, 1300, 1500, 1700, 1900, 2000}).Draw(t, "nbfms")))
			case "nbf-just-passed":
				nbf = ms(-int64(rapid.SampledFrom([]int{1, 20, 100, 200, 300, 400, 500, 600, 700, 800, 900, 999, 1000}).Draw(t, "nbfpast")))
			case "nbf-now":
				nbf = ms(0)
			case "exp-just-passed":
				exp = ms(int64(rapid.SampledFrom([]int{0, 1, 2}).Draw(t, "expnow")))
			default:
				exp = ms(10000)
			}
			if pos == 0 {
				cs.Inv.ExpMs = exp
			} else {
				if nbf != nil {
					cs.Links[pos-1].NbfMs = nbf
				}
				if exp != nil {
					cs.Links[pos-1].ExpMs = exp
				}
			}
			cs.Dev = append(cs.Dev, fmt.Sprintf("%s@%d/%d", kind, pos, len(cs.Links)))
		}
		cc.Chains = append(cc.Chains, cs)
	}
	// a ladder, the same in every history: two-link chains with ONE bound each, at every 100 ms step around the two
	// instants of judgement. Whatever the position of those instants within their wall-clock second, some rung
	// sits between "now" and the nearest second boundary, on either side - an implementation whose notion of
	// "now" is coarser than the clock's is wrong exactly there.
	rung := func(nbf, exp *int64, expInv *int64, what string) {
		cs := Case{Links: []Link{{Iss: 1, Aud: 2, Sub: 0, Cmd: "/"}, {Iss: 0, Aud: 1, Sub: 0, Cmd: "/"}}, Inv: Inv{Iss: 2, Sub: 0, Aud: -1, Cmd: "/x", NonceLen: 12, ExpMs: expInv}}
		cs.Links[0].NbfMs, cs.Links[0].ExpMs = nbf, exp
		cs.Dev = []string{"ladder:" + what}
		cc.Chains = append(cc.Chains, cs)
	}
	for d := int64(100); d <= 900; d += 100 {
		rung(ms(-d), nil, nil, fmt.Sprintf("nbf-%dms", d))
		rung(ms(int64(cc.WaitMs)-d), nil, nil, fmt.Sprintf("nbf+wait-%dms", d))
		rung(nil, ms(int64(cc.WaitMs)+d), nil, fmt.Sprintf("exp+wait+%dms", d))
		rung(nil, nil, ms(int64(cc.WaitMs)+d), fmt.Sprintf("inv-exp+wait+%dms", d))
		rung(nil, ms(d+100), nil, fmt.Sprintf("exp+%dms", d+100))
	}
	return cc
}

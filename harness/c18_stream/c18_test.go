// C18 — streaming APIs agree with buffered APIs and surface every I/O fault.
package c18

import (
	"bufio"
	"encoding/base64"
	"time"
	"syscall"
	"net"
	"context"
	"bytes"
	"errors"
	"fmt"
	"io"
	"os"
	"sort"
	"strings"
	"testing"

	"github.com/ipfs/go-cid"
	"pgregory.net/rapid"

	"github.com/ucan-wg/go-ucan/pkg/container"
	"github.com/ucan-wg/go-ucan/token"
	"github.com/ucan-wg/go-ucan/token/delegation"
	"github.com/ucan-wg/go-ucan/token/invocation"

	"verif/harness/api"
	"verif/harness/ctr"
	"verif/harness/h"
	_ "verif/harness/warm"
	"verif/harness/keys"
	"verif/harness/tok"
	"verif/harness/val"
)

var P = h.New("C18", "fault_enumeration",
	"artefacts = sealed tokens (both types) and the four container formats holding 1..4 tokens. Read side: chunkings (1-byte reads, drawn chunk patterns, data delivered together with EOF) must not change tokens / CIDs / error-ness; at EVERY byte offset k < len an injected read error and an early EOF must make the call fail, except the computed legitimate cuts of a CAR (EOF exactly on a section boundary at or after the header, or a base64 prefix that decodes cleanly to such a CAR prefix), which must yield exactly the blocks before the cut. Write side: the Write calls of a clean run are counted (including the final base64 flush) and EVERY call index is failed (full failure, and short write with error): the call must return an error and no CID; without fault the sink must hold the buffered API's bytes (entry multisets for multi-token containers) and the CID of what was written. Non-trivial = a fault strictly inside the artefact or a chunking other than all-at-once. Distinct by (artefact, API, fault kind, position).")

func TestMain(m *testing.M)   { os.Exit(P.Main(m)) }
func TestReplay(t *testing.T) { P.Replay(t) }

var errInjected = errors.New("verif: injected I/O fault")

type Case struct {
	Toks        []tok.Tok `json:"toks"`
	Art         string    `json:"art"` // token | tokenjson | car | carb64 | cbor | cborb64
	Typed       bool      `json:"typed,omitempty"`
	API         int       `json:"api,omitempty"` // > 0: the (API-1)-th stream entry point of harness/api for this artefact (token / tokenjson), instead of the default one
	Op          string    `json:"op"`            // chunk | readfault | writefault
	Chunk       []int     `json:"chunk,omitempty"`
	DataWithEOF bool      `json:"data_with_eof,omitempty"`
	ZeroReads   bool      `json:"zero_reads,omitempty"`
	FaultKind   string    `json:"fault_kind,omitempty"` // error | eof | fail | short
	K           int       `json:"k,omitempty"`
	// ErrIdent: WHICH error value the faulty source returns (index into errIdents): callers of this library read
	// from sockets, pipes, files and contexts, whose errors have identities of their own (deadline exceeded,
	// connection reset, closed pipe ...). Every one of them is a failed read.
	ErrIdent int `json:"err_ident,omitempty"`
	// Src: the dynamic type of the source (index into srcKinds): a plain io.Reader, or one that ALSO has the methods
	// of a connection (SetReadDeadline ...), io.WriterTo, io.ByteReader - code that special-cases capabilities of
	// its source must still report what the source reports.
	Src int `json:"src,omitempty"`
	// Dup > 0 (CAR artefacts, read operations): section (Dup-1) mod n of the CAR is repeated at the end of the
	// stream - legal CARv1 that the library's own writer never produces (a concatenation of exports, a relay that
	// re-sends a block). The buffered reader's result on these bytes is the reference, as for every other stream.
	Dup int `json:"dup,omitempty"`
	// Pos > 0 (op chunk): the source is a standard in-memory, section or file reader (posKinds[Pos-1]) over a
	// LARGER byte string, positioned at the start of the artefact: the caller has consumed a record header, or the
	// artefact sits at an offset of a file. The stream is what remains to be read; Pre selects the bytes before it.
	Pos int `json:"pos,omitempty"`
	Pre int `json:"pre,omitempty"`
}

var posKinds = []string{"bytes.Reader", "strings.Reader", "bytes.Buffer", "io.SectionReader", "read-seeker", "os.File", "bufio.Reader", "section-of-section"}

// readSeeker: an io.ReadSeeker with no other method (no Len, no ReadAt, no WriteTo)
type readSeeker struct{ r *bytes.Reader }

func (r readSeeker) Read(p []byte) (int, error)                { return r.r.Read(p) }
func (r readSeeker) Seek(o int64, whence int) (int64, error) { return r.r.Seek(o, whence) }

func preamble(pre int, art []byte) []byte {
	switch pre % 6 {
	case 0:
		return []byte{0x89, 'U', 'C', 'N'}
	case 1:
		return append([]byte{}, art...) // a whole copy of the artefact: what a rewound reader would find is valid
	case 2:
		return art[:len(art)/2]
	case 3:
		return bytes.Repeat([]byte{0}, 1+pre%700)
	case 4:
		return []byte("record 17\n")
	default:
		return bytes.Repeat([]byte{0xff, 0x0a, 0xa2}, 1+pre%300)
	}
}

// positioned builds the source; cleanup removes what it created.
func positioned(kind int, pre, art []byte) (io.Reader, func()) {
	whole := append(append([]byte{}, pre...), art...)
	n := int64(len(pre))
	switch posKinds[kind%len(posKinds)] {
	case "bytes.Reader":
		r := bytes.NewReader(whole)
		r.Seek(n, io.SeekStart)
		return r, func() {}
	case "strings.Reader":
		r := strings.NewReader(string(whole))
		r.Seek(n, io.SeekStart)
		return r, func() {}
	case "bytes.Buffer":
		b := bytes.NewBuffer(whole)
		b.Next(len(pre))
		return b, func() {}
	case "io.SectionReader":
		r := io.NewSectionReader(bytes.NewReader(whole), 0, int64(len(whole)))
		r.Seek(n, io.SeekStart)
		return r, func() {}
	case "read-seeker":
		r := readSeeker{bytes.NewReader(whole)}
		r.Seek(n, io.SeekStart)
		return r, func() {}
	case "os.File":
		f, err := os.CreateTemp("", "verif-c18-*")
		if err != nil {
			return bytes.NewReader(art), func() {}
		}
		f.Write(whole)
		f.Seek(n, io.SeekStart)
		return f, func() { f.Close(); os.Remove(f.Name()) }
	case "bufio.Reader":
		r := bufio.NewReaderSize(bytes.NewReader(whole), 16)
		r.Discard(len(pre))
		return r, func() {}
	default: // a section that starts at the artefact, of a reader that does not
		return io.NewSectionReader(bytes.NewReader(whole), n, int64(len(art))), func() {}
	}
}

type timeoutErr struct{}

func (timeoutErr) Error() string   { return "verif: i/o timeout" }
func (timeoutErr) Timeout() bool   { return true }
func (timeoutErr) Temporary() bool { return true }

var errIdents = []struct {
	name string
	err  error
}{
	{"injected", errInjected},
	{"os.ErrDeadlineExceeded", os.ErrDeadlineExceeded},
	{"net.OpError(deadline)", &net.OpError{Op: "read", Net: "tcp", Err: os.ErrDeadlineExceeded}},
	{"context.DeadlineExceeded", context.DeadlineExceeded},
	{"context.Canceled", context.Canceled},
	{"io.ErrClosedPipe", io.ErrClosedPipe},
	{"ECONNRESET", &net.OpError{Op: "read", Net: "tcp", Err: os.NewSyscallError("read", syscall.ECONNRESET)}},
	{"io.ErrNoProgress", io.ErrNoProgress},
	{"io.ErrShortBuffer", io.ErrShortBuffer},
	{"net.ErrClosed", net.ErrClosed},
	{"os.ErrClosed", os.ErrClosed},
	{"timeout-interface", timeoutErr{}},
	{"EAGAIN", syscall.EAGAIN},
	{"EINTR", syscall.EINTR},
}

var srcKinds = []string{"reader", "conn-like", "writer-to", "byte-reader"}

// connLike: a source with the method set of a network connection or a file
type connLike struct{ io.Reader }

func (connLike) SetReadDeadline(time.Time) error  { return nil }
func (connLike) SetDeadline(time.Time) error      { return nil }
func (connLike) SetWriteDeadline(time.Time) error { return nil }
func (connLike) Close() error                     { return nil }
func (connLike) Write(p []byte) (int, error)      { return len(p), nil }

// writerTo: a source that offers io.WriterTo (io.Copy prefers it): it forwards what Read gives, errors included
type writerTo struct{ io.Reader }

func (w writerTo) WriteTo(dst io.Writer) (int64, error) {
	var n int64
	buf := make([]byte, 512)
	for {
		k, err := w.Reader.Read(buf)
		if k > 0 {
			m, werr := dst.Write(buf[:k])
			n += int64(m)
			if werr != nil {
				return n, werr
			}
		}
		if err == io.EOF {
			return n, nil
		}
		if err != nil {
			return n, err
		}
	}
}

// byteReader: a source that offers io.ByteReader (decoders use it to avoid their own buffering)
type byteReader struct{ io.Reader }

func (b byteReader) ReadByte() (byte, error) {
	var one [1]byte
	for {
		n, err := b.Reader.Read(one[:])
		if n == 1 {
			return one[0], nil
		}
		if err != nil {
			return 0, err
		}
	}
}

func wrapSrc(kind int, r io.Reader) io.Reader {
	switch kind % len(srcKinds) {
	case 1:
		return connLike{r}
	case 2:
		return writerTo{r}
	case 3:
		return byteReader{r}
	}
	return r
}

var readFaultKinds = []string{"error", "eof", "error-with-data", "error-with-data-then-eof", "error-then-eof", "error-wrapping-eof", "error-unexpected-eof", "error-wrapping-eof-with-data", "error-once-then-continue"}

// a transport failure whose error value wraps io.EOF ("connection lost: EOF"): errors.Is(err, io.EOF) holds, yet
// it is not the end of the stream (io.Reader signals that with io.EOF itself)
var errWrappedEOF = fmt.Errorf("verif: transport: connection lost: %w", io.EOF)

// faultReader delivers data in chunks and injects a fault after `limit` bytes.
type faultReader struct {
	data        []byte
	pos         int
	limit       int   // -1: no fault
	ferr        error // error returned at the fault point (io.EOF for truncation)
	chunk       []int
	ci          int
	dataWithEOF bool
	zeroReads   bool
	zeroNext    bool
	withData    bool // the fault is reported by the Read call that delivers the last bytes before the fault point
	thenEOF     bool // after the fault has been reported once, further calls return a clean io.EOF (a length-bounded frame)
	reported    bool
	transient   bool // the fault is reported ONCE at the fault point, then the reader delivers the rest of the data
}

func (r *faultReader) Read(p []byte) (int, error) {
	if len(p) == 0 {
		return 0, nil
	}
	if r.zeroReads {
		r.zeroNext = !r.zeroNext
		if r.zeroNext {
			return 0, nil
		}
	}
	end := len(r.data)
	if r.transient && r.limit >= 0 && r.pos >= r.limit {
		if !r.reported {
			r.reported = true
			return 0, r.ferr
		}
		r.limit = -1 // recovered: the rest of the stream follows
	}
	if r.limit >= 0 && r.limit < end {
		end = r.limit
	}
	if r.pos >= end {
		if r.limit >= 0 && r.pos >= r.limit {
			if r.reported && r.thenEOF {
				return 0, io.EOF
			}
			r.reported = true
			return 0, r.ferr
		}
		return 0, io.EOF
	}
	n := len(p)
	if len(r.chunk) > 0 {
		c := r.chunk[r.ci%len(r.chunk)]
		r.ci++
		if c > 0 && c < n {
			n = c
		}
	}
	if n > end-r.pos {
		n = end - r.pos
	}
	copy(p, r.data[r.pos:r.pos+n])
	r.pos += n
	if r.dataWithEOF && r.pos == len(r.data) && r.limit < 0 {
		return n, io.EOF
	}
	if r.withData && r.limit >= 0 && r.pos == end {
		r.reported = true
		return n, r.ferr
	}
	return n, nil
}

// faultWriter fails the k-th Write call.
type faultWriter struct {
	buf    bytes.Buffer
	calls  int
	failAt int // -1: never
	short  bool
	once   bool // the fault hits the one call only; later calls succeed (a sink that recovers: the output has a hole)
	full   bool // the failing call reports the FULL count together with the error (a relay that took the chunk and could not hand it on): the chunk is lost
	failed bool
}

func (w *faultWriter) Write(p []byte) (int, error) {
	i := w.calls
	w.calls++
	if w.failAt >= 0 && i >= w.failAt && (!w.once || i == w.failAt) {
		w.failed = true
		if w.full {
			return len(p), errInjected
		}
		if w.short && i == w.failAt && len(p) > 1 {
			n := len(p) / 2
			w.buf.Write(p[:n])
			return n, errInjected
		}
		return 0, errInjected
	}
	return w.buf.Write(p)
}

// outcome of a read: sorted CID strings + a content fingerprint, or error.
type outcome struct {
	err  bool
	keys []string
}

func (o outcome) String() string {
	if o.err {
		return "error"
	}
	return fmt.Sprint(o.keys)
}

func same(a, b outcome) bool { return a.err == b.err && fmt.Sprint(a.keys) == fmt.Sprint(b.keys) }

func tokOutcome(t token.Token, c cid.Cid, err error) outcome {
	if err != nil || t == nil {
		return outcome{err: true}
	}
	v, verr := tok.ViewOf(t)
	if verr != nil {
		return outcome{err: true}
	}
	return outcome{keys: []string{c.String() + "|" + v.Type + "|" + v.Cmd + "|" + fmt.Sprintf("%x", v.Nonce)}}
}

func ctrOutcome(r container.Reader, err error) outcome {
	if err != nil {
		return outcome{err: true}
	}
	o := outcome{keys: []string{}}
	for k, t := range r {
		v, _ := tok.ViewOf(t)
		o.keys = append(o.keys, k.String()+"|"+v.Type+"|"+v.Cmd)
	}
	sort.Strings(o.keys)
	return o
}

func readStream(cs Case, kind string, r io.Reader) outcome {
	switch cs.Art {
	case "token":
		if cs.API > 0 {
			ds := streamDecs(cs, kind)
			t, c, err := ds[(cs.API-1)%len(ds)].F(r)
			if err != nil {
				return outcome{err: true}
			}
			return tokOutcome(t, c, err)
		}
		if cs.Typed {
			if kind == "dlg" {
				t, c, err := delegation.FromSealedReader(r)
				if err != nil {
					return outcome{err: true}
				}
				return tokOutcome(t, c, err)
			}
			t, c, err := invocation.FromSealedReader(r)
			if err != nil {
				return outcome{err: true}
			}
			return tokOutcome(t, c, err)
		}
		return tokOutcome(token.FromSealedReader(r))
	case "tokenjson":
		if cs.API > 0 {
			ds := streamDecs(cs, kind)
			t, c, err := ds[(cs.API-1)%len(ds)].F(r)
			if err != nil {
				return outcome{err: true}
			}
			return tokOutcome(t, c, err)
		}
		t, err := token.FromDagJsonReader(r)
		return tokOutcome(t, cid.Undef, err)
	case "car":
		return ctrOutcome(container.FromCarReader(r))
	case "carb64":
		return ctrOutcome(container.FromCarBase64Reader(r))
	case "cbor":
		return ctrOutcome(container.FromCborReader(r))
	default:
		return ctrOutcome(container.FromCborBase64Reader(r))
	}
}

// streamDec / streamEnc: the stream entry points of harness/api that apply to the artefact.
func streamDecs(cs Case, kind string) []api.Decoder {
	format := "cbor"
	if cs.Art == "tokenjson" {
		format = "json"
	}
	var out []api.Decoder
	for _, d := range api.Decoders(format) {
		if d.Stream && (d.Typed == "" || d.Typed == kind) {
			out = append(out, d)
		}
	}
	return out
}

func bufferedTwin(d api.Decoder, format string) api.Decoder {
	want := strings.Replace(d.Name, "Reader", "", 1)
	for _, x := range api.Decoders(format) {
		if x.Name == want {
			return x
		}
	}
	panic("no buffered twin for " + d.Name)
}

func streamEncs(cs Case) []api.Encoder {
	format := "cbor"
	if cs.Art == "tokenjson" {
		format = "json"
	}
	var out []api.Encoder
	for _, e := range api.Encoders {
		if e.Stream && e.Format == format {
			out = append(out, e)
		}
	}
	return out
}

func isTokenArt(cs Case) bool { return cs.Art == "token" || cs.Art == "tokenjson" }

func readBuffered(cs Case, kind string, b []byte) outcome {
	if cs.API > 0 && isTokenArt(cs) {
		ds := streamDecs(cs, kind)
		format := "cbor"
		if cs.Art == "tokenjson" {
			format = "json"
		}
		t, c, err := bufferedTwin(ds[(cs.API-1)%len(ds)], format).Bytes(b)
		if err != nil {
			return outcome{err: true}
		}
		return tokOutcome(t, c, err)
	}
	switch cs.Art {
	case "token":
		if cs.Typed {
			if kind == "dlg" {
				t, c, err := delegation.FromSealed(b)
				if err != nil {
					return outcome{err: true}
				}
				return tokOutcome(t, c, err)
			}
			t, c, err := invocation.FromSealed(b)
			if err != nil {
				return outcome{err: true}
			}
			return tokOutcome(t, c, err)
		}
		return tokOutcome(token.FromSealed(b))
	case "tokenjson":
		t, err := token.FromDagJson(b)
		return tokOutcome(t, cid.Undef, err)
	case "car":
		return ctrOutcome(container.FromCar(b))
	case "carb64":
		return ctrOutcome(container.FromCarBase64(b))
	case "cbor":
		return ctrOutcome(container.FromCbor(b))
	default:
		return ctrOutcome(container.FromCborBase64(b))
	}
}

type built struct {
	kind   string // of the first token
	tk     []token.Token
	priv   []interface{}
	sealed [][]byte
	ids    []cid.Cid
	bytes  []byte // the artefact
	writer container.Writer
	det    bool // deterministic bytes (single token with deterministic signature, or single-entry container)
}

func buildArtefact(cs Case) (*built, bool) {
	b := &built{writer: container.NewWriter()}
	for _, d := range cs.Toks {
		tk, priv, err := tok.Build(d)
		if err != nil {
			return nil, false
		}
		data, id, err := tk.ToSealed(priv)
		if err != nil {
			return nil, false
		}
		if _, _, err := token.FromSealed(data); err != nil {
			return nil, false
		}
		b.tk = append(b.tk, tk)
		b.sealed = append(b.sealed, data)
		b.ids = append(b.ids, id)
		b.writer.AddSealed(id, data)
	}
	if len(b.tk) == 0 {
		return nil, false
	}
	b.kind = cs.Toks[0].Kind()
	alg := cs.Toks[0].Issuer().Alg
	var err error
	switch cs.Art {
	case "token":
		b.bytes = b.sealed[0]
		b.det = alg == keys.Ed25519 || alg == keys.RSA
	case "tokenjson":
		b.bytes, err = b.tk[0].ToDagJson(cs.Toks[0].Issuer().Key().Priv)
	case "car":
		b.bytes, err = b.writer.ToCar()
	case "carb64":
		b.bytes, err = b.writer.ToCarBase64()
	case "cbor":
		b.bytes, err = b.writer.ToCbor()
	default:
		b.bytes, err = b.writer.ToCborBase64()
	}
	if cs.Art != "token" && cs.Art != "tokenjson" {
		b.det = len(b.writer) == 1
	}
	if err == nil && cs.Dup > 0 && (cs.Art == "car" || cs.Art == "carb64") && cs.Op != "writefault" {
		raw := b.bytes
		if cs.Art == "carb64" {
			if raw, err = ctr.Unbase64(b.bytes); err != nil {
				return nil, false
			}
		}
		secs, _, serr := ctr.CarSections(raw)
		if serr != nil || len(secs) == 0 {
			return nil, false
		}
		sc := secs[(cs.Dup-1)%len(secs)]
		raw = append(append([]byte{}, raw...), raw[sc.Start:sc.End]...)
		if cs.Art == "carb64" {
			raw = []byte(base64.StdEncoding.EncodeToString(raw))
		}
		b.bytes, b.det = raw, false
	}
	return b, err == nil
}

// legitCut reports whether an early EOF after k bytes is the legitimately
// undetectable case, and how many blocks precede the cut.
func legitCut(art string, data []byte, k int) (bool, int) {
	raw := data[:k]
	full := data
	switch art {
	case "car":
	case "carb64":
		if k%4 != 0 {
			return false, 0
		}
		var err error
		if raw, err = ctr.Unbase64(data[:k]); err != nil {
			return false, 0
		}
		if full, err = ctr.Unbase64(data); err != nil {
			return false, 0
		}
	default:
		return false, 0
	}
	_, bounds, err := ctr.CarSections(full)
	if err != nil {
		return false, 0
	}
	for i, b := range bounds {
		if b == len(raw) {
			return true, i // i blocks before the cut (bounds[0] = end of header)
		}
	}
	return false, 0
}

func run(c *h.Ctx, cs Case) {
	b, ok := buildArtefact(cs)
	if !ok {
		c.P.Class("artefact-not-buildable")
		return
	}
	art := b.bytes
	base := readBuffered(cs, b.kind, art)
	if base.err {
		// round-trip failures of the buffered APIs are C07's subject (e.g. the
		// DAG-JSON integral-float finding); nothing to compare streams with
		c.P.Class("excluded:buffered-roundtrip-fails/" + cs.Art)
		return
	}
	api := cs.Art
	if cs.Typed {
		api += "/typed"
	}
	if cs.API > 0 && isTokenArt(cs) {
		ds := streamDecs(cs, b.kind)
		api = cs.Art + "/" + ds[(cs.API-1)%len(ds)].Name
		if cs.Op == "writefault" {
			es := streamEncs(cs)
			api = cs.Art + "/" + es[(cs.API-1)%len(es)].Name
		}
	}
	switch cs.Op {
	case "chunk":
		if cs.Pos > 0 {
			pre := preamble(cs.Pre, art)
			src, done := positioned(cs.Pos-1, pre, art)
			var got outcome
			pn, pv, _ := h.Try(func() { got = readStream(cs, b.kind, src) })
			done()
			kind := posKinds[(cs.Pos-1)%len(posKinds)]
			if pn {
				c.Fail("C18/read/panic/"+api, "stream reader panicked on a positioned %s: %v", kind, pv)
				return
			}
			if !same(got, base) {
				c.Fail("C18/read/positioned-source-changes-result/"+kind+"/"+api, "the artefact read from a %s positioned at its first byte (%d bytes precede it in the underlying data) gives %s, buffered decoding of the same bytes gives %s", kind, len(pre), got, base)
			}
			c.P.Class("positioned:" + kind)
			c.P.NonTrivial([]any{"positioned", api, kind, cs.Pre % 6, len(cs.Toks)}, map[string]any{"op": "positioned-source", "artefact": api, "len": len(art), "source": kind, "preamble_len": len(pre)})
			return
		}
		r := &faultReader{data: art, limit: -1, chunk: cs.Chunk, dataWithEOF: cs.DataWithEOF, zeroReads: cs.ZeroReads}
		var got outcome
		if pn, pv, _ := h.Try(func() { got = readStream(cs, b.kind, wrapSrc(cs.Src, r)) }); pn {
			c.Fail("C18/read/panic/"+api, "stream reader panicked: %v", pv)
			return
		}
		if !same(got, base) {
			c.Fail("C18/read/chunking-changes-result/"+api, "stream read with chunks %v (dataWithEOF=%v zeroReads=%v) gives %s, buffered decoding gives %s", cs.Chunk, cs.DataWithEOF, cs.ZeroReads, got, base)
		}
		c.P.Class("chunk:" + api)
		c.P.NonTrivial([]any{"chunk", api, cs.Chunk, cs.DataWithEOF, cs.ZeroReads, len(cs.Toks)}, map[string]any{"op": "chunk", "artefact": api, "len": len(art), "chunks": cs.Chunk, "data_with_eof": cs.DataWithEOF, "zero_reads": cs.ZeroReads})
	case "readfault":
		if len(art) == 0 {
			return
		}
		k := cs.K % len(art)
		ferr := errIdents[cs.ErrIdent%len(errIdents)].err
		if cs.FaultKind == "eof" {
			ferr = io.EOF
		} else {
			// "fails at any point" includes right after the last byte (an error instead of the final EOF)
			k = cs.K % (len(art) + 1)
		}
		r := &faultReader{data: art, limit: k, ferr: ferr, chunk: cs.Chunk}
		switch cs.FaultKind {
		case "error-once-then-continue":
			// a deadline that fires once and is re-armed: the reader fails at the fault point, then carries on
			r.transient = true
		case "error-wrapping-eof":
			r.ferr = errWrappedEOF
		case "error-wrapping-eof-with-data":
			r.ferr, r.withData = errWrappedEOF, true
		case "error-unexpected-eof":
			r.ferr = io.ErrUnexpectedEOF
		case "error-with-data":
			// the error comes back from the same Read call as the last bytes before the fault, then the error again
			r.withData = true
		case "error-with-data-then-eof":
			// ... then a clean EOF, as behind io.LimitReader / a length-bounded frame
			r.withData, r.thenEOF = true, true
		case "error-then-eof":
			r.thenEOF = true
		}
		var got outcome
		if pn, pv, _ := h.Try(func() { got = readStream(cs, b.kind, wrapSrc(cs.Src, r)) }); pn {
			c.Fail("C18/read/panic/"+api, "stream reader panicked with a fault after %d bytes: %v", k, pv)
			return
		}
		if cs.ErrIdent%len(errIdents) != 0 || cs.Src%len(srcKinds) != 0 {
			c.P.Class("readfault-source:" + srcKinds[cs.Src%len(srcKinds)] + ":" + errIdents[cs.ErrIdent%len(errIdents)].name)
		}
		legit, nblocks := false, 0
		if cs.FaultKind == "eof" {
			legit, nblocks = legitCut(cs.Art, art, k)
		}
		if legit {
			// must yield exactly the blocks before the cut (or an error)
			if !got.err {
				raw := art[:k]
				if cs.Art == "carb64" {
					raw, _ = ctr.Unbase64(art[:k])
				}
				want := readBuffered(Case{Art: "car"}, b.kind, raw)
				if !same(got, want) || len(got.keys) > nblocks {
					c.Fail("C18/read/legit-cut-wrong-blocks/"+api, "CAR cut on a section boundary after %d bytes (%d blocks before the cut) yields %s, expected %s", k, nblocks, got, want)
				}
			}
			c.P.Class("readfault-legit-cut:" + api)
		} else if !got.err {
			c.Fail("C18/read/fault-swallowed/"+cs.FaultKind+"/"+api, "reader fault (%s, error value %s, source type %s) after %d of %d bytes, but the call returned %s without error", cs.FaultKind, errIdents[cs.ErrIdent%len(errIdents)].name, srcKinds[cs.Src%len(srcKinds)], k, len(art), got)
		}
		c.P.Class("readfault:" + cs.FaultKind + ":" + api)
		if k > 0 {
			c.P.NonTrivial([]any{"readfault", api, cs.FaultKind, k, len(cs.Toks), len(art)}, map[string]any{"op": "readfault", "artefact": api, "fault": cs.FaultKind, "offset": k, "len": len(art), "legit_cut": legit})
		}
	case "writefault":
		runWrite(c, cs, b, api)
	}
}

func writeStream(cs Case, b *built, w io.Writer) (cid.Cid, error) {
	if cs.API > 0 && isTokenArt(cs) {
		es := streamEncs(cs)
		return es[(cs.API-1)%len(es)].F(b.tk[0], cs.Toks[0].Issuer().Key().Priv, w)
	}
	switch cs.Art {
	case "token":
		return b.tk[0].ToSealedWriter(w, cs.Toks[0].Issuer().Key().Priv)
	case "tokenjson":
		return cid.Undef, b.tk[0].ToDagJsonWriter(w, cs.Toks[0].Issuer().Key().Priv)
	case "car":
		return cid.Undef, b.writer.ToCarWriter(w)
	case "carb64":
		return cid.Undef, b.writer.ToCarBase64Writer(w)
	case "cbor":
		return cid.Undef, b.writer.ToCborWriter(w)
	default:
		return cid.Undef, b.writer.ToCborBase64Writer(w)
	}
}

func entriesSorted(format string, data []byte) ([]string, error) {
	es, _, err := ctr.Entries(format, data)
	if err != nil {
		return nil, err
	}
	var out []string
	for _, e := range es {
		out = append(out, string(e))
	}
	sort.Strings(out)
	return out, nil
}

func runWrite(c *h.Ctx, cs Case, b *built, api string) {
	// clean run: count the calls, compare with the buffered bytes
	clean := &faultWriter{failAt: -1}
	id, err := writeStream(cs, b, clean)
	if err != nil {
		c.Fail("C18/write/clean-run-fails/"+api, "stream writer fails without any fault: %v", err)
		return
	}
	n := clean.calls
	sink := clean.buf.Bytes()
	if cs.FaultKind == "" {
		switch {
		case cs.Art == "token":
			hasCID := true
			if cs.API > 0 {
				es := streamEncs(cs)
				hasCID = es[(cs.API-1)%len(es)].HasCID
			}
			if hasCID && !bytes.Equal(id.Bytes(), ctr.RefCID(sink).Bytes()) {
				c.Fail("C18/write/cid-not-of-sink-bytes", "ToSealedWriter returned %s, the sink received bytes with CID %s", id, ctr.RefCID(sink))
			}
			if b.det && !bytes.Equal(sink, b.bytes) {
				c.Fail("C18/write/stream-differs-from-buffer/"+api, "stream writer produced other bytes than the buffered call (deterministic signature scheme)")
			} else if !b.det {
				if o := readBuffered(cs, b.kind, sink); o.err {
					c.Fail("C18/write/stream-output-unreadable/"+api, "bytes written by the stream writer cannot be decoded")
				}
			}
		case cs.Art == "tokenjson":
			if o := readBuffered(cs, b.kind, sink); o.err {
				c.Fail("C18/write/stream-output-unreadable/"+api, "bytes written by the stream writer cannot be decoded")
			}
		default:
			if b.det {
				if !bytes.Equal(sink, b.bytes) {
					c.Fail("C18/write/stream-differs-from-buffer/"+api, "stream writer produced other bytes than the buffered call (single-entry container)")
				}
			} else {
				x, e1 := entriesSorted(cs.Art, sink)
				y, e2 := entriesSorted(cs.Art, b.bytes)
				if e1 != nil || e2 != nil || fmt.Sprint(x) != fmt.Sprint(y) || len(sink) != len(b.bytes) {
					c.Fail("C18/write/stream-differs-from-buffer/"+api, "stream writer and buffered writer disagree on the container's entries (%v / %v)", e1, e2)
				}
			}
		}
		// the same stream write into sinks of other dynamic types and with other histories: an empty *bytes.Buffer, one
		// that already holds a frame header (or a previous token), a bufio.Writer, a strings.Builder, io.Discard behind
		// a tee. The call writes the same bytes (for deterministic artefacts) and reports the CID of the bytes IT wrote.
		for _, sk := range []string{"bytes.Buffer", "bytes.Buffer/used", "bytes.Buffer/used-by-token", "bufio", "strings.Builder", "multi"} {
			var w io.Writer
			var written func() []byte
			switch sk {
			case "bytes.Buffer":
				bb := &bytes.Buffer{}
				w, written = bb, bb.Bytes
			case "bytes.Buffer/used", "bytes.Buffer/used-by-token":
				prefix := []byte("frame-header:0042:")
				if sk == "bytes.Buffer/used-by-token" {
					prefix = append([]byte{}, sink...)
				}
				bb := bytes.NewBuffer(append([]byte{}, prefix...))
				np := len(prefix)
				w, written = bb, func() []byte { return bb.Bytes()[np:] }
			case "bufio":
				bb := &bytes.Buffer{}
				bw := bufio.NewWriterSize(bb, 64)
				w, written = bw, func() []byte { _ = bw.Flush(); return bb.Bytes() }
			case "strings.Builder":
				sb := &strings.Builder{}
				w, written = sb, func() []byte { return []byte(sb.String()) }
			default:
				b1, b2 := &bytes.Buffer{}, &bytes.Buffer{}
				w, written = io.MultiWriter(b1, b2), b1.Bytes
			}
			var id2 cid.Cid
			var err2 error
			if pn, pv, _ := h.Try(func() { id2, err2 = writeStream(cs, b, w) }); pn {
				c.Fail("C18/write/panic/"+api, "stream writer panicked on a %s sink: %v", sk, pv)
				return
			}
			if err2 != nil {
				c.Fail("C18/write/clean-run-fails/"+api, "stream writer fails on a %s sink without any fault: %v", sk, err2)
				return
			}
			out := written()
			if cs.Art == "token" {
				hasCID := true
				if cs.API > 0 {
					es := streamEncs(cs)
					hasCID = es[(cs.API-1)%len(es)].HasCID
				}
				if hasCID && !bytes.Equal(id2.Bytes(), ctr.RefCID(out).Bytes()) {
					c.Fail("C18/write/cid-not-of-written-bytes/"+sk, "stream writer into a %s sink returned %s; the %d bytes this call wrote have CID %s", sk, id2, len(out), ctr.RefCID(out))
					return
				}
			}
			if b.det && !bytes.Equal(out, b.bytes) {
				c.Fail("C18/write/stream-differs-from-buffer/"+api, "stream writer into a %s sink produced other bytes than the buffered call", sk)
				return
			}
			if !b.det {
				if o := readBuffered(cs, b.kind, out); o.err {
					c.Fail("C18/write/stream-output-unreadable/"+api, "bytes written into a %s sink cannot be decoded", sk)
					return
				}
			}
		}
		c.P.Class("write-clean:" + api)
		c.P.SetExtra("write_calls/"+api, n)
		return
	}
	if n == 0 {
		return
	}
	k := cs.K % n
	fw := &faultWriter{failAt: k, short: cs.FaultKind == "short" || cs.FaultKind == "short-once", once: cs.FaultKind == "fail-once" || cs.FaultKind == "short-once" || cs.FaultKind == "full-count-once", full: cs.FaultKind == "full-count" || cs.FaultKind == "full-count-once"}
	var werr error
	var wid cid.Cid
	if pn, pv, _ := h.Try(func() { wid, werr = writeStream(cs, b, fw) }); pn {
		c.Fail("C18/write/panic/"+api, "stream writer panicked with a fault at call %d: %v", k, pv)
		return
	}
	if fw.failed && werr == nil {
		pos := "inner"
		if k == n-1 {
			pos = "last-call"
		} else if k == 0 {
			pos = "first-call"
		}
		c.Fail("C18/write/fault-swallowed/"+pos+"/"+api, "Write call %d of %d failed (%s), but the call reported success (cid %s); the sink holds %d of %d bytes", k, n, cs.FaultKind, wid, fw.buf.Len(), len(sink))
	}
	if werr != nil && wid.Defined() {
		c.Fail("C18/write/cid-with-error/"+api, "writer returned both an error and a CID")
	}
	c.P.Class("writefault:" + cs.FaultKind + ":" + api)
	c.P.NonTrivial([]any{"writefault", api, cs.FaultKind, k, n, len(cs.Toks)}, map[string]any{"op": "writefault", "artefact": api, "fault": cs.FaultKind, "call": k, "calls": n})
}

var arts = []string{"token", "tokenjson", "car", "carb64", "cbor", "cborb64"}

func drawToks(t *rapid.T, n int) []tok.Tok {
	var out []tok.Tok
	for i := 0; i < n; i++ {
		out = append(out, tok.Gen(t, tok.GenCfg{Algs: []keys.Alg{keys.Ed25519, keys.Ed25519, keys.P256, keys.Secp256k1, keys.RSA}, NoTopNull: true, OnlyFuture: true, Values: val.Cfg{Depth: 1, MaxLen: 2, SafeInts: true, NoFloat: true, Big: true}}))
	}
	return out
}

func draw(t *rapid.T) Case {
	cs := Case{Art: rapid.SampledFrom(arts).Draw(t, "art")}
	n := 1
	if cs.Art != "token" && cs.Art != "tokenjson" {
		n = rapid.IntRange(1, 4).Draw(t, "ntok")
	} else {
		cs.Typed = cs.Art == "token" && rapid.Bool().Draw(t, "typed")
		if rapid.Bool().Draw(t, "useapi") {
			cs.API = rapid.IntRange(1, 12).Draw(t, "api")
		}
	}
	cs.Toks = drawToks(t, n)
	cs.Op = rapid.SampledFrom([]string{"chunk", "chunk", "readfault", "readfault", "writefault"}).Draw(t, "op")
	cs.Chunk = rapid.SliceOfN(rapid.IntRange(1, 64), 0, 4).Draw(t, "chunk")
	if (cs.Art == "car" || cs.Art == "carb64") && cs.Op != "writefault" && rapid.IntRange(0, 3).Draw(t, "dup") == 1 {
		cs.Dup = rapid.IntRange(1, 4).Draw(t, "dupsec")
	}
	if rapid.Bool().Draw(t, "typedsrc") {
		cs.Src = rapid.IntRange(0, len(srcKinds)-1).Draw(t, "src")
	}
	switch cs.Op {
	case "chunk":
		if rapid.IntRange(0, 2).Draw(t, "positioned") == 0 {
			cs.Pos = rapid.IntRange(1, len(posKinds)).Draw(t, "pos")
			cs.Pre = rapid.IntRange(0, 2000).Draw(t, "pre")
		}
		cs.DataWithEOF = rapid.Bool().Draw(t, "dweof")
		cs.ZeroReads = false // (0, nil) reads are outside the property's chunkings; see DESIGN.md, C18 false alarm
	case "readfault":
		cs.FaultKind = rapid.SampledFrom(readFaultKinds).Draw(t, "fk")
		cs.K = rapid.IntRange(0, 20000).Draw(t, "k")
		if rapid.Bool().Draw(t, "identified") {
			cs.ErrIdent = rapid.IntRange(0, len(errIdents)-1).Draw(t, "errident")
		}
	default:
		cs.FaultKind = rapid.SampledFrom([]string{"", "fail", "short", "fail-once", "short-once", "full-count", "full-count-once"}).Draw(t, "wfk")
		cs.K = rapid.IntRange(0, 500).Draw(t, "wk")
	}
	return cs
}

var prop = h.Define(P, "stream", draw, run)

func TestStream(t *testing.T) { prop.Check(t) }

func fixedArtefacts() [][]tok.Tok {
	k := func(a keys.Alg, i int) tok.KeyRef { return tok.KeyRef{Alg: a, Idx: i} }
	n := func(b byte) []byte { return bytes.Repeat([]byte{b}, 12) }
	one := val.Int(1)
	d1 := tok.Tok{Dlg: &tok.Dlg{Iss: k(keys.Ed25519, 0), Aud: k(keys.Ed25519, 1), Sub: "iss", Cmd: "/foo", Nonce: n(1), Meta: []tok.KVal{{K: "m", V: val.Str("x")}}}}
	i1 := tok.Tok{Inv: &tok.Inv{Iss: k(keys.Ed25519, 2), Sub: k(keys.Ed25519, 0), Cmd: "/foo/bar", Nonce: n(3), NoIat: true, Prf: [][]byte{{1}}, Args: []tok.KVal{{K: "a", V: one}}}}
	d2 := tok.Tok{Dlg: &tok.Dlg{Iss: k(keys.P256, 1), Aud: k(keys.Ed25519, 2), Sub: "none", Cmd: "/", Nonce: n(2)}}
	r1 := tok.Tok{Dlg: &tok.Dlg{Iss: k(keys.RSA, 0), Aud: k(keys.Ed25519, 2), Sub: "iss", Cmd: "/rsa", Nonce: n(4)}}
	// one token with a value larger than a typical I/O buffer (4 KiB), one with two such values around a small one
	big := func(nn int) val.V { return val.Bytes(bytes.Repeat([]byte{0xab}, nn)) }
	b1 := tok.Tok{Dlg: &tok.Dlg{Iss: k(keys.Ed25519, 0), Aud: k(keys.Ed25519, 1), Sub: "iss", Cmd: "/big", Nonce: n(5), Meta: []tok.KVal{{K: "blob", V: big(5000)}}}}
	b2 := tok.Tok{Inv: &tok.Inv{Iss: k(keys.Ed25519, 2), Sub: k(keys.Ed25519, 0), Cmd: "/big/two", Nonce: n(6), NoIat: true, Prf: [][]byte{{1}},
		Args: []tok.KVal{{K: "a", V: big(4096)}, {K: "b", V: one}, {K: "c", V: big(9000)}}}}
	sets := [][]tok.Tok{{d1}, {i1}, {d1, i1}, {d1, i1, d2}, {b1}, {b2}}
	if h.Thorough() {
		sets = append(sets, []tok.Tok{r1}, []tok.Tok{d2}, []tok.Tok{d1, i1, d2, r1})
	}
	return sets
}

// TestFaultEnumeration: every read-fault position (both kinds) and every
// write-call index (both kinds) of the fixed artefacts, plus fixed chunkings.
func TestFaultEnumeration(t *testing.T) {
	shard, nshards := h.Shard()
	idx := 0
	for _, set := range fixedArtefacts() {
		for _, art := range arts {
			if (art == "token" || art == "tokenjson") && len(set) != 1 {
				continue
			}
			idx++
			if idx%nshards != shard {
				continue
			}
			type variant struct {
				typed bool
				api   int
			}
			vs := []variant{{false, 0}}
			if art == "token" {
				vs = append(vs, variant{true, 0})
			}
			if art == "token" || art == "tokenjson" {
				// the other stream entry points: all of them in the thorough tier, one (rotating) in the quick tier
				n := 8
				if h.Tier() == "quick" {
					vs = append(vs, variant{false, 1 + idx%n})
				} else {
					for a := 1; a <= n; a++ {
						vs = append(vs, variant{false, a})
					}
				}
			}
			for _, v := range vs {
				typed := v.typed
				base := Case{Toks: set, Art: art, Typed: typed, API: v.api}
				b, ok := buildArtefact(base)
				if !ok {
					t.Fatalf("INCONCLUSIVE fixed artefact does not build")
				}
				// the large-value artefacts are there for the WRITE side (a value larger than an I/O buffer takes another
				// path through a buffering writer); in the quick tier their read side is covered near both ends only
				bigQuick := len(b.bytes) > 3000 && h.Tier() == "quick"
				// chunkings
				for _, ch := range [][]int{nil, {1}, {2, 3, 5}, {7}, {64}, {1, 100}} {
					if bigQuick && len(ch) > 1 {
						continue
					}
					for _, dw := range []bool{false, true} {
						for _, zr := range []bool{false} {
							cs := base
							cs.Op, cs.Chunk, cs.DataWithEOF, cs.ZeroReads = "chunk", ch, dw, zr
							prop.One(t, cs)
						}
					}
				}
				// read faults at every offset
				for k := 0; k <= len(b.bytes); k++ {
					if len(b.bytes) > 3000 && k > 96 && k < len(b.bytes)-96 && k%(97+len(b.bytes)/400) != 0 {
						continue // large artefacts: every offset near both ends, a coarse stride in between
					}
					if bigQuick && k > 16 && k < len(b.bytes)-16 {
						continue
					}
					for fi, fk := range readFaultKinds {
						if h.Tier() == "quick" && fi >= 2 && (k+fi)%4 != 0 && k > 12 && k < len(b.bytes)-12 {
							continue // quick tier: the secondary fault shapes at every 4th offset (rotating) and near both ends
						}
						if k == len(b.bytes) && fk == "eof" {
							continue
						}
						cs := base
						cs.Op, cs.FaultKind, cs.K = "readfault", fk, k
						if k%3 == 0 {
							cs.Chunk = []int{1}
						}
						prop.One(t, cs)
					}
				}
				// the same CAR with one of its blocks repeated at the end: cut / failing at every offset
				if art == "car" || art == "carb64" {
					for dup := 1; dup <= len(set); dup++ {
						db := base
						db.Dup = dup
						bb, ok := buildArtefact(Case{Toks: set, Art: art, Dup: dup, Op: "readfault"})
						if !ok {
							t.Fatalf("INCONCLUSIVE CAR with a repeated block does not build")
						}
						for _, ch := range [][]int{nil, {1}, {7}} {
							cs := db
							cs.Op, cs.Chunk = "chunk", ch
							prop.One(t, cs)
						}
						for k := 0; k <= len(bb.bytes); k++ {
							if h.Tier() == "quick" && k < len(b.bytes)-8 && k%7 != 0 {
								continue // quick tier: every offset of the repeated part, every 7th before it
							}
							for _, fk := range []string{"eof", "error"} {
								if k == len(bb.bytes) && fk == "eof" {
									continue
								}
								cs := db
								cs.Op, cs.FaultKind, cs.K = "readfault", fk, k
								prop.One(t, cs)
							}
						}
					}
				}
				// every error identity x every source type, at both ends, in the middle and at the section boundaries' neighbours
				for _, k := range []int{0, 1, len(b.bytes) / 3, len(b.bytes) / 2, len(b.bytes) - 1, len(b.bytes)} {
					if bigQuick && k != len(b.bytes) {
						continue
					}
					for ei := range errIdents {
						for si := range srcKinds {
							for _, fk := range []string{"error", "error-with-data"} {
								cs := base
								cs.Op, cs.FaultKind, cs.K, cs.ErrIdent, cs.Src = "readfault", fk, k, ei, si
								prop.One(t, cs)
							}
						}
					}
				}
				// write faults at every call index
				if !typed {
					clean := &faultWriter{failAt: -1}
					if _, err := writeStream(base, b, clean); err != nil {
						t.Fatalf("INCONCLUSIVE clean write fails: %v", err)
					}
					cs := base
					cs.Op = "writefault"
					prop.One(t, cs) // clean comparison
					for k := 0; k < clean.calls; k++ {
						for _, fk := range []string{"fail", "short", "fail-once", "short-once", "full-count", "full-count-once"} {
							cs := base
							cs.Op, cs.FaultKind, cs.K = "writefault", fk, k
							prop.One(t, cs)
						}
					}
				}
			}
		}
	}
	if nshards == 1 {
		P.SetExhaustive()
	}
}

// TestSizeSweep: stream == buffer (read with 1-byte / 7-byte / data+EOF
// chunkings, clean write) for a token of every sealed size around the framing
// / buffer boundaries, as a token and inside each container format.
func TestSizeSweep(t *testing.T) {
	n := 0
	for _, size := range tok.SweepSizes() {
		d, _, ok := tok.PaddedDlg(size)
		if !ok {
			continue
		}
		for ai, art := range []string{"token", "car", "carb64", "cbor", "cborb64"} {
			if (size+ai)%2 == 1 && !h.Thorough() {
				continue
			}
			base := Case{Toks: []tok.Tok{d}, Art: art}
			for _, ch := range [][]int{nil, {7}, {4096}} {
				cs := base
				cs.Op, cs.Chunk, cs.DataWithEOF = "chunk", ch, size%2 == 0
				prop.One(t, cs)
				n++
			}
			cs := base
			cs.Op = "writefault" // FaultKind "" = clean run: stream bytes == buffered bytes, CID of the sink
			prop.One(t, cs)
			n++
			// and a fault at the first, the last and the last-but-one Write call of that artefact size
			n += writeFaultsAtEnds(t, base)
		}
	}
	// containers of 2..16 small tokens (the total size, not a single entry, crosses buffer thresholds)
	for cnt := 2; cnt <= 16; cnt++ {
		var set []tok.Tok
		for i := 0; i < cnt; i++ {
			set = append(set, tok.Tok{Dlg: &tok.Dlg{Iss: tok.KeyRef{Alg: keys.Ed25519, Idx: i % 4}, Aud: tok.KeyRef{Alg: keys.Ed25519, Idx: (i + 1) % 4}, Sub: "iss", Cmd: "/sweep",
				Nonce: []byte(fmt.Sprintf("sweep-nonce-%03d", i))}})
		}
		for _, art := range []string{"car", "carb64", "cbor", "cborb64"} {
			n += writeFaultsAtEnds(t, Case{Toks: set, Art: art})
		}
	}
	P.SetExtra("size_sweep_cases", n)
}

// writeFaultsAtEnds injects a write fault (failure, short write) at the first, last and last-but-one Write call
// that a clean run of the artefact makes.
func writeFaultsAtEnds(t *testing.T, base Case) int {
	b, ok := buildArtefact(base)
	if !ok {
		return 0
	}
	clean := &faultWriter{failAt: -1}
	if _, err := writeStream(base, b, clean); err != nil || clean.calls == 0 {
		return 0
	}
	n := 0
	seen := map[int]bool{}
	for _, k := range []int{0, clean.calls - 1, clean.calls - 2, clean.calls / 2} {
		if k < 0 || seen[k] {
			continue
		}
		seen[k] = true
		for _, fk := range []string{"fail", "short", "fail-once", "short-once", "full-count", "full-count-once"} {
			cs := base
			cs.Op, cs.FaultKind, cs.K = "writefault", fk, k
			prop.One(t, cs)
			n++
		}
	}
	return n
}

// ---------- overlapping stream reads (race-detector build) ----------

type ConcCase struct {
	Sets       [][]tok.Tok `json:"sets"`
	Goroutines int         `json:"goroutines"`
	Chunk      []int       `json:"chunk"`
}

// runConc: several goroutines read different containers / tokens from chunked
// streams at the same time; each must get what decoding its own bytes from
// memory gives.
func runConc(c *h.Ctx, cc ConcCase) {
	type job struct {
		cs   Case
		b    *built
		want outcome
	}
	var jobs []job
	for i, set := range cc.Sets {
		art := arts[2+i%4] // the four container formats
		if len(set) == 1 && i%3 == 0 {
			art = "token"
		}
		cs := Case{Toks: set, Art: art}
		if art == "token" {
			cs.Toks = set[:1]
		}
		b, ok := buildArtefact(cs)
		if !ok {
			continue
		}
		want := readBuffered(cs, b.kind, b.bytes)
		if want.err {
			continue
		}
		jobs = append(jobs, job{cs, b, want})
	}
	if len(jobs) == 0 {
		return
	}
	bad := make(chan string, 16)
	if pv := h.Concurrently(cc.Goroutines, func(g int) {
		for r := 0; r < 6; r++ {
			j := jobs[(g+r)%len(jobs)]
			rd := &faultReader{data: j.b.bytes, limit: -1, chunk: cc.Chunk, dataWithEOF: (g+r)%2 == 0}
			got := readStream(j.cs, j.b.kind, rd)
			if !same(got, j.want) {
				select {
				case bad <- fmt.Sprintf("%s read from a stream while other streams are being read gives %s, decoding the same bytes from memory gives %s", j.cs.Art, got, j.want):
				default:
				}
			}
		}
	}); pv != nil {
		c.Fail("C18/read/concurrent-panic", "panic while reading streams concurrently: %v", pv)
	}
	close(bad)
	for b := range bad {
		c.Fail("C18/read/concurrent-streams-interfere", "%s", b)
	}
	c.P.NonTrivial([]any{"conc", len(jobs), cc.Goroutines, cc.Chunk}, map[string]any{"op": "concurrent-stream-reads", "artefacts": len(jobs), "goroutines": cc.Goroutines, "chunks": cc.Chunk})
}

var concProp = h.Define(P, "concurrent", func(t *rapid.T) ConcCase {
	cc := ConcCase{Goroutines: rapid.IntRange(2, 8).Draw(t, "goroutines"), Chunk: rapid.SliceOfN(rapid.IntRange(1, 64), 0, 3).Draw(t, "chunk")}
	n := rapid.IntRange(2, 4).Draw(t, "nsets")
	for i := 0; i < n; i++ {
		cc.Sets = append(cc.Sets, drawToks(t, rapid.IntRange(1, 3).Draw(t, "ntok")))
	}
	return cc
}, runConc)

func TestConcurrentStreams(t *testing.T) { concProp.Check(t) }

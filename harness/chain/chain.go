// Package chain builds invocation + proof-chain cases from plain data, runs
// ExecutionAllowed on them and computes the reference rules R1..R9 (DESIGN §5
// C01) from the case description alone. Shared by C01..C05.
package chain

import (
	"github.com/ucan-wg/go-ucan/pkg/container"
	"github.com/ipld/go-ipld-prime/node/basicnode"
	cidlink "github.com/ipld/go-ipld-prime/linking/cid"
	"io"
	"github.com/ucan-wg/go-ucan/did"
	varint "github.com/multiformats/go-varint"
	mbase "github.com/multiformats/go-multibase"
	mh "github.com/multiformats/go-multihash"
	"crypto/sha256"
	"encoding/json"
	"errors"
	"fmt"
	"strings"
	"time"

	"github.com/ipfs/go-cid"
	"github.com/ipld/go-ipld-prime"
	"github.com/ipld/go-ipld-prime/node/bindnode"
	"github.com/ipld/go-ipld-prime/schema"

	"github.com/ucan-wg/go-ucan/pkg/args"
	"github.com/ucan-wg/go-ucan/pkg/command"
	"github.com/ucan-wg/go-ucan/pkg/policy"
	"github.com/ucan-wg/go-ucan/token/delegation"
	"github.com/ucan-wg/go-ucan/token/invocation"

	"verif/harness/h"
	"verif/harness/keys"
	"verif/harness/env"
	"verif/harness/pol"
	"verif/harness/sel"
	"verif/harness/val"
)

type Link struct {
	Iss       int        `json:"iss"`
	Aud       int        `json:"aud"`
	Sub       int        `json:"sub"` // -1: undefined (powerline)
	Cmd       string     `json:"cmd"`
	Pol       pol.Policy `json:"pol,omitempty"`
	PolIPLD   bool       `json:"pol_via_ipld,omitempty"`
	Nbf       *int64     `json:"nbf,omitempty"` // seconds relative to now
	Exp       *int64     `json:"exp,omitempty"`
	NbfAbs    *int64     `json:"nbf_abs,omitempty"` // absolute unix seconds (must be in the future: WithNotBefore)
	ExpAbs    *int64     `json:"exp_abs,omitempty"` // absolute unix seconds (must be in the future: WithExpiration)
	Missing   bool       `json:"missing,omitempty"`
	MissStyle int        `json:"miss_style,omitempty"` // how the loader reports that it does not have it: 0 ErrDelegationNotFound, 1 another error, 2 (nil, nil), 3 it panics
	LoaderErr bool       `json:"loader_err,omitempty"`
	Decoded   bool       `json:"decoded,omitempty"`
	Nonce     byte       `json:"nonce,omitempty"`
	SpareCap  bool       `json:"spare_cap,omitempty"` // hand the policy over as a slice with spare capacity (as left by append)
	NbfMs     *int64     `json:"nbf_ms,omitempty"`    // milliseconds relative to the instant of construction (clock histories only)
	ExpMs     *int64     `json:"exp_ms,omitempty"`
	EncMeta   []EncKV    `json:"enc_meta,omitempty"`
	OptPerm   int        `json:"opt_perm,omitempty"` // != 0: constructor options handed over in another order
	// RawCmd != "": the delegation travels with THIS text in its cmd field - signed by hand by its issuer, since
	// no constructor produces a command that is not one - and is what the loader got from a decoder. If the
	// decoder refuses it, the case does not exist (ErrUndecodable); if it lets it through, the delegation grants
	// nothing: a text that is not a command covers no command and is covered by none.
	RawCmd *string `json:"raw_cmd,omitempty"`
	// RawExp / RawNbf: the same for the time bounds - the delegation travels with THIS integer (Unix seconds) in its
	// exp / nbf field, whatever it is: the constructors only take future instants, the wire takes any integer the
	// decoder lets through (the Unix epoch, year 1, negative, far future).
	RawExp *int64 `json:"raw_exp,omitempty"`
	RawNbf *int64 `json:"raw_nbf,omitempty"`
	// Reseal > 0: after the delegation has been sealed and filed in the store under the CID of that sealing, its
	// owner seals the same object again (to send it to someone else, to write it to a container). Sealing is a
	// read: the object in the store is still the delegation that the invocation's proof CID names.
	Reseal int `json:"reseal,omitempty"`
	// ViaRoot: the delegation is built with delegation.Root (not New), handed the same options - WithSubject(Sub)
	// among them. Root makes its issuer the subject whatever the options say (documented), so the delegation is about
	// Iss.
	ViaRoot bool `json:"via_root,omitempty"`
}

// ErrUndecodable: a hand-sealed token of the case is refused by the decoder (that is the decoder's job).
var ErrUndecodable = errors.New("verif: hand-sealed token refused by the decoder")

func permuteOpts[T any](opts []T, seed int) {
	if seed == 0 {
		return
	}
	x := uint64(seed)*6364136223846793005 + 1442695040888963407
	for i := len(opts) - 1; i > 0; i-- {
		x = x*6364136223846793005 + 1442695040888963407
		j := int((x >> 33) % uint64(i+1))
		opts[i], opts[j] = opts[j], opts[i]
	}
}

type Hook struct {
	Args []val.KV `json:"args"`
	Err  bool     `json:"err,omitempty"`
}

type Inv struct {
	Iss      int      `json:"iss"`
	Sub      int      `json:"sub"`
	Aud      int      `json:"aud"` // -1: none
	Cmd      string   `json:"cmd"`
	Args     []val.KV `json:"args,omitempty"`
	Exp      *int64   `json:"exp,omitempty"`
	Iat      *int64   `json:"iat,omitempty"`
	NoIat    bool     `json:"no_iat,omitempty"`
	Meta     []val.KV `json:"meta,omitempty"`
	NonceLen int      `json:"nonce_len,omitempty"`
	Cause    bool     `json:"cause,omitempty"`
	Decoded  bool     `json:"decoded,omitempty"`
	Hook     *Hook    `json:"hook,omitempty"`
	ExpMs    *int64   `json:"exp_ms,omitempty"` // milliseconds relative to the instant of construction (clock histories only)
	EncMeta  []EncKV  `json:"enc_meta,omitempty"`
	// CommonArgs > 0: the first CommonArgs arguments are handed over as ONE *args.Args through WithArguments (the
	// same object for every invocation of a run that starts with the same arguments - a caller deriving several
	// invocations from a common argument set), the remaining ones through WithArgument
	CommonArgs int `json:"common_args,omitempty"`
	// TypedArg: one more argument "pt" whose value is a schema-typed node (bindnode over a Go struct with tuple
	// representation) - a caller's domain type handed over as is
	TypedArg bool `json:"typed_arg,omitempty"`
	OptPerm  int  `json:"opt_perm,omitempty"` // != 0: constructor options handed over in another order
	// UcanArg: one more argument "ucan" holding a link to the invocation's first proof (second proof when 2) - the
	// shape of the arguments that commands of the /ucan/... family carry (revocation, attestation)
	UcanArg int `json:"ucan_arg,omitempty"`
}

type point struct {
	X int64
	Y int64
}

var pointType = func() schema.Type {
	ts, err := ipld.LoadSchemaBytes([]byte("type Point struct {\n  x Int\n  y Int\n} representation tuple\n"))
	if err != nil {
		panic(err)
	}
	return ts.TypeByName("Point")
}()

// EncKV is an encrypted metadata entry (key = 32 x KeyByte).
type EncKV struct {
	K       string `json:"k"`
	Plain   string `json:"plain"`
	KeyByte byte   `json:"key_byte"`
}

func EncKey(b byte) []byte {
	k := make([]byte, 32)
	for i := range k {
		k[i] = b
	}
	return k
}

type Case struct {
	Inv   Inv      `json:"inv"`
	Links []Link   `json:"links"`
	Dev   []string `json:"deviations,omitempty"`
	// PrefixPols: every link's policy is a prefix of the longest one, and the tokens are built the way a Go
	// caller attenuates - `child := append(parent, extra...)` on a slice with room to spare - so that all the
	// policies are views of ONE backing array (lengths differ, capacity reaches to the end of the array)
	PrefixPols bool `json:"prefix_pols,omitempty"`
	// ReaderLoader: the delegations reach the check through a token container (written as CBOR, read back): the
	// container.Reader itself is the loader, as applications that receive invocation and proofs in one container use it
	ReaderLoader bool `json:"reader_loader,omitempty"`
	// ForeignProof > 0: the proof list names, at position ForeignProof-1, the CID of a token that is NOT a delegation
	// (another invocation, which the container also carries): a proof that cannot be loaded as a delegation
	ForeignProof int `json:"foreign_proof,omitempty"`
}

// MakePrefixPols rewrites the policies of c so that each is the prefix (of its own length) of the longest one.
func MakePrefixPols(c *Case) {
	var master pol.Policy
	for _, l := range c.Links {
		if len(l.Pol) > len(master) {
			master = l.Pol
		}
	}
	if len(master) < 2 {
		return
	}
	for i := range c.Links {
		c.Links[i].Pol = append(pol.Policy{}, master[:len(c.Links[i].Pol)]...)
		c.Links[i].PolIPLD = false
		c.Links[i].SpareCap = false
		c.Links[i].Decoded = false
	}
	c.PrefixPols = true
}

// NPrincipals is the size of the principal pool. 0..7 are Ed25519; the rest
// are other algorithms (only those whose DID the decoder can parse are used).
const NPrincipals = 8

// NPrincipalsMixed includes five principals with other key algorithms (indexes 8..12).
const NPrincipalsMixed = 13

// Near-twins: Prin(100*t + i), t = 1..3, is a principal NOBODY holds a key for, whose did:key differs from that of
// Prin(i) in one respect only: (1) the same key bytes announced under another key algorithm's multicodec, (2) the
// same algorithm with one more key byte, (3) with the last key byte missing. did.Parse accepts all of them. They can
// stand wherever no signature is needed (audience of a link, subject of a link or of the invocation) and are
// DIFFERENT principals there: a comparison that looks at part of an identifier confuses them with the real one.
func nearTwin(i int) *keys.Key {
	t, base := i/100, Prin(i%100)
	_, raw, err := mbase.Decode(base.DID.String()[len("did:key:"):])
	if err != nil {
		panic(err)
	}
	code, n, err := varint.FromUvarint(raw)
	if err != nil {
		panic(err)
	}
	key := append([]byte{}, raw[n:]...)
	switch t {
	case 1:
		next := map[uint64]uint64{0xed: 0xe7, 0xe7: 0x1200, 0x1200: 0xe7, 0x1201: 0x1202, 0x1202: 0x1201, 0x1205: 0xed}
		code = next[code]
	case 2:
		key = append(key, 0x00)
	default:
		key = key[:len(key)-1]
	}
	enc, err := mbase.Encode(mbase.Base58BTC, append(varint.ToUvarint(code), key...))
	if err != nil {
		panic(err)
	}
	d, err := did.Parse("did:key:" + enc)
	if err != nil {
		panic(fmt.Sprintf("near twin %d of %s does not parse: %v", t, base.DID, err))
	}
	return &keys.Key{Alg: base.Alg, Idx: -i, DID: d}
}

func Prin(i int) *keys.Key {
	if i >= 100 {
		return nearTwin(i)
	}
	switch i {
	case 8:
		return keys.Get(keys.Secp256k1, 0)
	case 9:
		return keys.Get(keys.P256, 0)
	case 10:
		return keys.Get(keys.RSA, 0)
	case 11:
		return keys.Get(keys.P384, 0)
	case 12:
		return keys.Get(keys.P521, 0)
	}
	return keys.Principal(i)
}

type loader struct {
	m     map[cid.Cid]*delegation.Token
	errs  map[cid.Cid]bool
	style map[cid.Cid]int
}

// miss answers for a delegation the loader does not hold, in one of the ways real loaders do. Whatever the
// style, the delegation has not been loaded; a loader that answers (nil, nil) or panics may well make the
// check panic - that is a denial, not an approval.
func miss(style int) (*delegation.Token, error) {
	switch style {
	case 1:
		return nil, errors.New("verif: no such delegation")
	case 2:
		return nil, nil
	case 3:
		panic("verif: loader has no such delegation")
	}
	return nil, delegation.ErrDelegationNotFound
}

// AltCid: style 4 identity multihash (the sealed bytes themselves), 5 sha2-512, 6 raw codec, 7 CIDv0.
func AltCid(sealed []byte, style int) cid.Cid {
	switch style {
	case 4:
		m, _ := mh.Sum(sealed, mh.IDENTITY, -1)
		return cid.NewCidV1(0x71, m)
	case 5:
		m, _ := mh.Sum(sealed, mh.SHA2_512, -1)
		return cid.NewCidV1(0x71, m)
	case 6:
		m, _ := mh.Sum(sealed, mh.SHA2_256, -1)
		return cid.NewCidV1(0x55, m)
	default:
		m, _ := mh.Sum(sealed, mh.SHA2_256, -1)
		return cid.NewCidV0(m)
	}
}

func (l *loader) GetDelegation(c cid.Cid) (*delegation.Token, error) {
	if l.errs[c] {
		return nil, errors.New("verif: injected loader failure")
	}
	t, ok := l.m[c]
	if !ok {
		return miss(l.style[c])
	}
	return t, nil
}

// Built is a constructed case.
type Built struct {
	Inv    *invocation.Token
	Loader delegation.Loader
	Cids   []cid.Cid
	Dlgs   []*delegation.Token
}

func nonce(tag string, b byte, n int) []byte {
	if n < 12 {
		n = 12
	}
	out := make([]byte, 0, n)
	ctr := 0
	for len(out) < n {
		s := sha256.Sum256([]byte(fmt.Sprintf("%s/%d/%d", tag, b, ctr)))
		out = append(out, s[:]...)
		ctr++
	}
	return out[:n]
}

func dur(sec int64) time.Duration { return time.Duration(sec) * time.Second }

// BuildLink constructs (and optionally round-trips) one delegation.
func BuildLink(l Link) (*delegation.Token, cid.Cid, []byte, error) { return BuildLinkWith(l, nil) }

// BuildLinkWith is BuildLink with the policy value supplied by the caller (a view of a shared array).
func BuildLinkWith(l Link, prebuilt policy.Policy) (*delegation.Token, cid.Cid, []byte, error) {
	cmd, err := command.Parse(l.Cmd)
	if err != nil {
		return nil, cid.Undef, nil, fmt.Errorf("command %q: %w", l.Cmd, err)
	}
	p, err := l.Pol.Build(l.PolIPLD)
	if err != nil {
		return nil, cid.Undef, nil, fmt.Errorf("policy: %w", err)
	}
	if prebuilt != nil {
		p = prebuilt
	}
	if l.SpareCap {
		// a caller that assembled its policy with append hands over a slice whose
		// capacity exceeds its length; the content is the same
		p2 := make(policy.Policy, len(p), len(p)+8)
		copy(p2, p)
		p = p2
	}
	opts := []delegation.Option{delegation.WithNonce(nonce("dlg", l.Nonce, 12))}
	if l.Sub >= 0 {
		opts = append(opts, delegation.WithSubject(Prin(l.Sub).DID))
	}
	// of several not-before / expiry settings the last one given counts; hand over only that one, so that the
	// ORDER of the options (which is permuted below) carries no meaning
	var nbfOpt, expOpt delegation.Option
	if l.Nbf != nil {
		nbfOpt = delegation.WithNotBeforeIn(dur(*l.Nbf))
	}
	if l.Exp != nil && l.ExpAbs == nil {
		expOpt = delegation.WithExpirationIn(dur(*l.Exp))
	}
	for _, e := range l.EncMeta {
		opts = append(opts, delegation.WithEncryptedMetaBytes(e.K, []byte(e.Plain), EncKey(e.KeyByte)))
	}
	if l.NbfMs != nil {
		nbfOpt = delegation.WithNotBeforeIn(time.Duration(*l.NbfMs) * time.Millisecond)
		if sharedDlgNbf != nil {
			if o, ok := sharedDlgNbf[*l.NbfMs]; ok {
				nbfOpt = o
			} else {
				sharedDlgNbf[*l.NbfMs] = nbfOpt
			}
		}
	}
	if l.ExpMs != nil {
		expOpt = delegation.WithExpirationIn(time.Duration(*l.ExpMs) * time.Millisecond)
		if sharedDlgExp != nil {
			if o, ok := sharedDlgExp[*l.ExpMs]; ok {
				expOpt = o
			} else {
				sharedDlgExp[*l.ExpMs] = expOpt
			}
		}
	}
	if l.NbfAbs != nil {
		nbfOpt = delegation.WithNotBefore(time.Unix(*l.NbfAbs, 0))
	}
	if l.ExpAbs != nil {
		expOpt = delegation.WithExpiration(time.Unix(*l.ExpAbs, 0))
	}
	if nbfOpt != nil {
		opts = append(opts, nbfOpt)
	}
	if expOpt != nil {
		opts = append(opts, expOpt)
	}
	permuteOpts(opts, l.OptPerm)
	tkn, err := delegation.New(Prin(l.Iss).DID, Prin(l.Aud).DID, cmd, p, opts...)
	if l.ViaRoot {
		tkn, err = delegation.Root(Prin(l.Iss).DID, Prin(l.Aud).DID, cmd, p, opts...)
	}
	if err != nil {
		return nil, cid.Undef, nil, fmt.Errorf("delegation.New: %w", err)
	}
	data, c, err := tkn.ToSealed(Prin(l.Iss).Priv)
	if err != nil {
		return nil, cid.Undef, nil, fmt.Errorf("ToSealed: %w", err)
	}
	if l.RawCmd != nil || l.RawExp != nil || l.RawNbf != nil {
		e, perr := env.Parse(data)
		if perr != nil {
			return nil, cid.Undef, nil, fmt.Errorf("harness cannot parse its own token: %w", perr)
		}
		pv := val.FromNode(e.Payload)
		np := val.V{K: "map"}
		for _, kv := range pv.M {
			if kv.K == "cmd" && l.RawCmd != nil {
				kv.V = val.Str(*l.RawCmd)
			}
			if kv.K == "exp" && l.RawExp != nil {
				kv.V = val.Int(*l.RawExp)
			}
			if kv.K == "nbf" && l.RawNbf != nil {
				continue
			}
			np.M = append(np.M, kv)
		}
		if l.RawNbf != nil {
			np.M = append(np.M, val.KV{K: "nbf", V: val.Int(*l.RawNbf)})
		}
		raw, serr := env.SignPayload(Prin(l.Iss).Priv, e.Tag, np.Node())
		if serr != nil {
			return nil, cid.Undef, nil, fmt.Errorf("hand-sealing: %w", serr)
		}
		d, c2, derr := delegation.FromSealed(raw)
		if derr != nil {
			return nil, cid.Undef, nil, fmt.Errorf("%w: %v", ErrUndecodable, derr)
		}
		return d, c2, raw, nil
	}
	if l.Decoded {
		d, c2, err := delegation.FromSealed(data)
		if err != nil {
			return nil, cid.Undef, nil, fmt.Errorf("FromSealed: %w", err)
		}
		if c2 != c {
			return nil, cid.Undef, nil, fmt.Errorf("cid changed across seal/unseal")
		}
		tkn = d
	}
	return tkn, c, data, nil
}

// BuildArgs converts KV pairs into *args.Args (insertion order kept).
func BuildArgs(kvs []val.KV) (*args.Args, error) {
	a := args.New()
	for _, e := range kvs {
		if err := a.Add(e.K, e.V.Node()); err != nil {
			return nil, err
		}
	}
	return a, nil
}

// Build constructs every token of the case.
func Build(c Case) (*Built, error) {
	b := &Built{}
	ld := &loader{m: map[cid.Cid]*delegation.Token{}, errs: map[cid.Cid]bool{}, style: map[cid.Cid]int{}}
	var master policy.Policy
	if c.PrefixPols {
		var longest pol.Policy
		for _, l := range c.Links {
			if len(l.Pol) > len(longest) {
				longest = l.Pol
			}
		}
		// only if every policy really is a prefix of the longest (a case mutated afterwards may not be)
		ok := true
		for _, l := range c.Links {
			for j := range l.Pol {
				a, _ := json.Marshal(l.Pol[j])
				b, _ := json.Marshal(longest[j])
				if string(a) != string(b) {
					ok = false
				}
			}
		}
		if m, err := longest.Build(false); err == nil && ok {
			master = make(policy.Policy, len(m), len(m)+4)
			copy(master, m)
		}
	}
	var sealedOf [][]byte
	for i, l := range c.Links {
		var pre policy.Policy
		if master != nil && len(l.Pol) > 0 && len(l.Pol) <= len(master) {
			pre = master[:len(l.Pol)] // same array, capacity to the end of it
		}
		t, id, sealedBytes, err := BuildLinkWith(l, pre)
		if err != nil {
			return nil, fmt.Errorf("link %d: %w", i, err)
		}
		sealedOf = append(sealedOf, sealedBytes)
		if l.Missing && l.MissStyle >= 4 {
			// the delegation is referenced by a CID of another form than the one the loader files it under (and
			// the loader does not have it under any): the bytes inlined in an identity CID, another hash function,
			// another codec, CIDv0. Whatever the CID carries or resembles, a proof the loader does not hand out
			// has not been loaded.
			id = AltCid(sealedBytes, l.MissStyle)
		}
		b.Cids = append(b.Cids, id)
		b.Dlgs = append(b.Dlgs, t)
		for k := 0; k < l.Reseal && l.Iss < 100; k++ {
			switch k % 3 {
			case 0:
				_, _, _ = t.ToSealed(Prin(l.Iss).Priv)
			case 1:
				_, _ = t.ToDagJson(Prin(l.Iss).Priv)
			default:
				_, _ = t.ToSealedWriter(io.Discard, Prin(l.Iss).Priv)
			}
		}
		if l.LoaderErr {
			ld.errs[id] = true
		}
		if !l.Missing {
			if _, dup := ld.m[id]; !dup {
				ld.m[id] = t
			}
		}
	}
	// a link marked Missing must really be absent even if an identical twin is present
	for i, l := range c.Links {
		if l.Missing {
			delete(ld.m, b.Cids[i])
			ld.style[b.Cids[i]] = l.MissStyle
		}
	}
	b.Loader = ld
	prf := b.Cids
	var spareSealed []byte
	var spareCid cid.Cid
	if c.ForeignProof > 0 {
		spare, serr := BuildInv(Inv{Iss: c.Inv.Iss, Sub: c.Inv.Sub, Aud: -1, Cmd: "/spare", NonceLen: 14}, nil)
		if serr != nil {
			return nil, serr
		}
		if spareSealed, spareCid, serr = spare.ToSealed(Prin(c.Inv.Iss).Priv); serr != nil {
			return nil, serr
		}
		at := (c.ForeignProof - 1) % (len(prf) + 1)
		prf = append(append(append([]cid.Cid{}, prf[:at]...), spareCid), prf[at:]...)
	}
	if c.ReaderLoader {
		usable := true
		for _, l := range c.Links {
			if l.LoaderErr || (l.Missing && l.MissStyle != 0 && l.MissStyle < 4) {
				usable = false // failure styles a container cannot express: keep the scripted loader
			}
		}
		if usable {
			w := container.NewWriter()
			gone := map[cid.Cid]bool{}
			for i, l := range c.Links {
				if l.Missing {
					gone[b.Cids[i]] = true // also when an identical twin of it is present
				}
			}
			for i, l := range c.Links {
				if !l.Missing && i < len(sealedOf) && !gone[b.Cids[i]] {
					w.AddSealed(b.Cids[i], sealedOf[i])
				}
			}
			if spareSealed != nil {
				w.AddSealed(spareCid, spareSealed)
			}
			if cb, werr := w.ToCbor(); werr == nil {
				if rd, rerr := container.FromCbor(cb); rerr == nil {
					b.Loader = rd
					// the delegations of this case are the ones the container hands out: decoded from their sealed
					// form, with the time bounds the wire carries (whole seconds) - not the constructed objects
					for i := range b.Dlgs {
						if i < len(b.Cids) {
							if d, gerr := rd.GetDelegation(b.Cids[i]); gerr == nil && d != nil {
								b.Dlgs[i] = d
							}
						}
					}
				}
			}
		}
	}
	inv, err := BuildInv(c.Inv, prf)
	if err != nil {
		return nil, err
	}
	b.Inv = inv
	return b, nil
}

func BuildInv(iv Inv, prf []cid.Cid) (*invocation.Token, error) { return BuildInvShared(iv, prf, nil) }

// BuildInvShared is BuildInv with a registry of common argument objects shared between the invocations of a run.
func BuildInvShared(iv Inv, prf []cid.Cid, reg map[string]*args.Args) (*invocation.Token, error) {
	cmd, err := command.Parse(iv.Cmd)
	if err != nil {
		return nil, fmt.Errorf("inv command %q: %w", iv.Cmd, err)
	}
	opts := []invocation.Option{invocation.WithNonce(nonce("inv", 0, iv.NonceLen))}
	rest := iv.Args
	if n := iv.CommonArgs; n > 0 && n <= len(iv.Args) {
		key, _ := json.Marshal(iv.Args[:n])
		common := reg[string(key)]
		if common == nil {
			if common, err = BuildArgs(iv.Args[:n]); err != nil {
				return nil, err
			}
			if reg != nil {
				reg[string(key)] = common
			}
		}
		opts = append(opts, invocation.WithArguments(common))
		rest = iv.Args[n:]
	}
	for _, e := range rest {
		opts = append(opts, invocation.WithArgument(e.K, e.V.Node()))
	}
	if iv.TypedArg {
		opts = append(opts, invocation.WithArgument("pt", bindnode.Wrap(&point{3, 4}, pointType)))
	}
	if iv.UcanArg > 0 && len(prf) > 0 {
		opts = append(opts, invocation.WithArgument("ucan", basicnode.NewLink(cidlink.Link{Cid: prf[(iv.UcanArg-1)%len(prf)]})))
	}
	if iv.Aud >= 0 {
		opts = append(opts, invocation.WithAudience(Prin(iv.Aud).DID))
	}
	if iv.Exp != nil && iv.ExpMs == nil {
		opts = append(opts, invocation.WithExpirationIn(dur(*iv.Exp)))
	}
	if iv.ExpMs != nil {
		o := invocation.WithExpirationIn(time.Duration(*iv.ExpMs) * time.Millisecond)
		if sharedInvExp != nil {
			if so, ok := sharedInvExp[*iv.ExpMs]; ok {
				o = so
			} else {
				sharedInvExp[*iv.ExpMs] = o
			}
		}
		opts = append(opts, o)
	}
	if iv.NoIat {
		opts = append(opts, invocation.WithoutInvokedAt())
	} else if iv.Iat != nil {
		opts = append(opts, invocation.WithInvokedAtIn(dur(*iv.Iat)))
	}
	for _, e := range iv.Meta {
		opts = append(opts, invocation.WithMeta(e.K, e.V.Node()))
	}
	for _, e := range iv.EncMeta {
		opts = append(opts, invocation.WithEncryptedMetaString(e.K, e.Plain, EncKey(e.KeyByte)))
	}
	if iv.Cause {
		cc := val.CidOf([]byte("cause"))
		opts = append(opts, invocation.WithCause(&cc))
	}
	permuteOpts(opts, iv.OptPerm)
	if prf == nil {
		prf = []cid.Cid{}
	}
	tkn, err := invocation.New(Prin(iv.Iss).DID, Prin(iv.Sub).DID, cmd, prf, opts...)
	if err != nil {
		return nil, fmt.Errorf("invocation.New: %w", err)
	}
	if iv.Decoded {
		data, _, err := tkn.ToSealed(Prin(iv.Iss).Priv)
		if err != nil {
			return nil, fmt.Errorf("inv ToSealed: %w", err)
		}
		d, _, err := invocation.FromSealed(data)
		if err != nil {
			return nil, fmt.Errorf("inv FromSealed: %w", err)
		}
		tkn = d
	}
	return tkn, nil
}

// Decision is the observable outcome of the authorization check.
type Decision struct {
	Allowed  bool
	Err      string
	Panicked bool
	Panic    string
}

// Decide runs ExecutionAllowed (or the hook variant when iv.Hook is set).
func Decide(b *Built, hook *Hook) Decision {
	var d Decision
	var err error
	p, v, _ := h.Try(func() {
		if hook == nil {
			err = b.Inv.ExecutionAllowed(b.Loader)
			return
		}
		err = b.Inv.ExecutionAllowedWithArgsHook(b.Loader, func(ro args.ReadOnly) (*args.Args, error) {
			if hook.Err {
				return nil, errors.New("verif: hook refuses")
			}
			return BuildArgs(hook.Args)
		})
	})
	if p {
		d.Panicked, d.Panic = true, fmt.Sprint(v)
		return d
	}
	if err != nil {
		d.Err = err.Error()
		return d
	}
	d.Allowed = true
	return d
}

// DecideWithHookFn runs the hook variant with the caller's own hook function.
func DecideWithHookFn(b *Built, fn func(args.ReadOnly) (*args.Args, error)) Decision {
	var d Decision
	var err error
	p, v, _ := h.Try(func() { err = b.Inv.ExecutionAllowedWithArgsHook(b.Loader, fn) })
	if p {
		d.Panicked, d.Panic = true, fmt.Sprint(v)
		return d
	}
	if err != nil {
		d.Err = err.Error()
		return d
	}
	d.Allowed = true
	return d
}

// DecideIdentityHook runs the hook variant with a hook that hands back a clone
// of the token's own arguments.
// OddHooks: argument hooks as callers get them wrong or use them for something else - a hook that answers
// (nil, nil), no hook at all (a nil function), one that hands back an empty argument set, one that panics. Whatever
// the library makes of them (an error, a panic, the token's own arguments), a chain that must be refused is not
// reported as allowed through them.
var OddHooks = []string{"nil-args", "nil-func", "empty-args", "panics"}

func DecideOddHook(b *Built, kind string) Decision {
	var d Decision
	var err error
	p, v, _ := h.Try(func() {
		switch kind {
		case "nil-args":
			err = b.Inv.ExecutionAllowedWithArgsHook(b.Loader, func(ro args.ReadOnly) (*args.Args, error) { return nil, nil })
		case "nil-func":
			err = b.Inv.ExecutionAllowedWithArgsHook(b.Loader, nil)
		case "empty-args":
			err = b.Inv.ExecutionAllowedWithArgsHook(b.Loader, func(ro args.ReadOnly) (*args.Args, error) { return args.New(), nil })
		default:
			err = b.Inv.ExecutionAllowedWithArgsHook(b.Loader, func(ro args.ReadOnly) (*args.Args, error) { panic("verif: hook panics") })
		}
	})
	if p {
		d.Panicked, d.Panic = true, fmt.Sprint(v)
		return d
	}
	if err != nil {
		d.Err = err.Error()
		return d
	}
	d.Allowed = true
	return d
}

func DecideIdentityHook(b *Built) Decision {
	var d Decision
	var err error
	p, v, _ := h.Try(func() {
		err = b.Inv.ExecutionAllowedWithArgsHook(b.Loader, func(ro args.ReadOnly) (*args.Args, error) {
			return ro.WriteableClone(), nil
		})
	})
	if p {
		d.Panicked, d.Panic = true, fmt.Sprint(v)
		return d
	}
	if err != nil {
		d.Err = err.Error()
		return d
	}
	d.Allowed = true
	return d
}

// ---------- reference rules ----------

func refSegments(c string) []string {
	if c == "/" {
		return nil
	}
	return strings.Split(c, "/")[1:]
}

// Covers is the segment-prefix order (same model as C15).
func Covers(a, b string) bool {
	sa, sb := refSegments(a), refSegments(b)
	if len(sa) > len(sb) {
		return false
	}
	for i := range sa {
		if sa[i] != sb[i] {
			return false
		}
	}
	return true
}

// Rules holds R1..R9; Spec[i]=false when rule i cannot be evaluated from the
// description (then it is treated as not established).
type Rules struct {
	R           [10]bool
	PolicyUnspec bool   // some statement's truth is not fixed by the property text
	UnspecOps   []string
	FalseStmts  [][2]int // (link, statement index) of unsatisfied statements
}

// StmtHolds evaluates one flat top-level statement on args under the
// full-match reading: resolved => classical truth; required data missing =>
// false; optional data missing => true.
func StmtHolds(s pol.Stmt, data val.V) (holds bool, specified bool) {
	r := pol.Eval(s, data)
	switch r {
	case pol.True:
		return true, true
	case pol.False:
		return false, true
	case pol.Unspecified:
		return false, false
	}
	// Unresolved: only flat statements have a defined reading here
	if pol.IsCmp(s.Op) || s.Op == "like" || s.Op == "all" || s.Op == "any" {
		_, st := sel.Resolve(s.Sel, data)
		switch st {
		case sel.Error:
			return false, true
		case sel.NoValue:
			return true, true
		case sel.Value:
			// quantifier whose inner statement did not resolve: not generated
			return false, false
		}
	}
	return false, false
}

// Eval computes the rules for a case. effArgs are the arguments that are to be
// checked (the hook's, when a hook is used).
func Eval(c Case) Rules {
	var r Rules
	if func() bool {
		for _, l := range c.Links {
			if l.ViaRoot {
				return true
			}
		}
		return false
	}() {
		ls := append([]Link{}, c.Links...)
		for i := range ls {
			if ls[i].ViaRoot {
				ls[i].Sub = ls[i].Iss
			}
		}
		c.Links = ls
	}
	n := len(c.Links)
	r.R[1] = n > 0
	r.R[2] = true
	for _, l := range c.Links {
		if l.Missing || l.LoaderErr {
			r.R[2] = false
		}
	}
	if c.ForeignProof > 0 {
		r.R[2] = false // a proof reference that is not a delegation cannot be loaded as one
	}
	r.R[3] = n > 0 && c.Links[0].Aud == c.Inv.Iss
	r.R[4] = true
	for i := 0; i+1 < n; i++ {
		if c.Links[i].Iss != c.Links[i+1].Aud {
			r.R[4] = false
		}
	}
	r.R[5] = n > 0 && c.Links[n-1].Iss == c.Links[n-1].Sub
	r.R[6] = true
	for _, l := range c.Links {
		if l.Sub != c.Inv.Sub {
			r.R[6] = false
		}
	}
	r.R[7] = n > 0 && Covers(c.Links[0].Cmd, c.Inv.Cmd)
	for i := 0; i+1 < n; i++ {
		if !Covers(c.Links[i+1].Cmd, c.Links[i].Cmd) {
			r.R[7] = false
		}
	}
	for _, l := range c.Links {
		if l.RawCmd != nil {
			r.R[7] = false // not a command: covers nothing, is covered by nothing
		}
	}
	eff := c.Inv.Args
	hookOK := true
	if c.Inv.Hook != nil {
		eff = c.Inv.Hook.Args
		hookOK = !c.Inv.Hook.Err
	}
	data := val.V{K: "map", M: eff}
	r.R[8] = hookOK
	for li, l := range c.Links {
		for si, s := range l.Pol {
			ok, spec := StmtHolds(s, data)
			if !spec {
				r.PolicyUnspec = true
				r.UnspecOps = append(r.UnspecOps, fmt.Sprintf("%s/%d", s.Op, len(s.Sub)))
				continue
			}
			if !ok {
				r.R[8] = false
				r.FalseStmts = append(r.FalseStmts, [2]int{li, si})
			}
		}
	}
	r.R[9] = c.Inv.Exp == nil || *c.Inv.Exp > 0
	for _, l := range c.Links {
		if l.Exp != nil && l.ExpAbs == nil && *l.Exp <= 0 && l.RawExp == nil { // an absolute (far-future) expiration takes precedence
			r.R[9] = false
		}
		if l.Nbf != nil && *l.Nbf > 0 && l.RawNbf == nil {
			r.R[9] = false
		}
		// absolute bounds are only ever generated far (>= 100 years) in the future
		if l.NbfAbs != nil && l.RawNbf == nil {
			r.R[9] = false
		}
		// raw wire values (they replace whatever the descriptor said): judged against the clock with a margin of
		// two minutes, so only values far from now are used
		now := time.Now().Unix()
		if l.RawExp != nil && *l.RawExp <= now+120 {
			r.R[9] = false
		}
		if l.RawNbf != nil && *l.RawNbf >= now-120 {
			r.R[9] = false
		}
	}
	return r
}

func (r Rules) All(from, to int) bool {
	for i := from; i <= to; i++ {
		if !r.R[i] {
			return false
		}
	}
	return true
}

func (r Rules) Broken() []int {
	var out []int
	for i := 1; i <= 9; i++ {
		if !r.R[i] {
			out = append(out, i)
		}
	}
	return out
}

// FlakyLoader answers its FailAt-th lookup (counted from 1, over all CIDs) with a failure and every other lookup as
// Inner does: a store that times out once. Style: 0 a plain error, 1 ErrDelegationNotFound, 2 an error wrapping
// ErrDelegationNotFound, 3 (nil, nil).
type FlakyLoader struct {
	Inner  delegation.Loader
	FailAt int
	Style  int
	Calls  int
}

func (f *FlakyLoader) GetDelegation(c cid.Cid) (*delegation.Token, error) {
	f.Calls++
	if f.Calls == f.FailAt {
		switch f.Style % 4 {
		case 1:
			return nil, delegation.ErrDelegationNotFound
		case 2:
			return nil, fmt.Errorf("verif: store: %w", delegation.ErrDelegationNotFound)
		case 3:
			return nil, nil
		}
		return nil, errors.New("verif: store timed out")
	}
	return f.Inner.GetDelegation(c)
}

// FlakyAllowed runs the check against a store that fails ONE lookup - each lookup in turn, counted over the whole
// check, in each of the ways stores fail - and answers all others as b.Loader does. It reports the first
// configuration under which the invocation is allowed. For chains that must be denied whatever the store does.
func FlakyAllowed(b *Built, nLinks int, hook *Hook) (string, bool) {
	for k := 1; k <= 3*nLinks+2; k++ {
		for style := 0; style < 4; style++ {
			fb := *b
			fl := &FlakyLoader{Inner: b.Loader, FailAt: k, Style: style}
			fb.Loader = fl
			if df := Decide(&fb, hook); df.Allowed {
				return fmt.Sprintf("the loader failed its lookup number %d (style %d) and answered the other %d", k, style, fl.Calls-1), true
			}
			if fl.Calls < k {
				return "", false // the check does not make that many lookups
			}
		}
	}
	return "", false
}

// Package pol describes policies as plain data, builds them (as IPLD for
// policy.FromIPLD, or through the constructors) and evaluates them with a
// reference evaluator written from the statement of property C11. The
// evaluator does not import the policy package.
package pol

import (
	"math"

	"github.com/ipld/go-ipld-prime"
	"github.com/ipld/go-ipld-prime/datamodel"
	"github.com/ipld/go-ipld-prime/fluent/qp"
	"github.com/ipld/go-ipld-prime/node/basicnode"

	"github.com/ucan-wg/go-ucan/pkg/policy"
	"github.com/ucan-wg/go-ucan/pkg/policy/literal"

	"verif/harness/sel"
	"verif/harness/val"
)

// Stmt is one policy statement.
// Op: == < <= > >= like not and or all any
type Stmt struct {
	Op  string   `json:"op"`
	Sel sel.Sel  `json:"sel,omitempty"`
	Lit *val.V   `json:"lit,omitempty"`
	Pat string   `json:"pat,omitempty"`
	Sub []Stmt   `json:"sub,omitempty"`
	// LitGo: the literal is handed to the library as a GO value (map[string]any, []any, int64, string ...) through
	// literal.Any, the way callers write policy literals - not as a prebuilt IPLD node. A Go map has no order: the
	// order of the literal's keys is then the library's choice.
	LitGo bool `json:"lit_go,omitempty"`
}

// ToGo renders a value as the Go value a caller would write (no nulls inside: literal.Any has no spelling for them).
func ToGo(v val.V) any {
	switch v.Kind() {
	case "int":
		return v.I
	case "str":
		return v.StrVal()
	case "bool":
		return v.B
	case "float":
		return v.Float64()
	case "bytes":
		return append([]byte{}, v.X...)
	case "list":
		out := make([]any, len(v.L))
		for i, e := range v.L {
			out[i] = ToGo(e)
		}
		return out
	case "map":
		out := map[string]any{}
		for _, e := range v.M {
			out[e.K] = ToGo(e.V)
		}
		return out
	}
	return v.Node()
}

func (s Stmt) litNode() ipld.Node {
	if s.LitGo {
		if n, err := literal.Any(ToGo(*s.Lit)); err == nil {
			return n
		}
	}
	return s.Lit.Node()
}

type Policy []Stmt

func IsCmp(op string) bool {
	switch op {
	case "==", "<", "<=", ">", ">=":
		return true
	}
	return false
}

// IPLD renders the policy as the list-of-tuples form FromIPLD reads.
func (p Policy) IPLD() ipld.Node {
	n, err := qp.BuildList(basicnode.Prototype.Any, int64(len(p)), func(la datamodel.ListAssembler) {
		for _, s := range p {
			qp.ListEntry(la, s.assemble())
		}
	})
	if err != nil {
		panic(err)
	}
	return n
}

func (s Stmt) assemble() qp.Assemble {
	switch {
	case IsCmp(s.Op):
		return qp.List(3, func(la datamodel.ListAssembler) {
			qp.ListEntry(la, qp.String(s.Op))
			qp.ListEntry(la, qp.String(s.Sel.Text()))
			qp.ListEntry(la, qp.Node(s.litNode()))
		})
	case s.Op == "like":
		return qp.List(3, func(la datamodel.ListAssembler) {
			qp.ListEntry(la, qp.String(s.Op))
			qp.ListEntry(la, qp.String(s.Sel.Text()))
			qp.ListEntry(la, qp.String(s.Pat))
		})
	case s.Op == "not":
		return qp.List(2, func(la datamodel.ListAssembler) {
			qp.ListEntry(la, qp.String(s.Op))
			qp.ListEntry(la, s.Sub[0].assemble())
		})
	case s.Op == "and" || s.Op == "or":
		return qp.List(2, func(la datamodel.ListAssembler) {
			qp.ListEntry(la, qp.String(s.Op))
			qp.ListEntry(la, qp.List(int64(len(s.Sub)), func(lb datamodel.ListAssembler) {
				for _, c := range s.Sub {
					qp.ListEntry(lb, c.assemble())
				}
			}))
		})
	case s.Op == "all" || s.Op == "any":
		return qp.List(3, func(la datamodel.ListAssembler) {
			qp.ListEntry(la, qp.String(s.Op))
			qp.ListEntry(la, qp.String(s.Sel.Text()))
			qp.ListEntry(la, s.Sub[0].assemble())
		})
	}
	panic("pol: op " + s.Op)
}

// Constructor builds the statement through the package's constructor functions.
func (s Stmt) Constructor() policy.Constructor {
	switch s.Op {
	case "==":
		return policy.Equal(s.Sel.Text(), s.litNode())
	case "<":
		return policy.LessThan(s.Sel.Text(), s.litNode())
	case "<=":
		return policy.LessThanOrEqual(s.Sel.Text(), s.litNode())
	case ">":
		return policy.GreaterThan(s.Sel.Text(), s.litNode())
	case ">=":
		return policy.GreaterThanOrEqual(s.Sel.Text(), s.litNode())
	case "like":
		return policy.Like(s.Sel.Text(), s.Pat)
	case "not":
		return policy.Not(s.Sub[0].Constructor())
	case "and", "or":
		cs := make([]policy.Constructor, len(s.Sub))
		for i, c := range s.Sub {
			cs[i] = c.Constructor()
		}
		if s.Op == "and" {
			return policy.And(cs...)
		}
		return policy.Or(cs...)
	case "all":
		return policy.All(s.Sel.Text(), s.Sub[0].Constructor())
	case "any":
		return policy.Any(s.Sel.Text(), s.Sub[0].Constructor())
	}
	panic("pol: op " + s.Op)
}

func (p Policy) Construct() (policy.Policy, error) {
	cs := make([]policy.Constructor, len(p))
	for i, s := range p {
		cs[i] = s.Constructor()
	}
	return policy.Construct(cs...)
}

// Build goes through FromIPLD (viaIPLD) or the constructors.
func (p Policy) Build(viaIPLD bool) (policy.Policy, error) {
	if viaIPLD {
		return policy.FromIPLD(p.IPLD())
	}
	return p.Construct()
}

// ---------- reference glob (C13) ----------

type globTok struct {
	star bool
	c    byte
}

// GlobTokens tokenises a pattern: unescaped '*' = wildcard, '\c' = literal c,
// anything else itself. ok=false for a pattern ending in a lone backslash.
func GlobTokens(p string) (toks []globTok, ok bool) {
	for i := 0; i < len(p); i++ {
		switch {
		case p[i] == '\\':
			if i+1 >= len(p) {
				return nil, false
			}
			i++
			toks = append(toks, globTok{c: p[i]})
		case p[i] == '*':
			toks = append(toks, globTok{star: true})
		default:
			toks = append(toks, globTok{c: p[i]})
		}
	}
	return toks, true
}

// Glob decides membership of s in the language of pattern p by dynamic programming.
func Glob(p, s string) (match bool, valid bool) {
	toks, ok := GlobTokens(p)
	if !ok {
		return false, false
	}
	// reach[j] = tokens consumed so far can match s[:j]
	reach := make([]bool, len(s)+1)
	reach[0] = true
	for _, tk := range toks {
		next := make([]bool, len(s)+1)
		if tk.star {
			seen := false
			for j := 0; j <= len(s); j++ {
				seen = seen || reach[j]
				next[j] = seen
			}
		} else {
			for j := 0; j < len(s); j++ {
				if reach[j] && s[j] == tk.c {
					next[j+1] = true
				}
			}
		}
		reach = next
	}
	return reach[len(s)], true
}

// ---------- reference evaluation (C11 clause 1) ----------

// Res is the result of the reference evaluation of a statement.
type Res int

const (
	True Res = iota
	False
	Unresolved  // some selector did not resolve (error / no value): clause 1 does not apply
	Unspecified // the statement is silent (NaN ordering, empty or, map key order, ...)
)

func (r Res) String() string { return [...]string{"true", "false", "unresolved", "unspecified"}[r] }

func worst(a, b Res) Res { // Unspecified > Unresolved > others (keeps a if both classical)
	if a == Unspecified || b == Unspecified {
		return Unspecified
	}
	if a == Unresolved || b == Unresolved {
		return Unresolved
	}
	return a
}

// deepEqual: kinds, scalars and list order exact. Maps: equal entry sets in
// the same order => true; equal entry sets in different order => unspecified.
func deepEqual(a, b val.V) Res {
	if a.Kind() != b.Kind() {
		return False
	}
	switch a.Kind() {
	case "null":
		return True
	case "bool":
		return bres(a.B == b.B)
	case "int":
		// an integer above MaxInt64 (uint) equals only the same integer: two different numbers are not equal,
		// whatever the width they need
		if a.K == "uint" && b.K == "uint" {
			return bres(a.U == b.U)
		}
		if a.K == "uint" || b.K == "uint" {
			return False
		}
		return bres(a.I == b.I)
	case "float":
		x, y := a.Float64(), b.Float64()
		if math.IsNaN(x) || math.IsNaN(y) {
			return False // NaN equals nothing, itself included (the classical, IEEE reading); -0 equals 0
		}
		return bres(x == y)
	case "str":
		return bres(a.StrVal() == b.StrVal())
	case "bytes":
		return bres(string(a.X) == string(b.X))
	case "link":
		return bres(a.Cid() == b.Cid())
	case "list":
		if len(a.L) != len(b.L) {
			return False
		}
		out := True
		for i := range a.L {
			r := deepEqual(a.L[i], b.L[i])
			if r == False {
				return False
			}
			out = worst(out, r)
		}
		return out
	case "map":
		if len(a.M) != len(b.M) {
			return False
		}
		out := True
		sameOrder := true
		for i, e := range a.M {
			o, ok := b.Get(e.K)
			if !ok {
				return False
			}
			if b.M[i].K != e.K {
				sameOrder = false
			}
			r := deepEqual(e.V, o)
			if r == False {
				return False
			}
			out = worst(out, r)
		}
		// a map is its entries: the order of the keys is not the policy author's or the invoker's to choose (the
		// library sorts arguments and literals, DAG-CBOR re-orders both on the wire), see fix 76d04ea
		_ = sameOrder
		return out
	}
	return Unspecified
}

func bres(b bool) Res {
	if b {
		return True
	}
	return False
}

func ordered(op string, actual, lit val.V) Res {
	if actual.Kind() == "int" && lit.Kind() == "int" {
		if actual.K == "uint" || lit.K == "uint" {
			// an integer above MaxInt64 is larger than every int64. Where the classical answer is "false" the
			// statement is false, full stop; where it is "true" the library is documented to refuse such numbers
			// (fail closed), which the properties allow, so no verdict is given.
			var c int
			switch {
			case actual.K == "uint" && lit.K == "uint":
				c = cmp3u(actual.U, lit.U)
			case actual.K == "uint":
				c = 1
			default:
				c = -1
			}
			if cmpRes(op, c) == False {
				return False
			}
			return Unspecified
		}
		return cmpRes(op, cmp3(actual.I, lit.I))
	}
	if actual.Kind() == "float" && lit.Kind() == "float" {
		x, y := actual.Float64(), lit.Float64()
		if math.IsNaN(x) || math.IsNaN(y) {
			return False // every ordered comparison with NaN is false
		}
		c := 0
		if x < y {
			c = -1
		} else if x > y {
			c = 1
		}
		if math.IsInf(x, 0) || math.IsInf(y, 0) {
			// same split as for big integers: classically false is false, classically true is left open
			if cmpRes(op, c) == False {
				return False
			}
			return Unspecified
		}
		return cmpRes(op, c)
	}
	return False // numbers of the same kind only
}

func cmp3u(a, b uint64) int {
	if a < b {
		return -1
	}
	if a > b {
		return 1
	}
	return 0
}

func cmp3(a, b int64) int {
	if a < b {
		return -1
	}
	if a > b {
		return 1
	}
	return 0
}

func cmpRes(op string, c int) Res {
	switch op {
	case "<":
		return bres(c < 0)
	case "<=":
		return bres(c <= 0)
	case ">":
		return bres(c > 0)
	case ">=":
		return bres(c >= 0)
	}
	panic(op)
}

// Eval evaluates one statement on data under the classical reading. It never
// short-circuits: every selector is resolved so that Unresolved reliably
// means "clause 1 of C11 does not apply".
func Eval(s Stmt, data val.V) Res {
	switch {
	case IsCmp(s.Op) || s.Op == "like":
		v, st := sel.Resolve(s.Sel, data)
		switch st {
		case sel.Unspecified:
			return Unspecified
		case sel.Error, sel.NoValue:
			return Unresolved
		}
		switch s.Op {
		case "==":
			if s.LitGo && s.Lit.Kind() == "map" && v.Kind() == "map" && len(s.Sel) == 1 && s.Sel[0].Kind == "id" {
				// a literal written as a Go map against the argument set as a whole: neither side has an order of
				// the caller's choosing (the library orders both), so equality is equality of the entries
				if len(s.Lit.M) != len(v.M) {
					return False
				}
				out := True
				for _, e := range s.Lit.M {
					o, ok := v.Get(e.K)
					if !ok {
						return False
					}
					r := deepEqual(e.V, o)
					if r == False {
						return False
					}
					out = worst(out, r)
				}
				return out
			}
			return deepEqual(*s.Lit, v)
		case "like":
			if v.Kind() != "str" {
				return False
			}
			m, ok := Glob(s.Pat, v.StrVal())
			if !ok {
				return Unspecified
			}
			return bres(m)
		default:
			return ordered(s.Op, v, *s.Lit)
		}
	case s.Op == "not":
		r := Eval(s.Sub[0], data)
		switch r {
		case True:
			return False
		case False:
			return True
		}
		return r
	case s.Op == "and":
		out := True
		agg := True
		for _, c := range s.Sub {
			r := Eval(c, data)
			agg = worst(agg, r)
			if r == False {
				out = False
			}
		}
		if agg == Unspecified || agg == Unresolved {
			return agg
		}
		return out
	case s.Op == "or":
		if len(s.Sub) == 0 {
			return Unspecified
		}
		out := False
		agg := True
		for _, c := range s.Sub {
			r := Eval(c, data)
			agg = worst(agg, r)
			if r == True {
				out = True
			}
		}
		if agg == Unspecified || agg == Unresolved {
			return agg
		}
		return out
	case s.Op == "all" || s.Op == "any":
		v, st := sel.Resolve(s.Sel, data)
		switch st {
		case sel.Unspecified:
			return Unspecified
		case sel.Error, sel.NoValue:
			return Unresolved
		}
		if v.Kind() != "list" {
			return Unspecified // quantifier over a non-list: not fixed by the statement
		}
		out := s.Op == "all"
		agg := True
		for _, e := range v.L {
			r := Eval(s.Sub[0], e)
			agg = worst(agg, r)
			if s.Op == "all" && r == False {
				out = false
			}
			if s.Op == "any" && r == True {
				out = true
			}
		}
		if agg == Unspecified || agg == Unresolved {
			return agg
		}
		return bres(out)
	}
	panic("pol: op " + s.Op)
}

// EvalPolicy: all statements true. Unresolved/Unspecified propagate.
func EvalPolicy(p Policy, data val.V) Res {
	out := True
	agg := True
	for _, s := range p {
		r := Eval(s, data)
		agg = worst(agg, r)
		if r == False {
			out = False
		}
	}
	if agg == Unspecified || agg == Unresolved {
		return agg
	}
	return out
}

// Kinds lists the statement kinds used (for distinctness / histograms).
func (p Policy) Kinds() map[string]int {
	m := map[string]int{}
	var w func(s Stmt)
	w = func(s Stmt) {
		m[s.Op]++
		for _, c := range s.Sub {
			w(c)
		}
	}
	for _, s := range p {
		w(s)
	}
	return m
}

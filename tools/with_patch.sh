#!/bin/sh
# usage: with_patch.sh <patch.diff> <cmd...>   apply patch to /repo, run cmd, always revert
p="$1"; shift
git -C /repo apply "$p" || { echo "patch does not apply"; exit 3; }
"$@"; rc=$?
git -C /repo checkout -- . 
git -C /repo status --short | grep -v '^??' && echo "WARNING: /repo not clean"
exit $rc
